(** * C04, rung 1: the lexical productions of [G_xml] re-parse what the printer writes.

    For each production P and every value x that satisfies the invariant [..._ok x] (what the
    printer needs to know about x: "all characters are name characters", "no -- inside", ...) and
    every continuation [r] that satisfies the follow condition of P:

        yields P (print_P x ++ r) (value of x) r

    i.e. for all sufficiently large fuel, [denote G_xml fuel (NT P)] consumes exactly the printed
    text and returns a tree whose interpretation ([ParseActions.eval_tree]) is x.  Everything is
    universally quantified over the strings; nothing is computed on samples. *)
From Coq Require Import List NArith Arith Lia Bool.
From XmlRs Require Import Base.CPred Model.Peg Gen.XmlcharGen Gen.GrammarXmlGen Model.ParseActions
     Proofs.PegTermination Proofs.PegLemmas.
Import ListNotations.
Local Open Scope N_scope.

Notation P := (parses G_xml).
Notation F := (fails G_xml).

(** [e] on [s] consumes up to [r] and its tree means [v] *)
Definition yields (e : pexpr) (s : str) (v : val) (r : str) : Prop :=
  exists t, P e s t r /\ eval_tree t = v.

Lemma yields_nt n s v r : yields (body G_xml n) s v r -> yields (NT n) s v r.
Proof. intros [t [H E]]. exists t. split; [apply parses_nt; exact H|exact E]. Qed.

Lemma yields_alt_l a b s v r : yields a s v r -> yields (Alt a b) s v r.
Proof. intros [t [H E]]. exists t. split; [apply parses_alt_l; exact H|exact E]. Qed.

Lemma yields_alt_r a b s v r : F a s -> yields b s v r -> yields (Alt a b) s v r.
Proof. intros Hf [t [H E]]. exists t. split; [apply parses_alt_r; assumption|exact E]. Qed.

Lemma yields_map l e s v r : yields e s v r -> yields (Map l e) s (apply_label l v) r.
Proof. intros [t [H E]]. exists (TMap l t). split; [apply parses_map; exact H|cbn [eval_tree]; rewrite E; reflexivity]. Qed.

(** [v] is given explicitly so that the label can be computed first *)
Lemma yields_map' v l e s w r : apply_label l v = w -> yields e s v r -> yields (Map l e) s w r.
Proof. intros <- H. apply yields_map. exact H. Qed.

Lemma yields_seq a b s va r1 vb r2 : yields a s va r1 -> yields b r1 vb r2 -> yields (Seq a b) s (VPair va vb) r2.
Proof.
  intros [ta [Ha Ea]] [tb [Hb Eb]]. exists (TPair ta tb). split; [eapply parses_seq; eassumption|].
  cbn [eval_tree]. rewrite Ea, Eb. reflexivity.
Qed.

Lemma yields_seql a b s va r1 tb r2 : yields a s va r1 -> P b r1 tb r2 -> yields (SeqL a b) s va r2.
Proof. intros [ta [Ha Ea]] Hb. exists ta. split; [eapply parses_seql; eassumption|exact Ea]. Qed.

Lemma yields_seqr a b s ta r1 vb r2 : P a s ta r1 -> yields b r1 vb r2 -> yields (SeqR a b) s vb r2.
Proof. intros Ha [tb [Hb Eb]]. exists tb. split; [eapply parses_seqr; eassumption|exact Eb]. Qed.

Lemma yields_opt_some e s v r : yields e s v r -> yields (Opt e) s (VSome v) r.
Proof. intros [t [H E]]. exists (TSome t). split; [apply parses_opt_some; exact H|cbn [eval_tree]; rewrite E; reflexivity]. Qed.

Lemma yields_opt_none e s : F e s -> yields (Opt e) s VNone s.
Proof. intros H. exists TNone. split; [apply parses_opt_none; exact H|reflexivity]. Qed.

Lemma yields_str e s a r : P e s (TStr a) r -> yields e s (VStr a) r.
Proof. intros H. exists (TStr a). split; [exact H|reflexivity]. Qed.

(** repetition: the list of values *)
Inductive many_yields (e : pexpr) : str -> list val -> str -> Prop :=
| my_stop s : F e s -> many_yields e s [] s
| my_step s v r1 vs r : yields e s v r1 -> (length r1 < length s)%nat -> many_yields e r1 vs r ->
                        many_yields e s (v :: vs) r.

Lemma yields_many0 e s vs r : many_yields e s vs r -> yields (Many0 e) s (VList vs) r.
Proof.
  intros H. assert (exists ts, many_parses G_xml e s ts r /\ map eval_tree ts = vs) as [ts [Hp Hm]].
  { induction H as [s Hf|s v r1 vs r [t [Ht Et]] Hlt _ [ts [Hp Hm]]].
    - exists []. split; [constructor; exact Hf|reflexivity].
    - exists (t :: ts). split; [econstructor; eassumption|cbn [map]; rewrite Et, Hm; reflexivity]. }
  exists (TList ts). split; [apply parses_many0; exact Hp|cbn [eval_tree]; rewrite Hm; reflexivity].
Qed.

(** ** span, once more: every string splits into its maximal [f]-prefix and the rest *)
Lemma span_split (f : char -> bool) (s : str) :
  exists a b : str, s = a ++ b /\ forallb f a = true /\ stops f b.
Proof.
  induction s as [|c s [a [b [-> [Ha Hb]]]]].
  - exists [], []. repeat split.
  - destruct (f c) eqn:E.
    + exists (c :: a), b. repeat split; [cbn [forallb]; rewrite E, Ha; reflexivity|exact Hb].
    + exists [], (c :: a ++ b). repeat split. exact E.
Qed.

Lemma forallb_app_r {A} (f : A -> bool) a b : forallb f (a ++ b) = true -> forallb f b = true.
Proof. rewrite forallb_app. intros H. apply andb_prop in H. tauto. Qed.
Lemma forallb_app_l {A} (f : A -> bool) a b : forallb f (a ++ b) = true -> forallb f a = true.
Proof. rewrite forallb_app. intros H. apply andb_prop in H. tauto. Qed.

Lemma stops_weaken (f g : char -> bool) (r : str) : (forall c, f c = true -> g c = true) -> stops g r -> stops f r.
Proof.
  intros H. destruct r as [|c r]; cbn [stops]; [auto|]. intros Hg.
  destruct (f c) eqn:E; [|reflexivity]. rewrite (H c E) in Hg. discriminate.
Qed.

Lemma stops_app (f : char -> bool) (a r : str) : stops f r -> (a <> [] -> stops f a) -> stops f (a ++ r).
Proof. destruct a as [|c a]; cbn; intros H1 H2; [exact H1|apply H2; discriminate]. Qed.

(** ** character classes *)
Definition ws : cpred := InR [(32,32);(9,9);(13,13);(10,10)].

Lemma name_start_is_name c : eval is_name_start_char c = true -> eval is_name_char c = true.
Proof. intros H. unfold is_name_char. cbn [eval]. rewrite H. reflexivity. Qed.

Lemma except_sub (p : cpred) ex c : eval (And p (NotIn ex)) c = true -> eval p c = true.
Proof. cbn [eval]. intros H. apply andb_prop in H. tauto. Qed.

Lemma name_char_except_colon c : eval (is_name_char_except [58]) c = true -> eval is_name_char c = true.
Proof. apply except_sub. Qed.

Lemma name_start_except_colon c : eval (is_name_start_char_except [58]) c = true -> eval (is_name_char_except [58]) c = true.
Proof.
  unfold is_name_start_char_except, is_name_char_except. cbn [eval]. intros H. apply andb_prop in H.
  destruct H as [H1 H2]. rewrite (name_start_is_name c H1), H2. reflexivity.
Qed.

Lemma not_name_char_not_colon (r : str) : stops (eval is_name_char) r -> prefix [58] r = None.
Proof.
  destruct r as [|c r]; cbn [stops prefix]; [reflexivity|]. intros H.
  destruct (N.eqb_spec 58 c) as [<-|]; [|reflexivity]. vm_compute in H. discriminate.
Qed.

(** ** Name *)
Lemma body_name : body G_xml nt_name = Recognize (Seq (NT nt_multinamestartchar0) (NT nt_multinamechar0)).
Proof. reflexivity. Qed.
Lemma body_mnsc0 : body G_xml nt_multinamestartchar0 = Chars0 is_name_start_char.
Proof. reflexivity. Qed.
Lemma body_mnc0 : body G_xml nt_multinamechar0 = Chars0 is_name_char.
Proof. reflexivity. Qed.

Definition name_ok (n : str) : Prop := forallb (eval is_name_char) n = true.

Theorem parses_name (n r : str) : name_ok n -> stops (eval is_name_char) r -> P (NT nt_name) (n ++ r) (TStr n) r.
Proof.
  intros Hn Hr. apply parses_nt. rewrite body_name.
  destruct (span_split (eval is_name_start_char) n) as [n1 [n2 [-> [H1 H2]]]].
  apply parses_recognize with (t := TPair (TStr n1) (TStr n2)). rewrite <- app_assoc.
  eapply parses_seq.
  - apply parses_nt. rewrite body_mnsc0. apply parses_chars0; [exact H1|].
    apply stops_app; [|intros _; exact H2].
    eapply stops_weaken; [apply name_start_is_name|exact Hr].
  - apply parses_nt. rewrite body_mnc0. apply parses_chars0; [|exact Hr].
    eapply forallb_app_r. exact Hn.
Qed.

(** ** NCName, QName *)
Lemma body_ncname : body G_xml nt_ncname =
  Recognize (Seq (Chars1 (is_name_start_char_except [58])) (Chars0 (is_name_char_except [58]))).
Proof. reflexivity. Qed.

Definition ncname_ok (n : str) : Prop :=
  match n with
  | c :: n' => eval (is_name_start_char_except [58]) c = true /\ forallb (eval (is_name_char_except [58])) n' = true
  | [] => False
  end.

Theorem parses_ncname (n r : str) : ncname_ok n -> stops (eval (is_name_char_except [58])) r ->
  P (NT nt_ncname) (n ++ r) (TStr n) r.
Proof.
  destruct n as [|c n]; [intros []|]. intros [Hc Hn] Hr. apply parses_nt. rewrite body_ncname.
  destruct (span_split (eval (is_name_start_char_except [58])) n) as [n1 [n2 [-> [H1 H2]]]].
  apply parses_recognize with (t := TPair (TStr (c :: n1)) (TStr n2)).
  replace ((c :: n1 ++ n2) ++ r) with ((c :: n1) ++ n2 ++ r) by (cbn [app]; rewrite app_assoc; reflexivity).
  eapply parses_seq.
  - apply parses_chars1; [discriminate|apply andb_true_intro; split; [exact Hc|exact H1]|].
    apply stops_app; [|intros _; exact H2].
    eapply stops_weaken; [apply name_start_except_colon|exact Hr].
  - apply parses_chars0; [|exact Hr]. eapply forallb_app_r. exact Hn.
Qed.

Lemma body_qname : body G_xml nt_qname =
  Alt (Map L_model_QName_from (NT nt_prefixed_name)) (Map L_model_QName_from (NT nt_ncname)).
Proof. reflexivity. Qed.
Lemma body_prefixed_name : body G_xml nt_prefixed_name =
  Map L_model_PrefixedName_from (Seq (NT nt_ncname) (SeqR (Tag [58]) (NT nt_ncname))).
Proof. reflexivity. Qed.

Definition qname_ok (q : qname) : Prop :=
  match q with Prefixed p l => ncname_ok p /\ ncname_ok l | Unprefixed n => ncname_ok n end.

Definition d_qname (q : qname) : str :=
  match q with Prefixed p l => p ++ 58 :: l | Unprefixed n => n end.

(** the tree of a QName is determined by the name (needed by [VerifyEq]: start tag = end tag) *)
Definition tree_qname (q : qname) : tree :=
  match q with
  | Prefixed p l => TMap L_model_QName_from (TMap L_model_PrefixedName_from (TPair (TStr p) (TStr l)))
  | Unprefixed n => TMap L_model_QName_from (TStr n)
  end.

Lemma eval_tree_qname q : eval_tree (tree_qname q) = VQName q.
Proof. destruct q; reflexivity. Qed.

Lemma stops_colon_except (r : str) : stops (eval (is_name_char_except [58])) (58 :: r).
Proof. reflexivity. Qed.

Theorem parses_qname (q : qname) (r : str) : qname_ok q -> stops (eval is_name_char) r ->
  P (NT nt_qname) (d_qname q ++ r) (tree_qname q) r.
Proof.
  intros Hq Hr.
  assert (stops (eval (is_name_char_except [58])) r) as Hr' by (eapply stops_weaken; [apply name_char_except_colon|exact Hr]).
  apply parses_nt. rewrite body_qname. destruct q as [p l|n]; cbn [d_qname tree_qname qname_ok] in *.
  - destruct Hq as [Hp Hl]. apply parses_alt_l. apply parses_map. apply parses_nt. rewrite body_prefixed_name.
    apply parses_map. rewrite <- app_assoc. cbn [app]. eapply parses_seq.
    + apply parses_ncname; [exact Hp|apply stops_colon_except].
    + eapply parses_seqr; [apply parses_tag_lit; reflexivity|].
      apply parses_ncname; assumption.
  - apply parses_alt_r.
    + apply fails_map. apply fails_nt. rewrite body_prefixed_name. apply fails_map.
      eapply fails_seq_r; [apply parses_ncname; eassumption|].
      apply fails_seqr_l. apply fails_tag. apply not_name_char_not_colon. exact Hr.
    + apply parses_map. apply parses_ncname; assumption.
Qed.

(** ** white space and Eq *)
Lemma body_eq : body G_xml nt_eq = SeqR (Chars0 ws) (SeqL (Tag [61]) (Chars0 ws)).
Proof. reflexivity. Qed.

(** the printer writes a bare `=` *)
Theorem parses_eq (r : str) : stops (eval ws) r -> P (NT nt_eq) (61 :: r) (TStr [61]) r.
Proof.
  intros Hr. apply parses_nt. rewrite body_eq.
  eapply parses_seqr; [apply parses_chars0_nil; reflexivity|].
  change (61 :: r) with ([61] ++ r). eapply parses_seql; [apply parses_tag|apply parses_chars0_nil; exact Hr].
Qed.

(** one space, as the printer writes between a tag name and an attribute *)
Lemma parses_space1 (r : str) : stops (eval ws) r -> P (Chars1 ws) (32 :: r) (TStr [32]) r.
Proof. intros Hr. change (32 :: r) with ([32] ++ r). apply parses_chars1; [discriminate|reflexivity|exact Hr]. Qed.

Lemma parses_ws0_nil (r : str) : stops (eval ws) r -> P (Chars0 ws) r (TStr []) r.
Proof. apply parses_chars0_nil. Qed.

Lemma parses_ws0_space (r : str) : stops (eval ws) r -> P (Chars0 ws) (32 :: r) (TStr [32]) r.
Proof. intros Hr. change (32 :: r) with ([32] ++ r). apply parses_chars0; [reflexivity|exact Hr]. Qed.

(** ** references *)
Lemma body_reference : body G_xml nt_reference = Alt (NT nt_entity_ref) (NT nt_char_ref).
Proof. reflexivity. Qed.
Lemma body_entity_ref : body G_xml nt_entity_ref =
  Map L_model_Reference_entity (SeqR (Tag [38]) (SeqL (NT nt_name) (Tag [59]))).
Proof. reflexivity. Qed.
Lemma body_char_ref : body G_xml nt_char_ref =
  Alt (Map L_model_Reference_digit (SeqR (Tag [38;35]) (SeqL (Chars1 (InR [(48,57)])) (Tag [59]))))
      (Map L_model_Reference_hex (SeqR (Tag [38;35;120]) (SeqL (Chars1 (InR [(48,57);(65,70);(97,102)])) (Tag [59])))).
Proof. reflexivity. Qed.

Definition dec_digits : cpred := InR [(48,57)].
Definition hex_digits : cpred := InR [(48,57);(65,70);(97,102)].

Definition reference_ok (x : reference) : Prop :=
  match x with
  | RefEntity n => name_ok n
  | RefChar num Dec => num <> [] /\ forallb (eval dec_digits) num = true
  | RefChar num Hex => num <> [] /\ forallb (eval hex_digits) num = true
  end.

Definition d_reference (x : reference) : str :=
  match x with
  | RefEntity n => 38 :: n ++ [59]
  | RefChar num Dec => 38 :: 35 :: num ++ [59]
  | RefChar num Hex => 38 :: 35 :: 120 :: num ++ [59]
  end.

Lemma stops_semicolon p (r : str) : eval p 59 = false -> stops (eval p) (59 :: r).
Proof. intros H. exact H. Qed.

Ltac tag := apply parses_tag_lit; reflexivity.

Theorem yields_reference (x : reference) (r : str) : reference_ok x ->
  yields (NT nt_reference) (d_reference x ++ r) (VReference x) r.
Proof.
  intros Hx. apply yields_nt. rewrite body_reference. destruct x as [num [|]|n]; cbn [reference_ok d_reference app] in *.
  - (* decimal *) destruct Hx as [Hne Hd]. rewrite <- app_assoc. apply yields_alt_r.
    + apply fails_nt. rewrite body_entity_ref. apply fails_map.
      eapply fails_seqr_r; [tag|]. eapply fails_seql_r; [apply (parses_name [] (35 :: num ++ [59] ++ r)); reflexivity|].
      apply fails_tag. reflexivity.
    + apply yields_nt. rewrite body_char_ref. apply yields_alt_l.
      apply (yields_map' (VStr num)); [reflexivity|].
      eapply yields_seqr; [tag|].
      eapply yields_seql; [apply yields_str; apply parses_chars1; [exact Hne|exact Hd|reflexivity]|tag].
  - (* hexadecimal *) destruct Hx as [Hne Hd]. rewrite <- app_assoc. apply yields_alt_r.
    + apply fails_nt. rewrite body_entity_ref. apply fails_map.
      eapply fails_seqr_r; [tag|]. eapply fails_seql_r; [apply (parses_name [] (35 :: 120 :: num ++ [59] ++ r)); reflexivity|].
      apply fails_tag. reflexivity.
    + apply yields_nt. rewrite body_char_ref. apply yields_alt_r.
      * apply fails_map. eapply fails_seqr_r; [tag|]. apply fails_seql_l. apply fails_chars1. reflexivity.
      * apply (yields_map' (VStr num)); [reflexivity|].
        eapply yields_seqr; [tag|].
        eapply yields_seql; [apply yields_str; apply parses_chars1; [exact Hne|exact Hd|reflexivity]|tag].
  - (* entity *) rewrite <- app_assoc. apply yields_alt_l. apply yields_nt. rewrite body_entity_ref.
    apply (yields_map' (VStr n)); [reflexivity|].
    eapply yields_seqr; [tag|].
    eapply yields_seql; [apply yields_str; apply parses_name; [exact Hx|reflexivity]|tag].
Qed.
