(** * number -> string: the digits that [f64_fmt_decimal] prints.

    [f64_fmt_decimal x] prints [strip_trailing_zeros (Z_digits d) k] for the answer (d, k) of
    [f64_shortest x].  For a valid finite double the answer exists (totality), the printed digit
    list is non-empty, denotes the same decimal as (d, k), and is at most as long as the digit
    count of any decimal that reads back as |x| (minimality of what is printed). *)
From Coq Require Import ZArith NArith Reals Lia Lra Bool List.
From Coq Require Import Floats.SpecFloat.
From Flocq Require Import Core.Core.
From XmlRs Require Import Base.CPred Base.Float64 Proofs.Float64Flocq Proofs.Float64Shortest
  Proofs.Float64ShortestMin.
Import ListNotations.
Open Scope Z_scope.

(** the number denoted by a list of digit values, most significant first *)
Definition dval (ds : list N) : Z := fold_left (fun a c => 10 * a + Z.of_N c) ds 0.

Lemma dval_snoc l c : dval (l ++ [c]) = 10 * dval l + Z.of_N c.
Proof. unfold dval. now rewrite fold_left_app. Qed.

Definition digit (c : N) : Prop := (c < 10)%N.

(** [Z_digits_aux] with enough fuel: the decimal digits of z, in front of the accumulator *)
Lemma Z_digits_aux_spec fuel : forall z acc, 0 < z -> z < 2 ^ Z.of_nat fuel ->
  exists l, Z_digits_aux fuel z acc = l ++ acc /\ l <> [] /\ dval l = z /\ Forall digit l /\
            10 ^ (Z.of_nat (length l) - 1) <= z < 10 ^ Z.of_nat (length l) /\
            (10 <= z -> exists l', l = l' ++ [Z.to_N (z mod 10)] /\ l' <> []).
Proof.
  induction fuel as [|fuel IH]; intros z acc Hz Hf.
  - change (2 ^ Z.of_nat 0) with 1 in Hf. lia.
  - cbn [Z_digits_aux]. destruct (Z.ltb_spec z 10) as [Hlt|Hge].
    + exists [Z.to_N z]. split; [reflexivity|]. split; [discriminate|]. split.
      * unfold dval. cbn [fold_left]. rewrite Z2N.id by lia. lia.
      * split; [constructor; [unfold digit; lia|constructor]|].
        cbn [length]. change (10 ^ (Z.of_nat 1 - 1)) with 1. change (10 ^ Z.of_nat 1) with 10.
        split; [lia|]. intros; lia.
    + assert (Hq : 0 < z / 10) by (apply Z.div_str_pos; lia).
      assert (Hqf : z / 10 < 2 ^ Z.of_nat fuel).
      { rewrite Nat2Z.inj_succ, Z.pow_succ_r in Hf by lia.
        apply Z.div_lt_upper_bound; lia. }
      destruct (IH (z / 10) (Z.to_N (z mod 10) :: acc) Hq Hqf) as (l' & E & Hne & Hv & Hd & Hb & _).
      pose proof (Z.mod_pos_bound z 10 ltac:(lia)) as Hm.
      pose proof (Z.div_mod z 10 ltac:(lia)) as Hdm.
      exists (l' ++ [Z.to_N (z mod 10)]). split; [rewrite E, <- app_assoc; reflexivity|].
      split; [intros Hc; apply app_eq_nil in Hc as [_ Hc]; discriminate|].
      split; [rewrite dval_snoc, Hv, Z2N.id by lia; lia|].
      split; [apply Forall_app; split; [exact Hd|constructor; [unfold digit; lia|constructor]]|].
      split.
      * rewrite app_length. cbn [length]. rewrite Nat2Z.inj_add. change (Z.of_nat 1) with 1.
        replace (Z.of_nat (length l') + 1 - 1) with (Z.succ (Z.of_nat (length l') - 1)) by lia.
        assert (1 <= Z.of_nat (length l')).
        { destruct l'; [now elim Hne|cbn [length]; lia]. }
        rewrite Z.pow_succ_r by lia. rewrite Z.add_1_r, Z.pow_succ_r by lia. lia.
      * intros _. exists l'. split; [reflexivity|exact Hne].
Qed.

Lemma Z_digits_spec z : 0 < z ->
  Z_digits z <> [] /\ dval (Z_digits z) = z /\ Forall digit (Z_digits z) /\
  10 ^ (Z.of_nat (length (Z_digits z)) - 1) <= z < 10 ^ Z.of_nat (length (Z_digits z)) /\
  (10 <= z -> exists l', Z_digits z = l' ++ [Z.to_N (z mod 10)] /\ l' <> []).
Proof.
  intros Hz. unfold Z_digits.
  assert (Hf : z < 2 ^ Z.of_nat (S (Z.to_nat (Z.log2 z)))).
  { rewrite Nat2Z.inj_succ, Z2Nat.id by apply Z.log2_nonneg. now apply Z.log2_spec. }
  destruct (Z_digits_aux_spec _ z [] Hz Hf) as (l & E & H). rewrite E, app_nil_r. exact H.
Qed.

(** stripping trailing zeros: never longer, never empty, same decimal *)
Lemma strip_zeros_rev_spec rds : forall k, rds <> [] ->
  let r := strip_zeros_rev rds k in
  fst r <> [] /\ (length (fst r) <= length rds)%nat /\ (Forall digit rds -> Forall digit (fst r)) /\
  (IZR (dval (fst r)) * bpow ten (snd r) = IZR (dval (rev rds)) * bpow ten k)%R /\
  (forall y t, rds = 0%N :: y :: t -> (length (fst r) < length rds)%nat).
Proof.
  induction rds as [|c tl IH]; intros k Hne; [now elim Hne|]. cbv zeta.
  assert (Hstop : forall l, l = c :: tl ->
     rev l <> [] /\ (length (rev l) <= length l)%nat /\ (Forall digit l -> Forall digit (rev l))).
  { intros l ->. split; [cbn [rev]; intros Hc; apply app_eq_nil in Hc as [_ Hc]; discriminate|].
    split; [rewrite rev_length; lia|]. apply Forall_rev. }
  destruct c as [|p].
  - destruct tl as [|y t].
    + cbn [strip_zeros_rev fst snd]. destruct (Hstop _ eq_refl) as (A & B & C).
      repeat split; try assumption. intros y t [=].
    + specialize (IH (k + 1) ltac:(discriminate)). cbv zeta in IH.
      change (strip_zeros_rev (0%N :: y :: t) k) with (strip_zeros_rev (y :: t) (k + 1)).
      destruct IH as (A & B & C & D & _). split; [exact A|]. split; [cbn [length] in *; lia|].
      split; [intros HF; apply C; now inversion HF|]. split.
      * rewrite D. change (rev (0%N :: y :: t)) with (rev (y :: t) ++ [0%N]).
        rewrite dval_snoc. change (Z.of_N 0) with 0. rewrite Z.add_0_r, mult_IZR.
        rewrite bpow_plus. change (bpow ten 1) with 10%R. ring.
      * intros y' t' _. cbn [length] in *. lia.
  - cbn [strip_zeros_rev fst snd]. destruct (Hstop _ eq_refl) as (A & B & C).
    repeat split; try assumption. intros y t [=].
Qed.

Lemma fmt_digits_nonempty ds k : ds <> [] -> f64_fmt_digits ds k <> [].
Proof.
  intros Hne. unfold f64_fmt_digits.
  destruct (0 <=? k).
  - destruct ds; [now elim Hne|discriminate].
  - destruct (0 <? _); [|discriminate]. intros Hc. apply app_eq_nil in Hc as [_ Hc]. discriminate.
Qed.

(** what is printed for a valid finite double *)
Theorem fmt_decimal_digits s m e : bounded prec emax m e = true ->
  exists d k ds k1,
    f64_shortest (S754_finite s m e) = Some (d, k) /\
    strip_trailing_zeros (Z_digits d) k = (ds, k1) /\
    f64_fmt_decimal (S754_finite s m e) = f64_fmt_digits ds k1 /\
    f64_fmt_decimal (S754_finite s m e) <> [] /\
    ds <> [] /\ Forall digit ds /\
    (IZR (dval ds) * bpow ten k1 = IZR d * bpow ten k)%R /\
    (forall d' k' n', 0 <= n' -> d' < 10 ^ n' ->
       f64_of_decimal false d' k' = S754_finite false m e -> Z.of_nat (length ds) <= n').
Proof.
  intros Hb. destruct (f64_shortest (S754_finite s m e)) as [[d k]|] eqn:Hs;
    [|now elim (shortest_total s m e Hb)].
  destruct (shortest_minimal s m e d k Hb Hs) as (n & Hn & _ & Hd & _).
  assert (Hp : 0 < 10 ^ (n - 1)) by (apply Z.pow_pos_nonneg; lia).
  assert (Hd0 : 0 < d) by lia.
  destruct (Z_digits_spec d Hd0) as (Zne & Zv & Zd & Zb & Zlast).
  assert (Hrne : rev (Z_digits d) <> []).
  { intros Hc. apply (f_equal (@rev N)) in Hc. rewrite rev_involutive in Hc. now apply Zne. }
  pose proof (strip_zeros_rev_spec (rev (Z_digits d)) k Hrne) as Hst.
  destruct (strip_trailing_zeros (Z_digits d) k) as [ds k1] eqn:Est.
  unfold strip_trailing_zeros in Est. cbv zeta in Hst. rewrite Est in Hst. cbn [fst snd] in Hst.
  destruct Hst as (A & B & C & D & F). rewrite rev_involutive, Zv in D. rewrite rev_length in B.
  exists d, k, ds, k1. split; [reflexivity|]. split; [exact Est|].
  assert (Hfmt : f64_fmt_decimal (S754_finite s m e) = f64_fmt_digits ds k1).
  { unfold f64_fmt_decimal. rewrite Hs. unfold strip_trailing_zeros. now rewrite Est. }
  split; [exact Hfmt|]. split; [rewrite Hfmt; now apply fmt_digits_nonempty|].
  split; [exact A|]. split; [apply C; now apply Forall_rev|]. split; [exact D|].
  intros d' k' n' Hn' Hd' Hr.
  destruct (shortest_fewest_digits s m e d k Hb Hs d' k' n' Hn' Hd' Hr) as [_ Hle].
  set (len := Z.of_nat (length (Z_digits d))) in *.
  destruct (Z.eq_dec d (10 ^ n')) as [Heq|Hne].
  - (* d = 10^n': the last digit is a zero and is stripped *)
    assert (Hn1 : 1 <= n').
    { destruct (Z.eq_dec n' 0) as [->|]; [|lia]. change (10 ^ 0) with 1 in Hd'.
      exfalso. pose proof (Proofs.Float64ShortestMin.reads_in_range m e d' k' Hr) as [Hpos _]. lia. }
    assert (H10 : 10 <= d).
    { rewrite Heq. change 10 with (10 ^ 1) at 1. apply Z.pow_le_mono_r; lia. }
    destruct (Zlast H10) as (l' & El & Hl').
    assert (Hmod : d mod 10 = 0).
    { rewrite Heq. replace n' with (Z.succ (n' - 1)) by lia. rewrite Z.pow_succ_r by lia.
      rewrite Z.mul_comm. apply Z.mod_mul. lia. }
    rewrite Hmod in El. change (Z.to_N 0) with 0%N in El.
    assert (Hrev : exists y t, rev (Z_digits d) = 0%N :: y :: t).
    { rewrite El, rev_app_distr. cbn [rev app]. destruct (rev l') as [|y t] eqn:Er.
      - exfalso. apply (f_equal (@rev N)) in Er. rewrite rev_involutive in Er. now apply Hl'.
      - now exists y, t. }
    destruct Hrev as (y & t & Hrev). specialize (F y t Hrev). rewrite rev_length in F.
    assert (len <= n' + 1).
    { destruct (Z.le_gt_cases len (n' + 1)) as [Hc|Hc]; [exact Hc|exfalso].
      assert (10 ^ (n' + 1) <= 10 ^ (len - 1)) by (apply Z.pow_le_mono_r; lia).
      assert (10 ^ n' < 10 ^ (n' + 1)) by (apply Z.pow_lt_mono_r; lia). lia. }
    unfold len in *. lia.
  - assert (len <= n'); [|unfold len in *; lia].
    destruct (Z.le_gt_cases len n') as [Hc|Hc]; [exact Hc|exfalso].
    assert (10 ^ n' <= 10 ^ (len - 1)) by (apply Z.pow_le_mono_r; lia). lia.
Qed.

(** 1e23 prints as 1 followed by 23 zeros (answer (10, 22): the carry is stripped to one digit),
    0.1 prints as "0.1", -0.30000000000000004 prints its 17 digits *)
Example fmt_examples :
  f64_fmt_decimal (S754_finite false 5960464477539062 24) = 49%N :: repeat 48%N 23 /\
  f64_fmt_decimal (S754_finite false 7205759403792794 (-56)) = [48; 46; 49]%N /\
  length (f64_fmt_decimal (S754_finite true 5404319552844596 (-54))) = 19%nat.
Proof. repeat split; vm_compute; reflexivity. Qed.
