(** * XPath 1.0 core function library and operators on scalar values (the oracle of C09).

    Transcription of the recommendation (W3C REC-xpath-19991116): section 4.2 string functions,
    4.3 boolean functions, 4.4 number functions, the conversions [string()], [number()],
    [boolean()] of section 4, and the operators of 3.4 / 3.5 on booleans, numbers and strings.
    Strings are lists of code points; every position and length is in CHARACTERS.  Numbers are
    IEEE 754 doubles ([Base.Float64]).  Independent of /repo.

    Node-sets appear only as [VNodes l], the list of the string-values of the nodes in document
    order: that is all the conversions need.  Functions whose result depends on more of the
    context node (last, position, lang, id, and the name functions) answer [RNeedsNode]: they
    belong to the evaluator (C05), only their arity is specified here.

    Readings adopted where the text leaves room:
    - string(number) for an integer too large to be written with 17 significant digits uses
      the same "as many digits as needed to uniquely distinguish the number" rule as non-integers,
      followed by zeros (the text only says "in decimal form");
    - number("-0") is negative zero (the sign is applied to the magnitude, as unary minus does). *)
From Coq Require Import ZArith NArith List Bool Lia Ascii String.
From Coq Require Import Floats.SpecFloat.
From XmlRs Require Import Base.CPred Base.Float64.
Import ListNotations.
Open Scope N_scope.

(** ** values, results *)
Inductive value :=
| VBool (b : bool)
| VNum (x : f64)
| VStr (s : str)
| VNodes (l : list str).

Inductive xerr := EInvalidType | EInvalidArgumentCount | ENotFoundFunction.

(** [RPanic] is produced by models of the implementation only, never by this file *)
Inductive fres :=
| ROk (v : value)
| RErr (e : xerr)
| RPanic
| RNeedsNode.

Definition scalar (v : value) : Prop := match v with VNodes _ => False | _ => True end.
Definition scalar_args (args : list value) : Prop := Forall scalar args.

(** ** string literals as code points *)
Fixpoint str_of (s : string) : str :=
  match s with
  | EmptyString => []
  | String a r => N_of_ascii a :: str_of r
  end.

(** the literals used below, as explicit code-point lists (so that nothing of type [string]
    is left in the extracted code) *)
Definition lit_NaN : str := Eval cbv in str_of "NaN".
Definition lit_0 : str := Eval cbv in str_of "0".
Definition lit_minus : str := Eval cbv in str_of "-".
Definition lit_Infinity : str := Eval cbv in str_of "Infinity".
Definition lit_true : str := Eval cbv in str_of "true".
Definition lit_false : str := Eval cbv in str_of "false".

Fixpoint str_eqb (a b : str) : bool :=
  match a, b with
  | [], [] => true
  | x :: a', y :: b' => (x =? y) && str_eqb a' b'
  | _, _ => false
  end.

Fixpoint str_len (s : str) : N :=
  match s with [] => 0 | _ :: t => N.succ (str_len t) end.

(** ** white space and digits: S ::= (#x20 | #x9 | #xD | #xA)+, Digits ::= [0-9]+ *)
Definition is_ws (c : char) : bool := (c =? 0x20) || (c =? 0x9) || (c =? 0xD) || (c =? 0xA).
Definition is_digit (c : char) : bool := (48 <=? c) && (c <=? 57).

Fixpoint span (p : char -> bool) (s : str) : str * str :=
  match s with
  | c :: t => if p c then let '(a, b) := span p t in (c :: a, b) else ([], s)
  | [] => ([], [])
  end.

Fixpoint drop_while (p : char -> bool) (s : str) : str :=
  match s with
  | c :: t => if p c then drop_while p t else s
  | [] => []
  end.

(** value of a digit string *)
Definition digits_val (ds : str) : Z :=
  fold_left (fun a c => (10 * a + (Z.of_N c - 48))%Z) ds 0%Z.

(** ** section 4: conversions *)

(** number -> string (4.2 [string]): NaN, 0 for both zeros, Infinity / -Infinity, otherwise
    positional decimal notation without exponent, no leading zeros except the one before the
    decimal point, and as many digits as needed to distinguish the number from all other doubles *)
Definition xp_number_to_string (x : f64) : str :=
  match x with
  | S754_nan => lit_NaN
  | S754_zero _ => lit_0
  | S754_infinity s => (if s then lit_minus else []) ++ lit_Infinity
  | S754_finite s _ _ => (if s then lit_minus else []) ++ f64_fmt_decimal x
  end.

Definition xp_string (v : value) : str :=
  match v with
  | VStr s => s
  | VBool b => if b then lit_true else lit_false
  | VNum x => xp_number_to_string x
  | VNodes l => match l with s :: _ => s | [] => [] end
  end.

(** string -> number (4.4 [number]): optional white space, optional minus sign, a Number
    ([Digits ('.' Digits?)? | '.' Digits]), optional white space; anything else is NaN.
    The result [(neg, D, k)] stands for (-1)^neg * D * 10^k. *)
Definition all_ws (s : str) : bool := forallb is_ws s.

(** [(true, rest)] when the string starts with [c] *)
Definition strip_char (c : char) (s : str) : bool * str :=
  match s with
  | x :: t => if x =? c then (true, t) else (false, s)
  | [] => (false, s)
  end.

Definition nonempty (s : str) : bool := match s with [] => false | _ => true end.

Definition xp_parse_number (s : str) : option (bool * Z * Z) :=
  let s1 := drop_while is_ws s in
  let '(neg, s2) := strip_char 45 s1 in           (* '-' *)
  let '(ip, s3) := span is_digit s2 in
  let '(dot, s4) := strip_char 46 s3 in           (* '.' *)
  if dot then
    (* Digits '.' Digits?  |  '.' Digits *)
    let '(fp, s5) := span is_digit s4 in
    if all_ws s5 && (nonempty ip || nonempty fp)
    then Some (neg, digits_val (ip ++ fp), (- Z.of_nat (List.length fp))%Z)
    else None
  else
    (* Digits *)
    if all_ws s3 && nonempty ip then Some (neg, digits_val ip, 0%Z) else None.

Definition xp_string_to_number (s : str) : f64 :=
  match xp_parse_number s with
  | Some (neg, D, k) => f64_of_decimal neg D k
  | None => f64_nan
  end.

Definition xp_number (v : value) : f64 :=
  match v with
  | VNum x => x
  | VBool b => if b then f64_one else f64_zero
  | VStr s => xp_string_to_number s
  | VNodes l => xp_string_to_number (match l with s :: _ => s | [] => [] end)
  end.

(** 4.3 [boolean]: a number is true iff it is neither a zero nor NaN; a node-set iff non-empty;
    a string iff its length is non-zero *)
Definition xp_boolean (v : value) : bool :=
  match v with
  | VBool b => b
  | VNum x => match x with S754_nan | S754_zero _ => false | _ => true end
  | VStr s => match s with [] => false | _ => true end
  | VNodes l => match l with [] => false | _ => true end
  end.

(** ** 4.2 string functions *)
Fixpoint prefixb (p s : str) : bool :=
  match p, s with
  | [], _ => true
  | x :: p', y :: s' => (x =? y) && prefixb p' s'
  | _ :: _, [] => false
  end.

Definition xp_starts_with (a b : str) : bool := prefixb b a.

Fixpoint xp_contains (a b : str) : bool :=
  prefixb b a || match a with [] => false | _ :: t => xp_contains t b end.

(** the part of [a] before / after the first occurrence of [b]; "" when [b] does not occur *)
Fixpoint before_first (a b : str) : option str :=
  if prefixb b a then Some []
  else match a with
       | [] => None
       | c :: t => match before_first t b with Some r => Some (c :: r) | None => None end
       end.

Fixpoint after_first (a b : str) : option str :=
  if prefixb b a then Some (skipn (List.length b) a)
  else match a with
       | [] => None
       | _ :: t => after_first t b
       end.

Definition xp_substring_before (a b : str) : str :=
  match before_first a b with Some r => r | None => [] end.
Definition xp_substring_after (a b : str) : str :=
  match after_first a b with Some r => r | None => [] end.

(** characters whose position (the first is 1, positions are numbers) satisfies [keep] *)
Fixpoint filter_pos (keep : f64 -> bool) (p : N) (s : str) : str :=
  match s with
  | [] => []
  | c :: t => if keep (f64_of_N p) then c :: filter_pos keep (p + 1) t else filter_pos keep (p + 1) t
  end.

(** 4.2 [substring]: the characters whose position is >= round(start) and, if a length is given,
    < round(start) + round(length), with IEEE comparisons and addition *)
Definition xp_substring (s : str) (start : f64) (len : option f64) : str :=
  let st := f64_xround start in
  match len with
  | None => filter_pos (fun p => f64_leb st p) 1 s
  | Some l =>
      let en := f64_add st (f64_xround l) in
      filter_pos (fun p => f64_leb st p && f64_ltb p en) 1 s
  end.

Definition xp_string_length (s : str) : f64 := f64_of_N (str_len s).

(** 4.2 [normalize-space]: leading and trailing white space stripped, every other run of white
    space replaced by one space.  [started]: a non-space character was already emitted;
    [pending]: white space was seen since. *)
Fixpoint norm_space (started pending : bool) (s : str) : str :=
  match s with
  | [] => []
  | c :: t =>
      if is_ws c then norm_space started started t
      else (if pending then [32] else []) ++ c :: norm_space true false t
  end.
Definition xp_normalize_space (s : str) : str := norm_space false false s.

(** 4.2 [translate]: characters of [from] are replaced by the character at the same position of
    [to], removed when [to] is shorter; the first occurrence in [from] decides; extra characters
    of [to] are ignored *)
Fixpoint translate_map (from to : str) (c : char) : option (option char) :=
  match from with
  | [] => None
  | x :: from' =>
      if x =? c then Some (match to with y :: _ => Some y | [] => None end)
      else translate_map from' (match to with _ :: to' => to' | [] => [] end) c
  end.

Definition xp_translate (s from to : str) : str :=
  flat_map (fun c => match translate_map from to c with
                     | None => [c]
                     | Some (Some y) => [y]
                     | Some None => []
                     end) s.

(** ** 4.4 number functions *)
Definition xp_sum (l : list str) : f64 :=
  fold_left (fun a s => f64_add a (xp_string_to_number s)) l f64_zero.
Definition xp_floor : f64 -> f64 := f64_floor.
Definition xp_ceiling : f64 -> f64 := f64_ceil.
Definition xp_round : f64 -> f64 := f64_xround.

(** ** 3.4 comparisons and 3.5 arithmetic on scalars *)
Inductive binop := OEq | ONe | OLt | OLe | OGt | OGe | OAdd | OSub | OMul | ODiv | OMod.

Definition is_vbool (v : value) := match v with VBool _ => true | _ => false end.
Definition is_vnum (v : value) := match v with VNum _ => true | _ => false end.
Definition is_vnodes (v : value) := match v with VNodes _ => true | _ => false end.

Definition f64_gtb (a b : f64) : bool := match f64_compare a b with Some Gt => true | _ => false end.
Definition f64_geb (a b : f64) : bool := match f64_compare a b with Some (Gt | Eq) => true | _ => false end.

(** [=]: if one operand is a boolean both are converted to booleans; otherwise if one is a number
    both to numbers; otherwise both to strings *)
Definition xp_equal (a b : value) : bool :=
  if is_vbool a || is_vbool b then Bool.eqb (xp_boolean a) (xp_boolean b)
  else if is_vnum a || is_vnum b then f64_eqb (xp_number a) (xp_number b)
  else str_eqb (xp_string a) (xp_string b).

Definition spec_op (o : binop) (a b : value) : fres :=
  if is_vnodes a || is_vnodes b then RNeedsNode else
  match o with
  | OEq => ROk (VBool (xp_equal a b))
  | ONe => ROk (VBool (negb (xp_equal a b)))
  | OLt => ROk (VBool (f64_ltb (xp_number a) (xp_number b)))
  | OLe => ROk (VBool (f64_leb (xp_number a) (xp_number b)))
  | OGt => ROk (VBool (f64_gtb (xp_number a) (xp_number b)))
  | OGe => ROk (VBool (f64_geb (xp_number a) (xp_number b)))
  | OAdd => ROk (VNum (f64_add (xp_number a) (xp_number b)))
  | OSub => ROk (VNum (f64_sub (xp_number a) (xp_number b)))
  | OMul => ROk (VNum (f64_mul (xp_number a) (xp_number b)))
  | ODiv => ROk (VNum (f64_div (xp_number a) (xp_number b)))
  | OMod => ROk (VNum (f64_rem (xp_number a) (xp_number b)))
  end.

Definition spec_neg (a : value) : fres :=
  if is_vnodes a then RNeedsNode else ROk (VNum (f64_neg (xp_number a))).

(** 3.7 a Number token of an expression ([Digits ('.' Digits?)? | '.' Digits], no sign, no white
    space) denotes the nearest double *)
Definition spec_literal (s : str) : fres :=
  if fst (strip_char 45 s) || existsb is_ws s then RErr EInvalidType
  else match xp_parse_number s with
       | Some (neg, D, k) => ROk (VNum (f64_of_decimal neg D k))
       | None => RErr EInvalidType
       end.

(** ** the function library: names, arities (section 4), dispatch *)
Inductive fname :=
| Flast | Fposition | Fcount | Fid | Flocal_name | Fnamespace_uri | Fname
| Fstring | Fconcat | Fstarts_with | Fcontains | Fsubstring_before | Fsubstring_after
| Fsubstring | Fstring_length | Fnormalize_space | Ftranslate
| Fboolean | Fnot | Ftrue | Ffalse | Flang
| Fnumber | Fsum | Ffloor | Fceiling | Fround.

(** name, minimal and maximal number of arguments ([None]: unbounded) *)
Definition library : list (fname * str * N * option N) := Eval cbv in [
  (Flast, str_of "last", 0, Some 0); (Fposition, str_of "position", 0, Some 0); (Fcount, str_of "count", 1, Some 1);
  (Fid, str_of "id", 1, Some 1); (Flocal_name, str_of "local-name", 0, Some 1);
  (Fnamespace_uri, str_of "namespace-uri", 0, Some 1); (Fname, str_of "name", 0, Some 1);
  (Fstring, str_of "string", 0, Some 1); (Fconcat, str_of "concat", 2, None);
  (Fstarts_with, str_of "starts-with", 2, Some 2); (Fcontains, str_of "contains", 2, Some 2);
  (Fsubstring_before, str_of "substring-before", 2, Some 2); (Fsubstring_after, str_of "substring-after", 2, Some 2);
  (Fsubstring, str_of "substring", 2, Some 3); (Fstring_length, str_of "string-length", 0, Some 1);
  (Fnormalize_space, str_of "normalize-space", 0, Some 1); (Ftranslate, str_of "translate", 3, Some 3);
  (Fboolean, str_of "boolean", 1, Some 1); (Fnot, str_of "not", 1, Some 1); (Ftrue, str_of "true", 0, Some 0);
  (Ffalse, str_of "false", 0, Some 0); (Flang, str_of "lang", 1, Some 1);
  (Fnumber, str_of "number", 0, Some 1); (Fsum, str_of "sum", 1, Some 1); (Ffloor, str_of "floor", 1, Some 1);
  (Fceiling, str_of "ceiling", 1, Some 1); (Fround, str_of "round", 1, Some 1)
].

(** the arity table in the shape the translator T3 produces for the implementation *)
Definition arity_table : list (str * N * option N) :=
  map (fun e => let '(_, n, mn, mx) := e in (n, mn, mx)) library.

Fixpoint lookup_arity (f : str) (t : list (str * N * option N)) : option (N * option N) :=
  match t with
  | [] => None
  | (n, mn, mx) :: t' => if str_eqb n f then Some (mn, mx) else lookup_arity f t'
  end.

Fixpoint fname_of (f : str) (t : list (fname * str * N * option N)) : option fname :=
  match t with
  | [] => None
  | (id, n, _, _) :: t' => if str_eqb n f then Some id else fname_of f t'
  end.

Definition arity_in (n : N) (mn : N) (mx : option N) : bool :=
  (mn <=? n) && match mx with Some m => n <=? m | None => true end.

Definition arity_ok (f : str) (args : list value) : Prop :=
  exists mn mx, lookup_arity f arity_table = Some (mn, mx) /\
                arity_in (N.of_nat (List.length args)) mn mx = true.

(** the argument, or the context node converted to a string when it is omitted *)
Definition arg_or_context (cs : str) (args : list value) : value :=
  match args with a :: _ => a | [] => VStr cs end.

(** [cs] is the string-value of the context node *)
Definition spec_call (cs : str) (f : fname) (args : list value) : fres :=
  match f, args with
  | Fstring, _ => ROk (VStr (xp_string (arg_or_context cs args)))
  | Fconcat, _ => ROk (VStr (List.concat (map xp_string args)))
  | Fstarts_with, [a; b] => ROk (VBool (xp_starts_with (xp_string a) (xp_string b)))
  | Fcontains, [a; b] => ROk (VBool (xp_contains (xp_string a) (xp_string b)))
  | Fsubstring_before, [a; b] => ROk (VStr (xp_substring_before (xp_string a) (xp_string b)))
  | Fsubstring_after, [a; b] => ROk (VStr (xp_substring_after (xp_string a) (xp_string b)))
  | Fsubstring, [a; b] => ROk (VStr (xp_substring (xp_string a) (xp_number b) None))
  | Fsubstring, [a; b; c] => ROk (VStr (xp_substring (xp_string a) (xp_number b) (Some (xp_number c))))
  | Fstring_length, _ => ROk (VNum (xp_string_length (xp_string (arg_or_context cs args))))
  | Fnormalize_space, _ => ROk (VStr (xp_normalize_space (xp_string (arg_or_context cs args))))
  | Ftranslate, [a; b; c] => ROk (VStr (xp_translate (xp_string a) (xp_string b) (xp_string c)))
  | Fboolean, [a] => ROk (VBool (xp_boolean a))
  | Fnot, [a] => ROk (VBool (negb (xp_boolean a)))
  | Ftrue, [] => ROk (VBool true)
  | Ffalse, [] => ROk (VBool false)
  | Fnumber, _ => ROk (VNum (xp_number (arg_or_context cs args)))
  | Fsum, [VNodes l] => ROk (VNum (xp_sum l))
  | Fsum, [_] => RErr EInvalidType
  | Ffloor, [a] => ROk (VNum (xp_floor (xp_number a)))
  | Fceiling, [a] => ROk (VNum (xp_ceiling (xp_number a)))
  | Fround, [a] => ROk (VNum (xp_round (xp_number a)))
  | Fcount, [VNodes l] => ROk (VNum (f64_of_N (N.of_nat (List.length l))))
  | Fcount, [_] => RErr EInvalidType
  | (Flocal_name | Fnamespace_uri | Fname), [(VBool _ | VNum _ | VStr _)] => RErr EInvalidType
  | (Flast | Fposition | Fid | Flang | Flocal_name | Fnamespace_uri | Fname), _ => RNeedsNode
  | _, _ => RErr EInvalidArgumentCount
  end.

Definition spec_fn (cs : str) (f : str) (args : list value) : fres :=
  match fname_of f library, lookup_arity f arity_table with
  | Some id, Some (mn, mx) =>
      if arity_in (N.of_nat (List.length args)) mn mx then spec_call cs id args
      else RErr EInvalidArgumentCount
  | _, _ => RErr ENotFoundFunction
  end.
