"""C02 -- ill-formed input is never reported as a completely parsed document.

Failing-input search: the extracted specification (Spec.XmlWF, XML 1.0 5th ed. + Namespaces) against the
real `XmlDocument::from_raw` on (a) single (thorough: also double) token/character edits of rendered
well-formed documents, (b) one crafted family per production and per well-formedness constraint,
(c) the grammar-sentence stream of the regenerated PEG.  A failing input is a string the specification
calls ill-formed and the implementation accepts with empty rest.  The specification itself is
cross-validated against expat on every case; disagreements are reported separately ("oracle
disagreement") and never as violations of the property."""
import json, re, os, sys, time
from . import lib, wfcommon as W
sys.path.insert(0, os.path.join(lib.VERIF, 'tools', 'gen'))
import expat_oracle, peggen

FINDINGS = {
    'D04': 'a Name (not NCName) position -- entity, notation, NDATA or notation-type name, PI target, entity reference -- starts with a NameChar that is no NameStartChar, or is empty, and the document is accepted (pinned by info tests: <!ENTITY 1 ...>)',
    'WF13': 'ill-formed replacement text that only shows when the text of a REFERENCED entity is re-read: the entity literal yields "&" or "<" (character reference to #38 / markup) and the inner reference / tag violates a constraint',
    'WFNS20': 'namespace constraint (not XML 1.0): a colon in an entity name, notation name or PI target, or a name that is no QName, accepted',
    'WFNS21': 'namespace constraint (not XML 1.0): undeclared namespace prefix accepted at parse time (pinned by info test test_attribute_display_prefix)',
    'WFNS22': 'namespace constraint (not XML 1.0): reserved prefix / namespace name misuse or prefix undeclaring (xmlns:p="") accepted (pinned by info tests test_element_attribute, test_element_namespaces_inherit_ns_e2)',
    'WFNS23': 'namespace constraint (not XML 1.0): two attributes with the same expanded name accepted',
}

def classify(run, fails):
    """fails: list of dicts {input, x10, ns}.  Returns {finding id: [fail]} and the unclassified rest.
    Repair-based and narrow: a failure belongs to a class only when undoing exactly that class of
    defect (per the classifier text) makes the specification accept the string."""
    known, rest = {}, []
    # namespace-only failures: the string IS well-formed XML 1.0
    todo = []
    for f in fails:
        if f['x10'] == 'wf' and f['ns'].startswith('notwf:2'):
            known.setdefault('WFNS' + f['ns'][6:], []).append(f)
        else:
            todo.append(f)
    # D04: ask the relaxed specification (Spec.XmlWFRelaxed, generated from Spec.XmlWF: NameChar* at exactly
    # the Name positions the finding names).  Ill-formed per the specification and well-formed once nothing
    # but that relaxation is granted = an instance of D04.  All later classes are judged on top of that
    # relaxation (a document may combine D04 with another known class).
    sv = W.relaxed_verdicts(run, [f['input'] for f in todo]) if todo else []
    todo2 = []
    for f, (x10, ns, _) in zip(todo, sv):
        if x10 == 'wf':
            known.setdefault('D04', []).append(f)
        else:
            todo2.append(f)
    # WF13: drop the references to entities whose replacement text contains '<' or '&'
    rep2 = []
    for f in todo2:
        s = f['input']
        if W.has_reference_to_markup_entity(s):
            ents = W.entity_literals(s)
            for nm in ents:
                s = s.replace('&%s;' % nm, '')
            rep2.append(s)
        else:
            rep2.append(None)
    sv2 = W.relaxed_verdicts(run, [r for r in rep2 if r is not None]) if any(r is not None for r in rep2) else []
    it = iter(sv2)
    rest0 = []
    for f, r in zip(todo2, rep2):
        if r is not None:
            x10, ns, _ = next(it)
            if x10 == 'wf':
                known.setdefault('WF13', []).append(f); continue
        rest0.append(f)
    # WF13 (second form): the literal of a referenced entity holds markup ('<') that matches the grammar of
    # `content` but violates a well-formedness constraint INSIDE that markup (e.g. a duplicate attribute in a
    # tag written in the entity literal): the implementation keeps entity content as text and never builds
    # it.  Narrow: the literal alone, wrapped in an element, is ill-formed per the specification, and the
    # document without its entity references is well-formed.
    probes, owners = [], []
    for k, f in enumerate(rest0):
        s = f['input']
        ents = W.entity_literals(s)
        head = W.prolog_head(s)
        stripped = s
        for nm in ents:
            stripped = stripped.replace('&%s;' % nm, '')
        for nm, lit in ents.items():
            if '<' in lit and ('&%s;' % nm) in s:
                probes.append(re.sub(r'<!DOCTYPE\s+\S+', '<!DOCTYPE x', head, count=1) + '<x>' + lit + '</x>'); owners.append((k, 'lit'))
        probes.append(stripped); owners.append((k, 'stripped'))
    pv = W.relaxed_verdicts(run, probes) if probes else []
    bad_lit, ok_stripped = set(), set()
    for (k, kind), (x10, ns, _) in zip(owners, pv):
        if kind == 'lit' and x10 != 'wf': bad_lit.add(k)
        if kind == 'stripped' and x10 == 'wf': ok_stripped.add(k)
    for k, f in enumerate(rest0):
        if k in bad_lit and k in ok_stripped:
            known.setdefault('WF13', []).append(f)
        else:
            rest.append(f)
    return known, rest

def evaluate(run, cases, tag):
    """cases: [(string, origin)].  Runs implementation, specification and expat; returns failing inputs"""
    docs = [c[0] for c in cases]
    impl = W.run_impl(run, docs, 'v')
    spec = W.spec_verdicts(run, docs, 'v')
    fails = []
    disagreements = run.extra.setdefault('oracle_disagreements', [])
    known_diff = run.extra.setdefault('oracle_known_differences', {})
    for (d, origin), i, (x10, ns, _) in zip(cases, impl, spec):
        run.evaluations += 1
        run.count('%s:spec:%s' % (tag, 'wf' if ns == 'wf' else ('ns-only' if x10 == 'wf' else W.reason_of(x10))))
        run.count('%s:impl:%s' % (tag, i.split(':')[0] if not i.startswith('rest') else 'rest'))
        if x10 == 'crash':
            run.tie_breaks.append('specification driver failed on %r' % d[:80]); continue
        if len(d) > 0:
            run.nontrivial.add(d)
        # oracle: expat on the same string, both levels
        e10, ens = expat_oracle.verdict(d)
        if not e10.startswith('skip') and x10 != 'unsupported':
            for lvl, sv, ev in (('xml10', x10, e10), ('ns', ns, ens)):
                if (sv == 'wf') != (ev == 'wf'):
                    kd = expat_oracle.known_difference(d, sv == 'wf', ev == 'wf')
                    if kd:
                        known_diff[kd] = known_diff.get(kd, 0) + 1
                    elif len(disagreements) < 40:
                        disagreements.append({'input': d, 'level': lvl, 'spec': sv, 'expat': ev, 'origin': str(origin)[:80]})
                    run.count('oracle:%s' % ('known-difference' if kd else 'DISAGREEMENT'))
                else:
                    run.count('oracle:agree')
        if i == 'accept' and ns != 'wf' and x10 != 'unsupported':
            fails.append({'input': d, 'x10': x10, 'ns': ns, 'origin': str(origin)[:120], 'impl': i})
        elif i in ('panic', 'hang', 'abort'):
            run.count('%s:impl-%s-on-input' % (tag, i))
    return fails

def edit_stream(run, tier):
    """(a): token and character edits of rendered well-formed documents"""
    rng = run.rng
    cases = []
    nsmall = 60 if tier == 'quick' else 400
    gens = W.generated(run, nsmall, small=True, tag='edit-base')
    bases = []
    for g in gens:
        for r in (g['r1'], g['r2']):
            if g['valid'] and len(r) <= 400:
                bases.append(r)
    run.extra['edit_base_documents'] = len(bases)
    if tier == 'quick':
        target = 10000
        per = max(1, target // max(1, len(bases)))
        for b in bases:
            toks = W.tokens(b)
            chars = list(b)
            for _ in range(per // 2):
                e, t2 = W.random_edit(rng, toks, W.HOSTILE_TOKENS)
                cases.append((''.join(t2), ('tok',) + e))
            for _ in range(per - per // 2):
                e, c2 = W.random_edit(rng, chars, W.HOSTILE_CHARS)
                cases.append((''.join(c2), ('chr',) + e))
    else:
        small = [b for b in bases if len(W.tokens(b)) <= 25]
        tiny = [b for b in bases if len(W.tokens(b)) <= 12]
        run.extra['exhaustive_single_edit_documents'] = len(small[:120])
        for b in small[:120]:
            toks = W.tokens(b)
            pool = W.HOSTILE_TOKENS + sorted(set(toks))
            for e, t2 in W.single_edits(toks, pool):
                cases.append((''.join(t2), ('tok',) + e))
            chars = list(b)
            for e, c2 in W.single_edits(chars, W.HOSTILE_CHARS):
                cases.append((''.join(c2), ('chr',) + e))
        run.extra['exhaustive_double_edit_documents'] = len(tiny[:6])
        for b in tiny[:6]:
            toks = W.tokens(b)
            pool = ['<', '>', '&', '"', "'", '</', '/>', '--', ']]>', '=', ' ', 'x', ':'] + sorted(set(toks))
            firsts = list(W.single_edits(toks, pool))
            for e1, t1 in firsts:
                for e2, t2 in W.single_edits(t1, pool, kinds=('del', 'dup', 'swap') if len(firsts) > 400 else ('del', 'dup', 'swap', 'rep')):
                    cases.append((''.join(t2), ('tok2', e1, e2)))
    # de-duplicate, keep order
    seen, out = set(), []
    for c in cases:
        if c[0] not in seen:
            seen.add(c[0]); out.append(c)
    return out, bases

def sentence_stream(run, tier):
    """(c): sentences of the PEG regenerated from the Rust grammar, with mutations"""
    try:
        info = peggen.load_info('GrammarXmlGen')
    except Exception as ex:
        run.notes.append('peggen: %s' % ex); return []
    gen = peggen.Gen(info, run.rng)
    n = 1500 if tier == 'quick' else 20000
    out = []
    for k in range(n):
        try:
            s = gen.gen('document')
        except RecursionError:
            continue
        if len(s) > 600:
            continue
        m = k % 3
        if m == 1: s = peggen.mutate(s, run.rng, 1)
        elif m == 2: s = peggen.mutate(s, run.rng, 2)
        s = ''.join(chr(c) for c in s if peggen.valid_scalar(c))
        out.append((s, ('peg', m)))
    return out

def check(run):
    run.trusted = ['Coq 8.16.1 kernel + VM', 'Spec/XmlWF.v: transcription of XML 1.0 5th ed. productions [1]-[83] and the WFCs listed in its header (cross-validated against expat on every case of this run)',
                   'extraction (ExtrOcamlBasic only) + ocaml/specdomains/wf/wfdoc.ml', 'harness/src/domains/wfdoc.rs (from_raw verdict)', 'translator T2 for the lexical-rung lemmas',
                   'Model/Peg.v semantics of the nom combinators (prod correspondence)']
    if os.environ.get('VERIF_SEARCH_ONLY'):       # development aid: failing-input search without the proof step
        run.notes.append('VERIF_SEARCH_ONLY set: proof step skipped')
    else:
        proved, _ = lib.proof_step(run, 'C02', ['T1', 'T2'])
    okr, mok, sok = lib.build_binaries(run, model_areas=[], spec_areas=['wf', 'wfr'])
    if not (okr and sok.get('wf')):
        return run.finish(level='proof', rule='(binaries did not build)')
    fails = []
    t0 = time.time()
    # (b) crafted families first: they also test the specification against its own expectations
    F = W.crafted()
    sv = W.spec_verdicts(run, [d for _, d, _, _ in F])
    bad = 0
    for (fam, d, e10, ens), (x10, ns, _) in zip(F, sv):
        run.count('family:' + fam)
        if (x10 == 'wf') != e10 or (ns == 'wf') != ens:
            bad += 1
            if bad <= 5:
                run.tie_breaks.append('specification self-test: family %s, %r expected xml10=%s ns=%s, Spec.XmlWF says %s / %s' % (fam, d[:80], e10, ens, x10, ns))
    fails += evaluate(run, [(d, ('family', fam)) for fam, d, _, _ in F], 'family')
    run.extra['crafted_cases'] = len(F)
    # (a) edits
    cases, bases = edit_stream(run, run.tier)
    run.extra['edit_cases'] = len(cases)
    fails += evaluate(run, cases, 'edit')
    # the rendered documents themselves must be accepted by both (sanity of the stream)
    base_impl = W.run_impl(run, bases[:200], 'v')
    run.extra['base_documents_accepted_by_implementation'] = sum(1 for x in base_impl if x == 'accept')
    # (c) PEG sentences
    sent = sentence_stream(run, run.tier)
    run.extra['peg_sentence_cases'] = len(sent)
    fails += evaluate(run, sent, 'peg')
    run.extra['search_seconds'] = round(time.time() - t0, 1)
    # verdict
    known, rest = classify(run, fails)
    listed = {e.get('id'): e for e in lib.known_findings('C02')}
    for fid, fl in known.items():
        if fid in listed:
            run.known_hits[fid] = (FINDINGS[fid] + ' e.g. %r' % fl[0]['input'][:80], len(fl))
        else:
            rest += fl
    for f in rest:
        run.failing_inputs.append({'property': 'C02', 'class': 'accepted-ill-formed:' + W.reason_of(f['x10'] if f['x10'] != 'wf' else f['ns']),
                                   'what': 'from_raw accepts (empty rest) a string that is not well-formed: %s' % W.reason_of(f['x10'] if f['x10'] != 'wf' else f['ns']),
                                   'input': f['input'], 'input_codepoints': lib.enc(f['input']), 'spec_xml10': f['x10'], 'spec_ns': f['ns'],
                                   'implementation': f['impl'], 'origin': f['origin']})
    for k, c in enumerate(cases[:4] + sent[:3]):
        run.sample({'input': c[0][:200], 'origin': str(c[1])[:80]})
    for f in fails[:5]:
        run.sample({'accepted_ill_formed': f['input'][:200], 'spec': f['x10'], 'origin': f['origin']})
    return run.finish(level='proof',
        rule='cases = strings; distinct = distinct strings; non-trivial = non-empty; histogram: verdict of the specification per stream (family / edit / peg), implementation verdict classes, oracle agreement',
        assumptions=['Rust String = sequence of Unicode scalar values', 'the profile of Spec.XmlWF (no external subset, PE references between declarations unsupported)',
                     'expat differences listed in tools/gen/expat_oracle.py are not specification bugs'])

def replay(path):
    d = json.load(open(path))
    print(json.dumps({k: v for k, v in d.items() if k != 'input_codepoints'}, indent=1, ensure_ascii=False))
    if 'input' in d:
        class R:
            def count(self, *a): pass
            tie_breaks = []
        s = d['input']
        print('implementation :', W.run_impl(R(), [s], 'd')[0][:300])
        print('specification  :', W.spec_verdicts(R(), [s], 'v')[0][:2])
        print('expat          :', expat_oracle.verdict(s))
    return 0
