(* xpath (model side): see a_reader.ml for the input format *)
(* ---- printing ---- *)
let rec int64_of_pos (p : positive) : int64 = match p with
  | XH -> 1L
  | XO q -> Int64.mul 2L (int64_of_pos q)
  | XI q -> Int64.add (Int64.mul 2L (int64_of_pos q)) 1L
let int64_of_z (z : z) : int64 = match z with Z0 -> 0L | Zpos p -> int64_of_pos p | Zneg p -> Int64.neg (int64_of_pos p)

let show_err = function
  | XErrDom -> "err:Dom"
  | XErrInvalidType -> "err:InvalidType"
  | XErrInvalidArgumentCount s -> "err:InvalidArgumentCount:" ^ enc s
  | XErrNotFoundFunction s -> "err:NotFoundFunction:" ^ enc s
  | XErrNotFoundNamespace s -> "err:NotFoundNamespace:" ^ enc s
  | XErrNotFoundVariable s -> "err:NotFoundVariable:" ^ enc s

let show_value (raw : (string * string * string) array) (doc : xdoc) (v : xvalue) : string =
  match v with
  | XBool b -> if b then "b:1" else "b:0"
  | XNum x -> Printf.sprintf "n:%016Lx" (int64_of_z (f64_to_bits x))
  | XText s -> "s:" ^ enc s
  | XNodes l ->
    "ns:" ^ String.concat "." (List.map (fun i ->
        let k = int_of_n i in
        if k < Array.length raw && int_of_n (getd doc i).n_id <> 0 then string_of_int k
        else if k < Array.length raw then (let (kd, nm, d) = raw.(k) in "z" ^ kd ^ ":" ^ nm ^ ":" ^ d)
        else "invalid" ^ string_of_int k) l)

let split_sections (words : string list) : string list list =
  let rec go cur acc = function
    | [] -> List.rev (List.rev cur :: acc)
    | "#" :: r -> go [] (List.rev cur :: acc) r
    | w :: r -> go (w :: cur) acc r in
  go [] [] words

let () = register "xpath" (fun words ->
    try
      let secs = split_sections words in
      let ctx = ref ctx_default in
      let doc = ref [] in
      let raw = ref [||] in
      let out = ref [] in
      let sup = ref [] in
      List.iter (fun sec ->
          match sec with
          | "B" :: nb :: rest ->
            let rec go k l = if k = 0 then () else
                (match l with
                 | p :: u :: r -> ctx := add_ns (if p = "~" then None else Some (dec p)) (dec u) !ctx; go (k - 1) r
                 | _ -> raise (Bad "bindings")) in
            go (int_of_string nb) rest
          | "D" :: _ :: nodes ->
            let l = List.map parse_node nodes in
            doc := List.map fst l; raw := Array.of_list (List.map snd l)
          | ["A"; "X"] -> out := Printf.sprintf "R err:Syntax P%d,%d" (int_of_n (get_position !ctx)) (int_of_n (get_size !ctx)) :: !out
          | "A" :: ast ->
            toks := ast;
            let e = r_or () in
            if !toks <> [] then raise (Bad "trailing tokens");
            sup := (if supported_b !ctx.c_ns e then "1" else "0") :: !sup;
            let (r, c') = query !doc e !ctx in
            ctx := c';
            let s = (match r with
                | Ok v -> show_value !raw !doc v
                | Err e -> show_err e
                | Panic -> "panic"
                | OutOfFuel -> "hang") in
            out := Printf.sprintf "R %s P%d,%d" s (int_of_n (get_position c')) (int_of_n (get_size c')) :: !out
          | [] -> ()
          | w :: _ -> raise (Bad ("section " ^ w))) secs;
      let b x = if x then 1 else 0 in
      let inv = Printf.sprintf "I %d%d%d%d%d" (b (doc_wf_b !doc)) (b (doc_inv_b !doc)) (b (spec_shape_b !doc)) (b (names_ok_b !doc)) (b (parents_ok_b !doc)) in
      let s = "S " ^ String.concat "" (List.rev !sup) in
      String.concat " # " (List.rev (s :: inv :: !out))
    with Bad s -> "badast " ^ s | Failure s -> "badinput " ^ s)
