(** * What a relative location path selects, as a list up to repetitions (C08: [//] against
    [/descendant-or-self::node()/] in the presence of nodes with order key 0).

    Proofs/XPathReach.v describes the nodes a path selects as a SET; that is enough when all order
    keys are non-zero and distinct.  Namespace nodes and DTD-default attributes have key 0 (finding
    D19): they survive the de-duplication after a step and the final [union_finish] keeps the FIRST
    of them, so the ORDER of the collected list matters.  Here two lists are identified when every
    search gives the same first hit ([feq l l' : forall p, find p l = find p l'], i.e. the same
    elements in the same order of first occurrence), and the evaluation of a list of steps is
    described by a pure function [PT] (the list computed) and a predicate [DT] (every step
    application is defined), for a fixed context.

    Hypotheses on the table: [DocWf], non-zero keys identify rows ([keys_inj]), and the
    descendant-or-self list of every row is key-sorted ([dos_sorted]: the sort that the explicit
    step [descendant-or-self::node()] applies changes nothing).  All decidable
    ([keys_inj_b], [dos_sorted_b]). *)
From Coq Require Import List NArith Bool Lia Sorting.Sorted Sorting.Permutation.
From XmlRs Require Import Base.CPred Base.NList Base.Float64.
From XmlRs Require Import Spec.XPathSyntax.
From XmlRs Require Import Spec.XPathCore Model.XPathFuncs.
From XmlRs Require Import Model.XPathAst Model.XDoc Model.XPathScalar Model.XPathEval Model.XPathAstAbs.
From XmlRs Require Import Proofs.XPathEvalEqs Proofs.XPathNav Proofs.XPathSort Proofs.XPathCtx Proofs.XPathAstPred
  Proofs.XPathInv Proofs.XPathTotal Proofs.XPathCanon Proofs.XPathAbsEval Proofs.XPathAbsInv Proofs.XPathReach.
Import ListNotations.
Open Scope N_scope.

(** ** lists up to repetitions, keeping the order of first occurrence *)
Definition feq (l l' : list node) : Prop := forall p : node -> bool, find p l = find p l'.

Lemma feq_refl l : feq l l.
Proof. intros p. reflexivity. Qed.
Lemma feq_sym l l' : feq l l' -> feq l' l.
Proof. intros H p. symmetry. apply H. Qed.
Lemma feq_trans l1 l2 l3 : feq l1 l2 -> feq l2 l3 -> feq l1 l3.
Proof. intros H1 H2 p. rewrite H1. apply H2. Qed.

Lemma find_app_node (p : node -> bool) l1 l2 :
  find p (l1 ++ l2) = match find p l1 with Some x => Some x | None => find p l2 end.
Proof. induction l1 as [|x t IH]; cbn [app find]; [reflexivity|]. destruct (p x); [reflexivity|exact IH]. Qed.

Lemma feq_app a a' b b' : feq a a' -> feq b b' -> feq (a ++ b) (a' ++ b').
Proof. intros Ha Hb p. rewrite !find_app_node, Ha, Hb. reflexivity. Qed.

Lemma in_find (x : node) l : In x l <-> find (N.eqb x) l = Some x.
Proof.
  split.
  - induction l as [|y t IH]; [intros []|]. intros [->|H]; cbn [find].
    + rewrite N.eqb_refl. reflexivity.
    + destruct (N.eqb_spec x y) as [->|_]; [reflexivity|apply IH, H].
  - intros H. apply find_some in H. apply H.
Qed.

Lemma feq_in l l' x : feq l l' -> (In x l <-> In x l').
Proof.
  intros H. pose proof (H (N.eqb x)) as E. split; intros Hx; apply in_find; apply in_find in Hx.
  - exact (eq_trans (eq_sym E) Hx).
  - exact (eq_trans E Hx).
Qed.

Lemma find_flat_map (p : node -> bool) (f : node -> list node) l :
  find p (flat_map f l) = match find (fun x => existsb p (f x)) l with Some x => find p (f x) | None => None end.
Proof.
  induction l as [|x t IH]; cbn [flat_map find]; [reflexivity|]. rewrite find_app_node.
  destruct (find p (f x)) as [y|] eqn:E.
  - assert (Ex : existsb p (f x) = true) by (apply existsb_exists; exists y; apply (find_some _ _ E)).
    rewrite Ex, E. reflexivity.
  - assert (Ex : existsb p (f x) = false).
    { destruct (existsb p (f x)) eqn:Ee; [|reflexivity]. apply existsb_exists in Ee. destruct Ee as [y [Hy Hp]].
      rewrite (find_none _ _ E y Hy) in Hp. discriminate. }
    rewrite Ex. exact IH.
Qed.

Lemma feq_flat_map (f : node -> list node) l l' : feq l l' -> feq (flat_map f l) (flat_map f l').
Proof. intros H p. rewrite !find_flat_map, (H (fun x => existsb p (f x))). reflexivity. Qed.

Lemma flat_map_ext_in' {A B} (f g : A -> list B) l : (forall x, In x l -> f x = g x) -> flat_map f l = flat_map g l.
Proof.
  induction l as [|x t IH]; intros H; [reflexivity|]. cbn [flat_map]. rewrite (H x (or_introl eq_refl)). f_equal.
  apply IH. intros y Hy. apply H. right. exact Hy.
Qed.

Lemma find_in_skip (p : node -> bool) x pre t : In x pre -> find p (pre ++ x :: t) = find p (pre ++ t).
Proof.
  intros Hx. rewrite !find_app_node. destruct (find p pre) as [y|] eqn:E; [reflexivity|].
  cbn [find]. rewrite (find_none _ _ E x Hx). reflexivity.
Qed.

Section Keys.
Variable doc : xdoc.

(** non-zero keys identify the nodes of [l] *)
Definition kinj (l : list node) : Prop :=
  forall a b, In a l -> In b l -> key doc a = key doc b -> key doc a <> 0 -> a = b.

Lemma kinj_incl l l' : incl l' l -> kinj l -> kinj l'.
Proof. intros Hi H a b Ha Hb. apply H; apply Hi; assumption. Qed.

Lemma find_step_dedup_from (p : node -> bool) : forall l seenk pre,
  (forall k, In k seenk -> exists e, In e pre /\ key doc e = k) -> kinj (pre ++ l) ->
  find p (pre ++ step_dedup_from doc seenk l) = find p (pre ++ l).
Proof.
  induction l as [|x t IH]; intros seenk pre Hs Hk; cbn [step_dedup_from]; [reflexivity|].
  assert (Eapp : forall L : list node, pre ++ x :: L = (pre ++ [x]) ++ L) by (intros L; rewrite <- app_assoc; reflexivity).
  destruct (N.eqb_spec (key doc x) 0) as [E0|E0].
  - rewrite (Eapp (step_dedup_from doc seenk t)), (Eapp t). apply IH.
    + intros k Hkk. destruct (Hs k Hkk) as [e [He Ek]]. exists e. split; [apply in_or_app; left; exact He|exact Ek].
    + rewrite <- Eapp. exact Hk.
  - destruct (existsb (N.eqb (key doc x)) seenk) eqn:E.
    + apply existsb_eqb_In in E. destruct (Hs _ E) as [e [He Ek]].
      assert (e = x).
      { apply Hk; [apply in_or_app; left; exact He|apply in_or_app; right; left; reflexivity|exact Ek|rewrite Ek; exact E0]. }
      subst e. rewrite (find_in_skip p x pre t He). apply IH; [exact Hs|].
      eapply kinj_incl; [|exact Hk]. intros z Hz. apply in_app_or in Hz. apply in_or_app. destruct Hz; [left|right; right]; assumption.
    + rewrite (Eapp (step_dedup_from doc (key doc x :: seenk) t)), (Eapp t). apply IH.
      * intros k [<-|Hkk]; [exists x; split; [apply in_or_app; right; left; reflexivity|reflexivity]|].
        destruct (Hs k Hkk) as [e [He Ek]]. exists e. split; [apply in_or_app; left; exact He|exact Ek].
      * rewrite <- Eapp. exact Hk.
Qed.

Lemma feq_step_dedup l : kinj l -> feq (step_dedup doc l) l.
Proof. intros Hk p. apply (find_step_dedup_from p l [] []); [intros k []|exact Hk]. Qed.

(** the final sort and de-duplication only see the order of first occurrence *)
Lemma find_key_insert k x L :
  find (fun z => key doc z =? k) (insert_by_key doc x L) =
  if key doc x =? k then Some x else find (fun z => key doc z =? k) L.
Proof.
  induction L as [|y t IH]; cbn [insert_by_key find]; [destruct (key doc x =? k); reflexivity|].
  destruct (N.leb_spec (key doc x) (key doc y)) as [Hle|Hlt]; cbn [find].
  - destruct (key doc x =? k); reflexivity.
  - rewrite IH. destruct (N.eqb_spec (key doc x) k) as [Ex|Ex].
    + destruct (N.eqb_spec (key doc y) k) as [Ey|Ey]; [lia|reflexivity].
    + reflexivity.
Qed.

Lemma find_key_sort k l : find (fun z => key doc z =? k) (sort_by_key doc l) = find (fun z => key doc z =? k) l.
Proof.
  induction l as [|x t IH]; [reflexivity|]. change (sort_by_key doc (x :: t)) with (insert_by_key doc x (sort_by_key doc t)).
  rewrite find_key_insert, IH. reflexivity.
Qed.

Lemma in_dedup_find L : forall s x,
  In x (dedup_keys doc s L) <-> (~ In (key doc x) s /\ find (fun z => key doc z =? key doc x) L = Some x).
Proof.
  induction L as [|y t IH]; intros s x; cbn [dedup_keys find].
  - split; [intros []|intros [_ H]; discriminate].
  - destruct (existsb (N.eqb (key doc y)) s) eqn:E.
    + rewrite IH. destruct (N.eqb_spec (key doc y) (key doc x)) as [Ek|Ek]; [|reflexivity].
      apply existsb_eqb_In in E. rewrite Ek in E. split; intros [Hn _]; contradiction.
    + assert (Hy : ~ In (key doc y) s) by (intros Hin; apply existsb_eqb_In in Hin; congruence).
      cbn [In]. rewrite IH. destruct (N.eqb_spec (key doc y) (key doc x)) as [Ek|Ek].
      * split.
        -- intros [->|[Hn _]]; [split; [exact Hy|reflexivity]|]. exfalso. apply Hn. left. exact Ek.
        -- intros [_ H]. injection H as ->. left. reflexivity.
      * split.
        -- intros [->|[Hn Hf]]; [congruence|]. split; [intros Hin; apply Hn; right; exact Hin|exact Hf].
        -- intros [Hn Hf]. right. split; [intros [Hin|Hin]; [congruence|contradiction]|exact Hf].
Qed.

Lemma uf_sort_feq l l' : feq l l' ->
  union_finish doc (sort_by_key doc l) = union_finish doc (sort_by_key doc l').
Proof.
  intros H. apply (sorted_unique doc); try apply union_finish_sorted.
  intros x. unfold union_finish. rewrite !sort_in, !in_dedup_find, !find_key_sort, (H (fun z => key doc z =? key doc x)).
  reflexivity.
Qed.

End Keys.

(** ** the hypotheses on the table *)
Definition keys_inj (doc : xdoc) : Prop :=
  forall i j, valid doc i -> valid doc j -> key doc i = key doc j -> key doc i <> 0 -> i = j.
Definition dos_sorted (doc : xdoc) : Prop :=
  forall x, valid doc x -> sort_by_key doc (dosl doc x) = dosl doc x.

Section Ord.
Variable doc : xdoc.
Hypothesis Hwf : DocWf doc.
Hypothesis HK : keys_inj doc.
Hypothesis HS : dos_sorted doc.
Variable c : ctx.
Notation V := (valid doc).
Notation uf := (union_finish doc).
Notation runs := (runs c).
Notation ex := (ex doc).

Lemma kinj_valid l : Forall V l -> kinj doc l.
Proof. intros H a b Ha Hb E Hz. rewrite Forall_forall in H. apply HK; auto. Qed.

Lemma V_axis a i : any_axis a = true -> V i -> is_ok (axis_nodes doc a i) (Forall V).
Proof. apply (valid_axis doc Hwf). Qed.

Lemma dosl_okV x : V x -> descendant_and_self doc x = Ok (dosl doc x) /\ Forall V (dosl doc x).
Proof.
  intros Vx. destruct (V_axis (AxisName AxDescendantOrSelf) x eq_refl Vx) as [l [E G]].
  cbn [axis_nodes] in E. unfold dosl. rewrite E. split; [reflexivity|exact G].
Qed.

Lemma ex_valid s x : V x -> Forall V (ex s x).
Proof. intros Vx. destruct s; cbn [XPathReach.ex]; [constructor; [exact Vx|constructor]|apply dosl_okV, Vx]. Qed.

Lemma expand_flatV s l : Forall V l -> expand doc s l = Ok (flat_map (ex s) l).
Proof.
  intros H. destruct s; cbn [expand].
  - assert (E : flat_map (ex SSlash) l = l).
    { clear H. induction l as [|x t IH]; [reflexivity|]. cbn [flat_map app XPathReach.ex]. f_equal. exact IH. }
    rewrite E. reflexivity.
  - induction H as [|x t Vx _ IH]; cbn [flat_map_res flat_map]; [reflexivity|].
    destruct (dosl_okV x Vx) as [E _]. cbn [XPathReach.ex]. rewrite E, IH. reflexivity.
Qed.

Lemma flat_map_valid {A} (f : A -> list node) l : (forall x, In x l -> Forall V (f x)) -> Forall V (flat_map f l).
Proof.
  intros H. apply Forall_forall. intros y Hy. apply in_flat_map in Hy. destruct Hy as [x [Hx Hy]].
  pose proof (H x Hx) as G. rewrite Forall_forall in G. apply G, Hy.
Qed.

(** ** a step as a pure function, for the context [c] *)
Definition Ft (f : sem_step) (x : node) : list node := match f x c with (Ok l, _) => l | _ => [] end.
Definition defd (f : sem_step) (l : list node) : Prop := forall x, In x l -> exists lx, runs f x lx.

Lemma Ft_runs f x lx : runs f x lx -> Ft f x = lx.
Proof. unfold XPathReach.runs, Ft. intros ->. reflexivity. Qed.

Lemma flat_map_m_pure (f : sem_step) : (forall x, restores (f x)) -> forall l r c',
  flat_map_m f l c = (Ok r, c') <-> (c' = c /\ defd f l /\ r = flat_map (Ft f) l).
Proof.
  intros Hr. induction l as [|x t IH]; intros r c'; cbn [flat_map_m flat_map].
  - split.
    + intros H. apply ret_ok_inv in H. destruct H as [-> ->]. split; [reflexivity|]. split; [intros x []|reflexivity].
    + intros (-> & _ & ->). reflexivity.
  - split.
    + intros H. invb H as a c0 E. assert (c0 = c) by (eapply Hr; [exact E|exact I]). subst c0.
      invb H as b c1 E0. apply ret_ok_inv in H. destruct H as [-> ->]. apply IH in E0. destruct E0 as (-> & D & ->).
      split; [reflexivity|]. split.
      * intros z [<-|Hz]; [exists a; exact E|apply D, Hz].
      * rewrite (Ft_runs f x a E). reflexivity.
    + intros (-> & D & ->). destruct (D x (or_introl eq_refl)) as [lx Hx].
      eapply bindM_ok_intro; [exact Hx|]. eapply bindM_ok_intro.
      * apply IH. split; [reflexivity|]. split; [intros z Hz; apply D; right; exact Hz|reflexivity].
      * rewrite (Ft_runs f x lx Hx). reflexivity.
Qed.

(** ** a list of steps: the list computed, and whether it is computed *)
Fixpoint PT (items : list (sep * sem_step)) (l : list node) : list node :=
  match items with
  | [] => l
  | (s, f) :: t => PT t (step_dedup doc (flat_map (Ft f) (flat_map (ex s) l)))
  end.

Fixpoint DT (items : list (sep * sem_step)) (l : list node) : Prop :=
  match items with
  | [] => True
  | (s, f) :: t => defd f (flat_map (ex s) l) /\ DT t (step_dedup doc (flat_map (Ft f) (flat_map (ex s) l)))
  end.

Definition itemsV (items : list (sep * sem_step)) : Prop :=
  Forall (fun i => (forall x, restores (snd i x)) /\ (forall x, V x -> okgl V (snd i x))) items.

Lemma Ft_valid f x : (forall x, V x -> okgl V (f x)) -> V x -> Forall V (Ft f x).
Proof.
  intros Hg Vx. unfold Ft. destruct (f x c) as [[l|e| |] c1] eqn:E; try constructor. eapply Hg; [exact Vx|exact E].
Qed.

Lemma stage_valid s f l : (forall x, V x -> okgl V (f x)) -> Forall V l ->
  Forall V (flat_map (ex s) l) /\ Forall V (flat_map (Ft f) (flat_map (ex s) l)) /\
  Forall V (step_dedup doc (flat_map (Ft f) (flat_map (ex s) l))).
Proof.
  intros Hg Vl. rewrite Forall_forall in Vl.
  assert (V1 : Forall V (flat_map (ex s) l)) by (apply flat_map_valid; intros x Hx; apply ex_valid, Vl, Hx).
  assert (V2 : Forall V (flat_map (Ft f) (flat_map (ex s) l))).
  { apply flat_map_valid. intros x Hx. apply Ft_valid; [exact Hg|]. rewrite Forall_forall in V1. apply V1, Hx. }
  split; [exact V1|]. split; [exact V2|]. apply step_dedup_good, V2.
Qed.

Lemma PT_valid items : itemsV items -> forall l, Forall V l -> Forall V (PT items l).
Proof.
  induction 1 as [|[s f] t [_ Hg] _ IH]; intros l Vl; cbn [PT]; [exact Vl|]. cbn [snd] in Hg.
  apply IH. apply (stage_valid s f l Hg Vl).
Qed.

Lemma xstepops_pure items : itemsV items -> forall l, Forall V l -> forall r c',
  xstepops doc items l c = (Ok r, c') <-> (c' = c /\ DT items l /\ r = PT items l).
Proof.
  induction 1 as [|[s f] t [Hr Hg] _ IH]; intros l Vl r c'; cbn [xstepops DT PT].
  - split; [intros H; apply ret_ok_inv in H; destruct H as [-> ->]; auto|intros (-> & _ & ->); reflexivity].
  - cbn [snd] in Hr, Hg. destruct (stage_valid s f l Hg Vl) as (V1 & V2 & V3). pose proof (expand_flatV s l Vl) as Eex. split.
    + intros H. invb H as fr c0 E. apply lift_ok_inv in E. destruct E as [E ->]. rewrite Eex in E. injection E as <-.
      invb H as coll c1 Ec. apply (flat_map_m_pure f Hr) in Ec. destruct Ec as (-> & D & ->).
      apply (IH _ V3) in H. destruct H as (-> & Dt & ->). auto.
    + intros (-> & [D Dt] & ->). eapply bindM_ok_intro; [unfold lift; rewrite Eex; reflexivity|].
      eapply bindM_ok_intro; [apply (flat_map_m_pure f Hr); split; [reflexivity|split; [exact D|reflexivity]]|].
      apply (IH _ V3). auto.
Qed.

(** ** the laws *)
Lemma defd_feq f l l' : feq l l' -> (defd f l <-> defd f l').
Proof. intros H. split; intros D x Hx; apply D; [apply (feq_in l l' x H)|apply (feq_in l l' x H)]; exact Hx. Qed.

Lemma stage_feq s f l l' : (forall x, V x -> okgl V (f x)) -> Forall V l -> Forall V l' -> feq l l' ->
  feq (step_dedup doc (flat_map (Ft f) (flat_map (ex s) l))) (step_dedup doc (flat_map (Ft f) (flat_map (ex s) l'))).
Proof.
  intros Hg Vl Vl' H. destruct (stage_valid s f l Hg Vl) as (_ & V2 & _). destruct (stage_valid s f l' Hg Vl') as (_ & V2' & _).
  eapply feq_trans; [apply feq_step_dedup, kinj_valid, V2|]. eapply feq_trans; [|apply feq_sym, feq_step_dedup, kinj_valid, V2'].
  apply feq_flat_map, feq_flat_map, H.
Qed.

Lemma PT_feq items : itemsV items -> forall l l', Forall V l -> Forall V l' -> feq l l' ->
  feq (PT items l) (PT items l') /\ (DT items l <-> DT items l').
Proof.
  induction 1 as [|[s f] t [Hr Hg] _ IH]; intros l l' Vl Vl' H; cbn [PT DT]; [split; [exact H|reflexivity]|]. cbn [snd] in Hg.
  destruct (stage_valid s f l Hg Vl) as (_ & _ & V3). destruct (stage_valid s f l' Hg Vl') as (_ & _ & V3').
  destruct (IH _ _ V3 V3' (stage_feq s f l l' Hg Vl Vl' H)) as [I1 I2]. split; [exact I1|].
  rewrite I2, (defd_feq f _ _ (feq_flat_map (ex s) l l' H)). reflexivity.
Qed.

Lemma defd_app f l1 l2 : defd f (l1 ++ l2) <-> defd f l1 /\ defd f l2.
Proof.
  split.
  - intros D. split; intros x Hx; apply D; apply in_or_app; [left|right]; exact Hx.
  - intros [D1 D2] x Hx. apply in_app_or in Hx. destruct Hx; [apply D1|apply D2]; assumption.
Qed.

Lemma PT_app items : itemsV items -> forall l1 l2, Forall V l1 -> Forall V l2 ->
  feq (PT items (l1 ++ l2)) (PT items l1 ++ PT items l2) /\ (DT items (l1 ++ l2) <-> DT items l1 /\ DT items l2).
Proof.
  induction 1 as [|[s f] t [Hr Hg] Ht IH]; intros l1 l2 V1 V2; cbn [PT DT]; [split; [apply feq_refl|tauto]|]. cbn [snd] in Hg.
  rewrite !flat_map_app.
  set (c1 := flat_map (Ft f) (flat_map (ex s) l1)). set (c2 := flat_map (Ft f) (flat_map (ex s) l2)).
  destruct (stage_valid s f l1 Hg V1) as (_ & Vc1 & Vd1). destruct (stage_valid s f l2 Hg V2) as (_ & Vc2 & Vd2). fold c1 in Vc1, Vd1. fold c2 in Vc2, Vd2.
  assert (Vc : Forall V (c1 ++ c2)) by (apply Forall_app; split; assumption).
  assert (Vd : Forall V (step_dedup doc c1 ++ step_dedup doc c2)) by (apply Forall_app; split; assumption).
  assert (F : feq (step_dedup doc (c1 ++ c2)) (step_dedup doc c1 ++ step_dedup doc c2)).
  { eapply feq_trans; [apply feq_step_dedup, kinj_valid, Vc|]. apply feq_app; apply feq_sym, feq_step_dedup, kinj_valid; assumption. }
  destruct (PT_feq t Ht _ _ (step_dedup_good doc V _ Vc) Vd F) as [F1 F2].
  destruct (IH _ _ Vd1 Vd2) as [I1 I2]. split.
  - eapply feq_trans; [exact F1|exact I1].
  - rewrite F2, I2, defd_app. tauto.
Qed.

Lemma PT_flat items (g : node -> list node) : itemsV items -> forall l, (forall x, In x l -> Forall V (g x)) ->
  feq (PT items (flat_map g l)) (flat_map (fun x => PT items (g x)) l) /\
  (DT items (flat_map g l) <-> forall x, In x l -> DT items (g x)).
Proof.
  intros Hi. induction l as [|x t IH]; intros Hg; cbn [flat_map].
  - split.
    + clear. induction items as [|[s f] t IH]; cbn [PT flat_map]; [apply feq_refl|exact IH].
    + split; [intros _ x []|intros _]. clear. induction items as [|[s f] t IH]; cbn [DT flat_map]; [exact I|].
      split; [intros x []|exact IH].
  - assert (Vx : Forall V (g x)) by (apply Hg; left; reflexivity).
    assert (Vt : Forall V (flat_map g t)) by (apply flat_map_valid; intros y Hy; apply Hg; right; exact Hy).
    destruct (PT_app items Hi _ _ Vx Vt) as [A1 A2]. destruct IH as [I1 I2]; [intros y Hy; apply Hg; right; exact Hy|]. split.
    + eapply feq_trans; [exact A1|]. apply feq_app; [apply feq_refl|exact I1].
    + rewrite A2, I2. split.
      * intros [D1 D2] y [<-|Hy]; [exact D1|apply D2, Hy].
      * intros D. split; [apply D; left; reflexivity|intros y Hy; apply D; right; exact Hy].
Qed.

(** ** [//] is the explicit step *)
Definition step_eqV (F F' : sem_step) : Prop := forall x, V x -> forall l, runs F x l <-> runs F' x l.

Inductive NIv : list (sep * sem_step) -> list (sep * sem_step) -> Prop :=
| NIv_nil : NIv [] []
| NIv_s F F' t t' : step_eqV F F' -> NIv t t' -> NIv ((SSlash, F) :: t) ((SSlash, F') :: t')
| NIv_d F F' t t' : step_eqV F F' -> NIv t t' -> NIv ((SDSlash, F) :: t) ((SSlash, DOS doc) :: (SSlash, F') :: t').

Lemma Ft_eqV F F' x : (forall x, restores (F x)) -> (forall x, restores (F' x)) -> step_eqV F F' -> V x -> Ft F x = Ft F' x.
Proof.
  intros R R' H Vx. unfold Ft. destruct (F x c) as [[l|e| |] c1] eqn:E.
  - assert (c1 = c) by (eapply R; [exact E|exact I]). subst c1. apply (H x Vx l) in E. unfold XPathReach.runs in E. rewrite E. reflexivity.
  - destruct (F' x c) as [[l'|e'| |] c1'] eqn:E'; try reflexivity.
    assert (c1' = c) by (eapply R'; [exact E'|exact I]). subst c1'. apply (H x Vx l') in E'. unfold XPathReach.runs in E'. rewrite E' in E. discriminate.
  - destruct (F' x c) as [[l'|e'| |] c1'] eqn:E'; try reflexivity.
    assert (c1' = c) by (eapply R'; [exact E'|exact I]). subst c1'. apply (H x Vx l') in E'. unfold XPathReach.runs in E'. rewrite E' in E. discriminate.
  - destruct (F' x c) as [[l'|e'| |] c1'] eqn:E'; try reflexivity.
    assert (c1' = c) by (eapply R'; [exact E'|exact I]). subst c1'. apply (H x Vx l') in E'. unfold XPathReach.runs in E'. rewrite E' in E. discriminate.
Qed.

Lemma defd_eqV F F' l : step_eqV F F' -> Forall V l -> (defd F l <-> defd F' l).
Proof.
  intros H Vl. rewrite Forall_forall in Vl.
  split; intros D x Hx; destruct (D x Hx) as [lx Hl]; exists lx; apply (H x (Vl x Hx) lx); exact Hl.
Qed.

Lemma DOS_runsV z : V z -> runs (DOS doc) z (dosl doc z).
Proof.
  intros Vz. unfold XPathReach.runs, DOS, step_sem. cbn [axis_nodes]. rewrite (proj1 (dosl_okV z Vz)). cbn [bind].
  rewrite filter_res_all by (intros i; reflexivity). unfold xpreds, axis_sort. cbn [is_reverse_axis]. rewrite (HS z Vz). reflexivity.
Qed.

Lemma DOS_restores x : restores (DOS doc x).
Proof. apply restores_step_sem. constructor. Qed.

Lemma DOS_valid x : V x -> okgl V (DOS doc x).
Proof. intros Vx. apply (okgl_step_sem doc V any_axis V_axis); [reflexivity|exact Vx]. Qed.

Lemma flat_map_slash l : flat_map (ex SSlash) l = l.
Proof. induction l as [|x t IH]; [reflexivity|]. cbn [flat_map app XPathReach.ex]. f_equal. exact IH. Qed.

Lemma itemsV_cons s f t : itemsV ((s, f) :: t) -> (forall x, restores (f x)) /\ (forall x, V x -> okgl V (f x)) /\ itemsV t.
Proof. intros H. inversion H as [|i l [H1 H2] Ht]; subst. cbn [snd] in *. auto. Qed.

Lemma NIv_feq items items' : NIv items items' -> itemsV items -> itemsV items' ->
  forall l, Forall V l -> feq (PT items l) (PT items' l) /\ (DT items l <-> DT items' l).
Proof.
  induction 1 as [|F F' t t' HF HN IH|F F' t t' HF HN IH]; intros W W' l Vl.
  - split; [apply feq_refl|reflexivity].
  - destruct (itemsV_cons _ _ _ W) as (R & Gf & Wt). destruct (itemsV_cons _ _ _ W') as (R' & Gf' & Wt').
    cbn [PT DT]. rewrite !flat_map_slash.
    assert (E : flat_map (Ft F) l = flat_map (Ft F') l).
    { apply flat_map_ext_in'. intros x Hx. rewrite Forall_forall in Vl. apply (Ft_eqV F F' x R R' HF (Vl x Hx)). }
    rewrite E. destruct (stage_valid SSlash F' l Gf' Vl) as (_ & _ & V3). rewrite flat_map_slash in V3.
    destruct (IH Wt Wt' _ V3) as [I1 I2]. split; [exact I1|]. rewrite I2, (defd_eqV F F' l HF Vl). reflexivity.
  - destruct (itemsV_cons _ _ _ W) as (R & Gf & Wt). destruct (itemsV_cons _ _ _ W') as (_ & _ & W1).
    destruct (itemsV_cons _ _ _ W1) as (R' & Gf' & Wt').
    cbn [PT DT]. rewrite !flat_map_slash. change (ex SDSlash) with (dosl doc).
    set (A := flat_map (dosl doc) l).
    assert (EA : flat_map (Ft (DOS doc)) l = A).
    { apply flat_map_ext_in'. intros x Hx. rewrite Forall_forall in Vl. apply Ft_runs, DOS_runsV, Vl, Hx. }
    rewrite EA.
    assert (VA : Forall V A) by (apply flat_map_valid; intros x Hx; rewrite Forall_forall in Vl; apply dosl_okV, Vl, Hx).
    assert (VdA : Forall V (step_dedup doc A)) by (apply step_dedup_good, VA).
    assert (EF : forall L, Forall V L -> flat_map (Ft F) L = flat_map (Ft F') L).
    { intros L VL. apply flat_map_ext_in'. intros x Hx. rewrite Forall_forall in VL. apply (Ft_eqV F F' x R R' HF (VL x Hx)). }
    assert (V1 : Forall V (flat_map (Ft F) A)).
    { apply flat_map_valid. intros x Hx. rewrite Forall_forall in VA. apply (Ft_valid F x Gf (VA x Hx)). }
    assert (V2 : Forall V (flat_map (Ft F') (step_dedup doc A))).
    { apply flat_map_valid. intros x Hx. rewrite Forall_forall in VdA. apply (Ft_valid F' x Gf' (VdA x Hx)). }
    assert (FQ : feq (step_dedup doc (flat_map (Ft F) A)) (step_dedup doc (flat_map (Ft F') (step_dedup doc A)))).
    { eapply feq_trans; [apply feq_step_dedup, kinj_valid, V1|]. eapply feq_trans; [|apply feq_sym, feq_step_dedup, kinj_valid, V2].
      rewrite (EF A VA). apply feq_flat_map. apply feq_sym, feq_step_dedup, kinj_valid, VA. }
    destruct (IH Wt Wt' _ (step_dedup_good doc V _ V1)) as [I1 I2].
    destruct (PT_feq t' Wt' _ _ (step_dedup_good doc V _ V1) (step_dedup_good doc V _ V2) FQ) as [P1 P2].
    split; [eapply feq_trans; [exact I1|exact P1]|].
    rewrite I2, P2. split.
    + intros [D Dt]. split; [intros x Hx; exists (dosl doc x); rewrite Forall_forall in Vl; apply DOS_runsV, Vl, Hx|]. split; [|exact Dt].
      apply (defd_eqV F F' _ HF VdA). intros x Hx. apply D. apply (step_dedup_incl doc A [] x Hx).
    + intros [_ [D Dt]]. split; [|exact Dt]. apply (defd_eqV F F' _ HF VA). intros x Hx. apply D.
      apply (proj2 (feq_in _ _ x (feq_step_dedup doc A (kinj_valid A VA)))). exact Hx.
Qed.

(** ** a whole path *)
Lemma run1_restores F1 rest x : (forall x, restores (F1 x)) -> itemsV rest -> restores (run1 doc F1 rest x).
Proof.
  intros R W. unfold run1. apply restores_bind; [apply R|intros ns]. apply restores_xstepops.
  clear -W. induction W as [|i t [Ri _] _ IH]; constructor; assumption.
Qed.

Lemma run1_pure F1 rest x : (forall x, restores (F1 x)) -> (forall x, V x -> okgl V (F1 x)) -> itemsV rest -> V x ->
  forall l, runs (run1 doc F1 rest) x l <-> ((exists ns, runs F1 x ns) /\ DT rest (Ft F1 x) /\ l = PT rest (Ft F1 x)).
Proof.
  intros R Gf W Vx l. unfold XPathReach.runs at 1. unfold run1. split.
  - intros H. invb H as ns c0 E. assert (c0 = c) by (eapply R; [exact E|exact I]). subst c0.
    rewrite (Ft_runs F1 x ns E). assert (Vns : Forall V ns) by (eapply Gf; [exact Vx|exact E]).
    apply (xstepops_pure rest W ns Vns) in H. destruct H as (_ & D & ->). split; [exists ns; exact E|]. auto.
  - intros ([ns E] & D & ->). rewrite (Ft_runs F1 x ns E) in *. assert (Vns : Forall V ns) by (eapply Gf; [exact Vx|exact E]).
    eapply bindM_ok_intro; [exact E|]. apply (xstepops_pure rest W ns Vns). auto.
Qed.

Definition collO (s0 : sep) (F1 : sem_step) (rest : list (sep * sem_step)) (B : list node) : list node :=
  flat_map (fun x => PT rest (Ft F1 x)) (flat_map (ex s0) B).
Definition defO (s0 : sep) (F1 : sem_step) (rest : list (sep * sem_step)) (B : list node) : Prop :=
  defd F1 (flat_map (ex s0) B) /\ forall x, In x (flat_map (ex s0) B) -> DT rest (Ft F1 x).

Lemma path_pure s0 F1 rest : itemsV ((s0, F1) :: rest) -> forall B, Forall V B -> forall v c',
  path_sem doc (lift (expand doc s0 B)) F1 rest c = (Ok v, c') <->
  (c' = c /\ defO s0 F1 rest B /\ v = XNodes (uf (sort_by_key doc (collO s0 F1 rest B)))).
Proof.
  intros W B VB v c'. destruct (itemsV_cons _ _ _ W) as (R & Gf & Wt).
  pose proof (expand_flatV s0 B VB) as Eex. set (S := flat_map (ex s0) B) in *.
  assert (VS : Forall V S) by (apply flat_map_valid; intros x Hx; rewrite Forall_forall in VB; apply ex_valid, VB, Hx).
  assert (HD : defd (run1 doc F1 rest) S <-> defO s0 F1 rest B).
  { unfold defO. fold S. rewrite Forall_forall in VS. split.
    - intros D. split; intros x Hx; destruct (D x Hx) as [l Hl]; apply (run1_pure F1 rest x R Gf Wt (VS x Hx)) in Hl; apply Hl.
    - intros [D1 D2] x Hx. exists (PT rest (Ft F1 x)). apply (run1_pure F1 rest x R Gf Wt (VS x Hx)). auto. }
  assert (HC : defd (run1 doc F1 rest) S -> flat_map (Ft (run1 doc F1 rest)) S = collO s0 F1 rest B).
  { intros D. unfold collO. fold S. apply flat_map_ext_in'. intros x Hx. destruct (D x Hx) as [l Hl]. rewrite (Ft_runs _ x l Hl).
    rewrite Forall_forall in VS. apply (run1_pure F1 rest x R Gf Wt (VS x Hx)) in Hl. apply Hl. }
  unfold path_sem. change (fun x => ns <- F1 x ;; xstepops doc rest ns) with (run1 doc F1 rest). split.
  - intros H. invb H as fr c0 E. apply lift_ok_inv in E. destruct E as [E ->]. rewrite Eex in E. injection E as <-.
    invb H as coll c1 Ec. apply ret_ok_inv in H. destruct H as [-> ->].
    apply (flat_map_m_pure _ (fun x => run1_restores F1 rest x R Wt)) in Ec. destruct Ec as (-> & D & ->).
    split; [reflexivity|]. split; [apply HD, D|]. rewrite (HC D). reflexivity.
  - intros (-> & D & ->). apply HD in D. eapply bindM_ok_intro; [unfold lift; rewrite Eex; reflexivity|].
    eapply bindM_ok_intro; [apply (flat_map_m_pure _ (fun x => run1_restores F1 rest x R Wt)); split; [reflexivity|split; [exact D|reflexivity]]|].
    rewrite (HC D). reflexivity.
Qed.

Lemma path_U s0 F1 rest : itemsV ((s0, F1) :: rest) -> forall B, Forall V B ->
  feq (collO s0 F1 rest B) (PT ((s0, F1) :: rest) B) /\ (defO s0 F1 rest B <-> DT ((s0, F1) :: rest) B).
Proof.
  intros W B VB. destruct (itemsV_cons _ _ _ W) as (R & Gf & Wt). cbn [PT DT]. unfold collO, defO.
  set (S := flat_map (ex s0) B). destruct (stage_valid s0 F1 B Gf VB) as (VS & VC & VD). fold S in VS, VC, VD.
  destruct (PT_flat rest (Ft F1) Wt S) as [F1' F2'].
  { intros x Hx. rewrite Forall_forall in VS. apply (Ft_valid F1 x Gf (VS x Hx)). }
  destruct (PT_feq rest Wt _ _ VD VC (feq_step_dedup doc _ (kinj_valid _ VC))) as [Q1 Q2]. split.
  - eapply feq_trans; [apply feq_sym, F1'|apply feq_sym, Q1].
  - rewrite Q2, F2'. reflexivity.
Qed.

Theorem path_equivV s0 F1 rest s0' F1' rest' B v c' :
  itemsV ((s0, F1) :: rest) -> itemsV ((s0', F1') :: rest') -> NIv ((s0, F1) :: rest) ((s0', F1') :: rest') -> Forall V B ->
  (path_sem doc (lift (expand doc s0 B)) F1 rest c = (Ok v, c') <->
   path_sem doc (lift (expand doc s0' B)) F1' rest' c = (Ok v, c')).
Proof.
  intros W W' HN VB. rewrite (path_pure s0 F1 rest W B VB), (path_pure s0' F1' rest' W' B VB).
  destruct (path_U s0 F1 rest W B VB) as [U1 U2]. destruct (path_U s0' F1' rest' W' B VB) as [U1' U2'].
  destruct (NIv_feq _ _ HN W W' B VB) as [N1 N2].
  assert (E : uf (sort_by_key doc (collO s0 F1 rest B)) = uf (sort_by_key doc (collO s0' F1' rest' B))).
  { apply uf_sort_feq. eapply feq_trans; [exact U1|]. eapply feq_trans; [exact N1|apply feq_sym, U1']. }
  rewrite E, U2, U2', N2. reflexivity.
Qed.

End Ord.
