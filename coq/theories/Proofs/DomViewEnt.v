(** * C01, the DOM view: what a reference to a declared general entity expands to.

    For SIMPLE entities (Proofs/XmlWFSyntaxEntRec.v: replacement text of characters other than `&` `<`, character
    references to such characters, references to other entities; no `]]>`) the expansion of the implementation
      - in content:            [Model.Info.expand]      (= XmlUnexpandedEntityReference::value)
      - in an attribute value: [Model.Info.expand_attr] (= attr_value_from_name, white space normalized)
    is the character data that the specification obtains by re-reading the replacement text
    ([Spec.XmlWF.expand]: the tokens of the [XExp] item; [Spec.XmlWF.av_value]).  Both recursions carry the list of
    the names being expanded (the model's [path], the specification's [visited]); the induction is the one of
    [expand_good] / [av_good]: on the height at which the entity is good, with the invariant that no visited name
    is good at that height.  A reference to an external parsed entity is not included by the specification
    (it stays an [XEntRef]): the statement is conditional on [no_unexp]. *)
From Coq Require Import List NArith Arith Lia Bool.
From XmlRs Require Import Base.CPred Spec.XmlChars Model.Peg Gen.XmlcharGen Gen.GrammarXmlGen Model.ParseActions Model.Info Model.DomView
     Proofs.Expansion Proofs.DisplayLex Proofs.ParseInvBuild
     Proofs.XmlWFSyntaxLex Proofs.XmlWFSyntaxElem Proofs.XmlWFSyntaxCheck Proofs.XmlWFSyntaxDtdCheck Proofs.XmlWFSyntaxEntRec
     Proofs.XmlWFSyntaxEntMarkup Proofs.DomViewBase Proofs.DomViewElem Proofs.DomViewAttr.
From XmlRs Require Spec.XmlWF Spec.Infoset Proofs.XmlWFSyntaxConvCheck.
Import ListNotations.
Local Open Scope N_scope.

(** an expanded item that is character data with the characters [v], whatever the parameters of the token functions *)
Definition chars_only (x : W.xcontent) (v : str) : Prop :=
  (forall F en' sub acc, Infoset.item_tokens F en' sub x acc = ([], rev v ++ acc))
  /\ (forall F en' sub st acc, item_tokens2 F en' sub x st acc = ([], (true, rev v ++ acc))).
Definition chars_list (ys : list W.xcontent) (v : str) : Prop :=
  (forall F en' sub acc, items_tokens F en' sub ys acc = ([], rev v ++ acc))
  /\ (forall F en' sub st acc, exists st', items_tokens2 F en' sub ys st acc = ([], (st', rev v ++ acc))).

Lemma chars_list_nil : chars_list [] [].
Proof. split; intros; [reflexivity|eexists; reflexivity]. Qed.

Lemma chars_list_app a (va : str) b (vb : str) : chars_list a va -> chars_list b vb -> chars_list (a ++ b) (va ++ vb).
Proof.
  intros [A1 A2] [B1 B2]. split.
  - intros F en' sub acc. rewrite items_tokens_app, A1, B1. cbn [app]. now rewrite rev_app_distr, <- app_assoc.
  - intros F en' sub st acc. rewrite items_tokens2_app. destruct (A2 F en' sub st acc) as [s1 E1]. rewrite E1. cbn [fst snd].
    destruct (B2 F en' sub s1 (rev va ++ acc)) as [s2 E2]. rewrite E2. exists s2. cbn [app]. now rewrite rev_app_distr, <- app_assoc.
Qed.

Lemma chars_list_one x (v : str) : chars_only x v -> chars_list [x] v.
Proof.
  intros [A1 A2]. split.
  - intros F en' sub acc. cbn [items_tokens]. rewrite A1. cbn [app]. reflexivity.
  - intros F en' sub st acc. cbn [items_tokens2]. rewrite A2. cbn [fst snd app]. eexists. reflexivity.
Qed.

Lemma chars_list_text (s : str) : chars_list (map W.XChar s) s.
Proof.
  split.
  - intros F en' sub acc. apply text_tokens.
  - intros F en' sub st acc. rewrite text_tokens2. eexists. reflexivity.
Qed.

Lemma chars_only_exp nm ys (v : str) : chars_list ys v -> chars_only (W.XExp nm ys) v.
Proof.
  intros [A1 A2]. split.
  - intros F en' sub acc. rewrite item_tokens_exp. apply A1.
  - intros F en' sub st acc. rewrite item_tokens2_exp. destruct (A2 F en' sub st acc) as [s1 E1]. rewrite E1. reflexivity.
Qed.

(** ** the predefined entities in any environment that does not redeclare them *)
Lemma predef_content (en : W.env) nm f V : is_predef nm -> W.assoc nm (W.e_ents en) = W.assoc nm (W.with_predefined []) -> W.mem nm V = false ->
  exists ys v, W.expand (Datatypes.S f) en V (W.XEntRef nm) = inr (W.XExp nm ys) /\ Infoset.no_unexp (W.XExp nm ys) = true /\
    chars_list ys v /\ forall ents mf path, find (fun e0 => str_eqb (en_name e0) nm) ents = None -> existsb (str_eqb nm) path = false ->
      expand_gen true false false (Datatypes.S mf) ents path nm = IOk v.
Proof.
  intros Hp Ha Hm.
  destruct Hp as [->|[->|[->|[->| ->]]]].
  - exists [W.XCharRef 60], [60]. split; [cbn [W.expand]; rewrite Hm, Ha; destruct f; reflexivity|]. split; [reflexivity|]. split.
    + split; intros; [reflexivity|eexists; reflexivity].
    + intros ents mf path Hf Hpa. cbn [expand_gen andb]. rewrite Hpa. unfold lookup_entity, lookup_entity2. rewrite Hf. reflexivity.
  - exists [W.XChar 62], [62]. split; [cbn [W.expand]; rewrite Hm, Ha; destruct f; reflexivity|]. split; [reflexivity|]. split.
    + split; intros; [reflexivity|eexists; reflexivity].
    + intros ents mf path Hf Hpa. cbn [expand_gen andb]. rewrite Hpa. unfold lookup_entity, lookup_entity2. rewrite Hf. reflexivity.
  - exists [W.XCharRef 38], [38]. split; [cbn [W.expand]; rewrite Hm, Ha; destruct f; reflexivity|]. split; [reflexivity|]. split.
    + split; intros; [reflexivity|eexists; reflexivity].
    + intros ents mf path Hf Hpa. cbn [expand_gen andb]. rewrite Hpa. unfold lookup_entity, lookup_entity2. rewrite Hf. reflexivity.
  - exists [W.XChar 39], [39]. split; [cbn [W.expand]; rewrite Hm, Ha; destruct f; reflexivity|]. split; [reflexivity|]. split.
    + split; intros; [reflexivity|eexists; reflexivity].
    + intros ents mf path Hf Hpa. cbn [expand_gen andb]. rewrite Hpa. unfold lookup_entity, lookup_entity2. rewrite Hf. reflexivity.
  - exists [W.XChar 34], [34]. split; [cbn [W.expand]; rewrite Hm, Ha; destruct f; reflexivity|]. split; [reflexivity|]. split.
    + split; intros; [reflexivity|eexists; reflexivity].
    + intros ents mf path Hf Hpa. cbn [expand_gen andb]. rewrite Hpa. unfold lookup_entity, lookup_entity2. rewrite Hf. reflexivity.
Qed.

Lemma predef_attr (en : W.env) nm f : is_predef nm -> W.assoc nm (W.e_ents en) = W.assoc nm (W.with_predefined []) ->
  exists v, W.av_value (Datatypes.S (Datatypes.S f)) en [W.AvEnt nm] = v /\
    forall ents mf path, find (fun e0 => str_eqb (en_name e0) nm) ents = None -> existsb (str_eqb nm) path = false ->
      expand_gen true false true (Datatypes.S mf) ents path nm = IOk v.
Proof.
  intros Hp Ha.
  destruct Hp as [->|[->|[->|[->| ->]]]]; eexists; (split; [cbn [W.av_value flat_map]; rewrite Ha; reflexivity|]);
    intros ents mf path Hf Hpa; cbn [expand_gen andb]; rewrite Hpa; unfold lookup_entity, lookup_entity2; rewrite Hf; reflexivity.
Qed.

Lemma not_in_path (nm : str) (V : list str) : ~ In nm V -> existsb (str_eqb nm) V = false.
Proof.
  intros H. destruct (existsb (str_eqb nm) V) eqn:E; [|reflexivity]. exfalso. apply existsb_exists in E. destruct E as [x [Hx E]].
  apply Proofs.Expansion.str_eqb_eq in E. subst x. exact (H Hx).
Qed.

Section Ent.
Variable ents : list Info.entity.
Variable en : W.env.
Hypothesis Hrel : env_rel en ents false.
Hypothesis Hsimple : forallb simple_ent ents = true.
Hypothesis Hsys : forall e0, In e0 ents -> en_values e0 = None -> en_system e0 <> None.
Hypothesis Hwf : forall e0, In e0 ents -> Forall piece_wf (values_of e0).

Notation names := (map en_name ents).
Notation look := (lookup ents).

(** ** the pieces of one replacement text, in content *)
Section ContentPieces.
Variable rec_s : W.xcontent -> W.reason + W.xcontent.
Variable rec_m : str -> ires str.
Hypothesis Hleaf : forall c, rec_s (W.XChar c) = inr (W.XChar c).

Lemma content_pieces (vs : list ent_value) : forallb simple_piece vs = true -> Forall piece_wf vs ->
  (forall m, In (XvEntity m) vs -> exists y, rec_s (W.XEntRef m) = inr y /\
     (Infoset.no_unexp y = true -> exists vm, rec_m m = IOk vm /\ chars_only y vm)) ->
  exists ys, W.mapM rec_s (map tok_item (toks vs)) = inr ys /\
    (forallb Infoset.no_unexp ys = true -> exists v, expand_values rec_m false false vs = IOk v /\ chars_list ys v).
Proof.
  induction vs as [|v vs IH]; intros Hs Hw Hent.
  - exists []. split; [reflexivity|]. intros _. exists []. split; [reflexivity|apply chars_list_nil].
  - cbn [forallb] in Hs. apply andb_prop in Hs. destruct Hs as [Hv Hvs]. inversion Hw as [|? ? Hwv Hwvs]; subst.
    destruct (IH Hvs Hwvs) as (ys & Eys & Pys); [intros m Hm; apply Hent; right; exact Hm|].
    unfold toks. cbn [flat_map]. fold (toks vs). rewrite map_app.
    assert (exists y1, W.mapM rec_s (map tok_item (toks_of v)) = inr y1 /\
              (forallb Infoset.no_unexp y1 = true -> exists v1, expand_value rec_m false false v = IOk v1 /\ chars_list y1 v1)) as (y1 & E1 & P1).
    { destruct v as [num r|m|m|s]; cbn [toks_of map tok_item simple_piece] in *; try discriminate Hv.
      - exists [W.XChar (W.number (radix_n r) num)]. split; [cbn [W.mapM]; rewrite Hleaf; reflexivity|]. intros _.
        cbn [piece_wf] in Hwv. destruct Hwv as [Hrf Hch]. exists [W.number (radix_n r) num]. split.
        + cbn [expand_value]. rewrite (Proofs.XmlWFSyntaxConvCheck.char_from_complete num r Hrf Hch). reflexivity.
        + apply (chars_list_text [W.number (radix_n r) num]).
      - destruct (Hent m (or_introl eq_refl)) as (y & Ey & Py). exists [y]. split; [cbn [W.mapM]; rewrite Ey; reflexivity|].
        intros Hn. cbn [forallb] in Hn. apply andb_prop in Hn. destruct Hn as [Hn _]. destruct (Py Hn) as (vm & Em & Cm).
        exists vm. split; [exact Em|apply chars_list_one; exact Cm].
      - exists (map W.XChar s). split.
        + rewrite map_map. cbn [tok_item]. apply mapM_id. intros x Hx. apply in_map_iff in Hx. destruct Hx as [c [<- _]]. apply Hleaf.
        + intros _. exists s. split; [reflexivity|]. apply chars_list_text. }
    exists (y1 ++ ys). split; [apply mapM_app; assumption|].
    intros Hn. rewrite forallb_app in Hn. apply andb_prop in Hn. destruct Hn as [Hn1 Hn2].
    destruct (P1 Hn1) as (v1 & Ev1 & C1). destruct (Pys Hn2) as (v2 & Ev2 & C2).
    exists (v1 ++ v2). split; [cbn [expand_values]; rewrite Ev1; cbn [ibind]; rewrite Ev2; reflexivity|apply chars_list_app; assumption].
Qed.
End ContentPieces.

Lemma expand_char f V c : W.expand f en V (W.XChar c) = inr (W.XChar c).
Proof. destruct f; reflexivity. Qed.

Lemma look_find nm : look nm = find (fun e0 => str_eqb (en_name e0) nm) ents.
Proof. reflexivity. Qed.

(** ** a reference to a declared entity in content *)
Theorem expand_good_v : forall h nm e V fuel mf, look nm = Some e -> goodb ents false false h e = true ->
  (forall v ev, In v V -> look v = Some ev -> goodb ents false false h ev = false) ->
  NoDup V -> incl V names -> (length names < fuel + length V)%nat -> (length names < mf + length V)%nat ->
  exists x', W.expand fuel en V (W.XEntRef nm) = inr x' /\
    (Infoset.no_unexp x' = true -> exists v, expand_gen true false false mf ents V nm = IOk v /\ chars_only x' v).
Proof.
  induction h as [|k IH]; intros nm e V fuel mf Hl Hg Hinv Hnd Hincl Hfu Hmf; [discriminate Hg|].
  destruct (goodb ents false false k e) eqn:Egk.
  - apply (IH nm e V fuel mf Hl Egk); try assumption.
    intros v ev Hv Hlv. specialize (Hinv v ev Hv Hlv). destruct (goodb ents false false k ev) eqn:E; [|reflexivity].
    apply goodb_mono in E. congruence.
  - destruct (lookup_name _ _ _ Hl) as [En Hin].
    assert (~ In nm V) as Hnotin by (intros Hv; specialize (Hinv nm e Hv Hl); congruence).
    assert (W.mem nm V = false) as Hmem by (apply mem_false; intros x Hx ->; exact (Hnotin Hx)).
    pose proof (visited_bound ents V Hnd Hincl) as Hb. destruct fuel as [|f]; [lia|]. destruct mf as [|mf']; [lia|].
    cbn [goodb] in Hg. apply andb_prop in Hg. destruct Hg as [Hg Hpieces]. apply andb_prop in Hg. destruct Hg as [Hnot _].
    apply negb_true_iff in Hnot. pose proof (assoc_declared ents false en Hrel nm e Hl) as Ha. unfold x_entity in Ha.
    destruct (en_values e) as [vs|] eqn:Ev.
    + (* internal *)
      assert (simple_ent e = true) as Hs by (rewrite forallb_forall in Hsimple; apply Hsimple; exact Hin).
      unfold simple_ent in Hs. rewrite Ev in Hs. apply andb_prop in Hs. destruct Hs as [Hsp Hcd].
      destruct (find_sub [93;93;62] (x_repl vs)) eqn:Ecd; [discriminate Hcd|].
      pose proof (toks_text vs Hsp) as Et. pose proof (toks_ok vs Hsp) as Hto.
      assert (W.p_content (Datatypes.S (length (x_repl vs))) (x_repl vs) = Some (map tok_item (toks vs), [])) as Hpc.
      { rewrite <- Et. apply content_toks; [exact Hto|rewrite Et; exact Ecd|lia]. }
      unfold values_of in Hpieces. rewrite Ev in Hpieces.
      assert (Hwv : Forall piece_wf vs) by (pose proof (Hwf e Hin) as W0; unfold values_of in W0; rewrite Ev in W0; exact W0).
      assert (incl (nm :: V) names) as Hincl' by (intros x [<-|Hx]; [rewrite <- En; apply in_map; exact Hin|apply Hincl; exact Hx]).
      assert (NoDup (nm :: V)) as Hnd' by (constructor; assumption).
      destruct (content_pieces (W.expand f en (nm :: V)) (expand_gen true false false mf' ents (nm :: V)) (expand_char f (nm :: V)) vs Hsp Hwv) as (ys & Eys & Pys).
      { intros m Ht. rewrite forallb_forall in Hpieces. specialize (Hpieces _ Ht). cbn [piece_goodb] in Hpieces. fold (look m) in Hpieces.
        destruct (look m) as [e'|] eqn:Fm.
        - apply (IH m e' (nm :: V) f mf' Fm Hpieces); try assumption.
          + intros v ev [<-|Hv] Hlv; [rewrite Hl in Hlv; injection Hlv as <-; exact Egk|].
            specialize (Hinv v ev Hv Hlv). destruct (goodb ents false false k ev) eqn:E; [|reflexivity]. apply goodb_mono in E. congruence.
          + cbn [length] in *. lia.
          + cbn [length] in *. lia.
        - pose proof (visited_bound ents (nm :: V) Hnd' Hincl') as Hb'. cbn [length] in *. destruct f as [|f0]; [lia|]. destruct mf' as [|mf0]; [lia|].
          rewrite orb_false_r in Hpieces. destruct (Info.predefined m) as [e1|] eqn:P; [|discriminate Hpieces].
          destruct (predef_content en m f0 (nm :: V) (predefined_cases m e1 P) (assoc_undeclared ents false en Hrel m Fm)
                      (undeclared_not_visited ents m (nm :: V) Fm Hincl')) as (ys0 & v0 & E0 & N0 & C0 & M0).
          exists (W.XExp m ys0). split; [exact E0|]. intros _. exists v0. split.
          + apply M0; [exact Fm|]. apply not_in_path. intros Hin0. apply (name_declared ents m (Hincl' m Hin0)). exact Fm.
          + apply chars_only_exp. exact C0. }
      exists (W.XExp nm ys). split.
      * cbn [W.expand]. rewrite Hmem, Ha, Hpc, Eys. reflexivity.
      * intros Hn. cbn [Infoset.no_unexp] in Hn. destruct (Pys Hn) as (v & Ev2 & Cv). exists v. split.
        -- cbn [expand_gen andb]. rewrite (not_in_path nm V Hnotin). unfold lookup_entity, lookup_entity2. rewrite <- look_find, Hl. cbn [ibind fst].
           rewrite Ev. exact Ev2.
        -- apply chars_only_exp. exact Cv.
    + (* external: not included *)
      destruct (en_notation e); [discriminate Hnot|]. exists (W.XEntRef nm). split; [cbn [W.expand]; rewrite Hmem, Ha; reflexivity|].
      intros Hn. discriminate Hn.
Qed.

(** ** the pieces of one replacement text, in an attribute value *)
Lemma av_value_cons f p ps : W.av_value (Datatypes.S f) en (p :: ps) = W.av_value (Datatypes.S f) en [p] ++ W.av_value (Datatypes.S f) en ps.
Proof. cbn [W.av_value flat_map]. now rewrite app_nil_r. Qed.

Lemma attr_pieces f (rec_m : str -> ires str) (vs : list ent_value) : forallb simple_piece vs = true -> Forall piece_wf vs ->
  (forall m, In (XvEntity m) vs -> exists vm, rec_m m = IOk vm /\ W.av_value (Datatypes.S f) en [W.AvEnt m] = vm) ->
  exists v, expand_values rec_m false true vs = IOk v /\ W.av_value (Datatypes.S f) en (map tok_piece (toks vs)) = v.
Proof.
  induction vs as [|v vs IH]; intros Hs Hw Hent.
  - exists []. split; reflexivity.
  - cbn [forallb] in Hs. apply andb_prop in Hs. destruct Hs as [Hv Hvs]. inversion Hw as [|? ? Hwv Hwvs]; subst.
    destruct (IH Hvs Hwvs) as (v2 & Ev2 & A2); [intros m Hm; apply Hent; right; exact Hm|].
    unfold toks. cbn [flat_map]. fold (toks vs). rewrite map_app, (av_value_app en f).
    assert (exists v1, expand_value rec_m false true v = IOk v1 /\ W.av_value (Datatypes.S f) en (map tok_piece (toks_of v)) = v1) as (v1 & E1 & A1).
    { destruct v as [num r|m|m|s]; cbn [toks_of map tok_piece simple_piece] in *; try discriminate Hv.
      - cbn [piece_wf] in Hwv. destruct Hwv as [Hrf Hch]. eexists. split.
        + cbn [expand_value]. rewrite (Proofs.XmlWFSyntaxConvCheck.char_from_complete num r Hrf Hch). reflexivity.
        + change [W.AvLit (W.number (radix_n r) num)] with (map W.AvLit [W.number (radix_n r) num]). apply av_value_lits.
      - destruct (Hent m (or_introl eq_refl)) as (vm & Em & Am). exists vm. split; [exact Em|exact Am].
      - exists (normalize_ws s). split; [reflexivity|]. rewrite map_map. cbn [tok_piece]. apply av_value_lits. }
    exists (v1 ++ v2). split; [cbn [expand_values]; rewrite E1; cbn [ibind]; rewrite Ev2; reflexivity|now rewrite A1, A2].
Qed.

(** ** a reference to a declared entity in an attribute value *)
Theorem av_good_v : forall h nm e V fuel mf, look nm = Some e -> goodb ents false true h e = true ->
  (forall v ev, In v V -> look v = Some ev -> goodb ents false true h ev = false) ->
  NoDup V -> incl V names -> (Datatypes.S (length names) < fuel + length V)%nat -> (length names < mf + length V)%nat ->
  exists v, expand_gen true false true mf ents V nm = IOk v /\ W.av_value fuel en [W.AvEnt nm] = v.
Proof.
  induction h as [|k IH]; intros nm e V fuel mf Hl Hg Hinv Hnd Hincl Hfu Hmf; [discriminate Hg|].
  destruct (goodb ents false true k e) eqn:Egk.
  - apply (IH nm e V fuel mf Hl Egk); try assumption.
    intros v ev Hv Hlv. specialize (Hinv v ev Hv Hlv). destruct (goodb ents false true k ev) eqn:E; [|reflexivity].
    apply goodb_mono in E. congruence.
  - destruct (lookup_name _ _ _ Hl) as [En Hin].
    assert (~ In nm V) as Hnotin by (intros Hv; specialize (Hinv nm e Hv Hl); congruence).
    pose proof (visited_bound ents V Hnd Hincl) as Hb. destruct fuel as [|[|f]]; [lia|lia|]. destruct mf as [|mf']; [lia|].
    cbn [goodb] in Hg. apply andb_prop in Hg. destruct Hg as [Hg Hpieces]. apply andb_prop in Hg. destruct Hg as [Hnot Hsysn].
    apply negb_true_iff in Hnot. cbn [andb] in Hsysn. apply negb_true_iff in Hsysn. pose proof (assoc_declared ents false en Hrel nm e Hl) as Ha. unfold x_entity in Ha.
    destruct (en_values e) as [vs|] eqn:Ev.
    + assert (simple_ent e = true) as Hs by (rewrite forallb_forall in Hsimple; apply Hsimple; exact Hin).
      unfold simple_ent in Hs. rewrite Ev in Hs. apply andb_prop in Hs. destruct Hs as [Hsp _].
      pose proof (toks_text vs Hsp) as Et. pose proof (toks_ok vs Hsp) as Hto.
      assert (W.p_pieces (Datatypes.S (length (x_repl vs))) None W.c_lt (x_repl vs) = Some (map tok_piece (toks vs), [])) as Hpc.
      { rewrite <- Et. apply pieces_toks; [exact Hto|lia]. }
      unfold values_of in Hpieces. rewrite Ev in Hpieces.
      assert (Hwv : Forall piece_wf vs) by (pose proof (Hwf e Hin) as W0; unfold values_of in W0; rewrite Ev in W0; exact W0).
      assert (incl (nm :: V) names) as Hincl' by (intros x [<-|Hx]; [rewrite <- En; apply in_map; exact Hin|apply Hincl; exact Hx]).
      assert (NoDup (nm :: V)) as Hnd' by (constructor; assumption).
      destruct (attr_pieces f (expand_gen true false true mf' ents (nm :: V)) vs Hsp Hwv) as (v & Ev2 & Av).
      { intros m Ht. rewrite forallb_forall in Hpieces. specialize (Hpieces _ Ht). cbn [piece_goodb] in Hpieces. fold (look m) in Hpieces.
        destruct (look m) as [e'|] eqn:Fm.
        - apply (IH m e' (nm :: V) (Datatypes.S f) mf' Fm Hpieces); try assumption.
          + intros v ev [<-|Hv] Hlv; [rewrite Hl in Hlv; injection Hlv as <-; exact Egk|].
            specialize (Hinv v ev Hv Hlv). destruct (goodb ents false true k ev) eqn:E; [|reflexivity]. apply goodb_mono in E. congruence.
          + cbn [length] in *. lia.
          + cbn [length] in *. lia.
        - pose proof (visited_bound ents (nm :: V) Hnd' Hincl') as Hb'. cbn [length] in *. destruct f as [|f0]; [lia|]. destruct mf' as [|mf0]; [lia|].
          rewrite orb_false_r in Hpieces. destruct (Info.predefined m) as [e1|] eqn:P; [|discriminate Hpieces].
          destruct (predef_attr en m f0 (predefined_cases m e1 P) (assoc_undeclared ents false en Hrel m Fm)) as (v0 & A0 & M0).
          exists v0. split; [|exact A0].
          apply M0; [exact Fm|]. apply not_in_path. intros Hin0. apply (name_declared ents m (Hincl' m Hin0)). exact Fm. }
      exists v. split.
      * cbn [expand_gen andb]. rewrite (not_in_path nm V Hnotin). unfold lookup_entity, lookup_entity2. rewrite <- look_find, Hl. cbn [ibind fst].
        rewrite Ev. exact Ev2.
      * cbn [W.av_value flat_map]. rewrite Ha, Hpc. rewrite app_nil_r. exact Av.
    + exfalso. apply (Hsys e Hin Ev). destruct (en_system e); [discriminate Hsysn|reflexivity].
Qed.

(** ** a reference the model resolved *)
Lemma cont_simple f nm e : (length ents <= f)%nat -> resolve_ref ents false false nm = IOk e ->
  exists x', W.expand (Datatypes.S (Datatypes.S f)) en [] (W.XEntRef nm) = inr x' /\
    (Infoset.no_unexp x' = true -> exists v, Info.expand ents nm = IOk v /\ chars_only x' v).
Proof.
  intros Hf H. destruct (resolve_good ents false _ _ _ H) as [[F Hp]|[F [h Hg]]].
  - destruct (predef_content en nm (Datatypes.S f) [] Hp (assoc_undeclared ents false en Hrel nm F) eq_refl) as (ys & v & E0 & N0 & C0 & M0).
    exists (W.XExp nm ys). split; [exact E0|]. intros _. exists v. split; [|apply chars_only_exp; exact C0].
    unfold Info.expand, expand_fuel. rewrite Nat.add_comm. apply M0; [exact F|reflexivity].
  - apply (expand_good_v h nm e [] _ _ F Hg); [intros v ev []|constructor|intros x []| |]; rewrite map_length; cbn [length]; unfold expand_fuel; lia.
Qed.

Lemma attr_simple f nm e : (length ents <= f)%nat -> resolve_ref ents false true nm = IOk e ->
  exists v, expand_attr ents nm = IOk v /\ W.av_value (Datatypes.S (Datatypes.S (Datatypes.S f))) en [W.AvEnt nm] = v.
Proof.
  intros Hf H. destruct (resolve_good ents false _ _ _ H) as [[F Hp]|[F [h Hg]]].
  - destruct (predef_attr en nm (Datatypes.S f) Hp (assoc_undeclared ents false en Hrel nm F)) as (v & A0 & M0).
    exists v. split; [|exact A0]. unfold expand_attr, expand_fuel. rewrite Nat.add_comm. apply M0; [exact F|reflexivity].
  - apply (av_good_v h nm e [] _ _ F Hg); [intros v ev []|constructor|intros x []| |]; rewrite map_length; cbn [length]; unfold expand_fuel; lia.
Qed.
(** ** a reference in a default value: resolved against the entities declared BEFORE the attribute-list
    declaration, expanded against the whole table when the value is asked for *)
Lemma find_app_some {A} (g : A -> bool) (a b : list A) x : find g a = Some x -> find g (a ++ b) = Some x.
Proof. induction a as [|y a IH]; [discriminate|]. cbn [find app]. destruct (g y); [auto|exact IH]. Qed.

Lemma goodb_prefix (acc rest : list Info.entity) a : (forall e0, In e0 (acc ++ rest) -> Info.predefined (en_name e0) = None) ->
  forall h e, goodb acc false a h e = true -> goodb (acc ++ rest) false a h e = true.
Proof.
  intros Hnp. induction h as [|k IH]; intros e Hg; [discriminate Hg|]. cbn [goodb] in *. apply andb_prop in Hg. destruct Hg as [Hg Hp]. rewrite Hg. cbn [andb].
  apply forallb_forall. intros v Hv. rewrite forallb_forall in Hp. specialize (Hp v Hv). destruct v as [num r|m|m|s0]; cbn [piece_goodb] in *; try reflexivity.
  unfold lookup in *. destruct (find (fun e0 => str_eqb (en_name e0) m) acc) as [e'|] eqn:Fa.
  - rewrite (find_app_some _ acc rest e' Fa). exact (IH e' Hp).
  - rewrite orb_false_r in Hp. destruct (find (fun e0 => str_eqb (en_name e0) m) (acc ++ rest)) as [e'|] eqn:Fb; [|rewrite Hp; reflexivity].
    exfalso. apply find_some in Fb. destruct Fb as [Hin Hn]. apply Proofs.Expansion.str_eqb_eq in Hn. specialize (Hnp e' Hin). rewrite Hn in Hnp. rewrite Hnp in Hp. discriminate Hp.
Qed.

Lemma attr_prefix f (acc rest : list Info.entity) nm e : ents = acc ++ rest -> (forall e0, In e0 ents -> Info.predefined (en_name e0) = None) ->
  (length ents <= f)%nat -> resolve_ref acc false true nm = IOk e ->
  exists v, expand_attr ents nm = IOk v /\ W.av_value (Datatypes.S (Datatypes.S (Datatypes.S f))) en [W.AvEnt nm] = v.
Proof.
  intros He Hnp Hf H. destruct (resolve_good acc false _ _ _ H) as [[F Hp]|[F [h Hg]]].
  - assert (Fe : look nm = None).
    { destruct (look nm) as [e'|] eqn:Fe; [|reflexivity]. exfalso. destruct (lookup_name _ _ _ Fe) as [En Hin]. specialize (Hnp e' Hin). rewrite En in Hnp.
      destruct Hp as [->|[->|[->|[->| ->]]]]; discriminate Hnp. }
    destruct (predef_attr en nm (Datatypes.S f) Hp (assoc_undeclared ents false en Hrel nm Fe)) as (v & A0 & M0).
    exists v. split; [|exact A0]. unfold expand_attr, expand_fuel. rewrite Nat.add_comm. apply M0; [exact Fe|reflexivity].
  - assert (Fe : look nm = Some e) by (rewrite He; unfold lookup in *; apply find_app_some; exact F).
    assert (Hge : goodb ents false true h e = true) by (rewrite He; apply goodb_prefix; [rewrite <- He; exact Hnp|exact Hg]).
    apply (av_good_v h nm e [] _ _ Fe Hge); [intros v ev []|constructor|intros x []| |]; rewrite map_length; cbn [length]; unfold expand_fuel; lia.
Qed.
End Ent.
