"""C06 -- XPath parsing and evaluation are total: parser termination theorem on the regenerated
grammar + evaluation no-panic / bounded-navigation theorems on the evaluator model, tied by the
prod and xpath correspondences; totality streams against the real crates."""
import json
from . import lib, pegcorr

def check(run):
    run.trusted = ['Coq 8.16.1 kernel + VM', 'translator T2 + Model/Peg.v semantics of the nom combinators (validated by the prod correspondence)',
                   'Model/XPathEval.v (Panic and OutOfFuel are values), tied by the xpath correspondence',
                   'harness: catch_unwind per query, isolated processes with time limits for nested / hostile inputs',
                   'native stack depth and wall clock are outside the model: measured, not proved']
    proved, _ = lib.proof_step(run, 'C06', ['T1', 'T2', 'T3'])
    okr, mok, _ = lib.build_binaries(run, model_areas=['peg', 'xpath', 'xparse'])
    if okr and mok.get('peg'):
        pegcorr.prod_correspondence(run, 'xpath', 25 if run.tier == 'quick' else 300, tag='xpath-prod')
    if okr:
        try:
            from . import C08
            C08.parser_totality(run)
        except Exception as ex:
            run.tie_breaks.append('parser totality stream failed to run: %r' % (ex,))
    if okr and mok.get('xpath'):
        from . import xpath_common as X
        X.eval_totality(run, n_random=300 if run.tier == 'quick' else 4000, isolate_limit=2 if run.tier == 'quick' else 8)
        X.eval_cost(run)
    return run.finish(level='proof',
        rule='parser: every production of the XPath grammar on generated sentences / mutations (distinct by (production, string)); nested parentheses, predicates and calls to depth 24 (thorough 200) under a time limit; evaluation: unsupported construct x syntactic position, context-node kind x axis, garbage, generated queries with injected failures; non-trivial = non-empty input accepted by the expression parser or a hostile shape',
        assumptions=['native stack depth and wall clock are outside the model', 'cost (time polynomial in the expression length) is measured on adversarial families of the parser and of the evaluator (one process per case, 10 s), not proved'])

def replay(path):
    d = json.load(open(path))
    print(json.dumps(d, indent=1, ensure_ascii=False)[:3000])
    try:
        from . import xpath_common as X
        if 'exprs' in d or 'doc' in d:
            return X.replay(path)
    except Exception:
        pass
    return 0
