//! Correspondence harness: runs the real xml-rs crates on cases read from stdin and prints
//! one canonical observation line per case.  The extracted Coq model (ocaml/) speaks the
//! same protocol; checks/ diff the two.  Usage: `xh <domain>`; domains are the files of
//! src/domains/ (see build.rs).  `xh <domain> --isolated` is the same, meant to be started
//! once per case by checks/lib.py for inputs that may abort or hang.
//!
//! Strings travel as decimal code points separated by ',' ("-" is the empty string).

pub mod util;
mod table {
    include!(concat!(env!("OUT_DIR"), "/domains.rs"));
}

use std::io::{self, BufRead, Write};

fn main() {
    let args: Vec<String> = std::env::args().collect();
    let domain = args.get(1).map(|s| s.as_str()).unwrap_or("");
    // panics are observations, not noise
    std::panic::set_hook(Box::new(|_| {}));
    let stdin = io::stdin();
    let stdout = io::stdout();
    let mut out = io::BufWriter::new(stdout.lock());
    if let Some(f) = table::whole_fn(domain) {
        f(&mut out);
    } else if let Some(f) = table::case_fn(domain) {
        for line in stdin.lock().lines() {
            let line = line.unwrap();
            if line.is_empty() {
                continue;
            }
            let r = std::panic::catch_unwind(move || f(&line));
            let s = match r {
                Ok(s) => s,
                Err(_) => "panic".to_string(),
            };
            writeln!(out, "{}", s).unwrap();
            out.flush().unwrap();
        }
    } else {
        eprintln!("unknown domain {}", domain);
        std::process::exit(2);
    }
    out.flush().unwrap();
}
