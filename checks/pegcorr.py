"""prod correspondence: every production of a T2 grammar, real nom parser (hook
verif_production) vs the extracted Peg.denote on the regenerated grammar."""
import os, sys
from . import lib
sys.path.insert(0, os.path.join(lib.VERIF, 'tools', 'gen'))
import peggen

TEST_FILES = {'xml': ['parser/src/lib.rs'], 'xpath': ['xpath/src/expr/mod.rs']}
GFILE = {'xml': 'GrammarXmlGen', 'xpath': 'GrammarXPathGen'}

def build_cases(run, grammar, per_prod, only=None):
    info = peggen.load_info(GFILE[grammar])
    rng = run.rng
    gen = peggen.Gen(info, rng)
    names = [n for n in info['names'] if only is None or n in only]
    cases = []
    lits = []
    for rel in TEST_FILES[grammar]:
        try:
            lits += peggen.harvest_test_literals(lib.REPO, rel, info['names'])
        except Exception as ex:
            run.notes.append('harvest failed: %s' % ex)
    for prod, s in lits:
        if only is None or prod in only:
            cases.append((prod, s, 'test-literal'))
    for prod in names:
        for k in range(per_prod):
            try:
                s = gen.gen(prod)
            except RecursionError:
                continue
            if len(s) > 400:
                s = s[:400]
            kind = 'sentence'
            m = k % 4
            if m == 1:
                s = peggen.mutate(s, rng, 1); kind = 'mut1'
            elif m == 2:
                s = peggen.mutate(s, rng, 2); kind = 'mut2'
            elif m == 3:
                s = s + peggen.garbage(rng, rng.randint(1, 4)); kind = 'tail'
            s = [c for c in s if peggen.valid_scalar(c)]
            cases.append((prod, s, kind))
    return info, cases

def run_cases(run, grammar, cases, model_area='peg'):
    lines = ['%s %s %s' % (grammar, p, ','.join(str(c) for c in s) if s else '-') for p, s, _ in cases]
    rc1, rust = lib.run_bin(lib.rust_bin(), ['prod'], lines, timeout=600, shards=min(8, lib.NPROC))
    rc2, model = lib.run_bin(lib.model_bin(model_area), ['prod'], lines, timeout=900, shards=lib.NPROC)
    return rust, model

def prod_correspondence(run, grammar, per_prod, only=None, tag='prod'):
    """returns [(prod, string, kind, rust, model)]; mismatches are recorded as tie breaks"""
    info, cases = build_cases(run, grammar, per_prod, only)
    rust, model = run_cases(run, grammar, cases)
    out = []
    bad = 0
    for (p, s, kind), r, m in zip(cases, rust, model):
        out.append((p, s, kind, r, m))
        run.evaluations += 1
        run.count('%s:%s' % (tag, kind))
        run.count('%s:result:%s' % (tag, r.split()[0] if r else 'none'))
        if s:
            run.nontrivial.add((grammar, p, tuple(s)))
        if r != m:
            bad += 1
            if bad <= 5:
                run.tie_breaks.append('prod correspondence (%s): production %s on %r: implementation says %r, model says %r'
                                      % (grammar, p, ''.join(chr(c) for c in s), r, m))
    if len(rust) != len(cases) or len(model) != len(cases):
        run.tie_breaks.append('prod correspondence (%s): %d cases, %d implementation lines, %d model lines' % (grammar, len(cases), len(rust), len(model)))
    for p, s, kind, r, m in out[:3] + out[len(out) // 2: len(out) // 2 + 3]:
        run.sample({'grammar': grammar, 'production': p, 'input': ''.join(chr(c) for c in s), 'kind': kind, 'implementation': r, 'model': m})
    return out
