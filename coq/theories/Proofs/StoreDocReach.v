(** * C15: the round trip of edited documents along histories, and the refutation witnesses

    - [lex15_hdr_ok]: the header check is a consequence of the lexical invariant;
    - [edited_roundtrip]: for every store with the invariants and outside [Known15], the text the
      printer produces parses completely and gives the document the store denotes;
    - [edited_roundtrip_reachable]: the same for every document of every world reachable from a
      world with the invariants (which the executable checks establish for parsed documents);
    - one witness per clause of [Known15]: a REACHABLE store (computed from a history by
      [vm_compute]) on which exactly that clause holds and the round trip fails. *)
From Coq Require Import List NArith Bool Lia.
From XmlRs Require Import Base.CPred Spec.XmlChars Model.Peg Model.ParseActions Model.Info Model.Display.
From XmlRs Require Import Proofs.DisplayEq Proofs.DisplayFull Proofs.StoreDocLex.
From XmlRs Require Import Model.Store Model.StoreCheck Model.PrintableCheck Model.DomOps Model.StoreDoc.
From XmlRs Require Import Proofs.DomBase Proofs.DomTree Proofs.DomOpsInv Proofs.DomCheck Proofs.DomPrintable
  Proofs.DomL1RefineValue Proofs.DomL1RefineInv Proofs.DomL1RefineInvCheck
  Proofs.StoreDocInv Proofs.StoreDocShow Proofs.StoreDocWf.
Import ListNotations.
Open Scope N_scope.

Lemma lex15_hdr_ok s : Lex15 s -> hdr_ok s = true.
Proof.
  intros [_ [D E]]. unfold hdr_ok, dt_text. destruct (doc_decl s) as [d|] eqn:DD.
  - unfold doc_decl in DD. apply find_some in DD. destruct DD as [_ Hk]. unfold has_kind in Hk.
    destruct (get s d) as [it|] eqn:G; [|discriminate].
    destruct (kind_eqb_spec (ikind it) KDt) as [Kd|]; [|discriminate].
    pose proof (E d it G) as X. unfold extra15 in X. rewrite Kd in X. unfold dt_item_ok in X.
    destruct (header_of (sdecl s) (idata it)) as [h|]; [|discriminate].
    apply andb_prop in X. destruct X as [X1 X2]. rewrite X1. cbn [andb].
    destruct (h_doctype h); [exact X2 | discriminate].
  - unfold decl_ok in D. destruct (header_of (sdecl s) []) as [h|]; [|discriminate].
    apply andb_prop in D. destruct D as [D1 D2]. rewrite D1. cbn [andb]. destruct (h_doctype h); [discriminate | reflexivity].
Qed.

(** the statement of the round trip for one store *)
Definition roundtrip_holds (s : store) : Prop :=
  exists d', from_raw (show_doc s) = OOk ([], d') /\ doc_eq d' (doc_of_store s).

Theorem edited_roundtrip s : TreeInv s -> Lex15 s -> UniqQ s -> Known15 s = false ->
  display (doc_of_store s) = show_doc s
  /\ printable (doc_of_store s)
  /\ from_raw (show_doc s) = OOk ([], doc_of_store s).
Proof.
  intros T L U K. pose proof (lex15_hdr_ok s L) as H. split; [apply display_show_doc; assumption|].
  split; [apply store_doc_printable; assumption | apply store_roundtrip; assumption].
Qed.

Corollary edited_roundtrip_holds s : TreeInv s -> Lex15 s -> UniqQ s -> Known15 s = false -> roundtrip_holds s.
Proof. intros T L U K. exists (doc_of_store s). split; [apply edited_roundtrip; assumption | reflexivity]. Qed.

(** along histories *)
Theorem inv15_reachable init ops k s :
  WInv2 init -> WLex15 init -> Forall op_facts_ok ops -> Forall op_facts_ok15 ops ->
  doc_at (run init ops) k = Some s -> TreeInv s /\ Lex15 s /\ UniqQ s.
Proof.
  intros I2 L F1 F2 D.
  pose proof (run_inv2 ops init I2) as R2. pose proof (lex15_reachable ops init L F1 F2) as RL.
  pose proof (doc_at_P Inv2 _ _ _ R2 D) as [T [U _]]. pose proof (doc_at_P Lex15 _ _ _ RL D) as Ls.
  split; [exact T | split; [exact Ls | exact U]].
Qed.

Theorem edited_roundtrip_reachable init ops k s :
  WInv2 init -> WLex15 init -> Forall op_facts_ok ops -> Forall op_facts_ok15 ops ->
  doc_at (run init ops) k = Some s -> Known15 s = false ->
  display (doc_of_store s) = show_doc s /\ from_raw (show_doc s) = OOk ([], doc_of_store s).
Proof.
  intros I2 L F1 F2 D K. destruct (inv15_reachable init ops k s I2 L F1 F2 D) as [T [Ls U]].
  destruct (edited_roundtrip s T Ls U K) as [E1 [_ E3]]. split; assumption.
Qed.

(** ** witnesses *)
Definition known15_vector (s : store) : list bool :=
  [K_noroot s; K_el_before_dt s; K_adjacent_text s; K_empty_text s; K_text_cdend s; K_both_quotes s; K_unresolved s].

Definition mk15 (k : Store.kind) (pfx : option str) (loc data : str) (par : option id) (ch at_ : list id) : Store.item :=
  mkItem k pfx loc data false par ch at_ [].
Definition dinfo15 (d : str) : data_info := mkData d false false false None None.
Definition ainfo15 (l : list vitem) : data_info := mkData [] false false false None (Some l).

Definition init_ok (l : list (id * Store.item)) (nx : N) (decl : str) : bool :=
  tree_inv_b l nx 1 && uniq_b l && ents_b l && lex15_b decl l && decl_ok (store_of_list l nx decl 1).

Lemma init_ok_sound l nx decl : init_ok l nx decl = true ->
  WInv2 (mkWorld [store_of_list l nx decl 1]) /\ WLex15 (mkWorld [store_of_list l nx decl 1]).
Proof.
  unfold init_ok. intros H. apply andb_prop in H. destruct H as [H H5]. apply andb_prop in H. destruct H as [H H4].
  apply andb_prop in H. destruct H as [H H3]. apply andb_prop in H. destruct H as [H1 H2].
  split; (constructor; [|constructor]); [apply inv2_checkable; assumption | apply lex15_b_sound; assumption].
Qed.

Ltac fact_fin :=
  try match goal with
      | E : None = Some _ |- _ => discriminate E
      | E : false = true |- _ => discriminate E
      end;
  repeat match goal with E : Some _ = Some _ |- _ => inversion E; clear E; subst end; vm_compute; reflexivity.
Ltac fact_leaf :=
  match goal with
  | |- True => exact I
  | |- _ /\ _ => split; fact_leaf
  | |- data_facts_ok _ => split; intros ? E; cbn [d_attr d_pi ainfo15 dinfo15] in E; fact_fin
  | |- data_facts_ok15 _ => split; intros ? E; cbn [d_attr d_pi ainfo15 dinfo15] in E; fact_fin
  | |- name_facts_ok _ =>
    unfold name_facts_ok; cbn [n_elem n_attr n_pi n_ref n_str]; repeat split; intros; fact_fin
  | |- name_facts_ok15 _ => intros ? E; cbn [n_pi] in E; fact_fin
  end.
Ltac facts_trivial :=
  repeat (apply Forall_cons; [cbn [op_facts_ok op_facts_ok15]; fact_leaf|]); apply Forall_nil.

(** the final store of a history from one parsed document *)
Definition final (l : list (id * Store.item)) (nx : N) (decl : str) (ops : list op) : option store :=
  doc_at (run (mkWorld [store_of_list l nx decl 1]) ops) 0.

Definition refuted (clause : nat) : Prop :=
  exists s, TreeInv s /\ Lex15 s /\ UniqQ s
            /\ known15_vector s = map (Nat.eqb clause) [0;1;2;3;4;5;6]%nat
            /\ ~ roundtrip_holds s.

Lemma refuted_intro clause l nx decl ops s :
  init_ok l nx decl = true -> Forall op_facts_ok ops -> Forall op_facts_ok15 ops ->
  final l nx decl ops = Some s ->
  known15_vector s = map (Nat.eqb clause) [0;1;2;3;4;5;6]%nat ->
  (forall d', from_raw (show_doc s) = OOk ([], d') -> impl_eq d' (doc_of_store s) = false) ->
  refuted clause.
Proof.
  intros I F1 F2 D V R. destruct (init_ok_sound l nx decl I) as [I2 IL].
  unfold final in D. destruct (inv15_reachable (mkWorld [store_of_list l nx decl 1]) ops 0 s I2 IL F1 F2 D) as [T [Ls U]].
  exists s. split; [exact T|]. split; [exact Ls|]. split; [exact U|]. split; [exact V|].
  intros [d' [E1 E2]]. specialize (R d' E1). unfold doc_eq in E2. subst d'. rewrite impl_eq_refl in R. discriminate.
Qed.

(** C15-NOROOT: <r/> : remove_child(document, r) *)
Definition w0_items : list (id * Store.item) := [ (1, mk15 KDoc None [] [] None [2] []); (2, mk15 KEl None [114] [] (Some 1) [] []) ].
Definition w0_ops : list op := [RemoveChild (0, 1) (0, 2)].
Definition w0_final := Eval vm_compute in show_doc (match final w0_items 3 [] w0_ops with Some s => s | None => store_of_list [] 0 [] 0 end).

Theorem noroot_refuted : refuted 0.
Proof.
  destruct (final w0_items 3 [] w0_ops) as [s|] eqn:D; [|vm_compute in D; discriminate].
  eapply (refuted_intro 0 w0_items 3 [] w0_ops s); [vm_compute; reflexivity | facts_trivial | facts_trivial | exact D | |].
  - vm_compute in D. inversion D; subst s. vm_compute. reflexivity.
  - vm_compute in D. inversion D; subst s. intros d' E. vm_compute in E. discriminate.
Qed.

(** C15-ELEMENT-BEFORE-DOCTYPE: <!DOCTYPE r><r/> : remove r, create n, insert n before the document type *)
Definition dt_r : str := [60;33;68;79;67;84;89;80;69;32;114;62].
Definition w1_items : list (id * Store.item) :=
  [ (1, mk15 KDoc None [] [] None [2;3] []); (2, mk15 KDt None [114] dt_r (Some 1) [] []); (3, mk15 KEl None [114] [] (Some 1) [] []) ].
Definition w1_ops : list op :=
  [RemoveChild (0, 1) (0, 3); CreateElement (0, 1) (mkName [110] (Some (None, [110])) None None false); InsertBefore (0, 1) (0, 4) (0, 2)].

Theorem el_before_dt_refuted : refuted 1.
Proof.
  destruct (final w1_items 4 [] w1_ops) as [s|] eqn:D; [|vm_compute in D; discriminate].
  eapply (refuted_intro 1 w1_items 4 [] w1_ops s); [vm_compute; reflexivity | facts_trivial | facts_trivial | exact D | |].
  - vm_compute in D. inversion D; subst s. vm_compute. reflexivity.
  - vm_compute in D. inversion D; subst s. intros d' E. vm_compute in E. discriminate.
Qed.

(** C15-ADJACENT-TEXT: <r>a</r> : create_text_node('b'), append *)
Definition w2_items : list (id * Store.item) :=
  [ (1, mk15 KDoc None [] [] None [2] []); (2, mk15 KEl None [114] [] (Some 1) [3] []); (3, mk15 KTx None [] [97] (Some 2) [] []) ].
Definition w2_ops : list op := [CreateTextNode (0, 1) (dinfo15 [98]); AppendChild (0, 2) (0, 4)].

Theorem adjacent_text_refuted : refuted 2.
Proof.
  destruct (final w2_items 4 [] w2_ops) as [s|] eqn:D; [|vm_compute in D; discriminate].
  eapply (refuted_intro 2 w2_items 4 [] w2_ops s); [vm_compute; reflexivity | facts_trivial | facts_trivial | exact D | |].
  - vm_compute in D. inversion D; subst s. vm_compute. reflexivity.
  - vm_compute in D. inversion D; subst s. intros d' E. vm_compute in E. inversion E; subst d'. vm_compute. reflexivity.
Qed.

(** DD3: <r/> : create_text_node(''), append *)
Definition w3_ops : list op := [CreateTextNode (0, 1) (dinfo15 []); AppendChild (0, 2) (0, 3)].

Theorem empty_text_refuted : refuted 3.
Proof.
  destruct (final w0_items 3 [] w3_ops) as [s|] eqn:D; [|vm_compute in D; discriminate].
  eapply (refuted_intro 3 w0_items 3 [] w3_ops s); [vm_compute; reflexivity | facts_trivial | facts_trivial | exact D | |].
  - vm_compute in D. inversion D; subst s. vm_compute. reflexivity.
  - vm_compute in D. inversion D; subst s. intros d' E. vm_compute in E. inversion E; subst d'. vm_compute. reflexivity.
Qed.

(** C15-ATTR-TEXT-MOVED: <r a='x'>t</r> : set_value(a, ']]>'), replace_child(r, the new value text, t) *)
Definition w4_items : list (id * Store.item) :=
  [ (1, mk15 KDoc None [] [] None [2] []); (2, mk15 KEl None [114] [] (Some 1) [5] [3]); (3, mk15 KAt None [97] [] (Some 2) [4] []);
    (4, mk15 KTx None [] [120] (Some 3) [] []); (5, mk15 KTx None [] [116] (Some 2) [] []) ].
Definition w4_ops : list op := [SetNodeValue (0, 3) (ainfo15 [VText [93;93;62]]); ReplaceChild (0, 2) (0, 6) (0, 5)].

Theorem text_cdend_refuted : refuted 4.
Proof.
  destruct (final w4_items 6 [] w4_ops) as [s|] eqn:D; [|vm_compute in D; discriminate].
  eapply (refuted_intro 4 w4_items 6 [] w4_ops s); [vm_compute; reflexivity | facts_trivial | facts_trivial | exact D | |].
  - vm_compute in D. inversion D; subst s. vm_compute. reflexivity.
  - vm_compute in D. inversion D; subst s. intros d' E. vm_compute in E. discriminate.
Qed.

(** D59 (both quotation marks): <r a='x'/> : append_data to the value text, twice *)
Definition w5_items : list (id * Store.item) :=
  [ (1, mk15 KDoc None [] [] None [2] []); (2, mk15 KEl None [114] [] (Some 1) [] [3]); (3, mk15 KAt None [97] [] (Some 2) [4] []);
    (4, mk15 KTx None [] [120] (Some 3) [] []) ].
Definition w5_ops : list op := [AppendData (0, 4) (dinfo15 [34]); AppendData (0, 4) (dinfo15 [39])].

Theorem both_quotes_refuted : refuted 5.
Proof.
  destruct (final w5_items 5 [] w5_ops) as [s|] eqn:D; [|vm_compute in D; discriminate].
  eapply (refuted_intro 5 w5_items 5 [] w5_ops s); [vm_compute; reflexivity | facts_trivial | facts_trivial | exact D | |].
  - vm_compute in D. inversion D; subst s. vm_compute. reflexivity.
  - vm_compute in D. inversion D; subst s. intros d' E. vm_compute in E. inversion E; subst d'. vm_compute. reflexivity.
Qed.

(** C15-DOCTYPE-REMOVED: <!DOCTYPE r [<!ENTITY e 'v'>]><r>&e;</r> : remove the document type *)
Definition dt_e : str := [60;33;68;79;67;84;89;80;69;32;114;32;91;60;33;69;78;84;73;84;89;32;101;32;34;118;34;62;93;62].
Definition w6_items : list (id * Store.item) :=
  [ (1, mk15 KDoc None [] [] None [2;3] []); (2, mkItem KDt None [114] dt_e false (Some 1) [] [] [[101]]);
    (3, mk15 KEl None [114] [] (Some 1) [4] []); (4, mk15 KEr None [101] [] (Some 3) [] []) ].
Definition w6_ops : list op := [RemoveChild (0, 1) (0, 2)].

Theorem unresolved_refuted : refuted 6.
Proof.
  destruct (final w6_items 5 [] w6_ops) as [s|] eqn:D; [|vm_compute in D; discriminate].
  eapply (refuted_intro 6 w6_items 5 [] w6_ops s); [vm_compute; reflexivity | facts_trivial | facts_trivial | exact D | |].
  - vm_compute in D. inversion D; subst s. vm_compute. reflexivity.
  - vm_compute in D. inversion D; subst s. intros d' E. vm_compute in E. discriminate.
Qed.

(** the same clause with the document type in place (NOT among the listed findings): a reference
    to an unparsed entity is created and appended; the parser refuses the print
    <!DOCTYPE r [<!NOTATION n SYSTEM 'x'><!ENTITY u SYSTEM 'f' NDATA n>]><r/> : create_entity_reference('u'), append *)
Definition dt_u : str :=
  [60;33;68;79;67;84;89;80;69;32;114;32;91;60;33;78;79;84;65;84;73;79;78;32;110;32;83;89;83;84;69;77;32;34;120;34;62;60;33;69;78;84;73;84;89;32;117;32;83;89;83;84;69;77;32;34;102;34;32;78;68;65;84;65;32;110;62;93;62].
Definition w7_items : list (id * Store.item) :=
  [ (1, mk15 KDoc None [] [] None [2;3] []); (2, mkItem KDt None [114] dt_u false (Some 1) [] [] [[0;117]]);
    (3, mk15 KEl None [114] [] (Some 1) [] []) ].
Definition w7_ops : list op := [CreateEntityReference (0, 1) (mkName [117] None None None true); AppendChild (0, 3) (0, 4)].

Theorem entref_unchecked_refuted : refuted 6.
Proof.
  destruct (final w7_items 4 [] w7_ops) as [s|] eqn:D; [|vm_compute in D; discriminate].
  eapply (refuted_intro 6 w7_items 4 [] w7_ops s); [vm_compute; reflexivity | facts_trivial | facts_trivial | exact D | |].
  - vm_compute in D. inversion D; subst s. vm_compute. reflexivity.
  - vm_compute in D. inversion D; subst s. intros d' E. vm_compute in E. discriminate.
Qed.

Example entref_unchecked_has_doctype :
  option_map (fun s => (doc_decl s, show_doc s)) (final w7_items 4 [] w7_ops)
  = Some (Some 2, dt_u ++ [60;114;62;38;117;59;60;47;114;62]).
Proof. vm_compute. reflexivity. Qed.

(** ** a non-trivial edited store inside the theorem
    <?xml version='1.0'?><!DOCTYPE r [<!ENTITY e 'v'>]><r xmlns:p='urn:p' a='1'><b p:x='2'>t<p:e/>&e;&#65;</b></r>
    history: a comment and a PI are created and inserted before the document type and after the
    document element, an element is created, given an attribute whose value holds a character
    reference and a reference to e, and appended; the text t is split, a CDATA section is put
    between the halves; the attribute a is removed *)
Definition decl10 : str := [60;63;120;109;108;32;118;101;114;115;105;111;110;61;34;49;46;48;34;63;62].
Definition rt_items : list (id * Store.item) :=
  [ (1, mk15 KDoc None [] [] None [20;2] []);
    (20, mkItem KDt None [114] dt_e false (Some 1) [] [] [[101]]);
    (2, mk15 KEl None [114] [] (Some 1) [7] [3;5]);
    (3, mk15 KAt (Some Store.s_xmlns) [112] [] (Some 2) [4] []);
    (4, mk15 KTx None [] [117;114;110;58;112] (Some 3) [] []);
    (5, mk15 KAt None [97] [] (Some 2) [6] []);
    (6, mk15 KTx None [] [49] (Some 5) [] []);
    (7, mk15 KEl None [98] [] (Some 2) [10;11;12;13] [8]);
    (8, mk15 KAt (Some [112]) [120] [] (Some 7) [9] []);
    (9, mk15 KTx None [] [50] (Some 8) [] []);
    (10, mk15 KTx None [] [116;117] (Some 7) [] []);
    (11, mk15 KEl (Some [112]) [101] [] (Some 7) [] []);
    (12, mk15 KEr None [101] [] (Some 7) [] []);
    (13, mk15 KCr None [35;54;53] [65] (Some 7) [] []) ].
Definition rt_ops : list op :=
  [ CreateComment (0, 1) (dinfo15 [99]);                                                   (* 21 *)
    InsertBefore (0, 1) (0, 21) (0, 20);
    CreateProcessingInstruction (0, 1) (mkName [113] None None (Some [113]) false)
      (mkData [122] false false false (Some (Some [122])) None);                          (* 22 *)
    AppendChild (0, 1) (0, 22);
    CreateElement (0, 1) (mkName [110] (Some (None, [110])) None None false);            (* 23 *)
    SetAttribute (0, 23) (mkName [107] None (Some (None, [107])) None false)
      (ainfo15 [VText [118]; VChar [35;120;52;49] (Some [65]); VEnt [101]]);                (* 24 = k, 25 26 27 *)
    AppendChild (0, 2) (0, 23);
    SplitText (0, 10) 1;                                                                  (* 28 *)
    CreateCDataSection (0, 1) (dinfo15 [60;38]);                                            (* 29 *)
    InsertBefore (0, 7) (0, 29) (0, 28);
    RemoveAttribute (0, 2) [97] ].

Definition rt_final : option store := final rt_items 21 decl10 rt_ops.
Definition dummy_store : store := store_of_list [] 0 [] 0.
Definition rt_store : store := Eval vm_compute in match rt_final with Some s => s | None => dummy_store end.

Lemma rt_final_store : doc_at (run (mkWorld [store_of_list rt_items 21 decl10 1]) rt_ops) 0 = Some rt_store.
Proof. vm_compute. reflexivity. Qed.

Example rt_roundtrip :
  TreeInv rt_store /\ Lex15 rt_store /\ UniqQ rt_store /\ Known15 rt_store = false
  /\ from_raw (show_doc rt_store) = OOk ([], doc_of_store rt_store).
Proof.
  assert (I : init_ok rt_items 21 decl10 = true) by (vm_compute; reflexivity).
  destruct (init_ok_sound _ _ _ I) as [I2 IL].
  assert (F1 : Forall op_facts_ok rt_ops) by (unfold rt_ops; facts_trivial).
  assert (F2 : Forall op_facts_ok15 rt_ops) by (unfold rt_ops; facts_trivial).
  destruct (inv15_reachable (mkWorld [store_of_list rt_items 21 decl10 1]) rt_ops 0 rt_store I2 IL F1 F2 rt_final_store) as [T [Ls U]].
  assert (K : Known15 rt_store = false) by (vm_compute; reflexivity).
  split; [exact T|]. split; [exact Ls|]. split; [exact U|]. split; [exact K|]. apply edited_roundtrip; assumption.
Qed.

(** what the printer writes for it:
    <?xml version='1.0'?><!--c--><!DOCTYPE r [<!ENTITY e 'v'>]><r xmlns:p='urn:p'><b p:x='2'>t<![CDATA[<&]]>u<p:e />&e;&#65;</b><n k='v&#x41;&e;' /></r><?q z?> *)
Example rt_printed : show_doc rt_store =
  [60;63;120;109;108;32;118;101;114;115;105;111;110;61;34;49;46;48;34;63;62;60;33;45;45;99;45;45;62;60;33;68;79;67;84;89;80;69;32;114;32;91;60;33;69;78;84;73;84;89;32;101;32;34;118;34;62;93;62;60;114;32;120;109;108;110;115;58;112;61;34;117;114;110;58;112;34;62;60;98;32;112;58;120;61;34;50;34;62;116;60;33;91;67;68;65;84;65;91;60;38;93;93;62;117;60;112;58;101;32;47;62;38;101;59;38;35;54;53;59;60;47;98;62;60;110;32;107;61;34;118;38;35;120;52;49;59;38;101;59;34;32;47;62;60;47;114;62;60;63;113;32;122;63;62].
Proof. vm_compute. reflexivity. Qed.
