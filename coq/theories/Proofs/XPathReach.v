(** * What a relative location path selects, as a set (C08: [//] against
    [/descendant-or-self::node()/]).

    The evaluator runs the steps of a path over LISTS of context nodes, de-duplicating by order
    key after every step ([step_dedup]); where the lists are cut (per start node, or all start
    nodes together) differs between [//x] and [/descendant-or-self::node()/x].  On a document
    satisfying [DocInv], with steps that restore the context and return good nodes, the outcome
    depends only on two predicates of single nodes, for a fixed context [c]:
    - [Def items x]: every step application reached from [x] ends with a value;
    - [Reach items x y]: [y] is selected from [x].
    [xstepops_char] / [path_char]: the list computed has exactly the reachable nodes (and exists
    exactly when everything reached is defined); [path_equiv]: two step lists with the same
    [Def] / [Reach] give the same value of the path (the final sort + de-duplication makes the
    list canonical); [NI_equiv]: replacing [//] by the explicit step does not change [Def] and
    [Reach]. *)
From Coq Require Import List NArith Bool Lia Sorting.Sorted Sorting.Permutation.
From XmlRs Require Import Base.CPred Base.NList Base.Float64.
From XmlRs Require Import Spec.XPathSyntax.
From XmlRs Require Import Spec.XPathCore Model.XPathFuncs.
From XmlRs Require Import Model.XPathAst Model.XDoc Model.XPathScalar Model.XPathEval Model.XPathAstAbs.
From XmlRs Require Import Proofs.XPathEvalEqs Proofs.XPathNav Proofs.XPathSort Proofs.XPathCtx Proofs.XPathAstPred
  Proofs.XPathInv Proofs.XPathCanon Proofs.XPathAbsEval Proofs.XPathAbsInv.
Import ListNotations.
Open Scope N_scope.

(** two computations with the same successful outcomes *)
Definition okeq {A} (m1 m2 : M A) : Prop := forall c a c', m1 c = (Ok a, c') <-> m2 c = (Ok a, c').

Lemma okeq_refl {A} (m : M A) : okeq m m.
Proof. intros c a c'. reflexivity. Qed.
Lemma okeq_sym {A} (m1 m2 : M A) : okeq m1 m2 -> okeq m2 m1.
Proof. intros H c a c'. symmetry. apply H. Qed.
Lemma okeq_trans {A} (m1 m2 m3 : M A) : okeq m1 m2 -> okeq m2 m3 -> okeq m1 m3.
Proof. intros H1 H2 c a c'. rewrite (H1 c a c'). apply H2. Qed.
Lemma meq_okeq {A} (m1 m2 : M A) : m1 ≡ m2 -> okeq m1 m2.
Proof. intros H c a c'. rewrite (H c). reflexivity. Qed.

Lemma bindM_ok_intro {A B} (m : M A) (f : A -> M B) c a c1 v c' :
  m c = (Ok a, c1) -> f a c1 = (Ok v, c') -> bindM m f c = (Ok v, c').
Proof. intros E1 E2. unfold bindM. rewrite E1. exact E2. Qed.

Lemma okeq_bind {A B} (m1 m2 : M A) (f1 f2 : A -> M B) :
  okeq m1 m2 -> (forall a, okeq (f1 a) (f2 a)) -> okeq (bindM m1 f1) (bindM m2 f2).
Proof.
  intros Hm Hf c v c'. split; intros H; apply bindM_ok_inv in H; destruct H as (a & c1 & E1 & E2).
  - eapply bindM_ok_intro; [apply Hm, E1|apply Hf, E2].
  - eapply bindM_ok_intro; [apply Hm, E1|apply Hf, E2].
Qed.

(** a version where the continuation only has to agree on the values [m1] can return *)
Lemma okeq_bind_on {A B} (P : A -> Prop) (m1 m2 : M A) (f1 f2 : A -> M B) :
  okeq m1 m2 -> (forall c a c', m1 c = (Ok a, c') -> P a) -> (forall a, P a -> okeq (f1 a) (f2 a)) ->
  okeq (bindM m1 f1) (bindM m2 f2).
Proof.
  intros Hm HP Hf c v c'. split; intros H; apply bindM_ok_inv in H; destruct H as (a & c1 & E1 & E2).
  - eapply bindM_ok_intro; [apply Hm, E1|]. apply (Hf a (HP _ _ _ E1)), E2.
  - apply Hm in E1. eapply bindM_ok_intro; [exact E1|]. apply (Hf a (HP _ _ _ E1)), E2.
Qed.

Tactic Notation "invb" hyp(H) "as" ident(a) ident(c1) ident(E) :=
  apply bindM_ok_inv in H; destruct H as (a & c1 & E & H).

Section Reach.
Variable doc : xdoc.
Hypothesis Hinv : DocInv doc.
Variable c : ctx.
Notation good := (good doc).
Notation uf := (union_finish doc).

(** ** the context nodes a separator gives to the next step, per start node *)
Definition dosl (x : node) : list node :=
  match descendant_and_self doc x with Ok l => l | _ => [] end.

Definition ex (s : sep) (x : node) : list node :=
  match s with SSlash => [x] | SDSlash => dosl x end.

Lemma dosl_ok x : good x -> descendant_and_self doc x = Ok (dosl x) /\ Forall good (dosl x).
Proof.
  intros Gx. destruct (good_axis doc Hinv (AxisName AxDescendantOrSelf) x eq_refl Gx) as [l [E G]].
  cbn [axis_nodes] in E. unfold dosl. rewrite E. split; [reflexivity|exact G].
Qed.

Lemma ex_good s x : good x -> Forall good (ex s x).
Proof. intros Gx. destruct s; cbn [ex]; [constructor; [exact Gx|constructor]|apply dosl_ok, Gx]. Qed.

Lemma expand_flat s l : Forall good l -> expand doc s l = Ok (flat_map (ex s) l).
Proof.
  intros H. destruct s; cbn [expand ex].
  - assert (E : flat_map (ex SSlash) l = l).
    { clear H. induction l as [|x t IH]; [reflexivity|]. cbn [flat_map app ex]. f_equal. exact IH. }
    rewrite E. reflexivity.
  - induction H as [|x t Gx _ IH]; cbn [flat_map_res flat_map]; [reflexivity|].
    destruct (dosl_ok x Gx) as [E _]. rewrite E, IH. reflexivity.
Qed.

Lemma flat_map_good {A} (f : A -> list node) l : (forall x, In x l -> Forall good (f x)) -> Forall good (flat_map f l).
Proof.
  intros H. apply Forall_forall. intros y Hy. apply in_flat_map in Hy. destruct Hy as [x [Hx Hy]].
  pose proof (H x Hx) as G. rewrite Forall_forall in G. apply G, Hy.
Qed.

(** ** running a step at one node *)
Definition runs (f : sem_step) (x : node) (l : list node) : Prop := f x c = (Ok l, c).

Lemma runs_det f x l1 l2 : runs f x l1 -> runs f x l2 -> l1 = l2.
Proof. unfold runs. intros H1 H2. rewrite H1 in H2. injection H2 as ->. reflexivity. Qed.

Lemma flat_map_m_char (f : sem_step) : (forall x, restores (f x)) -> forall l,
  (forall r c', flat_map_m f l c = (Ok r, c') ->
     c' = c /\ (forall x, In x l -> exists lx, runs f x lx) /\
     (forall y, In y r <-> exists x lx, In x l /\ runs f x lx /\ In y lx)) /\
  ((forall x, In x l -> exists lx, runs f x lx) -> exists r, flat_map_m f l c = (Ok r, c)).
Proof.
  intros Hr. induction l as [|x t [IH1 IH2]]; cbn [flat_map_m]; split.
  - intros r c' H. apply ret_ok_inv in H. destruct H as [-> ->]. split; [reflexivity|]. split; [intros x []|].
    intros y. split; [intros []|intros (x & lx & [] & _)].
  - intros _. exists []. reflexivity.
  - intros r c' H. invb H as a c0 E. assert (c0 = c) by (eapply Hr; [exact E|exact I]). subst c0.
    invb H as a0 c1 E0. apply ret_ok_inv in H. destruct H as [-> ->]. destruct (IH1 _ _ E0) as (-> & D & R).
    split; [reflexivity|]. split.
    + intros z [<-|Hz]; [exists a; exact E|apply D, Hz].
    + intros y. rewrite in_app_iff, R. split.
      * intros [Hy|(z & lz & Hz & Hrz & Hy)]; [exists x, a; split; [left; reflexivity|split; [exact E|exact Hy]]|exists z, lz; split; [right; exact Hz|split; assumption]].
      * intros (z & lz & [<-|Hz] & Hrz & Hy); [left; rewrite (runs_det f x a lz E Hrz); exact Hy|right; exists z, lz; split; [exact Hz|split; assumption]].
  - intros D. destruct (D x (or_introl eq_refl)) as [lx Hx]. destruct IH2 as [r Hr2]; [intros z Hz; apply D; right; exact Hz|].
    exists (lx ++ r). unfold bindM. unfold runs in Hx. rewrite Hx, Hr2. reflexivity.
Qed.

(** ** selection through a list of steps, node by node *)
Fixpoint Def (items : list (sep * sem_step)) (x : node) : Prop :=
  match items with
  | [] => True
  | (s, f) :: t => forall z, In z (ex s x) -> exists lz, runs f z lz /\ forall y, In y lz -> Def t y
  end.

Fixpoint Reach (items : list (sep * sem_step)) (x y : node) : Prop :=
  match items with
  | [] => x = y
  | (s, f) :: t => exists z lz w, In z (ex s x) /\ runs f z lz /\ In w lz /\ Reach t w y
  end.

Definition wfitems (items : list (sep * sem_step)) : Prop := items_restore items /\ items_good good items.

Lemma wfitems_cons s f t : wfitems ((s, f) :: t) ->
  (forall x, restores (f x)) /\ (forall x, good x -> okgl good (f x)) /\ wfitems t.
Proof.
  intros [H1 H2]. inversion H1; subst. inversion H2; subst. cbn [snd] in *. repeat split; assumption.
Qed.

Lemma runs_good f x l : (forall x, good x -> okgl good (f x)) -> good x -> runs f x l -> Forall good l.
Proof. intros Hg Gx H. eapply Hg; [exact Gx|exact H]. Qed.

Lemma dedup_in_good l x : Forall good l -> (In x (step_dedup doc l) <-> In x l).
Proof. intros G. apply step_dedup_in. apply (good_key_inj doc Hinv), G. Qed.

Lemma xstepops_char items : wfitems items -> forall l, Forall good l ->
  (forall r c', xstepops doc items l c = (Ok r, c') ->
     c' = c /\ (forall x, In x l -> Def items x) /\ (forall y, In y r <-> exists x, In x l /\ Reach items x y)) /\
  ((forall x, In x l -> Def items x) -> exists r, xstepops doc items l c = (Ok r, c)).
Proof.
  induction items as [|[s f] t IH]; intros Hwf l Gl; cbn [xstepops Def Reach].
  - split.
    + intros r c' H. apply ret_ok_inv in H. destruct H as [-> ->]. split; [reflexivity|]. split; [intros; exact I|].
      intros y. split; [intros Hy; exists y; auto|intros (x & Hx & ->); exact Hx].
    + intros _. exists l. reflexivity.
  - destruct (wfitems_cons _ _ _ Hwf) as (Hr & Hg & Hwt). specialize (IH Hwt).
    pose proof (expand_flat s l Gl) as Eex. set (from := flat_map (ex s) l) in *.
    assert (Gfrom : Forall good from).
    { apply flat_map_good. intros x Hx. apply ex_good. rewrite Forall_forall in Gl. apply Gl, Hx. }
    destruct (flat_map_m_char f Hr from) as [FM1 FM2].
    split.
    + intros r c' H. invb H as fr c1 E. apply lift_ok_inv in E. destruct E as [E ->]. rewrite Eex in E. injection E as <-.
      invb H as coll c2 Ec. destruct (FM1 _ _ Ec) as (-> & D & R).
      assert (Gcoll : Forall good coll) by (eapply (okgl_flat_map_m good f from Hg Gfrom); exact Ec).
      destruct (IH (step_dedup doc coll) (step_dedup_good doc good coll Gcoll)) as [IH1 _].
      destruct (IH1 _ _ H) as (-> & Dt & Rt). split; [reflexivity|]. split.
      * intros x Hx z Hz. assert (Hzf : In z from) by (apply in_flat_map; exists x; auto).
        destruct (D z Hzf) as [lz Hlz]. exists lz. split; [exact Hlz|]. intros y Hy. apply Dt.
        apply (proj2 (dedup_in_good coll y Gcoll)). apply (proj2 (R y)). exists z, lz. split; [exact Hzf|split; assumption].
      * intros y. rewrite Rt. split.
        -- intros (w & Hw & Hwy). apply (proj1 (dedup_in_good coll w Gcoll)) in Hw. apply (proj1 (R w)) in Hw. destruct Hw as (z & lz & Hz & Hlz & Hw).
           apply in_flat_map in Hz. destruct Hz as (x & Hx & Hz). exists x. split; [exact Hx|]. exists z, lz, w. auto.
        -- intros (x & Hx & z & lz & w & Hz & Hlz & Hw & Hwy). exists w. split; [|exact Hwy].
           apply (proj2 (dedup_in_good coll w Gcoll)). apply (proj2 (R w)). exists z, lz. split; [apply in_flat_map; exists x; auto|split; assumption].
    + intros D.
      assert (Dfrom : forall z, In z from -> exists lz, runs f z lz).
      { intros z Hz. apply in_flat_map in Hz. destruct Hz as (x & Hx & Hz). destruct (D x Hx z Hz) as [lz [Hlz _]]. eauto. }
      destruct (FM2 Dfrom) as [coll Hcoll]. destruct (FM1 _ _ Hcoll) as (_ & _ & R).
      assert (Gcoll : Forall good coll) by (eapply (okgl_flat_map_m good f from Hg Gfrom); exact Hcoll).
      destruct (IH (step_dedup doc coll) (step_dedup_good doc good coll Gcoll)) as [_ IH2].
      destruct IH2 as [r Hr2].
      { intros w Hw. apply (proj1 (dedup_in_good coll w Gcoll)) in Hw. apply (proj1 (R w)) in Hw. destruct Hw as (z & lz & Hz & Hlz & Hw).
        apply in_flat_map in Hz. destruct Hz as (x & Hx & Hz). destruct (D x Hx z Hz) as [lz' [Hlz' Dy]].
        rewrite (runs_det f z lz lz' Hlz Hlz') in Hw. apply Dy, Hw. }
      exists r. unfold bindM, lift. rewrite Eex. fold from. rewrite Hcoll. exact Hr2.
Qed.

(** ** a whole path: start nodes, first step, other steps, final sort and de-duplication *)
Lemma same_canon l1 l2 : Forall good l1 -> Forall good l2 -> (forall y, In y l1 <-> In y l2) ->
  uf (sort_by_key doc l1) = uf (sort_by_key doc l2).
Proof.
  intros G1 G2 H. apply union_finish_same_elements.
  - apply (good_key_inj doc Hinv). apply Forall_forall. intros x Hx. rewrite Forall_forall in G1. apply G1, (proj1 (sort_in doc x l1)), Hx.
  - apply (good_key_inj doc Hinv). apply Forall_forall. intros x Hx. rewrite Forall_forall in G2. apply G2, (proj1 (sort_in doc x l2)), Hx.
  - intros x. rewrite !sort_in. apply H.
Qed.

Definition run1 (F1 : sem_step) (rest : list (sep * sem_step)) : sem_step :=
  fun x => ns <- F1 x ;; xstepops doc rest ns.

Lemma path_char s0 F1 rest : wfitems ((s0, F1) :: rest) -> forall B, Forall good B ->
  (forall v c', path_sem doc (lift (expand doc s0 B)) F1 rest c = (Ok v, c') ->
     c' = c /\ (forall x, In x B -> Def ((s0, F1) :: rest) x) /\
     exists coll, Forall good coll /\ (forall y, In y coll <-> exists x, In x B /\ Reach ((s0, F1) :: rest) x y) /\
                  v = XNodes (uf (sort_by_key doc coll))) /\
  ((forall x, In x B -> Def ((s0, F1) :: rest) x) ->
     exists coll, path_sem doc (lift (expand doc s0 B)) F1 rest c = (Ok (XNodes (uf (sort_by_key doc coll))), c) /\
                  Forall good coll /\ (forall y, In y coll <-> exists x, In x B /\ Reach ((s0, F1) :: rest) x y)).
Proof.
  intros Hwf B GB. destruct (wfitems_cons _ _ _ Hwf) as (Hr & Hg & Hwt).
  pose proof (expand_flat s0 B GB) as Eex. set (from := flat_map (ex s0) B) in *.
  assert (Gfrom : Forall good from).
  { apply flat_map_good. intros x Hx. apply ex_good. rewrite Forall_forall in GB. apply GB, Hx. }
  assert (Rrun : forall x, restores (run1 F1 rest x)).
  { intros x. unfold run1. apply restores_bind; [apply Hr|intros ns; apply restores_xstepops, Hwt]. }
  assert (Grun : forall x, good x -> okgl good (run1 F1 rest x)).
  { intros x Gx c2 l c2' H2. unfold run1 in H2. invb H2 as ns c3 E. eapply (okgl_xstepops doc good not_ns_axis (good_axis doc Hinv) eq_refl rest (proj2 Hwt) ns); [|exact H2]. eapply Hg; [exact Gx|exact E]. }
  (* one start node *)
  assert (Run : forall z, good z ->
            (forall l, runs (run1 F1 rest) z l -> exists ns, runs F1 z ns /\ (forall y, In y ns -> Def rest y) /\
                                                  (forall y, In y l <-> exists w, In w ns /\ Reach rest w y)) /\
            (forall ns, runs F1 z ns -> (forall y, In y ns -> Def rest y) -> exists l, runs (run1 F1 rest) z l)).
  { intros z Gz. split.
    - intros l H. unfold runs, run1 in H. invb H as a c0 E. assert (c0 = c) by (eapply Hr; [exact E|exact I]). subst c0.
      pose proof (runs_good F1 z a Hg Gz E) as Ga. destruct (xstepops_char rest Hwt a Ga) as [X1 _].
      destruct (X1 _ _ H) as (_ & D & R). exists a. split; [exact E|split; assumption].
    - intros ns Hns D. pose proof (runs_good F1 z ns Hg Gz Hns) as Ga. destruct (xstepops_char rest Hwt ns Ga) as [_ X2].
      destruct (X2 D) as [l Hl]. exists l. unfold runs, run1, bindM. unfold runs in Hns. rewrite Hns. exact Hl. }
  destruct (flat_map_m_char (run1 F1 rest) Rrun from) as [FM1 FM2].
  assert (Gof : forall z, In z from -> good z) by (intros z Hz; rewrite Forall_forall in Gfrom; apply Gfrom, Hz).
  assert (Rchar : forall coll, (forall z, In z from -> exists lz, runs (run1 F1 rest) z lz) ->
            (forall y, In y coll <-> exists z lz, In z from /\ runs (run1 F1 rest) z lz /\ In y lz) ->
            forall y, In y coll <-> exists x, In x B /\ Reach ((s0, F1) :: rest) x y).
  { intros coll Drun R y. rewrite R. cbn [Reach]. split.
    - intros (z & lz & Hz & Hlz & Hy). destruct (Run z (Gof z Hz)) as [R1 _]. destruct (R1 lz Hlz) as (ns & Hns & _ & Rn).
      apply Rn in Hy. destruct Hy as (w & Hw & Hwy). apply in_flat_map in Hz. destruct Hz as (x & Hx & Hz).
      exists x. split; [exact Hx|]. exists z, ns, w. auto.
    - intros (x & Hx & z & ns & w & Hz & Hns & Hw & Hwy).
      assert (Hzf : In z from) by (apply in_flat_map; exists x; auto).
      destruct (Drun z Hzf) as [lz Hlz]. exists z, lz. split; [exact Hzf|]. split; [exact Hlz|].
      destruct (Run z (Gof z Hzf)) as [R1 _]. destruct (R1 lz Hlz) as (ns' & Hns' & _ & Rn).
      apply Rn. exists w. split; [|exact Hwy]. rewrite (runs_det F1 z ns' ns Hns' Hns). exact Hw. }
  split.
  - intros v c' H. unfold path_sem in H. invb H as fr c1 E. apply lift_ok_inv in E. destruct E as [E ->]. rewrite Eex in E. injection E as <-.
    invb H as a0 c0 Ec. apply ret_ok_inv in H. destruct H as [-> ->]. change (flat_map_m (run1 F1 rest) from c = (Ok a0, c0)) in Ec.
    destruct (FM1 _ _ Ec) as (-> & D & R). split; [reflexivity|]. split.
    + intros x Hx z Hz. assert (Hzf : In z from) by (apply in_flat_map; exists x; auto).
      destruct (D z Hzf) as [lz Hlz]. destruct (Run z (Gof z Hzf)) as [R1 _]. destruct (R1 lz Hlz) as (ns & Hns & Dn & _).
      exists ns. auto.
    + exists a0. split; [eapply (okgl_flat_map_m good (run1 F1 rest) from Grun Gfrom); exact Ec|]. split; [apply Rchar; assumption|reflexivity].
  - intros D.
    assert (Drun : forall z, In z from -> exists lz, runs (run1 F1 rest) z lz).
    { intros z Hz. pose proof Hz as Hzf. apply in_flat_map in Hz. destruct Hz as (x & Hx & Hz). destruct (D x Hx z Hz) as [ns [Hns Dn]].
      destruct (Run z (Gof z Hzf)) as [_ R2]. apply (R2 ns Hns Dn). }
    destruct (FM2 Drun) as [coll Hcoll]. destruct (FM1 _ _ Hcoll) as (_ & _ & R). exists coll. split.
    + unfold path_sem. eapply bindM_ok_intro; [unfold lift; rewrite Eex; reflexivity|].
      eapply bindM_ok_intro; [exact Hcoll|reflexivity].
    + split; [eapply (okgl_flat_map_m good (run1 F1 rest) from Grun Gfrom); exact Hcoll|apply Rchar; assumption].
Qed.

(** two step lists that select the same nodes give the same value *)
Definition same_sel (items items' : list (sep * sem_step)) : Prop :=
  forall x, good x -> (Def items x <-> Def items' x) /\ (forall y, Reach items x y <-> Reach items' x y).

Lemma path_equiv s0 F1 rest s0' F1' rest' B v c' :
  wfitems ((s0, F1) :: rest) -> wfitems ((s0', F1') :: rest') -> same_sel ((s0, F1) :: rest) ((s0', F1') :: rest') ->
  Forall good B ->
  path_sem doc (lift (expand doc s0 B)) F1 rest c = (Ok v, c') ->
  path_sem doc (lift (expand doc s0' B)) F1' rest' c = (Ok v, c').
Proof.
  intros W W' S GB H. destruct (path_char s0 F1 rest W B GB) as [P1 _]. destruct (path_char s0' F1' rest' W' B GB) as [_ P2'].
  destruct (P1 _ _ H) as (-> & D & coll & Gc & R & ->).
  rewrite Forall_forall in GB.
  destruct P2' as (coll' & Hp & Gc' & R').
  { intros x Hx. apply (S x (GB x Hx)), D, Hx. }
  rewrite Hp. f_equal. f_equal. f_equal. apply same_canon; [exact Gc'|exact Gc|].
  intros y. rewrite R, R'. split; intros (x & Hx & Hr); exists x; (split; [exact Hx|]); apply (S x (GB x Hx)); exact Hr.
Qed.

(** ** [//] is [/descendant-or-self::node()/] *)
Definition DOS : sem_step := step_sem doc (AxisName AxDescendantOrSelf) (TestType NtNode) [].

Lemma filter_res_all (p : node -> res bool) l : (forall i, p i = Ok true) -> filter_res p l = Ok l.
Proof. intros H. induction l as [|x t IH]; cbn [filter_res]; [reflexivity|]. rewrite H, IH. reflexivity. Qed.

Lemma DOS_runs z : good z -> runs DOS z (sort_by_key doc (dosl z)).
Proof.
  intros Gz. unfold runs, DOS, step_sem. cbn [axis_nodes]. rewrite (proj1 (dosl_ok z Gz)). cbn [bind].
  rewrite filter_res_all by (intros i; reflexivity). reflexivity.
Qed.

Definition step_okeq (F F' : sem_step) : Prop := forall x, good x -> forall l, runs F x l <-> runs F' x l.

Inductive NI : list (sep * sem_step) -> list (sep * sem_step) -> Prop :=
| NI_nil : NI [] []
| NI_s F F' t t' : step_okeq F F' -> NI t t' -> NI ((SSlash, F) :: t) ((SSlash, F') :: t')
| NI_d F F' t t' : step_okeq F F' -> NI t t' -> NI ((SDSlash, F) :: t) ((SSlash, DOS) :: (SSlash, F') :: t').

Lemma runs_okeq F F' z lz : step_okeq F F' -> good z -> (runs F z lz <-> runs F' z lz).
Proof. intros H Gz. apply (H z Gz lz). Qed.

Lemma NI_equiv items items' : NI items items' -> items_good good items -> same_sel items items'.
Proof.
  induction 1 as [|F F' t t' HF HN IH|F F' t t' HF HN IH]; intros Hg x Gx.
  - split; [reflexivity|intros y; reflexivity].
  - inversion Hg as [|i l HgF Hgt]; subst. cbn [snd] in HgF. specialize (IH Hgt).
    assert (Gy : forall z lz y, good z -> runs F z lz -> In y lz -> good y).
    { intros z lz y Gz Hlz Hy. pose proof (runs_good F z lz HgF Gz Hlz) as G. rewrite Forall_forall in G. apply G, Hy. }
    cbn [Def Reach ex]. split.
    + split; intros D z [E|[]]; subst z; destruct (D x (or_introl eq_refl)) as [lz [Hlz Dy]]; exists lz.
      * split; [apply (runs_okeq F F' x lz HF Gx), Hlz|]. intros y Hy. apply (IH y (Gy x lz y Gx Hlz Hy)), Dy, Hy.
      * apply (runs_okeq F F' x lz HF Gx) in Hlz. split; [exact Hlz|]. intros y Hy. apply (IH y (Gy x lz y Gx Hlz Hy)), Dy, Hy.
    + intros y. split; intros (z & lz & w & [E|[]] & Hlz & Hw & Hr); subst z; exists x, lz, w.
      * split; [left; reflexivity|]. split; [apply (runs_okeq F F' x lz HF Gx), Hlz|]. split; [exact Hw|].
        apply (IH w (Gy x lz w Gx Hlz Hw)), Hr.
      * apply (runs_okeq F F' x lz HF Gx) in Hlz. split; [left; reflexivity|]. split; [exact Hlz|]. split; [exact Hw|].
        apply (IH w (Gy x lz w Gx Hlz Hw)), Hr.
  - inversion Hg as [|i l HgF Hgt]; subst. cbn [snd] in HgF. specialize (IH Hgt).
    assert (Gy : forall z lz y, good z -> runs F z lz -> In y lz -> good y).
    { intros z lz y Gz Hlz Hy. pose proof (runs_good F z lz HgF Gz Hlz) as G. rewrite Forall_forall in G. apply G, Hy. }
    destruct (dosl_ok x Gx) as [_ Gd]. rewrite Forall_forall in Gd.
    pose proof (DOS_runs x Gx) as HD.
    cbn [Def Reach ex]. split.
    + split.
      * intros D z0 [E|[]]. subst z0. exists (sort_by_key doc (dosl x)). split; [exact HD|]. intros y0 Hy0 z [E|[]]. subst z.
        apply (proj1 (sort_in doc y0 (dosl x))) in Hy0. destruct (D y0 Hy0) as [lz [Hlz Dy]]. exists lz.
        split; [apply (runs_okeq F F' y0 lz HF (Gd y0 Hy0)), Hlz|]. intros y Hy. apply (IH y (Gy y0 lz y (Gd y0 Hy0) Hlz Hy)), Dy, Hy.
      * intros D z Hz. destruct (D x (or_introl eq_refl)) as [l0 [Hl0 D0]].
        rewrite (runs_det DOS x l0 _ Hl0 HD) in D0.
        destruct (D0 z (proj2 (sort_in doc z (dosl x)) Hz) z (or_introl eq_refl)) as [lz [Hlz Dy]].
        apply (runs_okeq F F' z lz HF (Gd z Hz)) in Hlz. exists lz. split; [exact Hlz|]. intros y Hy.
        apply (IH y (Gy z lz y (Gd z Hz) Hlz Hy)), Dy, Hy.
    + intros y. split.
      * intros (z & lz & w & Hz & Hlz & Hw & Hr). exists x, (sort_by_key doc (dosl x)), z. split; [left; reflexivity|]. split; [exact HD|].
        split; [apply sort_in, Hz|]. exists z, lz, w. split; [left; reflexivity|]. split; [apply (runs_okeq F F' z lz HF (Gd z Hz)), Hlz|].
        split; [exact Hw|]. apply (IH w (Gy z lz w (Gd z Hz) Hlz Hw)), Hr.
      * intros (z0 & l0 & z & [E|[]] & Hl0 & Hz & z' & lz & w & [E'|[]] & Hlz & Hw & Hr). subst z0 z'.
        rewrite (runs_det DOS x l0 _ Hl0 HD) in Hz. apply (proj1 (sort_in doc z (dosl x))) in Hz.
        apply (runs_okeq F F' z lz HF (Gd z Hz)) in Hlz. exists z, lz, w. split; [exact Hz|]. split; [exact Hlz|]. split; [exact Hw|].
        apply (IH w (Gy z lz w (Gd z Hz) Hlz Hw)), Hr.
Qed.

End Reach.
