#!/bin/sh
# builds _build/driver (model: gen/model.ml) and _build/specdriver (spec: gen/spec.ml).
# usage: build.sh [model|spec|all]
set -e
cd "$(dirname "$0")"
what="${1:-all}"
mkdir -p _build
one() { # $1 = extracted module (model|spec), $2 = driver source, $3 = output
  [ -f "gen/$1.ml" ] || { echo "gen/$1.ml missing"; return 1; }
  if [ -f "_build/$3" ] && [ "_build/$3" -nt "gen/$1.ml" ] && [ "_build/$3" -nt "$2" ] && [ "_build/$3" -nt proto.ml ]; then return 0; fi
  mod=$(echo "$1" | sed 's/^./\U&/')
  cp "gen/$1.ml" "gen/$1.mli" _build/
  { echo "open $mod"; cat proto.ml "$2"; } > "_build/$3_main.ml"
  (cd _build && ocamlfind ocamlopt -O3 -unboxed-types -w -a -package str "$1.mli" "$1.ml" "$3_main.ml" -o "$3" 2>/dev/null \
    || ocamlfind ocamlopt -w -a -package str "$1.mli" "$1.ml" "$3_main.ml" -o "$3")
}
case "$what" in
  model) one model driver.ml driver ;;
  spec) one spec specdriver.ml specdriver ;;
  all) one model driver.ml driver; one spec specdriver.ml specdriver ;;
esac
