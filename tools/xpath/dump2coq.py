#!/usr/bin/env python3
"""dump2coq.py NAME 'xml' [expr ...] : run the xpath harness on a document and print the XDoc table
(and the parsed expressions) as Coq definitions, for the Examples of Properties/C0x.v.
Uses the harness of $VERIF_HARNESS (default /verif/harness)."""
import os, subprocess, sys
sys.path.insert(0, os.path.join(os.path.dirname(os.path.abspath(__file__)), '..', '..'))
from checks import lib, xpath_common as X

KIND = {'El': 'KElement', 'At': 'KAttribute', 'Tx': 'KText', 'Cd': 'KCData', 'Er': 'KEntityReference', 'En': 'KEntity',
        'Pi': 'KPI', 'Co': 'KComment', 'Do': 'KDocument', 'Dt': 'KDocumentType', 'Df': 'KDocumentFragment',
        'No': 'KNotation', 'Ns': 'KNamespace', 'Xt': 'KExpandedText'}

def cstr(s):
    return '[' + ';'.join(str(ord(c)) for c in s) + ']'

def clist(l):
    return '[' + ';'.join(str(x) for x in l) + ']'

def copt(s):
    return 'None' if s == '~' else 'Some ' + cstr(X.dec(s))

def node(r):
    nm = r['name']
    if nm == '!': name = 'XNameNone'
    elif nm == 'E': name = 'XNameErr'
    else:
        l, p, u = nm.split('/')
        name = '(XName %s (%s) (%s))' % (cstr(X.dec(l)), copt(p), copt(u))
    d = r['data']
    data = 'DataErr' if d == 'E' else 'DataComputed' if d == '~' else '(DataStr %s)' % cstr(X.dec(d))
    par = 'None' if r['parent'] is None else '(Some %d)' % r['parent']
    nss = 'None' if r['nss'] is None else '(Some %s)' % clist(r['nss'])
    return 'mk_xnode %s %d %d %s %s %s %s %s %s' % (KIND[r['kind']], r['id'], r['key'], par, clist(r['children']), clist(r['attrs']), nss, name, data)

class P:
    def __init__(self, toks): self.t, self.i = toks, 0
    def next(self):
        x = self.t[self.i]; self.i += 1; return x
    def count(self): return int(self.next())
    def s(self): return cstr(X.dec(self.next()))
    def qname(self):
        k = self.next()
        if k == 'qp':
            p = self.s(); l = self.s(); return '(QPrefixed %s %s)' % (p, l)
        return '(QUnprefixed %s)' % self.s()
    def lst(self, k, nil, cons, item):
        if k == 0: return nil
        x = item(); return '(%s %s %s)' % (cons, x, self.lst(k - 1, nil, cons, item))
    def oplst(self, k, nil, cons, ops, item):
        if k == 0: return nil
        op = ops[self.next()]; x = item(); return '(%s %s %s %s)' % (cons, op, x, self.oplst(k - 1, nil, cons, ops, item))
    def r_or(self):
        assert self.next() == 'or'; k = self.count(); f = self.r_and()
        return '(EOr %s %s)' % (f, self.lst(k - 1, 'AndNil', 'AndCons', self.r_and))
    def r_and(self):
        assert self.next() == 'and'; k = self.count(); f = self.r_eq()
        return '(EAnd %s %s)' % (f, self.lst(k - 1, 'EqNil', 'EqCons', self.r_eq))
    def r_eq(self):
        assert self.next() == 'eq'; o = self.r_rel(); k = self.count()
        return '(EEq %s %s)' % (o, self.oplst(k, 'EqopNil', 'EqopCons', {'=': 'OpEqual', '!=': 'OpNotEqual'}, self.r_rel))
    def r_rel(self):
        assert self.next() == 'rel'; o = self.r_add(); k = self.count()
        return '(ERel %s %s)' % (o, self.oplst(k, 'RelopNil', 'RelopCons', {'<': 'OpLessThan', '>': 'OpGreaterThan', '<=': 'OpLessEqual', '>=': 'OpGreaterEqual'}, self.r_add))
    def r_add(self):
        assert self.next() == 'add'; o = self.r_mul(); k = self.count()
        return '(EAdd %s %s)' % (o, self.oplst(k, 'AddopNil', 'AddopCons', {'+': 'OpAdd', '-': 'OpSub'}, self.r_mul))
    def r_mul(self):
        assert self.next() == 'mul'; o = self.r_un(); k = self.count()
        return '(EMul %s %s)' % (o, self.oplst(k, 'MulopNil', 'MulopCons', {'*': 'OpMul', 'div': 'OpDiv', 'mod': 'OpMod'}, self.r_un))
    def r_un(self):
        assert self.next() == 'un'; inv = self.count(); return '(EUnary %d %s)' % (inv, self.r_union())
    def r_union(self):
        assert self.next() == 'union'; k = self.count()
        return '(EUnion %s)' % self.lst(k, 'PathNil', 'PathCons', self.r_path)
    def lpop(self): return {'/': 'LpCurrent', '//': 'LpDescendantOrSelfNode'}[self.next()]
    def r_path(self):
        k = self.next()
        if k == 'root': return 'PRoot'
        if k == 'pfilter': return '(PFilter %s)' % self.r_filter()
        if k == 'prel': return '(PRel %s)' % self.r_relpath()
        if k == 'pabs':
            op = self.lpop(); return '(PAbs %s %s)' % (op, self.r_relpath())
        f = self.r_filter(); op = self.lpop(); return '(PFilterPath %s %s %s)' % (f, op, self.r_relpath())
    def r_filter(self):
        assert self.next() == 'filter'; p = self.r_primary(); k = self.count()
        return '(EFilter %s %s)' % (p, self.lst(k, 'ExprNil', 'ExprCons', self.r_or))
    def r_primary(self):
        k = self.next()
        if k == 'var': return '(PrimVariable %s)' % self.qname()
        if k == 'paren': return '(PrimExpr %s)' % self.r_or()
        if k == 'lit': return '(PrimLiteral %s)' % self.s()
        if k == 'num': return '(PrimNumber %s)' % self.s()
        q = self.qname(); n = self.count(); return '(PrimFunction %s %s)' % (q, self.lst(n, 'ExprNil', 'ExprCons', self.r_or))
    def r_relpath(self):
        assert self.next() == 'relpath'; s = self.r_step(); k = self.count()
        def item():
            return None
        out = 'StepopNil'
        items = []
        for _ in range(k):
            op = self.lpop(); st = self.r_step(); items.append((op, st))
        for op, st in reversed(items):
            out = '(StepopCons %s %s %s)' % (op, st, out)
        return '(ERelPath %s %s)' % (s, out)
    def r_step(self):
        k = self.next()
        if k == 'dot': return 'StepCurrent'
        if k == 'dotdot': return 'StepParent'
        a = self.next()
        if a == 'abbr': axis = '(AxisAbbreviated %s)' % self.s()
        else:
            n = self.next()
            axis = '(AxisName %s)' % {'ancestor': 'AxAncestor', 'ancestor-or-self': 'AxAncestorOrSelf', 'attribute': 'AxAttribute',
                'child': 'AxChild', 'descendant': 'AxDescendant', 'descendant-or-self': 'AxDescendantOrSelf', 'following': 'AxFollowing',
                'following-sibling': 'AxFollowingSibling', 'namespace': 'AxNamespace', 'parent': 'AxParent', 'preceding': 'AxPreceding',
                'preceding-sibling': 'AxPrecedingSibling', 'self': 'AxCurrent'}[n]
        t = self.next()
        if t == 't*': test = '(TestName NameAll)'
        elif t == 'tns': test = '(TestName (NameNamespace %s))' % self.s()
        elif t == 'tq': test = '(TestName (NameQName %s))' % self.qname()
        elif t == 'tt': test = '(TestType %s)' % {'comment': 'NtComment', 'text': 'NtText', 'pi': 'NtPI', 'node': 'NtNode'}[self.next()]
        else: test = '(TestPI %s)' % self.s()
        n = self.count()
        return '(StepTest %s %s %s)' % (axis, test, self.lst(n, 'ExprNil', 'ExprCons', self.r_or))

def main():
    name, xml, exprs = sys.argv[1], sys.argv[2], sys.argv[3:]
    case = {'doc': xml, 'exprs': exprs, 'merged': True, 'binds': []}
    dump_only = bool(os.environ.get('DUMP_ONLY'))
    out = X.run_impl([case], dump_only=dump_only)[0]
    if dump_only:
        out['R'] = [('(not evaluated)', 0, 0)] * len(out['A'])
    rows = X.table_of(out)
    print('(* %s *)' % xml.replace('*)', '* )'))
    print('Definition %s : xdoc :=\n  [ %s ].' % (name, ';\n    '.join(node(r) for r in rows)))
    for k, (e, a, r) in enumerate(zip(exprs, out['A'], out['R'])):
        print('(* %s  =>  %s *)' % (e.replace('*)', '* )'), r[0]))
        print('Definition %s_e%d : expr :=\n  %s.' % (name, k, P(a.split(' ')[1:]).r_or()))

main()
