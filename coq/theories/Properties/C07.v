(** C07 -- node-sets are duplicate-free, document-ordered and obey set algebra.
    This file only names the theorems; proofs live in Proofs/XPathSort.v, XPathCanon.v, XPathUnion.v.

    [DocInv doc] (Proofs/XPathCanon.v): the table is a tree ([DocWf]) and on the nodes that are not
    namespace nodes the order keys are non-zero and strictly increasing along the table -- which the
    harness builds by a pre-order walk, so the index of a node is its rank in document order
    ([doc_lt]).  Decidable: [doc_inv_b] (Model/XDocCheck.v, sound by [doc_inv_b_sound]); the model
    driver evaluates it on every generated document.

    Known findings, as decidable predicates on the case:
    - [Known07_ns e]: the expression uses the namespace axis.  Namespace nodes carry key 0 (the
      implicit xml binding) or the key of the declaration they were inherited from, so distinct
      nodes collapse and sort first (D19).
    - [doc_inv_b doc = false]: the document has default attributes from the DTD (key 0, D19).
      (Processing instructions had key 0 too, D18: repaired in dom, and [DocInv] now holds for
      documents with PIs, see [C07_example_pi].) *)
From Coq Require Import List NArith Bool Sorting.Sorted.
From XmlRs Require Import Base.CPred Model.XPathAst Model.XDoc Model.XDocCheck Model.XPathEval.
From XmlRs Require Import Proofs.XPathNav Proofs.XPathSort Proofs.XPathAstPred Proofs.XPathCanon
  Proofs.XPathUnion Proofs.XPathDocCheck Proofs.XPathExamples Proofs.XPathWitness.
Import ListNotations.

Definition Known07_ns (e : expr) : bool := negb (no_ns_axis e).

(** Every node-set value of every expression on every table is strictly sorted by order key: no
    two nodes of a result have the same key (no hypothesis at all). *)
Theorem C07_nodeset_key_sorted :
  forall (doc : xdoc) (c : ctx) (e : expr) (n : node) (l : list node) (c' : ctx),
    eval_expr doc e n c = (Ok (XNodes l), c') -> StronglySorted (key_lt doc) l.
Proof. intros doc c e n l c'. exact (value_key_sorted doc e n c l c'). Qed.

(** Full statement (for ALL expressions):
      forall doc c e l c', DocInv doc -> query doc e c = (Ok (XNodes l), c') -> StronglySorted (doc_lt doc) l
    refuted by the namespace axis (D19): *)
Theorem C07_nodeset_canonical_refuted :
  exists (doc : xdoc) (e : expr) (l : list node),
    DocInv doc /\ fst (query doc e ctx_default) = Ok (XNodes l) /\ ~ StronglySorted (doc_lt doc) l /\
    Known07_ns e = true.
Proof.
  exists ns_doc, ns_doc_e0, [3; 2]%N. destruct ns_axis_not_canonical as [H1 [H2 H3]].
  split; [exact ns_doc_inv|]. split; [exact H1|]. split; [exact H2|]. unfold Known07_ns. rewrite H3. reflexivity.
Qed.

(** and, without [DocInv], by DTD-default attributes (D19):
    /r/@* on <!DOCTYPE r [<!ATTLIST r d CDATA "dv">]><r a="1"><b/></r> *)
Theorem C07_nodeset_canonical_refuted_default_attribute :
  exists (doc : xdoc) (e : expr) (l : list node),
    doc_inv_b doc = false /\ Known07_ns e = false /\
    fst (query doc e ctx_default) = Ok (XNodes l) /\ ~ StronglySorted (doc_lt doc) l.
Proof.
  exists dtd_doc, dtd_doc_e0, [5; 4]%N. destruct default_attribute_not_canonical as [H1 [H2 H3]].
  split; [vm_compute; reflexivity|]. split; [unfold Known07_ns; rewrite H3; reflexivity|]. split; assumption.
Qed.

(** The conditional theorem: every node-set produced by any expression without the namespace axis,
    whatever axes, unions, filters and predicates it is made of, lists nodes in document order,
    each at most once. *)
Theorem C07_nodeset_canonical :
  forall (doc : xdoc) (c : ctx) (e : expr) (n : node) (l : list node) (c' : ctx),
    DocInv doc -> Known07_ns e = false -> good doc n ->
    eval_expr doc e n c = (Ok (XNodes l), c') -> StronglySorted (doc_lt doc) l /\ NoDup l.
Proof.
  intros doc c e n l c' Hinv Hk Gn H. unfold Known07_ns in Hk. apply negb_false_iff in Hk.
  assert (Hs : StronglySorted (doc_lt doc) l) by (eapply nodeset_canonical_lemma; eauto).
  split; [exact Hs|]. eapply doc_lt_sorted_nodup; exact Hs.
Qed.

(** ... and consists of nodes of the document that are not namespace nodes *)
Theorem C07_result_nodes_in_document :
  forall (doc : xdoc) (c : ctx) (e : expr) (n : node) (l : list node) (c' : ctx),
    DocInv doc -> Known07_ns e = false -> good doc n ->
    eval_expr doc e n c = (Ok (XNodes l), c') -> Forall (good doc) l.
Proof.
  intros doc c e n l c' Hinv Hk Gn H. unfold Known07_ns in Hk. apply negb_false_iff in Hk.
  eapply result_nodes_good; eauto.
Qed.

(** Union.  [union2 A B] is [A | B], [union1 A] is [A] alone, [paren u] is [(u)] used as operand. *)
Theorem C07_union_idem :
  forall (doc : xdoc) (A : path_expr) (n : node) (c : ctx) (l : list node),
    fst (eval_path_expr doc A n c) = Ok (XNodes l) ->
    eval_union_expr doc (union2 A A) n c = eval_union_expr doc (union1 A) n c.
Proof. exact union_idem_lemma. Qed.

Theorem C07_union_count :
  forall (doc : xdoc) (A B : path_expr) (n : node) (c : ctx) (la lb : list node),
    fst (eval_path_expr doc A n c) = Ok (XNodes la) -> fst (eval_path_expr doc B n c) = Ok (XNodes lb) ->
    exists l, fst (eval_union_expr doc (union2 A B) n c) = Ok (XNodes l) /\
              (length l <= length la + length lb)%nat.
Proof. exact union_count_lemma. Qed.

Theorem C07_union_comm :
  forall (doc : xdoc), DocInv doc ->
  forall (A B : path_expr) (n : node) (c : ctx) (va vb : xvalue),
    path_no_ns A = true -> path_no_ns B = true -> good doc n ->
    fst (eval_path_expr doc A n c) = Ok va -> fst (eval_path_expr doc B n c) = Ok vb ->
    eval_union_expr doc (union2 A B) n c = eval_union_expr doc (union2 B A) n c.
Proof. exact union_comm_lemma. Qed.

Theorem C07_union_assoc :
  forall (doc : xdoc), DocInv doc ->
  forall (A B C : path_expr) (n : node) (c : ctx) (la lb lc : list node),
    path_no_ns A = true -> path_no_ns B = true -> path_no_ns C = true -> good doc n ->
    fst (eval_path_expr doc A n c) = Ok (XNodes la) -> fst (eval_path_expr doc B n c) = Ok (XNodes lb) ->
    fst (eval_path_expr doc C n c) = Ok (XNodes lc) ->
    eval_union_expr doc (union2 (paren (union2 A B)) C) n c =
    eval_union_expr doc (union2 A (paren (union2 B C))) n c.
Proof. exact union_assoc_lemma. Qed.

(** commutativity fails with the namespace axis: /r/namespace::* | /r/b/namespace::* and the swap *)
Theorem C07_union_comm_refuted :
  exists (doc : xdoc) (e1 e2 : expr),
    DocInv doc /\ fst (query doc e1 ctx_default) <> fst (query doc e2 ctx_default) /\ Known07_ns e1 = true.
Proof.
  exists ns_doc, ns_doc_e1, ns_doc_e2. destruct ns_axis_union_not_commutative as [H1 H2].
  split; [exact ns_doc_inv|]. split; [rewrite H1, H2; discriminate|vm_compute; reflexivity].
Qed.

(** Positional filter on a parenthesised node-set: [(E)[p]] keeps node number [k] (1-based) of the
    result of [E] -- which is in document order by [C07_nodeset_canonical] -- exactly when [p] holds
    for it at position [k] of [len l]. *)
Theorem C07_filter_position_doc_order :
  forall (doc : xdoc) (E p : expr) (n : node) (c : ctx) (l : list node),
    eval_expr doc E n c = (Ok (XNodes l), c) ->
    fst (eval_filter_expr doc (EFilter (PrimExpr E) (ExprCons p ExprNil)) n c) =
    bind (positional (predicate_at doc p c (NList.len l)) l 1) (fun r => Ok (XNodes r)).
Proof. exact filter_position_lemma. Qed.

(** the hypotheses are satisfiable by non-trivial values *)
Example C07_example_doc : DocInv ex_doc /\ good ex_doc doc_root.
Proof. split; [exact ex_doc_inv|exact ex_good_root]. Qed.
Example C07_example_following :
  Known07_ns ex_doc_e0 = false /\ fst (query ex_doc ex_doc_e0 ctx_default) = Ok (XNodes [9; 11; 13]%N).
Proof. destruct ex_following as [_ [H1 H2]]. unfold Known07_ns. rewrite H1. split; [reflexivity|exact H2]. Qed.
Example C07_example_pi :
  DocInv pi_doc /\ fst (query pi_doc pi_doc_e0 ctx_default) = Ok (XNodes [3; 5; 6]%N).
Proof. split; [exact pi_doc_inv|exact (proj1 pi_examples)]. Qed.
Example C07_example_filter : fst (query ex_doc ex_doc_e1 ctx_default) = Ok (XNodes [4]%N).
Proof. exact ex_filter_second. Qed.
Example C07_example_union :
  fst (query ex_doc ex_doc_e2 ctx_default) = Ok (XNodes [4; 9]%N) /\
  fst (query ex_doc ex_doc_e3 ctx_default) = Ok (XNodes [4; 9]%N).
Proof. exact ex_union_both_orders. Qed.

Print Assumptions C07_nodeset_key_sorted.
Print Assumptions C07_nodeset_canonical.
Print Assumptions C07_result_nodes_in_document.
Print Assumptions C07_union_idem.
Print Assumptions C07_union_count.
Print Assumptions C07_union_comm.
Print Assumptions C07_union_assoc.
Print Assumptions C07_filter_position_doc_order.
