(** * Closure of the IEEE doubles ([valid_binary prec emax]) under the float operations
      used by the XPath models and specifications.

    Every result of [+ - * div rem neg], of the integer casts, of the roundings to an
    integral value, of the decimal -> binary conversion and of [sum] is again an IEEE double.

    Exact integer arithmetic only: no real numbers, no Flocq, nothing assumed.  The key fact is
    [round_aux_valid]: the standard library's rounding function [binary_round_aux] returns a
    canonical mantissa whenever its input exponent is not above the canonical one
    ([ex <= fexp (digits mx + ex)]), which [binary_round] establishes by aligning, and which
    holds for the product, the quotient and the decimal quotient by counting digits. *)
From Coq Require Import ZArith NArith Lia Bool List.
From Coq Require Import Floats.SpecFloat.
From XmlRs Require Import Base.CPred Base.Float64 Spec.XPathCore Model.XPathFuncs
  Proofs.XPathFuncsRound.
Open Scope Z_scope.

Notation fvalid x := (valid_binary prec emax x = true).
Notation fx := (fexp prec emax).

Lemma fexp_eq e : fx e = Z.max (e - 53) (-1074).
Proof. reflexivity. Qed.

(** ** powers of two and the number of digits *)
Lemma pow2_pos k : 0 <= k -> 0 < 2 ^ k.
Proof. intros Hk. apply Z.pow_pos_nonneg; lia. Qed.

Lemma pow2_lt_inv a b : 0 <= b -> 2 ^ a < 2 ^ b -> a < b.
Proof. intros Hb H. apply (Z.pow_lt_mono_r_iff 2); [lia|exact Hb|exact H]. Qed.

Lemma Zdigits2_nonneg m : 0 <= Zdigits2 m.
Proof. destruct m as [|p|p]; cbn [Zdigits2]; lia. Qed.

Lemma Zdigits2_bounds m : 0 < m -> 2 ^ (Zdigits2 m - 1) <= m < 2 ^ Zdigits2 m.
Proof. destruct m as [|p|p]; intros Hm; try lia. cbn [Zdigits2]. apply digits_bounds. Qed.

Lemma Zdigits2_ge m k : 0 <= k -> 2 ^ k <= m -> k + 1 <= Zdigits2 m.
Proof.
  intros Hk H. assert (Hm : 0 < m) by (pose proof (pow2_pos k Hk); lia).
  pose proof (Zdigits2_bounds m Hm) as [_ B2]. pose proof (Zdigits2_nonneg m) as Hd.
  assert (k < Zdigits2 m) by (apply pow2_lt_inv; lia). lia.
Qed.

Lemma Zdigits2_le m k : 0 <= k -> 0 <= m < 2 ^ k -> Zdigits2 m <= k.
Proof.
  intros Hk [H0 H]. destruct (Z.eq_dec m 0) as [->|Hz]; [exact Hk|].
  pose proof (Zdigits2_bounds m ltac:(lia)) as [B1 _].
  assert (Zdigits2 m - 1 < k) by (apply pow2_lt_inv; lia). lia.
Qed.

Lemma Zdigits2_unique m k : 0 <= k -> 2 ^ k <= m < 2 ^ (k + 1) -> Zdigits2 m = k + 1.
Proof.
  intros Hk [H1 H2]. pose proof (pow2_pos k Hk) as HP.
  pose proof (Zdigits2_ge m k Hk H1). pose proof (Zdigits2_le m (k + 1) ltac:(lia) ltac:(lia)). lia.
Qed.

Lemma Zdigits2_mono a b : 0 <= a <= b -> Zdigits2 a <= Zdigits2 b.
Proof.
  intros [Ha Hab]. destruct (Z.eq_dec a 0) as [->|Hz]; [apply Zdigits2_nonneg|].
  pose proof (Zdigits2_bounds a ltac:(lia)) as [A1 _].
  pose proof (Zdigits2_bounds b ltac:(lia)) as [_ B2]. pose proof (Zdigits2_nonneg b) as Hb.
  assert (Zdigits2 a - 1 < Zdigits2 b) by (apply pow2_lt_inv; lia). lia.
Qed.

(** dropping [n] low bits drops [n] digits *)
Lemma Zdigits2_shr m n : 0 <= m -> 0 <= n -> 0 < m / 2 ^ n ->
  Zdigits2 (m / 2 ^ n) = Zdigits2 m - n.
Proof.
  intros Hm Hn Hq. pose proof (pow2_pos n Hn) as HP.
  assert (Hm' : 2 ^ n <= m).
  { destruct (Z.lt_ge_cases m (2 ^ n)) as [H|H]; [|exact H]. rewrite Z.div_small in Hq by lia. lia. }
  pose proof (Zdigits2_bounds m ltac:(lia)) as [B1 B2]. pose proof (Zdigits2_nonneg m) as Hd0.
  remember (Zdigits2 m) as d eqn:Ed.
  assert (Hd : n < d) by (apply pow2_lt_inv; lia).
  replace (d - n) with ((d - n - 1) + 1) by lia. apply Zdigits2_unique; [lia|]. split.
  - apply Z.div_le_lower_bound; [lia|]. rewrite <- Z.pow_add_r by lia.
    replace (n + (d - n - 1)) with (d - 1) by lia. exact B1.
  - apply Z.div_lt_upper_bound; [lia|]. rewrite <- Z.pow_add_r by lia.
    replace (n + (d - n - 1 + 1)) with d by lia. exact B2.
Qed.

(** ** the shift of [binary_round_aux] *)
Lemma shr_1_m mrs : 0 <= shr_m mrs -> shr_m (shr_1 mrs) = shr_m mrs / 2.
Proof.
  destruct mrs as [m r s]. cbn [shr_m]. intros Hm.
  destruct m as [|[p|p|]|p]; cbn [shr_1 shr_m]; try reflexivity; try lia.
  - apply Z.div_unique with (r := 1); lia.
  - apply Z.div_unique with (r := 0); lia.
Qed.

Lemma iter_shr_m p : forall mrs, 0 <= shr_m mrs ->
  shr_m (iter_pos shr_1 p mrs) = shr_m mrs / 2 ^ Zpos p.
Proof.
  induction p as [p IH|p IH|]; intros mrs Hm; cbn [iter_pos].
  - pose proof (pow2_pos (Zpos p) ltac:(lia)) as HP.
    assert (E1 : shr_m (shr_1 mrs) = shr_m mrs / 2) by (apply shr_1_m; exact Hm).
    assert (N1 : 0 <= shr_m (shr_1 mrs)) by (rewrite E1; apply Z.div_pos; lia).
    assert (E2 := IH _ N1).
    assert (N2 : 0 <= shr_m (iter_pos shr_1 p (shr_1 mrs))) by (rewrite E2; apply Z.div_pos; lia).
    rewrite (IH _ N2), E2, E1. rewrite !Z.div_div by lia. f_equal.
    replace (Zpos p~1) with (1 + Zpos p + Zpos p) by lia.
    rewrite !Z.pow_add_r by lia. change (2 ^ 1) with 2. ring.
  - pose proof (pow2_pos (Zpos p) ltac:(lia)) as HP.
    assert (E2 := IH _ Hm).
    assert (N2 : 0 <= shr_m (iter_pos shr_1 p mrs)) by (rewrite E2; apply Z.div_pos; lia).
    rewrite (IH _ N2), E2. rewrite !Z.div_div by lia. f_equal.
    replace (Zpos p~0) with (Zpos p + Zpos p) by lia.
    rewrite !Z.pow_add_r by lia. ring.
  - rewrite shr_1_m by exact Hm. reflexivity.
Qed.

Lemma shr_fexp_spec m e l : 0 <= m -> e <= fx (Zdigits2 m + e) ->
  exists mrs, shr_fexp prec emax m e l = (mrs, fx (Zdigits2 m + e))
              /\ shr_m mrs = m / 2 ^ (fx (Zdigits2 m + e) - e).
Proof.
  intros Hm He. unfold shr_fexp. remember (fx (Zdigits2 m + e)) as e2 eqn:Ee2.
  assert (Hrec : shr_m (shr_record_of_loc m l) = m) by (destruct l as [|[| |]]; reflexivity).
  destruct (e2 - e) as [|n|n] eqn:En; try lia.
  - exists (shr_record_of_loc m l). cbn [shr]. split; [f_equal; lia|].
    rewrite Hrec. change (2 ^ 0) with 1. now rewrite Z.div_1_r.
  - exists (iter_pos shr_1 n (shr_record_of_loc m l)). cbn [shr]. split; [f_equal; lia|].
    rewrite iter_shr_m by (rewrite Hrec; exact Hm). now rewrite Hrec.
Qed.

(** a positive mantissa that comes out of the shift sits at its canonical exponent *)
Lemma shr_fexp_canonical M e l mrs e2 p : 0 <= M -> e <= fx (Zdigits2 M + e) ->
  shr_fexp prec emax M e l = (mrs, e2) -> shr_m mrs = Zpos p ->
  fx (Zpos (digits2_pos p) + e2) = e2.
Proof.
  intros HM He Hs Hp. destruct (shr_fexp_spec M e l HM He) as (mrs' & E & Em).
  rewrite E in Hs. injection Hs as Hs1 Hs2. subst mrs' e2. rewrite Hp in Em.
  remember (fx (Zdigits2 M + e)) as e2 eqn:Ee2.
  assert (Hd : Zdigits2 (M / 2 ^ (e2 - e)) = Zdigits2 M - (e2 - e)).
  { apply Zdigits2_shr; [exact HM|lia|rewrite <- Em; lia]. }
  rewrite <- Em in Hd. cbn [Zdigits2] in Hd. rewrite Hd.
  replace (Zdigits2 M - (e2 - e) + e2) with (Zdigits2 M + e) by lia. symmetry. exact Ee2.
Qed.

(** ** the key lemma *)
Lemma round_aux_valid sx mx ex lx : 0 <= mx -> ex <= fx (Zdigits2 mx + ex) ->
  fvalid (binary_round_aux prec emax sx mx ex lx).
Proof.
  intros Hm He. unfold binary_round_aux.
  destruct (shr_fexp_spec mx ex lx Hm He) as (mrs1 & E1 & Em1). rewrite E1. cbv beta iota.
  remember (fx (Zdigits2 mx + ex)) as e1 eqn:Ee1.
  remember (shr_m mrs1) as m1 eqn:Em1'.
  remember (round_nearest_even m1 (loc_of_shr_record mrs1)) as M eqn:EM.
  pose proof (pow2_pos (e1 - ex) ltac:(lia)) as HP.
  assert (Hm1 : 0 <= m1) by (rewrite Em1; apply Z.div_pos; lia).
  assert (HM : m1 <= M <= m1 + 1).
  { rewrite EM. unfold round_nearest_even.
    destruct (loc_of_shr_record mrs1) as [|[| |]]; try lia. destruct (Z.even m1); lia. }
  assert (He1 : e1 <= fx (Zdigits2 M + e1)).
  { pose proof (fexp_eq (Zdigits2 mx + ex)) as F1. rewrite <- Ee1 in F1.
    pose proof (fexp_eq (Zdigits2 M + e1)) as F2.
    destruct (Z.eq_dec m1 0) as [Hz|Hz].
    - assert (Hlt : mx < 2 ^ (e1 - ex)).
      { destruct (Z.lt_ge_cases mx (2 ^ (e1 - ex))) as [H|H]; [exact H|exfalso].
        assert (1 <= mx / 2 ^ (e1 - ex)) by (apply Z.div_le_lower_bound; lia). lia. }
      pose proof (Zdigits2_le mx (e1 - ex) ltac:(lia) ltac:(lia)) as Hd. lia.
    - assert (Hd : Zdigits2 m1 = Zdigits2 mx - (e1 - ex)).
      { rewrite Em1. apply Zdigits2_shr; [exact Hm|lia|rewrite <- Em1; lia]. }
      pose proof (Zdigits2_mono m1 M ltac:(lia)) as Hmono. lia. }
  destruct (shr_fexp prec emax M e1 loc_Exact) as [mrs2 e2] eqn:E2.
  destruct (shr_m mrs2) as [|p|p] eqn:Ep; try reflexivity.
  destruct (Zle_bool e2 (emax - prec)) eqn:Hle; [|reflexivity].
  cbn [valid_binary]. unfold bounded, canonical_mantissa. rewrite Hle, andb_true_r.
  apply Zeq_is_eq_bool.
  apply (shr_fexp_canonical M e1 loc_Exact mrs2 e2 p); [lia|exact He1|exact E2|exact Ep].
Qed.

Lemma binary_round_valid s m e : fvalid (binary_round prec emax s m e).
Proof.
  unfold binary_round, shl_align. remember (fx (Zpos (digits2_pos m) + e)) as fe eqn:Hfe.
  destruct (fe - e) as [|d|d] eqn:Hd; cbv beta iota; apply round_aux_valid; try lia;
    cbn [Zdigits2].
  - rewrite <- Hfe. lia.
  - rewrite <- Hfe. lia.
  - rewrite digits_shift, Pos2Z.inj_add.
    replace (Zpos (digits2_pos m) + Zpos d + fe) with (Zpos (digits2_pos m) + e) by lia.
    rewrite <- Hfe. lia.
Qed.

Lemma valid_binary_normalize m e s : fvalid (binary_normalize prec emax m e s).
Proof. destruct m as [|p|p]; cbn [binary_normalize]; [reflexivity|apply binary_round_valid..]. Qed.

(** ** constants *)
Lemma valid_f64_one : fvalid f64_one.
Proof. reflexivity. Qed.

Lemma valid_f64_zero : fvalid f64_zero.
Proof. reflexivity. Qed.

Lemma valid_f64_nan : fvalid f64_nan.
Proof. reflexivity. Qed.

(** ** the four operations *)
Lemma valid_f64_add x y : fvalid x -> fvalid y -> fvalid (f64_add x y).
Proof.
  intros Hx Hy. unfold f64_add.
  destruct x as [sx|sx| |sx mx ex], y as [sy|sy| |sy my ey]; cbn [SFadd];
    try reflexivity; try exact Hx; try exact Hy;
    try (destruct (Bool.eqb sx sy); reflexivity).
  apply valid_binary_normalize.
Qed.

Lemma valid_f64_sub x y : fvalid x -> fvalid y -> fvalid (f64_sub x y).
Proof.
  intros Hx Hy. unfold f64_sub.
  destruct x as [sx|sx| |sx mx ex], y as [sy|sy| |sy my ey]; cbn [SFsub];
    try reflexivity; try exact Hx; try exact Hy;
    try (destruct (Bool.eqb sx (negb sy)); reflexivity).
  apply valid_binary_normalize.
Qed.

Lemma bounded_facts m e : bounded prec emax m e = true ->
  fx (Zpos (digits2_pos m) + e) = e /\ e <= emax - prec.
Proof.
  unfold bounded, canonical_mantissa. rewrite andb_true_iff. intros [H1 H2].
  apply Zeq_bool_eq in H1. apply Z.leb_le in H2. split; assumption.
Qed.

Lemma valid_f64_mul x y : fvalid x -> fvalid y -> fvalid (f64_mul x y).
Proof.
  intros Hx Hy. unfold f64_mul.
  destruct x as [sx|sx| |sx mx ex], y as [sy|sy| |sy my ey]; cbn [SFmul]; try reflexivity.
  cbn [valid_binary] in Hx, Hy.
  destruct (bounded_facts mx ex Hx) as [Cx _]. destruct (bounded_facts my ey Hy) as [Cy _].
  apply round_aux_valid; [lia|].
  rewrite fexp_eq in Cx, Cy. rewrite fexp_eq.
  pose proof (digits_bounds mx) as [Bx _]. pose proof (digits_bounds my) as [By _].
  remember (Zpos (digits2_pos mx)) as dx eqn:Edx. remember (Zpos (digits2_pos my)) as dy eqn:Edy.
  assert (Hdx : 1 <= dx) by lia. assert (Hdy : 1 <= dy) by lia.
  assert (HD : dx + dy - 1 <= Zdigits2 (Zpos (mx * my))).
  { replace (dx + dy - 1) with ((dx + dy - 2) + 1) by lia. apply Zdigits2_ge; [lia|].
    rewrite Pos2Z.inj_mul. replace (dx + dy - 2) with ((dx - 1) + (dy - 1)) by lia.
    rewrite Z.pow_add_r by lia.
    apply Z.mul_le_mono_nonneg; try assumption; apply Z.pow_nonneg; lia. }
  lia.
Qed.

Lemma div_core_ok m1 e1 m2 e2 q e l : 0 < m1 -> 0 < m2 ->
  SFdiv_core_binary prec emax m1 e1 m2 e2 = (q, e, l) ->
  0 <= q /\ e <= fx (Zdigits2 q + e).
Proof.
  intros H1 H2. unfold SFdiv_core_binary. cbv zeta.
  remember (Zdigits2 m1) as d1 eqn:Ed1. remember (Zdigits2 m2) as d2 eqn:Ed2.
  pose proof (fexp_eq (d1 + e1 - (d2 + e2))) as F0.
  remember (fx (d1 + e1 - (d2 + e2))) as f0 eqn:Ef0.
  remember (Z.min f0 (e1 - e2)) as e' eqn:Ee'.
  remember (e1 - e2 - e') as s eqn:Es.
  assert (Hs0 : 0 <= s) by lia.
  assert (Hm' : match s with Z.pos _ => Z.shiftl m1 s | 0 => m1 | Z.neg _ => 0 end = m1 * 2 ^ s).
  { destruct s as [|ps|ps]; [change (2 ^ 0) with 1; lia|apply Z.shiftl_mul_pow2; lia|lia]. }
  rewrite Hm'. clear Hm'.
  destruct (Z.div_eucl (m1 * 2 ^ s) m2) as [q' r'] eqn:Ediv.
  assert (Hq : q' = m1 * 2 ^ s / m2) by (unfold Z.div; now rewrite Ediv).
  intros E. injection E as Eq1 Eq2 Eq3. subst q e.
  pose proof (pow2_pos s Hs0) as HPs.
  assert (Hq0 : 0 <= q') by (rewrite Hq; apply Z.div_pos; [apply Z.mul_nonneg_nonneg; lia|lia]).
  split; [exact Hq0|].
  pose proof (Zdigits2_bounds m1 H1) as [B1 _]. pose proof (Zdigits2_bounds m2 H2) as [_ B2].
  rewrite <- Ed1 in B1. rewrite <- Ed2 in B2.
  assert (Hd1 : 1 <= d1) by (rewrite Ed1; apply (Zdigits2_ge m1 0); lia).
  assert (Hd2 : 1 <= d2) by (rewrite Ed2; apply (Zdigits2_ge m2 0); lia).
  assert (HD : d1 + s - d2 <= Zdigits2 q').
  { destruct (Z.le_gt_cases (d1 + s - d2) 0) as [Hle|Hgt].
    - pose proof (Zdigits2_nonneg q'). lia.
    - replace (d1 + s - d2) with ((d1 + s - d2 - 1) + 1) by lia. apply Zdigits2_ge; [lia|].
      rewrite Hq. apply Z.div_le_lower_bound; [lia|].
      pose proof (pow2_pos (d1 + s - d2 - 1) ltac:(lia)) as HPk.
      assert (A1 : m2 * 2 ^ (d1 + s - d2 - 1) <= 2 ^ d2 * 2 ^ (d1 + s - d2 - 1))
        by (apply Z.mul_le_mono_nonneg_r; lia).
      assert (A2 : 2 ^ (d1 - 1) * 2 ^ s <= m1 * 2 ^ s) by (apply Z.mul_le_mono_nonneg_r; lia).
      rewrite <- Z.pow_add_r in A1, A2 by lia.
      replace (d2 + (d1 + s - d2 - 1)) with (d1 - 1 + s) in A1 by lia. lia. }
  pose proof (fexp_eq (Zdigits2 q' + e')) as F1. lia.
Qed.

Lemma valid_f64_div x y : fvalid x -> fvalid y -> fvalid (f64_div x y).
Proof.
  intros Hx Hy. unfold f64_div.
  destruct x as [sx|sx| |sx mx ex], y as [sy|sy| |sy my ey]; cbn [SFdiv]; try reflexivity.
  destruct (SFdiv_core_binary prec emax (Zpos mx) ex (Zpos my) ey) as [[mz ez] lz] eqn:E.
  destruct (div_core_ok (Zpos mx) ex (Zpos my) ey mz ez lz ltac:(lia) ltac:(lia) E) as [Hq He].
  apply round_aux_valid; assumption.
Qed.

(** ** remainder, negation *)
Lemma valid_f64_rem x y : fvalid x -> fvalid y -> fvalid (f64_rem x y).
Proof.
  intros Hx Hy.
  destruct x as [sx|sx| |sx mx ex], y as [sy|sy| |sy my ey]; cbn [f64_rem];
    try reflexivity; try exact Hx.
  apply valid_binary_normalize.
Qed.

Lemma valid_f64_neg x : fvalid x -> fvalid (f64_neg x).
Proof. intros Hx. destruct x as [s|s| |s m e]; exact Hx. Qed.

(** ** integer casts *)
Lemma valid_f64_of_Z z : fvalid (f64_of_Z z).
Proof. unfold f64_of_Z. apply valid_binary_normalize. Qed.

Lemma valid_f64_of_N n : fvalid (f64_of_N n).
Proof. unfold f64_of_N. apply valid_f64_of_Z. Qed.

(** ** roundings to an integral value *)
Lemma valid_f64_int_round mode x : fvalid x -> fvalid (f64_int_round mode x).
Proof.
  intros Hx. destruct x as [s|s| |s m e]; cbn [f64_int_round]; try exact Hx.
  destruct (0 <=? e); [exact Hx|apply valid_binary_normalize].
Qed.

Lemma valid_f64_floor x : fvalid x -> fvalid (f64_floor x).
Proof. apply valid_f64_int_round. Qed.

Lemma valid_f64_ceil x : fvalid x -> fvalid (f64_ceil x).
Proof. apply valid_f64_int_round. Qed.

Lemma valid_f64_trunc x : fvalid x -> fvalid (f64_trunc x).
Proof. apply valid_f64_int_round. Qed.

Lemma valid_f64_round_away x : fvalid x -> fvalid (f64_round_away x).
Proof. apply valid_f64_int_round. Qed.

Lemma valid_f64_xround x : fvalid x -> fvalid (f64_xround x).
Proof. apply valid_f64_int_round. Qed.

Lemma valid_m_round_half_up x : fvalid x -> fvalid (m_round_half_up x).
Proof. intros Hx. rewrite (round_refines x Hx). now apply valid_f64_xround. Qed.

(** ** decimal -> binary *)
Lemma valid_f64_of_ratio neg n d : 0 < d -> fvalid (f64_of_ratio neg n d).
Proof.
  intros Hd. unfold f64_of_ratio. destruct (Z.leb_spec n 0) as [Hn|Hn]; [reflexivity|].
  remember (Z.max 0 (64 + Z.log2 d - Z.log2 n)) as s eqn:Es.
  destruct (Z.div_eucl (n * 2 ^ s) d) as [q r] eqn:Ediv.
  assert (Hq : q = n * 2 ^ s / d) by (unfold Z.div; now rewrite Ediv).
  assert (Hs0 : 0 <= s) by lia. pose proof (pow2_pos s Hs0) as HPs.
  apply round_aux_valid.
  - rewrite Hq. apply Z.div_pos; [apply Z.mul_nonneg_nonneg; lia|lia].
  - assert (HD : 63 + 1 <= Zdigits2 q).
    { apply Zdigits2_ge; [lia|]. rewrite Hq. apply Z.div_le_lower_bound; [lia|].
      pose proof (Z.log2_spec n Hn) as [Ln _]. pose proof (Z.log2_spec d Hd) as [_ Ld].
      pose proof (Z.log2_nonneg n) as Ln0. pose proof (Z.log2_nonneg d) as Ld0.
      assert (A1 : d * 2 ^ 63 <= 2 ^ Z.succ (Z.log2 d) * 2 ^ 63)
        by (apply Z.mul_le_mono_nonneg_r; lia).
      assert (A2 : 2 ^ Z.log2 n * 2 ^ s <= n * 2 ^ s) by (apply Z.mul_le_mono_nonneg_r; lia).
      rewrite <- Z.pow_add_r in A1, A2 by lia.
      assert (A3 : 2 ^ (Z.succ (Z.log2 d) + 63) <= 2 ^ (Z.log2 n + s))
        by (apply Z.pow_le_mono_r; lia).
      lia. }
    rewrite fexp_eq. lia.
Qed.

Lemma valid_f64_of_decimal neg D k : fvalid (f64_of_decimal neg D k).
Proof.
  unfold f64_of_decimal.
  destruct (Z.leb_spec D 0); [reflexivity|].
  destruct (Z.ltb_spec 310 k); [reflexivity|].
  destruct (Z.ltb_spec (k + Z.log2 D / 3 + 1) (-330)); [reflexivity|].
  destruct (Z.leb_spec 0 k).
  - apply valid_f64_of_ratio. lia.
  - apply valid_f64_of_ratio. apply Z.pow_pos_nonneg; lia.
Qed.

Lemma valid_xp_string_to_number s : fvalid (xp_string_to_number s).
Proof.
  unfold xp_string_to_number. destruct (xp_parse_number s) as [[[neg D] k]|]; [|reflexivity].
  apply valid_f64_of_decimal.
Qed.

(** ** sum *)
Lemma valid_sum_fold (l : list str) acc : fvalid acc ->
  fvalid (fold_left (fun a s => f64_add a (xp_string_to_number s)) l acc).
Proof.
  revert acc. induction l as [|s l IH]; intros acc Hacc; cbn [fold_left]; [exact Hacc|].
  apply IH. apply valid_f64_add; [exact Hacc|apply valid_xp_string_to_number].
Qed.

Lemma valid_xp_sum l : fvalid (xp_sum l).
Proof. unfold xp_sum. apply valid_sum_fold. apply valid_f64_zero. Qed.

Print Assumptions round_aux_valid.
Print Assumptions valid_binary_normalize.
Print Assumptions valid_f64_one.
Print Assumptions valid_f64_zero.
Print Assumptions valid_f64_nan.
Print Assumptions valid_f64_add.
Print Assumptions valid_f64_sub.
Print Assumptions valid_f64_mul.
Print Assumptions valid_f64_div.
Print Assumptions valid_f64_rem.
Print Assumptions valid_f64_neg.
Print Assumptions valid_f64_of_Z.
Print Assumptions valid_f64_of_N.
Print Assumptions valid_f64_int_round.
Print Assumptions valid_f64_floor.
Print Assumptions valid_f64_ceil.
Print Assumptions valid_f64_trunc.
Print Assumptions valid_f64_round_away.
Print Assumptions valid_f64_xround.
Print Assumptions valid_m_round_half_up.
Print Assumptions valid_f64_of_ratio.
Print Assumptions valid_f64_of_decimal.
Print Assumptions valid_xp_string_to_number.
Print Assumptions valid_sum_fold.
Print Assumptions valid_xp_sum.
