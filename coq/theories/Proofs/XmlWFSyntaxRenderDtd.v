(** * C01, the DTD rung of [render_wf]: the renderings of the declarations of an abstract document type
    declaration are read back by the (strict) grammar of the specification.  Part 1: literals and the
    declarations one by one. *)
From Coq Require Import List NArith Arith Lia Bool Permutation.
From XmlRs Require Import Base.CPred Spec.XmlChars Spec.XmlWF Spec.Infoset Proofs.XmlWFRender
  Proofs.XmlWFSyntaxRenderNode Proofs.XmlWFSyntaxRenderCheck Proofs.XmlWFSyntaxRenderDoc.
From XmlRs Require Proofs.XmlWFSyntaxLex.
Import ListNotations.
Local Open Scope nat_scope.

Notation forallb_impl := XmlWFSyntaxLex.forallb_impl.

(** ** [9] EntityValue: the literal of an entity value *)
Definition ent_piece (q : char) (k : N) (ch : char) : avpiece :=
  let esc := ent_must_escape q ch in
  match N.modulo k 4 with
  | 0%N | 1%N => if esc then AvChar ch else AvLit ch
  | 2%N => match predef_name ch with
           | Some _ => AvChar ch
           | None => if esc then AvChar ch else AvLit ch end
  | _ => AvChar ch
  end.

Lemma ent_piece_cases q k ch : ent_piece q k ch = AvLit ch \/ ent_piece q k ch = AvChar ch.
Proof.
  unfold ent_piece. destruct (N.modulo k 4) as [|m]; [destruct (ent_must_escape q ch); auto|].
  destruct m as [m|m|]; [auto| |destruct (ent_must_escape q ch); auto].
  destruct m as [m|m|]; auto. destruct (predef_name ch); [auto|destruct (ent_must_escape q ch); auto].
Qed.

Lemma ent_char_step q k ch T fuel : quote q -> isChar ch = true ->
  p_pieces (S fuel) (Some q) c_pct (lit_char k (ent_must_escape q ch) false ch ++ T) =
  bind (p_pieces fuel (Some q) c_pct T) (fun '(ps, rest) => Some (ent_piece q k ch :: ps, rest)).
Proof.
  intros Hq Hc.
  assert (Hq38 : N.eqb c_amp q = false) by (destruct Hq; subst q; reflexivity).
  assert (Hlit : ent_must_escape q ch = false ->
    p_pieces (S fuel) (Some q) c_pct ([ch] ++ T) = bind (p_pieces fuel (Some q) c_pct T) (fun '(ps, rest) => Some (AvLit ch :: ps, rest))).
  { intros He. unfold ent_must_escape in He. repeat (apply orb_false_iff in He; destruct He as [He ?]).
    cbn [app p_pieces]. rewrite H0, He, H1, Hc. destruct (p_pieces fuel (Some q) c_pct T) as [[ps rest]|]; reflexivity. }
  assert (Href : forall k', p_pieces (S fuel) (Some q) c_pct (char_ref k' ch ++ T) =
    bind (p_pieces fuel (Some q) c_pct T) (fun '(ps, rest) => Some (AvChar ch :: ps, rest))).
  { intros k'. pose proof (char_ref_roundtrip k' ch T (isChar_bound ch Hc)) as Hr.
    assert (Hs : exists t, char_ref k' ch = c_amp :: t) by (unfold char_ref; destruct (N.eqb (N.modulo k' 2) 0); eexists; reflexivity).
    destruct Hs as [t Et]. rewrite Et in *. cbn [tl app] in *. cbn [p_pieces]. rewrite Hq38.
    change (N.eqb c_amp c_pct) with false. rewrite N.eqb_refl. cbv iota. unfold str, char in *. rewrite Hr. cbn [bind piece_of_ref].
    destruct (p_pieces fuel (Some q) c_pct T) as [[ps rest]|]; reflexivity. }
  unfold lit_char, ent_piece. destruct (N.modulo k 4) as [|m].
  - destruct (ent_must_escape q ch) eqn:Ee; [apply Href|now apply Hlit].
  - destruct m as [m|m|].
    + apply Href.
    + destruct m as [m|m|]; try apply Href.
      destruct (predef_name ch) as [nm|] eqn:En; [apply Href|].
      destruct (ent_must_escape q ch) eqn:Ee; [apply Href|now apply Hlit].
    + destruct (ent_must_escape q ch) eqn:Ee; [apply Href|now apply Hlit].
Qed.

Fixpoint ent_lit_pieces (q : char) (c : choices) (p : list N) (i : N) (s : str) : list avpiece :=
  match s with [] => [] | ch :: t => ent_piece q (c (i :: p)) ch :: ent_lit_pieces q c p (i + 1) t end.

Lemma ent_chars_read q c p : quote q -> forall s i T fuel, all_chars s = true ->
  p_pieces (length s + fuel) (Some q) c_pct (lit_chars c p (ent_must_escape q) false i s ++ T) =
  bind (p_pieces fuel (Some q) c_pct T) (fun '(ps', rest) => Some (ent_lit_pieces q c p i s ++ ps', rest)).
Proof.
  intros Hq. induction s as [|ch s IH]; intros i T fuel Hc.
  - cbn [lit_chars ent_lit_pieces app length Nat.add]. destruct (p_pieces fuel (Some q) c_pct T) as [[ps rest]|]; reflexivity.
  - cbn [all_chars forallb] in Hc. apply andb_true_iff in Hc. destruct Hc as [Hch Hcs].
    cbn [lit_chars ent_lit_pieces length Nat.add]. rewrite <- app_assoc.
    rewrite (ent_char_step q (c (i :: p)) ch _ (length s + fuel) Hq Hch).
    rewrite (IH (i + 1)%N T fuel Hcs).
    destruct (p_pieces fuel (Some q) c_pct T) as [[ps rest]|]; reflexivity.
Qed.

Fixpoint ent_items_pieces (q : char) (c : choices) (p : list N) (i : N) (l : list aitem) : list avpiece :=
  match l with
  | [] => []
  | IText s :: t => ent_lit_pieces q c (i :: p) 0 s ++ ent_items_pieces q c p (i + 1) t
  | IRef nm :: t => AvEnt nm :: ent_items_pieces q c p (i + 1) t
  end.

Lemma ent_items_all_chars (l : list aitem) : ent_items_ok l = true ->
  forallb (fun i => match i with IText s => all_chars s | IRef nm => is_NCName nm end) l = true.
Proof.
  unfold ent_items_ok. apply forallb_impl. intros [s|nm] H; [|exact H]. apply andb_true_iff in H. destruct H as [H _]. apply andb_true_iff in H. tauto.
Qed.

Lemma ent_items_read q c p : quote q -> forall l i T fuel, ent_items_ok l = true ->
  p_pieces (items_size l + fuel) (Some q) c_pct (lit_items c p (ent_must_escape q) false i l ++ T) =
  bind (p_pieces fuel (Some q) c_pct T) (fun '(ps', rest) => Some (ent_items_pieces q c p i l ++ ps', rest)).
Proof.
  intros Hq. assert (Hq38 : N.eqb c_amp q = false) by (destruct Hq; subst q; reflexivity).
  induction l as [|it l IH]; intros i T fuel Hok.
  - cbn [lit_items ent_items_pieces items_size app Nat.add]. destruct (p_pieces fuel (Some q) c_pct T) as [[ps rest]|]; reflexivity.
  - cbn [ent_items_ok forallb] in Hok. apply andb_true_iff in Hok. destruct Hok as [Hit Hl].
    destruct it as [s|nm]; cbn [lit_items ent_items_pieces items_size].
    + apply andb_true_iff in Hit. destruct Hit as [Hit _]. apply andb_true_iff in Hit. destruct Hit as [Hit _].
      rewrite <- !app_assoc. rewrite <- Nat.add_assoc. rewrite (ent_chars_read q c (i :: p) Hq s 0%N _ _ Hit).
      rewrite (IH (i + 1)%N T fuel Hl). destruct (p_pieces fuel (Some q) c_pct T) as [[ps rest]|]; cbn [bind]; [now rewrite app_assoc|reflexivity].
    + unfold entity_ref. cbn [app Nat.add p_pieces]. rewrite Hq38.
      change (N.eqb c_amp c_pct) with false. rewrite N.eqb_refl. cbv iota.
      rewrite <- !app_assoc. cbn [app].
      assert (Hn : is_Name nm = true) by (unfold is_NCName in Hit; apply andb_true_iff in Hit; tauto).
      pose proof (p_ref_entity nm (lit_items c p (ent_must_escape q) false (i + 1) l ++ T) Hn) as Hr.
      unfold str, char in *. rewrite Hr. cbn [bind piece_of_ref].
      rewrite (IH (i + 1)%N T fuel Hl). destruct (p_pieces fuel (Some q) c_pct T) as [[ps rest]|]; reflexivity.
Qed.

(** the pieces read back have the replacement text of the canonical ones, legal character references and
    the same entity references *)
Lemma repl_text_cons a l : repl_text (a :: l) = repl_text [a] ++ repl_text l.
Proof. unfold repl_text. cbn [flat_map]. rewrite app_nil_r. reflexivity. Qed.

Lemma ent_lit_pieces_repl q c p : forall s i, repl_text (ent_lit_pieces q c p i s) = s.
Proof.
  induction s as [|ch s IH]; intros i; [reflexivity|]. cbn [ent_lit_pieces]. rewrite repl_text_cons.
  rewrite IH. destruct (ent_piece_cases q (c (i :: p)) ch) as [-> | ->]; reflexivity.
Qed.

Lemma repl_text_app a b : repl_text (a ++ b) = repl_text a ++ repl_text b.
Proof. unfold repl_text. apply flat_map_app. Qed.

Lemma ent_items_pieces_repl q c p : forall l i, repl_text (ent_items_pieces q c p i l) = repl_text (ent_pieces l).
Proof.
  induction l as [|it l IH]; intros i; [reflexivity|]. destruct it as [s|nm]; cbn [ent_items_pieces].
  - unfold ent_pieces. cbn [flat_map]. fold (ent_pieces l). rewrite !repl_text_app, IH, ent_lit_pieces_repl.
    f_equal. clear. induction s as [|ch s IHs]; [reflexivity|]. cbn [map]. rewrite repl_text_cons. rewrite <- IHs. reflexivity.
  - unfold ent_pieces. cbn [flat_map app]. fold (ent_pieces l). rewrite (repl_text_cons (AvEnt nm) (ent_items_pieces q c p (i + 1) l)), (repl_text_cons (AvEnt nm) (ent_pieces l)). rewrite IH. reflexivity.
Qed.

Definition charrefs_ok (v : list avpiece) : chk := allc (fun p => match p with AvChar n => guard (isChar n) RBadCharRef | _ => ok end) v.

Lemma allc_app' {A} (g : A -> chk) a b : allc g a = None -> allc g b = None -> allc g (a ++ b) = None.
Proof. intros Ha Hb. unfold allc in *. rewrite fold_right_app, Hb. exact Ha. Qed.

Lemma ent_lit_pieces_charrefs q c p : forall s i, all_chars s = true -> charrefs_ok (ent_lit_pieces q c p i s) = None.
Proof.
  induction s as [|ch s IH]; intros i Hc; [reflexivity|]. cbn [all_chars forallb] in Hc. apply andb_true_iff in Hc. destruct Hc as [Hch Hs].
  cbn [ent_lit_pieces]. unfold charrefs_ok. cbn [allc fold_right]. fold (allc (fun p0 => match p0 with AvChar n => guard (isChar n) RBadCharRef | _ => ok end) (ent_lit_pieces q c p (i + 1) s)).
  fold (charrefs_ok (ent_lit_pieces q c p (i + 1) s)). rewrite (IH _ Hs).
  destruct (ent_piece_cases q (c (i :: p)) ch) as [-> | ->]; [reflexivity|]. rewrite Hch. reflexivity.
Qed.

Lemma ent_items_pieces_charrefs q c p : forall l i, ent_items_ok l = true -> charrefs_ok (ent_items_pieces q c p i l) = None.
Proof.
  induction l as [|it l IH]; intros i Hok; [reflexivity|]. cbn [ent_items_ok forallb] in Hok. apply andb_true_iff in Hok. destruct Hok as [Hit Hl].
  destruct it as [s|nm]; cbn [ent_items_pieces].
  - apply andb_true_iff in Hit. destruct Hit as [Hit _]. apply andb_true_iff in Hit. destruct Hit as [Hit _].
    apply allc_app'; [apply ent_lit_pieces_charrefs; exact Hit|apply IH; exact Hl].
  - unfold charrefs_ok. cbn [allc fold_right]. exact (IH _ Hl).
Qed.

Theorem ent_literal_reads_back c p v : ent_items_ok v = true ->
  exists q, quote q /\ forall rest extra, p_EntityValue (S (items_size v) + extra) (ent_literal c p v ++ rest) = Some (ent_items_pieces q c (1%N :: p) 0 v, rest).
Proof.
  intros Hok. unfold ent_literal.
  set (q := if (c (0%N :: p) mod 2 =? 0)%N then c_quot else c_apos).
  assert (Hq : quote q) by (unfold q, quote; destruct (N.eqb _ _); auto).
  exists q. split; [exact Hq|].
  intros rest extra. cbn [app]. unfold p_EntityValue.
  assert (Hiq : isQuote q = true) by (destruct Hq as [-> | ->]; reflexivity). rewrite Hiq.
  rewrite <- app_assoc. cbn [app].
  replace (S (items_size v) + extra) with (items_size v + S extra) by lia.
  etransitivity; [exact (ent_items_read q c (1%N :: p) Hq v 0%N (q :: rest) (S extra) Hok)|].
  cbn [p_pieces]. rewrite N.eqb_refl. cbn [bind]. now rewrite app_nil_r.
Qed.

(** ** [11] [12] quoted literals, [75] ExternalID *)
Lemma contains_false_forall x (s : str) : contains x s = false -> forallb (fun c => negb (c =? x)%N) s = true.
Proof.
  unfold contains. induction s as [|c s IH]; [reflexivity|]. cbn [existsb forallb]. intros H. apply orb_false_iff in H. destruct H as [H1 H2].
  rewrite (IH H2), andb_true_r. rewrite N.eqb_sym, H1. reflexivity.
Qed.

Lemma pick_quote_absent c p (body : str) : contains c_quot body && contains c_apos body = false ->
  isQuote (pick_quote c p body) = true /\ contains (pick_quote c p body) body = false.
Proof.
  unfold pick_quote. intros H. destruct (contains c_quot body) eqn:E1.
  - cbn [andb] in H. split; [reflexivity|exact H].
  - destruct (contains c_apos body) eqn:E2; [split; [reflexivity|exact E1]|]. destruct (N.eqb _ _); split; try reflexivity; assumption.
Qed.

Lemma quoted_read_f (f : char -> bool) c p (body T : str) : forallb f body = true -> contains c_quot body && contains c_apos body = false ->
  p_quoted f (quoted c p body ++ T) = Some (body, T).
Proof.
  intros Hf Hb. destruct (pick_quote_absent c p body Hb) as [Hq Ha]. unfold quoted. cbv zeta. cbn [app]. unfold p_quoted. rewrite Hq.
  rewrite <- app_assoc. cbn [app].
  rewrite (span_all_stop (fun c0 => f c0 && negb (c0 =? pick_quote c p body)%N) body (pick_quote c p body) T).
  - rewrite N.eqb_refl. reflexivity.
  - apply contains_false_forall in Ha. revert Ha. generalize (pick_quote c p body) as q0. intros q0 Ha. clear - Hf Ha. induction body as [|x b IH]; [reflexivity|]. cbn [forallb] in *.
    apply andb_true_iff in Hf. destruct Hf as [Hx Hb]. apply andb_true_iff in Ha. destruct Ha as [Hx2 Hb2]. rewrite Hx, Hx2, (IH Hb Hb2). reflexivity.
  - rewrite N.eqb_refl. apply andb_false_r.
Qed.

Lemma quoted_sys c p s T : sysid_ok s = true -> p_SystemLiteral (quoted c p s ++ T) = Some (s, T).
Proof.
  unfold sysid_ok. intros H. apply andb_true_iff in H. destruct H as [H Hb]. apply andb_true_iff in H. destruct H as [Hc _]. apply negb_true_iff in Hb.
  apply quoted_read_f; assumption.
Qed.

Lemma pubid_no_quot (s : str) : forallb (eval spec_PubidChar) s = true -> contains c_quot s = false.
Proof.
  unfold contains. induction s as [|x s IH]; [reflexivity|]. cbn [forallb existsb]. intros H. apply andb_true_iff in H. destruct H as [Hx Hs].
  rewrite (IH Hs), orb_false_r. destruct (N.eqb_spec c_quot x) as [<-|]; [vm_compute in Hx; discriminate|reflexivity].
Qed.

Lemma quoted_pub c p s T : pubid_ok s = true -> p_PubidLiteral (quoted c p s ++ T) = Some (s, T).
Proof.
  unfold pubid_ok. intros H. apply andb_true_iff in H. destruct H as [H _]. apply andb_true_iff in H. destruct H as [H _]. apply andb_true_iff in H. destruct H as [Hc _].
  apply quoted_read_f; [exact Hc|]. rewrite (pubid_no_quot s Hc). reflexivity.
Qed.

Lemma p_S_S1 c p X : nonS X -> p_S (S1 c p ++ X) = Some X.
Proof. intros H. apply p_S_run; [apply S1_ne|apply S1_S|exact H]. Qed.

Definition extid_ok (pub sys : option str) : bool :=
  match pub, sys with
  | Some p, Some s => pubid_ok p && sysid_ok s
  | None, Some s => sysid_ok s
  | Some p, None => pubid_ok p
  | None, None => false
  end.

Lemma extid_reads b c p pub s T : extid_ok pub (Some s) = true -> p_ExternalID b (render_extid c p pub (Some s) ++ T) = Some (pub, Some s, T).
Proof.
  unfold extid_ok, render_extid, p_ExternalID. destruct pub as [pb|]; intros H.
  - apply andb_true_iff in H. destruct H as [Hp Hs]. rewrite <- !app_assoc.
    change (strip s_system (s_public ++ ?X)) with (@None str). rewrite strip_app. cbn [bind].
    rewrite (p_S_S1 c (0%N :: p)) by apply quoted_nonS. cbn [bind]. rewrite (quoted_pub _ _ _ _ Hp). cbn [bind].
    rewrite (p_S_S1 c (2%N :: p)) by apply quoted_nonS. cbn [bind]. rewrite (quoted_sys _ _ _ _ Hs). reflexivity.
  - rewrite <- !app_assoc. rewrite strip_app. rewrite (p_S_S1 c (0%N :: p)) by apply quoted_nonS. cbn [bind]. rewrite (quoted_sys _ _ _ _ H). reflexivity.
Qed.

(** the public identifier alone (NOTATION): what follows is S? and `>` *)
Lemma pubid_reads c p pb q T : pubid_ok pb = true ->
  p_ExternalID true (render_extid c p (Some pb) None ++ S0 c q ++ c_gt :: T) = Some (Some pb, None, S0 c q ++ c_gt :: T).
Proof.
  intros Hp. unfold render_extid, p_ExternalID. rewrite <- !app_assoc.
  change (strip s_system (s_public ++ ?X)) with (@None str). rewrite strip_app. cbn [bind].
  rewrite (p_S_S1 c (0%N :: p)) by apply quoted_nonS. cbn [bind]. rewrite (quoted_pub _ _ _ _ Hp). cbn [bind].
  assert (bind (p_S (S0 c q ++ c_gt :: T)) (fun r3 => p_SystemLiteral r3) = None) as ->; [|reflexivity].
  destruct (S0 c q) as [|w ws] eqn:E.
  - cbn [app]. reflexivity.
  - rewrite <- E. assert (Hne : S0 c q <> []) by (rewrite E; discriminate). rewrite (p_S_run (S0 c q) (c_gt :: T) Hne (S0_S _ _)) by reflexivity. reflexivity.
Qed.

(** S? `>` *)
Lemma close_reads c p T : p_close (S0 c p ++ c_gt :: T) = Some T.
Proof. unfold p_close. rewrite (skipS_run (S0 c p) (c_gt :: T) (S0_S _ _)) by reflexivity. rewrite N.eqb_refl. reflexivity. Qed.

(** ** [70]-[76] entity declarations, [82] notation declarations *)
Lemma markupdecl_entity_eq fuel r : p_markupdecl fuel (s_entity ++ r) =
  bind (p_S r) (fun r1 =>
    match r1 with
    | c :: t =>
      if (c =? c_pct)%N then
        bind (p_S t) (fun r2 => bind (p_Name r2) (fun '(nm, r3) => bind (p_S r3) (fun r4 =>
        match p_EntityValue fuel r4 with
        | Some (v, r5) => bind (p_close r5) (fun r6 => Some (DPEntity nm (EdValue v), r6))
        | None => bind (p_ExternalID false r4) (fun '(pub, sys, r5) => bind (extid_of pub sys) (fun id =>
                  bind (p_close r5) (fun r6 => Some (DPEntity nm (EdExternal id None), r6))))
        end)))
      else
        bind (p_Name r1) (fun '(nm, r3) => bind (p_S r3) (fun r4 =>
        match p_EntityValue fuel r4 with
        | Some (v, r5) => bind (p_close r5) (fun r6 => Some (DEntity nm (EdValue v), r6))
        | None =>
          bind (p_ExternalID false r4) (fun '(pub, sys, r5) => bind (extid_of pub sys) (fun id =>
          match bind (p_S r5) (fun r6 => bind (strip s_NDATA r6) (fun r7 => bind (p_S r7) (fun r8 => p_Name r8))) with
          | Some (n, r9) => bind (p_close r9) (fun r10 => Some (DEntity nm (EdExternal id (Some n)), r10))
          | None => bind (p_close r5) (fun r6 => Some (DEntity nm (EdExternal id None), r6))
          end))
        end))
    | [] => None
    end).
Proof.
  unfold p_markupdecl. change (strip s_element (s_entity ++ r)) with (@None str).
  change (strip s_attlist (s_entity ++ r)) with (@None str). rewrite strip_app. reflexivity.
Qed.

Lemma nsc_not_pct x : eval spec_NameStartChar x = true -> (x =? c_pct)%N = false.
Proof. intros H. destruct (N.eqb_spec x c_pct) as [->|]; [discriminate|reflexivity]. Qed.

Lemma name_then_S1 nm c p X : is_Name nm = true -> p_Name (nm ++ S1 c p ++ X) = Some (nm, S1 c p ++ X).
Proof.
  intros Hn. apply p_Name_app; [exact Hn|]. pose proof (S1_ne c p) as Hne. pose proof (S1_S c p) as HS.
  destruct (S1 c p) as [|w ws]; [now elim Hne|]. cbn [app stops_name]. apply isS_not_namechar. cbn [forallb] in HS. apply andb_true_iff in HS. tauto.
Qed.

Lemma name_nonS nm X : is_Name nm = true -> nonS (nm ++ X).
Proof. intros Hn. destruct (name_head nm Hn) as (x & t & -> & Hx). cbn [app nonS]. exact (proj1 (nsc_facts x Hx)). Qed.

Lemma ent_literal_nonS c p v X : nonS (ent_literal c p v ++ X).
Proof. unfold ent_literal. cbv zeta. cbn [app nonS]. destruct (N.eqb _ _); reflexivity. Qed.

Lemma ent_literal_len c p v : items_size v <= length (ent_literal c p v).
Proof.
  unfold ent_literal. cbv zeta. cbn [length]. rewrite app_length.
  match goal with |- context [lit_items c ?pp ?esc false 0%N v] => pose proof (lit_items_len c pp esc false v 0%N) end. unfold str, char in *. lia.
Qed.

Theorem entity_decl_reads c p nm v T : is_NCName nm = true -> ent_items_ok v = true ->
  exists q, quote q /\
    forall fuel, length (render_decl c p (ADEntity nm v)) <= fuel ->
    p_markupdecl fuel (render_decl c p (ADEntity nm v) ++ T) = Some (DEntity nm (EdValue (ent_items_pieces q c (1%N :: 2%N :: p) 0 v)), T).
Proof.
  intros Hn Hv. apply NCName_Name in Hn. destruct (ent_literal_reads_back c (2%N :: p) v Hv) as [q [Hq Hr]].
  exists q. split; [exact Hq|]. intros fuel Hf. cbn [render_decl] in *. rewrite <- !app_assoc. rewrite markupdecl_entity_eq.
  rewrite (p_S_S1 c (0%N :: p)) by (apply name_nonS; exact Hn). cbn [bind].
  destruct (name_head nm Hn) as (x & t & -> & Hx). cbn [app]. rewrite (nsc_not_pct x Hx).
  match goal with |- context [p_Name (x :: t ++ ?Y)] => change (x :: t ++ Y) with ((x :: t) ++ Y) end.
  rewrite (name_then_S1 (x :: t) c (1%N :: p) _ Hn). cbn [bind]. rewrite (p_S_S1 c (1%N :: p)) by apply ent_literal_nonS. cbn [bind].
  rewrite !app_length in Hf. pose proof (ent_literal_len c (2%N :: p) v) as Hl.
  specialize (Hr (S0 c (3%N :: p) ++ c_gt :: T) (fuel - S (items_size v))). replace (S (items_size v) + (fuel - S (items_size v))) with fuel in Hr by (unfold s_entity in Hf; cbn [length] in Hf; lia).
  unfold str, char in *. rewrite Hr. rewrite close_reads. reflexivity.
Qed.

Theorem ext_entity_decl_reads c p nm pub sys nd T : is_NCName nm = true -> extid_ok pub (Some sys) = true ->
  match nd with Some n => is_NCName n = true | None => True end -> forall fuel,
  p_markupdecl fuel (render_decl c p (ADExtEntity nm pub sys nd) ++ T) =
  Some (DEntity nm (EdExternal (match pub with Some pb => PublicId pb sys | None => SystemId sys end) nd), T).
Proof.
  intros Hn Hx Hnd fuel. apply NCName_Name in Hn. cbn [render_decl]. rewrite <- !app_assoc. rewrite markupdecl_entity_eq.
  rewrite (p_S_S1 c (0%N :: p)) by (apply name_nonS; exact Hn). cbn [bind].
  destruct (name_head nm Hn) as (x & t & -> & Hx0). cbn [app]. rewrite (nsc_not_pct x Hx0).
  match goal with |- context [p_Name (x :: t ++ ?Y)] => change (x :: t ++ Y) with ((x :: t) ++ Y) end.
  rewrite (name_then_S1 (x :: t) c (1%N :: p) _ Hn). cbn [bind].
  assert (Hext_nonS : forall Y, nonS (render_extid c (2%N :: p) pub (Some sys) ++ Y)) by (intros Y; unfold render_extid; destruct pub; reflexivity).
  rewrite (p_S_S1 c (1%N :: p)) by apply Hext_nonS. cbn [bind].
  assert (Hev : forall Y, p_EntityValue fuel (render_extid c (2%N :: p) pub (Some sys) ++ Y) = None) by (intros Y; unfold render_extid; destruct pub; reflexivity).
  rewrite Hev. rewrite (extid_reads false c (2%N :: p) pub sys _ Hx). cbn [bind].
  assert (extid_of pub (Some sys) = Some (match pub with Some pb => PublicId pb sys | None => SystemId sys end)) as -> by (destruct pub; reflexivity). cbn [bind].
  destruct nd as [n|].
  - apply NCName_Name in Hnd. rewrite <- !app_assoc. rewrite (p_S_S1 c (4%N :: p)) by reflexivity. cbn [bind]. rewrite strip_app. cbn [bind].
    rewrite (p_S_S1 c (5%N :: p)) by (apply name_nonS; exact Hnd). cbn [bind].
    assert (p_Name (n ++ S0 c (3%N :: p) ++ c_gt :: T) = Some (n, S0 c (3%N :: p) ++ c_gt :: T)) as En.
    { apply p_Name_app; [exact Hnd|]. destruct (S0 c (3%N :: p)) as [|w ws] eqn:Ew; [reflexivity|].
      cbn [app stops_name]. apply isS_not_namechar. pose proof (S0_S c (3%N :: p)) as HS. rewrite Ew in HS. cbn [forallb] in HS. apply andb_true_iff in HS. tauto. }
    unfold str, char in *. rewrite En. cbn [bind]. rewrite close_reads. reflexivity.
  - cbn [app].
    assert (bind (p_S (S0 c (3%N :: p) ++ c_gt :: T)) (fun r6 => bind (strip s_NDATA r6) (fun r7 => bind (p_S r7) (fun r8 => p_Name r8))) = None) as End.
    { destruct (S0 c (3%N :: p)) as [|w ws] eqn:Ew; [reflexivity|]. rewrite <- Ew. assert (Hne : S0 c (3%N :: p) <> []) by (rewrite Ew; discriminate).
      rewrite (p_S_run (S0 c (3%N :: p)) (c_gt :: T) Hne (S0_S _ _)) by reflexivity. reflexivity. }
    unfold str, char in *. rewrite End. rewrite close_reads. reflexivity.
Qed.

Lemma markupdecl_notation_eq fuel r : p_markupdecl fuel (s_notation_decl ++ r) =
  bind (p_S r) (fun r1 => bind (p_Name r1) (fun '(nm, r2) => bind (p_S r2) (fun r3 =>
  bind (p_ExternalID true r3) (fun '(pub, sys, r4) => bind (p_close r4) (fun r5 => Some (DNotation nm pub sys, r5)))))).
Proof. reflexivity. Qed.

Theorem notation_decl_reads c p nm pub sys T : is_NCName nm = true -> extid_ok pub sys = true -> forall fuel,
  p_markupdecl fuel (render_decl c p (ADNotation nm pub sys) ++ T) = Some (DNotation nm pub sys, T).
Proof.
  intros Hn Hx fuel. apply NCName_Name in Hn. cbn [render_decl]. rewrite <- !app_assoc. rewrite markupdecl_notation_eq.
  rewrite (p_S_S1 c (0%N :: p)) by (apply name_nonS; exact Hn). cbn [bind]. rewrite (name_then_S1 nm c (1%N :: p) _ Hn). cbn [bind].
  assert (Hext_nonS : forall Y, nonS (render_extid c (2%N :: p) pub sys ++ Y)).
  { intros Y. unfold render_extid. destruct pub, sys; try reflexivity. discriminate Hx. }
  rewrite (p_S_S1 c (1%N :: p)) by apply Hext_nonS. cbn [bind].
  destruct sys as [s|].
  - rewrite (extid_reads true c (2%N :: p) pub s _ Hx). cbn [bind app]. rewrite close_reads. reflexivity.
  - destruct pub as [pb|]; [|discriminate Hx]. cbn [extid_ok] in Hx. cbn [app]. pose proof (pubid_reads c (2%N :: p) pb (3%N :: p) T Hx) as Hpr.
    unfold str, char in *. rewrite Hpr. cbn [bind]. rewrite close_reads. reflexivity.
Qed.

(** ** [52]-[60] attribute-list declarations *)
Lemma S0_then (c : choices) (p : list N) (X : str) : nonS X -> skipS (S0 c p ++ X) = X.
Proof. intros H. apply skipS_run; [apply S0_S|exact H]. Qed.

Lemma nmtoken_reads (x X : str) : is_Nmtoken x = true -> stops_name X -> p_Nmtoken (x ++ X) = Some (x, X).
Proof.
  unfold is_Nmtoken, p_Nmtoken. destruct x as [|a x]; [discriminate|]. intros Hx HX.
  destruct X as [|y X].
  - rewrite app_nil_r. rewrite (span_all_nil _ (a :: x) Hx). reflexivity.
  - rewrite (span_all_stop _ (a :: x) y X Hx HX). reflexivity.
Qed.

Lemma S0_stops c p (X : str) : (match X with [] => True | y :: _ => eval spec_NameChar y = false end) -> stops_name (S0 c p ++ X).
Proof.
  intros HX. destruct (S0 c p) as [|w ws] eqn:Ew; [exact HX|]. cbn [app stops_name]. apply isS_not_namechar.
  pose proof (S0_S c p) as HS. rewrite Ew in HS. cbn [forallb] in HS. apply andb_true_iff in HS. tauto.
Qed.

Lemma render_alts_cons2 c p i x y l : render_alts c p i (x :: y :: l) =
  S0 c (i :: 0%N :: p) ++ x ++ S0 c (i :: 1%N :: p) ++ c_bar :: render_alts c p (i + 1) (y :: l).
Proof. reflexivity. Qed.

(** a list of tokens in parentheses, after `(` *)
Lemma alts_read (tok : str -> option (str * str)) (okb : str -> bool) c p :
  (forall x X, okb x = true -> stops_name X -> tok (x ++ X) = Some (x, X)) -> (forall x X, okb x = true -> nonS (x ++ X)) ->
  forall l i T fuel, l <> [] -> forallb okb l = true -> length l <= fuel ->
  p_alts fuel tok (render_alts c p i l ++ c_rpar :: T) = Some (l, T).
Proof.
  intros Htok Hns. induction l as [|x l IH]; intros i T fuel Hne Hok Hf; [now elim Hne|].
  cbn [forallb] in Hok. apply andb_true_iff in Hok. destruct Hok as [Hx Hl]. destruct fuel as [|f]; [cbn in Hf; lia|]. cbn [length] in Hf.
  destruct l as [|y l'].
  - cbn [render_alts]. rewrite <- !app_assoc. cbn [p_alts]. rewrite (S0_then c (i :: 0%N :: p)) by (apply Hns; exact Hx).
    rewrite (Htok x _ Hx) by (apply S0_stops; reflexivity). cbn [bind]. rewrite (S0_then c (i :: 1%N :: p)) by reflexivity. reflexivity.
  - rewrite render_alts_cons2. rewrite <- !app_assoc. cbn [app p_alts]. rewrite (S0_then c (i :: 0%N :: p)) by (apply Hns; exact Hx).
    rewrite (Htok x _ Hx) by (apply S0_stops; reflexivity). cbn [bind]. rewrite (S0_then c (i :: 1%N :: p)) by reflexivity.
    change (c_bar =? c_rpar)%N with false. rewrite N.eqb_refl. cbv iota.
    assert (IH' := IH (i + 1)%N T f ltac:(discriminate) Hl ltac:(cbn [length] in *; lia)). unfold str, char in *. rewrite IH'. reflexivity.
Qed.

Lemma render_alts_len c p : forall l i, Forall (fun x : str => x <> []) l -> length l <= length (render_alts c p i l).
Proof.
  induction l as [|x l IH]; intros i Hl; [cbn; lia|]. inversion Hl as [|? ? Hx Hl']. subst. destruct l as [|y l'].
  - cbn [render_alts length]. unfold str, char in *. rewrite !app_length. destruct x; [now elim Hx|cbn [length]; lia].
  - rewrite render_alts_cons2. unfold str, char in *. rewrite !app_length. cbn [length]. specialize (IH (i + 1)%N Hl'). cbn [length] in IH. lia.
Qed.

Lemma ncnames_nonempty (l : list str) : forallb is_NCName l = true -> Forall (fun x : str => x <> []) l.
Proof. intros H. apply Forall_forall. intros x Hx. rewrite forallb_forall in H. specialize (H x Hx). destruct x; [discriminate|discriminate]. Qed.
Lemma nmtokens_nonempty (l : list str) : forallb is_Nmtoken l = true -> Forall (fun x : str => x <> []) l.
Proof. intros H. apply Forall_forall. intros x Hx. rewrite forallb_forall in H. specialize (H x Hx). destruct x; [discriminate|discriminate]. Qed.

Definition atttype_ok (ty : atttype) : bool :=
  match ty with
  | ATNotation l => Nat.leb 1 (length l) && forallb is_NCName l
  | ATEnum l => Nat.leb 1 (length l) && forallb is_Nmtoken l
  | _ => true
  end.

Lemma atttype_reads c p ty w (Y : str) fuel : atttype_ok ty = true -> isS w = true -> length (render_atttype c p ty) <= fuel ->
  p_AttType fuel (render_atttype c p ty ++ w :: Y) = Some (ty, w :: Y).
Proof.
  intros Hok Hw Hf. destruct ty as [| | | | | | | |l|l]; cbn [render_atttype];
    try (destruct (isS_cases w Hw) as [-> | [-> | [-> | ->]]]; reflexivity).
  - cbn [atttype_ok] in Hok. apply andb_true_iff in Hok. destruct Hok as [Hlen Hl]. apply Nat.leb_le in Hlen.
    assert (Ha : p_alts fuel p_Name (render_alts c (1%N :: p) 0 l ++ c_rpar :: w :: Y) = Some (l, w :: Y)).
    { apply (alts_read p_Name is_NCName c (1%N :: p)); [| | |exact Hl|].
      - intros x X Hx HX. apply p_Name_app; [apply NCName_Name; exact Hx|exact HX].
      - intros x X Hx. apply name_nonS. apply NCName_Name. exact Hx.
      - destruct l; [cbn in Hlen; lia|discriminate].
      - cbn [render_atttype] in Hf. unfold str, char in *. rewrite !app_length in Hf. cbn [length] in Hf. rewrite app_length in Hf.
        pose proof (render_alts_len c (1%N :: p) l 0%N (ncnames_nonempty l Hl)). unfold str, char in *. lia. }
    rewrite <- !app_assoc. cbn [app].
    assert (E : forall Z, p_AttType fuel (s_NOTATION ++ Z) = bind (p_S Z) (fun r1 => match r1 with
        | c0 :: t => if (c0 =? c_lpar)%N then bind (p_alts fuel p_Name t) (fun '(l0, rest) => Some (ATNotation l0, rest)) else None
        | [] => None end)) by reflexivity.
    rewrite E. rewrite (p_S_S1 c (0%N :: p)) by reflexivity. cbn [bind]. rewrite N.eqb_refl. unfold str, char in *. rewrite <- ?app_assoc. cbn [app]. rewrite Ha. reflexivity.
  - cbn [atttype_ok] in Hok. apply andb_true_iff in Hok. destruct Hok as [Hlen Hl]. apply Nat.leb_le in Hlen.
    assert (Ha : p_alts fuel p_Nmtoken (render_alts c (1%N :: p) 0 l ++ c_rpar :: w :: Y) = Some (l, w :: Y)).
    { apply (alts_read p_Nmtoken is_Nmtoken c (1%N :: p)); [| | |exact Hl|].
      - intros x X Hx HX. apply nmtoken_reads; assumption.
      - intros x X Hx. unfold is_Nmtoken in Hx. destruct x as [|a x]; [discriminate|]. cbn [forallb] in Hx. apply andb_true_iff in Hx. destruct Hx as [Ha _].
        cbn [app nonS]. destruct (isS a) eqn:E0; [|reflexivity]. apply isS_not_namechar in E0. congruence.
      - destruct l; [cbn in Hlen; lia|discriminate].
      - cbn [render_atttype] in Hf. cbn [length] in Hf. unfold str, char in *. rewrite app_length in Hf.
        pose proof (render_alts_len c (1%N :: p) l 0%N (nmtokens_nonempty l Hl)). unfold str, char in *. lia. }
    cbn [app].
    assert (E : forall Z, p_AttType fuel (c_lpar :: Z) = bind (p_alts fuel p_Nmtoken Z) (fun '(l0, rest) => Some (ATEnum l0, rest))) by reflexivity.
    rewrite E. unfold str, char in *. rewrite <- ?app_assoc. cbn [app]. rewrite Ha. reflexivity.
Qed.

(** ** [60] DefaultDecl *)
Definition default_read (df : adefault) (d' : attdefault) : Prop :=
  match df with
  | DfRequired => d' = ADRequired
  | DfImplied => d' = ADImplied
  | DfValue f v => exists q c p i, quote q /\ d' = ADValue f (items_pieces q c p i v)
  end.
Definition default_ok (df : adefault) : bool := match df with DfValue _ v => items_ok v | _ => true end.

Lemma att_literal_len c p v : S (S (items_size v)) <= length (att_literal c p v).
Proof.
  unfold att_literal. cbv zeta. cbn [length]. rewrite app_length. cbn [length].
  match goal with |- context [lit_items c ?pp ?esc true 0%N v] => pose proof (lit_items_len c pp esc true v 0%N) end. unfold str, char in *. lia.
Qed.

Lemma att_literal_nonS c p v X : nonS (att_literal c p v ++ X).
Proof. unfold att_literal. cbv zeta. cbn [app nonS]. destruct (N.eqb _ _); reflexivity. Qed.

Lemma render_default_nonS c p df X : nonS (render_default c p df ++ X).
Proof. destruct df as [| |[|] v]; cbn [render_default]; try reflexivity. apply att_literal_nonS. Qed.

Lemma default_reads c p df T fuel : default_ok df = true -> length (render_default c p df) <= fuel ->
  exists d', default_read df d' /\ p_DefaultDecl fuel (render_default c p df ++ T) = Some (d', T).
Proof.
  intros Hok Hf. destruct df as [| |[|] v]; cbn [render_default default_ok] in *.
  - exists ADRequired. split; [reflexivity|]. unfold p_DefaultDecl. rewrite strip_app. reflexivity.
  - exists ADImplied. split; [reflexivity|]. unfold p_DefaultDecl. change (strip s_REQUIRED (s_IMPLIED ++ T)) with (@None str). rewrite strip_app. reflexivity.
  - destruct (att_literal_reads_back_fuel c (1%N :: p) v Hok) as (q & Hq & Hval).
    exists (ADValue true (items_pieces q c (1%N :: 1%N :: p) 0 v)). split; [cbn [default_read]; exists q, c, (1%N :: 1%N :: p), 0%N; auto|].
    rewrite <- !app_assoc. unfold p_DefaultDecl. change (strip s_REQUIRED (s_FIXED ++ ?X)) with (@None str).
    change (strip s_IMPLIED (s_FIXED ++ ?X)) with (@None str). rewrite strip_app.
    rewrite (p_S_S1 c (0%N :: p)) by apply att_literal_nonS. cbn [bind].
    rewrite !app_length in Hf. pose proof (att_literal_len c (1%N :: p) v) as Hl.
    specialize (Hval T (fuel - S (items_size v))). replace (S (items_size v) + (fuel - S (items_size v))) with fuel in Hval by lia.
    unfold str, char in *. rewrite Hval. reflexivity.
  - destruct (att_literal_reads_back_fuel c (1%N :: p) v Hok) as (q & Hq & Hval).
    exists (ADValue false (items_pieces q c (1%N :: 1%N :: p) 0 v)). split; [cbn [default_read]; exists q, c, (1%N :: 1%N :: p), 0%N; auto|].
    pose proof (att_literal_len c (1%N :: p) v) as Hl.
    specialize (Hval T (fuel - S (items_size v))). replace (S (items_size v) + (fuel - S (items_size v))) with fuel in Hval by lia.
    unfold p_DefaultDecl.
    assert (E : forall pat, (pat = s_REQUIRED \/ pat = s_IMPLIED \/ pat = s_FIXED) -> strip pat (att_literal c (1%N :: p) v ++ T) = None).
    { intros pat Hp. unfold att_literal. cbv zeta. destruct (N.eqb _ _); destruct Hp as [-> | [-> | ->]]; reflexivity. }
    rewrite !E by auto. unfold str, char in *. rewrite Hval. reflexivity.
Qed.

(** ** [52]-[53] AttlistDecl *)
Fixpoint render_attdefs (c : choices) (p : list N) (i : N) (l : list (str * atttype * adefault)) : str :=
  match l with
  | [] => []
  | (nm, ty, df) :: t =>
    S1 c (i :: 1%N :: p) ++ nm ++ S1 c (i :: 2%N :: p) ++ render_atttype c (i :: 3%N :: p) ty
    ++ S1 c (i :: 4%N :: p) ++ render_default c (i :: 5%N :: p) df ++ render_attdefs c p (i + 1) t
  end.

Definition attdef_okb (a : str * atttype * adefault) : bool :=
  let '(nm, ty, df) := a in is_QName nm && atttype_ok ty && default_ok df.
Definition attdef_read (a : str * atttype * adefault) (a' : str * atttype * attdefault) : Prop :=
  let '(nm, ty, df) := a in let '(nm', ty', df') := a' in nm' = nm /\ ty' = ty /\ default_read df df'.

Lemma render_atttype_nonS c p ty X : nonS (render_atttype c p ty ++ X).
Proof. destruct ty; reflexivity. Qed.

Lemma attdefs_read c p : forall l i T fuel, forallb attdef_okb l = true -> length (render_attdefs c p i l) < fuel ->
  exists l', Forall2 attdef_read l l' /\
    p_attdefs fuel (render_attdefs c p i l ++ S0 c (6%N :: p) ++ c_gt :: T) = Some (l', T).
Proof.
  induction l as [|[[nm ty] df] l IH]; intros i T fuel Hok Hf.
  - exists []. split; [constructor|]. destruct fuel as [|f]; [lia|]. cbn [render_attdefs app p_attdefs].
    rewrite S0_then by reflexivity. reflexivity.
  - cbn [forallb attdef_okb] in Hok. apply andb_true_iff in Hok. destruct Hok as [Ha Hl]. apply andb_true_iff in Ha. destruct Ha as [Ha Hdf].
    apply andb_true_iff in Ha. destruct Ha as [Hn Hty]. apply QName_Name in Hn.
    destruct fuel as [|f]; [lia|]. cbn [render_attdefs] in *. rewrite !app_length in Hf.
    destruct (IH (i + 1)%N T f Hl ltac:(pose proof (S1_len c (i :: 1%N :: p)); unfold str, char in *; lia)) as (l' & Hl' & Hp).
    destruct (default_reads c (i :: 5%N :: p) df (render_attdefs c p (i + 1) l ++ S0 c (6%N :: p) ++ c_gt :: T) f Hdf ltac:(unfold str, char in *; lia)) as (d' & Hd' & Hpd).
    exists ((nm, ty, d') :: l'). split; [constructor; [cbn [attdef_read]; auto|exact Hl']|].
    rewrite <- !app_assoc. cbn [p_attdefs].
    set (R := nm ++ S1 c (i :: 2%N :: p) ++ render_atttype c (i :: 3%N :: p) ty ++ S1 c (i :: 4%N :: p) ++
              render_default c (i :: 5%N :: p) df ++ render_attdefs c p (i + 1) l ++ S0 c (6%N :: p) ++ c_gt :: T).
    assert (HR : nonS R) by (apply name_nonS; exact Hn).
    assert (Hsk : skipS (S1 c (i :: 1%N :: p) ++ R) = R) by (apply skipS_run; [apply S1_S|exact HR]).
    pose proof (p_S_S1 c (i :: 1%N :: p) R HR) as HpS1. unfold str, char in *. rewrite Hsk. rewrite HpS1. cbn [bind].
    unfold R at 1. destruct (name_head nm Hn) as (x & t & En & Hx). destruct (nsc_facts x Hx) as (_ & Hxgt & _ & _).
    rewrite En at 1. cbn [app]. rewrite Hxgt. unfold R. rewrite (name_then_S1 nm c (i :: 2%N :: p) _ Hn). cbn [bind].
    rewrite (p_S_S1 c (i :: 2%N :: p)) by apply render_atttype_nonS. cbn [bind].
    pose proof (S1_ne c (i :: 4%N :: p)) as Hne. pose proof (S1_S c (i :: 4%N :: p)) as HS.
    pose proof (p_S_S1 c (i :: 4%N :: p) (render_default c (i :: 5%N :: p) df ++ render_attdefs c p (i + 1) l ++ S0 c (6%N :: p) ++ c_gt :: T) (render_default_nonS _ _ _ _)) as HpS.
    destruct (S1 c (i :: 4%N :: p)) as [|w ws]; [now elim Hne|]. cbn [forallb] in HS. apply andb_true_iff in HS. destruct HS as [Hw _].
    cbn [app] in *. unfold str, char in *. rewrite (atttype_reads c (i :: 3%N :: p) ty w _ f Hty Hw ltac:(unfold str, char in *; cbn [length] in *; lia)). cbn [bind].
    unfold str, char in *. rewrite HpS. cbn [bind]. rewrite Hpd. cbn [bind]. rewrite Hp. reflexivity.
Qed.

Lemma markupdecl_attlist_eq fuel r : p_markupdecl fuel (s_attlist ++ r) =
  bind (p_S r) (fun r1 => bind (p_Name r1) (fun '(nm, r2) => bind (p_attdefs fuel r2) (fun '(l, r3) => Some (DAttlist nm l, r3)))).
Proof. unfold p_markupdecl. change (strip s_element (s_attlist ++ r)) with (@None str). rewrite strip_app. reflexivity. Qed.

Lemma render_attlist_eq c p el defs : render_decl c p (ADAttlist el defs) =
  s_attlist ++ S1 c (0%N :: p) ++ el ++ render_attdefs c p 0 defs ++ S0 c (6%N :: p) ++ [c_gt].
Proof.
  cbn [render_decl]. do 3 f_equal. f_equal. generalize 0%N. induction defs as [|[[nm ty] df] l IH]; intros i; [reflexivity|].
  cbn [render_attdefs]. rewrite <- IH. reflexivity.
Qed.

Theorem attlist_decl_reads c p el defs T fuel : is_QName el = true -> forallb attdef_okb defs = true ->
  length (render_decl c p (ADAttlist el defs)) <= fuel ->
  exists l', Forall2 attdef_read defs l' /\
    p_markupdecl fuel (render_decl c p (ADAttlist el defs) ++ T) = Some (DAttlist el l', T).
Proof.
  intros Hn Hd Hf. apply QName_Name in Hn. rewrite render_attlist_eq in *. rewrite !app_length in Hf.
  destruct (attdefs_read c p defs 0%N T fuel Hd ltac:(unfold s_attlist in Hf; cbn [length] in Hf; unfold str, char in *; lia)) as (l' & Hl' & Hp).
  exists l'. split; [exact Hl'|]. rewrite <- !app_assoc. rewrite markupdecl_attlist_eq.
  rewrite (p_S_S1 c (0%N :: p)) by (apply name_nonS; exact Hn). cbn [bind].
  assert (En : p_Name (el ++ render_attdefs c p 0 defs ++ S0 c (6%N :: p) ++ [c_gt] ++ T) = Some (el, render_attdefs c p 0 defs ++ S0 c (6%N :: p) ++ [c_gt] ++ T)).
  { apply p_Name_app; [exact Hn|]. destruct defs as [|[[nm ty] df] l].
    - cbn [render_attdefs app]. apply S0_stops. reflexivity.
    - cbn [render_attdefs]. rewrite <- !app_assoc. pose proof (S1_ne c (0%N :: 1%N :: p)) as Hne. pose proof (S1_S c (0%N :: 1%N :: p)) as HS.
      destruct (S1 c (0%N :: 1%N :: p)) as [|w ws]; [now elim Hne|]. cbn [app stops_name]. apply isS_not_namechar. cbn [forallb] in HS. apply andb_true_iff in HS. tauto. }
  unfold str, char in *. rewrite En. cbn [bind]. cbn [app] in *. rewrite Hp. reflexivity.
Qed.
