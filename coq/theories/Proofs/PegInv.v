(** * Inversion of successful PEG runs (used by the converse direction of C04).

    [succ G e s t r]: the big-step relation "[e] on [s] can return the tree [t] and the rest [r]",
    with the positive facts each combinator guarantees (what was matched, that character runs are
    maximal, that every repetition step made progress) and WITHOUT the negative ones (that an
    earlier alternative failed, that the repetition could not go on).  [denote_succ]: every
    successful [denote] run is such a derivation; Coq's [inversion] on a derivation of a concrete
    production then yields its components. *)
From Coq Require Import List NArith Arith Lia Bool.
From XmlRs Require Import Base.CPred Model.Peg Proofs.PegTermination Proofs.PegLemmas.
Import ListNotations.
Local Open Scope nat_scope.

Section S.
Variable G : list pexpr.

Inductive succ : pexpr -> str -> tree -> str -> Prop :=
| s_tag a (s r : str) : s = a ++ r -> succ (Tag a) s (TStr a) r
| s_chars0 p (s a r : str) : s = a ++ r -> forallb (eval p) a = true -> stops (eval p) r -> succ (Chars0 p) s (TStr a) r
| s_chars1 p (s a r : str) : s = a ++ r -> a <> [] -> forallb (eval p) a = true -> stops (eval p) r -> succ (Chars1 p) s (TStr a) r
| s_seq a b s ta r1 tb r2 : succ a s ta r1 -> succ b r1 tb r2 -> succ (Seq a b) s (TPair ta tb) r2
| s_seql a b s ta r1 tb r2 : succ a s ta r1 -> succ b r1 tb r2 -> succ (SeqL a b) s ta r2
| s_seqr a b s ta r1 tb r2 : succ a s ta r1 -> succ b r1 tb r2 -> succ (SeqR a b) s tb r2
| s_alt_l a b s t r : succ a s t r -> succ (Alt a b) s t r
| s_alt_r a b s t r : succ b s t r -> succ (Alt a b) s t r
| s_many0 e s ts r : succ_many e s ts r -> succ (Many0 e) s (TList ts) r
| s_many1 e s t r1 ts r : succ e s t r1 -> succ_many e r1 ts r -> succ (Many1 e) s (TList (t :: ts)) r
| s_opt_some e s t r : succ e s t r -> succ (Opt e) s (TSome t) r
| s_opt_none e s : succ (Opt e) s TNone s
| s_recognize e (s c r : str) t : s = c ++ r -> succ e s t r -> succ (Recognize e) s (TStr c) r
| s_map l e s t r : succ e s t r -> succ (Map l e) s (TMap l t) r
| s_take_until_none e pat (s v r : str) t : s = v ++ r -> succ e s t r -> find_sub pat v = None ->
    succ (TakeUntil e pat) s (TStr v) r
| s_take_until_cut e pat (s v r : str) t i : s = v ++ r -> succ e s t r -> find_sub pat v = Some i ->
    succ (TakeUntil e pat) s (TStr (firstn i s)) (skipn i s)
| s_take_except e pat (s v r : str) t : s = v ++ r -> succ e s t r -> ci_reject pat v = false ->
    succ (TakeExcept e pat) s (TStr v) r
| s_verify p1 p2 e s t r : succ e s t r -> verify_eq p1 p2 t = true -> succ (VerifyEq p1 p2 e) s t r
| s_nt n s t r : succ (body G n) s t r -> (exists f, denote G f (NT n) s = Ok (t, r)) -> succ (NT n) s t r
with succ_many : pexpr -> str -> list tree -> str -> Prop :=
| sm_stop e s : succ_many e s [] s
| sm_step e s t r1 ts r : succ e s t r1 -> length r1 < length s -> succ_many e r1 ts r -> succ_many e s (t :: ts) r.

(** the consumed part: [s = c ++ r] *)
Lemma span_decomp f (s : str) : exists a b : str, span f s = (a, b) /\ s = a ++ b /\ forallb f a = true /\ stops f b.
Proof.
  induction s as [|c s [a [b [E [-> [Ha Hb]]]]]].
  - exists [], []. repeat split.
  - cbn [span]. destruct (f c) eqn:Ec.
    + rewrite E. exists (c :: a), b. repeat split; [cbn [forallb]; rewrite Ec, Ha; reflexivity|exact Hb].
    + exists [], (c :: a ++ b). repeat split. exact Ec.
Qed.

Lemma prefix_decomp (a s r : str) : prefix a s = Some r -> s = a ++ r.
Proof.
  revert s. induction a as [|x a IH]; intros s H; cbn [prefix] in H.
  - injection H as <-. reflexivity.
  - destruct s as [|y s]; [discriminate|]. destruct (N.eqb_spec x y) as [<-|]; [|discriminate].
    cbn [app]. f_equal. apply IH. exact H.
Qed.

Lemma consumed_decomp (s r : str) : length r <= length s -> (exists c, s = c ++ r) -> s = consumed s r ++ r.
Proof.
  intros _ [c ->]. rewrite consumed_app. reflexivity.
Qed.

Definition suffix_of (r s : str) : Prop := exists c : str, s = c ++ r.

Lemma suffix_refl s : suffix_of s s. Proof. exists []. reflexivity. Qed.
Lemma suffix_trans a b c : suffix_of a b -> suffix_of b c -> suffix_of a c.
Proof. intros [x ->] [y ->]. exists (y ++ x). rewrite app_assoc. reflexivity. Qed.

Lemma many_loop_succ (p : str -> res (tree * str)) (e : pexpr) :
  (forall s t r, p s = Ok (t, r) -> succ e s t r /\ suffix_of r s) ->
  forall k s acc t r, many_loop k p s acc = Ok (t, r) ->
    exists ts, t = TList (rev acc ++ ts) /\ succ_many e s ts r /\ suffix_of r s.
Proof.
  intros Hp. induction k as [|k IH]; intros s acc t r H; cbn [many_loop] in H; [discriminate|].
  destruct (p s) as [[t1 r1]| |] eqn:E; try discriminate.
  - destruct (length r1 <? length s) eqn:L; [|discriminate]. apply Nat.ltb_lt in L.
    destruct (Hp _ _ _ E) as [Hs Hsuf]. destruct (IH _ _ _ _ H) as [ts [-> [Hm Hsuf2]]].
    exists (t1 :: ts). split; [cbn [rev]; rewrite <- app_assoc; reflexivity|]. split.
    + econstructor; eassumption.
    + eapply suffix_trans; eassumption.
  - injection H as <- <-. exists []. split; [rewrite app_nil_r; reflexivity|]. split; [constructor|apply suffix_refl].
Qed.

Scheme succ_mind := Induction for succ Sort Prop
  with succ_many_mind := Induction for succ_many Sort Prop.

(** what a successful run leaves is a suffix of its input *)
Lemma succ_suffix : forall e s t r, succ e s t r -> suffix_of r s.
Proof.
  apply (succ_mind (fun e s t r _ => suffix_of r s) (fun e s ts r _ => suffix_of r s)); intros; subst;
    try (eexists; reflexivity); try assumption; try (eapply suffix_trans; eassumption).
  - apply suffix_refl.
  - eexists. symmetry. apply firstn_skipn.
  - apply suffix_refl.
Qed.

Lemma suffix_length (r s : str) : suffix_of r s -> length r <= length s.
Proof. intros [c ->]. rewrite app_length. lia. Qed.

(** the XML grammar does not use separated_list; the inversion is stated for such grammars *)
Fixpoint nosep (e : pexpr) : bool :=
  match e with
  | SepBy0 _ _ | SepBy1 _ _ => false
  | Seq a b | SeqL a b | SeqR a b | Alt a b => nosep a && nosep b
  | Many0 e | Many1 e | Opt e | Recognize e | Map _ e | TakeUntil e _ | TakeExcept e _ | VerifyEq _ _ e => nosep e
  | Tag _ | Chars0 _ | Chars1 _ | NT _ => true
  end.

Definition good (p : str -> res (tree * str)) (e : pexpr) : Prop :=
  forall s t r, p s = Ok (t, r) -> succ e s t r /\ suffix_of r s.

Lemma den_succ_aux f :
  (forall n, good (callnt G f n) (NT n)) -> forall e, nosep e = true -> good (denote G f e) e.
Proof.
  intros Hnt. induction e; intros Hns inp t r H; rewrite (denote_eq G f) in H; cbn [Peg.den1 nosep] in *;
    try (apply andb_prop in Hns; destruct Hns as [Hns1 Hns2]).
  - destruct (prefix s inp) as [r0|] eqn:E; [|discriminate]. injection H as <- <-.
    split; [constructor; apply prefix_decomp; exact E|exists s; apply prefix_decomp; exact E].
  - destruct (span_decomp (eval p) inp) as [a [b [E [-> [Ha Hb]]]]]. rewrite E in H. injection H as <- <-.
    split; [econstructor; [reflexivity|assumption|assumption]|eexists; reflexivity].
  - destruct (span_decomp (eval p) inp) as [a [b [E [-> [Ha Hb]]]]]. rewrite E in H. destruct a as [|c a]; [discriminate|].
    injection H as <- <-. split; [econstructor; [reflexivity|discriminate|assumption|assumption]|eexists; reflexivity].
  - destruct (Peg.denote G f e1 inp) as [[ta r1]| |] eqn:E1; try discriminate. cbn [bind fst snd] in H.
    destruct (Peg.denote G f e2 r1) as [[tb r2]| |] eqn:E2; try discriminate. cbn [bind fst snd] in H. injection H as <- <-.
    destruct (IHe1 Hns1 _ _ _ E1), (IHe2 Hns2 _ _ _ E2). split; [econstructor; eassumption|eapply suffix_trans; eassumption].
  - destruct (Peg.denote G f e1 inp) as [[ta r1]| |] eqn:E1; try discriminate. cbn [bind fst snd] in H.
    destruct (Peg.denote G f e2 r1) as [[tb r2]| |] eqn:E2; try discriminate. cbn [bind fst snd] in H. injection H as <- <-.
    destruct (IHe1 Hns1 _ _ _ E1), (IHe2 Hns2 _ _ _ E2). split; [econstructor; eassumption|eapply suffix_trans; eassumption].
  - destruct (Peg.denote G f e1 inp) as [[ta r1]| |] eqn:E1; try discriminate. cbn [bind fst snd] in H.
    destruct (Peg.denote G f e2 r1) as [[tb r2]| |] eqn:E2; try discriminate. cbn [bind fst snd] in H. injection H as <- <-.
    destruct (IHe1 Hns1 _ _ _ E1), (IHe2 Hns2 _ _ _ E2). split; [econstructor; eassumption|eapply suffix_trans; eassumption].
  - destruct (Peg.denote G f e1 inp) as [[ta r1]| |] eqn:E1; try discriminate.
    + injection H as <- <-. destruct (IHe1 Hns1 _ _ _ E1). split; [apply s_alt_l; assumption|assumption].
    + destruct (IHe2 Hns2 _ _ _ H). split; [apply s_alt_r; assumption|assumption].
  - destruct (many_loop_succ _ e (IHe Hns) _ _ _ _ _ H) as [ts [-> [Hm Hs]]]. split; [constructor; exact Hm|exact Hs].
  - destruct (Peg.denote G f e inp) as [[t1 r1]| |] eqn:E1; try discriminate. cbn [bind fst snd] in H.
    destruct (IHe Hns _ _ _ E1) as [H1 S1]. destruct (many_loop_succ _ e (IHe Hns) _ _ _ _ _ H) as [ts [-> [Hm Hs]]].
    split; [econstructor; eassumption|eapply suffix_trans; eassumption].
  - destruct (Peg.denote G f e inp) as [[t1 r1]| |] eqn:E1; try discriminate.
    + injection H as <- <-. destruct (IHe Hns _ _ _ E1). split; [constructor; assumption|assumption].
    + injection H as <- <-. split; [constructor|apply suffix_refl].
  - discriminate.
  - discriminate.
  - destruct (Peg.denote G f e inp) as [[t1 r1]| |] eqn:E1; try discriminate. cbn [bind fst snd] in H. injection H as <- <-.
    destruct (IHe Hns _ _ _ E1) as [H1 [c ->]]. rewrite consumed_app. split; [econstructor; [reflexivity|exact H1]|eexists; reflexivity].
  - destruct (Peg.denote G f e inp) as [[t1 r1]| |] eqn:E1; try discriminate. cbn [bind fst snd] in H. injection H as <- <-.
    destruct (IHe Hns _ _ _ E1). split; [constructor; assumption|assumption].
  - destruct (Peg.denote G f e inp) as [[t1 r1]| |] eqn:E1; try discriminate. cbn [bind fst snd] in H.
    destruct (IHe Hns _ _ _ E1) as [H1 [c ->]]. rewrite consumed_app in H. destruct (find_sub pat c) as [i|] eqn:Ef.
    + injection H as <- <-. split; [eapply s_take_until_cut; [reflexivity|eassumption|eassumption]|].
      exists (firstn i (c ++ r1)). symmetry. apply firstn_skipn.
    + injection H as <- <-. split; [eapply s_take_until_none; [reflexivity|eassumption|eassumption]|eexists; reflexivity].
  - destruct (Peg.denote G f e inp) as [[t1 r1]| |] eqn:E1; try discriminate. cbn [bind fst snd] in H.
    destruct (IHe Hns _ _ _ E1) as [H1 [c ->]]. rewrite consumed_app in H. destruct (ci_reject pat c) eqn:Ec; [discriminate|].
    injection H as <- <-. split; [eapply s_take_except; [reflexivity|eassumption|eassumption]|eexists; reflexivity].
  - destruct (Peg.denote G f e inp) as [[t1 r1]| |] eqn:E1; try discriminate. cbn [bind fst snd] in H.
    destruct (verify_eq p1 p2 t1) eqn:Ev; [|discriminate]. injection H as <- <-.
    destruct (IHe Hns _ _ _ E1). split; [constructor; assumption|assumption].
  - apply Hnt. exact H.
Qed.

Hypothesis G_nosep : forallb nosep G = true.

Lemma body_nosep n : nosep (body G n) = true.
Proof.
  unfold body. destruct (Nat.lt_ge_cases n (length G)) as [L|L].
  - rewrite forallb_forall in G_nosep. apply G_nosep. apply nth_In. exact L.
  - rewrite nth_overflow by exact L. reflexivity.
Qed.

Theorem denote_succ : forall f e, nosep e = true -> good (denote G f e) e.
Proof.
  induction f as [|f IH]; intros e He; apply den_succ_aux; try exact He.
  - intros n s t r H. cbn [callnt] in H. discriminate.
  - intros n s t r H. cbn [callnt] in H. destruct (IH (body G n) (body_nosep n) s t r H) as [H1 H2].
    split; [constructor; [exact H1|exists (Datatypes.S f); rewrite (denote_eq G); exact H]|exact H2].
Qed.

End S.
