"""Shared by C13 / C15: the DOM Level 1 oracle (extracted Spec/DomL1.v, driver ocaml/specdomains/dom/dom.ml)
evaluated call by call on the implementation's own states, failure atomicity, no-panic, and the
re-parse oracle of C15.  Builds on checks/domlib.py (case builder, generators, shrinking).

The implementation is run with the view suffix `+x` (harness/src/domains/dom.rs): every dump then also
carries the owner document and qualified name of every handle (`X` words) and, per document, the
result of re-parsing its serialisation (`R` words).  For every call of a history the abstract state
BEFORE the call is rebuilt from the implementation's previous dump, `dom_step` is applied to it once,
and the result class and the abstract state are compared with what the implementation reports after
the call -- this is the statement `step_refines` of Properties/C13.v, checked on reachable states of
the real code; a deviation does not derail the rest of the history."""
import hashlib, json, os, random, re, time
from . import lib, domlib as D

enc, dec = lib.enc, lib.dec
CHARDATA = ('tx', 'cd', 'cm', 'pi')

class Rec2(D.Rec):
    """a record of an extended dump: the plain part is parsed by domlib.Rec"""
    def __init__(self, text):
        head, sep, d = text.partition(' # ')
        plain, self.x, self.r = [], {}, {}
        for w in d.split(' ') if d else []:
            if w and w[0] == 'X' and '=' in w:
                k, _, v = w.partition('=')
                dd, _, q = v.partition('/')
                self.x[int(k[1:])] = (int(dd), None if q == '~' else dec(q))
            elif w and w[0] == 'R' and '=' in w:
                k, _, v = w.partition('=')
                self.r[int(k[1:])] = v
            else:
                plain.append(w)
        self.plain_dump = ' '.join(plain)
        D.Rec.__init__(self, head + sep + self.plain_dump)
        self.ext_dump = d

def canon(rec, override=None):
    """the abstract state of a dump, in the format of the spec driver (`override`: see spec_normalize)"""
    out = []
    for h in sorted(rec.nodes):
        n = rec.nodes[h]
        if override and h in override:
            n = override[h]
        k = n.kind
        if k in ('el', 'at'):
            q = rec.x.get(h, (0, None))[1]
            name = enc(q) if q is not None else n.name
        elif k in ('pi', 'er', 'dt'):
            name = n.name
        elif k == 'cr':
            s = dec(n.name)
            name = enc(s[1:-1])
        else:
            name = '-'
        data = (n.data if n.data not in ('~', '!') else '-') if k in CHARDATA else '~'
        def hs(x):
            if x is None: return '~'
            if isinstance(x, tuple): return '*%d' % x[1]
            return str(x)
        p = '~' if k == 'at' else hs(n.p)
        c = '.'.join(hs(x) for x in n.c) if n.c else '-'
        a = sorted((n.a or []) + (n.n or [])) if k == 'el' else []
        a = '.'.join(str(x) for x in a) if a else '-'
        ow = hs(n.ow) if k == 'at' else '~'
        out.append('%d=%s/%s/%s/p=%s/c=%s/a=%s/ow=%s' % (h, k, name, data, p, c, a, ow))
    return ' '.join(out)

def ent_words(line):
    """E words for the spec driver from the description in record 0: entities of every document type"""
    out = []
    for w in D.init_desc(line).split(' '):
        if w.startswith('I'):
            f = w.split(':')
            if f[2] == 'dt' and f[9] != '~':
                items = []
                for e in f[9].split('.'):
                    s = dec(e)
                    items.append('%s:%d' % ((enc(s[1:]), 0) if s.startswith('\0') else (e, 1)))
                out.append('E%s=%s' % (f[0][1:], ';'.join(items)))
    return out

def notation_words(line):
    """N words for the spec driver (ops TS / TSI on the read-only notations map, Spec/DomL1ReadOnly.v): the names in
    notations() of every document type, from the T words of record 0"""
    out = []
    for w in D.init_desc(line).split(' '):
        if w.startswith('T') and ':' in w:
            k, _, v = w.partition(':')
            out.append('N%s=%s' % (k[1:], v))
    return out

def norm_result(res):
    """implementation result class in the vocabulary of the spec driver"""
    if res in ('err:info', 'err:parse'):
        return 'err:refused'
    return res

def spec_steps(triples, shards=None):
    """triples: list of (ext dump before, op string, E words) -> list of (result, canonical state)"""
    lines = ['%s %s %s' % (op, dump, ' '.join(ew)) for dump, op, ew in triples]
    rc, out = lib.run_bin(lib.spec_bin('dom'), ['domspec'], lines, timeout=1200, shards=shards or min(lib.NPROC, 16))
    res = []
    for l in out:
        head, _, st = l.partition(' # ')
        res.append((head.strip(), st.strip()))
    while len(res) < len(lines):
        res.append(('crash', ''))
    return res

def spec_op(op, view):
    """the op word of a spec driver line.  NZ carries the view of the case as a third field (`NZ:<h>:r` / `NZ:<h>:m`): the
    extracted dom_normalize (Spec/DomL1.v, reading R7) speaks about the raw tree; in the merged-text view the expected state is
    'unchanged' (Properties/C13.v C13_normalize_merged_view, C13_normalize_merged_view_not_raw) -- that reading is applied,
    visibly, by the NZ arm of ocaml/specdomains/dom/dom.ml"""
    w = D.mkop(op)
    if op[0] == 'NZ':
        w += ':' + ('m' if view.startswith('m') else 'r')
    return w

# ------------------------------------------------------------------ Element.normalize (op NZ): the SECOND DOM Level 1 oracle, in python
# The expected answer of an NZ call comes from the extracted specification like that of every other call (spec_steps ->
# ocaml/specdomains/dom/dom.ml -> extracted dom_normalize).  spec_normalize below is kept as an independent second oracle:
# analyse evaluates both on every NZ call and records a disagreement (summary['oracle_disagree']), which checks/C13.py
# reports as a tie break -- it would mean that the transcription dom_normalize, its driver arm or this python reading is wrong.
# "Puts all Text nodes in the full depth of the sub-tree underneath this Element into a normal form where only markup (e.g.,
# tags, comments, processing instructions, CDATA sections, and entity references) separates Text nodes, i.e., there are no
# adjacent Text nodes."  Reading (R4 of Spec/DomL1.v: a string that is no character data is refused): a Text node is merged
# into the Text node in front of it unless the concatenation is not storable ("]]>" would appear, e.g. "]]" in front of ">");
# such a pair stays as it is and the walk goes on from the second node.  In the merged-text view (text_expanded) the child
# lists the API shows hold no Text nodes at all (maximal runs are one ExpandedText each): nothing is to be done.
# The expected state is computed here from the dump BEFORE the call, independently of the model (Model/DomNormalize.v).
def storable_text(s):
    def is_char(c):
        o = ord(c)
        return o in (9, 10, 13) or 0x20 <= o <= 0xD7FF or 0xE000 <= o <= 0xFFFD or 0x10000 <= o <= 0x10FFFF
    return all(is_char(c) and c not in '<&' for c in s) and ']]>' not in s

class _N:
    """a node of the expected state: copy of a dump node with data / parent / child list replaced"""
    def __init__(self, n, data, p, c):
        for f in ('h', 'kind', 'name', 'a', 'n', 'ow'):
            setattr(self, f, getattr(n, f))
        self.data, self.p, self.c = data, p, c

def spec_normalize(prev, op, view):
    """-> (result class, canonical state) DOM Level 1 prescribes for normalize on handle op[1] in the state `prev`"""
    N = prev.nodes
    h = op[1]
    if h not in N or N[h].kind != 'el':
        return ('na', canon(prev))
    if view.startswith('m'):
        return ('ok', canon(prev))
    ov = {}
    def cur(x):
        return ov[x] if x in ov else N[x]
    def go(e, depth):
        if depth > len(N): return
        out, last = [], None
        for c in list(cur(e).c):
            n = N.get(c)
            if n is not None and n.kind == 'tx':
                if last is not None and cur(last).data not in ('~', '!') and n.data not in ('~', '!'):
                    t = dec(cur(last).data) + dec(n.data)
                    if storable_text(t):
                        ov[last] = _N(N[last], enc(t), cur(last).p, cur(last).c)
                        ov[c] = _N(n, n.data, None, n.c)          # removed: no parent, keeps its data
                        continue
                last = c; out.append(c)
            else:
                last = None; out.append(c)
                if n is not None and n.kind == 'el':
                    go(c, depth + 1)
        ov[e] = _N(N[e], cur(e).data, cur(e).p, out)
    go(h, 0)
    return ('ok', canon(prev, ov))

def compare_step(prev, rec, spec_res, spec_state):
    """-> None when the implementation conforms on this call, else (clause, detail)"""
    got = norm_result(rec.result)
    if got == 'panic':
        return ('panic', 'the call panicked (specification: %s)' % spec_res)
    after = canon(rec)
    if spec_res == 'unspecified':
        if after == canon(prev) or after == spec_state:
            return None
        return ('unspecified-state', 'DOM Level 1 is silent on this call; the state is neither unchanged nor the applied one')
    if spec_res == 'crash':
        return ('spec-crash', 'specification driver produced no answer')
    if got != spec_res:
        return ('result', 'implementation answers %s, DOM Level 1 specifies %s' % (rec.result, spec_res))
    if after != spec_state:
        a, b = after.split(' '), spec_state.split(' ')
        diff = [(x, y) for x, y in zip(a, b) if x != y][:3]
        if len(a) != len(b): diff.append(('%d nodes' % len(a), '%d nodes' % len(b)))
        return ('state', 'result %s as specified, but the tree differs: %s' % (got, '; '.join('impl %s / spec %s' % d for d in diff)))
    return None

def atomicity(prev, rec):
    """a failed call leaves everything the dump shows unchanged (plain dump: tree, navigation, data, order ranks, serialisation)"""
    if rec.result.startswith('err:') and rec.plain_dump != prev.plain_dump:
        a, b = prev.plain_dump.split(' '), rec.plain_dump.split(' ')
        diff = [(x, y) for x, y in zip(a, b) if x != y][:2]
        if len(a) != len(b): diff.append(('%d words' % len(a), '%d words' % len(b)))
        def short(w): return w if len(w) < 90 else w[:87] + '...'
        return ('not-atomic', 'the call failed with %s and changed the document: %s' % (rec.result, '; '.join('%s -> %s' % (short(x), short(y)) for x, y in diff)))
    return None

def reparse_violation(rec):
    """C15: after a successful call the serialisation of every document parses and denotes the same content"""
    out = []
    for k, v in sorted(rec.r.items()):
        if v == 'ok:eq':
            continue
        if v.startswith('ok:ne:'):
            _, _, a, b = v.split(':')
            out.append(('content', 'document %d: the DOM reports %s but its serialisation %s parses to %s'
                        % (k, dec(a), dec(rec.serial.get(k, '-')), dec(b))))
        else:
            out.append((v, 'document %d: the parser answers `%s` on the serialisation %r' % (k, v, dec(rec.serial.get(k, '-')))))
    return out

def run_ext(cases, shards=None):
    """cases: list of (docs, ops, view) -> implementation lines with extended dumps"""
    return D.run_impl([D.mkcase(d, o, v + '+x') for d, o, v in cases], shards)

# ------------------------------------------------------------------ histories
RICH3 = '<!DOCTYPE r [<!ENTITY e "v">]><r k="v" p:k="w" xmlns:p="u"><a x="1" p:x="2"><b>t<i/></b>s</a><!--m--><c x="3" xmlns="d"/>w<![CDATA[d]]><?pi z?>&e;&#65;</r>'

def attr_matrix_cases():
    """single attribute calls from a state with same-named attributes on two elements, prefixed attributes,
    namespace declarations, a detached attribute and a detached element with an attribute"""
    docs = [RICH3, D.RICH2]
    pre = [('CA', 0, 'x'), ('CA', 0, 'p:x'), ('CA', 0, 'n'), ('CE', 0, 'de'), ('SA', 0, 'x', 'q')]
    line = run_ext([(docs, pre, 'r')])[0]
    recs = [Rec2(r) for r in line.split(' | ')]
    de = int(recs[4].result[3:])
    pre[4] = ('SA', de, 'x', 'q')
    line = run_ext([(docs, pre, 'r')])[0]
    rec = [Rec2(r) for r in line.split(' | ')][-1]
    N = rec.nodes
    els = [h for h in sorted(N) if N[h].kind == 'el']
    ats = [h for h in sorted(N) if N[h].kind == 'at']
    cases = []
    for e in els:
        for a in ats:
            cases += [('SAN', e, a), ('RAN', e, a), ('NS', e, a)]
        for nm in ('x', 'k', 'p:x', 'p:k', 'xmlns:p', 'xmlns', 'p', 'q:x', 'zz', '1bad', 'a:b:c', ''):
            cases += [('RA', e, nm), ('NR', e, nm)]
            for v in ('v', '', 'a&amp;b', '&e;', '&nope;', 'a<b', '\'"', '&#65;', '&#0;'):
                cases.append(('SA', e, nm, v))
    for a in ats:
        for v in ('nv', '', 'a&lt;b', '&e;', '&nope;', 'a<b', '"', "'", '\'"', '&#x41;z'):
            cases.append(('SV', a, v))
    return docs, pre, cases

# strings for C15: rich in the markup-significant characters
FRAG = [']', ']]', '>', ']]>', '-', '--', '->', '?', '?>', '<', '&', "'", '"', 'a', 'x]', ']x', '-x', 'x-', ' ', 'ab', '', '&amp;', '&#65;',
        'a]]', '>b', '<!--', '-->', '<![CDATA[', 'é', '\u0001', '￾', '\n']
NAMES15 = ['e', 'f', 'n:m', 'xmlns:q', 'xmlns', 'a', 'b-c', 'x.y', '_u', 'é', '1a', '', 'a b', 'a<', 'a:b:c', ':a', 'xml', 'XmL', 'xml-x']

def gen_op15(ch, rng, run):
    """one op of a C15 history: creation, insertion and data-editing calls with hostile strings"""
    N = ch.rec.nodes
    def frag(): return rng.choice(FRAG) if rng.random() < 0.8 else rng.choice(FRAG) + rng.choice(FRAG)
    def name(): return rng.choice(NAMES15)
    def off(): return rng.choice([0, 0, 1, 1, 2, 2, 3, 4, 7, None])
    doc = ch.any(('doc',))
    x = rng.random()
    cd = [h for h in ch.hs if N[h].kind in ('tx', 'cm', 'cd')]
    if x < 0.40 and cd:
        r = rng.choice(cd)
        k = rng.choice(['SD', 'AD', 'AD', 'ID', 'ID', 'DD', 'DD', 'RD', 'RD', 'SV'])
        if k in ('SD', 'AD', 'SV'): return (k, r, frag())
        if k == 'ID': return (k, r, off(), frag())
        if k == 'DD': return (k, r, off(), off())
        return (k, r, off(), off(), frag())
    if x < 0.46:
        tx = [h for h in ch.hs if N[h].kind in ('tx', 'cd')]
        if tx: return ('ST', rng.choice(tx), off())
    if x < 0.58:
        k = rng.choice(['CT', 'CC', 'CD', 'CP', 'CE', 'CA', 'CR'])
        if k in ('CT', 'CC', 'CD'): return (k, doc, frag())
        if k == 'CP': return (k, doc, name(), frag())
        if k == 'CR': return (k, doc, rng.choice(['amp', 'lt', 'e', 'nope', 'quot', 'a;b', '#65', 'amp;x', '#x41;zz', 'e ']))
        return (k, doc, name())
    if x < 0.70:
        els = [h for h in ch.hs if N[h].kind == 'el']
        ats = [h for h in ch.hs if N[h].kind == 'at']
        k = rng.choice(['SA', 'SA', 'SV', 'SAN', 'RA'])
        if k == 'SA' and els: return (k, rng.choice(els), name(), frag())
        if k == 'SV' and ats: return (k, rng.choice(ats), frag())
        if k == 'SAN' and els and ats: return (k, rng.choice(els), rng.choice(ats))
        if els: return ('RA', rng.choice(els), name())
    if x < 0.75:
        pis = [h for h in ch.hs if N[h].kind == 'pi']
        if pis: return ('PD', rng.choice(pis), frag())
    if x < 0.79:
        # an attribute value assembled from several Text children (each storable on its own)
        ats = [h for h in ch.hs if N[h].kind == 'at']
        txd = [h for h in ch.hs if N[h].kind == 'tx' and N[h].p is None]
        if ats and txd: return ('AC', rng.choice(ats), rng.choice(txd))
    # tree edits: mostly attach detached nodes (so that what was created gets printed)
    k = rng.choice(['AC', 'AC', 'AC', 'IB', 'IB', 'RC', 'RM'])
    r = ch.receiver()
    det = [h for h in ch.hs if N[h].p is None and N[h].kind not in ('doc', 'at', 'fr', 'dt')]
    a = rng.choice(det) if det and rng.random() < 0.7 else ch.argument(r, run)
    if k in ('AC', 'RM'):
        if k == 'RM' and N[r].c: a = rng.choice([y for y in N[r].c if y != '?'] or [a])
        return (k, r, a)
    ref = rng.choice([y for y in N[r].c if y != '?']) if N[r].c and rng.random() < 0.8 else ch.argument(r, run)
    return (k, r, a, ref)

DOCS15 = ['<r>t<!--c--><![CDATA[d]]><?p q?><a x="1">u</a></r>',
          '<!DOCTYPE r [<!ENTITY e "v">]><r k="v">a]]x&gt;<!--a-x-b--><![CDATA[a]]x>b]]>&e;<b/></r>',
          '<?xml version="1.0"?><!--h--><r xmlns:n="u"><n:a n:x="1">s</n:a>w<?pi z?></r><!--f-->',
          '<r/>']

def histories15(rng, count, maxlen, chunk=6):
    """C15 histories grown against the implementation (handles and kinds come from its last dump)"""
    st = D.Stats()
    hist = [{'docs': [rng.choice(DOCS15)], 'ops': [], 'len': rng.randint(1, maxlen)} for _ in range(count)]
    for rnd in range((maxlen + chunk - 1) // chunk + 1):
        live = [h for h in hist if len(h['ops']) < h['len']]
        if not live: break
        lines = D.run_impl([D.mkcase(h['docs'], h['ops'], 'r!%d' % len(h['ops'])) for h in live])
        for h, line in zip(live, lines):
            recs = D.parse_line(line)
            if not recs or recs[-1].bad or recs[-1].skipped:
                h['len'] = len(h['ops']); continue
            ch = D.Chooser(recs[-1], rng, {x: 0 for x in recs[-1].nodes})
            for _ in range(min(chunk, h['len'] - len(h['ops']))):
                h['ops'].append(gen_op15(ch, rng, st))
    return [(h['docs'], h['ops'], 'r') for h in hist], st.hist

# ------------------------------------------------------------------ analysis
def kinds_at(rec, op):
    """kinds of the handle arguments of an op in the state `rec`"""
    return tuple(rec.nodes[x].kind if isinstance(x, int) and x in rec.nodes else None for x in op[1:4])

def analyse(cases, lines, tag, summary, c15=True):
    """every call of every history: spec step, atomicity, panic; re-parse after successful calls"""
    H = summary['hist']
    def cnt(k, n=1): H[k] = H.get(k, 0) + n
    steps = []        # (case index, op index, prev, rec)
    uniq = {}         # (prev dump, op) -> index into triples
    triples = []
    for ci, ((docs, ops, view), line) in enumerate(zip(cases, lines)):
        summary['cases'] += 1
        cnt('cases:' + tag)
        if ' # ' not in line:
            summary['crashes'].append({'docs': docs, 'ops': [list(o) for o in ops], 'line': line[:200]})
            continue
        txt = line.split(' | ')
        ew = ent_words(line) + notation_words(line)
        prev = None
        for i, t in enumerate(txt):
            rec = Rec2(t)
            if i > 0 and prev is not None and not prev.skipped and not rec.skipped and not prev.bad and not rec.bad:
                op = ops[i - 1]
                if op[0] != 'Q':
                    # every call, NZ included, is decided by the extracted specification (for NZ the op word carries the view)
                    key = (prev.ext_dump, spec_op(op, view))
                    if key not in uniq:
                        uniq[key] = len(triples)
                        triples.append((prev.ext_dump, key[1], ew))
                    steps.append((ci, i, prev, rec, uniq[key]))
            elif i > 0 and rec.bad:
                summary['c13'].append({'docs': docs, 'ops': [list(o) for o in ops[:i]], 'clause': 'dump', 'detail': 'no dump after the call: ' + str(rec.bad),
                                       'tag': tag, 'op': list(ops[i - 1]), 'impl': rec.result, 'spec': '?', 'kinds': []})
            prev = rec
    out = spec_steps(triples)
    seen13, seen15 = summary['_seen13'], summary['_seen15']
    for ci, i, prev, rec, k in steps:
        docs, ops, view = cases[ci]
        op = ops[i - 1]
        sres, sstate = out[k]
        summary['ops'] += 1
        if op[0] == 'NZ':
            cnt('normalize:calls'); cnt('normalize:view-' + view[0])
            # the second oracle (python, on the same state before the call) must give the same answer
            pres, pstate = spec_normalize(prev, op, view)
            if sres != 'crash':
                cnt('normalize:decided-by-extracted-dom_normalize')
            if (pres, pstate) == (sres, sstate):
                cnt('normalize:oracles-agree')
            else:
                cnt('normalize:oracles-disagree')
                a, b = sstate.split(' '), pstate.split(' ')
                diff = [(x, y) for x, y in zip(a, b) if x != y][:3]
                if len(a) != len(b): diff.append(('%d nodes' % len(a), '%d nodes' % len(b)))
                dis = summary.setdefault('oracle_disagree', [])
                if len(dis) < 20:
                    dis.append({'docs': docs, 'ops': [list(o) for o in ops[:i]], 'view': view, 'op': list(op), 'tag': tag,
                                'extracted': sres, 'python': pres, 'impl': rec.result,
                                'detail': 'extracted dom_normalize answers %s, python spec_normalize answers %s%s'
                                          % (sres, pres, ''.join('; extracted %s / python %s' % d for d in diff))})
            cnt('normalize:' + ('not-applicable' if sres == 'na' else 'merged-something' if sstate != canon(prev) else 'nothing-to-merge'))
        res = rec.result
        cls = res.split(':')[0] + (':' + res.split(':')[1] if res.startswith('err') else '')
        cnt('op:' + op[0]); cnt('result:' + cls); cnt('spec:' + sres.split(':')[0] + (':' + sres.split(':')[1] if sres.startswith('err') else ''))
        if cls != 'na':
            summary['nontrivial'].add(hash((prev.plain_dump, D.mkop(op))))
        vs = []
        v = compare_step(prev, rec, sres, sstate)
        if v: vs.append(v)
        v = atomicity(prev, rec)
        if v: vs.append(v)
        for clause, detail in vs:
            f = {'docs': docs, 'ops': [list(o) for o in ops[:i]], 'clause': clause, 'detail': detail, 'tag': tag,
                 'op': list(op), 'impl': res, 'spec': sres, 'kinds': list(kinds_at(prev, op)), 'view': view}
            fid = classify13(f)
            key = (clause, op[0], cls, sres.split(':')[0], fid and fid[0], tuple(f['kinds'][:2]) if not fid else None)
            summary['n13'][str(fid[0] if fid else 'unlisted')] = summary['n13'].get(str(fid[0] if fid else 'unlisted'), 0) + 1
            if key in seen13: continue
            seen13.add(key)
            summary['c13'].append(f)
        if c15 and (res == 'ok' or res.startswith('ok:')):
            broken_before = {k for k, v in prev.r.items() if v != 'ok:eq'}
            for clause, detail in reparse_violation(rec):
                k = int(detail.split(' ')[1].rstrip(':'))
                feats = features15(rec, k, docs)
                if k in broken_before:
                    # the document was already broken: report this call only if it broke it in a NEW way
                    feats = feats - features15(prev, k, docs)
                    if not feats:
                        cnt('c15:already-broken'); continue
                f = {'docs': docs, 'ops': [list(o) for o in ops[:i]], 'clause': clause, 'detail': detail, 'tag': tag, 'op': list(op), 'impl': res,
                     'kinds': list(kinds_at(prev, op)), 'serial': {k: dec(v) for k, v in rec.serial.items()}, 'feats': sorted(feats), 'view': view}
                fid = classify15(f)
                key = (clause, op[0], fid and fid[0])
                summary['n15'][str(fid[0] if fid else 'unlisted')] = summary['n15'].get(str(fid[0] if fid else 'unlisted'), 0) + 1
                if key in seen15: continue
                seen15.add(key)
                summary['c15'].append(f)

# ------------------------------------------------------------------ known findings (narrow: op + argument shape)
def is_name_start_problem(s):
    """D04: first character is a NameChar but not a NameStartChar, or the string is empty"""
    if s == '': return True
    c = s[0]
    return c in '-.0123456789·' or '̀' <= c <= 'ͯ' or c in '‿⁀'

def classify13(f):
    op, impl, spec, kinds = f['op'], f['impl'], f['spec'], f.get('kinds', [])
    k = op[0]
    if k == 'RM' and kinds and kinds[0] in ('tx', 'cm', 'cd', 'pi') and impl == 'err:HierarchyRequestErr' and spec == 'err:NotFoundErr':
        return ('C13-LEAF-RM', 'remove_child on a Text/Comment/CDATASection/ProcessingInstruction answers HIERARCHY_REQUEST_ERR; DOM Level 1 specifies NOT_FOUND_ERR (oldChild is not a child)')
    if k in ('AC', 'IB', 'RC') and kinds and kinds[0] == 'doc' and kinds[1] in ('el', 'dt') and impl == 'err:HierarchyRequestErr' and spec.startswith('ok'):
        return ('C13-DOC-MOVE', 'the Document refuses to move or replace its document element / document type (HIERARCHY_REQUEST_ERR): the cardinality test counts the node that the call itself takes out')
    if k in ('CT', 'CC', 'CD') and impl == 'panic' and spec == 'err:refused':
        return ('D42', 'argument of create_text_node / create_comment / create_cdata_section is not storable: the factory unwraps the validation result and panics (its signature has no Result)')
    if k == 'NR' and op[2] == 'xmlns' and impl == 'err:NotFoundErr' and spec.startswith('ok:'):
        return ('C13-NS-HIDDEN', 'the default namespace declaration (attribute xmlns) is not in the attributes() map: remove_named_item("xmlns") answers NOT_FOUND_ERR although the element has the attribute')
    if k in ('CP', 'CR') and isinstance(op[2], str) and is_name_start_problem(op[2]) and spec == 'err:InvalidCharacterErr' and impl.startswith(('ok', 'err:info')):
        return ('D04', 'production name/pi_target accepts a string whose first character is a NameChar but not a NameStartChar (or the empty string)')
    return None

PREDEF = ('amp', 'lt', 'gt', 'apos', 'quot')

def restricted_entities(doctext):
    """{name: set of places ('content', 'attribute') where a reference to the entity is NOT allowed}, read from the
    internal subset of the original document: unparsed entities and entities that refer to themselves nowhere;
    external parsed entities and replacement text with '<' not in attribute values; replacement text that is no
    `content` (a lone '<' or '&') not in content"""
    ents = {}
    for m in re.finditer(r'<!ENTITY\s+([^\s%]\S*)\s+(?:(SYSTEM|PUBLIC)\b([^>]*)|"([^"]*)"|\'([^\']*)\')', doctext):
        name, ext, extrest, l1, l2 = m.groups()
        if name in ents: continue
        if ext:
            ents[name] = {'content', 'attribute'} if 'NDATA' in (extrest or '') else {'attribute'}
        else:
            lit = l1 if l1 is not None else l2
            ents[name] = {'lit': lit}
    out = {}
    lits = {n: v['lit'] for n, v in ents.items() if isinstance(v, dict)}
    def reach(n, seen):
        for r in re.findall(r'&([^#;&\s][^;&\s]*);', lits.get(n, '')):
            if r in seen: return True
            if r in lits and reach(r, seen | {r}): return True
        return False
    for n, v in ents.items():
        if not isinstance(v, dict):
            out[n] = v; continue
        lit = v['lit']
        bad = set()
        if reach(n, {n}): bad |= {'content', 'attribute'}
        expanded = re.sub(r'&#(?:x0*3[cC]|0*60);', '<', lit)
        expanded = re.sub(r'&#(?:x0*26|0*38);', '&', expanded)
        if '<' in expanded: bad.add('attribute')
        if re.search(r'<(?![A-Za-z_:!?/])|<[^>]*$|&(?![#A-Za-z_:])|&[^;]*$', expanded): bad.add('content')
        for r in re.findall(r'&([^#;&\s][^;&\s]*);', lit):          # what it refers to is restricted too
            if r in ents and not isinstance(ents[r], dict): bad |= ents[r]
        if bad: out[n] = bad
    return out

def features15(rec, k, docs=None):
    """what is known to make the serialisation of document k unparsable (evaluated on the dump)"""
    N = rec.nodes
    root = None
    for h, n in N.items():
        if n.kind == 'doc' and rec.x.get(h, (None,))[0] == k:
            root = h
    feats = set()
    if root is None:
        return feats
    kids = [x for x in N[root].c if x in N]
    if not any(N[x].kind == 'el' for x in kids):
        feats.add('noroot')
    attached, todo = [], [root]
    while todo:
        h = todo.pop()
        if h not in N: continue
        attached.append(h)
        todo += [x for x in N[h].c if x != '?'] + list(N[h].a or []) + list(N[h].n or [])
    has_dt = any(N[x].kind == 'dt' for x in kids)
    if not has_dt and any(N[h].kind == 'er' and dec(N[h].name) not in PREDEF for h in attached):
        feats.add('nodt-entityref')
    if has_dt and docs and k < len(docs):
        restr = restricted_entities(docs[k])
        for h in attached:
            if N[h].kind == 'er' and dec(N[h].name) in restr:
                up = N[h].p if hasattr(N[h], 'p') else None
                place = 'attribute' if (up in N and N[up].kind == 'at') else 'content'
                if place in restr[dec(N[h].name)]:
                    feats.add('entityref-illegal-here')
    kinds = [N[x].kind for x in kids]
    if 'dt' in kinds and 'el' in kinds and kinds.index('el') < kinds.index('dt'):
        feats.add('element-before-doctype')
    def text_of(h):
        n = N[h]
        if n.kind == 'tx': return dec(n.data) if n.data not in ('~', '!') else ''
        if n.kind == 'cr': return dec(n.name)
        if n.kind == 'er': return '&' + dec(n.name) + ';'
        return None
    for h in attached:
        n = N[h]
        if n.kind == 'el':
            run = []
            for c in list(n.c) + [None]:
                t = text_of(c) if c in N else None
                if t is not None and N[c].kind == 'tx':
                    run.append(t)
                else:
                    if len(run) > 1 and ']]>' in ''.join(run) and not any(']]>' in x for x in run):
                        feats.add('adjacent-text-cdend')
                    run = []
            for c in n.c:
                if c in N and N[c].kind == 'tx' and ']]>' in (text_of(c) or ''):
                    feats.add('text-with-cdend-in-content')
        if n.kind == 'at':
            parts = [text_of(c) or '' for c in n.c if c in N]
            v = ''.join(parts)
            if '"' in v and "'" in v:
                feats.add('attr-both-quotes')
    return feats

def classify15(f):
    """known findings of C15 -> (id, text) or None.  `f['feats']`: features of the broken document"""
    feats = set(f.get('feats', []))
    if f['clause'] in ('noparse', 'rest'):
        if 'noroot' in feats:
            return ('C15-NOROOT', 'the document element was removed (DOM Level 1 allows it): a document without an element has no well-formed serialisation')
        if 'nodt-entityref' in feats:
            return ('C15-DOCTYPE-REMOVED', 'the document type was removed while references to the entities it declares remain in the tree')
        if 'entityref-illegal-here' in feats:
            return ('C15-ENTREF-UNCHECKED', 'an EntityReference node for a declared entity was attached where a reference to that entity is not allowed (unparsed or recursive entity; external entity or replacement text with "<" in an attribute value; replacement text that is no content): create_entity_reference and the insertions do not run the entity checks of the parser')
        if 'adjacent-text-cdend' in feats:
            return ('C15-ADJACENT-TEXT', 'two adjacent Text nodes, each storable, print as character data containing "]]>"')
        if 'text-with-cdend-in-content' in feats:
            return ('C15-ATTR-TEXT-MOVED', 'a Text node holding "]]>" (legal in an attribute value, where it was created) was moved into element content')
        # ('attr-both-quotes' was the class of defect C15-ATTR-QUOTES, repaired by /repo 07dd53f: a fixed entry suppresses
        #  nothing, so there is no classifier for it any more -- seeded change W7-C15-2 was swallowed by the one kept here)
        if 'element-before-doctype' in feats:
            return ('C15-ELEMENT-BEFORE-DOCTYPE', 'an element was inserted before the document type declaration')
    return None

# ------------------------------------------------------------------ the shared campaign of C13 / C15
def source_hash():
    h = hashlib.sha256()
    for f in ('checks/dom13.py', 'checks/domlib.py', 'harness/src/domains/dom.rs', 'ocaml/specdomains/dom/dom.ml', 'coq/theories/Spec/DomL1.v',
              'coq/theories/Spec/DomCharData.v', 'coq/theories/Spec/XmlChars.v', 'coq/theories/Spec/DomL1ReadOnly.v'):
        try: h.update(open(os.path.join(lib.VERIF, f), 'rb').read())
        except OSError: pass
    return h.hexdigest()[:12]

# regression seeds: the reproductions of the repaired defects (must conform now) and one witness per listed finding
CORPUS = [
    (['<r>abc</r>'], [('RD', 2, 1, 1, '<'), ('SD', 2, 'a<b'), ('SV', 2, 'x&y')]),                                   # D39
    (['<r><!--abc--></r>'], [('RD', 2, 1, 1, '--'), ('SD', 2, 'x--y'), ('SD', 2, 'ok-')]),                           # D39
    (['<r>]]x></r>'], [('DD', 2, 2, 1), ('RD', 2, 2, 1, ''), ('RD', 2, 2, 1, 'y')]),                                 # D46
    (['<r><!--a-x-b--></r>'], [('DD', 2, 2, 1), ('DD', 2, 2, 9), ('RD', 2, 2, 1, 'y'), ('AD', 2, '-'), ('ID', 2, 1, '-'), ('ID', 2, 0, '-')]),
    (['<r><![CDATA[a]]x>b]]></r>'], [('DD', 2, 3, 1), ('AD', 2, ']'), ('ST', 2, 3)]),
    (['<r>a</r>'], [('AD', 2, ']]'), ('AD', 2, '>'), ('ID', 2, 0, '>'), ('ST', 2, 2)]),
    (['<r><![CDATA[a]]></r>'], [('AD', 2, ']]'), ('AD', 2, '>')]),
    (['<r a="1"><e a="3"/></r>'], [('NS', 1, 5), ('SAN', 1, 5), ('RAN', 1, 5), ('RAN', 4, 5)]),                      # D40, RAN identity
    (['<r p:a="1" xmlns:p="u"/>'], [('SA', 1, 'xmlns:a', 'z'), ('SA', 1, 'a', 'y'), ('SA', 1, 'p:a', 'w'), ('RA', 1, 'a'), ('RA', 1, 'p:a')]),  # D43
    (['<r a="1"/>'], [('SA', 1, 'a', '2'), ('SA', 1, 'a', 'x<y'), ('CA', 0, 'a'), ('RAN', 1, 4), ('SAN', 1, 4)]),     # set_attribute keeps the node
    (['<r/>'], [('CE', 0, "a b='1'"), ('CE', 0, 'a '), ('CA', 0, 'a '), ('CP', 0, 'a b', 'c'), ('CP', 0, 't', ' x'), ('CP', 0, 't', 'x?>y')]),
    (['<r/>'], [('CT', 0, 'a<b'), ('CC', 0, '--'), ('CD', 0, ']]>'), ('CT', 0, 'ok'), ('CC', 0, 'a-b'), ('CD', 0, '<&>')]),   # D42
    (['<r>a</r>'], [('CT', 0, ']]'), ('CT', 0, '>'), ('AC', 1, 3), ('AC', 1, 4)]),                                    # adjacent Text nodes
    (['<r a="x">t</r>'], [('SV', 2, ']]>'), ('RC', 1, 5, 4)]),                                                        # attribute text into content
    (['<r a="x">t</r>'], [('AD', 3, '"'), ('AD', 3, "'")]),                                                           # both quotes
    # an attribute value made of SEVERAL Text children that hold the two kinds of quotation mark separately (W7-C15-2)
    (['<r a="it\'s">t</r>'], [('CT', 0, ' "so"'), ('AC', 2, 5), ('CT', 0, "'"), ('AC', 2, 6), ('CT', 0, '"'), ('IB', 2, 7, 3)]),
    (['<r a="x\'yz">t</r>'], [('ID', 3, 3, '"'), ('ST', 3, 3), ('ST', 3, 1)]),
    (["<r a='q\"'>t</r>"], [('CT', 0, "'"), ('AC', 2, 5), ('CT', 0, '&'), ('AC', 2, 6), ('CT', 0, '<'), ('AC', 2, 7)]),
    (['<!DOCTYPE r []><r/>'], [('RM', 0, 2), ('CE', 0, 'n'), ('IB', 0, 3, 1)]),                                       # element before the doctype
    (['<!DOCTYPE r [<!ENTITY e "v">]><r>&e;</r>'], [('RM', 0, 1)]),
    (['<r><a/><b/></r>'], [('IB', 1, 2, 2), ('RC', 1, 3, 3), ('AC', 1, 1), ('AC', 2, 1), ('IB', 1, 3, 2), ('RC', 1, 2, 3)]),
    # a processing instruction whose target BEGINS with xml as the very first thing of a document without XML declaration
    (['<r>t</r>'], [('CP', 0, 'xml-stylesheet', "href='a.css'"), ('IB', 0, 3, 1)]),
    (['<r/>'], [('CP', 0, 'xmlx', 'd'), ('IB', 0, 2, 1), ('CC', 0, 'c'), ('IB', 0, 3, 2)]),
    (['<!--c--><r/>'], [('CP', 0, 'xml-model', ''), ('IB', 0, 3, 1), ('CP', 0, 'XML-x', 'v'), ('IB', 0, 4, 3)]),
    # names that are no Name but let the reference production succeed on a prefix (D64, repaired 37c72ae)
    (['<r/>'], [('CR', 0, 'a;b'), ('CR', 0, '#65'), ('CR', 0, 'amp;x'), ('CR', 0, '#x41;zz'), ('CR', 0, 'amp'), ('CR', 0, 'nope')]),
    # entity references created through the API and attached where the entity may not be referred to (finding C15-ENTREF-UNCHECKED)
    (['<!DOCTYPE r [<!NOTATION n SYSTEM "x"><!ENTITY u SYSTEM "f" NDATA n><!ENTITY a "&a;"><!ENTITY b "<x">]><r/>'], [('CR', 0, 'u'), ('AC', 2, 3), ('CR', 0, 'a'), ('AC', 2, 4), ('CR', 0, 'b'), ('AC', 2, 5)]),
    (['<!DOCTYPE r [<!ENTITY x SYSTEM "g"><!ENTITY l "&#60;">]><r k="v"/>'], [('CR', 0, 'x'), ('CR', 0, 'l'), ('AC', 3, 7), ('AC', 3, 8)]),
    # PI data that begins with white space, a comment truncated in front of a hyphen
    (['<r/>'], [('CP', 0, 'php', '  echo 1;'), ('AC', 1, 2), ('SD', 2, '\n\tkey="v"')]),
    (['<r><!--chapter 1 - draft--><!--a-b--></r>'], [('DD', 2, 11, 6), ('DD', 3, 2, 100), ('DD', 3, 1, 1)]),
]

def campaign(run):
    """single-call matrices, the random histories of the C12/C14 campaign (same generator, same seed) and the C15
    histories, all run once with extended dumps; both properties' oracles; cached for the other check"""
    path = os.path.join(lib.WORK, 'dom13_campaign_%s_%s_%s_%s.json' % (run.tier, run.seed, lib.repo_tree_hash(), source_hash()))
    if os.path.exists(path) and time.time() - os.path.getmtime(path) < 6 * 3600 and not os.environ.get('VERIF_DOM_NOCACHE'):
        try:
            s = json.load(open(path)); s['cached'] = True
            return s
        except ValueError:
            pass
    rng = random.Random(run.seed)
    thorough = run.tier == 'thorough'
    s = {'cases': 0, 'ops': 0, 'c13': [], 'c15': [], 'crashes': [], 'hist': {}, 'nontrivial': set(), 'n13': {}, 'n15': {},
         '_seen13': set(), '_seen15': set(), 'samples': [], 'times': {}, 'oracle_disagree': []}
    t0 = time.time()
    cases = [(d, o, 'r') for d, o in CORPUS]
    analyse(cases, run_ext(cases, shards=1), 'corpus', s)
    docs, pre, calls = D.matrix_cases()
    cases = [(docs, pre + [c], 'r!%d' % len(pre)) for c in calls]
    analyse(cases, run_ext(cases), 'matrix', s)
    s['samples'].append({'kind': 'single-call matrix (receiver x argument x reference position, every mutator)', 'documents': docs,
                         'prefix': [D.show_op(o) for o in pre], 'calls': len(calls)})
    docs, pre, calls = attr_matrix_cases()
    cases = [(docs, pre + [c], 'r!%d' % len(pre)) for c in calls]
    analyse(cases, run_ext(cases), 'attr-matrix', s)
    s['samples'].append({'kind': 'attribute matrix (element x attribute node, element x name x value)', 'documents': docs,
                         'prefix': [D.show_op(o) for o in pre], 'calls': len(calls)})
    s['times']['matrix'] = round(time.time() - t0, 1); t0 = time.time()
    st = D.Stats()
    H = D.random_histories(st, rng, 5000 if thorough else 400, 40)
    for k, v in st.hist.items(): s['hist'][k] = s['hist'].get(k, 0) + v
    for k in range(0, len(H), 1000):
        analyse(H[k:k + 1000], run_ext(H[k:k + 1000]), 'random', s)
    for d, o, v in H[:2]:
        s['samples'].append({'kind': 'random history', 'documents': d, 'ops': [D.show_op(x) for x in o]})
    s['times']['random'] = round(time.time() - t0, 1); t0 = time.time()
    # histories with Element.normalize (generator of checks/domlib.py, own random stream; both views)
    NH, nhist = D.normalize_histories(random.Random('normalize13-%d' % run.seed), 1500 if thorough else 250, 24)
    for k, v in nhist.items(): s['hist'][k] = s['hist'].get(k, 0) + v
    for k in range(0, len(NH), 1000):
        analyse(NH[k:k + 1000], run_ext(NH[k:k + 1000]), 'normalize', s)
    for d, o, v in NH[:1] + NH[-1:]:
        s['samples'].append({'kind': 'normalize history', 'documents': d, 'view': v, 'ops': [D.show_op(x) for x in o]})
    s['times']['normalize'] = round(time.time() - t0, 1); t0 = time.time()
    # histories with calls on the read-only maps of a document type (generator of checks/domlib.py, own random stream; both views):
    # every call is compared with dom_step_ro of the extracted Spec/DomL1ReadOnly.v (result class NO_MODIFICATION_ALLOWED_ERR /
    # not offered, state unchanged), and the atomicity / panic oracles apply as to every call
    RH, rhist = D.readonly_histories(random.Random('readonly13-%d' % run.seed), 1200 if thorough else 220, 24)
    for k, v in rhist.items(): s['hist'][k] = s['hist'].get(k, 0) + v
    for k in range(0, len(RH), 1000):
        analyse(RH[k:k + 1000], run_ext(RH[k:k + 1000]), 'readonly', s)
    for d, o, v in RH[:1] + RH[-1:]:
        s['samples'].append({'kind': 'history with calls on the read-only maps of a document type', 'documents': d, 'view': v, 'ops': [D.show_op(x) for x in o]})
    s['times']['readonly'] = round(time.time() - t0, 1); t0 = time.time()
    H, hist = histories15(rng, 6000 if thorough else 500, 30)
    for k, v in hist.items(): s['hist'][k] = s['hist'].get(k, 0) + v
    for k in range(0, len(H), 1000):
        analyse(H[k:k + 1000], run_ext(H[k:k + 1000]), 'markup-strings', s)
    for d, o, v in H[:3]:
        s['samples'].append({'kind': 'C15 history (markup-significant strings)', 'documents': d, 'ops': [D.show_op(x) for x in o]})
    for d, o, v in H:
        key = 'len15:%d' % (10 * (len(o) // 10)); s['hist'][key] = s['hist'].get(key, 0) + 1
    s['times']['markup-strings'] = round(time.time() - t0, 1)
    s['nontrivial'] = len(s['nontrivial'])
    del s['_seen13'], s['_seen15']
    os.makedirs(lib.WORK, exist_ok=True)
    tmp = '%s.%d.tmp' % (path, os.getpid())       # atomic: another check may read the cache while it is written
    with open(tmp, 'w') as f:
        json.dump(s, f)
    os.replace(tmp, path)
    s['cached'] = False
    return s

# ------------------------------------------------------------------ tie of Model/DomFacts.v
# The theorems *_model_facts of Properties/C13.v / C15.v are about the string facts computed by the MODEL of the parser
# (coq/theories/Model/DomFacts.v facts_of_name / facts_of_data).  The harness computes the same facts with the real parser
# (`digest` of harness/src/domains/dom.rs, printed as O words in record 0 of every dom case).  facts_tie compares the two on
# hand-picked strings, on the strings of the generators and on random strings over an alphabet of delimiters, name
# characters, references and non-characters.
FACT_STRINGS = ["", "a", "p:a", ":a", "a:", "a:b:c", "xmlns", "xmlns:a", "xmlns:", "xmlnsx", "xmlns:a:b", "xml", "XML", "xMl", "xmlx",
    "1", "-a", ".", "a b", "a;b", "#65", "#x41", "#x41;z", "#x41;zz", "#;", "#", "amp;x", "amp", "e ", "a\tb", " ", "  d?", "\t\n x ", "a?>b", "?>",
    "?", "??>", "a?", "a&lt;b", "&#65;", "&#x110000;", "&#xD800;", "&#0;", "&#99999999999;", "&#x0041;", "&#X41;", "&;", "&1;", "&a", "&",
    "& b", "a&b;c&d;", "&amp;&amp;", 'a"b', "a'b", 'a"b\'c', "'", '"', "<", "a<b", "]]>", "a]]>b", "--", "a--b", "a-", "-", "é",
    "·a", "a·", "\x01", "a\x01", "￾", "a￾b", "a=b", "a>", "x y='1'", "a/", "\U00010000", "\U0001F600x", "&#x1F600;",
    "&lt", "&lt;;", "&#65", "&#6 5;", "&#x;", "t", "<!--", "<![CDATA[", "]]", "a\rb", "&#xa;", "&e;&f;", "K", "İ", "xmK"]
FACT_ALPHA = ['a', 'x', 'm', 'l', 'X', 'n', 's', ':', '&', '#', ';', '1', '6', '5', '<', '>', '?', '"', "'", ' ', '-', ']', '·', '\x01',
              'é', '=', '\t', 'p', 't', 'g']
FACT_WORDS = ['xmlns', 'xml', '&amp;', '&#65;', '&#x41;', 'lt', 'amp', '?>', ']]>', '--']

def facts_tie(run, count=None):
    """-> {'strings': n, 'mismatches': [(string, harness digest, model digest)]}; appends to run.tie_breaks"""
    rng = random.Random('facts-tie-%d' % run.seed)
    count = count if count is not None else (600 if run.tier == 'quick' else 6000)
    strings = list(FACT_STRINGS) + list(FRAG) + list(NAMES15)
    for _ in range(count):
        n = rng.choice([0, 1, 2, 3, 3, 4, 4, 5, 6, 7, 8, 10])
        strings.append(''.join(rng.choice(FACT_ALPHA) for _ in range(n)))
    for w in FACT_WORDS:
        for _ in range(max(4, count // 100)):
            a = ''.join(rng.choice(FACT_ALPHA) for _ in range(rng.choice([0, 1, 2])))
            b = ''.join(rng.choice(FACT_ALPHA) for _ in range(rng.choice([0, 1, 2])))
            strings.append(a + w + b)
    strings = sorted(set(x for x in strings if isinstance(x, str)))
    # harness: one case per chunk; PD on the document element is not applicable, so the state does not grow;
    # the digests of the string arguments are in record 0
    chunk = 100
    cases = [D.mkcase(['<r/>'], [('PD', 1, x) for x in strings[k:k + chunk]], 'r') for k in range(0, len(strings), chunk)]
    lines = D.run_impl(cases)
    impl = {}
    for ci, line in enumerate(lines):
        head = line.split(' | ')[0].partition(' # ')[0]
        for w in head.split(' '):
            if w.startswith('O') and ':' in w:
                i, _, d = w[1:].partition(':')
                if i.isdigit() and ci * chunk + int(i) < len(strings):
                    impl[strings[ci * chunk + int(i)]] = d
    rc, out = lib.run_bin(lib.model_bin('domfacts'), ['domfacts'], [lib.enc(x) for x in strings], timeout=600, shards=min(lib.NPROC, 8))
    res = {'strings': len(strings), 'mismatches': []}
    if len(out) != len(strings) or len(impl) != len(strings):
        run.tie_breaks.append('facts tie: %d strings, %d harness digests, %d model digests' % (len(strings), len(impl), len(out)))
        return res
    for x, m in zip(strings, out):
        if impl[x] != m:
            res['mismatches'].append((x, impl[x], m))
    for x, a, b in res['mismatches'][:3]:
        run.tie_breaks.append('facts tie: Model/DomFacts.v and the harness digest differ on %r (code points %s): harness %s, model %s' % (x, lib.enc(x), a, b))
    return res

# ------------------------------------------------------------------ shrinking, replay
def step_violations(docs, ops, prop, view='r'):
    """run a history on the implementation; -> list per op index of [(clause, detail, f)]"""
    line = run_ext([(docs, ops, view)], shards=1)[0]
    if ' # ' not in line:
        return None, line
    s = {'cases': 0, 'ops': 0, 'c13': [], 'c15': [], 'crashes': [], 'hist': {}, 'nontrivial': set(), 'n13': {}, 'n15': {},
         '_seen13': set(), '_seen15': set()}
    analyse([(docs, ops, view)], [line], 'replay', s)
    return s['c13' if prop == 'c13' else 'c15'], line

def same_failure(f, g):
    return f['clause'] == g['clause'] and f['op'][0] == g['op'][0] and f.get('impl', '').split(':')[:2] == g.get('impl', '').split(':')[:2] \
        and (f.get('spec', '').split(':')[:2] == g.get('spec', '').split(':')[:2])

def shrink(f, prop):
    docs = f['docs']
    view = f.get('view', 'r').split('!')[0]
    ops = [tuple(o) for o in f['ops']]
    def fails(cand):
        vs, _ = step_violations(docs, cand, prop, view)
        return bool(vs) and any(same_failure(f, g) for g in vs)
    if not fails(ops):
        return f
    small = D.ddmin(ops, fails)
    vs, _ = step_violations(docs, small, prop, view)
    g = [x for x in vs if same_failure(f, x)][0]
    g = dict(g); g['shrunk_from'] = len(ops)
    return g

def describe(f):
    ops = [tuple(o) for o in f['ops']]
    return '%s -- %s; history on %s: %s' % (D.show_op(ops[-1]), f['detail'][:400], f['docs'], ' ; '.join(D.show_op(o) for o in ops))

def replay_file(path, prop):
    d = json.load(open(path))
    print(json.dumps({k: v for k, v in d.items() if k not in ('docs', 'ops', 'serial')}, indent=1, ensure_ascii=False))
    if 'docs' not in d:
        return 0
    docs, ops = d['docs'], [tuple(o) for o in d['ops']]
    view = d.get('view', 'r').split('!')[0]
    line = run_ext([(docs, ops, view)], shards=1)
    print('documents:', docs)
    if not line or ' # ' not in line[0]:
        print('implementation: no output'); return 1
    txt = line[0].split(' | ')
    ew = ent_words(line[0])
    recs = [Rec2(t) for t in txt]
    out = spec_steps([(recs[i - 1].ext_dump, spec_op(ops[i - 1], view), ew) for i in range(1, len(recs))], shards=1)
    for i in range(1, len(recs)):
        sres, sstate = out[i - 1]
        print('%2d %-44s implementation: %-26s DOM Level 1: %s' % (i, D.show_op(ops[i - 1]), recs[i].result, sres))
        if ops[i - 1][0] == 'NZ':
            second = spec_normalize(recs[i - 1], ops[i - 1], view)
            print('      second oracle (python spec_normalize): %s, %s the extracted dom_normalize'
                  % (second[0], 'agrees with' if second == (sres, sstate) else 'DISAGREES with'))
        for v in (compare_step(recs[i - 1], recs[i], sres, sstate), atomicity(recs[i - 1], recs[i])):
            if v: print('      C13 %s: %s' % v)
        if recs[i].result.startswith('ok'):
            for v in reparse_violation(recs[i]):
                print('      C15 %s: %s' % v)
        print('      serialisation:', {k: dec(v) for k, v in recs[i].serial.items()})
    ml = D.run_model([D.mkcase(docs, ops, view)], D.run_impl([D.mkcase(docs, ops, view)], shards=1), shards=1)
    il = D.run_impl([D.mkcase(docs, ops, view)], shards=1)
    if ml and il:
        print('model vs implementation: first differing record =', D.first_mismatch(il[0], ml[0]))
    return 0
