(** * C11: the hypotheses are satisfiable by non-trivial values; witnesses of the findings that stay. *)
From Coq Require Import List NArith Bool Lia.
From XmlRs Require Import Base.CPred Spec.AttrNorm Model.AttrModel Proofs.AttrTokenProofs
  Proofs.AttrNormProofs Proofs.AttrSetProofs Proofs.AttrWfProofs.
Import ListNotations.
Open Scope N_scope.

(** ** decidable form of the "no [&#38;] / [&#60;] in entity literals" hypothesis (finding D56, and D06) *)
Definition KnownEsc (dtd : table) : bool := negb (forallb (fun e => forallb simple_piece (snd e)) dtd).

Lemma known_esc_simple dtd : KnownEsc dtd = false -> simple_table dtd.
Proof.
  unfold KnownEsc. intros H. apply negb_false_iff in H. intros n lit Hin.
  rewrite forallb_forall in H. exact (H (n, lit) Hin).
Qed.

Theorem normalized_value_refines_known_proof : forall dtd fuel ty lit,
  KnownEsc dtd = false -> acyclic dtd -> model_value_f fuel dtd ty lit = spec_value_f fuel dtd ty lit.
Proof. intros dtd fuel ty lit H Hac. apply normalized_value_refines_f; [apply known_esc_simple, H|exact Hac]. Qed.

(** ** acyclicity from a rank *)
Lemma rank_acyclic (dtd : table) (rk : name -> nat) :
  (forall n m, refers dtd n m -> (rk m < rk n)%nat) -> forall n, ~ reaches dtd n n.
Proof.
  intros H. assert (G : forall n m, reaches dtd n m -> (rk m < rk n)%nat).
  { intros n m R. induction R as [a b Hab|a b k Hab _ IH]; [exact (H a b Hab)|]. specialize (H a b Hab). lia. }
  intros n R. specialize (G n n R). lia.
Qed.

(** ** a table with nesting depth 3, white space, character references, a predefined entity *)
Definition e_x : name := [120].            (* x *)
Definition e_y : name := [121].            (* y *)
Definition e_z : name := [122].            (* z *)
Definition ex_dtd : table :=
  [ (e_x, [Text [97]; CharRef 10; EntRef e_y]);          (* <!ENTITY x "a&#10;&y;"> *)
    (e_y, [Text [32; 9]; EntRef e_z; EntRef n_lt]);      (* <!ENTITY y " <TAB>&z;&lt;"> *)
    (e_z, [Text [98]; CharRef 13]);                      (* <!ENTITY z "b&#13;"> *)
    (e_x, [Text [99]]) ].                                (* later declaration of x: ignored *)

Definition ex_rank (n : name) : nat :=
  if str_eqb n e_x then 3%nat else if str_eqb n e_y then 2%nat else if str_eqb n e_z then 1%nat else 0%nat.

Lemma refers_in dtd n m : refers dtd n m -> exists lit, In (n, lit) dtd /\ In m (refs_of lit).
Proof. intros (lit & Hd & Hm). exists lit. split; [apply declared_in; exact Hd|exact Hm]. Qed.

Example wf_table_example : wf_table ex_dtd.
Proof.
  constructor.
  - intros n lit m Hin Hm. cbn [ex_dtd In] in Hin.
    destruct Hin as [E|[E|[E|[E|[]]]]]; injection E as <- <-; cbn in Hm;
      repeat (destruct Hm as [<-|Hm]); try destruct Hm;
      first [left; vm_compute; discriminate | right; vm_compute; discriminate].
  - apply (rank_acyclic ex_dtd ex_rank). intros n m (lit & Hd & Hm).
    unfold ex_dtd in Hd. cbn [declared] in Hd.
    destruct (str_eqb e_x n) eqn:Ex.
    { apply str_eqb_eq in Ex. subst n. injection Hd as <-. cbn in Hm.
      destruct Hm as [<-|[]]. vm_compute. lia. }
    destruct (str_eqb e_y n) eqn:Ey.
    { apply str_eqb_eq in Ey. subst n. injection Hd as <-. cbn in Hm.
      destruct Hm as [<-|[<-|[]]]; vm_compute; lia. }
    destruct (str_eqb e_z n) eqn:Ez.
    { apply str_eqb_eq in Ez. subst n. injection Hd as <-. cbn in Hm. destruct Hm. }
    discriminate.
  - intros n lit Hin. cbn [ex_dtd In] in Hin.
    destruct Hin as [E|[E|[E|[E|[]]]]]; injection E as <- <-; reflexivity.
Qed.

(** [a="&#9; &x; "]: the tab of the character reference stays, the line feed of x's replacement text,
    the tab of y and the carriage return of z become spaces, [&lt;] gives '<'; as NMTOKENS the spaces
    collapse and the ends are trimmed -- but not the tab *)
Definition ex_lit : list piece := [CharRef 9; Text [32]; EntRef e_x; Text [32]].
Example ex_value_cdata : spec_value ex_dtd None ex_lit = Ok [9; 32; 97; 32; 32; 32; 98; 32; 60; 32].
Proof. vm_compute. reflexivity. Qed.
Example ex_value_tokens : spec_value ex_dtd (Some TNmtokens) ex_lit = Ok [9; 32; 97; 32; 98; 32; 60].
Proof. vm_compute. reflexivity. Qed.
Example ex_lit_declared : lit_declared ex_dtd ex_lit.
Proof. intros m Hm. cbn in Hm. destruct Hm as [<-|[]]. left. vm_compute. discriminate. Qed.
Example ex_model_agrees : model_value ex_dtd (Some TNmtokens) ex_lit = Ok [9; 32; 97; 32; 98; 32; 60].
Proof. rewrite (normalized_value_refines_proof _ _ _ wf_table_example). exact ex_value_tokens. Qed.

(** ** a reference cycle: [expand_entity] finds the name on its stack and reports it (before commit
    ed2c470 the real code overflowed its stack: defect D09 of property C03), the specification says
    [Recursion], and the document is refused when it is built *)
Definition cyc : table := [ (e_x, [EntRef e_y]); (e_y, [EntRef e_x]) ].

Example cycle_model : model_value cyc None [EntRef e_x] = IllFormed.
Proof. vm_compute. reflexivity. Qed.
Example cycle_spec : spec_value cyc None [EntRef e_x] = Recursion.
Proof. vm_compute. reflexivity. Qed.
Example cycle_refused :
  model_attrs [DEntity e_x [EntRef e_y]; DEntity e_y [EntRef e_x]] [101] [([97], [EntRef e_x])] = IllFormed /\
  spec_attrs [DEntity e_x [EntRef e_y]; DEntity e_y [EntRef e_x]] [101] [([97], [EntRef e_x])] = IllFormed.
Proof. split; vm_compute; reflexivity. Qed.
Example cycle_not_wf : ~ wf_table cyc.
Proof.
  intros [_ H _]. apply (H e_x). eapply reach_trans; [|apply reach_step].
  - exists [EntRef e_y]. split; [reflexivity|left; reflexivity].
  - exists [EntRef e_x]. split; [reflexivity|left; reflexivity].
Qed.

(** ** finding D56: a doubly escaped character reference is not re-scanned
    ([<!ENTITY lt "&#38;#60;">], the declaration XML 1.0 4.6 recommends, then [a="&lt;"]) *)
Definition dtd56 : table := [ (n_lt, [CharRef 38; Text [35; 54; 48; 59]]) ].
Theorem double_escape_refuted_proof :
  exists dtd ty lit, KnownEsc dtd = true /\ model_value dtd ty lit <> spec_value dtd ty lit.
Proof.
  exists dtd56, None, [EntRef n_lt]. split; [reflexivity|]. vm_compute. discriminate.
Qed.
Example double_escape_values :
  model_value dtd56 None [EntRef n_lt] = Ok [38; 35; 54; 48; 59] /\ spec_value dtd56 None [EntRef n_lt] = Ok [60].
Proof. split; vm_compute; reflexivity. Qed.

(** ** finding D36 *)
Definition n_e : name := [101].
Definition n_a : name := [97].
Definition n_b : name := [98].
Definition dtd36 : dtd_doc := [ DAttlist n_e [ {| ad_name := n_a; ad_type := TCdata; ad_default := Required |} ] ].

Example dtd36_wf : doc_wf dtd36 [].
Proof.
  constructor; [reflexivity| |intros lit []|intros nl []].
  constructor; [intros n lit m []|intros n R|intros n lit []].
  assert (G : forall a b, reaches (entities_of dtd36) a b -> False).
  { intros a b R'. destruct R' as [? ? (l & Hl & _)|? ? ? (l & Hl & _) _]; discriminate Hl. }
  exact (G n n R).
Qed.

Theorem attribute_set_refuted_proof :
  exists d el written, doc_wf d written /\ no_ns_defs d el /\ Known36 d el written = true /\
    model_attrs d el written <> map_ares (map of_item) (spec_attrs d el written).
Proof.
  exists dtd36, n_e, []. split; [exact dtd36_wf|]. split.
  - intros x Hx. vm_compute in Hx. destruct Hx as [<-|[]]. reflexivity.
  - split; [reflexivity|]. vm_compute. discriminate.
Qed.

(** the premise [Known36 = false] is satisfiable by a document that exercises merging, first-wins,
    defaults with entity references, tokenization of a default and a written #REQUIRED attribute *)
Definition dtd_ok : dtd_doc :=
  [ DEntity e_z [Text [98]; CharRef 13];
    DAttlist n_e [ {| ad_name := n_a; ad_type := TNmtokens; ad_default := Default false [Text [32]; EntRef e_z; Text [32;32;99]] |};
                   {| ad_name := n_b; ad_type := TCdata; ad_default := Required |} ];
    DAttlist [102] [ {| ad_name := [103]; ad_type := TCdata; ad_default := Default true [Text [49]] |} ];
    DAttlist n_e [ {| ad_name := n_a; ad_type := TCdata; ad_default := Default false [Text [50]] |};
                   {| ad_name := [99]; ad_type := TId; ad_default := Implied |};
                   {| ad_name := [100]; ad_type := TCdata; ad_default := Default true [Text [32;51;32]] |} ] ].
Definition written_ok : list (name * list piece) := [ (n_b, [Text [32; 120; 10]]) ].

Example known36_false : Known36 dtd_ok n_e written_ok = false.
Proof. vm_compute. reflexivity. Qed.
Example dtd_ok_wf : doc_wf dtd_ok written_ok.
Proof.
  constructor; [reflexivity| | |].
  - constructor.
    + intros n lit m Hin Hm. cbn in Hin. destruct Hin as [E|[]]. injection E as <- <-. destruct Hm.
    + apply (rank_acyclic _ (fun _ => 0%nat)). intros n m (lit & Hd & Hm). cbn [entities_of dtd_ok declared] in Hd.
      destruct (str_eqb e_z n); [injection Hd as <-; destruct Hm|discriminate].
    + intros n lit Hin. cbn in Hin. destruct Hin as [E|[]]. injection E as <- <-. reflexivity.
  - intros lit Hin. vm_compute in Hin. destruct Hin as [<-|[<-|[<-|[<-|[]]]]]; intros m Hm; cbn in Hm;
      repeat (destruct Hm as [<-|Hm]); try destruct Hm; left; vm_compute; discriminate.
  - intros nl Hin. destruct Hin as [<-|[]]. intros m [].
Qed.
Example dtd_ok_no_ns : no_ns_defs dtd_ok n_e.
Proof. intros x Hx. vm_compute in Hx. destruct Hx as [<-|[<-|[<-|[<-|[]]]]]; reflexivity. Qed.
Example dtd_ok_attrs :
  spec_attrs dtd_ok n_e written_ok =
  Ok [ {| ai_name := n_b; ai_value := Ok [32; 120; 32]; ai_specified := true; ai_type := Some TCdata |};
       {| ai_name := n_a; ai_value := Ok [98; 32; 99]; ai_specified := false; ai_type := Some TNmtokens |};
       {| ai_name := [100]; ai_value := Ok [32; 51; 32]; ai_specified := false; ai_type := Some TCdata |} ].
Proof. vm_compute. reflexivity. Qed.

(** the hypotheses of the all-documents theorem hold for [dtd_ok], and for an ILL-formed variant of it
    (an attribute-list default refers to an entity declared later; a literal reaches a cycle): both sides
    refuse those, as the theorem says *)
Lemma predefined_free_check (T : table) :
  forallb (fun n => match declared T n with None => true | Some _ => false end) [n_lt; n_gt; n_amp; n_apos; n_quot] = true ->
  predefined_free T.
Proof.
  intros H n Hn. rewrite forallb_forall in H. unfold predefined in Hn.
  destruct (str_eqb n n_lt) eqn:E1; [apply str_eqb_eq in E1; subst n; specialize (H n_lt); cbn [In] in H;
    destruct (declared T n_lt); [discriminate H; auto|reflexivity]|].
  destruct (str_eqb n n_gt) eqn:E2; [apply str_eqb_eq in E2; subst n; specialize (H n_gt); cbn [In] in H;
    destruct (declared T n_gt); [discriminate H; auto|reflexivity]|].
  destruct (str_eqb n n_amp) eqn:E3; [apply str_eqb_eq in E3; subst n; specialize (H n_amp); cbn [In] in H;
    destruct (declared T n_amp); [discriminate H; auto 6|reflexivity]|].
  destruct (str_eqb n n_apos) eqn:E4; [apply str_eqb_eq in E4; subst n; specialize (H n_apos); cbn [In] in H;
    destruct (declared T n_apos); [discriminate H; auto 6|reflexivity]|].
  destruct (str_eqb n n_quot) eqn:E5; [apply str_eqb_eq in E5; subst n; specialize (H n_quot); cbn [In] in H;
    destruct (declared T n_quot); [discriminate H; auto 8|reflexivity]|].
  congruence.
Qed.

Example dtd_ok_all_hyps : simple_table (entities_of dtd_ok) /\ predefined_free (entities_of dtd_ok).
Proof. split; [apply known_esc_simple; vm_compute; reflexivity|apply predefined_free_check; vm_compute; reflexivity]. Qed.

Definition dtd_bad : dtd_doc :=
  [ DAttlist n_e [ {| ad_name := n_a; ad_type := TCdata; ad_default := Default false [EntRef e_z] |} ];
    DEntity e_z [Text [98]];
    DEntity e_x [EntRef e_y]; DEntity e_y [EntRef e_x] ].
Example dtd_bad_hyps : simple_table (entities_of dtd_bad) /\ predefined_free (entities_of dtd_bad).
Proof. split; [apply known_esc_simple; vm_compute; reflexivity|apply predefined_free_check; vm_compute; reflexivity]. Qed.
Example dtd_bad_refused :
  model_attrs dtd_bad n_e [] = IllFormed /\ spec_attrs dtd_bad n_e [] = IllFormed /\
  model_attrs (tl dtd_bad) n_e [(n_a, [EntRef e_x])] = IllFormed /\ spec_attrs (tl dtd_bad) n_e [(n_a, [EntRef e_x])] = IllFormed /\
  spec_attrs (tl dtd_bad) n_e [(n_a, [EntRef e_z])] <> IllFormed.
Proof. repeat split; vm_compute; try reflexivity. discriminate. Qed.
