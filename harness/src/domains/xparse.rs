//! XPath expression parser domain (C08, parser half of C06).
//!
//! case line:  `<mode> <expr> [<doc>]`   (strings: decimal code points joined by ',', `-` = empty)
//!   mode `d`: parse only            -> `P <ast> R<rest>` | `P err`
//!   mode `s`: parse only, terse     -> `ok <rest>` | `err`              (nesting / totality cases)
//!   mode `v`: parse and evaluate    -> `P ... # V <value>`              (doc required)
//! `<ast>` is the structural dump of the real `xml_xpath::expr::model::Expr` in prefix notation, one
//! token per word, every list preceded by its length (the same notation as the `xpath` domain);
//! `<rest>` is the number of characters `expr::parse` left unconsumed.
//! `<value>` is what `xml_xpath::query(doc, expr, fresh context)` answers:
//!   `ns:i.j.k` node-set as pre-order ranks (document = 0; per element: namespace nodes, attributes,
//!   children; a node the walk does not reach is printed `z<kind>`), `b:0|1`,
//!   `n:<16 hex digits>` (NaN canonical), `s:<code points>`, `err:<kind>`, `panic`, `baddoc`.
use crate::util::{dec, enc};
use std::collections::HashMap;
use std::panic::{catch_unwind, AssertUnwindSafe};
use xml_dom::{AsNode, Node, XmlDocument, XmlNode};
use xml_xpath::eval::model::{Context, Value};
use xml_xpath::expr::model as ast;

// ------------------------------------------------------------------------------------ AST dump

fn qname(q: &xml_nom::model::QName, out: &mut Vec<String>) {
    match q {
        xml_nom::model::QName::Prefixed(p) => {
            out.push("qp".into());
            out.push(enc(p.prefix));
            out.push(enc(p.local_part));
        }
        xml_nom::model::QName::Unprefixed(u) => {
            out.push("qu".into());
            out.push(enc(u));
        }
    }
}

fn d_or(e: &ast::OrExpr, out: &mut Vec<String>) {
    out.push("or".into());
    out.push(e.operands().len().to_string());
    for a in e.operands() {
        d_and(a, out);
    }
}

fn d_and(e: &ast::AndExpr, out: &mut Vec<String>) {
    out.push("and".into());
    out.push(e.operands().len().to_string());
    for a in e.operands() {
        d_eq(a, out);
    }
}

fn d_eq(e: &ast::EqualityExpr, out: &mut Vec<String>) {
    out.push("eq".into());
    d_rel(e.operand(), out);
    out.push(e.operations().len().to_string());
    for (op, a) in e.operations() {
        out.push(
            match op {
                ast::EqualityOperator::Equal => "=",
                ast::EqualityOperator::NotEqual => "!=",
            }
            .into(),
        );
        d_rel(a, out);
    }
}

fn d_rel(e: &ast::RelationalExpr, out: &mut Vec<String>) {
    out.push("rel".into());
    d_add(e.operand(), out);
    out.push(e.operations().len().to_string());
    for (op, a) in e.operations() {
        out.push(
            match op {
                ast::RelationalOperator::LessThan => "<",
                ast::RelationalOperator::GreaterThan => ">",
                ast::RelationalOperator::LessEqual => "<=",
                ast::RelationalOperator::GreaterEqual => ">=",
            }
            .into(),
        );
        d_add(a, out);
    }
}

fn d_add(e: &ast::AdditiveExpr, out: &mut Vec<String>) {
    out.push("add".into());
    d_mul(e.operand(), out);
    out.push(e.operations().len().to_string());
    for (op, a) in e.operations() {
        out.push(
            match op {
                ast::AdditiveOperator::Add => "+",
                ast::AdditiveOperator::Sub => "-",
            }
            .into(),
        );
        d_mul(a, out);
    }
}

fn d_mul(e: &ast::MultiplicativeExpr, out: &mut Vec<String>) {
    out.push("mul".into());
    d_unary(e.operand(), out);
    out.push(e.operations().len().to_string());
    for (op, a) in e.operations() {
        out.push(
            match op {
                ast::MultiplicativeOperator::Mul => "*",
                ast::MultiplicativeOperator::Div => "div",
                ast::MultiplicativeOperator::Mod => "mod",
            }
            .into(),
        );
        d_unary(a, out);
    }
}

fn d_unary(e: &ast::UnaryExpr, out: &mut Vec<String>) {
    out.push("un".into());
    out.push(e.inv().len().to_string());
    d_union(e.value(), out);
}

fn d_union(e: &ast::UnionExpr, out: &mut Vec<String>) {
    out.push("union".into());
    out.push(e.operands().len().to_string());
    for p in e.operands() {
        d_path(p, out);
    }
}

fn lpop(op: &ast::LocationPathOperator) -> String {
    match op {
        ast::LocationPathOperator::Current => "/".into(),
        ast::LocationPathOperator::DescendantOrSelfNode => "//".into(),
    }
}

fn d_path(e: &ast::PathExpr, out: &mut Vec<String>) {
    match e {
        ast::PathExpr::Root => out.push("root".into()),
        ast::PathExpr::Filter(f) => {
            out.push("pfilter".into());
            d_filter(f, out);
        }
        ast::PathExpr::Path(None, l) => {
            out.push("prel".into());
            d_relpath(l, out);
        }
        ast::PathExpr::Path(Some((None, op)), l) => {
            out.push("pabs".into());
            out.push(lpop(op));
            d_relpath(l, out);
        }
        ast::PathExpr::Path(Some((Some(f), op)), l) => {
            out.push("pfpath".into());
            d_filter(f, out);
            out.push(lpop(op));
            d_relpath(l, out);
        }
    }
}

fn d_filter(e: &ast::FilterExpr, out: &mut Vec<String>) {
    out.push("filter".into());
    d_primary(e.primary(), out);
    out.push(e.predicates().len().to_string());
    for p in e.predicates() {
        d_or(p, out);
    }
}

fn d_primary(e: &ast::PrimaryExpr, out: &mut Vec<String>) {
    match e {
        ast::PrimaryExpr::Variable(q) => {
            out.push("var".into());
            qname(q, out);
        }
        ast::PrimaryExpr::Expr(x) => {
            out.push("paren".into());
            d_or(x, out);
        }
        ast::PrimaryExpr::Literal(s) => {
            out.push("lit".into());
            out.push(enc(s));
        }
        ast::PrimaryExpr::Number(s) => {
            out.push("num".into());
            out.push(enc(s));
        }
        ast::PrimaryExpr::Function(f) => {
            out.push("fn".into());
            qname(f.name(), out);
            out.push(f.args().len().to_string());
            for a in f.args() {
                d_or(a, out);
            }
        }
    }
}

fn d_relpath(e: &ast::RelativeLocationPath, out: &mut Vec<String>) {
    out.push("relpath".into());
    d_step(e.operand(), out);
    out.push(e.operations().len().to_string());
    for (op, s) in e.operations() {
        out.push(lpop(op));
        d_step(s, out);
    }
}

fn d_step(e: &ast::Step, out: &mut Vec<String>) {
    match e {
        ast::Step::Current => out.push("dot".into()),
        ast::Step::Parent => out.push("dotdot".into()),
        ast::Step::Test(axis, test, preds) => {
            out.push("step".into());
            match axis {
                ast::AxisSpecifier::Abbreviated(s) => {
                    out.push("abbr".into());
                    out.push(enc(s));
                }
                ast::AxisSpecifier::Name(n) => {
                    out.push("axis".into());
                    out.push(
                        match n {
                            ast::AxisName::Ancestor => "ancestor",
                            ast::AxisName::AncestorOrSelf => "ancestor-or-self",
                            ast::AxisName::Attribute => "attribute",
                            ast::AxisName::Child => "child",
                            ast::AxisName::Descendant => "descendant",
                            ast::AxisName::DescendantOrSelf => "descendant-or-self",
                            ast::AxisName::Following => "following",
                            ast::AxisName::FollowingSibling => "following-sibling",
                            ast::AxisName::Namespace => "namespace",
                            ast::AxisName::Parent => "parent",
                            ast::AxisName::Preceding => "preceding",
                            ast::AxisName::PrecedingSibling => "preceding-sibling",
                            ast::AxisName::Current => "self",
                        }
                        .into(),
                    );
                }
            }
            match test {
                ast::NodeTest::Name(ast::NameTest::All) => out.push("t*".into()),
                ast::NodeTest::Name(ast::NameTest::Namespace(p)) => {
                    out.push("tns".into());
                    out.push(enc(p));
                }
                ast::NodeTest::Name(ast::NameTest::QName(q)) => {
                    out.push("tq".into());
                    qname(q, out);
                }
                ast::NodeTest::Type(t) => {
                    out.push("tt".into());
                    out.push(
                        match t {
                            ast::NodeType::Comment => "comment",
                            ast::NodeType::Text => "text",
                            ast::NodeType::PI => "pi",
                            ast::NodeType::Node => "node",
                        }
                        .into(),
                    );
                }
                ast::NodeTest::PI(s) => {
                    out.push("tpi".into());
                    out.push(enc(s));
                }
            }
            out.push(preds.len().to_string());
            for p in preds {
                d_or(p, out);
            }
        }
    }
}

pub fn dump_ast(e: &ast::Expr) -> String {
    let mut out = vec![];
    d_or(e, &mut out);
    out.join(" ")
}

// ------------------------------------------------------------------------------------ values

fn kind_of(n: &XmlNode) -> &'static str {
    match n {
        XmlNode::Element(_) => "El",
        XmlNode::Attribute(_) => "At",
        XmlNode::Text(_) => "Tx",
        XmlNode::CData(_) => "Cd",
        XmlNode::EntityReference(_) => "Er",
        XmlNode::Entity(_) => "En",
        XmlNode::PI(_) => "Pi",
        XmlNode::Comment(_) => "Co",
        XmlNode::Document(_) => "Do",
        XmlNode::DocumentType(_) => "Dt",
        XmlNode::DocumentFragment(_) => "Df",
        XmlNode::Notation(_) => "No",
        XmlNode::Namespace(_) => "Ns",
        XmlNode::ExpandedText(_) => "Xt",
    }
}

struct Ranks {
    next: usize,
    index: HashMap<(&'static str, usize), usize>,
}

impl Ranks {
    fn add(&mut self, n: XmlNode) {
        let key = (kind_of(&n), n.id());
        if n.id() != 0 {
            if self.index.contains_key(&key) {
                return;
            }
            self.index.insert(key, self.next);
        }
        self.next += 1;
        if let XmlNode::Element(e) = &n {
            if let Ok(l) = e.in_scope_namespace() {
                for x in l {
                    self.add(x.as_node());
                }
            }
        }
        if let Some(attrs) = n.attributes() {
            for a in attrs.iter() {
                self.add(a.as_node());
            }
        }
        let ch: Vec<XmlNode> = n.child_nodes().iter().collect();
        for c in ch {
            self.add(c);
        }
    }

    fn show(&self, n: &XmlNode) -> String {
        if n.id() != 0 {
            if let Some(i) = self.index.get(&(kind_of(n), n.id())) {
                return i.to_string();
            }
        }
        format!("z{}", kind_of(n))
    }
}

fn show_value(t: &Ranks, v: &Value) -> String {
    match v {
        Value::Boolean(b) => format!("b:{}", if *b { 1 } else { 0 }),
        Value::Number(x) => {
            let bits = if x.is_nan() {
                0x7ff8000000000000u64
            } else {
                x.to_bits()
            };
            format!("n:{:016x}", bits)
        }
        Value::Text(s) => format!("s:{}", enc(s)),
        Value::Node(l) => format!(
            "ns:{}",
            l.iter().map(|n| t.show(n)).collect::<Vec<_>>().join(".")
        ),
    }
}

fn eval(expr: &str, text: &str) -> String {
    let doc = match XmlDocument::from_raw(text) {
        Ok((rest, d)) if rest.is_empty() => d,
        _ => return "baddoc".to_string(),
    };
    let mut ranks = Ranks {
        next: 0,
        index: HashMap::new(),
    };
    ranks.add(doc.as_node());
    let r = catch_unwind(AssertUnwindSafe(|| {
        let mut ctx = Context::default();
        match xml_xpath::query(doc.clone(), expr, &mut ctx) {
            Ok(v) => show_value(&ranks, &v),
            Err(xml_xpath::error::Error::Eval(x)) => {
                let d = format!("{:?}", x);
                let kind: String = d
                    .chars()
                    .take_while(|c| c.is_ascii_alphanumeric())
                    .collect();
                format!("err:{}", kind)
            }
            Err(_) => "err:Syntax".to_string(),
        }
    }));
    match r {
        Ok(s) => s,
        Err(_) => "panic".to_string(),
    }
}

// ------------------------------------------------------------------------------------ a case

pub fn case(line: &str) -> String {
    let w: Vec<&str> = line.split(' ').filter(|s| !s.is_empty()).collect();
    if w.len() < 2 {
        return "badinput".to_string();
    }
    let mode = w[0];
    let expr = match dec(w[1]) {
        Some(s) => s,
        None => return "badinput".to_string(),
    };
    let parsed = match xml_xpath::expr::parse(&expr) {
        Ok((rest, q)) => Some((rest.chars().count(), q)),
        Err(_) => None,
    };
    match mode {
        "s" => match parsed {
            Some((rest, _)) => format!("ok {}", rest),
            None => "err".to_string(),
        },
        "d" | "v" => {
            let p = match &parsed {
                Some((rest, q)) => format!("P {} R{}", dump_ast(q), rest),
                None => "P err".to_string(),
            };
            if mode == "d" {
                return p;
            }
            let text = match w.get(2).and_then(|d| dec(d)) {
                Some(s) => s,
                None => return "badinput".to_string(),
            };
            format!("{} # V {}", p, eval(&expr, &text))
        }
        _ => "badinput".to_string(),
    }
}
