(** * Spec-level theorems about [render] (C01): the lexical rung of
      render_wf : forall d c, valid d = true -> ok_choices d c = true -> wf (render d c) = true.
    Proved here, closed, for every oracle [c] and every continuation [rest]:
    comments, processing instructions and character references as rendered by Spec/Infoset.v are
    read back by the recognisers of Spec/XmlWF.v, with the content they were rendered from. *)
From Coq Require Import List NArith Arith Lia Bool Setoid.
From XmlRs Require Import Base.CPred Spec.XmlChars Spec.XmlWF Spec.Infoset.
Import ListNotations.
Local Open Scope nat_scope.

(** ** strings *)
Lemma strip_app p r : strip p (p ++ r) = Some r.
Proof. induction p as [|x p IH]; cbn [strip app]; [reflexivity|]. now rewrite N.eqb_refl. Qed.

Lemma span_all_stop (f : char -> bool) a x b : forallb f a = true -> f x = false -> span f (a ++ x :: b) = (a, x :: b).
Proof.
  induction a as [|c a IH]; cbn [forallb app span]; intros Ha Hx.
  - now rewrite Hx.
  - apply andb_true_iff in Ha. destruct Ha as [-> Ha]. now rewrite (IH Ha Hx).
Qed.

Lemma span_all_nil (f : char -> bool) a : forallb f a = true -> span f a = (a, []).
Proof.
  induction a as [|c a IH]; cbn [forallb span]; [reflexivity|]. intros Ha.
  apply andb_true_iff in Ha. destruct Ha as [-> Ha]. now rewrite (IH Ha).
Qed.

(** ** [15] comments *)
Lemma has_sub_cons pat c t : has_sub pat (c :: t) = false -> has_sub pat t = false.
Proof. cbn [has_sub]. intros H. apply orb_false_iff in H. tauto. Qed.

Lemma comment_body_render : forall n s, length s <= n ->
  all_chars s = true -> has_sub [c_dash; c_dash] s = false ->
  (match rev s with c :: _ => N.eqb c c_dash | [] => false end) = false ->
  forall rest, p_comment_body (s ++ s_comment_close ++ rest) = Some (s, rest).
Proof.
  induction n as [|n IH]; intros s Hl Hc Hd He rest.
  - destruct s; [|cbn in Hl; lia]. reflexivity.
  - destruct s as [|c t]; [reflexivity|].
    cbn [all_chars forallb] in Hc. apply andb_true_iff in Hc. destruct Hc as [Hcc Hct].
    cbn [app p_comment_body]. destruct (N.eqb_spec c c_dash) as [->|Hne].
    + (* a dash: the next character exists and is no dash *)
      destruct t as [|c2 t2].
      { cbn [rev app] in He. unfold c_dash in He. cbn in He. discriminate. }
      cbn [app]. assert (H2 : N.eqb c2 c_dash = false).
      { cbn [has_sub] in Hd. apply orb_false_iff in Hd. destruct Hd as [Hd _]. unfold starts in Hd. cbn [strip] in Hd.
        unfold c_dash in *. rewrite N.eqb_refl in Hd.
        destruct (N.eqb 45 c2) eqn:E; [discriminate|]. rewrite N.eqb_sym. exact E. }
      rewrite H2. cbn [forallb] in Hct. apply andb_true_iff in Hct. destruct Hct as [Hc2 Hct]. fold (isChar c2). rewrite Hc2.
      rewrite (IH t2); [reflexivity|cbn [length] in Hl; lia|exact Hct| |].
      * apply has_sub_cons in Hd. now apply has_sub_cons in Hd.
      * cbn [rev] in He. destruct (rev t2) as [|z zs] eqn:Er; [reflexivity|].
        rewrite <- !app_assoc in He. cbn [app] in He. exact He.
    + fold (isChar c). rewrite Hcc. rewrite (IH t); [reflexivity|cbn [length] in Hl; lia|exact Hct| |].
      * now apply has_sub_cons in Hd.
      * cbn [rev] in He. destruct (rev t) as [|z zs] eqn:Er; [reflexivity|]. cbn [app] in He. exact He.
Qed.

Theorem render_comment_wf : forall s rest, comment_ok s = true ->
  spec_comment (render_comment s ++ rest) = Some rest.
Proof.
  intros s rest H. unfold comment_ok in H.
  apply andb_true_iff in H. destruct H as [H He]. apply andb_true_iff in H. destruct H as [H Hd].
  apply andb_true_iff in H. destruct H as [Hc _].
  apply negb_true_iff in Hd, He.
  unfold spec_comment, render_comment. rewrite <- app_assoc, strip_app. cbn [bind].
  rewrite <- app_assoc. rewrite (comment_body_render (length s) s (le_n _) Hc Hd He rest). reflexivity.
Qed.

(** ** [5] Name followed by something that does not continue it *)
Definition stops_name (r : str) : Prop := match r with [] => True | x :: _ => eval spec_NameChar x = false end.

Lemma p_Name_app t r : is_Name t = true -> stops_name r -> p_Name (t ++ r) = Some (t, r).
Proof.
  unfold is_Name, p_Name. destruct t as [|c t]; [discriminate|]. intros H Hr.
  apply andb_true_iff in H. destruct H as [Hc Ht]. cbn [app]. rewrite Hc.
  destruct r as [|x r].
  - rewrite app_nil_r. now rewrite (span_all_nil _ t Ht).
  - now rewrite (span_all_stop _ t x r Ht Hr).
Qed.

(** ** white space runs *)
Lemma ws_char_cases k : ws_char k = c_sp \/ ws_char k = c_tab \/ ws_char k = c_lf \/ ws_char k = c_cr.
Proof.
  unfold ws_char. destruct (N.modulo k 4) as [|p]; [auto|].
  destruct p as [p|p|]; [auto| |auto]. destruct p as [p|p|]; auto.
Qed.

Lemma ws_char_S k : isS (ws_char k) = true.
Proof. destruct (ws_char_cases k) as [-> | [-> | [-> | ->]]]; reflexivity. Qed.

Lemma ws_run_S cnt k : forallb isS (ws_run cnt k) = true.
Proof. revert k; induction cnt as [|n IH]; intros k; cbn [ws_run forallb]; [reflexivity|]. now rewrite ws_char_S, IH. Qed.

Lemma isS_cases c : isS c = true -> c = 32%N \/ c = 9%N \/ c = 13%N \/ c = 10%N.
Proof.
  unfold isS, XmlChars.spec_S. cbn [eval existsb]. unfold in_range. cbn [fst snd]. intros H.
  repeat rewrite orb_true_iff in H. repeat rewrite andb_true_iff in H.
  repeat rewrite N.leb_le in H. repeat rewrite N.ltb_lt in H. lia.
Qed.

Lemma isS_not_namechar c : isS c = true -> eval spec_NameChar c = false.
Proof. intros H. destruct (isS_cases c H) as [-> | [-> | [-> | ->]]]; reflexivity. Qed.

Lemma p_S_run a r : a <> [] -> forallb isS a = true -> match r with [] => True | x :: _ => isS x = false end ->
  p_S (a ++ r) = Some r.
Proof.
  intros Hne Ha Hr. unfold p_S. destruct r as [|x r].
  - rewrite app_nil_r, (span_all_nil _ a Ha). destruct a; [now elim Hne|reflexivity].
  - rewrite (span_all_stop _ a x r Ha Hr). destruct a; [now elim Hne|reflexivity].
Qed.

(** ** scanning to "?>" *)
Lemma scan_to_eq d s : scan_to d s =
  match strip d s with
  | Some r => Some ([], r)
  | None => match s with
            | c :: t => if isChar c then bind (scan_to d t) (fun '(a, r) => Some (c :: a, r)) else None
            | [] => None
            end
  end.
Proof. destruct s; reflexivity. Qed.

Lemma scan_to_pi_close x rest : all_chars x = true -> has_sub s_pi_close x = false ->
  scan_to s_pi_close (x ++ s_pi_close ++ rest) = Some (x, rest).
Proof.
  induction x as [|c t IH]; intros Hc Hs.
  - cbn [app]. rewrite scan_to_eq, strip_app. reflexivity.
  - cbn [all_chars forallb] in Hc. apply andb_true_iff in Hc. destruct Hc as [Hcc Hct].
    cbn [app]. rewrite scan_to_eq.
    assert (Hn : strip s_pi_close (c :: t ++ s_pi_close ++ rest) = None).
    { cbn [has_sub] in Hs. apply orb_false_iff in Hs. destruct Hs as [Hs _]. unfold starts in Hs.
      unfold s_pi_close in *. cbn [strip] in *. destruct (N.eqb 63 c); [|reflexivity].
      destruct t as [|c2 t2]; cbn [app strip] in *; [reflexivity|].
      destruct (N.eqb 62 c2); [discriminate|reflexivity]. }
    rewrite Hn. rewrite Hcc. rewrite (IH Hct (has_sub_cons _ _ _ Hs)). reflexivity.
Qed.

(** ** [16] processing instructions *)
Theorem render_pi_wf : forall c p t d rest, pi_ok t d = true ->
  spec_pi (render_pi c p t d ++ rest) = Some rest.
Proof.
  intros c p t d rest H. unfold pi_ok in H.
  apply andb_true_iff in H. destruct H as [H Hd]. apply andb_true_iff in H. destruct H as [Ht _].
  unfold is_PITarget in Ht. apply andb_true_iff in Ht. destruct Ht as [Hn Hx]. apply negb_true_iff in Hx.
  unfold spec_pi, render_pi. rewrite <- app_assoc, strip_app. cbn [bind]. unfold p_pi_body.
  destruct d as [x|].
  - (* data *)
    apply andb_true_iff in Hd. destruct Hd as [Hd Hh]. apply andb_true_iff in Hd. destruct Hd as [Hd Hp].
    apply andb_true_iff in Hd. destruct Hd as [Hc _]. apply negb_true_iff in Hp.
    rewrite <- !app_assoc.
    assert (Hrun : S1 c p <> [] /\ forallb isS (S1 c p) = true).
    { unfold S1. split; [cbn [ws_run]; discriminate|apply ws_run_S]. }
    destruct Hrun as [Hne Hall].
    assert (Hhead : exists w ws, S1 c p = w :: ws /\ isS w = true).
    { destruct (S1 c p) as [|w ws]; [now elim Hne|]. cbn [forallb] in Hall. apply andb_true_iff in Hall. exists w, ws. tauto. }
    destruct Hhead as (w & ws & Ew & Hw).
    assert (En : p_Name (t ++ S1 c p ++ x ++ s_pi_close ++ rest) = Some (t, S1 c p ++ x ++ s_pi_close ++ rest)).
    { apply p_Name_app; [exact Hn|]. rewrite Ew. cbn [app stops_name]. now apply isS_not_namechar. }
    unfold str in *. rewrite En.
    cbn [bind]. rewrite Hx.
    assert (Hst : strip s_pi_close (S1 c p ++ x ++ s_pi_close ++ rest) = None).
    { rewrite Ew. cbn [app]. unfold s_pi_close. cbn [strip]. destruct (isS_cases w Hw) as [-> | [-> | [-> | ->]]]; reflexivity. }
    rewrite Hst.
    rewrite (p_S_run (S1 c p) (x ++ s_pi_close ++ rest) Hne Hall).
    + cbn [bind]. rewrite (scan_to_pi_close x rest Hc Hp). reflexivity.
    + destruct x as [|y x]; [reflexivity|]. cbn [app]. now apply negb_true_iff in Hh.
  - rewrite <- !app_assoc. cbn [app].
    assert (En : p_Name (t ++ s_pi_close ++ rest) = Some (t, s_pi_close ++ rest)).
    { apply p_Name_app; [exact Hn|]. reflexivity. }
    unfold str in *. rewrite En. cbn [bind]. rewrite Hx. rewrite strip_app. reflexivity.
Qed.

(** ** [66] character references: the digits written by [char_ref] are read back as the same number *)
Local Open Scope N_scope.

Lemma number_from (base : N) l : forall a0,
  fold_left (fun a d => a * base + hexval d) l a0 = a0 * base ^ (N.of_nat (length l)) + number base l.
Proof.
  unfold number. induction l as [|x l IH]; intros a0.
  - cbn [fold_left length]. change (N.of_nat 0) with 0. rewrite N.pow_0_r. lia.
  - cbn [fold_left length]. rewrite IH. rewrite (IH (0 * base + hexval x)).
    rewrite Nat2N.inj_succ, N.pow_succ_r'. lia.
Qed.

Lemma number_cons base x l : number base (x :: l) = hexval x * base ^ (N.of_nat (length l)) + number base l.
Proof. unfold number at 1. cbn [fold_left]. rewrite number_from. lia. Qed.

Definition digit_char (upper : bool) (d : N) : char := if d <? 10 then 48 + d else (if upper then 55 else 87) + d.

Lemma hexval_digit_char upper d : d < 16 -> hexval (digit_char upper d) = d.
Proof.
  intros H. unfold digit_char, hexval, isDigit. destruct (N.ltb_spec d 10).
  - replace ((48 <=? 48 + d) && (48 + d <=? 57))%bool with true; [lia|].
    symmetry. apply andb_true_iff. split; apply N.leb_le; lia.
  - destruct upper.
    + replace ((48 <=? 55 + d) && (55 + d <=? 57))%bool with false
        by (symmetry; apply andb_false_iff; right; apply N.leb_gt; lia).
      replace (55 + d <=? 70) with true by (symmetry; apply N.leb_le; lia). lia.
    + replace ((48 <=? 87 + d) && (87 + d <=? 57))%bool with false
        by (symmetry; apply andb_false_iff; right; apply N.leb_gt; lia).
      replace (87 + d <=? 70) with false by (symmetry; apply N.leb_gt; lia). lia.
Qed.

Lemma digits_of_eq f base upper n acc : digits_of (S f) base upper n acc =
  (if n / base =? 0 then digit_char upper (n mod base) :: acc
   else digits_of f base upper (n / base) (digit_char upper (n mod base) :: acc)).
Proof. reflexivity. Qed.

Lemma digits_of_number base upper : 1 < base -> base <= 16 -> forall f n acc, n < base ^ (N.of_nat f) ->
  number base (digits_of f base upper n acc) = n * base ^ (N.of_nat (length acc)) + number base acc.
Proof.
  intros Hb1 Hb16. induction f as [|f IH]; intros n acc Hn.
  - change (N.of_nat 0) with 0 in Hn. rewrite N.pow_0_r in Hn. assert (n = 0) by lia. subst n. cbn [digits_of]. lia.
  - rewrite digits_of_eq. pose proof (N.div_mod' n base) as Hdm.
    assert (Hm : n mod base < base) by (apply N.mod_lt; lia).
    destruct (N.eqb_spec (n / base) 0) as [Hq|Hq].
    + rewrite number_cons, hexval_digit_char by lia. rewrite Hq in Hdm. lia.
    + rewrite IH.
      * cbn [length]. rewrite number_cons, hexval_digit_char by lia.
        rewrite Nat2N.inj_succ, N.pow_succ_r'. rewrite Hdm at 3. lia.
      * rewrite Nat2N.inj_succ, N.pow_succ_r' in Hn. apply N.div_lt_upper_bound; lia.
Qed.

Lemma digit_char_class base upper d (cls : char -> bool) :
  d < base -> (base = 10 /\ cls = isDigit) \/ (base = 16 /\ cls = isHex) -> cls (digit_char upper d) = true.
Proof.
  intros Hd [[-> ->]|[-> ->]]; unfold digit_char, isHex, isDigit.
  - replace (d <? 10) with true by (symmetry; apply N.ltb_lt; lia).
    apply andb_true_iff; split; apply N.leb_le; lia.
  - destruct (N.ltb_spec d 10).
    + apply orb_true_iff; left. apply orb_true_iff; left. apply andb_true_iff; split; apply N.leb_le; lia.
    + destruct upper.
      * apply orb_true_iff; left. apply orb_true_iff; right. apply andb_true_iff; split; apply N.leb_le; lia.
      * apply orb_true_iff; right. apply andb_true_iff; split; apply N.leb_le; lia.
Qed.

Lemma digits_of_class base upper cls : 1 < base -> (base = 10 /\ cls = isDigit) \/ (base = 16 /\ cls = isHex) ->
  forall f n acc, forallb cls acc = true -> forallb cls (digits_of f base upper n acc) = true.
Proof.
  intros Hb Hc. induction f as [|f IH]; intros n acc Ha; [exact Ha|].
  rewrite digits_of_eq.
  assert (Hd : cls (digit_char upper (n mod base)) = true) by (apply (digit_char_class base); [apply N.mod_lt; lia|exact Hc]).
  destruct (n / base =? 0); [|apply IH]; cbn [forallb]; now rewrite Hd, Ha.
Qed.

Lemma digits_of_nonempty f base upper n acc : digits_of (S f) base upper n acc <> [].
Proof.
  revert n acc; induction f as [|f IH]; intros n acc; rewrite digits_of_eq; destruct (n / base =? 0); try discriminate.
  apply IH.
Qed.

Lemma number_zeros base k l : number base (repeat 48 k ++ l) = number base l.
Proof.
  induction k as [|k IH]; cbn [repeat app]; [reflexivity|].
  rewrite number_cons, IH. change (hexval 48) with 0. lia.
Qed.

Lemma forallb_repeat (f : char -> bool) x k : f x = true -> forallb f (repeat x k) = true.
Proof. intros H. induction k; cbn [repeat forallb]; [reflexivity|]. now rewrite H. Qed.

Lemma p_digits_semi_render base cls ds rest : ds <> [] -> forallb cls ds = true -> cls c_semi = false ->
  p_digits_semi base cls (ds ++ c_semi :: rest) = Some (RChar (number base ds), rest).
Proof.
  intros Hne Hc Hs. unfold p_digits_semi. pose proof (span_all_stop cls ds c_semi rest Hc Hs) as E.
  destruct (span cls (ds ++ c_semi :: rest)) as [a b] eqn:Es.
  assert (Hab : (a, b) = (ds, c_semi :: rest)) by (rewrite <- Es; exact E).
  injection Hab as -> ->. destruct ds; [now elim Hne|]. now rewrite N.eqb_refl.
Qed.

(** the reference is read back as the character it was written for; [tl] drops the ampersand *)
Theorem char_ref_roundtrip : forall k ch rest, ch < 100000000 ->
  p_ref (tl (char_ref k ch) ++ rest) = Some (RChar ch, rest).
Proof.
  intros k ch rest Hch. unfold char_ref. set (z := N.to_nat ((k / 4) mod 4)).
  destruct (k mod 2 =? 0).
  - (* decimal *)
    cbn [app tl]. unfold p_ref. change (c_hash =? c_hash) with true. cbv iota.
    set (ds := digits_of 8 10 false ch []).
    assert (Hcls : forallb isDigit (repeat 48 z ++ ds) = true).
    { rewrite forallb_app. apply andb_true_iff. split; [apply forallb_repeat; reflexivity|].
      apply (digits_of_class 10 false isDigit); [lia|auto|reflexivity]. }
    assert (Hne : repeat 48 z ++ ds <> []).
    { intros H. apply app_eq_nil in H. destruct H as [_ H]. now apply (digits_of_nonempty 7 10 false ch []) in H. }
    assert (Hnum : number 10 (repeat 48 z ++ ds) = ch).
    { rewrite number_zeros. unfold ds. rewrite (digits_of_number 10 false) by (try lia; exact Hch). cbn [length]. cbn. lia. }
    assert (Er : (repeat 48 z ++ ds ++ [c_semi]) ++ rest = (repeat 48 z ++ ds) ++ c_semi :: rest)
      by (rewrite <- !app_assoc; reflexivity).
    unfold str, char in *. rewrite Er.
    destruct (repeat 48 z ++ ds) as [|x u] eqn:E; [now elim Hne|]. cbn [app].
    assert (Hx : x =? c_x = false).
    { cbn [forallb] in Hcls. apply andb_true_iff in Hcls. destruct Hcls as [Hx _]. unfold isDigit in Hx.
      apply andb_true_iff in Hx. destruct Hx as [_ Hx]. apply N.leb_le in Hx. apply N.eqb_neq. unfold c_x. lia. }
    rewrite Hx. change (x :: u ++ c_semi :: rest) with ((x :: u) ++ c_semi :: rest).
    rewrite (p_digits_semi_render 10 isDigit (x :: u) rest) by (try discriminate; try reflexivity; exact Hcls).
    now rewrite Hnum.
  - (* hexadecimal *)
    cbn [app tl]. unfold p_ref. change (c_hash =? c_hash) with true. cbv iota. change (c_x =? c_x) with true. cbv iota.
    set (ds := digits_of 8 16 ((k / 2) mod 2 =? 1) ch []).
    assert (Hcls : forallb isHex (repeat 48 z ++ ds) = true).
    { rewrite forallb_app. apply andb_true_iff. split; [apply forallb_repeat; reflexivity|].
      apply (digits_of_class 16 _ isHex); [lia|auto|reflexivity]. }
    assert (Hne : repeat 48 z ++ ds <> []).
    { intros H. apply app_eq_nil in H. destruct H as [_ H]. now apply (digits_of_nonempty 7 16 _ ch []) in H. }
    assert (Hnum : number 16 (repeat 48 z ++ ds) = ch).
    { rewrite number_zeros. unfold ds. rewrite (digits_of_number 16) by (try lia; cbn; lia). cbn [length]. cbn. lia. }
    assert (Er : (repeat 48 z ++ ds ++ [c_semi]) ++ rest = (repeat 48 z ++ ds) ++ c_semi :: rest)
      by (rewrite <- !app_assoc; reflexivity).
    unfold str, char in *. rewrite Er.
    rewrite (p_digits_semi_render 16 isHex _ rest Hne Hcls eq_refl). now rewrite Hnum.
Qed.
