(** * C08 -- equivalent XPath spellings evaluate identically; precedence per grammar.

    FULL STATEMENT (DESIGN 5, C08):

      Theorem parse_spell : forall a sp, ok_spelling a sp ->
        exists e, parse_expr (spell a sp) = POk e [] /\ abs_or e ≈ a.
      Theorem spelling_irrelevant : forall doc bind a sp1 sp2,
        ok_spelling a sp1 -> ok_spelling a sp2 ->
        query_model doc bind (spell a sp1) = query_model doc bind (spell a sp2).
      (proved: [parse_spell], and [spelling_irrelevant_partial] = the second statement for the
      values, under the hypotheses listed below)

    where [a : xexpr] ranges over all abstract syntax trees of XPath 1.0 (Spec/XPathSyntax.v), a
    spelling [sp] of [a] is ANY tree derivable from the grammar of the recommendation that the
    recommendation declares equivalent to [a] (abbreviated or unabbreviated steps, [//], [.],
    [..], [@], omitted [child::], [n] or [position()=n], redundant parentheses) together with
    any choice of white space between tokens, [parse_expr] is the model of
    [xml_xpath::expr::parse] (the grammar REGENERATED from xpath/src/expr/mod.rs by T2,
    interpreted by Model/Peg.v, with the [map] functions interpreted by
    Model/ParseActionsXPath.v), and [abs_or] reads the Rust AST as a tree of the recommendation.

    PROVED HERE:
    - [parse_spell]: the first statement, for EVERY tree and every spelling of it, under the one
      hypothesis [no_fname_case (surface sp)] that excludes known finding C08-fname-case (after
      the D28 repair a function name that equals a NodeType up to letter case is rejected;
      [fname_case_refuted] is the witness [Text()]).  It is in fact stronger than [≈]: the
      parser returns exactly the tree that was spelled ([parse_spell_surface]): operators,
      unary minus, literals, numbers, variables, function calls, parentheses, filter expressions,
      predicates, the root, location paths with every axis, node test and abbreviation.
    - precedence and left associativity as corollaries: [precedence_right], [precedence_left],
      [left_assoc], [unary_binds_tighter], [union_binds_tightest],
      [other_grouping_needs_parentheses]; [parse_spell_partial_operators] is the first rung of
      the ladder (kept for reference).
    - the parser half of C06: [xpath_parse_terminates] (no input exhausts the fuel) and
      [parse_expr_total] / [parse_expr_never_panics] (on every string: a tree or a syntax error;
      no [unreachable!()] arm is reached).  The cost bound is established by the check only.

    - the evaluation half, [spelling_irrelevant_partial]: [query_model doc bind s] is
      xpath/src/lib.rs [query] on the models (parse [s] with [parse_expr], refuse unconsumed
      input, evaluate the AST with Model/XPathEval.v [query] from the document node in a fresh
      context carrying the bindings [bind]; Proofs/XPathSpellingMain.v).  For every document
      table satisfying [DocInv] (the table is a tree and the order keys of its non-namespace
      nodes are non-zero and increase in document order -- decidable, Model/XDocCheck.v
      [doc_inv_b]; among the generated documents it fails only for those with DTD-default
      attributes, finding D19), every
      binding list [bind], every tree [a] without the namespace axis
      ([xnons a]) and ANY two spellings of [a] (parentheses, abbreviated or unabbreviated steps,
      [//] or [/descendant-or-self::node()/], [n] or [position() = n], white space):
        forall v, query_model doc bind (spell a sp1) = QValue v <->
                  query_model doc bind (spell a sp2) = QValue v
      i.e. the two strings evaluate to the SAME VALUE, or neither evaluates to a value
      ([spelling_irrelevant_fails]).  Route: the parser returns exactly the tree spelled
      ([parse_spell_surface]) and only ASTs in which every union has an operand
      (Proofs/XPathParseShaped.v [parse_shaped]); on such ASTs the evaluator IS the evaluator
      [xeval] composed along the abstract tree (Proofs/XPathAbsEval.v [eval_abs]: same result
      and same context for every context, errors and panics included, no hypothesis on the
      document -- parentheses are transparent because the [union_finish] of the single-operand
      union branch is the identity on the strictly key-sorted value of an expression, and a left
      fold of unions may finish its operands early: [uf_app_l], [uf_app_r]); [xeval a] and
      [xeval (norm a)] have the same successful outcomes (Proofs/XPathSpelling.v [xeval_norm]):
      [@], the omitted axis, [.] and [..] by computation, [n] against [position() = n] by
      unfolding the call of [position()] (an unprefixed function name is in no namespace, whatever
      the bindings: see D63 below), [//] by the
      node-level description of what a list of steps selects (Proofs/XPathReach.v:
      [xstepops_char], [path_char], [NI_equiv]).
      [ex_same_value] / [ex_value] (Proofs/XPathSpellingExamples.v) instantiate it with
      [//b[1]/..] against [( / descendant-or-self::node() / child::b [ position() = 1]/parent::node() )]
      on a dumped document.

    - the same conclusion with EVERY axis (the namespace axis included) and on documents with
      nodes of order key 0 (DTD-default attributes, the implicit xml namespace node: finding D19):
      [spelling_irrelevant_ord_partial], under [DocOrd doc] instead of [DocInv doc] and [xnons a]:
      the table is a tree ([DocWf]), NON-ZERO order keys identify rows ([keys_inj]) and the
      descendant-or-self list of every row is key-sorted ([dos_sorted]: the sort that the explicit
      step applies is the identity) -- decidable, [XPathSpellingOrd.doc_ord_b], sound by
      [doc_ord_b_sound]; it holds on every dumped example table, the one with DTD-default
      attributes included ([c08_dtd_doc_ord]).  Nodes with key 0 survive the de-duplication after
      a step but the final [union_finish] keeps the FIRST of them, so here the proof follows the
      ORDER of first occurrence in the collected lists ([XPathReachOrd.feq]: every search finds
      the same first hit) through a pure description of the evaluation of a list of steps
      ([PT], [DT], [xstepops_pure], [PT_feq], [PT_app], [PT_flat], [NIv_feq], [path_equivV],
      [uf_sort_feq]).  Example [ex_ord_same] / [ex_ord_value]:
      [//a//@d | //a//namespace::*] against the unabbreviated spelling on a document whose [d]
      attributes come from the DTD.

    - everything except [//], at full strength: [spelling_irrelevant_light]: two spellings with the
      same LIGHT normal form ([XPathSpellingLight.lnorm]: parentheses dropped, [@] / the omitted axis /
      [.] / [..] expanded, a numeric predicate turned into [position() = n]; the separators [/] and
      [//] stay where they are; a sub-relation of [≈]: [lnorm_equiv]) have EQUAL [query_model]
      results -- same value, same error, same panic -- on EVERY document table and for every axis
      (no [DocInv], no [xnons]) and for every binding list; and
      [white_space_irrelevant]: white space and the quote of a literal never matter (no hypothesis
      at all).  Underneath: [xeval_lnorm], the two evaluations are the same state-and-result
      computation (same context afterwards, too).  So the hypotheses [DocInv] and [xnons] of
      [spelling_irrelevant_partial] serve the equivalence [//] = [/descendant-or-self::node()/] only.

    WHAT THE EVALUATION HALF DOES NOT SAY.  The full statement above is FALSE for the model, and for
    the code (the witness was run on the real [query] with work/xp/q.py), in one respect:
    - [error_order_refuted]: when both spellings fail they may fail with DIFFERENT errors: [//x/y]
      runs the whole relative path from one start node after the other,
      [/descendant-or-self::node()/x/y] runs step [x] from all of them before step [y], so a failing
      predicate of [y] and a failing predicate of [x] are met in different orders (both results are
      errors, only the error differs).  This is why [spelling_irrelevant_partial] speaks of values;
    A second difference was found with these proofs and has been REPAIRED (D63, repaired in
    9d405ca): a default-namespace binding in the context ([Context::add_ns(None, ..)], an extension:
    XPath 1.0 has no default namespace in the expression context) made every unprefixed function
    name unknown, because [eval_func_expr] expanded it like an element name; [/*/*[position() = 1]]
    was the error NotFoundFunction(position) where [/*/*[1]] had a value.  Model/XPathEval.v
    [fn_key] mirrors the repaired code; the hypothesis [ns_lookup bind None = None] that all the
    theorems of the evaluation half carried is gone, the former witness is now the instance
    [ex_default_namespace_same] of [spelling_irrelevant_light].  (A default binding still applies
    to NAME TESTS, in both spellings alike.)
    Not covered, without a known counterexample (for [//] only; [spelling_irrelevant_light] covers
    every table for all the other equivalences): tables that satisfy neither [DocInv] (with a tree
    free of the namespace axis) nor [DocOrd].
    The failing-input search of checks/C08.py still evaluates every generated spelling pair on
    the real [query]. *)
From Coq Require Import List NArith Arith Bool.
From XmlRs Require Import Base.CPred Spec.XPathSyntax Model.Peg Model.XPathAst
  Model.ParseActionsXPath Model.XPathAstAbs Proofs.XPathParseExpr Proofs.XPathParseMain Proofs.XPathSyntaxLemmas Proofs.XPathParsePrecedence Proofs.XPathParseTotal.
From XmlRs Require Model.XDoc Model.XPathEval Proofs.XPathCanon Proofs.XPathAstShaped Proofs.XPathParseShaped Proofs.XPathAbsEval
  Proofs.XPathAbsInv Proofs.XPathSpellingOrd Proofs.XPathSpellingLight Proofs.XPathSpellingMain Proofs.XPathSpellingExamples.
Import ListNotations.

(** [Theorem]s have their assumptions re-checked on every run of checks/C08.py; [Corollary]s are
    consequences of them (their [Print Assumptions] is at the end of this file). *)

(** the parser of XPath expressions terminates on every input (parser half of C06) *)
Theorem xpath_parse_terminates : forall s : str, run_expr s <> Oof.
Proof. exact xpath_parse_terminates_proof. Qed.

Corollary xpath_parse_never_oof : forall s : str, parse_expr s <> POof.
Proof. exact xpath_parse_never_oof_proof. Qed.

(** ... and never panics: on EVERY string the parser answers a tree or a syntax error; none of the
    [unreachable!()] arms of expr/model.rs is reachable, no [map] function is applied to a value
    of the wrong type (parser half of C06, for the model of [expr::parse]) *)
Theorem parse_expr_total : forall s : str, (exists e r, parse_expr s = POk e r) \/ parse_expr s = PErr.
Proof. exact XPathParseTotal.parse_expr_total. Qed.

Corollary parse_expr_never_panics : forall s : str,
  parse_expr s <> PPanic /\ parse_expr s <> PBad /\ parse_expr s <> POof.
Proof. exact XPathParseTotal.parse_expr_never_panics. Qed.

(** the surface round trip: what was spelled is what is parsed *)
Theorem parse_spell_surface : forall (a : xexpr) (w : wtree),
  wfb a = true -> no_fname_case a = true -> ws_ok w = true ->
  exists e, parse_expr (spell_surface a w) = POk e [] /\ abs_or e = a.
Proof. exact parse_spell_surface_proof. Qed.

(** every spelling of every tree is accepted completely and means the tree (up to the
    equivalences of the recommendation) *)
Theorem parse_spell : forall (a : xexpr) (sp : spelling),
  ok_spelling a sp -> no_fname_case (surface sp) = true ->
  exists e, parse_expr (spell a sp) = POk e [] /\ abs_or e ≈ a.
Proof. exact parse_spell_proof. Qed.

(** the hypothesis [ok_spelling] is satisfiable for every tree with lexically valid leaves *)
Corollary every_tree_has_a_spelling : forall (a : xexpr) (w : wtree),
  leaves_ok a = true -> ws_ok w = true -> ok_spelling a {| surface := paren a; white := w |}.
Proof. exact every_tree_has_a_spelling_proof. Qed.

(** precedence in general: the spelling of ANY tree with only the parentheses the grammar demands
    ([paren]: minimal parentheses) parses back to that tree *)
Theorem parse_spell_minimal : forall (a : xexpr) (w : wtree),
  leaves_ok a = true -> no_fname_case a = true -> ws_ok w = true ->
  exists e, parse_expr (spell_surface (paren a) w) = POk e [] /\ abs_or e ≈ a.
Proof. exact parse_spell_minimal_proof. Qed.

(** abbreviated against unabbreviated: spelling a derivable tree with every abbreviation that
    applies gives a string that parses to an equivalent tree *)
Theorem parse_spell_abbreviated : forall (a : xexpr) (w : wtree),
  wfb a = true -> no_fname_case a = true -> ws_ok w = true ->
  exists e, parse_expr (spell_surface (abbreviate a) w) = POk e [] /\ abs_or e ≈ a.
Proof. exact parse_spell_abbreviated_proof. Qed.

(** any two spellings of one tree are accepted completely and parse to equivalent trees *)
Theorem spellings_agree : forall a sp1 sp2,
  ok_spelling a sp1 -> ok_spelling a sp2 ->
  no_fname_case (surface sp1) = true -> no_fname_case (surface sp2) = true ->
  exists e1 e2, parse_expr (spell a sp1) = POk e1 [] /\ parse_expr (spell a sp2) = POk e2 [] /\ abs_or e1 ≈ abs_or e2.
Proof. exact spellings_agree_proof. Qed.

(** rung 1 of the ladder *)
Corollary parse_spell_surface_operators : forall (a : xexpr) (w : wtree),
  wfb a = true -> rung1 a = true -> ws_ok w = true ->
  exists e, parse_expr (spell_surface a w) = POk e [] /\ abs_or e = a.
Proof. exact parse_spell_surface_operators_proof. Qed.

Corollary parse_spell_partial_operators : forall (a : xexpr) (sp : spelling),
  ok_spelling a sp -> rung1 (surface sp) = true ->
  exists e, parse_expr (spell a sp) = POk e [] /\ abs_or e ≈ a.
Proof. exact parse_spell_partial_operators_proof. Qed.

(** [a o1 b o2 c] with [o2] binding tighter groups to the right *)
Corollary precedence_right : forall o1 o2 a b c w,
  (lvl o1 < lvl o2)%nat -> operand a -> operand b -> operand c -> ws_ok w = true ->
  exists e, parse_expr (spell_surface (XBin o1 a (XBin o2 b c)) w) = POk e [] /\
            abs_or e = XBin o1 a (XBin o2 b c).
Proof. exact precedence_right_proof. Qed.

(** [a o1 b o2 c] with [o1] binding at least as tight groups to the left: higher precedence on
    the left, and LEFT ASSOCIATIVITY when the levels are equal *)
Corollary precedence_left : forall o1 o2 a b c w,
  (lvl o2 <= lvl o1)%nat -> operand a -> operand b -> operand c -> ws_ok w = true ->
  exists e, parse_expr (spell_surface (XBin o2 (XBin o1 a b) c) w) = POk e [] /\
            abs_or e = XBin o2 (XBin o1 a b) c.
Proof. exact precedence_left_proof. Qed.

Corollary left_assoc : forall o a b c w,
  operand a -> operand b -> operand c -> ws_ok w = true ->
  exists e, parse_expr (spell_surface (XBin o (XBin o a b) c) w) = POk e [] /\
            abs_or e = XBin o (XBin o a b) c.
Proof. exact left_assoc_proof. Qed.

(** the other grouping is not what the unparenthesised string means: it is not derivable
    without parentheses *)
Corollary other_grouping_needs_parentheses : forall o1 o2 a b c,
  ((lvl o1 < lvl o2)%nat -> wfb (XBin o2 (XBin o1 a b) c) = false) /\
  ((lvl o2 <= lvl o1)%nat -> wfb (XBin o1 a (XBin o2 b c)) = false).
Proof. exact other_grouping_needs_parentheses_proof. Qed.

(** unary minus binds tighter than every binary operator except union ... *)
Corollary unary_binds_tighter : forall o a b w,
  (lvl o < 6)%nat -> operand a -> operand b -> ws_ok w = true ->
  exists e, parse_expr (spell_surface (XBin o (XNeg a) b) w) = POk e [] /\
            abs_or e = XBin o (XNeg a) b.
Proof. exact unary_binds_tighter_proof. Qed.

(** ... and looser than union: the spelling of -(a|b) needs no parentheses *)
Corollary union_binds_tightest : forall a b w,
  operand a -> operand b -> ws_ok w = true ->
  exists e, parse_expr (spell_surface (XNeg (XBin BUnion a b)) w) = POk e [] /\
            abs_or e = XNeg (XBin BUnion a b).
Proof. exact union_binds_tightest_proof. Qed.

(** the hypotheses are satisfiable by a non-trivial value (Proofs/XPathParsePrecedence.v) *)
Check ex_hypotheses : wfb ex_tree = true /\ rung1 ex_tree = true /\ ws_ok ex_white = true.
Check ex_path_hypotheses : wfb ex_path = true /\ no_fname_case ex_path = true.
Check ex_path_parses : exists e, parse_expr (spell_surface ex_path (W false [] [])) = POk e [] /\ abs_or e = ex_path.

(** the known finding: a function name that differs from a NodeType only in letter case *)
Theorem fname_case_refuted : exists f : xqname,
  KnownFnameCase f = true /\ wfb (XCall f []) = true /\
  forall e, parse_expr (spell_surface (XCall f []) (W false [] [])) <> POk e [].
Proof. exact fname_case_refuted_proof. Qed.

(** ** the evaluation half *)

(** the parser only produces ASTs in which every union has an operand *)
Theorem parse_shaped : forall (s : str) e r, parse_expr s = POk e r -> XPathAstShaped.sh_or e = true.
Proof. exact XPathParseShaped.parse_shaped. Qed.

(** on such ASTs the evaluator of the Rust AST is the evaluator on the abstract tree: same result,
    same context, for every document, context node and context *)
Theorem eval_abs : forall doc (e : expr) n c, XPathAstShaped.sh_or e = true ->
  XPathEval.eval_expr doc e n c = XPathAbsEval.xeval doc (abs_or e) n c.
Proof. exact XPathAbsEval.eval_abs. Qed.

(** two spellings of one tree evaluate to the same value, or neither evaluates to a value *)
Theorem spelling_irrelevant_partial : forall doc bind a sp1 sp2,
  ok_spelling a sp1 -> ok_spelling a sp2 ->
  no_fname_case (surface sp1) = true -> no_fname_case (surface sp2) = true ->
  XPathCanon.DocInv doc -> XPathAbsInv.xnons a = true ->
  forall v, XPathSpellingMain.query_model doc bind (spell a sp1) = XPathSpellingMain.QValue v <->
            XPathSpellingMain.query_model doc bind (spell a sp2) = XPathSpellingMain.QValue v.
Proof. exact XPathSpellingMain.spelling_irrelevant_ok_proof. Qed.

Corollary spelling_irrelevant_fails : forall doc bind a sp1 sp2,
  ok_spelling a sp1 -> ok_spelling a sp2 ->
  no_fname_case (surface sp1) = true -> no_fname_case (surface sp2) = true ->
  XPathCanon.DocInv doc -> XPathAbsInv.xnons a = true ->
  ((forall v, XPathSpellingMain.query_model doc bind (spell a sp1) <> XPathSpellingMain.QValue v) <->
   (forall v, XPathSpellingMain.query_model doc bind (spell a sp2) <> XPathSpellingMain.QValue v)).
Proof. exact XPathSpellingMain.spelling_irrelevant_fails_proof. Qed.

(** every axis, documents with nodes of order key 0 (finding D19): [DocOrd] instead of [DocInv] and [xnons] *)
Theorem spelling_irrelevant_ord_partial : forall doc bind a sp1 sp2,
  ok_spelling a sp1 -> ok_spelling a sp2 ->
  no_fname_case (surface sp1) = true -> no_fname_case (surface sp2) = true ->
  XPathSpellingOrd.DocOrd doc ->
  forall v, XPathSpellingMain.query_model doc bind (spell a sp1) = XPathSpellingMain.QValue v <->
            XPathSpellingMain.query_model doc bind (spell a sp2) = XPathSpellingMain.QValue v.
Proof. exact XPathSpellingMain.spelling_irrelevant_ord_proof. Qed.

Corollary doc_ord_b_sound : forall doc, XPathSpellingOrd.doc_ord_b doc = true -> XPathSpellingOrd.DocOrd doc.
Proof. exact XPathSpellingOrd.doc_ord_b_sound. Qed.

Corollary spelling_irrelevant_ord_context_partial : forall doc a sp1 sp2 e1 e2 c,
  ok_spelling a sp1 -> ok_spelling a sp2 ->
  no_fname_case (surface sp1) = true -> no_fname_case (surface sp2) = true ->
  parse_expr (spell a sp1) = POk e1 [] -> parse_expr (spell a sp2) = POk e2 [] ->
  XPathSpellingOrd.DocOrd doc ->
  forall v c', XPathEval.query doc e1 c = (XDoc.Ok v, c') <-> XPathEval.query doc e2 c = (XDoc.Ok v, c').
Proof. exact XPathSpellingMain.spelling_irrelevant_ord_context_proof. Qed.

(** the same for an arbitrary context (not only a fresh one), with the context that is left *)
Corollary spelling_irrelevant_context_partial : forall doc a sp1 sp2 e1 e2 c,
  ok_spelling a sp1 -> ok_spelling a sp2 ->
  no_fname_case (surface sp1) = true -> no_fname_case (surface sp2) = true ->
  parse_expr (spell a sp1) = POk e1 [] -> parse_expr (spell a sp2) = POk e2 [] ->
  XPathCanon.DocInv doc -> XPathAbsInv.xnons a = true ->
  forall v c', XPathEval.query doc e1 c = (XDoc.Ok v, c') <-> XPathEval.query doc e2 c = (XDoc.Ok v, c').
Proof. exact XPathSpellingMain.spelling_irrelevant_context_proof. Qed.

(** white space between tokens never matters: equal results, no hypothesis on document, bindings or axes *)
Theorem white_space_irrelevant : forall doc bind (a : xexpr) (w1 w2 : wtree),
  wfb a = true -> no_fname_case a = true -> ws_ok w1 = true -> ws_ok w2 = true ->
  XPathSpellingMain.query_model doc bind (spell_surface a w1) = XPathSpellingMain.query_model doc bind (spell_surface a w2).
Proof. exact XPathSpellingMain.white_space_irrelevant_proof. Qed.

(** parentheses, [@], the omitted axis, [.], [..], [n] against [position() = n], white space: EQUAL results
    (values, errors, panics) on every document *)
Theorem spelling_irrelevant_light : forall doc bind a sp1 sp2,
  ok_spelling a sp1 -> ok_spelling a sp2 ->
  no_fname_case (surface sp1) = true -> no_fname_case (surface sp2) = true ->
  XPathSpellingLight.lnorm (surface sp1) = XPathSpellingLight.lnorm (surface sp2) ->
  XPathSpellingMain.query_model doc bind (spell a sp1) = XPathSpellingMain.query_model doc bind (spell a sp2).
Proof. exact XPathSpellingMain.spelling_irrelevant_light_proof. Qed.

Corollary spelling_irrelevant_light_context : forall doc a sp1 sp2 e1 e2 c,
  ok_spelling a sp1 -> ok_spelling a sp2 ->
  no_fname_case (surface sp1) = true -> no_fname_case (surface sp2) = true ->
  parse_expr (spell a sp1) = POk e1 [] -> parse_expr (spell a sp2) = POk e2 [] ->
  XPathSpellingLight.lnorm (surface sp1) = XPathSpellingLight.lnorm (surface sp2) ->
  XPathEval.query doc e1 c = XPathEval.query doc e2 c.
Proof. exact XPathSpellingMain.spelling_irrelevant_light_context_proof. Qed.

Corollary lnorm_equiv : forall a b, XPathSpellingLight.lnorm a = XPathSpellingLight.lnorm b -> a ≈ b.
Proof. exact XPathSpellingLight.lnorm_equiv. Qed.

(** the full statement does not hold: two spellings may fail with different errors ([//a[@k or foo()]/b[bar()]]
    against [/descendant-or-self::node()/a[@k or foo()]/b[bar()]] on [<r><a k="1"><b/><a/></a></r>]:
    NotFoundFunction(bar) against NotFoundFunction(foo), model and implementation) *)
Theorem error_order_refuted : exists doc bind a sp1 sp2,
  ok_spelling a sp1 /\ ok_spelling a sp2 /\
  no_fname_case (surface sp1) = true /\ no_fname_case (surface sp2) = true /\
  XPathCanon.DocInv doc /\ XPathAbsInv.xnons a = true /\
  XPathSpellingMain.query_model doc bind (spell a sp1) <> XPathSpellingMain.query_model doc bind (spell a sp2).
Proof. exact XPathSpellingExamples.error_order_refuted_proof. Qed.

(** under a default-namespace binding (an extension of the API) the two spellings [/*/*[1]] and
    [/*/*[position() = 1]] used to differ (defect D63, repaired in 9d405ca); now an instance of
    [spelling_irrelevant_light] *)
Check XPathSpellingExamples.ex_default_namespace.
Check XPathSpellingExamples.ex_default_namespace_same.

(** the hypotheses are satisfiable by a non-trivial value: a dumped document, two different strings *)
Check XPathSpellingExamples.ex_hypotheses.
Check XPathSpellingExamples.ex_spell2_differs : spell XPathSpellingExamples.ex_short XPathSpellingExamples.ex_sp2 <> spell XPathSpellingExamples.ex_short XPathSpellingExamples.ex_sp1.
Check XPathSpellingExamples.c08_dtd_doc_ord.
Check XPathSpellingExamples.ex_ord_hypotheses.
Check XPathSpellingExamples.ex_ord_same.
Check XPathSpellingExamples.ex_ord_value.
Check XPathSpellingExamples.ex_light_hypotheses.
Check XPathSpellingExamples.ex_light_same.
Check XPathSpellingExamples.ex_value2 :
  XPathSpellingMain.query_model XPathSpellingExamples.c08_doc [] (spell XPathSpellingExamples.ex_short XPathSpellingExamples.ex_sp2)
  = XPathSpellingMain.QValue (XPathEval.XNodes [3%N]).

Print Assumptions xpath_parse_terminates.
Print Assumptions parse_expr_total.
Print Assumptions parse_expr_never_panics.
Print Assumptions parse_spell_surface.
Print Assumptions parse_spell.
Print Assumptions every_tree_has_a_spelling.
Print Assumptions parse_spell_minimal.
Print Assumptions parse_spell_abbreviated.
Print Assumptions spellings_agree.
Print Assumptions parse_spell_surface_operators.
Print Assumptions parse_spell_partial_operators.
Print Assumptions precedence_right.
Print Assumptions precedence_left.
Print Assumptions left_assoc.
Print Assumptions other_grouping_needs_parentheses.
Print Assumptions unary_binds_tighter.
Print Assumptions union_binds_tightest.
Print Assumptions fname_case_refuted.
Print Assumptions parse_shaped.
Print Assumptions eval_abs.
Print Assumptions spelling_irrelevant_partial.
Print Assumptions spelling_irrelevant_fails.
Print Assumptions spelling_irrelevant_ord_partial.
Print Assumptions doc_ord_b_sound.
Print Assumptions spelling_irrelevant_ord_context_partial.
Print Assumptions white_space_irrelevant.
Print Assumptions spelling_irrelevant_light.
Print Assumptions lnorm_equiv.
Print Assumptions spelling_irrelevant_context_partial.
Print Assumptions spelling_irrelevant_light_context.
Print Assumptions error_order_refuted.
