(** * The converse direction for the DOCTYPE rung, part 5: the constraints.

    (A) [cer_complete]: the depth-first check of XmlDocument::new ([check_entity_ref], with its memory of
    finished / unfinished entities and its fuel) answers Ok for every entity that is GOOD at some height
    ([goodb] of Proofs/XmlWFSyntaxEntRec.v), when the declared entities are SIMPLE (no markup in entity
    values): the converse of [cer_sound].  (B) what Spec/XmlWF.v expands / re-reads without error is good.
    Hence a reference the specification accepts is resolved by the model ([ref_content_complete],
    [ref_attr_complete]). *)
From Coq Require Import List NArith Arith Lia Bool.
From XmlRs Require Import Base.CPred Spec.XmlChars Model.Peg Gen.XmlcharGen Gen.GrammarXmlGen Model.ParseActions Model.Info Model.Display
     Proofs.XmlcharProofs Proofs.PegTermination Proofs.GrammarTermination Proofs.PegLemmas Proofs.PegInv Proofs.Expansion Proofs.PipelineTotal
     Proofs.DisplayLex Proofs.ActionLemmas Proofs.DisplayElem Proofs.DisplayRun Proofs.DisplayDoc Proofs.DisplayDtd
     Proofs.ParseInv Proofs.ParseInvElem Proofs.ParseInvBuild Proofs.ParseInvDtd Proofs.ParseInvDoc
     Proofs.XmlWFSyntaxLex Proofs.XmlWFSyntaxElem Proofs.XmlWFSyntaxDoc Proofs.XmlWFSyntaxCheck
     Proofs.XmlWFSyntaxDtd Proofs.XmlWFSyntaxDtdElem Proofs.XmlWFSyntaxDtdDoc Proofs.XmlWFSyntaxDtdCheck Proofs.XmlWFSyntaxEntRec
     Proofs.XmlWFSyntaxDtdFull Proofs.XmlWFSyntaxEntMarkup Proofs.XmlWFSyntaxDtdMarkup
     Proofs.XmlWFSyntaxConvLex Proofs.XmlWFSyntaxConvElem Proofs.XmlWFSyntaxConvDoc Proofs.XmlWFSyntaxConvCheck
     Proofs.XmlWFSyntaxConvDtd Proofs.XmlWFSyntaxConvDtdAtt Proofs.XmlWFSyntaxConvDtdElem Proofs.XmlWFSyntaxConvDtdDoc.
From XmlRs Require Spec.XmlWF.
Import ListNotations.
Local Open Scope N_scope.

(** ** simple entity values are content for the model's parser *)
Lemma replacement_text_ok (vs : list ent_value) : Forall piece_wf vs -> replacement_text vs = IOk (x_repl vs).
Proof.
  induction 1 as [|v vs Hv _ IH]; [reflexivity|]. cbn [replacement_text x_repl flat_map]. fold (x_repl vs).
  destruct v as [num r|n|n|s]; cbn [x_replpiece piece_wf] in *; try (rewrite IH; reflexivity).
  destruct Hv as [Hrf Hc]. rewrite (char_from_complete num r Hrf Hc). cbn [ibind]. rewrite IH. reflexivity.
Qed.

Lemma content_parses fuel (s : str) items r : W.p_content fuel s = Some (items, r) -> forallb xok items = true ->
  exists t, P (NT nt_content) s t r.
Proof.
  intros H Hok. destruct (proj1 (conv_all fuel) _ _ _ H Hok) as [_ [h [cells [s1 [-> [Hh [Hst [Hmy _]]]]]]]].
  destruct (yields_many0 _ _ _ _ Hmy) as [tcells [Pcells _]].
  eexists. apply parses_nt. rewrite body_content. fold cell_expr. apply parses_map. eapply parses_seq; [|exact Pcells].
  apply parses_opt_some. apply parses_char_data; assumption.
Qed.

Lemma toks_xok (l : list tok) : forallb xok (map tok_item l) = true.
Proof. induction l as [|t l IH]; [reflexivity|]. cbn [map forallb]. rewrite IH. destruct t; reflexivity. Qed.

Lemma simple_content_full (vs : list ent_value) : forallb simple_piece vs = true -> find_sub [93;93;62] (x_repl vs) = None ->
  content_full (x_repl vs) = true.
Proof.
  intros Hs Hcd. pose proof (toks_text vs Hs) as Et. pose proof (toks_ok vs Hs) as Hto.
  assert (W.p_content (Datatypes.S (length (x_repl vs))) (x_repl vs) = Some (map tok_item (toks vs), [])) as Hpc.
  { rewrite <- Et. apply content_toks; [exact Hto|rewrite Et; exact Hcd|lia]. }
  destruct (content_parses _ _ _ _ Hpc (toks_xok _)) as [t Pt]. unfold content_full. rewrite (run_parses nt_content _ _ _ Pt). reflexivity.
Qed.

(** ** (A) completeness of the model's depth-first check on simple entities *)
Definition isfalse (seen : list (str * bool)) (k : str) : Prop := seen_get seen k = Some false.

Section Complete.
Variable ents : list Info.entity.
Variable ext : bool.
Variable attr : bool.
Hypothesis Hsimple : forallb simple_ent ents = true.
Hypothesis Hwf : forall e, In e ents -> Forall piece_wf (values_of e).

Notation names := (map en_name ents).
Notation look := (lookup ents).
Notation good := (goodb ents ext attr).

Lemma simple_values e vs : In e ents -> en_values e = Some vs -> forallb simple_piece vs = true /\ find_sub [93;93;62] (x_repl vs) = None.
Proof.
  intros Hin Ev. rewrite forallb_forall in Hsimple. specialize (Hsimple e Hin). unfold simple_ent in Hsimple. rewrite Ev in Hsimple.
  apply andb_prop in Hsimple. destruct Hsimple as [H1 H2]. split; [exact H1|]. destruct (find_sub [93;93;62] (x_repl vs)); [discriminate|reflexivity].
Qed.

Lemma cer_predefined f seen e : check_entity_ref (Datatypes.S f) ents ext attr seen e false = IOk seen.
Proof. reflexivity. Qed.

Lemma cer_eq f seen e declared : check_entity_ref (Datatypes.S f) ents ext attr seen e declared =
  if negb declared then IOk seen
  else if is_some (en_notation e) then IErr (InvalidData (en_name e))
  else if attr && is_some (en_system e) then IErr (InvalidData (en_name e))
  else match seen_get seen (en_name e) with
  | Some true => IOk seen
  | Some false => IErr (InvalidData (en_name e))
  | None =>
    let vs := match en_values e with Some l => l | None => [] end in
    ibind (if attr then IOk tt
           else ibind (replacement_text vs) (fun t =>
                if content_full t then IOk tt else IErr (InvalidData (en_name e)))) (fun _ =>
    ibind (check_values (check_entity_ref f ents ext attr) ents ext attr (en_name e) vs
                        ((en_name e, false) :: seen)) (fun seen2 =>
    IOk ((en_name e, true) :: seen2)))
  end.
Proof. reflexivity. Qed.

Theorem cer_complete : forall h e fuel seen V, look (en_name e) = Some e -> good h e = true ->
  (forall k, isfalse seen k <-> In k V) ->
  (forall k e', In k V -> look k = Some e' -> good h e' = false) ->
  NoDup V -> incl V names -> (length names < fuel + length V)%nat ->
  exists seen', check_entity_ref fuel ents ext attr seen e true = IOk seen' /\ (forall k, isfalse seen' k <-> In k V).
Proof.
  induction h as [|k IH]; intros e fuel seen V Hl Hg Hseen Hinv Hnd Hincl Hfu; [discriminate Hg|].
  destruct (good k e) eqn:Egk.
  - apply (IH e fuel seen V Hl Egk Hseen); try assumption.
    intros k0 e' Hk Hlk. specialize (Hinv k0 e' Hk Hlk). destruct (good k e') eqn:E; [|reflexivity]. apply goodb_mono in E. congruence.
  - destruct (lookup_name _ _ _ Hl) as [_ Hin].
    assert (~ In (en_name e) V) as Hnotin by (intros Hv; specialize (Hinv _ e Hv Hl); congruence).
    assert (incl (en_name e :: V) names) as Hincl' by (intros x [<-|Hx]; [apply in_map; exact Hin|apply Hincl; exact Hx]).
    assert (NoDup (en_name e :: V)) as Hnd' by (constructor; assumption).
    pose proof (visited_bound ents (en_name e :: V) Hnd' Hincl') as Hb'. cbn [length] in Hb'.
    destruct fuel as [|[|f]]; [lia|lia|].
    cbn [goodb] in Hg. apply andb_prop in Hg. destruct Hg as [Hg Hpieces]. apply andb_prop in Hg. destruct Hg as [Hnot Hsysn].
    apply negb_true_iff in Hnot. apply negb_true_iff in Hsysn.
    rewrite cer_eq. cbn [negb]. rewrite Hnot, Hsysn. cbv zeta.
    destruct (seen_get seen (en_name e)) as [[|]|] eqn:Eg.
    + exists seen. split; [reflexivity|exact Hseen].
    + exfalso. apply Hnotin. apply Hseen. exact Eg.
    + pose proof (Hwf e Hin) as Hw. unfold values_of in Hw, Hpieces.
      (* the replacement text is content *)
      assert ((if attr then IOk tt else ibind (replacement_text (match en_values e with Some l => l | None => [] end))
                 (fun t => if content_full t then IOk tt else IErr (InvalidData (en_name e)))) = IOk tt) as ->.
      { destruct attr; [reflexivity|]. rewrite (replacement_text_ok _ Hw). cbn [ibind]. destruct (en_values e) as [vs|] eqn:Ev.
        - destruct (simple_values e vs Hin Ev) as [Hs Hcd]. rewrite (simple_content_full vs Hs Hcd). reflexivity.
        - reflexivity. }
      cbn [ibind].
      (* the pieces, from left to right *)
      assert (Hsp : forallb simple_piece (match en_values e with Some l => l | None => [] end) = true).
      { destruct (en_values e) as [vs|] eqn:Ev; [exact (proj1 (simple_values e vs Hin Ev))|reflexivity]. }
      assert (Hcv : forall vs seen1, Forall piece_wf vs -> forallb simple_piece vs = true -> forallb (piece_goodb ents ext (good k)) vs = true ->
                (forall k0, isfalse seen1 k0 <-> In k0 (en_name e :: V)) ->
                exists seen2, check_values (check_entity_ref (Datatypes.S f) ents ext attr) ents ext attr (en_name e) vs seen1 = IOk seen2 /\
                              (forall k0, isfalse seen2 k0 <-> In k0 (en_name e :: V))).
      { induction vs as [|v vs IHvs]; intros seen1 Hwv Hsv Hgv Hs1; [exists seen1; split; [reflexivity|exact Hs1]|].
        inversion Hwv as [|? ? Hwv1 Hwvs]. subst. cbn [forallb] in Hsv, Hgv. apply andb_prop in Hsv. destruct Hsv as [Hsv1 Hsvs].
        apply andb_prop in Hgv. destruct Hgv as [Hgv1 Hgvs]. cbn [check_values].
        assert (exists fl s1, check_value (check_entity_ref (Datatypes.S f) ents ext attr) ents ext seen1 v = IOk (fl, s1) /\ attr && fl = false /\
                              (forall k0, isfalse s1 k0 <-> In k0 (en_name e :: V))) as (fl & s1 & Ecv & Efl & Hs1').
        { destruct v as [num r|m|m|s]; cbn [check_value piece_wf simple_piece piece_goodb] in *.
          - destruct Hwv1 as [Hrf Hc]. rewrite (char_from_complete num r Hrf Hc). cbn [ibind]. eexists; eexists; split; [reflexivity|]. split; [|exact Hs1].
            destruct (plain_char_spec _ Hsv1) as [_ [_ H60]]. rewrite H60. apply andb_false_r.
          - unfold lookup_entity2. fold (look m). destruct (look m) as [e'|] eqn:Fm.
            + destruct (lookup_name _ _ _ Fm) as [En' _]. rewrite <- En' in Fm.
              destruct (IH e' (Datatypes.S f) seen1 (en_name e :: V) Fm Hgv1 Hs1) as [s' [Es' Hs']]; try assumption.
              * intros k0 e0 [<-|Hk0] Hlk; [rewrite Hl in Hlk; injection Hlk as <-; exact Egk|].
                specialize (Hinv k0 e0 Hk0 Hlk). destruct (good k e0) eqn:E; [|reflexivity]. apply goodb_mono in E. congruence.
              * cbn [length] in *. lia.
              * rewrite Es'. cbn [ibind]. eexists; eexists; split; [reflexivity|]. split; [apply andb_false_r|exact Hs'].
            + destruct (Info.predefined m) as [e'|] eqn:P.
              * rewrite cer_predefined. cbn [ibind]. eexists; eexists; split; [reflexivity|]. split; [apply andb_false_r|exact Hs1].
              * cbn [is_some orb] in Hgv1. rewrite Hgv1. eexists; eexists; split; [reflexivity|]. split; [apply andb_false_r|exact Hs1].
          - discriminate Hsv1.
          - eexists; eexists; split; [reflexivity|]. split; [|exact Hs1].
            assert (existsb (N.eqb 60) s = false) as ->; [|apply andb_false_r].
            clear - Hsv1. induction s as [|c s IHs]; [reflexivity|]. cbn [forallb existsb] in *. apply andb_prop in Hsv1. destruct Hsv1 as [Hc Hs].
            destruct (plain_char_spec _ Hc) as [_ [_ H60]]. rewrite N.eqb_sym, H60. exact (IHs Hs). }
        rewrite Ecv. cbn [ibind fst snd]. rewrite Efl. apply IHvs; assumption. }
      destruct (Hcv _ ((en_name e, false) :: seen) Hw Hsp Hpieces) as [seen2 [E2 Hs2]].
      { intros k0. unfold isfalse. rewrite seen_get_cons. destruct (str_eqb (en_name e) k0) eqn:Ek.
        - apply str_eqb_eq in Ek. subst k0. split; [intros _; left; reflexivity|reflexivity].
        - split; [intros H; right; apply Hseen; exact H|intros [<-|H]; [rewrite str_eqb_refl in Ek; discriminate|apply Hseen; exact H]]. }
      rewrite E2. cbn [ibind]. eexists. split; [reflexivity|].
      intros k0. unfold isfalse. rewrite seen_get_cons. destruct (str_eqb (en_name e) k0) eqn:Ek.
      * apply str_eqb_eq in Ek. subst k0. split; [discriminate|intros Hv; contradiction].
      * split; [intros H; apply Hs2 in H; destruct H as [<-|H]; [rewrite str_eqb_refl in Ek; discriminate|exact H]|intros H; apply Hs2; right; exact H].
Qed.
End Complete.

(** ** (B) what the specification expands / re-reads without error is good *)
Lemma mapM_In_inv {A B} (g : A -> W.reason + B) (l : list A) ys x : W.mapM g l = inr ys -> In x l -> exists y, g x = inr y.
Proof.
  revert ys. induction l as [|a l IH]; intros ys H Hin; [destruct Hin|]. apply mapM_cons_inv in H. destruct H as [y [ys' [Hy [Hys _]]]].
  destruct Hin as [<-|Hin]; [eauto|eapply IH; eassumption].
Qed.

Lemma in_toks (m : str) (vs : list ent_value) : In (XvEntity m) vs -> In (inr m) (toks vs).
Proof. intros H. unfold toks. apply in_flat_map. exists (XvEntity m). split; [exact H|left; reflexivity]. Qed.

Lemma allc_In_none {A} (g : A -> W.chk) (l : list A) x : W.allc g l = None -> In x l -> g x = None.
Proof.
  induction l as [|y l IH]; intros H Hin; [destruct Hin|]. apply allc_cons_inv in H. destruct H as [Hy Hl].
  destruct Hin as [<-|Hin]; [exact Hy|exact (IH Hl Hin)].
Qed.

Lemma predef_some m : W.assoc m (W.with_predefined []) <> None -> is_some (Info.predefined m) = true.
Proof. intros H. destruct (Info.predefined m) eqn:P; [reflexivity|]. exfalso. apply H. apply predef_none. exact P. Qed.

Section SpecGood.
Variable ents : list Info.entity.
Variable ext : bool.
Variable en : W.env.
Hypothesis Hrel : env_rel en ents ext.
Hypothesis Hsimple : forallb simple_ent ents = true.
Hypothesis Hint : forall e vs, In e ents -> en_values e = Some vs -> en_system e = None /\ en_notation e = None.

Notation look := (lookup ents).

Lemma undeclared_tolerated m : look m = None ->
  W.assoc m (W.e_ents en) <> None \/ W.e_must_declare en = false -> is_some (Info.predefined m) || ext = true.
Proof.
  intros Fm [H|H].
  - rewrite (assoc_undeclared ents ext en Hrel m Fm) in H. rewrite (predef_some m H). reflexivity.
  - destruct Hrel as [_ Hm]. rewrite Hm in H. apply negb_false_iff in H. rewrite H. apply orb_true_r.
Qed.

Theorem spec_good_content : forall f nm e V x', W.expand f en V (W.XEntRef nm) = inr x' -> look nm = Some e ->
  goodb ents ext false (Datatypes.S f) e = true.
Proof.
  induction f as [|f IH]; intros nm e V x' H Hl; destruct (lookup_name _ _ _ Hl) as [_ Hin];
    pose proof (assoc_declared ents ext en Hrel nm e Hl) as Ha; unfold x_entity in Ha.
  - cbn [W.expand] in H. destruct (W.mem nm V); [discriminate|]. rewrite Ha in H.
    destruct (en_values e) as [vs|] eqn:Ev; [discriminate H|]. destruct (en_notation e) eqn:En; [discriminate H|].
    cbn [goodb]. rewrite En. unfold values_of. rewrite Ev. reflexivity.
  - rewrite expand_entref_eq in H. destruct (W.mem nm V); [discriminate|]. rewrite Ha in H.
    destruct (en_values e) as [vs|] eqn:Ev.
    + destruct (Hint e vs Hin Ev) as [Esys Enot].
      assert (simple_ent e = true) as Hs by (rewrite forallb_forall in Hsimple; apply Hsimple; exact Hin).
      unfold simple_ent in Hs. rewrite Ev in Hs. apply andb_prop in Hs. destruct Hs as [Hsp Hcd].
      destruct (find_sub [93;93;62] (x_repl vs)) eqn:Ecd; [discriminate Hcd|].
      pose proof (toks_text vs Hsp) as Et. pose proof (toks_ok vs Hsp) as Hto.
      assert (W.p_content (Datatypes.S (length (x_repl vs))) (x_repl vs) = Some (map tok_item (toks vs), [])) as Hpc.
      { rewrite <- Et. apply content_toks; [exact Hto|rewrite Et; exact Ecd|lia]. }
      rewrite Hpc in H. destruct (W.mapM (W.expand f en (nm :: V)) (map tok_item (toks vs))) as [r|ys] eqn:Em; [discriminate H|].
      cbn [goodb]. rewrite Enot. cbn [is_some negb andb]. unfold values_of. rewrite Ev. apply forallb_forall. intros v Hv.
      destruct v as [num r|m|m|s]; cbn [piece_goodb]; try reflexivity. fold (look m).
      destruct (mapM_In_inv _ _ _ (W.XEntRef m) Em) as [y Hy]; [apply in_map_iff; exists (inr m); split; [reflexivity|apply in_toks; exact Hv]|].
      destruct (look m) as [e'|] eqn:Fm; [eapply IH; eassumption|].
      apply (undeclared_tolerated m Fm). destruct f as [|f0].
      * cbn [W.expand] in Hy. destruct (W.mem m (nm :: V)); [discriminate|]. destruct (W.assoc m (W.e_ents en)) as [[t0| |]|]; try (left; discriminate).
        right. destruct (W.e_must_declare en); [discriminate Hy|reflexivity].
      * rewrite expand_entref_eq in Hy. destruct (W.mem m (nm :: V)); [discriminate|]. destruct (W.assoc m (W.e_ents en)) as [[t0| |]|]; try (left; discriminate).
        right. destruct (W.e_must_declare en); [discriminate Hy|reflexivity].
    + destruct (en_notation e) eqn:En; [discriminate H|]. cbn [goodb]. rewrite En. unfold values_of. rewrite Ev. reflexivity.
Qed.

Theorem spec_good_attr : forall f nm e V, W.av_ok (Datatypes.S f) en V [W.AvEnt nm] = None -> look nm = Some e ->
  goodb ents ext true f e = true.
Proof.
  induction f as [|f IH]; intros nm e V H Hl; destruct (lookup_name _ _ _ Hl) as [_ Hin];
    pose proof (assoc_declared ents ext en Hrel nm e Hl) as Ha; unfold x_entity in Ha;
    cbn [W.av_ok W.allc fold_right] in H; destruct (W.mem nm V); try discriminate H; rewrite Ha in H;
    (destruct (en_values e) as [vs|] eqn:Ev; [|destruct (en_notation e); discriminate H]).
  - exfalso. destruct (W.p_pieces (Datatypes.S (length (x_repl vs))) None W.c_lt (x_repl vs)) as [[ps r]|]; discriminate H.
  - destruct (Hint e vs Hin Ev) as [Esys Enot].
    assert (simple_ent e = true) as Hs by (rewrite forallb_forall in Hsimple; apply Hsimple; exact Hin).
    unfold simple_ent in Hs. rewrite Ev in Hs. apply andb_prop in Hs. destruct Hs as [Hsp _].
    pose proof (toks_text vs Hsp) as Et. pose proof (toks_ok vs Hsp) as Hto.
    assert (W.p_pieces (Datatypes.S (length (x_repl vs))) None W.c_lt (x_repl vs) = Some (map tok_piece (toks vs), [])) as Hpc.
    { rewrite <- Et. apply pieces_toks; [exact Hto|lia]. }
    rewrite Hpc in H. apply andc_none in H. destruct H as [H _].
    cbn [goodb]. rewrite Enot, Esys. cbn [is_some negb andb]. unfold values_of. rewrite Ev. apply forallb_forall. intros v Hv.
    destruct v as [num r|m|m|s]; cbn [piece_goodb]; try reflexivity. fold (look m).
    assert (W.av_ok (Datatypes.S f) en (nm :: V) [W.AvEnt m] = None) as Hm.
    { change (W.av_ok (Datatypes.S f) en (nm :: V) (map tok_piece (toks vs))) with
        (W.allc (fun p => W.av_ok (Datatypes.S f) en (nm :: V) [p]) (map tok_piece (toks vs))) in H || idtac.
      cbn [W.av_ok] in H. cbn [W.av_ok W.allc fold_right].
      pose proof (allc_In_none _ _ (W.AvEnt m) H) as Hx. cbn beta iota in Hx. rewrite Hx; [reflexivity|].
      apply in_map_iff. exists (inr m). split; [reflexivity|apply in_toks; exact Hv]. }
    destruct (look m) as [e'|] eqn:Fm; [eapply IH; eassumption|].
    apply (undeclared_tolerated m Fm). cbn [W.av_ok W.allc fold_right] in Hm. destruct (W.mem m (nm :: V)); [discriminate|].
    destruct (W.assoc m (W.e_ents en)) as [[t0| |]|]; try (left; discriminate). right. destruct (W.e_must_declare en); [discriminate Hm|reflexivity].
Qed.
End SpecGood.

(** ** a reference the specification accepts is resolved by the model (no external subset: ext = false) *)
Section Resolve.
Variable ents : list Info.entity.
Variable en : W.env.
Hypothesis Hrel : env_rel en ents false.
Hypothesis Hsimple : forallb simple_ent ents = true.
Hypothesis Hwf : forall e, In e ents -> Forall piece_wf (values_of e).
Hypothesis Hint : forall e vs, In e ents -> en_values e = Some vs -> en_system e = None /\ en_notation e = None.

Notation look := (lookup ents).

Lemma resolve_of_good attr nm e h : look nm = Some e -> goodb ents false attr h e = true -> resolve_ref ents false attr nm = IOk e.
Proof.
  intros Hl Hg. unfold resolve_ref, lookup_entity2. fold (look nm). rewrite Hl. cbn [ibind fst snd].
  destruct (lookup_name _ _ _ Hl) as [En _]. rewrite <- En in Hl.
  destruct (cer_complete ents false attr Hsimple Hwf h e (check_fuel ents) [] [] Hl Hg) as [seen' [E _]].
  - intros k. unfold isfalse. cbn [seen_get In]. split; [discriminate|intros []].
  - intros k e' [].
  - constructor.
  - intros x [].
  - unfold check_fuel. rewrite map_length. cbn [length]. lia.
  - rewrite E. reflexivity.
Qed.

Lemma resolve_of_predef attr nm : look nm = None -> W.assoc nm (W.e_ents en) <> None -> exists e, resolve_ref ents false attr nm = IOk e.
Proof.
  intros Hl Ha. rewrite (assoc_undeclared ents false en Hrel nm Hl) in Ha. pose proof (predef_some nm Ha) as Hp.
  destruct (Info.predefined nm) as [e0|] eqn:P; [|discriminate Hp]. exists e0.
  unfold resolve_ref, lookup_entity2. fold (look nm). rewrite Hl, P. cbn [ibind fst snd]. unfold check_fuel. rewrite Nat.add_comm. cbn [Nat.add]. rewrite cer_predefined. reflexivity.
Qed.

Lemma ref_content_complete f nm x' : W.expand f en [] (W.XEntRef nm) = inr x' -> exists e, resolve_ref ents false false nm = IOk e.
Proof.
  intros H. destruct (look nm) as [e|] eqn:Hl.
  - exists e. eapply resolve_of_good; [exact Hl|]. eapply (spec_good_content ents false en Hrel Hsimple Hint); eassumption.
  - apply (resolve_of_predef false nm Hl). destruct Hrel as [_ Hm]. cbn [negb] in Hm.
    destruct (W.assoc nm (W.e_ents en)) as [x|] eqn:Ea; [discriminate|]. exfalso.
    destruct f as [|f0].
    + cbn [W.expand W.mem existsb] in H. rewrite Ea, Hm in H. discriminate H.
    + rewrite expand_entref_eq in H. cbn [W.mem existsb] in H. rewrite Ea, Hm in H. discriminate H.
Qed.

Lemma ref_attr_complete f nm : W.av_ok (Datatypes.S f) en [] [W.AvEnt nm] = None -> exists e, resolve_ref ents false true nm = IOk e.
Proof.
  intros H. destruct (look nm) as [e|] eqn:Hl.
  - exists e. eapply resolve_of_good; [exact Hl|]. eapply (spec_good_attr ents false en Hrel Hsimple Hint); eassumption.
  - apply (resolve_of_predef true nm Hl). destruct Hrel as [_ Hm]. cbn [negb] in Hm.
    destruct (W.assoc nm (W.e_ents en)) as [x|] eqn:Ea; [discriminate|]. exfalso.
    cbn [W.av_ok W.allc fold_right W.mem existsb] in H. rewrite Ea, Hm in H. discriminate H.
Qed.
End Resolve.

(** ** attributes, content and elements against any entity table *)
Lemma av_ok_In k en V (ps : list W.avpiece) p : W.av_ok (Datatypes.S k) en V ps = None -> In p ps -> W.av_ok (Datatypes.S k) en V [p] = None.
Proof.
  intros H Hin. cbn [W.av_ok] in H. pose proof (allc_In_none _ _ p H Hin) as Hx. cbn beta iota in Hx.
  cbn [W.av_ok W.allc fold_right]. rewrite Hx. reflexivity.
Qed.

Section BuildC.
Variable ents : list Info.entity.
Variable ext : bool.
Variable en : W.env.
Variable f : nat.
Notation F := (Datatypes.S (Datatypes.S f)).
Hypothesis HattrC : forall nm, W.av_ok F en [] [W.AvEnt nm] = None -> exists e, resolve_ref ents ext true nm = IOk e.
Hypothesis HcontC : forall nm x', W.expand F en [] (W.XEntRef nm) = inr x' -> exists e, resolve_ref ents ext false nm = IOk e.

Lemma g_avalues_complete (l : list att_value) : (exists q, av_ok q false l) \/ (exists q, av_ok q true l) ->
  W.av_ok F en [] (x_av l) = None -> exists vs, build_avalues ents ext l = IOk vs.
Proof.
  induction l as [|v l IH]; intros Hok H; [exists []; reflexivity|].
  change (x_av (v :: l)) with (x_avpiece v ++ x_av l) in H.
  assert (W.av_ok F en [] (x_av l) = None) as Hl.
  { apply av_ok_each. intros p Hp. eapply av_ok_In; [exact H|]. apply in_or_app. right. exact Hp. }
  assert ((exists q, av_ok q false l) \/ (exists q, av_ok q true l)) as Hok'.
  { destruct Hok as [[q Hq]|[q Hq]]; destruct v as [x|s]; cbn [av_ok] in Hq; [left|right|left|right]; exists q; tauto. }
  destruct (IH Hok' Hl) as [vs Hvs]. cbn [build_avalues].
  assert (exists o, build_avalue ents ext v = IOk o) as [o Ho].
  { destruct v as [[num rd|n]|s]; cbn [build_avalue x_avpiece x_ref W.piece_of_ref] in *.
    - assert (reference_ok (RefChar num rd)) as Hrf by (destruct Hok as [[q Hq]|[q Hq]]; cbn [av_ok] in Hq; tauto).
      assert (W.isChar (W.number (radix_n rd) num) = true) as Hch.
      { assert (W.av_ok F en [] [W.AvChar (W.number (radix_n rd) num)] = None) as Hc by (destruct rd; (eapply av_ok_In; [exact H|left; reflexivity])).
        cbn [W.av_ok W.allc fold_right] in Hc. destruct (W.isChar (W.number (radix_n rd) num)); [reflexivity|discriminate Hc]. }
      rewrite (char_from_complete num rd Hrf Hch). cbn [ibind]. eauto.
    - destruct (HattrC n) as [e He]; [eapply av_ok_In; [exact H|left; reflexivity]|]. rewrite He. cbn [ibind]. eauto.
    - destruct s; eauto. }
  rewrite Ho. cbn [ibind]. rewrite Hvs. cbn [ibind]. eauto.
Qed.

Lemma g_attrs_complete (l : list attribute) : forall before,
  Forall p_attribute_ok' l -> W.nodup_names (map att_nm l) = true ->
  (forall b, In b before -> W.mem (att_nm b) (map att_nm l) = false) ->
  W.allc (fun a : str * list W.avpiece => W.av_ok F en [] (snd a)) (map x_att l) = None ->
  exists r, build_attrs_from ents ext before l = IOk r.
Proof.
  induction l as [|a l IH]; intros before Hl Hnd Hb Hv; [exists []; reflexivity|]. cbn [build_attrs_from].
  cbn [map W.nodup_names] in Hnd. apply andb_prop in Hnd. destruct Hnd as [Hna Hnd]. apply negb_true_iff in Hna.
  cbn [map] in Hv. apply allc_cons_inv in Hv. destruct Hv as [Hva Hvl]. inversion Hl as [|? ? Ha Hl']. subst.
  destruct (existsb (fun v => att_name_eqb (at_name v) (at_name a)) before) eqn:Ex.
  { exfalso. apply existsb_exists in Ex. destruct Ex as [b [Hin Eb]]. apply att_name_eqb_eq in Eb.
    specialize (Hb b Hin). cbn [map] in Hb. apply mem_cons_false in Hb. destruct Hb as [Hb _].
    unfold att_nm in Hb. rewrite Eb, Wstr_eqb_refl in Hb. discriminate Hb. }
  assert (exists x, build_attr ents ext a = IOk x) as [x Hx].
  { unfold build_attr. destruct (attribute_name (at_name a)) as [lo pr]. destruct Ha as [[_ [q [_ Hq]]] _].
    cbn [x_att snd] in Hva. destruct (g_avalues_complete (at_value a) (or_introl (ex_intro _ q Hq)) Hva) as [vs Hvs].
    rewrite Hvs. cbn [ibind]. eauto. }
  destruct (IH (before ++ [a]) Hl' Hnd) as [r Hr]; [|exact Hvl|].
  { intros b Hin. apply in_app_or in Hin. destruct Hin as [Hin|[<-|[]]]; [|exact Hna].
    specialize (Hb b Hin). cbn [map] in Hb. apply mem_cons_false in Hb. tauto. }
  rewrite Hx. cbn [ibind]. rewrite Hr. cbn [ibind]. eauto.
Qed.

Definition g_elem_complete (e : element) : Prop :=
  p_element_ok e -> forall x', W.expand F en [] (x_elem e) = inr x' -> W.tree_ok F en x' = None ->
  exists el, build_element ents ext e = IOk el.

Lemma g_text_expand (o : option str) r : W.mapM (W.expand F en []) (x_text o) = inr r -> r = x_text o.
Proof. destruct (s_text_check en f o) as [E _]. rewrite E. intros H. injection H as <-. reflexivity. Qed.

Lemma g_tree_ok_elem nm atts et kids : W.tree_ok F en (W.XElem nm atts et kids) = None ->
  match et with Some e => W.str_eqb e nm | None => true end = true /\ W.nodup_names (map fst atts) = true /\
  W.allc (fun a : str * list W.avpiece => W.av_ok F en [] (snd a)) atts = None /\ W.allc (W.tree_ok F en) kids = None.
Proof.
  cbn [W.tree_ok]. intros H. apply andc_none in H. destruct H as [H1 H]. apply andc_none in H. destruct H as [H2 H].
  apply andc_none in H. destruct H as [H3 H4]. apply guard_none in H1. apply guard_none in H2. auto.
Qed.

Lemma g_cells_complete (cells : list cell) : cells_all g_elem_complete cells -> cells_ok p_element_ok cells ->
  forall kids', W.mapM (W.expand F en []) (x_cells x_elem cells) = inr kids' -> W.allc (W.tree_ok F en) kids' = None ->
  exists ch, build_cells (build_element ents ext) ents ext cells = IOk ch.
Proof.
  induction 1 as [|[c tl] l Hc _ IH]; intros Hok kids' Hm Ht; [exists []; reflexivity|].
  cbn [cells_ok] in Hok. destruct Hok as [Hc_ok [_ Hl_ok]]. cbn [x_cells] in Hm.
  apply mapM_cons_inv in Hm. destruct Hm as [y [ys [Hy [Hys ->]]]]. apply mapM_app_inv in Hys. destruct Hys as [t' [kl [Ht' [Hkl ->]]]].
  apply allc_cons_inv in Ht. destruct Ht as [Oy Ht]. apply allc_app_inv in Ht. destruct Ht as [_ Okl].
  destruct (IH Hl_ok kl Hkl Okl) as [r Hr]. cbn [build_cells].
  assert (exists it, build_child (build_element ents ext) ents ext c = IOk it) as [it Hit].
  { cbn [fst] in Hc. destruct c as [e'|[num rd|n]|s|p|s]; cbn [build_child x_contents contents_ok] in *.
    - exact (Hc Hc_ok y Hy Oy).
    - assert (W.isChar (W.number (radix_n rd) num) = true) as Hch.
      { unfold x_refitem in Hy. destruct rd; cbn [x_ref radix_n] in *; cbn [W.expand] in Hy; injection Hy as <-; cbn [W.tree_ok] in Oy;
          apply guard_none in Oy; exact Oy. }
      rewrite (char_from_complete num rd Hc_ok Hch). cbn [ibind]. eauto.
    - unfold x_refitem in Hy. cbn [x_ref] in Hy. destruct (HcontC n y Hy) as [e He]. rewrite He. cbn [ibind]. eauto.
    - eauto.
    - eauto.
    - eauto. }
  rewrite Hit. cbn [ibind]. rewrite Hr. cbn [ibind]. eauto.
Qed.

Theorem g_element_complete : forall e, g_elem_complete e.
Proof.
  apply element_ind2.
  - intros n a [Hq [Ha _]] x' Hx Ht. cbn [x_elem] in Hx. rewrite s_expand_elem in Hx. cbn [W.mapM] in Hx. injection Hx as <-.
    apply g_tree_ok_elem in Ht. destruct Ht as [_ [Hnd [Hav _]]]. rewrite map_map in Hnd. change (map (fun x => fst (x_att x)) a) with (map att_nm a) in Hnd.
    cbn [build_element]. unfold build_attrs. destruct (g_attrs_complete a [] Ha Hnd) as [r Hr]; [intros b []|exact Hav|].
    rewrite Hr. cbn [ibind]. eauto.
  - intros n a h cells Hcells [Hq [Ha [Hh Hcs]]] x' Hx Ht. cbn [x_elem] in Hx. rewrite s_expand_elem in Hx.
    destruct (W.mapM (W.expand F en []) (x_text h ++ x_cells x_elem cells)) as [e|kids'] eqn:Ek; [discriminate|]. injection Hx as <-.
    apply mapM_app_inv in Ek. destruct Ek as [t' [kl [_ [Hkl ->]]]].
    apply g_tree_ok_elem in Ht. destruct Ht as [_ [Hnd [Hav Hk]]]. apply allc_app_inv in Hk. destruct Hk as [_ Okl].
    rewrite map_map in Hnd. change (map (fun x => fst (x_att x)) a) with (map att_nm a) in Hnd.
    cbn [build_element]. unfold build_attrs. destruct (g_attrs_complete a [] Ha Hnd) as [r Hr]; [intros b []|exact Hav|].
    rewrite Hr. cbn [ibind]. destruct (g_cells_complete cells Hcells Hcs kl Hkl Okl) as [ch Hch]. rewrite Hch. cbn [ibind]. eauto.
Qed.
End BuildC.

(** ** simple entity values, as a predicate of the specification's tree *)
Definition spec_simple_piece (p : W.avpiece) : bool :=
  match p with W.AvLit c => plain_char c | W.AvChar n => plain_char n | W.AvEnt n => is_Name n end.
Definition spec_simple_decl (d : W.decl) : bool :=
  match d with
  | W.DEntity _ (W.EdValue v) => forallb spec_simple_piece v && match find_sub [93;93;62] (W.repl_text v) with None => true | Some _ => false end
  | _ => true
  end.

Lemma simple_of_spec n (d : entity_def) : (match d with EdValue l => nope_ev l = true | _ => True end) ->
  spec_simple_decl (W.DEntity n (x_entdef d)) = true -> simple_ent (build_entity n d) = true.
Proof.
  destruct d as [lv|x nd]; [|reflexivity]. intros Hn H. cbn [x_entdef spec_simple_decl] in H. apply andb_prop in H. destruct H as [Hp Hcd].
  unfold simple_ent. cbn [build_entity en_values]. rewrite <- (repl_text_ev lv Hn). rewrite Hcd, andb_true_r.
  clear Hcd. induction lv as [|v lv IH]; [reflexivity|]. cbn [nope_ev forallb] in Hn. apply andb_prop in Hn. destruct Hn as [Hnv Hnl].
  change (x_ev (v :: lv)) with (x_evpiece v ++ x_ev lv) in Hp. rewrite forallb_app in Hp. apply andb_prop in Hp. destruct Hp as [Hpv Hpl].
  cbn [map forallb]. rewrite (IH Hnl Hpl), andb_true_r.
  destruct v as [s|s|[num r|m]]; cbn [build_ent_value simple_piece x_evpiece x_ref W.piece_of_ref nope_evpiece] in *; try discriminate Hnv.
  - clear - Hpv. induction s as [|c s IHs]; [reflexivity|]. cbn [map forallb spec_simple_piece] in *. apply andb_prop in Hpv. destruct Hpv as [-> Hs]. exact (IHs Hs).
  - destruct r; cbn [radix_n forallb spec_simple_piece] in *; rewrite andb_true_r in Hpv; exact Hpv.
  - cbn [forallb spec_simple_piece] in Hpv. rewrite andb_true_r in Hpv. exact Hpv.
Qed.

Lemma built_int n (d : entity_def) vs : en_values (build_entity n d) = Some vs -> en_system (build_entity n d) = None /\ en_notation (build_entity n d) = None.
Proof. destruct d as [lv|x nd]; cbn [build_entity en_values en_system en_notation]; [auto|discriminate]. Qed.

(** ** the internal subset: what [subset_ok] accepts, [build_subset] builds (no external subset) *)
Lemma c_defaults_complete f acc sp (defs : list att_def) :
  sp_rel sp acc -> forallb simple_ent acc = true -> (forall e0, In e0 acc -> Forall piece_wf (values_of e0)) ->
  (forall e0 vs, In e0 acc -> en_values e0 = Some vs -> en_system e0 = None /\ en_notation e0 = None) ->
  Forall p_att_def_ok defs ->
  W.allc (fun '(_, _, df) => match df with
            | W.ADValue _ v => W.av_ok (Datatypes.S (Datatypes.S f)) {| W.e_ents := W.with_predefined sp; W.e_must_declare := true |} [] v
            | _ => W.ok end) (map x_attdef defs) = None ->
  exists r, build_attdefs acc false defs = IOk r.
Proof.
  intros Hsp Hs Hwf Hint. induction defs as [|d defs IH]; intros Hok H; [exists []; reflexivity|].
  inversion Hok as [|? ? Hd Hok']. subst. cbn [map] in H. apply allc_cons_inv in H. destruct H as [Hd0 Hl].
  destruct (IH Hok' Hl) as [r Hr]. cbn [build_attdefs].
  assert (exists x, build_attdef acc false d = IOk x) as [x Hx].
  { unfold build_attdef. destruct (match ad_name d with DanAttr q => qname_parts q | DanNamespace a => attribute_name a end) as [lo pr].
    unfold x_attdef in Hd0. destruct Hd as [_ [_ Hdf]]. destruct (ad_value d) as [| |fx vs]; cbn [x_attdefault] in Hd0; cbn [ibind]; eauto.
    cbn [p_att_default_ok] in Hdf. destruct Hdf as [_ [q [_ Hq]]].
    destruct (g_avalues_complete acc false {| W.e_ents := W.with_predefined sp; W.e_must_declare := true |} f) with (l := vs) as [vs' Hvs].
    - intros nm Hnm. eapply (ref_attr_complete acc _ (env_rel_att sp acc false Hsp) Hs Hwf Hint). exact Hnm.
    - left. exists q. exact Hq.
    - exact Hd0.
    - rewrite Hvs. cbn [ibind]. eauto. }
  rewrite Hx. cbn [ibind]. rewrite Hr. cbn [ibind]. eauto.
Qed.

Lemma c_subset_complete f (l : list int_subset) : forall acc sp,
  Forall is_ok l -> ok_subset l = true -> W.subset_ok (Datatypes.S (Datatypes.S f)) true sp (x_subset l) = None ->
  forallb spec_simple_decl (x_subset l) = true ->
  sp_rel sp acc -> forallb simple_ent acc = true -> (forall e0, In e0 acc -> Forall piece_wf (values_of e0)) ->
  (forall e0 vs, In e0 acc -> en_values e0 = Some vs -> en_system e0 = None /\ en_notation e0 = None) ->
  exists r, build_subset false false acc l = IOk r.
Proof.
  induction l as [|x l IH]; intros acc sp Hinv Hok Hsub Hss Hsp Hs Hwf Hint; [exists []; reflexivity|].
  cbn [ok_subset forallb] in Hok. apply andb_prop in Hok. destruct Hok as [Hokx Hokl]. inversion Hinv as [|? ? Hx Hinv']. subst.
  change (x_subset (x :: l)) with (x_subset_item x ++ x_subset l) in Hsub, Hss. rewrite forallb_app in Hss. apply andb_prop in Hss. destruct Hss as [Hsx Hsl].
  cbn [build_subset].
  destruct x as [[d|d|[n d|n d]|d|p|s]|n|s]; cbn [ok_subset_item ok_markup] in Hokx; try discriminate Hokx;
    cbn [x_subset_item x_markup app] in Hsub.
  - cbn [W.subset_ok] in Hsub. eapply IH; eassumption.
  - unfold x_attlist in Hsub. cbn [W.subset_ok] in Hsub. apply andc_none in Hsub. destruct Hsub as [Hdef Hsub].
    cbn [is_ok markup_ok] in Hx. destruct Hx as [_ Hdefs].
    destruct (c_defaults_complete f acc sp (da_defs d) Hsp Hs Hwf Hint Hdefs Hdef) as [atts Hatts].
    destruct (IH acc sp Hinv' Hokl Hsub Hsl Hsp Hs Hwf Hint) as [r Hr].
    unfold build_attlist. rewrite Hatts. cbn [ibind]. rewrite Hr. cbn [ibind]. eauto.
  - cbn [W.subset_ok] in Hsub. apply andc_none in Hsub. destruct Hsub as [Hch Hsub]. apply andb_prop in Hokx. destruct Hokx as [Hn Hd].
    cbn [is_ok markup_ok] in Hx. destruct Hx as [_ [_ Hdef]].
    assert (match d with EdValue lv => nope_ev lv = true | _ => True end) as Hnope by (destruct d as [lv|? ?]; [|exact I]; cbn [d04_entdef] in Hd; apply andb_prop in Hd; tauto).
    assert (check_entity_decl d = IOk tt) as Hc.
    { destruct d as [lv|xid nd]; [|reflexivity]. cbn [check_entity_decl x_entdef] in *. cbn [p_entity_def_ok] in Hdef. destruct Hdef as [q [_ Hq]].
      clear - Hq Hch Hnope. revert Hq Hch Hnope. generalize false. induction lv as [|v lv IHl]; intros b Hq Hch Hn; [reflexivity|].
      cbn [nope_ev forallb] in Hn. apply andb_prop in Hn. destruct Hn as [Hnv Hnl].
      change (x_ev (v :: lv)) with (x_evpiece v ++ x_ev lv) in Hch. apply allc_app_inv in Hch. destruct Hch as [Hcv Hcl].
      destruct v as [s|s|[num r|m]]; cbn [p_ev_ok check_entity_values nope_evpiece] in *; try discriminate Hnv.
      - eapply IHl; [apply Hq|exact Hcl|exact Hnl].
      - destruct Hq as [Hrf Hq]. cbn [x_evpiece x_ref W.piece_of_ref] in Hcv.
        assert (W.isChar (W.number (radix_n r) num) = true) as Hcc.
        { destruct r; cbn [radix_n] in *; cbn [W.allc fold_right] in Hcv; apply andc_none in Hcv; destruct Hcv as [Hcv _]; apply guard_none in Hcv; exact Hcv. }
        rewrite (char_from_complete num r Hrf Hcc). cbn [ibind]. eapply IHl; [exact Hq|exact Hcl|exact Hnl].
      - destruct Hq as [_ Hq]. eapply IHl; [exact Hq|exact Hcl|exact Hnl]. }
    rewrite Hc. cbn [ibind].
    rewrite (entity_of_def_build n d Hnope) in Hsub.
    assert (en_name (build_entity n d) = n) as En by (destruct d; reflexivity).
    pose proof (sp_rel_step sp acc (build_entity n d) Hsp) as Hstep. rewrite En in Hstep.
    cbn [x_subset_item x_markup forallb] in Hsx. rewrite andb_true_r in Hsx.
    destruct (IH (acc ++ [build_entity n d]) _ Hinv' Hokl Hsub Hsl Hstep) as [r Hr].
    + rewrite forallb_app. rewrite Hs. cbn [forallb]. rewrite (simple_of_spec n d Hnope Hsx). reflexivity.
    + intros e0 Hin. apply in_app_or in Hin. destruct Hin as [Hin|[<-|[]]]; [apply Hwf; exact Hin|].
      destruct d as [lv|xid nd]; cbn [build_entity values_of en_values]; [|constructor].
      cbn [p_entity_def_ok] in Hdef. destruct Hdef as [q [_ Hq]]. eapply built_pieces_wf; [exact Hq|exact Hc].
    + intros e0 vs Hin Ev. apply in_app_or in Hin. destruct Hin as [Hin|[<-|[]]]; [eapply Hint; eassumption|eapply built_int; exact Ev].
    + rewrite Hr. cbn [ibind]. eauto.
  - unfold x_notation in Hsub. destruct (IH acc sp Hinv' Hokl) as [r Hr]; try assumption; [destruct (dn_id d); cbn [W.subset_ok] in Hsub; exact Hsub|].
    rewrite Hr. cbn [ibind]. eauto.
  - cbn [W.subset_ok] in Hsub. destruct (IH acc sp Hinv' Hokl Hsub Hsl Hsp Hs Hwf Hint) as [r Hr]. rewrite Hr. cbn [ibind]. eauto.
  - cbn [W.subset_ok] in Hsub. eapply IH; eassumption.
  - cbn [app] in Hsub. eapply IH; eassumption.
Qed.

(** ** QNames and matching end tags follow from the constraints, in any environment *)
Section Xok.
Variable en : W.env.
Variable f : nat.
Variable subset : list W.decl.
Notation F := (Datatypes.S (Datatypes.S f)).

Definition g_xok_derivable (x : W.xcontent) : Prop :=
  forall x' scope, W.expand F en [] x = inr x' -> W.tree_ok F en x' = None -> W.ns_tree F en subset scope x' = None -> xok x = true.

Lemma g_xok_kids (kids : list W.xcontent) : Forall g_xok_derivable kids ->
  forall kids' scope, W.mapM (W.expand F en []) kids = inr kids' -> W.allc (W.tree_ok F en) kids' = None ->
  W.allc (W.ns_tree F en subset scope) kids' = None -> forallb xok kids = true.
Proof.
  induction 1 as [|k kids Hk _ IH]; intros kids' scope Hm Ht Hn; [reflexivity|].
  apply mapM_cons_inv in Hm. destruct Hm as [y [ys [Hy [Hys ->]]]]. apply allc_cons_inv in Ht. destruct Ht as [Ty Tys].
  apply allc_cons_inv in Hn. destruct Hn as [Ny Nys]. cbn [forallb]. rewrite (Hk y scope Hy Ty Ny). exact (IH ys scope Hys Tys Nys).
Qed.

Theorem g_xok_of_wf : forall x, g_xok_derivable x.
Proof.
  apply xcontent_ind2. intros x Hkids. destruct x as [c|s|n|nm|s|tg dt|nm atts et kids|nm items]; try (intros x' scope _ _ _; reflexivity).
  intros x' scope Hx Ht Hn. rewrite s_expand_elem in Hx. destruct (W.mapM (W.expand F en []) kids) as [e|kids'] eqn:Ek; [discriminate|]. injection Hx as <-.
  apply g_tree_ok_elem in Ht. destruct Ht as [Het [_ [_ Hk]]]. apply ns_tree_elem in Hn. destruct Hn as [Hq [scope' Hnk]].
  apply andb_prop in Hq. destruct Hq as [Hq1 Hq2]. rewrite forallb_app in Hq2. apply andb_prop in Hq2. destruct Hq2 as [Hq2 _].
  cbn [xok]. rewrite Hq1, Hq2, Het. cbn [andb]. exact (g_xok_kids kids Hkids kids' scope' Ek Hk Hnk).
Qed.
End Xok.

Lemma gents_simple (l : list int_subset) : ok_subset l = true -> forallb spec_simple_decl (x_subset l) = true -> forallb simple_ent (gents l) = true.
Proof.
  induction l as [|x l IH]; intros Hok Hs; [reflexivity|]. cbn [ok_subset forallb] in Hok. apply andb_prop in Hok. destruct Hok as [Hokx Hokl].
  change (x_subset (x :: l)) with (x_subset_item x ++ x_subset l) in Hs. rewrite forallb_app in Hs. apply andb_prop in Hs. destruct Hs as [Hsx Hsl].
  cbn [gents flat_map]. fold (gents l). rewrite forallb_app, (IH Hokl Hsl), andb_true_r.
  destruct x as [[d|d|[n d|n d]|d|p|s]|n|s]; try reflexivity. cbn [forallb]. rewrite andb_true_r.
  cbn [ok_subset_item ok_markup] in Hokx. apply andb_prop in Hokx. destruct Hokx as [_ Hd].
  cbn [x_subset_item x_markup forallb] in Hsx. rewrite andb_true_r in Hsx.
  apply simple_of_spec; [destruct d as [lv|? ?]; [|exact I]; cbn [d04_entdef] in Hd; apply andb_prop in Hd; tauto|exact Hsx].
Qed.

Lemma gents_int (l : list int_subset) : forall e vs, In e (gents l) -> en_values e = Some vs -> en_system e = None /\ en_notation e = None.
Proof.
  intros e vs Hin Ev. unfold gents in Hin. apply in_flat_map in Hin. destruct Hin as [x [_ Hx]].
  destruct x as [[d|d|[n d|n d]|d|p|s]|n|s]; cbn [In] in Hx; try contradiction. destruct Hx as [<-|[]]. eapply built_int. exact Ev.
Qed.

(** ** the document *)
Definition no_pe_decl (d : W.decl) : bool := match d with W.DPEntity _ _ => false | _ => true end.

(** the exclusions, as predicates of the specification's parse of [s] *)
Definition conv_hyps (s : str) : bool :=
  match W.parse_document s with
  | Some xd =>
    W.e_must_declare (W.doc_env xd)                                              (* no external subset, or standalone="yes" *)
    && match W.x_doctype xd with
       | Some dt => forallb no_pe_decl (W.dt_subset dt) && forallb spec_simple_decl (W.dt_subset dt)
       | None => true
       end
  | None => false
  end.
(** the names inside content models are QNames *)
Definition strict_cm (s : str) : bool := match q_parse_document s with Some _ => true | None => false end.

Lemma ns_decl_dq (d : W.decl) : W.ns_decl d = None -> no_pe_decl d = true -> (match d with W.DPERef _ => false | _ => true end) = true -> dq_ok d = true.
Proof.
  destruct d as [nm|el defs|nm def|nm def|nm pub sys|tg dd|c|nm]; cbn [W.ns_decl dq_ok no_pe_decl]; intros H Hp Hr; try reflexivity; try discriminate.
  - apply guard_none in H. exact H.
  - apply guard_none in H. exact H.
Qed.

Lemma no_peref (l : list W.decl) : W.has_peref l = false -> forallb (fun d => match d with W.DPERef _ => false | _ => true end) l = true.
Proof.
  unfold W.has_peref. induction l as [|d l IH]; [reflexivity|]. cbn [existsb forallb]. intros H. apply orb_false_elim in H. destruct H as [Hd Hl].
  rewrite (IH Hl), andb_true_r. destruct d; try reflexivity. discriminate Hd.
Qed.

(** every namespace-well-formed document -- with or without a DOCTYPE -- whose content-model names are QNames,
    that has no external subset (or is standalone), declares no parameter entity and only SIMPLE general
    entities, is accepted by the model of from_raw, completely *)
Theorem wf_accepted (s : str) : W.wf s = true -> strict_cm s = true -> conv_hyps s = true -> exists d, from_raw s = OOk ([], d).
Proof.
  unfold W.wf, W.verdict_ns, strict_cm, conv_hyps. destruct (W.parse_document s) as [xd|] eqn:Ep; [|discriminate].
  destruct (W.unsupported xd) eqn:Eu; [discriminate|]. destruct (W.check_doc xd) as [r|root] eqn:Ec; [discriminate|].
  destruct (W.ns_doc xd root) as [r|] eqn:En; [discriminate|]. intros _ Hstrict Hh.
  destruct (q_parse_document s) as [xd'|] eqn:Eq; [|discriminate]. clear Hstrict.
  pose proof (q_parse_document_spec s xd' Eq) as Ep'. rewrite Ep in Ep'. injection Ep' as <-.
  apply andb_prop in Hh. destruct Hh as [Hmust Hdt].
  destruct (ent_fuel_bound xd) as [f0 [Ef Hf0]].
  set (subset := match W.x_doctype xd with Some dt => W.dt_subset dt | None => [] end) in *.
  (* the facts the two verdicts give *)
  unfold W.check_doc in Ec. cbv zeta in Ec. fold subset in Ec. rewrite Ef in Ec.
  destruct (W.subset_ok (Datatypes.S (Datatypes.S f0)) (W.e_must_declare (W.doc_env xd)) [] subset) eqn:Esub; [discriminate|].
  destruct (W.expand (Datatypes.S (Datatypes.S f0)) (W.doc_env xd) [] (W.x_root xd)) as [r|root'] eqn:Eex; [discriminate|].
  destruct (W.tree_ok (Datatypes.S (Datatypes.S f0)) (W.doc_env xd) root') eqn:Etr; [discriminate|]. injection Ec as <-.
  unfold W.ns_doc in En. cbv zeta in En. fold subset in En. rewrite Ef in En.
  apply andc_none in En. destruct En as [N1 En]. apply andc_none in En. destruct En as [N2 En]. apply andc_none in En. destruct En as [_ N4].
  pose proof (g_xok_of_wf (W.doc_env xd) f0 subset (W.x_root xd) root' [] Eex Etr N4) as Hxok.
  assert (dt_ok xd = true) as Hdtok.
  { unfold dt_ok. unfold W.unsupported in Eu. unfold subset in N2. destruct (W.x_doctype xd) as [dt|]; [|reflexivity].
    apply guard_none in N1. rewrite N1. cbn [andb]. apply andb_prop in Hdt. destruct Hdt as [Hpe _]. apply no_peref in Eu.
    apply forallb_forall. intros d Hd. rewrite forallb_forall in Hpe, Eu. apply ns_decl_dq; [eapply allc_In_none; eassumption|apply Hpe; exact Hd|apply Eu; exact Hd]. }
  destruct (conv_document s xd Eq Hxok Hdtok) as [pd [Hp [Hx Hokd]]].
  pose proof (parse_document_inv _ _ _ Hp) as [Hpro [Hel _]].
  unfold from_raw, from_raw_gen. rewrite Hp.
  assert (exists d, build_document_gen false pd = IOk d) as [d Hb]; [|rewrite Hb; eauto].
  unfold build_document_gen.
  set (sa := match pr_declaration_xml (d_prolog pd) with Some x => dx_standalone x | None => None end) in *.
  subst xd. destruct (pr_declaration_doc (d_prolog pd)) as [dd|] eqn:Hdd.
  - set (ext0 := external_subset sa (match dd_external_id dd with Some x => Some (fst (external_id_parts x)) | None => None end)) in *.
    unfold ok_doc in Hokd. rewrite Hdd in Hokd.
    apply andb_prop in Hokd. destruct Hokd as [Hokd _]. apply andb_prop in Hokd. destruct Hokd as [Hokd _].
    apply andb_prop in Hokd. destruct Hokd as [Hokd _]. apply andb_prop in Hokd. destruct Hokd as [_ Hoks].
    destruct Hpro as [_ [_ [Hdoc _]]]. rewrite Hdd in Hdoc. destruct Hdoc as [_ [_ Hinv]].
    assert (W.e_must_declare (W.doc_env (x_doc pd)) = negb ext0) as Hm.
    { unfold W.doc_env, x_doc. cbn [W.x_doctype W.x_decl W.e_must_declare]. rewrite Hdd. cbn [option_map x_doctype W.dt_extid].
      subst ext0 sa. unfold external_subset. destruct (pr_declaration_xml (d_prolog pd)) as [xd|]; cbn [option_map x_xmldecl W.xd_standalone];
        [destruct (dx_standalone xd) as [[|]|]|]; destruct (dd_external_id dd); reflexivity. }
    rewrite Hmust in Hm. symmetry in Hm. apply negb_true_iff in Hm.
    assert (subset = x_subset (dd_internal_subset dd)) as Hsub by (unfold subset, x_doc; cbn [W.x_doctype]; rewrite Hdd; reflexivity).
    assert (forallb spec_simple_decl (x_subset (dd_internal_subset dd)) = true) as Hss.
    { unfold x_doc in Hdt. cbn [W.x_doctype] in Hdt. rewrite Hdd in Hdt. cbn [option_map x_doctype W.dt_subset] in Hdt. apply andb_prop in Hdt. tauto. }
    rewrite Hsub, Hmust in Esub.
    destruct (c_subset_complete f0 (dd_internal_subset dd) [] [] Hinv Hoks Esub Hss) as [ch Hch];
      [intros k; reflexivity|reflexivity|intros e0 []|intros e0 vs []|].
    unfold build_doctype. fold ext0. rewrite Hm, Hch. cbn [ibind dt_system]. unfold dt_entities. cbn [dt_children]. rewrite (build_subset_entities _ _ _ _ Hch).
    fold ext0. rewrite Hm.
    assert (W.e_ents (W.doc_env (x_doc pd)) = W.with_predefined (tbl (gents (dd_internal_subset dd)))) as Hents.
    { unfold W.doc_env, x_doc. cbn [W.x_doctype W.e_ents]. rewrite Hdd. cbn [option_map x_doctype W.dt_subset]. rewrite (entities_of_subset _ Hoks). reflexivity. }
    assert (env_rel (W.doc_env (x_doc pd)) (gents (dd_internal_subset dd)) false) as Hrel.
    { split; [|exact Hmust]. intros nm. rewrite Hents. apply assoc_with_predefined. }
    pose proof (gents_simple _ Hoks Hss) as Hsimple. pose proof (gents_wf false (dd_internal_subset dd) [] ch Hch Hinv) as Hwf.
    pose proof (gents_int (dd_internal_subset dd)) as Hint.
    destruct (g_element_complete (gents (dd_internal_subset dd)) false (W.doc_env (x_doc pd)) f0) with (e := d_element pd) (x' := root') as [el Hbe].
    + intros nm Hnm. eapply (ref_attr_complete _ _ Hrel Hsimple Hwf Hint). exact Hnm.
    + intros nm x' Hnm. eapply (ref_content_complete _ _ Hrel Hsimple Hwf Hint). exact Hnm.
    + exact Hel.
    + exact Eex.
    + exact Etr.
    + rewrite Hbe. cbn [ibind]. eauto.
  - cbn [ibind]. unfold external_subset. cbn [is_some]. rewrite andb_false_r.
    assert (env_rel (W.doc_env (x_doc pd)) [] false) as Hrel.
    { split; [intros nm; unfold W.doc_env, x_doc; cbn [W.x_doctype W.e_ents]; rewrite Hdd; reflexivity|].
      unfold W.doc_env, x_doc. cbn [W.x_doctype W.e_must_declare]. rewrite Hdd. reflexivity. }
    destruct (g_element_complete [] false (W.doc_env (x_doc pd)) f0) with (e := d_element pd) (x' := root') as [el Hbe].
    + intros nm Hnm. eapply (ref_attr_complete [] _ Hrel eq_refl); [intros e []|intros e vs []|exact Hnm].
    + intros nm x' Hnm. eapply (ref_content_complete [] _ Hrel eq_refl); [intros e []|intros e vs []|exact Hnm].
    + exact Hel.
    + exact Eex.
    + exact Etr.
    + rewrite Hbe. cbn [ibind]. eauto.
Qed.

(** the same documents are outside finding D04 and have simple entities in the sense of C02 (7) *)
Lemma ok_d04_doc (pd : pdoc) : ok_doc pd = true -> d04_doc pd = true.
Proof.
  unfold ok_doc, d04_doc. intros H. destruct (pr_declaration_doc (d_prolog pd)) as [dd|]; [|exact H].
  apply andb_prop in H. destruct H as [H H5]. apply andb_prop in H. destruct H as [H H4]. apply andb_prop in H. destruct H as [H H3].
  apply andb_prop in H. destruct H as [H1 H2]. rewrite H1, H3, H4, H5. cbn [andb]. rewrite !andb_true_r.
  unfold ok_subset in H2. unfold d04_subset. revert H2. apply forallb_impl. intros x Hx. destruct x as [m|n|w]; try reflexivity.
  cbn [ok_subset_item] in Hx. destruct m as [d|d|[n d|n d]|d|p|c]; cbn [ok_markup d04_markup] in *; try exact Hx; try reflexivity.
  apply andb_prop in Hx. destruct Hx as [-> Hd]. cbn [andb]. destruct d as [lv|x [nd|]]; cbn [d04_entdef d04_entdef'] in *; try exact Hd. apply andb_prop in Hd. tauto.
Qed.

Theorem wf_accepted_side (s : str) : W.wf s = true -> strict_cm s = true -> conv_hyps s = true ->
  KnownD04_doc s = false /\ simple_entities s = true.
Proof.
  unfold W.wf, W.verdict_ns, strict_cm, conv_hyps. destruct (W.parse_document s) as [xd|] eqn:Ep; [|discriminate].
  destruct (W.unsupported xd) eqn:Eu; [discriminate|]. destruct (W.check_doc xd) as [r|root] eqn:Ec; [discriminate|].
  destruct (W.ns_doc xd root) as [r|] eqn:En; [discriminate|]. intros _ Hstrict Hh.
  destruct (q_parse_document s) as [xd'|] eqn:Eq; [|discriminate]. clear Hstrict.
  pose proof (q_parse_document_spec s xd' Eq) as Ep'. rewrite Ep in Ep'. injection Ep' as <-.
  apply andb_prop in Hh. destruct Hh as [Hmust Hdt].
  destruct (ent_fuel_bound xd) as [f0 [Ef Hf0]].
  set (subset := match W.x_doctype xd with Some dt => W.dt_subset dt | None => [] end) in *.
  unfold W.check_doc in Ec. cbv zeta in Ec. fold subset in Ec. rewrite Ef in Ec.
  destruct (W.subset_ok (Datatypes.S (Datatypes.S f0)) (W.e_must_declare (W.doc_env xd)) [] subset) eqn:Esub; [discriminate|].
  destruct (W.expand (Datatypes.S (Datatypes.S f0)) (W.doc_env xd) [] (W.x_root xd)) as [r|root'] eqn:Eex; [discriminate|].
  destruct (W.tree_ok (Datatypes.S (Datatypes.S f0)) (W.doc_env xd) root') eqn:Etr; [discriminate|]. injection Ec as <-.
  unfold W.ns_doc in En. cbv zeta in En. fold subset in En. rewrite Ef in En.
  apply andc_none in En. destruct En as [N1 En]. apply andc_none in En. destruct En as [N2 En]. apply andc_none in En. destruct En as [_ N4].
  pose proof (g_xok_of_wf (W.doc_env xd) f0 subset (W.x_root xd) root' [] Eex Etr N4) as Hxok.
  assert (dt_ok xd = true) as Hdtok.
  { unfold dt_ok. unfold W.unsupported in Eu. unfold subset in N2. destruct (W.x_doctype xd) as [dt|]; [|reflexivity].
    apply guard_none in N1. rewrite N1. cbn [andb]. apply andb_prop in Hdt. destruct Hdt as [Hpe _]. apply no_peref in Eu.
    apply forallb_forall. intros d Hd. rewrite forallb_forall in Hpe, Eu. apply ns_decl_dq; [eapply allc_In_none; eassumption|apply Hpe; exact Hd|apply Eu; exact Hd]. }
  destruct (conv_document s xd Eq Hxok Hdtok) as [pd [Hp [Hx Hokd]]].
  unfold KnownD04_doc, simple_entities. rewrite Hp. split; [rewrite (ok_d04_doc pd Hokd); reflexivity|].
  unfold simple_doc, doc_subset. subst xd. destruct (pr_declaration_doc (d_prolog pd)) as [dd|] eqn:Hdd; [|reflexivity].
  unfold ok_doc in Hokd. rewrite Hdd in Hokd.
  apply andb_prop in Hokd. destruct Hokd as [Hokd _]. apply andb_prop in Hokd. destruct Hokd as [Hokd _].
  apply andb_prop in Hokd. destruct Hokd as [Hokd _]. apply andb_prop in Hokd. destruct Hokd as [_ Hoks].
  unfold x_doc in Hdt. cbn [W.x_doctype] in Hdt. rewrite Hdd in Hdt. cbn [option_map x_doctype W.dt_subset] in Hdt. apply andb_prop in Hdt. destruct Hdt as [_ Hss].
  apply gents_simple; assumption.
Qed.

(** on these documents the model accepts EXACTLY the namespace-well-formed ones, outside findings D04 and WFNS20-23 *)
Theorem doctype_language (s : str) : strict_cm s = true -> conv_hyps s = true ->
  (W.wf s = true <-> ((exists d, from_raw s = OOk ([], d)) /\ KnownD04_doc s = false /\ KnownNS s = false)).
Proof.
  intros Hst Hh. split.
  - intros Hwf. destruct (wf_accepted s Hwf Hst Hh) as [d Hd]. destruct (wf_accepted_side s Hwf Hst Hh) as [Hk _].
    split; [eauto|]. split; [exact Hk|]. unfold KnownNS. rewrite Hwf. apply andb_false_r.
  - intros [[d Hd] [Hk Hns]]. eapply accepted_wf_simple; try eassumption.
    (* simple entities: from the specification's side, through rung 2 *)
    destruct (accepted_syntax s d Hd Hk) as [pd [Hp [Hb Hsyn]]]. unfold simple_entities. rewrite Hp.
    unfold KnownD04_doc in Hk. rewrite Hp in Hk. apply negb_false_iff in Hk. pose proof (build_document_ok pd d Hb Hk) as Hokd.
    unfold conv_hyps in Hh. rewrite Hsyn in Hh. apply andb_prop in Hh. destruct Hh as [_ Hdt].
    unfold simple_doc, doc_subset. destruct (pr_declaration_doc (d_prolog pd)) as [dd|] eqn:Hdd; [|reflexivity].
    unfold ok_doc in Hokd. rewrite Hdd in Hokd.
    apply andb_prop in Hokd. destruct Hokd as [Hokd _]. apply andb_prop in Hokd. destruct Hokd as [Hokd _].
    apply andb_prop in Hokd. destruct Hokd as [Hokd _]. apply andb_prop in Hokd. destruct Hokd as [_ Hoks].
    unfold x_doc in Hdt. cbn [W.x_doctype] in Hdt. rewrite Hdd in Hdt. cbn [option_map x_doctype W.dt_subset] in Hdt. apply andb_prop in Hdt. destruct Hdt as [_ Hss].
    apply gents_simple; assumption.
Qed.

(** non-vacuity: XML declaration with standalone="yes", external identifier, ELEMENT declarations (Mixed with a
    prefixed name; nested children), nested entities, an unparsed entity, ATTLIST with a default and an
    enumeration, NOTATION, PI, comment *)
Definition ex_conv : str :=
  [60;63;120;109;108;32;118;101;114;115;105;111;110;61;34;49;46;48;34;32;115;116;97;110;100;97;108;111;110;101;61;34;121;101;115;34;63;62;60;33;68;79;67;84;89;80;69;32;114;32;83;89;83;84;69;77;32;34;114;46;100;116;100;34;32;91;60;33;69;76;69;77;69;78;84;32;114;32;40;35;80;67;68;65;84;65;124;112;58;113;41;42;62;60;33;69;76;69;77;69;78;84;32;115;32;40;40;97;44;98;63;41;43;124;99;41;62;60;33;69;78;84;73;84;89;32;98;32;34;122;38;35;54;53;59;34;62;60;33;69;78;84;73;84;89;32;97;32;34;120;38;98;59;121;38;108;116;59;34;62;60;33;69;78;84;73;84;89;32;117;32;83;89;83;84;69;77;32;34;102;34;32;78;68;65;84;65;32;110;62;60;33;65;84;84;76;73;83;84;32;114;32;107;32;67;68;65;84;65;32;34;38;97;59;34;32;116;32;40;120;124;121;41;32;35;73;77;80;76;73;69;68;62;60;33;78;79;84;65;84;73;79;78;32;110;32;80;85;66;76;73;67;32;34;112;112;34;62;60;63;112;32;100;63;62;60;33;45;45;32;99;32;45;45;62;32;93;62;60;114;32;107;61;34;38;97;59;34;62;38;97;59;38;98;59;60;47;114;62].

Example wf_accepted_nonvacuous : W.wf ex_conv = true /\ strict_cm ex_conv = true /\ conv_hyps ex_conv = true.
Proof. repeat split; vm_compute; reflexivity. Qed.
