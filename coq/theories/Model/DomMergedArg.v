(** * Model of an insertion whose new child is a merged text node of the text-expanded view (on top of
    Model/DomOps.v, Model/DomNormalize.v and Model/DomReadOnly.v; properties C13 / C12, defect D68 repaired by
    /repo aa36908)

    The code (dom/src/lib.rs).  With [text_expanded] on, [HasChild for XmlElement] hands out one
    [XmlNode::ExpandedText] per maximal run of Text / CDATA / reference children ([child_view s true] of
    Model/Store.v: the entries [Merged i]).  Such a node stands for several items.  As [new_child] of
    [append_child] / [insert_before] / [replace_child]:

    - [impl NodeMut for XmlText / XmlCDataSection / XmlComment / XmlProcessingInstruction]: [insert_before]
      answers [HierarchyRequestErr] without looking at its arguments ([append_child], [replace_child] are the
      default trait methods: [insert_before], for [replace_child] followed by [remove_child], which is not reached);
    - [impl NodeMut for XmlElement / XmlAttr / XmlDocument], [insert_before]:
        1. [same_document(receiver, new_child.owner_document())] else [WrongDocumentErr]
           ([XmlExpandedText::owner_document] = that of its first item = the document of the element it was taken from);
        2. with a reference child: [same_document(receiver, ref.owner_document())] else [WrongDocumentErr]
           (a Document node has no owner document: [wrong_doc] of Model/DomOps.v; a reference child that is itself a
           merged text node: the document of the element it was taken from);
        3. [new_child.try_into()?] ([TryFrom<XmlNode> for Rc<info::XmlItem>]): the arm
           [XmlNode::ExpandedText(_) => return Err(DomException::NotSupportErr)?] -- before aa36908 this arm was
           [unimplemented!("multi text node.")], a panic.  The conversion is an argument of the info-level call and is
           evaluated before [ref.id()] and before anything is changed.
    In every case nothing is changed.

    When the call can be written at all (as the harness writes it, ops ACX / IBX / IBXX / RCX / RCXX of
    harness/src/domains/dom.rs): the receiver exists and is a [NodeMut] ([node_mut]); entry [k] of the merged child
    list of [c] exists and is a merged text node; the reference / old child exists (a node, or again a merged entry).

    [exc] of Model/DomOps.v and [xexc] of Model/DomReadOnly.v have no constructor for NOT_SUPPORTED_ERR and are left
    as they are: [mexc] / [moutcome] extend them from outside, [yop] extends the histories of Model/DomReadOnly.v.
    No proofs in this file. *)
From Coq Require Import List NArith Bool.
From XmlRs Require Import Base.CPred Model.Store Model.DomOps Model.DomNormalize Model.DomReadOnly.
Import ListNotations.
Open Scope N_scope.

Inductive mx_call := MxAppend | MxInsertBefore | MxReplace.

(** the reference child of [insert_before] / the old child of [replace_child] *)
Inductive mx_ref :=
| MxNoRef
| MxNode (f : nref)
| MxMergedRef (c2 : nref) (k2 : N).    (* entry k2 of the merged child list of c2 *)

(** [call] on receiver [r] with new_child = entry [k] of the merged child list of [c] *)
Inductive mx_op := MxOp (call : mx_call) (r c : nref) (k : N) (ref : mx_ref).

Inductive mexc :=
| MExc (e : xexc)
| MNotSupportErr.

Inductive moutcome :=
| MOk (r : ret)
| MFailed (e : mexc)
| MPanicked
| MNotApplicable.

Definition lift_xoutcome (o : xoutcome) : moutcome :=
  match o with
  | XOk r => MOk r
  | XFailed e => MFailed (MExc e)
  | XPanicked => MPanicked
  | XNotApplicable => MNotApplicable
  end.

(** entry [k] of [c.child_nodes()] in the merged view, when it is a merged text node: its first item *)
Definition merged_entry (w : world) (c : nref) (k : N) : option id :=
  match doc_at w (fst c) with
  | Some s =>
    match nth_error (child_view s true (snd c)) (N.to_nat k) with
    | Some (Merged i) => Some i
    | _ => None
    end
  | None => None
  end.

(** the shape of the call: append_child has no second node, the other two have one *)
Definition mx_shape (call : mx_call) (ref : mx_ref) : bool :=
  match call, ref with
  | MxAppend, MxNoRef => true
  | MxAppend, _ => false
  | _, MxNoRef => false
  | _, _ => true
  end.

(** the second node exists -> is it of another document than the receiver *)
Definition mx_ref_wrong (w : world) (r : nref) (ref : mx_ref) : option bool :=
  match ref with
  | MxNoRef => Some false
  | MxNode f => if exists_in w f then Some (wrong_doc w r f) else None
  | MxMergedRef c2 k2 =>
    match merged_entry w c2 k2 with
    | Some _ => Some (negb (fst c2 =? fst r))
    | None => None
    end
  end.

Definition step_mx (w : world) (o : mx_op) : world * moutcome :=
  match o with
  | MxOp call r c k ref =>
    match kind_in w r with
    | Some kd =>
      if node_mut kd && mx_shape call ref then
        match merged_entry w c k, mx_ref_wrong w r ref with
        | Some _, Some rw =>
          if container kd then
            if negb (fst c =? fst r) then (w, MFailed (MExc (XExc WrongDocumentErr)))
            else if rw then (w, MFailed (MExc (XExc WrongDocumentErr)))
            else (w, MFailed MNotSupportErr)
          else (w, MFailed (MExc (XExc HierarchyRequestErr)))
        | _, _ => (w, MNotApplicable)
        end
      else (w, MNotApplicable)
    | None => (w, MNotApplicable)
    end
  end.

(** histories that contain the 27 operations, [normalize] calls, calls on the read-only maps and insertions of
    merged text nodes *)
Inductive yop :=
| YX (o : xop)
| YMx (o : mx_op).

Definition step_y (w : world) (o : yop) : world * moutcome :=
  match o with
  | YX o => (fst (step_x w o), lift_xoutcome (snd (step_x w o)))
  | YMx o => step_mx w o
  end.

Definition run_y (w : world) (ops : list yop) : world := fold_left (fun a o => fst (step_y a o)) ops w.

(** the history without its insertions of merged text nodes *)
Fixpoint xops_of (ops : list yop) : list xop :=
  match ops with
  | [] => []
  | YX o :: t => o :: xops_of t
  | YMx _ :: t => xops_of t
  end.

Fixpoint outcomes_y (w : world) (ops : list yop) : list moutcome :=
  match ops with
  | [] => []
  | o :: t => snd (step_y w o) :: outcomes_y (fst (step_y w o)) t
  end.
