"""C16 -- character-data operations count in characters and follow DOM Level 1.

Proof: Properties/C16.v (refinement of the model of dom/info CharacterData code to the DOM
Level 1 transcription Spec/DomCharData.v, for every string, offset, count and history).
Tie: `cdata` domain -- the extracted model and the real dom crate on the same histories.
Search: the extracted *spec* against the real crate on the lattice of the property."""
import itertools, json
from . import lib

KINDS = ['text', 'comment', 'cdata']
# ASCII, 2-, 3-, 4-byte characters and a combining mark
POOL = [97, 98, 0xE9, 0x3042, 0x1F600, 0x301]
# extra characters for the longer random strings (class borders of Char, white space, and the
# characters the three node kinds are sensitive to, placed so that the initial data stay valid)
POOL_LONG = POOL + [0x20, 0x9, 0xA, 0x85, 0xD7FF, 0xE000, 0xFFFD, 0x10000, 0x10FFFF, 0x5D, 0x3E, 0x2D, 0x22, 0x27]
VALID_ARGS = [[], [120], [0xE9, 0x1F600], [0x301]]
INVALID_ARGS = {
    'text': [[60], [38], [93, 93, 62], [97, 60, 98], [1], [0xFFFE], [38, 97, 109, 112, 59], [0]],
    'comment': [[45], [45, 45], [97, 45, 45, 98], [97, 45], [0xFFFF], [45, 45, 62], [1]],
    'cdata': [[93, 93, 62], [97, 93, 93, 62, 98], [0xFFFE], [1], [0]],
}
# fragments that are fine although they look dangerous
EDGE_ARGS = {
    'text': [[93, 93], [62], [93, 62], [93, 93, 93], [0x85], [13]],
    'comment': [[45, 97], [97, 45, 98], [62], [45, 62], [60, 38]],
    'cdata': [[93, 93], [93], [62], [93, 62], [60, 38], [93, 93, 93]],
}
M = 'M'

def enc(cs):
    return ','.join(str(c) for c in cs) if cs else '-'

def multibyte(cs):
    return any(c > 0x7F for c in cs)

def lattice(n):
    """offsets / counts of the property: 0..=len+2 and usize::MAX"""
    return [str(i) for i in range(n + 3)] + [M]

def boundary(n, off, cnt=None):
    """an offset at or beyond the end, a range ending at or beyond the end, or an extreme value"""
    def val(x):
        if x == M: return 2 ** 64 - 1
        if x.startswith('M-'): return 2 ** 64 - 1 - int(x[2:])
        return int(x)
    o = val(off)
    if o >= n: return True
    if cnt is None: return o == 0
    c = val(cnt)
    return c == 0 or o + c >= n

# ------------------------------------------------------------------ python-side storability (generation only)
def is_char(c):
    return c in (9, 10, 13) or 0x20 <= c <= 0xD7FF or 0xE000 <= c <= 0xFFFD or 0x10000 <= c <= 0x10FFFF

def has_sub(p, s):
    return any(s[i:i + len(p)] == p for i in range(len(s) - len(p) + 1))

def storable(kind, s):
    if not all(is_char(c) for c in s): return False
    if kind in ('text', 'expanded'):
        return 60 not in s and 38 not in s and not has_sub([93, 93, 62], s)
    if kind == 'comment':
        return not has_sub([45, 45], s) and not (s and s[-1] == 45)
    return not has_sub([93, 93, 62], s)

# ------------------------------------------------------------------ case generation
def single_op_cases(kind, s, args_valid, args_other, full):
    """every op x every lattice point on the string s; one mutator per line (fresh node),
    read-only calls packed on one line.  Yields (line, number of op applications, meta)"""
    n = len(s)
    head = '%s %s ' % (kind, enc(s))
    lat = lattice(n)
    reads = ['len'] + ['sub %s %s' % (o, c) for o in lat for c in lat]
    yield head + ' ; '.join(reads), len(reads), ('read', n)
    if kind == 'expanded':
        yield head + 'app 120 ; del 0 1 ; split 0', 3, ('n/a', n)
        return
    for o in lat:
        for c in lat:
            yield head + 'del %s %s' % (o, c), 1, ('del', n, o, c)
    if kind != 'comment':
        for o in lat:
            yield head + 'split %s' % o, 1, ('split', n, o)
            # a second split: the new node must land between the receiver and the first tail
            for o2 in lattice(min(n, int(o)) if o != M else n)[:-1]:
                yield head + 'split %s ; split %s ; len' % (o, o2), 3, ('split2', n, o, o2)
    else:
        yield head + 'split 0', 1, ('n/a', n)
    for a in args_valid + args_other:
        yield head + 'app %s' % enc(a), 1, ('app', n)
        yield head + 'set %s' % enc(a), 1, ('set', n)
        for o in lat:
            yield head + 'ins %s %s' % (o, enc(a)), 1, ('ins', n, o)
    rep_args = (args_valid + args_other) if full else (args_valid[1:3] + args_other[:1])
    for a in rep_args:
        for o in lat:
            for c in lat:
                yield head + 'rep %s %s %s' % (o, c, enc(a)), 1, ('rep', n, o, c)

def random_history(rng, kind, maxlen=12, maxcalls=8):
    """a longer valid string and up to 8 calls whose offsets track the expected length"""
    while True:
        s = [rng.choice(POOL_LONG) for _ in range(rng.randint(3, maxlen))]
        if storable(kind, s): break
    cur = list(s)
    calls = []
    def num():
        r = rng.random()
        n = len(cur)
        if r < 0.70: return str(rng.randint(0, n + 2))
        if r < 0.85: return M
        if r < 0.95: return 'M-%d' % rng.randint(1, n + 2)
        return str(rng.choice([2 ** 31, 2 ** 32, 2 ** 62 - 1, 10 ** 6]))
    def arg():
        r = rng.random()
        if r < 0.12:
            return rng.choice(INVALID_ARGS.get(kind, INVALID_ARGS['text']))
        if r < 0.25:
            return rng.choice(EDGE_ARGS.get(kind, EDGE_ARGS['text']))
        return [rng.choice(POOL_LONG) for _ in range(rng.randint(0, 4))]
    def v(x):
        if x == M: return 2 ** 64 - 1
        if x.startswith('M-'): return 2 ** 64 - 1 - int(x[2:])
        return int(x)
    ops = ['len', 'sub', 'app', 'ins', 'del', 'rep', 'set', 'split'] if kind != 'expanded' else ['len', 'sub', 'sub', 'app']
    for _ in range(rng.randint(2, maxcalls)):
        op = rng.choice(ops)
        if op == 'len':
            calls.append('len')
        elif op == 'sub':
            calls.append('sub %s %s' % (num(), num()))
        elif op == 'app':
            a = arg(); calls.append('app ' + enc(a))
            if storable(kind, a): cur += a
        elif op == 'ins':
            o, a = num(), arg(); calls.append('ins %s %s' % (o, enc(a)))
            if storable(kind, a) and v(o) <= len(cur): cur[v(o):v(o)] = a
        elif op == 'del':
            o, c = num(), num(); calls.append('del %s %s' % (o, c))
            if v(o) <= len(cur): del cur[v(o):v(o) + v(c)]
        elif op == 'rep':
            o, c, a = num(), num(), arg(); calls.append('rep %s %s %s' % (o, c, enc(a)))
            if v(o) <= len(cur):
                del cur[v(o):v(o) + v(c)]
                if storable(kind, a): cur[v(o):v(o)] = a
        elif op == 'set':
            a = arg(); calls.append('set ' + enc(a))
            cur = list(a) if storable(kind, a) else []
        else:
            o = num(); calls.append('split %s' % o)
            if kind != 'comment' and v(o) <= len(cur): del cur[v(o):]
    return '%s %s %s' % (kind, enc(s), ' ; '.join(calls)), len(calls), s

def gen_cases(run):
    """returns the list of case lines and fills the evidence counters"""
    thorough = run.tier == 'thorough'
    rng = run.rng
    cases = []
    def add(line, nops, key, nontrivial):
        cases.append(line)
        run.evaluations += nops
        if nontrivial:
            run.nontrivial.add(key)
    # (1) exhaustive lattice on short strings over the pool
    full_len = 4 if thorough else 3
    strings = [list(t) for n in range(full_len + 1) for t in itertools.product(POOL, repeat=n)]
    if not thorough:
        # length 4: a seeded sample, always including all-multibyte and mixed strings
        longer = [list(t) for t in itertools.product(POOL, repeat=4)]
        fixed = [[0x3042, 0xE9, 0x1F600, 0x301], [97, 98, 97, 98], [0x1F600] * 4, [0x301, 0x301, 97, 0x1F600]]
        strings += fixed + rng.sample(longer, 12)
    for s in strings:
        for kind in KINDS + ['expanded']:
            full = thorough or len(s) <= 1
            other = INVALID_ARGS.get(kind, []) + EDGE_ARGS.get(kind, [])
            if not full:
                other = rng.sample(INVALID_ARGS.get(kind, [[]]), min(2, len(INVALID_ARGS.get(kind, [])))) + \
                        rng.sample(EDGE_ARGS.get(kind, [[]]), min(1, len(EDGE_ARGS.get(kind, []))))
            for line, nops, meta in single_op_cases(kind, s, VALID_ARGS, other, full):
                n = len(s)
                nt = multibyte(s) or (len(meta) > 2 and boundary(n, *meta[2:]))
                add(line, nops, line, nt)
                run.count('op:' + meta[0], nops)
                run.count('len:%d' % n, nops)
                run.count('kind:' + kind, nops)
    run.extra['exhaustive_strings'] = len(strings)
    run.extra['exhaustive_max_len'] = full_len
    # (2) random histories on longer strings
    nhist = 40000 if thorough else 4000
    for i in range(nhist):
        kind = (KINDS + ['expanded'])[i % 4] if i % 16 == 3 else KINDS[i % 3]
        line, nops, s = random_history(rng, kind)
        add(line, nops, line, True)
        run.count('history:calls=%d' % nops)
        run.count('kind:' + kind, nops)
        run.count('op:history', nops)
        if i < 4:
            run.sample({'history': line})
    return cases

# ------------------------------------------------------------------ comparison
def groups(line):
    return line.split(' ; ')

def case_prefix(case, k):
    """the case cut after its k-th call (0-based)"""
    w = case.split(' ')
    head, calls = w[:2], ' '.join(w[2:]).split(' ; ')
    return ' '.join(head) + ' ' + ' ; '.join(calls[:k + 1])

def call_at(case, k):
    return ' '.join(case.split(' ')[2:]).split(' ; ')[k]

def compare_spec(case, impl, spec):
    """None when the implementation agrees with DOM Level 1 on this history, else (k, why)"""
    gi, gs = groups(impl), groups(spec)
    for k, s in enumerate(gs):
        if k >= len(gi):
            return (k, 'the implementation stopped after %d calls (%s)' % (len(gi), gi[-1] if gi else ''))
        if s == 'unspecified':
            if gi[k].startswith('panic'):
                return (k, 'panic on an argument the node kind cannot hold')
            return None
        if gi[k] != s:
            return (k, 'expected "%s", the implementation answers "%s"' % (s, gi[k]))
    if len(gi) != len(gs):
        return (len(gs), 'extra output')
    return None

def classify(case, k, why):
    op = call_at(case, k).split(' ')[0]
    kind = case.split(' ')[0]
    if 'panic' in why: return '%s.%s panics' % (kind, op)
    return '%s.%s differs from DOM Level 1' % (kind, op)

def minimise(case, k, impl_line, spec_line, run_pair):
    """try the single failing call on the state it was applied to (when that state is a
    possible initial state: no following siblings)"""
    cut = case_prefix(case, k)
    if k == 0:
        return cut
    prev = groups(spec_line)[k - 1].split(' ')
    if len(prev) >= 3 and prev[-1] == '.':
        cand = '%s %s %s' % (case.split(' ')[0], prev[-2], call_at(case, k))
        i, s = run_pair(cand)
        if i is not None and compare_spec(cand, i, s) is not None:
            return cand
    return cut

def check(run):
    run.trusted = ['Coq 8.16.1 kernel', 'Spec/DomCharData.v: transcription of DOM Level 1 CharacterData/Text and of XML 1.0 productions [14] [15] [20]',
                   'Model/CharData.v: hand-written model of dom/info character-data code, tied by the cdata correspondence below',
                   'harness/src/domains/cdata.rs', 'extraction (ExtrOcamlBasic only) + ocaml glue']
    lib.proof_step(run, 'C16', [])
    okr, mok, sok = lib.build_binaries(run, model_areas=['cdata'], spec_areas=['cdata'])
    okm, oks = mok.get('cdata', False), sok.get('cdata', False)
    if okr and (okm or oks):
        cases = gen_cases(run)
        shards = min(lib.NPROC, 8)
        rc, impl = lib.run_bin(lib.rust_bin(), ['cdata'], cases, timeout=1500, shards=shards)
        if len(impl) != len(cases):
            run.tie_breaks.append('harness returned %d lines for %d cases (rc %s)' % (len(impl), len(cases), rc))
            impl = impl + ['crash'] * (len(cases) - len(impl))
        def run_pair(c):
            _, i = lib.run_bin(lib.rust_bin(), ['cdata'], [c], timeout=60)
            _, s = lib.run_bin(lib.spec_bin('cdata'), ['cdata'], [c], timeout=60)
            return (i[0] if i else None), (s[0] if s else None)
        # (a) correspondence: model vs implementation, whole lines
        if okm:
            rc, model = lib.run_bin(lib.model_bin('cdata'), ['cdata'], cases, timeout=1500, shards=shards)
            ndiff = 0
            for c, a, b in zip(cases, model, impl):
                if a != b:
                    ndiff += 1
                    if ndiff <= 5:
                        run.tie_breaks.append('cdata: model and implementation differ on `%s`: model `%s` / implementation `%s`' % (c, a, b))
            if len(model) != len(cases):
                run.tie_breaks.append('model driver returned %d lines for %d cases' % (len(model), len(cases)))
            run.extra['correspondence_cases'] = len(cases)
            run.extra['correspondence_differences'] = ndiff
        # (b) failing-input search: spec vs implementation
        if oks:
            rc, spec = lib.run_bin(lib.spec_bin('cdata'), ['cdata'], cases, timeout=1500, shards=shards)
            if len(spec) != len(cases):
                run.tie_breaks.append('spec driver returned %d lines for %d cases' % (len(spec), len(cases)))
            per_class = {}
            unspecified = 0
            for c, i, s in zip(cases, impl, spec):
                if s.endswith('unspecified'):
                    unspecified += 1
                r = compare_spec(c, i, s)
                if r is None:
                    continue
                k, why = r
                cls = classify(c, k, why)
                per_class[cls] = per_class.get(cls, 0) + 1
                if per_class[cls] > 2:
                    continue
                small = minimise(c, k, i, s, run_pair)
                i2, s2 = run_pair(small)
                run.failing_inputs.append({'property': 'C16', 'class': cls, 'what': '%s: %s' % (cls, why), 'case': small,
                                           'implementation': i2, 'specification': s2, 'found_in': c,
                                           'replay': 'echo "%s" | %s cdata' % (small, lib.rust_bin())})
            run.extra['failing_classes'] = per_class
            run.extra['histories_ending_unspecified'] = unspecified
            for c, i in list(zip(cases, impl))[:: max(1, len(cases) // 8)]:
                run.sample({'case': c, 'observation': i})
        # thorough: the release profile too (overflow wraps instead of panicking there)
        if run.tier == 'thorough':
            with lib.Lock():
                okrel, outrel, _ = lib.cargo_build(release=True)
            if not okrel:
                run.tie_breaks.append('release build of the harness failed: ' + outrel[-300:])
            else:
                sub = cases[:: 7]
                rc, impl_r = lib.run_bin(lib.rust_bin(True), ['cdata'], sub, timeout=1500, shards=shards)
                nrel = 0
                if okm:
                    rc, model_r = lib.run_bin(lib.model_bin('cdata'), ['cdata_release'], sub, timeout=1500, shards=shards)
                    for c, a, b in zip(sub, model_r, impl_r):
                        if a != b:
                            nrel += 1
                            if nrel <= 3:
                                run.tie_breaks.append('cdata (release): model `%s` / implementation `%s` on `%s`' % (a, b, c))
                if oks:
                    spec_r = spec[:: 7]
                    seen_rel = set()
                    for c, i, sp in zip(sub, impl_r, spec_r):
                        r = compare_spec(c, i, sp)
                        if r is None: continue
                        cls = classify(c, r[0], r[1]) + ' (release build)'
                        if cls in seen_rel: continue
                        seen_rel.add(cls)
                        run.failing_inputs.append({'property': 'C16', 'class': cls, 'what': '%s: %s' % (cls, r[1]), 'case': case_prefix(c, r[0]),
                                                   'implementation': i, 'specification': sp, 'profile': 'release',
                                                   'replay': 'echo "%s" | %s cdata' % (case_prefix(c, r[0]), lib.rust_bin(True))})
                run.extra['release_cases'] = len(sub)
                run.extra['release_differences'] = nrel
    return run.finish(level='proof',
        rule='one case = one call applied to one (kind, data) state, or one history of up to 8 calls; distinct by the case line; '
             'non-trivial = the data has a multi-byte character, or the offset / count is at a boundary '
             '(offset >= length, count = 0, offset+count >= length, usize::MAX), or it is a random history',
        assumptions=['data length + total argument length < 2^64 (memory bound of the Rust process)',
                     'calls whose RESULTING data are storable in the node kind per XML 1.0 [14] [15] [20] (DOM Level 1 is silent otherwise; since the repairs D39/D46 the code validates the result of every edit, not the inserted fragment)',
                     'the node is a child of an element (split_text); tree navigation itself belongs to C12/C13'])

def replay(path):
    d = json.load(open(path))
    print(json.dumps(d, indent=1, ensure_ascii=False))
    case = d.get('case')
    if case:
        for name, binary, dom in (('implementation', lib.rust_bin(), 'cdata'), ('model', lib.model_bin('cdata'), 'cdata'),
                                  ('model of the pinned tree', lib.model_bin('cdata'), 'cdata_pinned'),
                                  ('specification', lib.spec_bin('cdata'), 'cdata')):
            rc, out = lib.run_bin(binary, [dom], [case], timeout=60)
            print('%-26s %s' % (name + ':', out[0] if out else '(no output, rc %s)' % rc))
    return 0
