(** * C05, round 2: comparisons.

    - [exists_sv_agrees], [exists_sv2_agrees]: the loops over string-values of tree nodes are
      [existsb] over the string-values of section 5;
    - [eq_value_agrees]: [=] and [!=] of the model are the ones of section 3.4;
    - [rel_value_agrees]: [<], [<=], [>], [>=] likewise. *)
From Coq Require Import List NArith ZArith Bool Lia Sorting.Sorted Sorting.Permutation.
From Coq Require Import Floats.SpecFloat.
From XmlRs Require Import Base.CPred Base.NList Base.Float64.
From XmlRs Require Import Spec.XPathCore Model.XPathFuncs.
From XmlRs Require Import Model.XPathAst Model.XDoc Model.XPathScalar Model.XPathEval.
From XmlRs Require Import Spec.XPath10.
From XmlRs Require Import Proofs.XPathNav Proofs.XPathSort Proofs.XPathCanon
  Proofs.XPathRefine Proofs.XPathRefinePaths Proofs.XPathRefineTree Proofs.XPathRefineAxes
  Proofs.XPathFuncsNum Proofs.XPathRefineFloat Proofs.XPathRefineVal Proofs.XPathFuncsStr.
Import ListNotations.
Open Scope N_scope.

(** ** lists *)
Lemma existsb_map_fn {A B} (f : B -> bool) (g : A -> B) (l : list A) :
  existsb f (map g l) = existsb (fun x => f (g x)) l.
Proof.
  induction l as [|x t IH]; [reflexivity|]. cbn [map existsb]. rewrite IH. reflexivity.
Qed.

Lemma existsb_ext_fn {A} (f g : A -> bool) (l : list A) :
  (forall x, f x = g x) -> existsb f l = existsb g l.
Proof.
  intros H. induction l as [|x t IH]; [reflexivity|]. cbn [existsb]. rewrite IH, H. reflexivity.
Qed.

Lemma existsb_const_false {A} (l : list A) : existsb (fun _ => false) l = false.
Proof. induction l as [|x t IH]; [reflexivity|]. cbn [existsb orb]. exact IH. Qed.

Lemma existsb_orb_fn {A} (f g : A -> bool) (l : list A) :
  existsb (fun x => f x || g x) l = existsb f l || existsb g l.
Proof.
  induction l as [|x t IH]; [reflexivity|]. cbn [existsb]. rewrite IH.
  destruct (f x), (g x), (existsb f t), (existsb g t); reflexivity.
Qed.

Lemma existsb_swap {A B} (f : A -> B -> bool) (la : list A) (lb : list B) :
  existsb (fun x => existsb (fun y => f x y) lb) la =
  existsb (fun y => existsb (fun x => f x y) la) lb.
Proof.
  induction la as [|x t IH]; cbn [existsb].
  - symmetry. apply existsb_const_false.
  - rewrite IH. symmetry. apply existsb_orb_fn.
Qed.

(** ** floats *)
Lemma f64_eqb_sym (x y : f64) : f64_eqb x y = f64_eqb y x.
Proof.
  unfold f64_eqb, SFeqb. change SFcompare with f64_compare.
  rewrite (compare_antisym y x). destruct (f64_compare y x) as [[| |]|]; reflexivity.
Qed.

Lemma f64_gtb_ltb (x y : f64) : f64_gtb x y = f64_ltb y x.
Proof.
  unfold f64_gtb, f64_ltb, SFltb. change SFcompare with f64_compare.
  rewrite (compare_antisym y x). destruct (f64_compare y x) as [[| |]|]; reflexivity.
Qed.

(** ** scalar comparisons of the specification *)
Definition relop_binop (op : rel_op) : binop :=
  match op with
  | OpLessThan => OLt | OpGreaterThan => OGt | OpLessEqual => OLe | OpGreaterEqual => OGe
  end.

Definition eq_binop (neq : bool) : binop := if neq then ONe else OEq.

Lemma is_eq_op_eq neq : is_eq_op (eq_binop neq) = true.
Proof. destruct neq; reflexivity. Qed.

Lemma is_eq_op_rel op : is_eq_op (relop_binop op) = false.
Proof. destruct op; reflexivity. Qed.

Lemma cmp_eq_scalar neq a b : is_vnodes a = false -> is_vnodes b = false ->
  cmp_scalar (eq_binop neq) a b = xorb neq (xp_equal a b).
Proof.
  intros Ha Hb. unfold cmp_scalar, spec_op. rewrite Ha, Hb. cbn [orb].
  destruct neq; cbn [eq_binop xorb]; [reflexivity|]. destruct (xp_equal a b); reflexivity.
Qed.

Lemma cmp_eq_str neq s t : cmp_scalar (eq_binop neq) (VStr s) (VStr t) = xorb neq (str_eqb s t).
Proof. rewrite cmp_eq_scalar by reflexivity. reflexivity. Qed.

Lemma cmp_eq_num neq x y : cmp_scalar (eq_binop neq) (VNum x) (VNum y) = xorb neq (f64_eqb x y).
Proof. rewrite cmp_eq_scalar by reflexivity. reflexivity. Qed.

Lemma cmp_eq_bool neq x y : cmp_scalar (eq_binop neq) (VBool x) (VBool y) = xorb neq (Bool.eqb x y).
Proof. rewrite cmp_eq_scalar by reflexivity. reflexivity. Qed.

Lemma cmp_rel_scalar op a b : is_vnodes a = false -> is_vnodes b = false ->
  cmp_scalar (relop_binop op) a b = num_rel op (xp_number a) (xp_number b).
Proof.
  intros Ha Hb. unfold cmp_scalar, spec_op. rewrite Ha, Hb. cbn [orb].
  destruct op; cbn [relop_binop num_rel]; try reflexivity.
  - apply f64_gtb_ltb.
  - apply f64_geb_leb.
Qed.

Lemma num_rel_flip op x y : num_rel (flip_rel op) x y = num_rel op y x.
Proof. destruct op; reflexivity. Qed.

(** the booleans as numbers: [false < true] *)
Lemma bool_rel_num op x y :
  bool_rel op x y = num_rel op (xp_number (VBool x)) (xp_number (VBool y)).
Proof. destruct op, x, y; vm_compute; reflexivity. Qed.

Lemma bool_rel_flip op x y : bool_rel (flip_rel op) x y = bool_rel op y x.
Proof. destruct op, x, y; reflexivity. Qed.

Section Cmp.
Variable doc : xdoc.
Hypothesis Hinv : DocInv doc.
Hypothesis Hshape : SpecShape doc.

Notation T := (T doc).
Notation ssv := (ssv doc).

(** ** the loops *)
Lemma exists_sv_agrees (p : str -> bool) (l : list node) : Forall T l ->
  exists_sv doc p l = Ok (existsb (fun i => p (ssv (Row i))) l).
Proof.
  induction l as [|i t IH]; intros Ht; [reflexivity|].
  inversion Ht as [|i' t' Ti Ht']; subst.
  cbn [exists_sv existsb]. rewrite (sv_agrees doc Hinv Hshape i Ti), bind_ok. fold (ssv (Row i)).
  destruct (p (ssv (Row i))); [reflexivity|]. cbn [orb]. apply IH. exact Ht'.
Qed.

(** the inner loop of [exists_sv2] *)
Definition inner_sv (p : str -> str -> bool) (i : node) : list node -> res bool :=
  fix inner (vs : list node) : res bool :=
    match vs with
    | [] => Ok false
    | j :: vt =>
        bind (string_value doc j) (fun sj =>
        bind (string_value doc i) (fun si =>
        if p sj si then Ok true else inner vt))
    end.

Lemma inner_sv_cons p i j vt :
  inner_sv p i (j :: vt) =
  bind (string_value doc j) (fun sj =>
  bind (string_value doc i) (fun si =>
  if p sj si then Ok true else inner_sv p i vt)).
Proof. reflexivity. Qed.

Lemma exists_sv2_cons p i t values :
  exists_sv2 doc p (i :: t) values =
  bind (inner_sv p i values) (fun r => if r then Ok true else exists_sv2 doc p t values).
Proof. reflexivity. Qed.

Lemma inner_sv_agrees p i values : T i -> Forall T values ->
  inner_sv p i values = Ok (existsb (fun j => p (ssv (Row j)) (ssv (Row i))) values).
Proof.
  intros Ti. induction values as [|j vt IH]; intros Hv; [reflexivity|].
  inversion Hv as [|j' vt' Tj Hv']; subst.
  rewrite inner_sv_cons. cbn [existsb].
  rewrite (sv_agrees doc Hinv Hshape j Tj), bind_ok, (sv_agrees doc Hinv Hshape i Ti), bind_ok.
  fold (ssv (Row j)). fold (ssv (Row i)).
  destruct (p (ssv (Row j)) (ssv (Row i))); [reflexivity|]. cbn [orb]. apply IH. exact Hv'.
Qed.

Lemma exists_sv2_agrees p b values : Forall T b -> Forall T values ->
  exists_sv2 doc p b values =
  Ok (existsb (fun i => existsb (fun j => p (ssv (Row j)) (ssv (Row i))) values) b).
Proof.
  intros Hb Hv. induction b as [|i t IH]; [reflexivity|].
  inversion Hb as [|i' t' Ti Hb']; subst.
  rewrite exists_sv2_cons, (inner_sv_agrees p i values Ti Hv), bind_ok. cbn [existsb].
  destruct (existsb (fun j => p (ssv (Row j)) (ssv (Row i))) values); [reflexivity|].
  cbn [orb]. apply IH. exact Hb'.
Qed.

(** non-emptiness *)
Lemma nodes_boolean (l : list node) :
  s_boolean doc (SNodes (map Row l)) = match l with [] => false | _ => true end.
Proof. unfold s_boolean. rewrite to_core_nodes. destruct l; reflexivity. Qed.

(** ** [=] and [!=] *)

(** a scalar or node-set [a] against the node-set [b], in this order *)
Lemma eq_node_agrees neq a sa l : vrel doc a sa -> Forall T l ->
  eq_node doc neq a l = Ok (s_compare doc (eq_binop neq) sa (SNodes (map Row l))).
Proof.
  intros Ha Hl.
  destruct a as [x|la|x|s], sa as [x'|x'|s'|la']; cbn [vrel] in Ha; try contradiction.
  - (* boolean *)
    subst x'. cbn [eq_node s_compare]. rewrite cmp_eq_bool, nodes_boolean. f_equal.
    destruct neq, x, l; reflexivity.
  - (* two node-sets: the model loops over [l] first *)
    destruct Ha as [-> [_ Hla]]. cbn [eq_node s_compare].
    rewrite (exists_sv2_agrees _ l la Hl Hla). f_equal.
    rewrite is_eq_op_eq. rewrite existsb_map_fn.
    etransitivity; [apply existsb_swap|].
    apply existsb_ext_fn. intros j. rewrite existsb_map_fn. apply existsb_ext_fn. intros i.
    rewrite cmp_eq_str. reflexivity.
  - (* number *)
    destruct Ha as [-> _]. cbn [eq_node s_compare].
    rewrite (exists_sv_agrees _ l Hl). f_equal. rewrite existsb_map_fn.
    apply existsb_ext_fn. intros i. rewrite cmp_eq_num, str_to_number_spec.
    rewrite (f64_eqb_sym x'). reflexivity.
  - (* string *)
    subst s'. cbn [eq_node s_compare].
    rewrite (exists_sv_agrees _ l Hl). f_equal. rewrite is_eq_op_eq, existsb_map_fn.
    apply existsb_ext_fn. intros i. rewrite cmp_eq_str, (str_eqb_sym s). reflexivity.
Qed.

(** the node-set on the left: the specification is symmetric *)
Lemma s_compare_eq_sym neq sa sb :
  s_compare doc (eq_binop neq) sa sb = s_compare doc (eq_binop neq) sb sa.
Proof.
  assert (Hsc : forall a b, is_vnodes a = false -> is_vnodes b = false ->
            cmp_scalar (eq_binop neq) a b = cmp_scalar (eq_binop neq) b a).
  { intros a b Ha Hb. rewrite !cmp_eq_scalar by assumption. f_equal. unfold xp_equal.
    rewrite (orb_comm (is_vbool a)), (orb_comm (is_vnum a)).
    destruct (is_vbool b || is_vbool a).
    - destruct (xp_boolean a), (xp_boolean b); reflexivity.
    - destruct (is_vnum b || is_vnum a); [apply f64_eqb_sym|apply str_eqb_sym]. }
  destruct sa as [x|x|s|la], sb as [y|y|t|lb]; cbn [s_compare to_core];
    try (apply Hsc; reflexivity); rewrite ?is_eq_op_eq.
  - apply existsb_ext_fn. intros i. apply Hsc; reflexivity.
  - apply existsb_ext_fn. intros i. apply Hsc; reflexivity.
  - apply existsb_ext_fn. intros i. apply Hsc; reflexivity.
  - apply existsb_ext_fn. intros i. apply Hsc; reflexivity.
  - etransitivity; [apply existsb_swap|].
    apply existsb_ext_fn. intros j. apply existsb_ext_fn. intros i. apply Hsc; reflexivity.
Qed.

Theorem eq_value_agrees : forall (neq : bool) a b sa sb, vrel doc a sa -> vrel doc b sb ->
  eq_value doc neq a b = Ok (s_compare doc (if neq then ONe else OEq) sa sb).
Proof.
  intros neq a b sa sb Ha Hb. change (if neq then ONe else OEq) with (eq_binop neq).
  destruct a as [x|la|x|s].
  - (* boolean *)
    destruct b as [y|lb|y|t].
    + destruct sa as [x'|x'|s'|la'], sb as [y'|y'|t'|lb']; cbn [vrel] in Ha, Hb; try contradiction.
      subst. cbn [eq_value is_bool orb val_to_bool s_compare to_core]. rewrite cmp_eq_bool. reflexivity.
    + destruct sb as [y'|y'|t'|lb']; cbn [vrel] in Hb; try contradiction.
      destruct Hb as [-> [_ Hlb]]. cbn [eq_value]. apply eq_node_agrees; assumption.
    + destruct sa as [x'|x'|s'|la'], sb as [y'|y'|t'|lb']; cbn [vrel] in Ha, Hb; try contradiction.
      subst. destruct Hb as [-> _]. cbn [eq_value is_bool orb val_to_bool s_compare to_core].
      rewrite cmp_eq_scalar by reflexivity. rewrite to_bool_refines. reflexivity.
    + destruct sa as [x'|x'|s'|la'], sb as [y'|y'|t'|lb']; cbn [vrel] in Ha, Hb; try contradiction.
      subst. cbn [eq_value is_bool orb val_to_bool s_compare to_core].
      rewrite cmp_eq_scalar by reflexivity. rewrite to_bool_refines. reflexivity.
  - (* node-set on the left *)
    destruct sa as [x'|x'|s'|la']; cbn [vrel] in Ha; try contradiction.
    destruct Ha as [-> [_ Hla]].
    assert (E : eq_value doc neq (XNodes la) b = eq_node doc neq b la) by (destruct b; reflexivity).
    rewrite E, s_compare_eq_sym. apply eq_node_agrees; assumption.
  - (* number *)
    destruct b as [y|lb|y|t].
    + destruct sa as [x'|x'|s'|la'], sb as [y'|y'|t'|lb']; cbn [vrel] in Ha, Hb; try contradiction.
      subst. destruct Ha as [-> _]. cbn [eq_value is_bool orb val_to_bool s_compare to_core].
      rewrite cmp_eq_scalar by reflexivity. rewrite to_bool_refines. reflexivity.
    + destruct sb as [y'|y'|t'|lb']; cbn [vrel] in Hb; try contradiction.
      destruct Hb as [-> [_ Hlb]]. cbn [eq_value]. apply eq_node_agrees; assumption.
    + destruct sa as [x'|x'|s'|la'], sb as [y'|y'|t'|lb']; cbn [vrel] in Ha, Hb; try contradiction.
      destruct Ha as [-> _], Hb as [-> _].
      cbn [eq_value is_bool is_number orb val_to_number s_compare to_core]. rewrite !bind_ok.
      rewrite cmp_eq_num. reflexivity.
    + destruct sa as [x'|x'|s'|la'], sb as [y'|y'|t'|lb']; cbn [vrel] in Ha, Hb; try contradiction.
      destruct Ha as [-> _]. subst.
      cbn [eq_value is_bool is_number orb val_to_number s_compare to_core]. rewrite !bind_ok.
      rewrite cmp_eq_scalar by reflexivity. rewrite str_to_number_spec. reflexivity.
  - (* string *)
    destruct b as [y|lb|y|t].
    + destruct sa as [x'|x'|s'|la'], sb as [y'|y'|t'|lb']; cbn [vrel] in Ha, Hb; try contradiction.
      subst. cbn [eq_value is_bool orb val_to_bool s_compare to_core].
      rewrite cmp_eq_scalar by reflexivity. rewrite to_bool_refines. reflexivity.
    + destruct sb as [y'|y'|t'|lb']; cbn [vrel] in Hb; try contradiction.
      destruct Hb as [-> [_ Hlb]]. cbn [eq_value]. apply eq_node_agrees; assumption.
    + destruct sa as [x'|x'|s'|la'], sb as [y'|y'|t'|lb']; cbn [vrel] in Ha, Hb; try contradiction.
      destruct Hb as [-> _]. subst.
      cbn [eq_value is_bool is_number orb val_to_number s_compare to_core]. rewrite !bind_ok.
      rewrite cmp_eq_scalar by reflexivity. rewrite str_to_number_spec. reflexivity.
    + destruct sa as [x'|x'|s'|la'], sb as [y'|y'|t'|lb']; cbn [vrel] in Ha, Hb; try contradiction.
      subst. cbn [eq_value is_bool is_number orb val_to_string s_compare to_core]. rewrite !bind_ok.
      rewrite cmp_eq_str. reflexivity.
Qed.

(** ** [<], [<=], [>], [>=] *)

(** [a op b] for the node-set [b] *)
Lemma rel_node_agrees op a sa l : vrel doc a sa -> Forall T l ->
  rel_node doc op a l = Ok (s_compare doc (relop_binop op) sa (SNodes (map Row l))).
Proof.
  intros Ha Hl.
  destruct a as [x|la|x|s], sa as [x'|x'|s'|la']; cbn [vrel] in Ha; try contradiction.
  - subst x'. cbn [rel_node s_compare]. rewrite cmp_rel_scalar by reflexivity.
    rewrite nodes_boolean, bool_rel_num. reflexivity.
  - destruct Ha as [-> [_ Hla]]. cbn [rel_node s_compare].
    rewrite (exists_sv2_agrees _ l la Hl Hla). f_equal.
    rewrite is_eq_op_rel. rewrite existsb_map_fn.
    etransitivity; [apply existsb_swap|].
    apply existsb_ext_fn. intros j. rewrite existsb_map_fn. apply existsb_ext_fn. intros i.
    rewrite cmp_rel_scalar by reflexivity. rewrite !str_to_number_spec. reflexivity.
  - destruct Ha as [-> _]. cbn [rel_node s_compare].
    rewrite (exists_sv_agrees _ l Hl). f_equal. rewrite existsb_map_fn.
    apply existsb_ext_fn. intros i. rewrite cmp_rel_scalar by reflexivity.
    rewrite str_to_number_spec. reflexivity.
  - subst s'. cbn [rel_node s_compare].
    rewrite (exists_sv_agrees _ l Hl). f_equal. rewrite is_eq_op_rel, existsb_map_fn.
    apply existsb_ext_fn. intros i. rewrite cmp_rel_scalar by reflexivity.
    rewrite !str_to_number_spec. reflexivity.
Qed.

(** the scalar [b] against the node-set [l] on the left: the mirrored operator *)
Lemma rel_node_flip_agrees op b sb l : vrel doc b sb -> Forall T l ->
  match b with XNodes _ => False | _ => True end ->
  rel_node doc (flip_rel op) b l = Ok (s_compare doc (relop_binop op) (SNodes (map Row l)) sb).
Proof.
  intros Hb Hl Hn.
  destruct b as [x|lb|x|s], sb as [x'|x'|s'|lb']; cbn [vrel] in Hb; try contradiction.
  - subst x'. cbn [rel_node s_compare]. rewrite cmp_rel_scalar by reflexivity.
    rewrite nodes_boolean, bool_rel_flip, bool_rel_num. reflexivity.
  - destruct Hb as [-> _]. cbn [rel_node s_compare].
    rewrite (exists_sv_agrees _ l Hl). f_equal. rewrite existsb_map_fn.
    apply existsb_ext_fn. intros i. rewrite cmp_rel_scalar by reflexivity.
    rewrite num_rel_flip, str_to_number_spec. reflexivity.
  - subst s'. cbn [rel_node s_compare].
    rewrite (exists_sv_agrees _ l Hl). f_equal. rewrite is_eq_op_rel, existsb_map_fn.
    apply existsb_ext_fn. intros i. rewrite cmp_rel_scalar by reflexivity.
    rewrite num_rel_flip, !str_to_number_spec. reflexivity.
Qed.

Theorem rel_value_agrees : forall (op : rel_op) a b sa sb, vrel doc a sa -> vrel doc b sb ->
  rel_value doc op a b = Ok (s_compare doc (relop_binop op) sa sb).
Proof.
  intros op a b sa sb Ha Hb.
  destruct b as [y|lb|y|t].
  - destruct a as [x|la|x|s].
    + cbn [rel_value]. rewrite (val_to_number_agrees doc Hinv Hshape _ _ Ha), bind_ok.
      rewrite (val_to_number_agrees doc Hinv Hshape _ _ Hb), bind_ok.
      destruct sa as [x'|x'|s'|la'], sb as [y'|y'|t'|lb']; cbn [vrel] in Ha, Hb; try contradiction.
      cbn [s_compare]. rewrite cmp_rel_scalar by reflexivity. reflexivity.
    + destruct sa as [x'|x'|s'|la']; cbn [vrel] in Ha; try contradiction.
      destruct Ha as [-> [_ Hla]]. cbn [rel_value]. apply rel_node_flip_agrees; [assumption|assumption|exact I].
    + cbn [rel_value]. rewrite (val_to_number_agrees doc Hinv Hshape _ _ Ha), bind_ok.
      rewrite (val_to_number_agrees doc Hinv Hshape _ _ Hb), bind_ok.
      destruct sa as [x'|x'|s'|la'], sb as [y'|y'|t'|lb']; cbn [vrel] in Ha, Hb; try contradiction.
      cbn [s_compare]. rewrite cmp_rel_scalar by reflexivity. reflexivity.
    + cbn [rel_value]. rewrite (val_to_number_agrees doc Hinv Hshape _ _ Ha), bind_ok.
      rewrite (val_to_number_agrees doc Hinv Hshape _ _ Hb), bind_ok.
      destruct sa as [x'|x'|s'|la'], sb as [y'|y'|t'|lb']; cbn [vrel] in Ha, Hb; try contradiction.
      cbn [s_compare]. rewrite cmp_rel_scalar by reflexivity. reflexivity.
  - destruct sb as [y'|y'|t'|lb']; cbn [vrel] in Hb; try contradiction.
    destruct Hb as [-> [_ Hlb]]. cbn [rel_value]. apply rel_node_agrees; assumption.
  - destruct a as [x|la|x|s].
    + cbn [rel_value]. rewrite (val_to_number_agrees doc Hinv Hshape _ _ Ha), bind_ok.
      rewrite (val_to_number_agrees doc Hinv Hshape _ _ Hb), bind_ok.
      destruct sa as [x'|x'|s'|la'], sb as [y'|y'|t'|lb']; cbn [vrel] in Ha, Hb; try contradiction.
      cbn [s_compare]. rewrite cmp_rel_scalar by reflexivity. reflexivity.
    + destruct sa as [x'|x'|s'|la']; cbn [vrel] in Ha; try contradiction.
      destruct Ha as [-> [_ Hla]]. cbn [rel_value]. apply rel_node_flip_agrees; [assumption|assumption|exact I].
    + cbn [rel_value]. rewrite (val_to_number_agrees doc Hinv Hshape _ _ Ha), bind_ok.
      rewrite (val_to_number_agrees doc Hinv Hshape _ _ Hb), bind_ok.
      destruct sa as [x'|x'|s'|la'], sb as [y'|y'|t'|lb']; cbn [vrel] in Ha, Hb; try contradiction.
      cbn [s_compare]. rewrite cmp_rel_scalar by reflexivity. reflexivity.
    + cbn [rel_value]. rewrite (val_to_number_agrees doc Hinv Hshape _ _ Ha), bind_ok.
      rewrite (val_to_number_agrees doc Hinv Hshape _ _ Hb), bind_ok.
      destruct sa as [x'|x'|s'|la'], sb as [y'|y'|t'|lb']; cbn [vrel] in Ha, Hb; try contradiction.
      cbn [s_compare]. rewrite cmp_rel_scalar by reflexivity. reflexivity.
  - destruct a as [x|la|x|s].
    + cbn [rel_value]. rewrite (val_to_number_agrees doc Hinv Hshape _ _ Ha), bind_ok.
      rewrite (val_to_number_agrees doc Hinv Hshape _ _ Hb), bind_ok.
      destruct sa as [x'|x'|s'|la'], sb as [y'|y'|t'|lb']; cbn [vrel] in Ha, Hb; try contradiction.
      cbn [s_compare]. rewrite cmp_rel_scalar by reflexivity. reflexivity.
    + destruct sa as [x'|x'|s'|la']; cbn [vrel] in Ha; try contradiction.
      destruct Ha as [-> [_ Hla]]. cbn [rel_value]. apply rel_node_flip_agrees; [assumption|assumption|exact I].
    + cbn [rel_value]. rewrite (val_to_number_agrees doc Hinv Hshape _ _ Ha), bind_ok.
      rewrite (val_to_number_agrees doc Hinv Hshape _ _ Hb), bind_ok.
      destruct sa as [x'|x'|s'|la'], sb as [y'|y'|t'|lb']; cbn [vrel] in Ha, Hb; try contradiction.
      cbn [s_compare]. rewrite cmp_rel_scalar by reflexivity. reflexivity.
    + cbn [rel_value]. rewrite (val_to_number_agrees doc Hinv Hshape _ _ Ha), bind_ok.
      rewrite (val_to_number_agrees doc Hinv Hshape _ _ Hb), bind_ok.
      destruct sa as [x'|x'|s'|la'], sb as [y'|y'|t'|lb']; cbn [vrel] in Ha, Hb; try contradiction.
      cbn [s_compare]. rewrite cmp_rel_scalar by reflexivity. reflexivity.
Qed.

End Cmp.

Print Assumptions eq_value_agrees.
Print Assumptions rel_value_agrees.
