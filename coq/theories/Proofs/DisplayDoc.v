(** * C04, rung 3 (first part): XML declaration, Misc, prolog and document around the root element.

    The document type declaration enters through the hypothesis [doctype_rt] (proved for the
    declarations the printer writes in Proofs/DisplayDtd.v when that file exists; until then the
    theorem [document_round_trip] is unconditional for documents without a DOCTYPE). *)
From Coq Require Import List NArith Arith Lia Bool.
From XmlRs Require Import Base.CPred Model.Peg Gen.XmlcharGen Gen.GrammarXmlGen Model.ParseActions
     Model.Info Model.Display Proofs.PegTermination Proofs.GrammarTermination Proofs.PegLemmas Proofs.Expansion
     Proofs.DisplayLex Proofs.ActionLemmas Proofs.DisplayElem Proofs.DisplayRun.
Import ListNotations.
Local Open Scope N_scope.

Ltac norm_str := norm_app.

(** ** XML declaration *)
Definition alpha : cpred := InR [(65,90);(97,122)].

Lemma body_xml_decl : body G_xml nt_xml_decl =
  Map L_model_DeclarationXml_from (SeqR (Tag [60;63;120;109;108])
    (SeqL (Seq (NT nt_version_info) (Seq (Opt (NT nt_encoding_decl)) (Opt (NT nt_sd_decl)))) (Seq (Chars0 ws) (Tag [63;62])))).
Proof. reflexivity. Qed.
Lemma body_version_info : body G_xml nt_version_info =
  SeqR (Seq (Chars1 ws) (Seq (Tag [118;101;114;115;105;111;110]) (NT nt_eq)))
       (Alt (SeqR (Tag [39]) (SeqL (NT nt_version_num) (Tag [39]))) (SeqR (Tag [34]) (SeqL (NT nt_version_num) (Tag [34])))).
Proof. reflexivity. Qed.
Lemma body_version_num : body G_xml nt_version_num = Recognize (Seq (Tag [49;46]) (Chars1 dec_digits)).
Proof. reflexivity. Qed.
Lemma body_encoding_decl : body G_xml nt_encoding_decl =
  SeqR (Seq (Chars1 ws) (Seq (Tag [101;110;99;111;100;105;110;103]) (NT nt_eq)))
       (Alt (SeqR (Tag [39]) (SeqL (NT nt_enc_name) (Tag [39]))) (SeqR (Tag [34]) (SeqL (NT nt_enc_name) (Tag [34])))).
Proof. reflexivity. Qed.
Lemma body_enc_name : body G_xml nt_enc_name = Recognize (Seq (Chars1 alpha) (Chars0 is_enc_name)).
Proof. reflexivity. Qed.
Lemma body_sd_decl : body G_xml nt_sd_decl =
  Map L_closure_e66119a0 (SeqR (Seq (Chars1 ws) (Seq (Tag [115;116;97;110;100;97;108;111;110;101]) (NT nt_eq)))
    (Alt (SeqR (Tag [39]) (SeqL (Tag [121;101;115]) (Tag [39]))) (Alt (SeqR (Tag [34]) (SeqL (Tag [121;101;115]) (Tag [34])))
    (Alt (SeqR (Tag [39]) (SeqL (Tag [110;111]) (Tag [39]))) (SeqR (Tag [34]) (SeqL (Tag [110;111]) (Tag [34]))))))).
Proof. reflexivity. Qed.

Definition version_ok (v : str) : Prop :=
  exists ds : str, v = 49 :: 46 :: ds /\ ds <> [] /\ forallb (eval dec_digits) ds = true.

Definition enc_ok (e : str) : Prop :=
  match e with c :: e' => eval alpha c = true /\ forallb (eval is_enc_name) e' = true | [] => False end.

Lemma alpha_enc c : eval alpha c = true -> eval is_enc_name c = true.
Proof.
  unfold alpha, is_enc_name. cbn [eval existsb]. intros H. apply orb_prop in H. destruct H as [H|H].
  - rewrite H. rewrite !orb_true_r. reflexivity.
  - apply orb_prop in H. destruct H as [H|H]; [|discriminate]. rewrite H. reflexivity.
Qed.

Lemma parses_version_num (v r : str) : version_ok v -> stops (eval dec_digits) r -> P (NT nt_version_num) (v ++ r) (TStr v) r.
Proof.
  intros [ds [-> [Hne Hd]]] Hr. apply parses_nt. rewrite body_version_num.
  apply parses_recognize with (t := TPair (TStr [49;46]) (TStr ds)). cbn [app].
  eapply parses_seq; [tag|]. apply parses_chars1; assumption.
Qed.

Lemma parses_enc_name (e r : str) : enc_ok e -> stops (eval is_enc_name) r -> P (NT nt_enc_name) (e ++ r) (TStr e) r.
Proof.
  destruct e as [|c e']; [intros []|]. intros [Hc He] Hr. apply parses_nt. rewrite body_enc_name.
  destruct (span_split (eval alpha) e') as [a1 [a2 [-> [H1 H2]]]].
  apply parses_recognize with (t := TPair (TStr (c :: a1)) (TStr a2)).
  replace ((c :: a1 ++ a2) ++ r) with ((c :: a1) ++ a2 ++ r) by (cbn [app]; rewrite app_assoc; reflexivity).
  eapply parses_seq.
  - apply parses_chars1; [discriminate|apply andb_true_intro; split; [exact Hc|exact H1]|].
    apply stops_app; [|intros _; exact H2]. eapply stops_weaken; [apply alpha_enc|exact Hr].
  - apply parses_chars0; [|exact Hr]. eapply forallb_app_r. exact He.
Qed.

(** the three pseudo-attributes as the printer writes them *)
Definition d_enc_part (enc : str) : str := match enc with [] => [] | e => s_encoding ++ e ++ [34] end.
Definition d_sa_part (sa : option bool) : str :=
  match sa with Some sd => s_standalone ++ (if sd then s_yes else s_no) ++ [34] | None => [] end.
Definition v_enc (enc : str) : val := match enc with [] => VNone | e => VSome (VStr e) end.
Definition v_sa (sa : option bool) : val := match sa with Some b => VSome (VBool b) | None => VNone end.

Lemma sa_part_rt (sa : option bool) (r : str) :
  yields (Opt (NT nt_sd_decl)) (d_sa_part sa ++ s_q_gt ++ r) (v_sa sa) (s_q_gt ++ r).
Proof.
  destruct sa as [[|]|]; unfold d_sa_part, v_sa, s_standalone, s_yes, s_no, s_q_gt; norm_str.
  - apply yields_opt_some. apply yields_nt. rewrite body_sd_decl. apply (yields_map' (VStr [121;101;115])); [reflexivity|].
    eapply yields_seqr.
    + eapply parses_seq; [apply (parses_chars1 G_xml ws [32]); [discriminate|reflexivity|reflexivity]|].
      eapply parses_seq; [tag|apply parses_eq; reflexivity].
    + apply yields_alt_r; [apply fails_seqr_l; apply fails_tag; reflexivity|].
      apply yields_alt_l. apply yields_str. eapply parses_seqr; [tag|]. eapply parses_seql; tag.
  - apply yields_opt_some. apply yields_nt. rewrite body_sd_decl. apply (yields_map' (VStr [110;111])); [reflexivity|].
    eapply yields_seqr.
    + eapply parses_seq; [apply (parses_chars1 G_xml ws [32]); [discriminate|reflexivity|reflexivity]|].
      eapply parses_seq; [tag|apply parses_eq; reflexivity].
    + apply yields_alt_r; [apply fails_seqr_l; apply fails_tag; reflexivity|].
      apply yields_alt_r; [eapply fails_seqr_r; [tag|]; apply fails_seql_l; apply fails_tag; reflexivity|].
      apply yields_alt_r; [apply fails_seqr_l; apply fails_tag; reflexivity|].
      apply yields_str. eapply parses_seqr; [tag|]. eapply parses_seql; tag.
  - apply yields_opt_none. apply fails_nt. rewrite body_sd_decl. apply fails_map. apply fails_seqr_l.
    apply fails_seq_l. apply fails_chars1. reflexivity.
Qed.

Lemma fails_encoding_decl_sa (sa : option bool) (r : str) : F (NT nt_encoding_decl) (d_sa_part sa ++ s_q_gt ++ r).
Proof.
  apply fails_nt. rewrite body_encoding_decl. apply fails_seqr_l.
  destruct sa as [[|]|]; unfold d_sa_part, s_standalone, s_yes, s_no, s_q_gt; norm_str.
  - eapply fails_seq_r; [apply (parses_chars1 G_xml ws [32]); [discriminate|reflexivity|reflexivity]|].
    apply fails_seq_l. apply fails_tag. reflexivity.
  - eapply fails_seq_r; [apply (parses_chars1 G_xml ws [32]); [discriminate|reflexivity|reflexivity]|].
    apply fails_seq_l. apply fails_tag. reflexivity.
  - apply fails_seq_l. apply fails_chars1. reflexivity.
Qed.

Lemma enc_part_rt (enc : str) (r1 : str) : enc = [] \/ enc_ok enc -> F (NT nt_encoding_decl) r1 ->
  yields (Opt (NT nt_encoding_decl)) (d_enc_part enc ++ r1) (v_enc enc) r1.
Proof.
  intros He Hf. destruct enc as [|c e'].
  - cbn [d_enc_part v_enc app]. apply yields_opt_none. exact Hf.
  - destruct He as [He|He]; [discriminate|]. unfold d_enc_part, v_enc, s_encoding. norm_str.
    apply yields_opt_some. apply yields_nt. rewrite body_encoding_decl.
    eapply yields_seqr.
    + eapply parses_seq; [apply (parses_chars1 G_xml ws [32]); [discriminate|reflexivity|reflexivity]|].
      eapply parses_seq; [tag|apply parses_eq; reflexivity].
    + apply yields_alt_r; [apply fails_seqr_l; apply fails_tag; reflexivity|].
      apply yields_str. eapply parses_seqr; [tag|].
      eapply parses_seql; [apply (parses_enc_name (c :: e') (34 :: r1)); [exact He|exact eq_refl]|tag].
Qed.

Theorem xml_decl_rt (v enc : str) (sa : option bool) (r : str) : version_ok v -> enc = [] \/ enc_ok enc ->
  yields (NT nt_xml_decl) (s_xmldecl_open ++ v ++ [34] ++ d_enc_part enc ++ d_sa_part sa ++ s_q_gt ++ r)
         (VDeclXml (DeclXml v (match enc with [] => None | e => Some e end) sa)) r.
Proof.
  intros Hv He. apply yields_nt. rewrite body_xml_decl.
  apply (yields_map' (VPair (VStr v) (VPair (v_enc enc) (v_sa sa)))).
  { destruct enc, sa; reflexivity. }
  unfold s_xmldecl_open. norm_str. eapply yields_seqr; [tag|].
  eapply yields_seql.
  { eapply yields_seq.
    - apply yields_str. apply parses_nt. rewrite body_version_info. eapply parses_seqr.
      + eapply parses_seq; [apply (parses_chars1 G_xml ws [32]); [discriminate|reflexivity|reflexivity]|].
        eapply parses_seq; [tag|apply parses_eq; reflexivity].
      + apply parses_alt_r; [apply fails_seqr_l; apply fails_tag; reflexivity|].
        eapply parses_seqr; [tag|]. eapply parses_seql; [apply parses_version_num; [exact Hv|exact eq_refl]|tag].
    - eapply yields_seq; [apply enc_part_rt; [exact He|apply fails_encoding_decl_sa]|apply sa_part_rt]. }
  unfold s_q_gt. eapply parses_seq; [apply parses_chars0_nil; exact eq_refl|tag].
Qed.

(** ** Misc *)
Lemma body_misc : body G_xml nt_misc =
  Alt (Map L_model_Misc_from (NT nt_comment)) (Alt (Map L_model_Misc_from (NT nt_pi)) (Map L_model_Misc_from (Chars1 ws))).
Proof. reflexivity. Qed.

Definition misc_wf (i : item) : Prop :=
  match i with ItComment s => comment_ok s | ItPI p => pi_ok p | _ => False end.

Definition un_misc (i : item) : misc :=
  match i with ItComment s => MiComment s | ItPI p => MiPI p | _ => MiWhitespace [] end.

Lemma misc_items_un (l : list item) : Forall misc_wf l -> misc_items (map un_misc l) = l.
Proof.
  induction 1 as [|i l Hi _ IH]; [reflexivity|]. cbn [map misc_items flat_map]. fold (misc_items (map un_misc l)).
  rewrite IH. destruct i; cbn [misc_wf] in Hi; try contradiction; reflexivity.
Qed.

(** nothing of Misc starts at [t] *)
Definition misc_stop (t : str) : Prop :=
  prefix [60;33;45;45] t = None /\ prefix [60;63] t = None /\ stops (eval ws) t.

Lemma fails_misc (t : str) : misc_stop t -> F (NT nt_misc) t.
Proof.
  intros [H1 [H2 H3]]. apply fails_nt. rewrite body_misc. repeat apply fails_alt; apply fails_map.
  - apply fails_comment. exact H1.
  - apply fails_pi. exact H2.
  - apply fails_chars1. exact H3.
Qed.

Lemma misc_item_rt (i : item) (r : str) : misc_wf i -> yields (NT nt_misc) (d_item false i ++ r) (VMisc (un_misc i)) r.
Proof.
  intros Hi. apply yields_nt. rewrite body_misc. destruct i; cbn [misc_wf] in Hi; try contradiction; cbn [d_item un_misc].
  - apply yields_alt_l. apply (yields_map' (VComment s)); [reflexivity|].
    unfold s_comment_open, s_comment_close. rewrite <- !app_assoc. apply yields_comment. exact Hi.
  - rewrite d_pi_eq. pose proof (yields_pi p r Hi) as Hy. unfold d_ppi in *. rewrite <- !app_assoc in *. cbn [app] in *.
    apply yields_alt_r; [apply fails_map; apply fails_comment; reflexivity|].
    apply yields_alt_l. apply (yields_map' (VPI p)); [reflexivity|]. exact Hy.
Qed.

Lemma misc_item_length (i : item) : misc_wf i -> (0 < length (d_item false i))%nat.
Proof.
  destruct i; cbn [misc_wf d_item]; try contradiction; intros _.
  - unfold s_comment_open. cbn [app length]. lia.
  - unfold d_pi, s_lt_q. cbn [app length]. lia.
Qed.

Lemma miscs_many (t : str) : misc_stop t -> forall l, Forall misc_wf l ->
  many_yields (NT nt_misc) (d_children l ++ t) (map VMisc (map un_misc l)) t.
Proof.
  intros Ht. induction 1 as [|i l Hi _ IH]; cbn [d_children flat_map map app].
  - apply my_stop. apply fails_misc. exact Ht.
  - fold (d_children l). rewrite <- app_assoc. eapply my_step; [apply misc_item_rt; exact Hi| |exact IH].
    pose proof (misc_item_length i Hi). rewrite (app_length (d_item false i)). unfold str, char in *. lia.
Qed.

(** ** the XML declaration does not match anything else the printer puts first *)
Lemma name_char_not_ws c : eval is_name_char c = true -> eval ws c = false.
Proof.
  intros H. destruct (eval ws c) eqn:E; [|reflexivity]. exfalso.
  destruct (ws_cases c E) as [->|[->|[->| ->]]]; vm_compute in H; discriminate.
Qed.

Lemma fails_xml_decl_tag (s : str) : prefix [60;63;120;109;108] s = None -> F (NT nt_xml_decl) s.
Proof. intros H. apply fails_nt. rewrite body_xml_decl. apply fails_map. apply fails_seqr_l. apply fails_tag. exact H. Qed.

Lemma fails_xml_decl_no_ws (s : str) : stops (eval ws) s -> F (NT nt_xml_decl) ([60;63;120;109;108] ++ s).
Proof.
  intros H. apply fails_nt. rewrite body_xml_decl. apply fails_map. eapply fails_seqr_r; [apply parses_tag|].
  apply fails_seql_l. apply fails_seq_l. apply fails_nt. rewrite body_version_info. apply fails_seqr_l.
  apply fails_seq_l. apply fails_chars1. exact H.
Qed.

Lemma fails_xml_decl_pi (p : ppi) (r : str) : pi_ok p -> F (NT nt_xml_decl) (d_ppi p ++ r).
Proof.
  destruct p as [t v]. unfold pi_ok, d_ppi. cbn [pi_target pi_value]. intros [[Hn Hx] _].
  assert (exists c (X' : str), (t ++ match v with Some d => 32 :: d ++ [63;62] | None => [63;62] end) ++ r = t ++ c :: X'
                               /\ (c = 32 \/ c = 63)) as [c [X' [HX Hc]]].
  { destruct v; norm_app; eauto. }
  norm_app. rewrite <- app_assoc in HX. rewrite HX. clear HX.
  destruct t as [|a [|b [|d t']]]; cbn [app].
  - apply fails_xml_decl_tag. cbn [prefix]. destruct Hc as [-> | ->]; reflexivity.
  - apply fails_xml_decl_tag. cbn [prefix]. destruct (120 =? a); [|reflexivity]. destruct Hc as [-> | ->]; reflexivity.
  - apply fails_xml_decl_tag. cbn [prefix]. destruct (120 =? a); [|reflexivity]. destruct (109 =? b); [|reflexivity].
    destruct Hc as [-> | ->]; reflexivity.
  - destruct (N.eqb_spec 120 a) as [<-|Ha]; [|apply fails_xml_decl_tag; cbn [prefix]; destruct (N.eqb_spec 120 a); [contradiction|reflexivity]].
    destruct (N.eqb_spec 109 b) as [<-|Hb]; [|apply fails_xml_decl_tag; cbn [prefix]; destruct (N.eqb_spec 109 b); [contradiction|reflexivity]].
    destruct (N.eqb_spec 108 d) as [<-|Hd]; [|apply fails_xml_decl_tag; cbn [prefix]; destruct (N.eqb_spec 108 d); [contradiction|reflexivity]].
    destruct t' as [|e t''].
    + exfalso. vm_compute in Hx. discriminate.
    + change (60 :: 63 :: 120 :: 109 :: 108 :: (e :: t'') ++ c :: X') with ([60;63;120;109;108] ++ e :: t'' ++ c :: X').
      apply fails_xml_decl_no_ws. cbn [stops]. apply name_char_not_ws.
      unfold name_ok in Hn. cbn [forallb] in Hn. do 3 (apply andb_prop in Hn; destruct Hn as [_ Hn]).
      apply andb_prop in Hn. tauto.
Qed.

(** ** prolog and document *)
Lemma body_prolog : body G_xml nt_prolog =
  Map L_model_Prolog_from (Seq (Opt (NT nt_xml_decl)) (Seq (Many0 (NT nt_misc)) (Opt (Seq (NT nt_doctype_decl) (Many0 (NT nt_misc)))))).
Proof. reflexivity. Qed.
Lemma body_document : body G_xml nt_document =
  Map L_model_Document_from (Seq (NT nt_prolog) (Seq (NT nt_element) (Many0 (NT nt_misc)))).
Proof. reflexivity. Qed.

Lemma al_prolog_none x (hs : list misc) :
  apply_label L_model_Prolog_from (VPair (match x with Some d => VSome (VDeclXml d) | None => VNone end)
                                         (VPair (VList (map VMisc hs)) VNone))
  = VProlog (Prolog x hs None []).
Proof.
  change (apply_label L_model_Prolog_from (VPair (match x with Some d => VSome (VDeclXml d) | None => VNone end) (VPair (VList (map VMisc hs)) VNone)))
    with (match as_opt as_decl_xml (match x with Some d => VSome (VDeclXml d) | None => VNone end),
                as_list as_misc (VList (map VMisc hs)), as_opt as_doc_tail VNone with
          | Some x', Some hs', Some t' =>
            VProlog (Prolog x' hs' (match t' with Some (d, _) => Some d | None => None end) (match t' with Some (_, ms) => ms | None => [] end))
          | _, _, _ => VBad end).
  rewrite as_list_map by reflexivity. destruct x; reflexivity.
Qed.

Lemma al_prolog_some x (hs : list misc) dd (ts : list misc) :
  apply_label L_model_Prolog_from (VPair (match x with Some d => VSome (VDeclXml d) | None => VNone end)
                                         (VPair (VList (map VMisc hs)) (VSome (VPair (VDeclDoc dd) (VList (map VMisc ts))))))
  = VProlog (Prolog x hs (Some dd) ts).
Proof.
  change (apply_label L_model_Prolog_from (VPair (match x with Some d => VSome (VDeclXml d) | None => VNone end)
                                         (VPair (VList (map VMisc hs)) (VSome (VPair (VDeclDoc dd) (VList (map VMisc ts)))))))
    with (match as_opt as_decl_xml (match x with Some d => VSome (VDeclXml d) | None => VNone end),
                as_list as_misc (VList (map VMisc hs)),
                as_opt as_doc_tail (VSome (VPair (VDeclDoc dd) (VList (map VMisc ts)))) with
          | Some x', Some hs', Some t' =>
            VProlog (Prolog x' hs' (match t' with Some (d, _) => Some d | None => None end) (match t' with Some (_, ms) => ms | None => [] end))
          | _, _, _ => VBad end).
  rewrite as_list_map by reflexivity. cbn [as_opt as_doc_tail]. rewrite as_list_map by reflexivity. destruct x; reflexivity.
Qed.

Lemma al_document p e (ms : list misc) :
  apply_label L_model_Document_from (VPair (VProlog p) (VPair (VElement e) (VList (map VMisc ms)))) = VDocument (Document p e ms).
Proof.
  change (apply_label L_model_Document_from (VPair (VProlog p) (VPair (VElement e) (VList (map VMisc ms)))))
    with (ret (fun m => VDocument (Document p e m)) (as_list as_misc (VList (map VMisc ms)))).
  rewrite as_list_map by reflexivity. reflexivity.
Qed.

(** the root element (or the DOCTYPE, or the end of the input) ends a run of Misc *)
Lemma qname_head (q : qname) : qname_ok q -> exists c t, d_qname q = c :: t /\ eval (is_name_start_char_except [58]) c = true.
Proof.
  destruct q as [p l|n]; cbn [qname_ok d_qname].
  - intros [Hp _]. destruct (ncname_head p Hp) as [c [t [-> Hc]]]. cbn [app]. eauto.
  - intros Hn. destruct (ncname_head n Hn) as [c [t [-> Hc]]]. eauto.
Qed.

Lemma element_head ents ext (i : item) : is_element i = true -> item_wf ents ext i ->
  exists c t, d_item false i = 60 :: c :: t /\ eval (is_name_start_char_except [58]) c = true.
Proof.
  destruct i as [local prefix attrs children| | | | | | |]; try discriminate. intros _ [Hq _].
  rewrite d_item_element. destruct (qname_head _ Hq) as [c [t [-> Hc]]]. cbn [app]. eauto.
Qed.

Lemma misc_stop_lt_name c (t : str) : eval (is_name_start_char_except [58]) c = true -> misc_stop (60 :: c :: t).
Proof.
  intros Hc. unfold misc_stop. cbn [prefix stops]. repeat split.
  - destruct (N.eqb_spec 33 c) as [<-|]; [vm_compute in Hc; discriminate|reflexivity].
  - destruct (N.eqb_spec 63 c) as [<-|]; [vm_compute in Hc; discriminate|reflexivity].
Qed.

Lemma fails_xml_decl_lt_name c (t : str) : eval (is_name_start_char_except [58]) c = true -> F (NT nt_xml_decl) (60 :: c :: t).
Proof.
  intros Hc. apply fails_xml_decl_tag. cbn [prefix].
  destruct (N.eqb_spec 63 c) as [<-|]; [vm_compute in Hc; discriminate|reflexivity].
Qed.

Lemma fails_doctype_tag (s : str) : prefix [60;33;68;79;67;84;89;80;69] s = None -> F (NT nt_doctype_decl) s.
Proof.
  intros H. apply fails_nt. change (body G_xml nt_doctype_decl) with
    (Map L_model_DeclarationDoc_from (Seq (SeqR (Seq (Tag [60;33;68;79;67;84;89;80;69]) (Chars1 ws)) (NT nt_qname))
       (Seq (SeqL (Opt (SeqR (Chars1 ws) (NT nt_external_id))) (Chars0 ws))
            (SeqL (Opt (SeqR (Tag [91]) (SeqL (NT nt_int_subset) (Seq (Tag [93]) (Chars0 ws))))) (Tag [62]))))).
  apply fails_map. apply fails_seq_l. apply fails_seqr_l. apply fails_seq_l. apply fails_tag. exact H.
Qed.

(** a document as the printer sees it *)
Record doc_parts := Parts {
  dp_pre : list item; dp_dt : option doctype; dp_mid : list item; dp_root : item; dp_post : list item }.

Definition parts_children (p : doc_parts) : list item :=
  dp_pre p ++ match dp_dt p with Some x => ItDocType x :: dp_mid p | None => [] end ++ dp_root p :: dp_post p.

(** what rung 3b (Proofs/DisplayDtd.v) has to provide for the document type declaration *)
Definition doctype_rt (sa : option bool) (dt : doctype) : Prop :=
  forall r, exists dd, yields (NT nt_doctype_decl) (d_doctype false dt ++ r) (VDeclDoc dd) r
                       /\ build_doctype false sa dd = IOk dt.

Definition doc_wf (d : document) : Prop :=
  exists p, doc_children d = parts_children p
    /\ (dp_dt p = None -> dp_mid p = [])
    /\ Forall misc_wf (dp_pre p) /\ Forall misc_wf (dp_mid p) /\ Forall misc_wf (dp_post p)
    /\ is_element (dp_root p) = true
    /\ item_wf (match dp_dt p with Some x => dt_entities x | None => [] end)
               (external_subset (doc_standalone d) (match dp_dt p with Some x => dt_system x | None => None end))
               (dp_root p)
    /\ match doc_version d with
       | Some v => version_ok v /\ (doc_encoding d = [] \/ enc_ok (doc_encoding d))
       | None => doc_encoding d = [] /\ doc_standalone d = None
       end
    /\ (forall x, dp_dt p = Some x -> doctype_rt (doc_standalone d) x).

Lemma d_doctype_head (dt : doctype) : exists t, d_doctype false dt = [60;33;68;79;67;84;89;80;69] ++ 32 :: t.
Proof. unfold d_doctype, s_doctype_open. norm_app. eexists. reflexivity. Qed.

Lemma d_children_app a b : d_children (a ++ b) = d_children a ++ d_children b.
Proof. apply flat_map_app. Qed.

(** nothing the printer writes first is taken for an XML declaration *)
Lemma fails_xml_decl_start ents ext (p : doc_parts) : Forall misc_wf (dp_pre p) -> is_element (dp_root p) = true ->
  item_wf ents ext (dp_root p) -> F (NT nt_xml_decl) (d_children (parts_children p)).
Proof.
  intros Hpre Hel Hroot. unfold parts_children. destruct (dp_pre p) as [|i pre].
  - cbn [app]. destruct (dp_dt p) as [dt|].
    + cbn [app d_children flat_map d_item]. destruct (d_doctype_head dt) as [t ->]. norm_app.
      apply fails_xml_decl_tag. reflexivity.
    + cbn [app d_children flat_map]. destruct (element_head ents ext _ Hel Hroot) as [c [t [-> Hc]]]. norm_app.
      apply fails_xml_decl_lt_name. exact Hc.
  - inversion Hpre as [|i' l' Hi _]; subst. cbn [app d_children flat_map].
    destruct i; cbn [misc_wf] in Hi; try contradiction; cbn [d_item].
    + unfold s_comment_open. norm_app. apply fails_xml_decl_tag. reflexivity.
    + rewrite d_pi_eq. apply fails_xml_decl_pi. exact Hi.
Qed.

Theorem document_round_trip (d : document) : doc_wf d -> from_raw (display d) = OOk ([], d).
Proof.
  intros [p [Hch [Hmid [Hpre [Hmidw [Hpost [Hel [Hroot [Hx Hdt]]]]]]]]].
  set (ents := match dp_dt p with Some x => dt_entities x | None => [] end) in *.
  set (ext := external_subset (doc_standalone d) (match dp_dt p with Some x => dt_system x | None => None end)) in *.
  destruct (element_round_trip ents ext (dp_root p) Hel Hroot (d_children (dp_post p))) as [e [Hye Hbe]].
  destruct (element_head ents ext _ Hel Hroot) as [c0 [t0 [Ehead Hc0]]].
  (* the XML declaration *)
  set (xd := match doc_version d with
             | Some v => Some (DeclXml v (match doc_encoding d with [] => None | en => Some en end) (doc_standalone d))
             | None => None end).
  assert (forall rest, (doc_version d = None -> F (NT nt_xml_decl) rest) ->
            yields (Opt (NT nt_xml_decl)) (d_xmldecl d ++ rest)
                   (match xd with Some x => VSome (VDeclXml x) | None => VNone end) rest) as Hxml.
  { intros rest Hf. unfold d_xmldecl, xd. destruct (doc_version d) as [v|].
    - destruct Hx as [Hv He]. apply yields_opt_some.
      pose proof (xml_decl_rt v (doc_encoding d) (doc_standalone d) rest Hv He) as H.
      unfold d_enc_part, d_sa_part in H. rewrite <- !app_assoc. destruct (doc_encoding d); exact H.
    - cbn [app]. apply yields_opt_none. apply Hf. reflexivity. }
  (* the tail: root element and epilog *)
  set (tail := d_item false (dp_root p) ++ d_children (dp_post p)).
  assert (misc_stop tail) as Hstop by (unfold tail; rewrite Ehead; cbn [app]; apply misc_stop_lt_name; exact Hc0).
  assert (yields (Seq (NT nt_element) (Many0 (NT nt_misc))) tail
                 (VPair (VElement e) (VList (map VMisc (map un_misc (dp_post p))))) []) as Htail.
  { unfold tail. eapply yields_seq; [exact Hye|]. apply yields_many0.
    pose proof (miscs_many [] (conj eq_refl (conj eq_refl I)) (dp_post p) Hpost) as H. rewrite app_nil_r in H. exact H. }
  (* parse *)
  assert (exists pd, yields (NT nt_document) (display d) (VDocument pd) [] /\ build_document pd = IOk d) as [pd [Hyd Hbd]].
  { unfold display, display_gen. rewrite Hch. fold (d_children (parts_children p)).
    destruct (dp_dt p) as [dt|] eqn:Edt.
    - (* with a document type declaration *)
      destruct (Hdt dt eq_refl (d_children (dp_mid p) ++ tail)) as [dd [Hyd Hbdd]].
      exists (Document (Prolog xd (map un_misc (dp_pre p)) (Some dd) (map un_misc (dp_mid p))) e (map un_misc (dp_post p))).
      split.
      + apply yields_nt. rewrite body_document. eapply yields_map'; [apply al_document|].
        unfold parts_children. rewrite Edt. rewrite !d_children_app. cbn [d_children flat_map d_item]. fold (d_children (dp_mid p)).
        fold (d_children (dp_post p)). norm_app.
        replace (d_children (dp_mid p) ++ d_item false (dp_root p) ++ d_children (dp_post p)) with (d_children (dp_mid p) ++ tail) by reflexivity.
        eapply yields_seq; [|exact Htail].
        apply yields_nt. rewrite body_prolog. eapply yields_map'; [apply al_prolog_some|].
        eapply yields_seq.
        * apply Hxml. intros Hv. pose proof (fails_xml_decl_start ents ext p Hpre Hel Hroot) as Hf.
          unfold parts_children in Hf. rewrite Edt in Hf. rewrite !d_children_app in Hf. cbn [d_children flat_map d_item] in Hf.
          fold (d_children (dp_mid p)) in Hf. fold (d_children (dp_post p)) in Hf. norm_app. rewrite <- !app_assoc in Hf. exact Hf.
        * eapply yields_seq.
          -- apply yields_many0. apply miscs_many; [|exact Hpre].
             destruct (d_doctype_head dt) as [t ->]. norm_app. repeat split.
          -- apply yields_opt_some. eapply yields_seq; [exact Hyd|]. apply yields_many0. apply miscs_many; assumption.
      + unfold build_document, build_document_gen. cbn [d_prolog pr_declaration_doc pr_declaration_xml pr_heads pr_tails d_element d_miscs].
        assert ((match xd with Some x => dx_standalone x | None => None end) = doc_standalone d) as Hsa.
        { unfold xd. destruct (doc_version d); [reflexivity|]. destruct Hx as [_ ->]. reflexivity. }
        rewrite Hsa, Hbdd. cbn [ibind]. fold ents. fold ext. rewrite Hbe. cbn [ibind].
        rewrite !misc_items_un by assumption. destruct d as [ch en sa ver]. cbn [doc_children doc_encoding doc_standalone doc_version] in *.
        unfold xd. rewrite Hch. unfold parts_children. rewrite Edt. cbn [dp_pre].
        destruct ver as [v|]; cbn [dx_encoding dx_standalone dx_version].
        -- destruct en; rewrite <- ?app_assoc; reflexivity.
        -- destruct Hx as [-> ->]. rewrite <- ?app_assoc. reflexivity.
    - (* without *)
      specialize (Hmid eq_refl).
      exists (Document (Prolog xd (map un_misc (dp_pre p)) None []) e (map un_misc (dp_post p))).
      split.
      + apply yields_nt. rewrite body_document. eapply yields_map'; [apply al_document|].
        unfold parts_children. rewrite Edt. cbn [app]. rewrite d_children_app. cbn [d_children flat_map].
        fold (d_children (dp_post p)). norm_app. fold tail.
        eapply yields_seq; [|exact Htail].
        apply yields_nt. rewrite body_prolog. eapply yields_map'; [apply al_prolog_none|].
        eapply yields_seq.
        * apply Hxml. intros Hv. pose proof (fails_xml_decl_start ents ext p Hpre Hel Hroot) as Hf.
          unfold parts_children in Hf. rewrite Edt in Hf. cbn [app] in Hf. rewrite d_children_app in Hf. cbn [d_children flat_map] in Hf.
          fold (d_children (dp_post p)) in Hf. exact Hf.
        * eapply yields_seq.
          -- apply yields_many0. apply miscs_many; assumption.
          -- apply yields_opt_none. apply fails_seq_l. apply fails_doctype_tag. unfold tail. rewrite Ehead. cbn [app prefix].
             destruct (N.eqb_spec 33 c0) as [<-|]; [vm_compute in Hc0; discriminate|reflexivity].
      + unfold build_document, build_document_gen. cbn [d_prolog pr_declaration_doc pr_declaration_xml pr_heads pr_tails d_element d_miscs ibind].
        assert ((match xd with Some x => dx_standalone x | None => None end) = doc_standalone d) as Hsa.
        { unfold xd. destruct (doc_version d); [reflexivity|]. destruct Hx as [_ ->]. reflexivity. }
        rewrite Hsa. fold ents. fold ext. rewrite Hbe. cbn [ibind].
        rewrite !misc_items_un by assumption. destruct d as [ch en sa ver]. cbn [doc_children doc_encoding doc_standalone doc_version] in *.
        unfold xd. rewrite Hch. unfold parts_children. rewrite Edt. cbn [misc_items flat_map app].
        destruct ver as [v|]; cbn [dx_encoding dx_standalone dx_version].
        -- destruct en; reflexivity.
        -- destruct Hx as [-> ->]. reflexivity. }
  unfold from_raw, from_raw_gen, parse_document.
  rewrite (parse_with_yields nt_document _ (display d) (VDocument pd) pd [] Hyd eq_refl).
  unfold build_document in Hbd. rewrite Hbd. reflexivity.
Qed.
