(** C09: the defects D30-D34 and D54 of the pinned tree (39fd5f9), as theorems about the model of
    the pinned code (Model/XPathFuncs.v, section Pinned): each is a closed instance on which the
    pinned function differs from the specification; the repaired functions agree with it
    (Proofs/XPathFuncs.v).  The same instances are replayed on the real code by the corpus of the
    check (corpus/C09_regressions.txt). *)
From Coq Require Import ZArith NArith List Bool String.
From Coq Require Import Floats.SpecFloat.
From XmlRs Require Import Base.CPred Base.Float64 Base.Utf8 Spec.XPathCore Model.XPathFuncs.
Import ListNotations.
Open Scope list_scope.
Open Scope N_scope.

Definition num (z : Z) : value := VNum (f64_of_Z z).
Definition half : f64 := S754_finite false 4503599627370496 (-53).
Definition minus_half : f64 := S754_finite true 4503599627370496 (-53).
Definition minus_1_5 : f64 := S754_finite true 6755399441055744 (-52).

(** D30: substring("12345", 0, 3) panics ([0.round() as usize - 1]); XPath: "12" *)
Example d30_start_zero :
  pinned_substring [] [VStr (str_of "12345"); num 0; num 3] = RPanic /\
  spec_fn [] (str_of "substring") [VStr (str_of "12345"); num 0; num 3] = ROk (VStr (str_of "12")).
Proof. split; vm_compute; reflexivity. Qed.

(** D30: byte offsets: substring("ééé", 2) slices inside the first character *)
Example d30_inside_char :
  pinned_substring [] [VStr [233; 233; 233]; num 2] = RPanic /\
  spec_fn [] (str_of "substring") [VStr [233; 233; 233]; num 2] = ROk (VStr [233; 233]).
Proof. split; vm_compute; reflexivity. Qed.

(** D30: NaN start (saturating cast to 0, then - 1) *)
Example d30_nan :
  pinned_substring [] [VStr (str_of "12345"); VNum f64_nan; num 3] = RPanic /\
  spec_fn [] (str_of "substring") [VStr (str_of "12345"); VNum f64_nan; num 3] = ROk (VStr []).
Proof. split; vm_compute; reflexivity. Qed.

(** D31: string-length counts UTF-8 bytes *)
Example d31_bytes :
  pinned_string_length [] [VStr [233; 8364; 128512]] = ROk (num 9) /\
  spec_fn [] (str_of "string-length") [VStr [233; 8364; 128512]] = ROk (num 3).
Proof. split; vm_compute; reflexivity. Qed.

(** D32: round(-1.5) = -2, round(-0.5) = -1 (ties away from zero); XPath: -1 and -0 *)
Example d32_ties :
  pinned_round [] [VNum minus_1_5] = ROk (num (-2)) /\
  spec_fn [] (str_of "round") [VNum minus_1_5] = ROk (num (-1)) /\
  pinned_round [] [VNum minus_half] = ROk (num (-1)) /\
  spec_fn [] (str_of "round") [VNum minus_half] = ROk (VNum f64_nzero).
Proof. repeat split; vm_compute; reflexivity. Qed.

(** D33: number(" 1 ") = NaN, number("1e2") = 100, number("+1") = 1, number("inf") = Infinity *)
Example d33_grammar :
  pinned_number [] [VStr (str_of " 1 ")] = ROk (VNum f64_nan) /\
  spec_fn [] (str_of "number") [VStr (str_of " 1 ")] = ROk (num 1) /\
  pinned_number [] [VStr (str_of "1e2")] = ROk (num 100) /\
  spec_fn [] (str_of "number") [VStr (str_of "1e2")] = ROk (VNum f64_nan) /\
  pinned_number [] [VStr (str_of "+1")] = ROk (num 1) /\
  pinned_number [] [VStr (str_of "inf")] = ROk (VNum f64_inf) /\
  spec_fn [] (str_of "number") [VStr (str_of "inf")] = ROk (VNum f64_nan).
Proof. repeat split; vm_compute; reflexivity. Qed.

(** D34: -(+0) = 0 - 0 = +0 *)
Example d34_neg_zero :
  pinned_neg (VNum f64_zero) = ROk (VNum f64_zero) /\ spec_neg (VNum f64_zero) = ROk (VNum f64_nzero).
Proof. split; vm_compute; reflexivity. Qed.

(** D54: normalize-space splits at U+00A0 *)
Example d54_nbsp :
  pinned_normalize_space [] [VStr [97; 160; 98]] = ROk (VStr [97; 32; 98]) /\
  spec_fn [] (str_of "normalize-space") [VStr [97; 160; 98]] = ROk (VStr [97; 160; 98]).
Proof. split; vm_compute; reflexivity. Qed.

(** the examples of the recommendation for substring (4.2) hold in the specification *)
Example rec_substring_examples :
  let s := VStr (str_of "12345") in
  let nan := VNum f64_nan in let inf := VNum f64_inf in let ninf := VNum f64_ninf in
  let f := spec_fn [] (str_of "substring") in
  f [s; VNum (S754_finite false 6755399441055744 (-52)); VNum (S754_finite false 5854679515581645 (-51))] = ROk (VStr (str_of "234")) /\
  f [s; num 0; num 3] = ROk (VStr (str_of "12")) /\
  f [s; nan; num 3] = ROk (VStr []) /\
  f [s; num 1; nan] = ROk (VStr []) /\
  f [s; num (-42); inf] = ROk (VStr (str_of "12345")) /\
  f [s; ninf; inf] = ROk (VStr []) /\
  f [s; num 2; num 3] = ROk (VStr (str_of "234")) /\ f [s; num 2] = ROk (VStr (str_of "2345")).
Proof. cbv zeta. repeat split; vm_compute; reflexivity. Qed.

(** and those for the other string functions and for round / number / string *)
Example rec_other_examples :
  spec_fn [] (str_of "substring-before") [VStr (str_of "1999/04/01"); VStr (str_of "/")] = ROk (VStr (str_of "1999")) /\
  spec_fn [] (str_of "substring-after") [VStr (str_of "1999/04/01"); VStr (str_of "/")] = ROk (VStr (str_of "04/01")) /\
  spec_fn [] (str_of "substring-after") [VStr (str_of "1999/04/01"); VStr (str_of "19")] = ROk (VStr (str_of "99/04/01")) /\
  spec_fn [] (str_of "translate") [VStr (str_of "bar"); VStr (str_of "abc"); VStr (str_of "ABC")] = ROk (VStr (str_of "BAr")) /\
  spec_fn [] (str_of "translate") [VStr (str_of "--aaa--"); VStr (str_of "abc-"); VStr (str_of "ABC")] = ROk (VStr (str_of "AAA")) /\
  spec_fn [] (str_of "string") [VNum f64_nzero] = ROk (VStr (str_of "0")) /\
  spec_fn [] (str_of "string") [VNum half] = ROk (VStr (str_of "0.5")) /\
  spec_fn [] (str_of "string") [num (-12)] = ROk (VStr (str_of "-12")) /\
  spec_fn [] (str_of "normalize-space") [VStr (str_of "  a  b ")] = ROk (VStr (str_of "a b")).
Proof. repeat split; vm_compute; reflexivity. Qed.
