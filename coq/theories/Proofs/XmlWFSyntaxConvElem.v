(** * The converse direction, part 2: attributes, tags, content and elements.

    [conv_element]: an element the grammar of Spec/XmlWF.v reads, whose names are QNames and whose end
    tags repeat the start-tag names ([xok]: both are decidable on the specification's parse tree; the
    second is WFC Element Type Match, which nom's `verify` enforces inside the production), is
    accepted by the production `element` of the regenerated grammar with the same rest, and the
    typed element translates back to the specification's tree.  By induction on the fuel of the
    specification's recursive descent. *)
From Coq Require Import List NArith Arith Lia Bool.
From XmlRs Require Import Base.CPred Spec.XmlChars Model.Peg Gen.XmlcharGen Gen.GrammarXmlGen Model.ParseActions Model.Info Model.Display
     Proofs.XmlcharProofs Proofs.PegTermination Proofs.PegLemmas Proofs.PegInv Proofs.Expansion
     Proofs.DisplayLex Proofs.ActionLemmas Proofs.DisplayElem Proofs.ParseInv Proofs.ParseInvElem
     Proofs.XmlWFSyntaxLex Proofs.XmlWFSyntaxElem Proofs.XmlWFSyntaxConvLex.
From XmlRs Require Spec.XmlWF.
Import ListNotations.
Local Open Scope N_scope.

(** ** what is required of the specification's tree *)
Fixpoint xok (x : W.xcontent) : bool :=
  match x with
  | W.XElem nm atts et kids =>
    is_QName nm && forallb (fun a => is_QName (fst a)) atts
    && match et with Some e => W.str_eqb e nm | None => true end
    && forallb xok kids
  | _ => true
  end.

(** ** attributes *)
Lemma ws_not_in_xmlns d : eval ws d = true -> ~ In d s_xmlns.
Proof. intros H Hin. destruct (ws_cases d H) as [->|[->|[->| ->]]]; cbn in Hin; intuition discriminate. Qed.

Lemma ns_alt_fails_g (m : str) d (z : str) : ncname_ok m -> m <> s_xmlns -> (d = 58 \/ d = 61 \/ eval ws d = true) ->
  F (Seq (NT nt_ns_att_name) (SeqR (NT nt_eq) (NT nt_att_value))) (m ++ d :: z).
Proof.
  intros Hm Hne Hd. destruct (prefix s_xmlns m) as [t|] eqn:E.
  - pose proof (prefix_some_eq _ _ _ E) as En. destruct t as [|c t'].
    + rewrite app_nil_r in En. contradiction.
    + assert (eval (is_name_char_except [58]) c = true) as Hc.
      { subst m. unfold s_xmlns in Hm. cbn [app ncname_ok forallb] in Hm. destruct Hm as [_ Hm].
        do 4 (apply andb_prop in Hm; destruct Hm as [_ Hm]). apply andb_prop in Hm. tauto. }
      subst m. unfold s_xmlns. norm_app.
      eapply fails_seq_r.
      * apply parses_nt. rewrite body_ns_att_name. apply parses_alt_r.
        -- apply fails_map. apply fails_seqr_l. apply fails_tag. cbn [prefix]. rewrite !N.eqb_refl.
           destruct (N.eqb_spec 58 c) as [<-|]; [vm_compute in Hc; discriminate|reflexivity].
        -- apply parses_map. apply parses_tag_lit. cbn [prefix]. rewrite !N.eqb_refl. reflexivity.
      * apply fails_seqr_l. apply fails_nt. rewrite body_eq. eapply fails_seqr_r.
        -- apply parses_chars0_nil. cbn [stops]. apply name_except_not_ws. exact Hc.
        -- apply fails_seql_l. apply fails_tag. cbn [prefix].
           destruct (N.eqb_spec 61 c) as [<-|]; [vm_compute in Hc; discriminate|reflexivity].
  - assert (prefix s_xmlns (m ++ d :: z) = None) as Hn.
    { apply prefix_none_app; [exact E|]. destruct Hd as [->|[->|Hd]]; [unfold s_xmlns; cbn [In]; intuition discriminate|unfold s_xmlns; cbn [In]; intuition discriminate|apply ws_not_in_xmlns; exact Hd]. }
    apply fails_seq_l. apply fails_nt. rewrite body_ns_att_name. apply fails_alt.
    + apply fails_map. apply fails_seqr_l. apply fails_tag. apply (prefix_longer_none s_xmlns [58]). exact Hn.
    + apply fails_map. apply fails_tag. exact Hn.
Qed.

Lemma eq_start (r1 r2 : str) : W.p_Eq r1 = Some r2 -> exists d z, r1 = d :: z /\ (d = 61 \/ eval ws d = true).
Proof.
  unfold W.p_Eq. intros H. destruct (skipS_inv r1) as [a [Ha [_ E]]]. destruct (W.skipS r1) as [|c t]; [discriminate|].
  destruct (N.eqb_spec c W.c_eq) as [->|]; [|discriminate]. destruct a as [|x a]; cbn [app] in E.
  - exists 61. eexists. split; [exact E|left; reflexivity].
  - exists x. eexists. split; [exact E|]. right. cbn [forallb] in Ha. apply andb_prop in Ha. tauto.
Qed.

Lemma eq_start_stops (d : N) (z : str) : d = 61 \/ eval ws d = true ->
  stops (eval is_name_char) (d :: z) /\ stops (eval (is_name_char_except [58])) (d :: z).
Proof.
  intros [->|H]; [split; reflexivity|]. destruct (ws_cases d H) as [->|[->|[->| ->]]]; split; reflexivity.
Qed.

Lemma conv_attribute (s nm r1 r2 r3 : str) fuel v : W.p_Name s = Some (nm, r1) -> W.p_Eq r1 = Some r2 ->
  W.p_AttValue fuel r2 = Some (v, r3) -> is_QName nm = true ->
  exists a, yields (NT nt_attribute) s (VAttribute a) r3 /\ x_att a = (nm, v) /\ d04_att a = true /\ p_attribute_ok' a.
Proof.
  intros Hn He Hv Hq. destruct (p_Name_inv _ _ _ Hn) as [-> _]. destruct (eq_start _ _ He) as [d [z [-> Hd]]].
  destruct (eq_start_stops d z Hd) as [Hst1 Hst2].
  destruct (conv_eq _ _ He) as [te Pe]. destruct (conv_att_value _ _ _ _ Hv) as [l [Yv [Exv [Hd04 [q [Hqq Hok]]]]]].
  assert (yields (SeqR (NT nt_eq) (NT nt_att_value)) (d :: z) (VList (map VAttValue l)) r3) as Heq
    by (eapply yields_seqr; [exact Pe|exact Yv]).
  destruct (QName_qname nm Hq) as [qn [Hqn <-]].
  assert (forall an, apply_label L_model_Attribute_from (VPair (VAttName an) (VList (map VAttValue l))) = VAttribute (Attribute an l)) as Hal
    by (intros an; apply al_attribute).
  destruct qn as [p lo|x]; cbn [d_qname qname_ok] in *.
  - destruct Hqn as [Hp Hlo]. destruct (str_eqb p s_xmlns) eqn:E.
    + apply str_eqb_eq in E. subst p. exists (Attribute (AnNamespace lo) l). split; [|split; [|split; [exact Hd04|]]].
      * apply yields_nt. rewrite body_attribute. eapply yields_map'; [apply Hal|]. apply yields_alt_l. rewrite <- app_assoc. cbn [app].
        eapply yields_seq; [|exact Heq]. apply yields_nt. rewrite body_ns_att_name. apply yields_alt_l.
        apply (yields_map' (VStr lo)); [reflexivity|]. unfold s_xmlns. norm_app. eapply yields_seqr; [tag|]. apply yields_str.
        apply parses_ncname; [exact Hlo|exact Hst2].
      * unfold x_att. cbn [at_name at_value x_attname]. rewrite Exv. reflexivity.
      * split; [split; [exact Hlo|exists q; split; assumption]|exact I].
    + exists (Attribute (AnQName (Prefixed p lo)) l). split; [|split; [|split; [exact Hd04|]]].
      * apply yields_nt. rewrite body_attribute. eapply yields_map'; [apply Hal|]. apply yields_alt_r.
        -- rewrite <- app_assoc. cbn [app]. apply ns_alt_fails_g; [exact Hp| |left; reflexivity]. intros ->. rewrite str_eqb_refl in E. discriminate.
        -- eapply yields_seq; [|exact Heq]. apply (yields_map' (VQName (Prefixed p lo))); [reflexivity|].
           exists (tree_qname (Prefixed p lo)). split; [|apply eval_tree_qname].
           apply (parses_qname (Prefixed p lo) (d :: z)); [split; assumption|exact Hst1].
      * unfold x_att. cbn [at_name at_value x_attname d_qname]. rewrite Exv. reflexivity.
      * split; [split; [split; assumption|exists q; split; assumption]|]. cbn [att_name_canon at_name]. intros ->. rewrite str_eqb_refl in E. discriminate.
  - destruct (str_eqb x s_xmlns) eqn:E.
    + apply str_eqb_eq in E. subst x. exists (Attribute AnDefaultNamespace l). split; [|split; [|split; [exact Hd04|]]].
      * apply yields_nt. rewrite body_attribute. eapply yields_map'; [apply Hal|]. apply yields_alt_l.
        eapply yields_seq; [|exact Heq]. apply yields_nt. rewrite body_ns_att_name. apply yields_alt_r.
        -- apply fails_map. apply fails_seqr_l. apply fails_tag. unfold s_xmlns. cbn [app prefix]. rewrite !N.eqb_refl.
           destruct (N.eqb_spec 58 d) as [<-|]; [|reflexivity]. destruct Hd as [Hd|Hd]; [discriminate Hd|vm_compute in Hd; discriminate Hd].
        -- apply (yields_map' (VStr s_xmlns)); [reflexivity|]. apply yields_str. apply parses_tag.
      * unfold x_att. cbn [at_name at_value x_attname]. rewrite Exv. reflexivity.
      * split; [split; [exact I|exists q; split; assumption]|exact I].
    + exists (Attribute (AnQName (Unprefixed x)) l). split; [|split; [|split; [exact Hd04|]]].
      * apply yields_nt. rewrite body_attribute. eapply yields_map'; [apply Hal|]. apply yields_alt_r.
        -- apply ns_alt_fails_g; [exact Hqn| |right; exact Hd]. intros ->. rewrite str_eqb_refl in E. discriminate.
        -- eapply yields_seq; [|exact Heq]. apply (yields_map' (VQName (Unprefixed x))); [reflexivity|].
           exists (tree_qname (Unprefixed x)). split; [|apply eval_tree_qname].
           apply (parses_qname (Unprefixed x) (d :: z)); [exact Hqn|exact Hst1].
      * unfold x_att. cbn [at_name at_value x_attname d_qname]. rewrite Exv. reflexivity.
      * split; [split; [exact Hqn|exists q; split; assumption]|]. cbn [att_name_canon at_name]. intros ->. rewrite str_eqb_refl in E. discriminate.
Qed.

(** ** the attribute list of a tag *)
Lemma fails_attr_item_end (r : str) e rest : tag_end r e rest -> F attr_item r.
Proof.
  intros [a [Ha ->]]. unfold attr_item. destruct a as [|c a].
  - cbn [app]. apply fails_seqr_l. apply fails_chars1. destruct e; reflexivity.
  - eapply fails_seqr_r; [apply (parses_chars1 G_xml ws (c :: a)); [discriminate|exact Ha|destruct e; reflexivity]|].
    apply fails_attribute; destruct e; reflexivity.
Qed.

Lemma conv_atts : forall fuel (s : str) l e rest, W.p_atts fuel s = Some (l, e, rest) -> forallb (fun a => is_QName (fst a)) l = true ->
  exists (al : list attribute) r, many_yields attr_item s (map VAttribute al) r /\ tag_end r e rest /\ map x_att al = l
    /\ forallb d04_att al = true /\ Forall p_attribute_ok' al /\ stops (eval is_name_char) s.
Proof.
  induction fuel as [|f IH]; intros s l e rest H Hq; [discriminate|]. cbn [W.p_atts] in H.
  destruct (skipS_inv s) as [a [Ha [Hr Es]]]. destruct (W.skipS s) as [|c t] eqn:Esk; [discriminate|].
  assert (forall (e0 : bool) (rest0 : str), c :: t = (if e0 then 47 :: 62 :: rest0 else 62 :: rest0) -> tag_end s e0 rest0) as Hend
    by (intros e0 rest0 E; exists a; split; [exact Ha|rewrite <- E; exact Es]).
  assert (forall (e0 : bool) (rest0 : str), tag_end s e0 rest0 -> stops (eval is_name_char) s) as Hstop by (intros e0 rest0; apply tag_end_stops_name).
  destruct (N.eqb_spec c W.c_gt) as [->|Hgt].
  - injection H as <- <- <-. exists (@nil attribute), s. split; [apply my_stop; eapply fails_attr_item_end; apply (Hend false t eq_refl)|].
    split; [apply (Hend false t eq_refl)|]. repeat split; try constructor. eapply Hstop. apply (Hend false t eq_refl).
  - destruct (N.eqb_spec c W.c_slash) as [->|Hsl].
    + destruct t as [|c2 t2]; [discriminate|]. destruct (N.eqb_spec c2 W.c_gt) as [->|]; [|discriminate]. injection H as <- <- <-.
      exists (@nil attribute), s. split; [apply my_stop; eapply fails_attr_item_end; apply (Hend true t2 eq_refl)|].
      split; [apply (Hend true t2 eq_refl)|]. repeat split; try constructor. eapply Hstop. apply (Hend true t2 eq_refl).
    + destruct (W.p_S s) as [r0|] eqn:Eps; [|discriminate]. destruct (p_S_inv _ _ Eps) as [a' [Hne [Ha' [Hr' Es']]]].
      destruct (W.p_Name (c :: t)) as [[nm r1]|] eqn:En; [|discriminate]. cbn [W.bind] in H.
      destruct (W.p_Eq r1) as [r2|] eqn:Ee; [|discriminate]. cbn [W.bind] in H.
      destruct (W.p_AttValue f r2) as [[v r3]|] eqn:Ev; [|discriminate]. cbn [W.bind] in H.
      destruct (W.p_atts f r3) as [[[l' e'] rest']|] eqn:Ea; [|discriminate]. cbn [W.bind] in H. injection H as <- <- <-.
      cbn [forallb fst] in Hq. apply andb_prop in Hq. destruct Hq as [Hq0 Hq'].
      destruct (IH _ _ _ _ Ea Hq') as [al [r [Hm [He [Hx [Hd [Hok _]]]]]]].
      destruct (conv_attribute _ _ _ _ _ _ _ En Ee Ev Hq0) as [at0 [Ya [Xa [Da Oa]]]].
      assert (r0 = c :: t) as Er0.
      { pose proof (skipS_app a' r0 Ha' Hr') as E. rewrite <- Es' in E. rewrite Esk in E. symmetry. exact E. }
      exists (at0 :: al), r. split; [|split; [exact He|split; [cbn [map]; rewrite Xa, Hx; reflexivity|split; [cbn [forallb]; rewrite Da, Hd; reflexivity|split; [constructor; assumption|]]]]].
      * cbn [map]. eapply my_step; [| |exact Hm].
        -- unfold attr_item. rewrite Es'. eapply yields_seqr; [apply parses_chars1; assumption|]. rewrite Er0. exact Ya.
        -- pose proof (yields_length (NT nt_attribute) _ _ _ eq_refl Ya) as Hl1. apply p_S_lt in Eps. rewrite Er0 in Eps. slia.
      * rewrite Es'. apply ws_name_end'; assumption.
Qed.

Lemma conv_tag fuel (s : str) nm l e rest : W.p_tag fuel s = Some (nm, l, e, rest) -> is_QName nm = true ->
  forallb (fun a => is_QName (fst a)) l = true ->
  exists q (al : list attribute) ta r, P (Seq (NT nt_qname) (Many0 attr_item)) s (TPair (tree_qname q) ta) r /\
    eval_tree ta = VList (map VAttribute al) /\ tag_end r e rest /\ d_qname q = nm /\ qname_ok q /\ map x_att al = l /\
    forallb d04_att al = true /\ Forall p_attribute_ok' al.
Proof.
  unfold W.p_tag. intros H Hq Hl. destruct (W.p_Name s) as [[n r0]|] eqn:En; [|discriminate]. cbn [W.bind] in H.
  destruct (W.p_atts fuel r0) as [[[l' e'] rest']|] eqn:Ea; [|discriminate]. cbn [W.bind] in H. injection H as <- <- <- <-.
  destruct (p_Name_inv _ _ _ En) as [-> _]. destruct (QName_qname n Hq) as [q [Hqo <-]].
  destruct (conv_atts _ _ _ _ _ Ea Hl) as [al [r [Hm [He [Hx [Hd [Hok Hst]]]]]]].
  destruct (yields_many0 _ _ _ _ Hm) as [ta [Pm Em]].
  exists q, al, ta, r. split; [eapply parses_seq; [apply parses_qname; [exact Hqo|exact Hst]|exact Pm]|]. repeat split; assumption.
Qed.

(** ** content and elements, by induction on the fuel of the specification *)
Lemma child_alt_fails_nil : F child_alt [].
Proof.
  unfold child_alt. repeat apply fails_alt; apply fails_map.
  - apply fails_element_no_lt. reflexivity.
  - apply fails_nt. rewrite body_reference. apply fails_alt.
    + apply fails_nt. rewrite body_entity_ref. apply fails_map. apply fails_seqr_l. apply fails_tag. reflexivity.
    + apply fails_nt. rewrite body_char_ref. apply fails_alt; apply fails_map; apply fails_seqr_l; apply fails_tag; reflexivity.
  - apply fails_cdsect. reflexivity.
  - apply fails_pi. reflexivity.
  - apply fails_comment. reflexivity.
Qed.

Lemma child_lt s t r : S child_alt s t r -> (length r < length s)%nat.
Proof.
  intros H. unfold child_alt in H. repeat (inv_alt; invs).
  - match goal with H : succ _ (NT nt_element) ?s0 _ _ |- _ => destruct (syn_element (length s0) s0 _ _ (le_n _) H) as [e [s' [_ [-> [Hl _]]]]] end. cbn [length]. slia.
  - eapply reference_lt. eassumption.
  - eapply cdsect_lt. eassumption.
  - eapply pi_lt. eassumption.
  - eapply comment_lt. eassumption.
Qed.

Lemma yields_child_lt s v r : yields child_alt s v r -> (length r < length s)%nat.
Proof. intros [t [[f0 H] _]]. specialize (H f0 (le_n _)). eapply child_lt. eapply den_S; [exact H|reflexivity]. Qed.

Definition content_conv (fuel : nat) : Prop :=
  forall (s : str) items r, W.p_content fuel s = Some (items, r) -> forallb xok items = true ->
  (r = [] \/ exists r', r = W.s_etag_open ++ r') /\
  exists (h : str) (cells : list (contents * str)) (s1 : str), s = h ++ s1 /\ text_ok h /\ stops (eval (is_char_except [60;38])) s1 /\
    many_yields cell_expr s1 (map cell_val cells) r /\ items = map W.XChar h ++ x_cells x_elem (map cell_mk cells) /\
    d04_cells d04_elem (map cell_mk cells) = true /\ cells_ok p_element_ok (map cell_mk cells).

Definition elem_conv (fuel : nat) : Prop :=
  forall (t : str) x r, W.p_element_with (W.p_content fuel) fuel t = Some (x, r) -> xok x = true ->
  exists e, yields (NT nt_element) (60 :: t) (VElement e) r /\ x_elem e = x /\ d04_elem e = true /\ p_element_ok e.

(** one more cell in front of a content that was read *)
Lemma cell_step (s r1 : str) (c : contents) (h' : str) cells' (s1' r : str) items' :
  yields child_alt s (VContents c) r1 -> (length r1 < length s)%nat -> contents_ok p_element_ok c -> d04_contents d04_elem c = true ->
  r1 = h' ++ s1' -> text_ok h' -> stops (eval (is_char_except [60;38])) s1' ->
  many_yields cell_expr s1' (map cell_val cells') r -> items' = map W.XChar h' ++ x_cells x_elem (map cell_mk cells') ->
  d04_cells d04_elem (map cell_mk cells') = true -> cells_ok p_element_ok (map cell_mk cells') ->
  many_yields cell_expr s (map cell_val ((c, h') :: cells')) r /\
  x_contents x_elem c :: items' = x_cells x_elem (map cell_mk ((c, h') :: cells')) /\
  d04_cells d04_elem (map cell_mk ((c, h') :: cells')) = true /\ cells_ok p_element_ok (map cell_mk ((c, h') :: cells')).
Proof.
  intros Yc Hlt Hco Hcd -> Hh Hst Hm -> Hd Hok. split; [|split; [|split]].
  - cbn [map]. eapply my_step; [| |exact Hm].
    + unfold cell_expr, cell_val. cbn [fst snd]. eapply yields_seq; [exact Yc|]. apply yields_opt_some. apply yields_str. apply parses_char_data; assumption.
    + rewrite app_length in Hlt. lia.
  - reflexivity.
  - cbn [map cell_mk d04_cells fst snd]. rewrite Hcd. exact Hd.
  - cbn [map cell_mk cells_ok fst snd]. split; [exact Hco|split; [exact Hh|exact Hok]].
Qed.

Lemma text_ok_cons c (h s1 : str) : W.isChar c = true -> (c =? W.c_lt) = false -> (c =? W.c_amp) = false ->
  W.starts W.s_cdata_close (c :: h ++ s1) = false -> text_ok h -> text_ok (c :: h).
Proof.
  intros Hc Hlt Hamp Hst [Hh Hf]. split.
  - cbn [forallb]. rewrite Hh, andb_true_r. rewrite is_char_except_equiv. unfold W.isChar in Hc. rewrite Hc. cbn [existsb andb].
    unfold W.c_lt, W.c_amp in *. rewrite Hlt, Hamp. reflexivity.
  - cbn [find_sub]. rewrite Hf. assert (prefix [93;93;62] (c :: h) = None) as ->; [|reflexivity].
    destruct (prefix [93;93;62] (c :: h)) as [u|] eqn:E; [|reflexivity]. exfalso.
    unfold W.starts in Hst. rewrite Wstrip_same in Hst. change W.s_cdata_close with [93;93;62] in Hst.
    pose proof (prefix_some_app' [93;93;62] (c :: h) u s1 E) as E2. cbn [app] in E2. unfold str, char in *. rewrite E2 in Hst. discriminate.
Qed.

Lemma content_step (f : nat) : content_conv f -> elem_conv f -> content_conv (Datatypes.S f).
Proof.
  intros IHc IHe s items r H Hok. destruct s as [|c t]; cbn [W.p_content] in H; unfold str, char in *.
  - injection H as <- <-. split; [left; reflexivity|]. exists [], [], []. split; [reflexivity|]. split; [apply text_ok_nil|]. split; [exact I|].
    split; [apply my_stop; apply fails_seq_l; apply child_alt_fails_nil|]. repeat split.
  - destruct (N.eqb_spec c W.c_lt) as [->|Hlt].
    + destruct (W.starts W.s_etag_open (W.c_lt :: t)) eqn:Est.
      * injection H as <- <-. unfold W.starts in Est. destruct (W.strip W.s_etag_open (W.c_lt :: t)) as [r'|] eqn:Es; [|discriminate].
        rewrite Wstrip_same in Es. apply prefix_decomp in Es. split; [right; exists r'; exact Es|].
        exists [], [], (W.c_lt :: t). split; [reflexivity|]. split; [apply text_ok_nil|]. split; [reflexivity|].
        split; [apply my_stop; apply fails_seq_l; rewrite Es; apply child_alt_fails_etag|]. repeat split.
      * (* an item that starts with < *)
        match type of H with W.bind ?X _ = _ => destruct X as [[x r1]|] eqn:Ex; [|discriminate H] end. cbn [W.bind] in H.
        destruct (W.p_content f r1) as [[l rest]|] eqn:Ec; [|discriminate H]. cbn [W.bind] in H. injection H as <- <-.
        cbn [forallb] in Hok. apply andb_prop in Hok. destruct Hok as [Hokx Hokl].
        destruct (IHc _ _ _ Ec Hokl) as [Hfol [h' [cells' [s1' [Er1 [Hh' [Hst' [Hm' [El [Hd' Hok']]]]]]]]]].
        split; [exact Hfol|].
        assert (exists cc, yields child_alt (W.c_lt :: t) (VContents cc) r1 /\ x_contents x_elem cc = x /\
                           contents_ok p_element_ok cc /\ d04_contents d04_elem cc = true) as [cc [Yc [Xc [Oc Dc]]]].
        { destruct (W.strip W.s_comment_open (W.c_lt :: t)) as [r0|] eqn:E1.
          - rewrite Wstrip_same in E1. apply prefix_decomp in E1. destruct (W.p_comment_body r0) as [[b r']|] eqn:Eb; [|discriminate Ex]. cbn [W.bind] in Ex. injection Ex as <- <-.
            pose proof (conv_comment _ _ _ Eb) as Y. destruct (comment_body_inv _ _ _ _ (le_n _) Eb) as [_ Hcb].
            exists (CsComment b). split; [|repeat split; try reflexivity; exact Hcb]. rewrite E1.
            unfold child_alt. apply yields_alt_r; [apply fails_map; apply fails_element_no_name; reflexivity|].
            apply yields_alt_r; [apply fails_map; apply fails_reference_lt|].
            apply yields_alt_r; [apply fails_map; apply fails_cdsect; reflexivity|].
            apply yields_alt_r; [apply fails_map; apply fails_pi; reflexivity|].
            apply (yields_map' (VComment b)); [reflexivity|exact Y].
          - destruct (W.strip W.s_cdata_open (W.c_lt :: t)) as [r0|] eqn:E2.
            + rewrite Wstrip_same in E2. apply prefix_decomp in E2. destruct (W.scan_to W.s_cdata_close r0) as [[b r']|] eqn:Eb; [|discriminate Ex]. cbn [W.bind] in Ex. injection Ex as <- <-.
              pose proof (conv_cdsect _ _ _ Eb) as Y. destruct (scan_to_inv [93;93;62] ltac:(discriminate) _ _ _ Eb) as [_ [Hb1 Hb2]].
              exists (CsCData b). split; [|repeat split; try reflexivity; assumption]. rewrite E2.
              unfold child_alt. apply yields_alt_r; [apply fails_map; apply fails_element_no_name; reflexivity|].
              apply yields_alt_r; [apply fails_map; apply fails_reference_lt|].
              apply yields_alt_l. apply (yields_map' (VCData b)); [reflexivity|exact Y].
            + destruct (W.strip W.s_pi_open (W.c_lt :: t)) as [r0|] eqn:E3.
              * rewrite Wstrip_same in E3. apply prefix_decomp in E3. destruct (W.p_pi_body r0) as [[[tg dd] r']|] eqn:Eb; [|discriminate Ex]. cbn [W.bind] in Ex. injection Ex as <- <-.
                destruct (conv_pi _ _ _ _ Eb) as [Y Hnm].
                assert (pi_ok (PI tg dd)) as Hpi.
                { destruct Y as [tt [Pt Et]]. destruct Pt as [f0 Hf0]. specialize (Hf0 f0 (le_n _)). pose proof (den_S _ _ _ _ _ Hf0 eq_refl) as HS.
                  apply inv_pi in HS. destruct HS as [p' [Ep' Hp']]. rewrite Et in Ep'. injection Ep' as <-. exact Hp'. }
                exists (CsPI (PI tg dd)). split; [|split; [reflexivity|split; [exact Hpi|exact Hnm]]]. rewrite E3.
                unfold child_alt. apply yields_alt_r; [apply fails_map; apply fails_element_no_name; reflexivity|].
                apply yields_alt_r; [apply fails_map; apply fails_reference_lt|].
                apply yields_alt_r; [apply fails_map; apply fails_cdsect; reflexivity|].
                apply yields_alt_l. apply (yields_map' (VPI (PI tg dd))); [reflexivity|exact Y].
              * destruct (IHe _ _ _ Ex Hokx) as [e [Ye [Xe [De Oe]]]].
                exists (CsElement e). split; [|repeat split; assumption].
                unfold child_alt. apply yields_alt_l. apply (yields_map' (VElement e)); [reflexivity|exact Ye]. }
        pose proof (yields_child_lt _ _ _ Yc) as Hlen.
        destruct (cell_step _ _ cc h' cells' s1' rest l Yc Hlen Oc Dc Er1 Hh' Hst' Hm' El Hd' Hok') as [Hm [Hx [Hd Hokk]]].
        exists [], ((cc, h') :: cells'), (W.c_lt :: t). split; [reflexivity|]. split; [apply text_ok_nil|]. split; [reflexivity|].
        split; [exact Hm|]. split; [transitivity (x_contents x_elem cc :: l); [rewrite Xc; reflexivity|exact Hx]|]. split; assumption.
    + destruct (N.eqb_spec c W.c_amp) as [->|Hamp].
      * destruct (W.p_ref t) as [[rf r1]|] eqn:Er; [|discriminate H]. cbn [W.bind] in H.
        destruct (W.p_content f r1) as [[l rest]|] eqn:Ec; [|discriminate H]. cbn [W.bind] in H. injection H as <- <-.
        cbn [forallb] in Hok. apply andb_prop in Hok. destruct Hok as [_ Hokl].
        destruct (IHc _ _ _ Ec Hokl) as [Hfol [h' [cells' [s1' [Er1 [Hh' [Hst' [Hm' [El [Hd' Hok']]]]]]]]]].
        split; [exact Hfol|]. destruct (conv_ref _ _ _ Er) as [x [Hxo [Ex [Exr Hdx]]]].
        assert (yields child_alt (W.c_amp :: t) (VContents (CsReference x)) r1) as Yc.
        { change (W.c_amp :: t) with (38 :: t). rewrite Ex. unfold child_alt.
          apply yields_alt_r; [apply fails_map; apply fails_element_no_lt; destruct (d_reference_head x) as [tt ->]; reflexivity|].
          apply yields_alt_l. apply (yields_map' (VReference x)); [reflexivity|]. apply yields_reference. exact Hxo. }
        assert (length r1 < length (W.c_amp :: t))%nat as Hlen.
        { change (W.c_amp :: t) with (38 :: t). rewrite Ex, app_length. pose proof (d_reference_length x). lia. }
        destruct (cell_step _ _ (CsReference x) h' cells' s1' rest l Yc Hlen Hxo Hdx Er1 Hh' Hst' Hm' El Hd' Hok') as [Hm [Hx [Hd Hokk]]].
        exists [], ((CsReference x, h') :: cells'), (W.c_amp :: t). split; [reflexivity|]. split; [apply text_ok_nil|]. split; [reflexivity|].
        split; [exact Hm|]. split; [transitivity (x_contents x_elem (CsReference x) :: l); [cbn [x_contents]; unfold x_refitem; rewrite Exr; reflexivity|exact Hx]|]. split; assumption.
      * destruct (W.isChar c && negb (W.starts W.s_cdata_close (c :: t))) eqn:Ech; [|discriminate H].
        apply andb_prop in Ech. destruct Ech as [Hch Hst]. apply negb_true_iff in Hst.
        destruct (W.p_content f t) as [[l rest]|] eqn:Ec; [|discriminate H]. cbn [W.bind] in H. injection H as <- <-.
        cbn [forallb] in Hok.
        destruct (IHc _ _ _ Ec Hok) as [Hfol [h' [cells' [s1' [Er1 [Hh' [Hst' [Hm' [El [Hd' Hok']]]]]]]]]].
        split; [exact Hfol|]. apply N.eqb_neq in Hlt. apply N.eqb_neq in Hamp. subst t.
        exists (c :: h'), cells', s1'. split; [reflexivity|]. split; [eapply text_ok_cons; eassumption|]. split; [exact Hst'|].
        split; [exact Hm'|]. split; [rewrite El; reflexivity|]. split; assumption.
Qed.

Lemma Wstr_eqb_eq' (a : str) : forall b, W.str_eqb a b = true -> a = b.
Proof.
  induction a as [|x a IH]; intros [|y b] H; try discriminate H; [reflexivity|].
  cbn in H. apply andb_prop in H. destruct H as [H1 H2]. apply N.eqb_eq in H1. subst y. f_equal. apply IH. exact H2.
Qed.

Lemma tag_end_parses (r : str) (e : bool) rest : tag_end r e rest ->
  exists t, P (Seq (Chars0 ws) (Tag (if e then [47;62] else [62]))) r t rest.
Proof.
  intros [a [Ha ->]]. destruct e; eexists.
  - eapply parses_seq; [apply parses_chars0; [exact Ha|reflexivity]|]. apply (parses_tag G_xml [47;62] rest).
  - eapply parses_seq; [apply parses_chars0; [exact Ha|reflexivity]|]. apply (parses_tag G_xml [62] rest).
Qed.

Lemma p_etag_inv (s nm r : str) : W.p_etag s = Some (nm, r) -> exists r5, W.p_Name s = Some (nm, r5) /\ tag_end r5 false r.
Proof.
  unfold W.p_etag. destruct (W.p_Name s) as [[n r5]|] eqn:En; [|discriminate]. cbn [W.bind].
  destruct (skipS_inv r5) as [a [Ha [_ E]]]. destruct (W.skipS r5) as [|c t]; [discriminate|].
  destruct (N.eqb_spec c W.c_gt) as [->|]; [|discriminate]. intros H. injection H as <- <-.
  exists r5. split; [reflexivity|]. exists a. split; [exact Ha|exact E].
Qed.

Lemma elem_step (f : nat) : content_conv f -> elem_conv f.
Proof.
  intros IHc t x r H Hok. unfold W.p_element_with in H.
  destruct (W.p_tag f t) as [[[[nm atts] e] r1]|] eqn:Et; [|discriminate]. cbn [W.bind] in H. destruct e.
  - (* empty-element tag *)
    injection H as <- <-. cbn [xok] in Hok. apply andb_prop in Hok. destruct Hok as [Hok _]. apply andb_prop in Hok. destruct Hok as [Hok _].
    apply andb_prop in Hok. destruct Hok as [Hqn Hqa].
    destruct (conv_tag _ _ _ _ _ _ Et Hqn Hqa) as [q [al [ta [r0 [Pt [Eta [He [Eq [Hq [Ex [Hd Hoka]]]]]]]]]]].
    destruct (tag_end_parses _ _ _ He) as [te Pe].
    exists (Element q al None). split; [|split; [cbn [x_elem]; rewrite Eq, Ex; reflexivity|split; [cbn [d04_elem]; rewrite Hd; reflexivity|cbn [p_element_ok]; repeat split; assumption]]].
    apply yields_nt. rewrite body_element. apply yields_alt_l. apply yields_nt. rewrite body_empty_tag.
    apply (yields_map' (VPair (VQName q) (VList (map VAttribute al)))); [apply al_element|].
    eapply yields_seqr; [apply (parses_tag G_xml [60] t)|]. eapply yields_seql; [|exact Pe].
    eexists. split; [exact Pt|]. cbn [eval_tree]. rewrite eval_tree_qname, Eta. reflexivity.
  - (* start tag, content, end tag *)
    destruct (W.p_content f r1) as [[kids r2]|] eqn:Ec; [|discriminate]. cbn [W.bind] in H.
    destruct (W.strip W.s_etag_open r2) as [r3|] eqn:Es; [|discriminate]. cbn [W.bind] in H.
    destruct (W.p_etag r3) as [[enm r4]|] eqn:Ee; [|discriminate]. cbn [W.bind] in H. injection H as <- <-.
    cbn [xok] in Hok. apply andb_prop in Hok. destruct Hok as [Hok Hokk]. apply andb_prop in Hok. destruct Hok as [Hok Hm].
    apply andb_prop in Hok. destruct Hok as [Hqn Hqa]. apply Wstr_eqb_eq' in Hm. subst enm.
    destruct (conv_tag _ _ _ _ _ _ Et Hqn Hqa) as [q [al [ta [r0 [Pt [Eta [He [Eq [Hq [Ex [Hd Hoka]]]]]]]]]]].
    destruct (tag_end_parses _ _ _ He) as [te Pe].
    destruct (IHc _ _ _ Ec Hokk) as [_ [h [cells [s1 [Er1 [Hh [Hst [Hmy [Ek [Hdc Hokc]]]]]]]]]].
    rewrite Wstrip_same in Es. apply prefix_decomp in Es. subst r2.
    destruct (p_etag_inv _ _ _ Ee) as [r5 [En5 He5]]. destruct (p_Name_inv _ _ _ En5) as [-> _]. rewrite <- Eq in *.
    destruct (tag_end_parses _ _ _ He5) as [te5 Pe5].
    destruct (yields_many0 _ _ _ _ Hmy) as [tcells [Pcells Ecells]].
    (* the content *)
    assert (P (NT nt_content) r1 (TMap L_closure_11e3fda0 (TPair (TSome (TStr h)) tcells)) (W.s_etag_open ++ d_qname q ++ r5)) as Pc.
    { apply parses_nt. rewrite body_content. fold cell_expr. apply parses_map. rewrite Er1. eapply parses_seq; [|exact Pcells].
      apply parses_opt_some. apply parses_char_data; assumption. }
    assert (eval_tree (TMap L_closure_11e3fda0 (TPair (TSome (TStr h)) tcells)) = VContent (Some h, map cell_mk cells)) as Evc.
    { cbn [eval_tree]. rewrite Ecells. apply al_content. }
    exists (Element q al (Some (Some h, map cell_mk cells))). split; [|split; [|split]].
    + apply yields_nt. rewrite body_element. apply yields_alt_r.
      * (* the empty-element form fails at `>` *)
        apply fails_nt. rewrite body_empty_tag. apply fails_map. eapply fails_seqr_r; [apply (parses_tag G_xml [60] t)|].
        eapply fails_seql_r; [exact Pt|]. destruct He as [a [Ha ->]]. eapply fails_seq_r; [apply parses_chars0; [exact Ha|reflexivity]|].
        apply fails_tag. reflexivity.
      * eexists. split.
        -- apply parses_map. apply parses_verify.
           ++ eapply parses_seq.
              ** apply parses_nt. rewrite body_stag. apply parses_map. eapply parses_seqr; [apply (parses_tag G_xml [60] t)|]. eapply parses_seql; [exact Pt|exact Pe].
              ** eapply parses_seq; [exact Pc|]. apply parses_nt. rewrite body_etag. eapply parses_seqr; [apply (parses_tag G_xml [60;47])|].
                 eapply parses_seql; [apply parses_qname; [exact Hq|eapply tag_end_stops_name; exact He5]|exact Pe5].
           ++ unfold verify_eq. cbn [tget]. apply tree_eqb_qname.
        -- cbn [eval_tree] in *. rewrite eval_tree_qname, Eta. rewrite al_element. cbn [eval_tree] in Evc. rewrite Evc. apply al_set_content.
    + cbn [x_elem]. rewrite Ex, Ek. reflexivity.
    + cbn [d04_elem]. rewrite Hd, Hdc. reflexivity.
    + cbn [p_element_ok]. split; [exact Hq|split; [exact Hoka|split; [exact Hh|exact Hokc]]].
Qed.

Theorem conv_all : forall f, content_conv f /\ elem_conv f.
Proof.
  induction f as [|f [IHc IHe]].
  - assert (content_conv 0) as H0 by (intros s items r H; discriminate H). split; [exact H0|apply elem_step; exact H0].
  - pose proof (content_step f IHc IHe) as Hc. split; [exact Hc|apply elem_step; exact Hc].
Qed.

(** [39] element at the entry point of the specification *)
Theorem conv_element (fuel : nat) (s : str) x r : W.p_element fuel s = Some (x, r) -> xok x = true ->
  exists e, yields (NT nt_element) s (VElement e) r /\ x_elem e = x /\ d04_elem e = true /\ p_element_ok e.
Proof.
  unfold W.p_element. destruct s as [|c t]; [discriminate|]. destruct (N.eqb_spec c W.c_lt) as [->|]; [|discriminate].
  intros H Hok. exact (proj2 (conv_all fuel) t x r H Hok).
Qed.
