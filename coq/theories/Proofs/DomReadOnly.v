(** * The mutators of the read-only maps of a document type (Model/DomReadOnly.v): the world is unchanged, the
    outcome is [XFailed XNoModificationAllowedErr] exactly when the call can be written; histories that contain
    such calls ([xop], [run_x]) visit the worlds of the history without them, so every invariant of the
    histories of Model/DomNormalize.v lifts.  C12 corollaries and the example world (a document with a document
    type that declares entities, a document without one). *)
From Coq Require Import List NArith Bool.
From XmlRs Require Import Base.CPred Model.Store Model.StoreCheck Model.DomOps Model.DomNormalize Model.DomReadOnly
  Proofs.DomTree Proofs.DomOpsInv Proofs.DomNav Proofs.DomCheck Proofs.DomC12 Proofs.DomNormalizeHist Proofs.DomNormalizeC12.
Import ListNotations.
Open Scope N_scope.

(** ** one call *)
Theorem step_ro_world : forall w o, fst (step_ro w o) = w.
Proof.
  intros w [m r src k d|m r name]; cbn [step_ro]; destruct (doctype_ref w r) as [t|]; try reflexivity.
  destruct (arg_exists w m src k d); reflexivity.
Qed.

Theorem step_ro_set_outcome : forall w m r src k d,
  snd (step_ro w (MapSetNamedItem m r src k d)) =
  match doctype_ref w r with
  | Some _ => if arg_exists w m src k d then XFailed XNoModificationAllowedErr else XNotApplicable
  | None => XNotApplicable
  end.
Proof.
  intros w m r src k d. cbn [step_ro]. destruct (doctype_ref w r) as [t|]; [|reflexivity].
  destruct (arg_exists w m src k d); reflexivity.
Qed.

Theorem step_ro_remove_outcome : forall w m r name,
  snd (step_ro w (MapRemoveNamedItem m r name)) =
  match doctype_ref w r with Some _ => XFailed XNoModificationAllowedErr | None => XNotApplicable end.
Proof. intros w m r name. cbn [step_ro]. destruct (doctype_ref w r) as [t|]; reflexivity. Qed.

(** the call can be written: the receiver gives a document type and the argument exists *)
Definition ro_applicable (w : world) (o : ro_op) : bool :=
  match o with
  | MapSetNamedItem m r src k d => match doctype_ref w r with Some _ => arg_exists w m src k d | None => false end
  | MapRemoveNamedItem m r name => match doctype_ref w r with Some _ => true | None => false end
  end.

Theorem step_ro_outcome : forall w o,
  snd (step_ro w o) = if ro_applicable w o then XFailed XNoModificationAllowedErr else XNotApplicable.
Proof.
  intros w [m r src k d|m r name]; cbn [ro_applicable].
  - rewrite step_ro_set_outcome. destruct (doctype_ref w r) as [t|]; reflexivity.
  - rewrite step_ro_remove_outcome. destruct (doctype_ref w r) as [t|]; reflexivity.
Qed.

Theorem step_ro_cases : forall w o,
  snd (step_ro w o) = XFailed XNoModificationAllowedErr \/ snd (step_ro w o) = XNotApplicable.
Proof. intros w o. rewrite step_ro_outcome. destruct (ro_applicable w o); [left | right]; reflexivity. Qed.

(** the outcome does not depend on the name / on which existing item is the argument / on the map *)
Theorem step_ro_remove_any_name : forall w m m' r name name',
  snd (step_ro w (MapRemoveNamedItem m r name)) = snd (step_ro w (MapRemoveNamedItem m' r name')).
Proof. intros. rewrite !step_ro_remove_outcome. reflexivity. Qed.

(** ** histories *)
Lemma run_x_cons w o t : run_x w (o :: t) = run_x (fst (step_x w o)) t.
Proof. reflexivity. Qed.

Lemma run_n_cons w o t : run_n w (o :: t) = run_n (fst (step_n w o)) t.
Proof. reflexivity. Qed.

Lemma run_x_app a b w : run_x w (a ++ b) = run_x (run_x w a) b.
Proof. unfold run_x. apply fold_left_app. Qed.

Lemma step_x_ro_world w o : fst (step_x w (XRo o)) = w.
Proof. cbn [step_x]. apply step_ro_world. Qed.

Lemma step_x_n_world w o : fst (step_x w (XN o)) = fst (step_n w o).
Proof. reflexivity. Qed.

(** a history with calls on the read-only maps ends in the world of the history without them *)
Theorem run_x_erase : forall ops w, run_x w ops = run_n w (nops_of ops).
Proof.
  induction ops as [|[o|o] t IH]; intros w.
  - reflexivity.
  - rewrite run_x_cons, step_x_n_world. cbn [nops_of]. rewrite run_n_cons. apply IH.
  - rewrite run_x_cons, step_x_ro_world. cbn [nops_of]. apply IH.
Qed.

Theorem run_x_invariant (P : world -> Prop) :
  (forall nops w, P w -> P (run_n w nops)) -> forall ops w, P w -> P (run_x w ops).
Proof. intros H ops w Hw. rewrite run_x_erase. apply H. exact Hw. Qed.

Lemma nops_of_app a b : nops_of (a ++ b) = nops_of a ++ nops_of b.
Proof.
  induction a as [|[o|o] t IH]; cbn [nops_of app]; [reflexivity | rewrite IH; reflexivity | exact IH].
Qed.

Lemma in_nops_of o ops : In (XN o) ops -> In o (nops_of ops).
Proof.
  induction ops as [|[p|p] t IH]; cbn [nops_of]; intros H; [contradiction | |].
  - destruct H as [H|H]; [left; congruence | right; apply IH; exact H].
  - destruct H as [H|H]; [discriminate | apply IH; exact H].
Qed.

(** ** C12: the tree invariant and the navigation clauses along histories with calls on the read-only maps *)
Theorem tree_inv_reachable_with_readonly : forall init xs, WInv init -> WInv (run_x init xs).
Proof. intros init xs. apply (run_x_invariant WInv). intros nops w. apply tree_inv_reachable_with_normalize. Qed.

Theorem navigation_agrees_reachable_with_readonly :
  forall init xs k s, WInv init -> doc_at (run_x init xs) k = Some s -> NavAgree s.
Proof.
  intros init xs k s Hi D. rewrite run_x_erase in D.
  exact (navigation_agrees_reachable_with_normalize init (nops_of xs) k s Hi D).
Qed.

(** ** the example: document 0 = [<!DOCTYPE r [<!ENTITY e "v"><!ENTITY u SYSTEM "x" NDATA n>]><r>t</r>] (ids: 1 document,
    2 document type -- entities e and u, u refused in attribute values --, 3 r, 4 text), document 1 = [<q/>]
    (1 document, 2 q) *)
Definition ro_dt_text : str :=
  [60; 33; 68; 79; 67; 84; 89; 80; 69; 32; 114; 32; 91; 60; 33; 69; 78; 84; 73; 84; 89; 32; 101; 32; 34; 118; 34; 62;
   60; 33; 69; 78; 84; 73; 84; 89; 32; 117; 32; 83; 89; 83; 84; 69; 77; 32; 34; 120; 34; 32; 78; 68; 65; 84; 65; 32; 110; 62; 93; 62].

Definition ro_items0 : list (id * item) :=
  [ (1, mkItem KDoc None [] [] false None [2; 3] [] []);
    (2, mkItem KDt None [114] ro_dt_text false (Some 1) [] [] [[101]; [0; 117]]);
    (3, mkItem KEl None [114] [] false (Some 1) [4] [] []);
    (4, mkItem KTx None [] [116] false (Some 3) [] [] []) ].
Definition ro_items1 : list (id * item) :=
  [ (1, mkItem KDoc None [] [] false None [2] [] []);
    (2, mkItem KEl None [113] [] false (Some 1) [] [] []) ].

Definition ro_store0 : store := store_of_list ro_items0 5 [] 1.
Definition ro_store1 : store := store_of_list ro_items1 3 [] 1.
Definition ro_world : world := mkWorld [ro_store0; ro_store1].

(** e from the own map; u by index; a name that is not there (no call); remove of a present and of an absent name;
    the receiver given as the document type node; a document without document type; then the document type is
    removed from its document: the document has no maps any more, the node still has them *)
Definition ro_ops : list xop :=
  [ XRo (MapSetNamedItem MEntities (0, 1) (0, 1) (ByName [101]) false);
    XRo (MapSetNamedItem MEntities (0, 1) (0, 2) (ByIndex 1) false);
    XRo (MapSetNamedItem MEntities (0, 1) (0, 1) (ByName [122]) false);
    XRo (MapRemoveNamedItem MEntities (0, 1) [101]);
    XRo (MapRemoveNamedItem MNotations (0, 2) [122]);
    XRo (MapRemoveNamedItem MEntities (1, 1) [101]);
    XRo (MapSetNamedItem MNotations (1, 1) (0, 1) (ByName [110]) true);
    XN (Op (RemoveChild (0, 1) (0, 2)));
    XRo (MapRemoveNamedItem MEntities (0, 1) [101]);
    XRo (MapRemoveNamedItem MEntities (0, 2) [101]) ].

Fixpoint outcomes_x (w : world) (ops : list xop) : list xoutcome :=
  match ops with
  | [] => []
  | o :: t => snd (step_x w o) :: outcomes_x (fst (step_x w o)) t
  end.

Example ro_world_inv : WInv ro_world.
Proof. constructor; [|constructor; [|constructor]]; apply tree_inv_b_sound; vm_compute; reflexivity. Qed.

Example ro_example_outcomes :
  outcomes_x ro_world ro_ops =
  [ XFailed XNoModificationAllowedErr; XFailed XNoModificationAllowedErr; XNotApplicable;
    XFailed XNoModificationAllowedErr; XFailed XNoModificationAllowedErr; XNotApplicable; XNotApplicable;
    XOk (RNode (0, 2)); XNotApplicable; XFailed XNoModificationAllowedErr ].
Proof. vm_compute. reflexivity. Qed.

Example ro_example_world :
  run_x ro_world ro_ops = fst (step ro_world (RemoveChild (0, 1) (0, 2)))
  /\ WInv (run_x ro_world ro_ops)
  /\ (forall s, doc_at (run_x ro_world ro_ops) 0 = Some s -> NavAgree s).
Proof.
  split; [rewrite run_x_erase; reflexivity|].
  split; [apply tree_inv_reachable_with_readonly; exact ro_world_inv|].
  intros s D. exact (navigation_agrees_reachable_with_readonly ro_world ro_ops 0 s ro_world_inv D).
Qed.
