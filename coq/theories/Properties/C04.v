(** * C04 -- serialisation round-trips: print then parse gives an equal document, and printing
    reaches a fixpoint after one round.

    FULL STATEMENT (DESIGN 5.4; [from_raw] = parse then build, [display] = the fmt::Display impls,
    [doc_eq] = equality of the infoset model, which [doc_eq_impl_eq] shows to imply the hand-written
    `==` of xml-info):

      print_parse : forall s d, from_raw s = OOk ([], d) ->
        exists d', from_raw (display d) = OOk ([], d') /\ doc_eq d' d /\ display d' = display d.

    STATUS: PROVED IN FULL, for every input, any size and depth ([print_parse] below; it is
    stated with [pipeline_parse], which is [from_raw]).  Two halves:

      "print, then parse" (Proofs/DisplayLex, DisplayElem, DisplayDoc, DisplayDtd, DisplayFull):
        print_parse_partial_printable : forall d, printable d ->
          exists d', from_raw (display d) = OOk ([], d') /\ doc_eq d' d /\ impl_eq d d' = true
                     /\ display d' = display d.
      [printable] is an explicit invariant: lexical validity of every name / text / literal,
      no adjacent text items, pairwise different attribute names, every entity reference resolves
      against the document's own declarations, children = Misc* doctype? Misc* element Misc*.

      "whatever is accepted is printable" (Proofs/PegInv, ParseInv, ParseInvElem, ParseInvDtd,
      ParseInvDoc for the parser; ParseInvBuild, ParseInvBuildDtd for XmlDocument::new):
        accepted_is_printable : forall s r d, from_raw s = OOk (r, d) -> printable d.
      It rests on [denote_succ] (every successful run of the PEG interpreter is a derivation of
      the big-step relation [succ]), inversion of each production of G_xml, and one argument on
      [denote] itself where the ORDER of a choice matters (an attribute named xmlns / xmlns:p is
      never returned as a QName: [inv_attribute_canon]).

    The statement is about the Coq model of the two crates; the `parse` correspondence domain ties
    the model to the compiled code on generated documents, and checks/C04.py evaluates the same
    conclusion on the real crates.

    The model of the code BEFORE repair 92063b3 refutes the statement
    ([print_parse_refuted_pinned], D11: `Display for XmlDeclarationAttList` printed nothing). *)
From Coq Require Import List NArith Bool.
From XmlRs Require Import Base.CPred Model.Peg Gen.XmlcharGen Gen.GrammarXmlGen Model.ParseActions Model.Info Model.Display
     Proofs.DisplayEq Proofs.PegLemmas Proofs.DisplayLex Proofs.DisplayElem Proofs.DisplayRun Proofs.DisplayDoc
     Proofs.DisplayDtd Proofs.DisplayFull Proofs.ParseInvDoc.
Import ListNotations.

Theorem doc_eq_implies_impl_eq : forall a b, doc_eq a b -> impl_eq a b = true.
Proof. exact doc_eq_impl_eq. Qed.

(** D11 on the model of the pinned printer: `<!DOCTYPE a [<!ATTLIST a x CDATA "d">]><a/>` is
    accepted completely, its print `<!DOCTYPE a []><a />` re-parses to a document that is not
    equal, and the second print `<!DOCTYPE a><a />` differs from the first *)
Definition d11_doc : str :=
  [60;33;68;79;67;84;89;80;69;32;97;32;91;60;33;65;84;84;76;73;83;84;32;97;32;120;32;67;68;65;84;65;32;34;100;34;62;93;62;60;97;47;62].

(** first and second document of the round trip, when both parses are complete *)
Definition round_trip (pinned : bool) (s : str) : option (document * document) :=
  match from_raw_gen pinned s with
  | OOk ([], d) =>
    match from_raw_gen pinned (display_gen pinned d) with
    | OOk ([], d') => Some (d, d')
    | _ => None
    end
  | _ => None
  end.

Definition d11_pinned := Eval vm_compute in round_trip true d11_doc.
Definition d11_repaired := Eval vm_compute in round_trip false d11_doc.

Theorem print_parse_refuted_pinned :
  exists d d', round_trip true d11_doc = Some (d, d')
            /\ impl_eq d d' = false /\ display_pinned d' <> display_pinned d.
Proof.
  assert (round_trip true d11_doc = d11_pinned) as -> by (vm_compute; reflexivity).
  unfold d11_pinned. eexists. eexists. split; [reflexivity|].
  split; vm_compute; [reflexivity|discriminate].
Qed.

(** the repaired printer on the same document: equal, fixpoint *)
Example print_parse_d11_repaired :
  exists d d', round_trip false d11_doc = Some (d, d') /\ d' = d /\ display d' = display d.
Proof.
  assert (round_trip false d11_doc = d11_repaired) as -> by (vm_compute; reflexivity).
  unfold d11_repaired. eexists. eexists. split; [reflexivity|]. split; reflexivity.
Qed.

(** ** the rungs proved so far (DESIGN 5.1 / 5.4).

    Direction "print, then parse" (for EVERY value that satisfies the stated lexical invariant and
    every continuation that satisfies the follow condition; [yields e s v r] = for all sufficiently
    large fuel, hence at the fuel [run] uses, [e] on [s] consumes up to [r] and its tree means [v]):

      rung 1, lexical:  Name, NCName, QName, Eq, Reference (entity / decimal / hexadecimal),
                        AttValue (both quotes), CharData, CDSect, PI, Comment
      rung 2:           Attribute (incl. xmlns / xmlns:p names), the attribute list of a tag,
                        STag / ETag / EmptyElemTag, content, element -- by induction on the element
                        tree, any depth and width -- TOGETHER WITH the infoset construction:
                        parsing the print of an element and building it gives the element back.

      rung 3:           XML declaration, Misc, prolog, document; system / public literals, external
                        identifiers, entity values, ENTITY / NOTATION / ATTLIST declarations (all
                        attribute types and defaults), PIs in the DTD, internal subset, DOCTYPE --
                        together with build_doctype / build_document.
    [print_parse_partial_printable] composes them. *)
Theorem print_parse_partial_name : forall n r : str, name_ok n -> stops (eval is_name_char) r ->
  parses G_xml (NT nt_name) (n ++ r) (TStr n) r.
Proof. exact parses_name. Qed.

Theorem print_parse_partial_qname : forall (q : qname) (r : str), qname_ok q -> stops (eval is_name_char) r ->
  parses G_xml (NT nt_qname) (d_qname q ++ r) (tree_qname q) r.
Proof. exact parses_qname. Qed.

Theorem print_parse_partial_reference : forall (x : reference) (r : str), reference_ok x ->
  yields (NT nt_reference) (d_reference x ++ r) (VReference x) r.
Proof. exact yields_reference. Qed.

Theorem print_parse_partial_att_value : forall (q : N) (l : list att_value) (r : str), q = 34%N \/ q = 39%N ->
  av_ok q false l -> yields (NT nt_att_value) (q :: d_av l ++ q :: r) (VList (map VAttValue l)) r.
Proof. exact yields_att_value. Qed.

Theorem print_parse_partial_char_data : forall t r : str, text_ok t -> stops (eval (is_char_except [60;38]%N)) r ->
  parses G_xml (NT nt_char_data) (t ++ r) (TStr t) r.
Proof. exact parses_char_data. Qed.

Theorem print_parse_partial_cdsect : forall d r : str, cdata_ok d ->
  yields (NT nt_cdsect) ([60;33;91;67;68;65;84;65;91]%N ++ d ++ [93;93;62]%N ++ r) (VCData d) r.
Proof. exact yields_cdsect. Qed.

Theorem print_parse_partial_pi : forall (p : ppi) (r : str), pi_ok p -> yields (NT nt_pi) (d_ppi p ++ r) (VPI p) r.
Proof. exact yields_pi. Qed.

Theorem print_parse_partial_comment : forall c r : str, comment_ok c ->
  yields (NT nt_comment) ([60;33;45;45]%N ++ c ++ [45;45;62]%N ++ r) (VComment c) r.
Proof. exact yields_comment. Qed.

Theorem print_parse_partial_attribute : forall ents ext (a : attr) (r : str), attr_wf ents ext a ->
  yields (NT nt_attribute) (d_attr a ++ r) (VAttribute (un_attr a)) r
  /\ build_attr ents ext (un_attr a) = IOk a.
Proof. exact attribute_rt. Qed.

(** rung 2, at the entry point xml_parser::element: the compact print of a well-formed element
    tree is parsed completely (whatever follows) and builds back to the same tree *)
Theorem print_parse_partial_element : forall ents ext (i : item) (r : str),
  is_element i = true -> item_wf ents ext i ->
  exists e, parse_element (d_item false i ++ r) = POk (e, r) /\ build_element ents ext e = IOk i.
Proof. exact element_print_parse. Qed.

(** all rungs composed: the printer's output for a printable document is accepted completely and
    denotes the document itself *)
Theorem print_parse_partial_printable : forall d, printable d ->
  exists d', from_raw (display d) = OOk ([], d') /\ doc_eq d' d /\ impl_eq d d' = true /\ display d' = display d.
Proof. exact print_parse_printable'. Qed.

Theorem print_parse_partial_doctype : forall sa dt, doctype_wf sa dt ->
  forall r, exists dd, yields (NT nt_doctype_decl) (d_doctype false dt ++ r) (VDeclDoc dd) r
                       /\ build_doctype false sa dd = IOk dt.
Proof. exact doctype_round_trip. Qed.

(** the invariant is satisfiable by non-trivial values: a prefixed element with an attribute whose value
    has a text piece and an entity reference, a namespace declaration whose value is a quotation mark,
    text, an empty child element, a hexadecimal character reference and a PI *)
Example item_wf_nontrivial :
  item_wf [] false
    (ItElement [97] (Some [112])
       [Attr [120] None [XaText [49]; XaEntity (builtin_entity [97;109;112] [38])];
        Attr [112] (Some s_xmlns) [XaText [34]]]
       [ItText [116]; ItElement [98] None [] []; ItCharRef [32] [50;48] Hex; ItPI (PI [113] (Some [114]))]).
Proof.
  cbn [item_wf children_wf leaf_wf mk_qname qname_ok].
  split; [split; split; reflexivity|].
  split.
  { constructor; [|constructor; [|constructor]].
    - split.
      + unfold attr_name_wf. cbn. split; reflexivity.
      + split; [cbn; auto|]. cbn [xa_values].
        constructor; [split; [discriminate|reflexivity]|constructor; [|constructor]].
        split; [reflexivity|]. vm_compute. reflexivity.
    - split.
      + unfold attr_name_wf. cbn. split; reflexivity.
      + split; [cbn; auto|]. constructor; [|constructor]. split; [discriminate|reflexivity]. }
  split; [cbn; auto|].
  split; [reflexivity|]. split; [discriminate|]. split; [split; reflexivity|].
  split; [repeat split; try reflexivity; constructor|].
  split; [split; [split; [discriminate|reflexivity]|eexists; split; reflexivity]|].
  split; [|exact I]. split; [split; reflexivity|]. repeat split; reflexivity.
Qed.

(** ** the converse half and the full statement *)
Theorem accepted_is_printable : forall (s r : str) (d : document), from_raw s = OOk (r, d) -> printable d.
Proof. exact accepted_printable. Qed.

(** C04, full statement *)
Theorem print_parse : forall (s : str) (d : document), pipeline_parse s = OOk ([], d) ->
  exists d', pipeline_parse (display d) = OOk ([], d') /\ doc_eq d' d /\ display d' = display d.
Proof. exact print_parse_full. Qed.

(** also when the parser left input unread, and with the hand-written `==` of xml-info *)
Corollary print_parse_any_rest : forall (s r : str) (d : document), pipeline_parse s = OOk (r, d) ->
  exists d', pipeline_parse (display d) = OOk ([], d') /\ doc_eq d' d /\ impl_eq d d' = true /\ display d' = display d.
Proof. intros s r d H. apply print_parse_printable'. eapply accepted_printable. exact H. Qed.

(** the hypothesis is satisfiable: the D11 document is accepted completely *)
Example print_parse_nonvacuous : exists d, pipeline_parse d11_doc = OOk ([], d).
Proof. eexists. vm_compute. reflexivity. Qed.

Print Assumptions print_parse.
Print Assumptions print_parse_any_rest.
Print Assumptions doc_eq_implies_impl_eq.
Print Assumptions print_parse_partial_printable.
Print Assumptions print_parse_partial_doctype.
Print Assumptions print_parse_partial_element.
Print Assumptions print_parse_partial_attribute.
Print Assumptions print_parse_partial_comment.
Print Assumptions print_parse_refuted_pinned.
