#!/usr/bin/env python3
"""T3: xpath/src/eval/func.rs `table()` -> Gen/FuncTableGen.v.

Fragment understood (anything else stops with file:line):
  pub fn table() -> Vec<Entry> { vec![ ENTRY (',' ENTRY)* ','? ] }
  ENTRY := Entry { FIELD (',' FIELD)* ','? }          (each field exactly once, any order)
  FIELD := local_part: "name".to_string()
         | namespace_uri: None
         | args: (NUM .. MAX)          MAX := NUM | usize::MAX
         | call: Box::new(IDENT)
`args` is read the way `eval_func_expr` uses it: `min_args() = start`, `max_args() = end`, both
inclusive; `usize::MAX` is "unbounded" (None).

Output:
  Definition table : list (list N * N * option N)        name (code points), min, max
  Definition table_calls : list (list N * list N)        name -> identifier of the Rust fn called
"""
import sys, os
sys.path.insert(0, os.path.dirname(__file__))
from rustlex import lex, strip_test_modules, functions

class TError(Exception):
    pass

class P:
    def __init__(self, toks, path):
        self.t, self.i, self.path = toks, 0, path
    def peek(self, k=0):
        return self.t[self.i + k].text if self.i + k < len(self.t) else None
    def line(self):
        if not self.t: return 0
        return self.t[min(self.i, len(self.t) - 1)].line
    def err(self, msg):
        raise TError('%s:%d: %s' % (self.path, self.line(), msg))
    def eat(self, text):
        if self.peek() != text:
            self.err('expected %r, found %r' % (text, self.peek()))
        self.i += 1
    def num(self):
        tok = self.t[self.i] if self.i < len(self.t) else None
        if tok is None or tok.kind != 'num' or not isinstance(tok.val, int):
            self.err('expected an integer literal, found %r' % (tok.text if tok else None))
        self.i += 1
        return tok.val
    def field(self, entry):
        tok = self.t[self.i] if self.i < len(self.t) else None
        if tok is None or tok.kind != 'id':
            self.err('expected a field name, found %r' % (tok.text if tok else None))
        name = tok.text
        if name in entry:
            self.err('field %s given twice' % name)
        self.i += 1
        self.eat(':')
        if name == 'local_part':
            s = self.t[self.i]
            if s.kind != 'str':
                self.err('local_part: expected a string literal, found %r' % s.text)
            self.i += 1
            self.eat('.'); self.eat('to_string'); self.eat('('); self.eat(')')
            entry[name] = s.val
        elif name == 'namespace_uri':
            if self.peek() != 'None':
                self.err('namespace_uri: only `None` is in the fragment (the models assume the core library has no namespace), found %r' % self.peek())
            self.i += 1
            entry[name] = None
        elif name == 'args':
            self.eat('(')
            lo = self.num()
            if self.peek() == '..=':
                self.err('args: inclusive range syntax is not in the fragment (the table uses `a..b` with b read inclusively)')
            self.eat('..')
            if self.peek() == 'usize':
                self.i += 1; self.eat('::'); self.eat('MAX')
                hi = None
            else:
                hi = self.num()
            self.eat(')')
            entry[name] = (lo, hi)
        elif name == 'call':
            self.eat('Box'); self.eat('::'); self.eat('new'); self.eat('(')
            f = self.t[self.i]
            if f.kind != 'id':
                self.err('call: expected a function identifier, found %r' % f.text)
            self.i += 1
            self.eat(')')
            entry[name] = f.text
        else:
            self.i -= 2
            self.err('unknown field %s' % name)
    def entry(self):
        line = self.line()
        self.eat('Entry'); self.eat('{')
        e = {}
        while self.peek() != '}':
            self.field(e)
            if self.peek() == ',':
                self.i += 1
            elif self.peek() != '}':
                self.err('expected `,` or `}` after a field, found %r' % self.peek())
        self.eat('}')
        for k in ('local_part', 'namespace_uri', 'args', 'call'):
            if k not in e:
                raise TError('%s:%d: entry without field %s' % (self.path, line, k))
        e['line'] = line
        return e
    def table(self):
        self.eat('vec'); self.eat('!'); self.eat('[')
        es = []
        while self.peek() != ']':
            es.append(self.entry())
            if self.peek() == ',':
                self.i += 1
            elif self.peek() != ']':
                self.err('expected `,` or `]` after an entry, found %r' % self.peek())
        self.eat(']')
        if self.i != len(self.t):
            self.err('trailing tokens after the table')
        return es

def translate(path):
    src = open(path, encoding='utf-8').read()
    toks = strip_test_modules(lex(src))
    fns = functions(toks)
    tables = [f for f in fns if f[0] == 'table']
    if len(tables) != 1:
        raise TError('%s:1: expected exactly one `fn table`, found %d' % (path, len(tables)))
    name, header, body, line = tables[0]
    h = [t.text for t in header]
    if h[-5:] != ['->', 'Vec', '<', 'Entry', '>'] or '(' not in h or h[h.index('(') + 1] != ')':
        raise TError('%s:%d: table must be `fn table() -> Vec<Entry>`' % (path, line))
    es = P(body, path).table()
    seen = {}
    fn_names = {f[0] for f in fns}
    for e in es:
        key = tuple(e['local_part'])
        if key in seen:
            raise TError('%s:%d: duplicate function name %s (first at line %d)' % (path, e['line'], ''.join(map(chr, key)), seen[key]))
        seen[key] = e['line']
        if e['call'] not in fn_names:
            raise TError('%s:%d: call target %s is not a function of this file' % (path, e['line'], e['call']))
    return es

def cps(l):
    return '[' + ';'.join(str(c) for c in l) + ']'

def emit(es, src_path):
    lines = ['(* GENERATED by tools/rs2v/functable.py from %s -- do not edit *)' % src_path,
             'From Coq Require Import List NArith.',
             'Import ListNotations.',
             'Open Scope N_scope.',
             '',
             '(* name (code points), minimal number of arguments, maximal number (None: unbounded) *)',
             'Definition table : list (list N * N * option N) := [']
    items = []
    for e in es:
        lo, hi = e['args']
        items.append('  (%s, %d, %s) (* %s *)' % (cps(e['local_part']), lo, 'None' if hi is None else 'Some %d' % hi, ''.join(map(chr, e['local_part']))))
    lines.append(';\n'.join(items))
    lines.append('].')
    lines.append('')
    lines.append('(* name -> identifier of the Rust function in the `call` field *)')
    lines.append('Definition table_calls : list (list N * list N) := [')
    items = []
    for e in es:
        items.append('  (%s, %s) (* %s -> %s *)' % (cps(e['local_part']), cps([ord(c) for c in e['call']]), ''.join(map(chr, e['local_part'])), e['call']))
    lines.append(';\n'.join(items))
    lines.append('].')
    return '\n'.join(lines) + '\n'

def write_if_changed(path, text):
    try:
        if open(path).read() == text:
            return False
    except OSError:
        pass
    with open(path, 'w') as f:
        f.write(text)
    return True

if __name__ == '__main__':
    repo = sys.argv[1] if len(sys.argv) > 1 else '/repo'
    outp = sys.argv[2] if len(sys.argv) > 2 else os.path.join(os.path.dirname(os.path.abspath(__file__)), '../../coq/theories/Gen/FuncTableGen.v')
    srcp = os.path.join(repo, 'xpath/src/eval/func.rs')
    try:
        es = translate(srcp)
    except Exception as ex:
        print('T3-ERROR: %s' % ex)
        sys.exit(2)
    write_if_changed(outp, emit(es, 'xpath/src/eval/func.rs'))
    print('T3 ok: %d functions' % len(es))
