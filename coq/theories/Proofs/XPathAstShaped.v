(** * The ASTs that [xml_xpath::expr::parse] produces: every [UnionExpr] has at least one operand
    ([separated_list1]).  [sh_or e] is the decidable form, hereditary through the whole AST.  The
    evaluator treats an empty union specially (the empty node-set); the abstraction
    [XPathAstAbs.abs_or] cannot represent it, so the theorems that go through the abstraction
    (Proofs/XPathAbsEval.v) ask for [sh_or]; Proofs/XPathParseShaped.v shows the parser model
    only produces such ASTs. *)
From Coq Require Import Bool.
From XmlRs Require Import Model.XPathAst.

Fixpoint sh_or (e : or_expr) : bool := match e with EOr f r => sh_and f && sh_ands r end
with sh_ands (l : and_list) : bool := match l with AndNil => true | AndCons a t => sh_and a && sh_ands t end
with sh_and (e : and_expr) : bool := match e with EAnd f r => sh_eq f && sh_eqs r end
with sh_eqs (l : eq_list) : bool := match l with EqNil => true | EqCons a t => sh_eq a && sh_eqs t end
with sh_eq (e : eq_expr) : bool := match e with EEq f ops => sh_rel f && sh_eqops ops end
with sh_eqops (l : eqop_list) : bool := match l with EqopNil => true | EqopCons _ e t => sh_rel e && sh_eqops t end
with sh_rel (e : rel_expr) : bool := match e with ERel f ops => sh_add f && sh_relops ops end
with sh_relops (l : relop_list) : bool := match l with RelopNil => true | RelopCons _ e t => sh_add e && sh_relops t end
with sh_add (e : add_expr) : bool := match e with EAdd f ops => sh_mul f && sh_addops ops end
with sh_addops (l : addop_list) : bool := match l with AddopNil => true | AddopCons _ e t => sh_mul e && sh_addops t end
with sh_mul (e : mul_expr) : bool := match e with EMul f ops => sh_unary f && sh_mulops ops end
with sh_mulops (l : mulop_list) : bool := match l with MulopNil => true | MulopCons _ e t => sh_unary e && sh_mulops t end
with sh_unary (e : unary_expr) : bool := match e with EUnary _ u => sh_union u end
with sh_union (e : union_expr) : bool :=
  match e with EUnion l => match l with PathNil => false | PathCons _ _ => true end && sh_paths l end
with sh_paths (l : path_list) : bool := match l with PathNil => true | PathCons p t => sh_path p && sh_paths t end
with sh_path (e : path_expr) : bool :=
  match e with
  | PRoot => true
  | PFilter f => sh_filter f
  | PRel l => sh_relpath l
  | PAbs _ l => sh_relpath l
  | PFilterPath f _ l => sh_filter f && sh_relpath l
  end
with sh_filter (e : filter_expr) : bool := match e with EFilter p ps => sh_primary p && sh_exprs ps end
with sh_primary (e : primary_expr) : bool :=
  match e with PrimExpr x => sh_or x | PrimFunction _ args => sh_exprs args | _ => true end
with sh_exprs (l : expr_list) : bool := match l with ExprNil => true | ExprCons e t => sh_or e && sh_exprs t end
with sh_relpath (e : rel_path) : bool := match e with ERelPath s ops => sh_step s && sh_stepops ops end
with sh_stepops (l : stepop_list) : bool := match l with StepopNil => true | StepopCons _ s t => sh_step s && sh_stepops t end
with sh_step (s : step) : bool := match s with StepTest _ _ ps => sh_exprs ps | _ => true end.

