(** * C05, rung 1 continued: node tests, location steps and predicate-free location paths.

    [NamesOk doc]: the expanded names the dom reports ([n_name]) are the ones Namespaces in XML
    prescribes (recomputed by the specification from the namespace nodes) -- the statement of C10,
    taken as a hypothesis here and decidable ([names_ok_b]).
    Under [DocInv], [SpecShape], [NamesOk], for a context without default binding and tests whose
    prefix is bound:
    - [node_test_agrees]: [eval_node_test] and [s_test] agree on every row;
    - [step_agrees]: a step without predicates on the child, attribute, self, descendant or
      descendant-or-self axis selects the same SET of nodes in model and specification;
    - [rel_path_agrees] / [path_query_agrees]: so does every location path made of such steps
      (with [/] and [//]), and the value of the whole query is the same node-set, in the same order. *)
From Coq Require Import List NArith Bool Lia Sorting.Sorted Sorting.Permutation.
From XmlRs Require Import Base.CPred Base.NList Base.Float64.
From XmlRs Require Import Spec.XPathCore Model.XPathFuncs.
From XmlRs Require Import Model.XPathAst Model.XDoc Model.XPathScalar Model.XPathEval.
From XmlRs Require Import Spec.XPath10.
From XmlRs Require Import Proofs.XPathEvalEqs Proofs.XPathNav Proofs.XPathSort Proofs.XPathAstPred
  Proofs.XPathCanon Proofs.XPathCtx Proofs.XPathRefine Proofs.XPathUnion.
Import ListNotations.
Open Scope N_scope.

(** ** names *)
Definition norm_prefix (p : option str) : option str :=
  match p with Some q => if str_eqb q s_xmlns then None else Some q | None => None end.

(** round 2: besides elements and attributes, a processing instruction reports its target without
    prefix and namespace, and every other node of the data model (document, text, comment) reports
    no name *)
Definition names_row_ok (doc : xdoc) (i : node) : Prop :=
  (kind doc i = KElement \/ kind doc i = KAttribute ->
    match name_of doc i with
    | XName l p u => s_name doc (Row i) = Some (l, norm_prefix p, u)
    | _ => False
    end) /\
  (kind doc i = KPI ->
    match name_of doc i with
    | XName l p u => norm_prefix p = None /\ u = None
    | _ => False
    end) /\
  (kind doc i <> KElement -> kind doc i <> KAttribute -> kind doc i <> KPI -> kind doc i <> KNamespace ->
    name_of doc i = XNameNone).

Definition NamesOk (doc : xdoc) : Prop := forall i, valid doc i -> names_row_ok doc i.

Definition is_none {A} (o : option A) : bool := match o with None => true | Some _ => false end.

Definition names_ok_b (doc : xdoc) : bool :=
  forallb (fun i =>
    if nkind_eqb (kind doc i) KElement || nkind_eqb (kind doc i) KAttribute then
      match name_of doc i, s_name doc (Row i) with
      | XName l p u, Some (l', p', u') =>
          str_eqb l l' && ostr_eq (norm_prefix p) p' && ostr_eq u u'
      | _, _ => false
      end
    else if nkind_eqb (kind doc i) KPI then
      match name_of doc i with
      | XName _ p u => is_none (norm_prefix p) && is_none u
      | _ => false
      end
    else if nkind_eqb (kind doc i) KNamespace then true
    else match name_of doc i with XNameNone => true | _ => false end)
    (map N.of_nat (seq 0 (length doc))).

Lemma str_eqb_refl (a : str) : str_eqb a a = true.
Proof. induction a as [|x a IH]; cbn [str_eqb]; [reflexivity|]. rewrite N.eqb_refl, IH. reflexivity. Qed.

Lemma str_eqb_true (a : str) : forall b, str_eqb a b = true -> a = b.
Proof.
  induction a as [|x a IH]; intros [|y b] H; cbn [str_eqb] in H; try discriminate; [reflexivity|].
  apply andb_prop in H. destruct H as [H1 H2]. apply N.eqb_eq in H1. subst. f_equal. apply IH. exact H2.
Qed.

Lemma str_eqb_sym (a : str) : forall b, str_eqb a b = str_eqb b a.
Proof.
  induction a as [|x a IH]; intros [|y b]; cbn [str_eqb]; try reflexivity.
  rewrite (N.eqb_sym x y), IH. reflexivity.
Qed.

Lemma ostr_eq_true a b : ostr_eq a b = true -> a = b.
Proof.
  destruct a as [x|], b as [y|]; cbn [ostr_eq]; intros H; try discriminate; [|reflexivity].
  f_equal. apply str_eqb_true. exact H.
Qed.

Theorem names_ok_b_sound doc : names_ok_b doc = true -> NamesOk doc.
Proof.
  intros H i Vi. unfold names_ok_b in H. rewrite forallb_forall in H.
  assert (Hin : In i (map N.of_nat (seq 0 (length doc)))).
  { apply in_map_iff. exists (N.to_nat i). unfold valid in Vi. split; [lia|]. apply in_seq. lia. }
  specialize (H i Hin). cbn beta in H. unfold names_row_ok. split; [|split].
  - intros Hk.
    assert (Hb : nkind_eqb (kind doc i) KElement || nkind_eqb (kind doc i) KAttribute = true).
    { destruct Hk as [Hk|Hk]; rewrite Hk; reflexivity. }
    rewrite Hb in H.
    destruct (name_of doc i) as [| |l p u]; try discriminate.
    destruct (s_name doc (Row i)) as [[[l' p'] u']|]; try discriminate.
    apply andb_prop in H. destruct H as [H H3]. apply andb_prop in H. destruct H as [H1 H2].
    apply str_eqb_true in H1. apply ostr_eq_true in H2. apply ostr_eq_true in H3. subst. reflexivity.
  - intros Hk. rewrite Hk in H. cbn [nkind_eqb orb] in H.
    destruct (name_of doc i) as [| |l p u]; try discriminate.
    apply andb_prop in H. destruct H as [H1 H2].
    split; [destruct (norm_prefix p); [discriminate|reflexivity]|destruct u; [discriminate|reflexivity]].
  - intros H1 H2 H3 H4.
    destruct (nkind_eqb (kind doc i) KElement) eqn:E1; [apply nkind_eqb_true in E1; contradiction|].
    destruct (nkind_eqb (kind doc i) KAttribute) eqn:E2; [apply nkind_eqb_true in E2; contradiction|].
    destruct (nkind_eqb (kind doc i) KPI) eqn:E3; [apply nkind_eqb_true in E3; contradiction|].
    destruct (nkind_eqb (kind doc i) KNamespace) eqn:E4; [apply nkind_eqb_true in E4; contradiction|].
    cbn [orb] in H. destruct (name_of doc i); try discriminate. reflexivity.
Qed.

(** ** parents: the dom's parent observation (owner element for an attribute) is the parent in the
    tree (C12 territory: parent / child coherence), decidable *)
Definition ParentsOk (doc : xdoc) : Prop :=
  forall i, valid doc i -> kind doc i <> KNamespace ->
    s_parent doc (Row i) = option_map Row (parent_node doc i).

Definition snode_eqb (a b : snode) : bool :=
  match a, b with
  | Row i, Row j => i =? j
  | NsOf e i, NsOf f j => (e =? f) && (i =? j)
  | _, _ => false
  end.

Definition parents_ok_b (doc : xdoc) : bool :=
  forallb (fun i =>
    nkind_eqb (kind doc i) KNamespace ||
    match s_parent doc (Row i), parent_node doc i with
    | None, None => true
    | Some (Row p), Some q => p =? q
    | _, _ => false
    end) (map N.of_nat (seq 0 (length doc))).

Theorem parents_ok_b_sound doc : parents_ok_b doc = true -> ParentsOk doc.
Proof.
  intros H i Vi Hk. unfold parents_ok_b in H. rewrite forallb_forall in H.
  assert (Hin : In i (map N.of_nat (seq 0 (length doc)))).
  { apply in_map_iff. exists (N.to_nat i). unfold valid in Vi. split; [lia|]. apply in_seq. lia. }
  specialize (H i Hin). cbn beta in H.
  destruct (nkind_eqb (kind doc i) KNamespace) eqn:E; [apply nkind_eqb_true in E; contradiction|].
  cbn [orb] in H.
  destruct (s_parent doc (Row i)) as [[p|e j]|]; destruct (parent_node doc i) as [q|]; try discriminate.
  - apply N.eqb_eq in H. subst. reflexivity.
  - reflexivity.
Qed.

(** ** one-step unfolding equations of the specification evaluator *)
Section SpecEqs.
Variable doc : xdoc.
Variable ns : bindings.

Lemma s_stepops_nil cur : s_stepops doc ns StepopNil cur = Some cur.
Proof. reflexivity. Qed.

Lemma s_stepops_cons op s t cur :
  s_stepops doc ns (StepopCons op s t) cur =
  match opt_flat_map (s_step doc ns s)
          (match op with
           | LpCurrent => cur
           | LpDescendantOrSelfNode => nodeset doc (flat_map (fun x => x :: s_descendants doc x) cur)
           end) with
  | Some r => s_stepops doc ns t (nodeset doc r)
  | None => None
  end.
Proof. reflexivity. Qed.

Lemma s_rel_path_eq s ops start :
  s_rel_path doc ns (ERelPath s ops) start =
  match opt_flat_map (s_step doc ns s) start with
  | Some r => s_stepops doc ns ops (nodeset doc r)
  | None => None
  end.
Proof. reflexivity. Qed.

Lemma s_step_current n : s_step doc ns StepCurrent n = Some [n].
Proof. reflexivity. Qed.

Lemma s_step_parent n :
  s_step doc ns StepParent n = Some (match s_parent doc n with Some p => [p] | None => [] end).
Proof. reflexivity. Qed.

Lemma s_step_test_nopred a t n :
  s_step doc ns (StepTest a t ExprNil) n =
  match opt_filter (s_test doc ns (axis_of a) t) (s_axis doc (axis_of a) n) with
  | Some cands => Some (if is_reverse (axis_of a) then rev cands else cands)
  | None => None
  end.
Proof. reflexivity. Qed.

Lemma s_path_rel l n pos size :
  s_path doc ns (PRel l) n pos size =
  match s_rel_path doc ns l [n] with Some r => Some (SNodes r) | None => None end.
Proof. reflexivity. Qed.

Lemma s_path_abs op l n pos size :
  s_path doc ns (PAbs op l) n pos size =
  match s_rel_path doc ns l (match op with
                             | LpCurrent => [Row doc_root]
                             | LpDescendantOrSelfNode => Row doc_root :: s_descendants doc (Row doc_root)
                             end) with
  | Some r => Some (SNodes r)
  | None => None
  end.
Proof. reflexivity. Qed.

End SpecEqs.

Section Paths.
Variable doc : xdoc.
Hypothesis Hinv : DocInv doc.
Hypothesis Hshape : SpecShape doc.
Hypothesis Hnames : NamesOk doc.
Hypothesis Hparents : ParentsOk doc.
Let Hwf := inv_wf doc Hinv.

Variable ns : list (option str * str).
Hypothesis no_default : ns_lookup ns None = None.

Lemma ns_lookup_bound p : ns_lookup ns (Some p) = bound ns p.
Proof.
  unfold ns_lookup, bound.
  assert (E : forall l : list (option str * str), find (fun b => ostr_eqb (fst b) (Some p)) l = find (fun b => ostr_eq (fst b) (Some p)) l).
  { induction l as [|b t IH]; cbn [find]; [reflexivity|].
    assert (Eb : ostr_eqb (fst b) (Some p) = ostr_eq (fst b) (Some p)) by (destruct (fst b); reflexivity).
    rewrite Eb, IH. reflexivity. }
  rewrite E. reflexivity.
Qed.

(** ** node tests *)
Definition test_rel (r : res bool) (o : option bool) : Prop :=
  match r, o with
  | Ok b, Some b' => b = b'
  | _, _ => False
  end.

(** every prefix used by the test is bound in the context *)
Definition test_bound (t : node_test) : Prop :=
  match t with
  | TestName (NameNamespace p) => ns_lookup ns (Some p) <> None
  | TestName (NameQName (QPrefixed p _)) => ns_lookup ns (Some p) <> None
  | _ => True
  end.

Lemma principal_agrees a i : good doc i ->
  is_principal_node_type doc a i = principal doc (axis_of a) (Row i).
Proof.
  intros [Vi Hns]. unfold is_principal_node_type, principal, axis_of, is_attribute_axis.
  destruct a as [ax|s].
  - destruct ax; try reflexivity.
    destruct (kind doc i); try reflexivity. contradiction.
  - fold s_at. destruct (str_eqb s s_at); reflexivity.
Qed.

Lemma element_or_attribute_of_principal a i :
  principal doc (axis_of a) (Row i) = true -> kind doc i = KElement \/ kind doc i = KAttribute.
Proof.
  unfold principal. destruct (axis_of a); intros H; try (left; apply nkind_eqb_true; exact H);
    try (right; apply nkind_eqb_true; exact H); discriminate.
Qed.

Theorem node_test_agrees a t i : good doc i -> test_bound t ->
  test_rel (eval_node_test doc ns a t i) (s_test doc ns (axis_of a) t (Row i)).
Proof.
  intros Gi Hb. pose proof (principal_agrees a i Gi) as Hp.
  destruct Gi as [Vi Hnotns].
  destruct t as [nt|ty|target]; cbn [eval_node_test s_test].
  - rewrite Hp. destruct (principal doc (axis_of a) (Row i)) eqn:Epr; cbn [negb andb].
    + pose proof (proj1 (Hnames i Vi) (element_or_attribute_of_principal a i Epr)) as Hn.
      destruct nt as [|p|q]; cbn [test_rel]; [reflexivity| |].
      * cbn [test_bound] in Hb. rewrite <- ns_lookup_bound.
        destruct (ns_lookup ns (Some p)) as [ua|]; [|contradiction].
        destruct (name_of doc i) as [| |l pf ub]; try contradiction. rewrite Hn. cbn [test_rel].
        destruct ub as [v|]; cbn [ostr_eqb]; reflexivity.
      * destruct (name_of doc i) as [| |la pf ua]; try contradiction. rewrite Hn.
        destruct q as [p l|l]; cbn [expanded_name bind].
        -- cbn [test_bound] in Hb. rewrite <- ns_lookup_bound.
           destruct (ns_lookup ns (Some p)) as [u|]; [|contradiction]. cbn [bind test_rel].
           destruct ua as [v|]; cbn [ostr_eqb].
           ++ rewrite (str_eqb_sym l la), (str_eqb_sym u v). reflexivity.
           ++ rewrite andb_false_r. reflexivity.
        -- rewrite no_default. cbn [test_rel]. destruct ua as [v|]; cbn [ostr_eqb].
           ++ rewrite andb_false_r. reflexivity.
           ++ rewrite andb_true_r. apply str_eqb_sym.
    + destruct nt as [|p|q]; cbn [test_rel]; try reflexivity.
      * cbn [test_bound] in Hb. rewrite <- ns_lookup_bound.
        destruct (ns_lookup ns (Some p)); [reflexivity|contradiction].
      * destruct q as [p l|l]; [|reflexivity].
        cbn [test_bound] in Hb. rewrite <- ns_lookup_bound.
        destruct (ns_lookup ns (Some p)); [reflexivity|contradiction].
  - destruct ty; cbn [test_rel]; reflexivity.
  - cbn [test_rel]. unfold name_of, row_name.
    destruct (nkind_eqb (kind doc i) KPI); [|reflexivity]. cbn [andb].
    destruct (n_name (getd doc i)); reflexivity.
Qed.


(** ** axes of the supported steps *)
Definition fwd_axis (a : axis_spec) : Prop :=
  match axis_of a with
  | AxChild | AxAttribute | AxCurrent | AxDescendant | AxDescendantOrSelf
  | AxParent | AxAncestor | AxAncestorOrSelf => True
  | _ => False
  end.

Definition same_set (l1 l2 : list node) : Prop := forall x, In x l1 <-> In x l2.

Lemma axis_of_abbreviated s :
  axis_of (AxisAbbreviated s) = if str_eqb s s_at then AxAttribute else AxChild.
Proof. reflexivity. Qed.

Lemma attribute_axis_agrees i : valid doc i ->
  s_axis doc AxAttribute (Row i) = map Row (attributes doc i).
Proof.
  intros Vi. cbn [s_axis]. destruct (nkind_eqb (kind doc i) KElement) eqn:E; [reflexivity|].
  rewrite (sh_attrs doc Hshape i Vi); [reflexivity|]. intros Hk. rewrite Hk in E. discriminate.
Qed.

(** the parent chain *)
Lemma s_parent_agrees i : good doc i -> s_parent doc (Row i) = option_map Row (xp_parent doc i).
Proof. intros [Vi Hk]. exact (Hparents i Vi Hk). Qed.

Lemma ancestors_agree : forall fuel i l, good doc i ->
  ancestor_fuel doc fuel i = Ok l -> ancestors_fuel doc fuel (Row i) = map Row l.
Proof.
  induction fuel as [|f IH]; intros i l Gi E; cbn [ancestor_fuel ancestors_fuel] in *; [discriminate|].
  rewrite (s_parent_agrees i Gi). destruct (xp_parent doc i) as [p|] eqn:Ep; cbn [option_map].
  - destruct (ancestor_fuel doc f p) as [lp| | |] eqn:Ef; cbn [bind] in E; try discriminate.
    inversion E; subst. cbn [map]. f_equal. apply IH; [|exact Ef].
    apply (good_parent doc Hinv i p Gi). exact Ep.
  - inversion E. reflexivity.
Qed.

Lemma nodeset_rows_set l : exists l', nodeset doc (map Row l) = map Row l' /\ same_set l' l.
Proof.
  exists (n_nodeset l). split; [apply nodeset_rows|]. intros x. apply n_nodeset_in.
Qed.

Lemma fwd_axis_agrees a i : good doc i -> fwd_axis a ->
  exists l l', axis_nodes doc a i = Ok l /\ Forall (good doc) l /\
               s_axis doc (axis_of a) (Row i) = map Row l' /\ same_set l' l.
Proof.
  intros Gi Hf. pose proof (good_valid doc i Gi) as Vi.
  assert (Hgood : forall l, axis_nodes doc a i = Ok l -> Forall (good doc) l).
  { intros l El. assert (Hns : not_ns_axis a = true).
    { destruct a as [[]|]; try reflexivity. exfalso. exact Hf. }
    destruct (good_axis doc Hinv a i Hns Gi) as [l' [El' Hl']]. rewrite El in El'. inversion El'. subst. exact Hl'. }
  assert (Hsame : forall l, same_set l l) by (intros l x; reflexivity).
  destruct a as [ax|s].
  - destruct ax; try (exfalso; exact Hf); cbn [axis_of].
    + (* ancestor *)
      destruct (ancestor_ok doc Hwf (good doc) (good_valid doc) (good_parent doc Hinv) i Gi) as [l [El _]].
      destruct (nodeset_rows_set l) as [l' [E' Hs']].
      exists l, l'. split; [exact El|]. split; [apply Hgood; exact El|]. split; [|exact Hs'].
      cbn [s_axis]. unfold ancestors, fuel0. unfold ancestor, nav_fuel in El.
      rewrite (ancestors_agree _ i l Gi El). exact E'.
    + (* ancestor-or-self *)
      destruct (ancestor_ok doc Hwf (good doc) (good_valid doc) (good_parent doc Hinv) i Gi) as [l [El _]].
      destruct (nodeset_rows_set (i :: l)) as [l' [E' Hs']].
      exists (i :: l), l'. split; [cbn [axis_nodes]; unfold ancestor_and_self; rewrite El; reflexivity|].
      split; [apply Hgood; cbn [axis_nodes]; unfold ancestor_and_self; rewrite El; reflexivity|]. split; [|exact Hs'].
      cbn [s_axis]. unfold ancestors, fuel0. unfold ancestor, nav_fuel in El.
      rewrite (ancestors_agree _ i l Gi El). exact E'.
    + (* attribute *) exists (attributes doc i), (attributes doc i). split; [reflexivity|].
      split; [apply Hgood; reflexivity|]. split; [apply attribute_axis_agrees; exact Vi|apply Hsame].
    + (* child *) destruct (axis_child_agrees doc Hshape i Vi) as [E1 E2].
      eexists _, _. split; [exact E1|]. split; [apply Hgood; exact E1|]. split; [exact E2|apply Hsame].
    + destruct (axis_descendant_agrees doc Hinv Hshape i Vi) as [E1 E2].
      eexists _, _. split; [exact E1|]. split; [apply Hgood; exact E1|]. split; [exact E2|apply Hsame].
    + destruct (axis_descendant_or_self_agrees doc Hinv Hshape i Vi) as [E1 E2].
      eexists _, _. split; [exact E1|]. split; [apply Hgood; exact E1|]. split; [exact E2|apply Hsame].
    + (* parent *) exists (opt_list (xp_parent doc i)), (opt_list (xp_parent doc i)). split; [reflexivity|].
      split; [apply Hgood; reflexivity|]. split; [|apply Hsame].
      cbn [s_axis]. rewrite (s_parent_agrees i Gi). destruct (xp_parent doc i); reflexivity.
    + exists [i], [i]. split; [reflexivity|]. split; [apply Hgood; reflexivity|]. split; [reflexivity|apply Hsame].
  - rewrite axis_of_abbreviated. cbn [axis_nodes]. destruct (str_eqb s s_at) eqn:Es.
    + exists (attributes doc i), (attributes doc i). split; [reflexivity|]. split; [|split; [apply attribute_axis_agrees; exact Vi|apply Hsame]].
      apply Hgood. cbn [axis_nodes]. rewrite Es. reflexivity.
    + destruct (axis_child_agrees doc Hshape i Vi) as [E1 E2]. cbn [axis_nodes] in E1.
      eexists _, _. split; [exact E1|]. split; [|split; [exact E2|apply Hsame]].
      apply Hgood. cbn [axis_nodes]. rewrite Es. exact E1.
Qed.

(** filtering by the node test *)
Lemma filter_agrees a t : test_bound t -> forall l, Forall (good doc) l ->
  exists r, filter_res (eval_node_test doc ns a t) l = Ok r /\
            opt_filter (s_test doc ns (axis_of a) t) (map Row l) = Some (map Row r) /\
            (forall x, In x r <-> In x l /\ eval_node_test doc ns a t x = Ok true).
Proof.
  intros Hb l. induction l as [|x t' IH]; intros Hg; cbn [filter_res opt_filter map].
  - exists []. split; [reflexivity|]. split; [reflexivity|]. intros y. split; [intros []|intros [[] _]].
  - inversion Hg as [|x' t'' Gx Gt]; subst. destruct (IH Gt) as [r [Er [Eo Hr]]].
    pose proof (node_test_agrees a t x Gx Hb) as Hrel. unfold test_rel in Hrel.
    destruct (eval_node_test doc ns a t x) as [b| | |] eqn:Et; try contradiction.
    destruct (s_test doc ns (axis_of a) t (Row x)) as [b'|]; try contradiction. subst b'.
    rewrite Er, Eo. cbn [bind]. exists (if b then x :: r else r). split; [reflexivity|]. split; [destruct b; reflexivity|].
    intros y. destruct b; cbn [In]; rewrite Hr; split.
    + intros [->|[H1 H2]]; [split; [left; reflexivity|exact Et]|split; [right; exact H1|exact H2]].
    + intros [[->|H1] H2]; [left; reflexivity|right; split; assumption].
    + intros [H1 H2]. split; [right; exact H1|exact H2].
    + intros [[->|H1] H2]; [rewrite Et in H2; discriminate|split; assumption].
Qed.

(** ** steps without predicates *)
Definition simple_step (s : step) : Prop :=
  match s with
  | StepCurrent => True
  | StepParent => True
  | StepTest a t preds => preds = ExprNil /\ fwd_axis a /\ test_bound t
  end.

Lemma axis_sort_same_set a l : same_set (axis_sort doc a l) l.
Proof.
  intros x. unfold axis_sort. destruct (is_reverse_axis a).
  - rewrite <- in_rev. apply sort_in.
  - apply sort_in.
Qed.

Theorem step_agrees s n c : c_ns c = ns -> simple_step s -> good doc n ->
  exists lm l', eval_step doc s n c = (Ok lm, c) /\ Forall (good doc) lm /\
                s_step doc ns s (Row n) = Some (map Row l') /\ same_set l' lm.
Proof.
  intros Hns Hs Gn. destruct s as [a t preds| |]; cbn [simple_step] in Hs.
  - destruct Hs as [-> [Hf Hb]]. rewrite eval_step_test. rewrite Hns.
    destruct (fwd_axis_agrees a n Gn Hf) as [l [l' [El [Hl [Es Hsame]]]]].
    assert (Hl' : Forall (good doc) l').
    { apply Forall_forall. intros x Hx. rewrite Forall_forall in Hl. apply Hl. apply Hsame. exact Hx. }
    destruct (filter_agrees a t Hb l Hl) as [r [Er [_ Hr]]].
    destruct (filter_agrees a t Hb l' Hl') as [r' [_ [Eo' Hr']]].
    rewrite El. cbn [bind]. rewrite Er. rewrite eval_predicates_nil.
    exists (axis_sort doc a r), (if is_reverse (axis_of a) then rev r' else r'). split; [reflexivity|]. split.
    + apply Forall_forall. intros x Hx. apply (axis_sort_same_set a r) in Hx.
      rewrite Forall_forall in Hl. apply Hl. apply Hr. exact Hx.
    + split.
      * rewrite s_step_test_nopred, Es, Eo'. destruct (is_reverse (axis_of a)); [rewrite map_rev|]; reflexivity.
      * intros x. rewrite (axis_sort_same_set a r x), Hr.
        assert (Hx : In x (if is_reverse (axis_of a) then rev r' else r') <-> In x r').
        { destruct (is_reverse (axis_of a)); [symmetry; apply in_rev|reflexivity]. }
        rewrite Hx, Hr'. split; intros [H1 H2]; (split; [apply Hsame; exact H1|exact H2]).
  - rewrite eval_step_current. exists [n], [n]. split; [reflexivity|]. split; [constructor; [exact Gn|constructor]|].
    split; [apply s_step_current|intros x; tauto].
  - rewrite eval_step_parent. exists (opt_list (xp_parent doc n)), (opt_list (xp_parent doc n)).
    split; [reflexivity|]. split.
    + destruct (xp_parent doc n) as [p|] eqn:Ep; cbn [opt_list]; [|constructor].
      constructor; [apply (good_parent doc Hinv n p Gn); exact Ep|constructor].
    + split; [|intros x; tauto]. rewrite s_step_parent, (s_parent_agrees n Gn).
      destruct (xp_parent doc n); reflexivity.
Qed.

(** ** set-level reading of steps and paths *)

(** [x] is selected by step [s] from context node [n] (in the model; context [c]) *)
Definition step_rel (c : ctx) (s : step) (n x : node) : Prop :=
  exists lm, eval_step doc s n c = (Ok lm, c) /\ In x lm.

Lemma model_step_loop s c : c_ns c = ns -> simple_step s -> forall l, Forall (good doc) l ->
  exists r, flat_map_m (eval_step doc s) l c = (Ok r, c) /\ Forall (good doc) r /\
            (forall x, In x r <-> exists n, In n l /\ step_rel c s n x).
Proof.
  intros Hns Hs. induction l as [|n t IH]; intros Hl; cbn [flat_map_m].
  - exists []. split; [reflexivity|]. split; [constructor|]. intros x. split; [intros []|intros [n [[] _]]].
  - inversion Hl as [|n' t' Gn Gt]; subst. destruct (IH Gt) as [r [Er [Gr Hr]]].
    destruct (step_agrees s n c Hns Hs Gn) as [ln [_ [En [Gln _]]]].
    unfold bindM. rewrite En, Er. unfold ret. exists (ln ++ r). split; [reflexivity|].
    split; [apply Forall_app; split; assumption|]. intros x. rewrite in_app_iff, Hr. split.
    + intros [Hx|[m [Hm1 Hm2]]].
      * exists n. split; [left; reflexivity|]. exists ln. split; assumption.
      * exists m. split; [right; exact Hm1|exact Hm2].
    + intros [m [[->|Hm1] Hm2]].
      * left. destruct Hm2 as [lmm [E Hx]]. rewrite En in E. inversion E. subst. exact Hx.
      * right. exists m. split; assumption.
Qed.

Lemma spec_step_loop s c : c_ns c = ns -> simple_step s -> forall l, Forall (good doc) l ->
  exists r, opt_flat_map (s_step doc ns s) (map Row l) = Some (map Row r) /\
            (forall x, In x r <-> exists n, In n l /\ step_rel c s n x).
Proof.
  intros Hns Hs. induction l as [|n t IH]; intros Hl; cbn [opt_flat_map map].
  - exists []. split; [reflexivity|]. intros x. split; [intros []|intros [n [[] _]]].
  - inversion Hl as [|n' t' Gn Gt]; subst. destruct (IH Gt) as [r [Er Hr]].
    destruct (step_agrees s n c Hns Hs Gn) as [ln [ls [En [_ [Es Hss]]]]].
    rewrite Es, Er. rewrite <- map_app. exists (ls ++ r). split; [reflexivity|].
    intros x. rewrite in_app_iff, Hr. split.
    + intros [Hx|[m [Hm1 Hm2]]].
      * exists n. split; [left; reflexivity|]. exists ln. split; [exact En|apply Hss; exact Hx].
      * exists m. split; [right; exact Hm1|exact Hm2].
    + intros [m [[->|Hm1] Hm2]].
      * left. destruct Hm2 as [lmm [E Hx]]. rewrite En in E. inversion E. subst. apply Hss. exact Hx.
      * right. exists m. split; assumption.
Qed.

(** [/] keeps the current set, [//] replaces it by the nodes and their descendants *)
Definition from_rel (op : lp_op) (X : node -> Prop) (z : node) : Prop :=
  match op with
  | LpCurrent => X z
  | LpDescendantOrSelfNode => exists w, X w /\ (z = w \/ In z (desc doc w))
  end.

Fixpoint reach (c : ctx) (ops : stepop_list) (X : node -> Prop) (x : node) : Prop :=
  match ops with
  | StepopNil => X x
  | StepopCons op s t => reach c t (fun y => exists z, from_rel op X z /\ step_rel c s z y) x
  end.

Lemma from_rel_ext op (X Y : node -> Prop) : (forall z, X z <-> Y z) -> forall z, from_rel op X z <-> from_rel op Y z.
Proof.
  intros H z. destruct op; cbn [from_rel]; [apply H|].
  split; intros [w [Hw Hz]]; exists w; (split; [apply H; exact Hw|exact Hz]).
Qed.

Lemma reach_ext c ops : forall (X Y : node -> Prop), (forall z, X z <-> Y z) -> forall x, reach c ops X x <-> reach c ops Y x.
Proof.
  induction ops as [|op s t IH]; intros X Y H x; cbn [reach]; [apply H|].
  apply IH. intros y. split; intros [z [Hz Hy]]; exists z; (split; [apply (from_rel_ext op X Y H); exact Hz|exact Hy]).
Qed.

Lemma from_rel_union op {A} (S : A -> Prop) (P : A -> node -> Prop) z :
  from_rel op (fun y => exists a, S a /\ P a y) z <-> exists a, S a /\ from_rel op (P a) z.
Proof.
  destruct op; cbn [from_rel]; [tauto|]. split.
  - intros [w [[a [Sa Pa]] Hz]]. exists a. split; [exact Sa|]. exists w. split; assumption.
  - intros [a [Sa [w [Pa Hz]]]]. exists w. split; [|exact Hz]. exists a. split; assumption.
Qed.

(** reaching from a union of sets is the union of the reaches *)
Lemma reach_union c ops : forall {A} (S : A -> Prop) (P : A -> node -> Prop) x,
  reach c ops (fun y => exists a, S a /\ P a y) x <-> exists a, S a /\ reach c ops (P a) x.
Proof.
  induction ops as [|op s t IH]; intros A S P x; cbn [reach]; [tauto|].
  rewrite <- (IH A S (fun a y => exists z, from_rel op (P a) z /\ step_rel c s z y) x).
  apply reach_ext. intros y. split.
  - intros [z [Hz Hy]]. apply from_rel_union in Hz. destruct Hz as [a [Sa Hz]].
    exists a. split; [exact Sa|]. exists z. split; assumption.
  - intros [a [Sa [z [Hz Hy]]]]. exists z. split; [|exact Hy]. apply from_rel_union. exists a. split; assumption.
Qed.

(** ** [//]: the nodes and their descendants *)
Lemma desc_good i : good doc i -> Forall (good doc) (desc doc i).
Proof.
  intros Gi. destruct (axis_descendant_agrees doc Hinv Hshape i (good_valid doc i Gi)) as [E _].
  destruct (good_axis doc Hinv (AxisName AxDescendant) i eq_refl Gi) as [l [El Hl]].
  rewrite E in El. inversion El. subst. exact Hl.
Qed.

Lemma model_dslash l : Forall (good doc) l ->
  exists r, flat_map_res (descendant_and_self doc) l = Ok r /\ Forall (good doc) r /\
            (forall z, In z r <-> from_rel LpDescendantOrSelfNode (fun y => In y l) z).
Proof.
  induction l as [|i t IH]; intros Hl; cbn [flat_map_res].
  - exists []. split; [reflexivity|]. split; [constructor|]. intros z. cbn [from_rel]. split; [intros []|intros [w [[] _]]].
  - inversion Hl as [|i' t' Gi Gt]; subst. destruct (IH Gt) as [r [Er [Gr Hr]]].
    destruct (axis_descendant_or_self_agrees doc Hinv Hshape i (good_valid doc i Gi)) as [E _].
    cbn [axis_nodes] in E. rewrite E, Er. cbn [bind]. exists ((i :: desc doc i) ++ r). split; [reflexivity|].
    split; [apply Forall_app; split; [constructor; [exact Gi|apply desc_good; exact Gi]|exact Gr]|].
    intros z. rewrite in_app_iff, Hr. cbn [from_rel In]. split.
    + intros [[->|Hz]|[w [Hw Hz]]].
      * exists z. split; [left; reflexivity|left; reflexivity].
      * exists i. split; [left; reflexivity|right; exact Hz].
      * exists w. split; [right; exact Hw|exact Hz].
    + intros [w [[->|Hw] Hz]].
      * left. destruct Hz as [->|Hz]; [left; reflexivity|right; exact Hz].
      * right. exists w. split; assumption.
Qed.

Lemma nodeset_rows_in l x : In x (n_nodeset l) <-> In x l.
Proof. apply n_nodeset_in. Qed.

Lemma spec_dslash l :
  exists r, nodeset doc (flat_map (fun x => x :: s_descendants doc x) (map Row l)) = map Row r /\
            (forall z, In z r <-> from_rel LpDescendantOrSelfNode (fun y => In y l) z).
Proof.
  assert (E : flat_map (fun x => x :: s_descendants doc x) (map Row l) =
              map Row (flat_map (fun i => i :: desc doc i) l)).
  { induction l as [|i t IH]; cbn [flat_map map]; [reflexivity|]. rewrite IH, map_app. reflexivity. }
  rewrite E, (nodeset_rows doc). exists (n_nodeset (flat_map (fun i => i :: desc doc i) l)). split; [reflexivity|].
  intros z. rewrite nodeset_rows_in, in_flat_map. cbn [from_rel In]. split.
  - intros [w [Hw [E0|Hz]]]; exists w; (split; [exact Hw|]); [left; symmetry; exact E0|right; exact Hz].
  - intros [w [Hw [E0|Hz]]]; exists w; (split; [exact Hw|]); [left; symmetry; exact E0|right; exact Hz].
Qed.

(** ** the operations of a relative path *)
Fixpoint simple_stepops (ops : stepop_list) : Prop :=
  match ops with
  | StepopNil => True
  | StepopCons _ s t => simple_step s /\ simple_stepops t
  end.

Definition simple_rel_path (l : rel_path) : Prop :=
  match l with ERelPath s ops => simple_step s /\ simple_stepops ops end.

Lemma model_stepops c : c_ns c = ns -> forall ops, simple_stepops ops -> forall l, Forall (good doc) l ->
  exists r, eval_stepops doc ops l c = (Ok r, c) /\ Forall (good doc) r /\
            (forall x, In x r <-> reach c ops (fun y => In y l) x).
Proof.
  intros Hns ops. induction ops as [|op s t IH]; intros Hs l Hl.
  - rewrite eval_stepops_nil. exists l. split; [reflexivity|]. split; [exact Hl|]. intros x. reflexivity.
  - destruct Hs as [Hs Ht]. rewrite eval_stepops_cons. unfold bindM, lift.
    assert (Hfrom : exists from, match op with
                                 | LpCurrent => Ok l
                                 | LpDescendantOrSelfNode => flat_map_res (descendant_and_self doc) l
                                 end = Ok from /\ Forall (good doc) from /\
                                 (forall z, In z from <-> from_rel op (fun y => In y l) z)).
    { destruct op; [exists l; split; [reflexivity|split; [exact Hl|intros z; reflexivity]]|apply model_dslash; exact Hl]. }
    destruct Hfrom as [from [-> [Gfrom Hfrom]]].
    destruct (model_step_loop s c Hns Hs from Gfrom) as [coll [-> [Gcoll Hcoll]]].
    assert (Hdd : forall y, In y (step_dedup doc coll) <-> In y coll)
      by (intros y; apply step_dedup_in; apply (good_key_inj doc Hinv); exact Gcoll).
    assert (Gdd : Forall (good doc) (step_dedup doc coll)).
    { apply Forall_forall. intros y Hy. rewrite Forall_forall in Gcoll. apply Gcoll. apply Hdd. exact Hy. }
    destruct (IH Ht (step_dedup doc coll) Gdd) as [r [Er [Gr Hr]]]. exists r. split; [exact Er|]. split; [exact Gr|].
    intros x. rewrite Hr. cbn [reach]. apply reach_ext. intros y. rewrite Hdd, Hcoll.
    split; intros [z [Hz Hy]]; exists z; (split; [apply Hfrom; exact Hz|exact Hy]).
Qed.

Lemma spec_stepops c : c_ns c = ns -> forall ops, simple_stepops ops -> forall l, Forall (good doc) l ->
  exists r, s_stepops doc ns ops (map Row l) = Some (map Row r) /\ Forall (good doc) r /\
            (forall x, In x r <-> reach c ops (fun y => In y l) x).
Proof.
  intros Hns ops. induction ops as [|op s t IH]; intros Hs l Hl.
  - exists l. split; [apply s_stepops_nil|]. split; [exact Hl|]. intros x. reflexivity.
  - destruct Hs as [Hs Ht]. rewrite s_stepops_cons.
    assert (Hfrom : exists from, match op with
                                 | LpCurrent => map Row l
                                 | LpDescendantOrSelfNode =>
                                     nodeset doc (flat_map (fun x => x :: s_descendants doc x) (map Row l))
                                 end = map Row from /\ Forall (good doc) from /\
                                 (forall z, In z from <-> from_rel op (fun y => In y l) z)).
    { destruct op; [exists l; split; [reflexivity|split; [exact Hl|intros z; reflexivity]]|].
      destruct (spec_dslash l) as [from [E Hf]]. exists from. split; [exact E|]. split; [|exact Hf].
      destruct (model_dslash l Hl) as [rm [_ [Grm Hrm]]].
      apply Forall_forall. intros z Hz. rewrite Forall_forall in Grm. apply Grm. apply Hrm. apply Hf. exact Hz. }
    destruct Hfrom as [from [-> [Gfrom Hfrom]]].
    destruct (spec_step_loop s c Hns Hs from Gfrom) as [coll [-> Hcoll]].
    rewrite (nodeset_rows doc).
    assert (Gcoll : Forall (good doc) (n_nodeset coll)).
    { destruct (model_step_loop s c Hns Hs from Gfrom) as [cm [_ [Gcm Hcm]]].
      apply Forall_forall. intros z Hz. rewrite Forall_forall in Gcm. apply Gcm. apply Hcm. apply Hcoll.
      apply nodeset_rows_in. exact Hz. }
    destruct (IH Ht (n_nodeset coll) Gcoll) as [r [Er [Gr Hr]]]. exists r. split; [exact Er|]. split; [exact Gr|].
    intros x. rewrite Hr. cbn [reach]. apply reach_ext. intros y. rewrite nodeset_rows_in, Hcoll.
    split; intros [z [Hz Hy]]; exists z; (split; [apply Hfrom; exact Hz|exact Hy]).
Qed.

(** ** relative location paths from a set of start nodes *)
Lemma flat_map_m_char (f : node -> M (list node)) (P : node -> node -> Prop) c :
  forall l, (forall n, In n l -> exists rn, f n c = (Ok rn, c) /\ Forall (good doc) rn /\ (forall x, In x rn <-> P n x)) ->
  exists r, flat_map_m f l c = (Ok r, c) /\ Forall (good doc) r /\ (forall x, In x r <-> exists n, In n l /\ P n x).
Proof.
  induction l as [|n t IH]; intros H; cbn [flat_map_m].
  - exists []. split; [reflexivity|]. split; [constructor|]. intros x. split; [intros []|intros [n [[] _]]].
  - destruct (H n (or_introl eq_refl)) as [rn [En [Gn Hn]]].
    destruct IH as [r [Er [Gr Hr]]]; [intros m Hm; apply H; right; exact Hm|].
    unfold bindM. rewrite En, Er. unfold ret. exists (rn ++ r). split; [reflexivity|].
    split; [apply Forall_app; split; assumption|].
    intros x. rewrite in_app_iff, Hn, Hr. split.
    + intros [Hx|[m [Hm Hx]]]; [exists n; split; [left; reflexivity|exact Hx]|exists m; split; [right; exact Hm|exact Hx]].
    + intros [m [[->|Hm] Hx]]; [left; exact Hx|right; exists m; split; assumption].
Qed.

Lemma model_rel_path_one c s ops n : c_ns c = ns -> simple_step s -> simple_stepops ops -> good doc n ->
  exists rn, eval_rel_path doc (ERelPath s ops) n c = (Ok rn, c) /\ Forall (good doc) rn /\
             (forall x, In x rn <-> reach c ops (step_rel c s n) x).
Proof.
  intros Hns Hs Hops Gn. rewrite eval_rel_path_eq. unfold bindM.
  destruct (step_agrees s n c Hns Hs Gn) as [ln [_ [En [Gln _]]]]. rewrite En.
  destruct (model_stepops c Hns ops Hops ln Gln) as [rn [Ern [Grn Hrn]]].
  exists rn. split; [exact Ern|]. split; [exact Grn|]. intros x. rewrite Hrn. apply reach_ext.
  intros y. split; [intros Hy; exists ln; split; assumption|intros [lm [E Hy]]; rewrite En in E; inversion E; subst; exact Hy].
Qed.

Lemma model_rel_path c l : c_ns c = ns -> simple_rel_path l -> forall start, Forall (good doc) start ->
  exists r, flat_map_m (eval_rel_path doc l) start c = (Ok r, c) /\ Forall (good doc) r /\
            (forall x, In x r <-> exists n, In n start /\
                       match l with ERelPath s ops => reach c ops (step_rel c s n) x end).
Proof.
  intros Hns Hl start Hg. destruct l as [s ops]. destruct Hl as [Hs Hops].
  apply (flat_map_m_char (eval_rel_path doc (ERelPath s ops)) (fun n x => reach c ops (step_rel c s n) x)).
  intros n Hn. rewrite Forall_forall in Hg. apply model_rel_path_one; auto.
Qed.

Lemma spec_rel_path c l : c_ns c = ns -> simple_rel_path l -> forall start, Forall (good doc) start ->
  exists r, s_rel_path doc ns l (map Row start) = Some (map Row r) /\
            (forall x, In x r <-> exists n, In n start /\
                       match l with ERelPath s ops => reach c ops (step_rel c s n) x end).
Proof.
  intros Hns Hl start Hg. destruct l as [s ops]. destruct Hl as [Hs Hops]. rewrite s_rel_path_eq.
  destruct (spec_step_loop s c Hns Hs start Hg) as [coll [-> Hcoll]].
  rewrite (nodeset_rows doc).
  assert (Gcoll : Forall (good doc) (n_nodeset coll)).
  { destruct (model_step_loop s c Hns Hs start Hg) as [cm [_ [Gcm Hcm]]].
    apply Forall_forall. intros z Hz. rewrite Forall_forall in Gcm. apply Gcm. apply Hcm. apply Hcoll.
    apply nodeset_rows_in. exact Hz. }
  destruct (spec_stepops c Hns ops Hops (n_nodeset coll) Gcoll) as [r [Er [_ Hr]]].
  exists r. split; [exact Er|]. intros x. rewrite Hr.
  rewrite <- (reach_union c ops (fun n => In n start) (fun n => step_rel c s n) x).
  apply reach_ext. intros y. rewrite nodeset_rows_in. apply Hcoll.
Qed.

(** ** the value of a whole query that is one predicate-free location path *)
Definition simple_path (p : path_expr) : Prop :=
  match p with
  | PRel l => simple_rel_path l
  | PAbs _ l => simple_rel_path l
  | _ => False
  end.

(** [p] as a complete expression, as the parser builds it *)
Definition path_query (p : path_expr) : expr := expr_of_union (union1 p).

Lemma s_wrapper p n pos size v :
  s_path doc ns p n pos size = Some v -> s_or doc ns (path_query p) n pos size = Some v.
Proof.
  intros E. unfold path_query, expr_of_union, union1. simpl. rewrite E. reflexivity.
Qed.

Lemma nodeset_same_set l1 l2 : same_set l1 l2 -> nodeset doc (map Row l1) = nodeset doc (map Row l2).
Proof.
  intros H. rewrite !(nodeset_rows doc). f_equal.
  apply lt_sorted_unique; try apply n_nodeset_sorted.
  intros x. rewrite !n_nodeset_in. apply H.
Qed.

Lemma root_of_root : good doc doc_root -> root_of doc doc_root = [doc_root].
Proof.
  intros [_ Hk]. unfold root_of, owner_document.
  destruct (kind doc doc_root); try reflexivity. contradiction.
Qed.

Theorem path_query_agrees (p : path_expr) (c : ctx) (pos size : N) :
  c_ns c = ns -> simple_path p ->
  exists lm, query doc (path_query p) c = (Ok (XNodes lm), c) /\
             spec_query doc ns pos size (path_query p) = Some (SNodes (map Row lm)).
Proof.
  intros Hns Hp.
  pose proof (good_root doc Hinv) as Groot.
  assert (Hstart : forall start, Forall (good doc) start ->
    forall l, simple_rel_path l ->
    exists coll r, flat_map_m (eval_rel_path doc l) start c = (Ok coll, c) /\ Forall (good doc) coll /\
                   s_rel_path doc ns l (map Row start) = Some (map Row r) /\ same_set r coll).
  { intros start Hg l Hl.
    destruct (model_rel_path c l Hns Hl start Hg) as [coll [Ec [Gc Hc]]].
    destruct (spec_rel_path c l Hns Hl start Hg) as [r [Er Hr]].
    exists coll, r. split; [exact Ec|]. split; [exact Gc|]. split; [exact Er|].
    intros x. rewrite Hr, Hc. reflexivity. }
  assert (Hfinish : forall coll r, Forall (good doc) coll -> same_set r coll ->
            map Row (union_finish doc (sort_by_key doc coll)) = nodeset doc (map Row r)).
  { intros coll r Gc Hs.
    assert (Gs : Forall (good doc) (sort_by_key doc coll)).
    { apply Forall_forall. intros x Hx. rewrite Forall_forall in Gc. apply Gc. apply (proj1 (sort_in doc x coll)). exact Hx. }
    rewrite (canon_agrees doc Hinv _ Gs). apply nodeset_same_set.
    intros x. rewrite (sort_in doc x coll). symmetry. apply Hs. }
  unfold query, eval_expr.
  replace (eval_or_expr doc (path_query p) doc_root c) with (eval_union_expr doc (union1 p) doc_root c)
    by (symmetry; apply eval_expr_of_union).
  unfold union1 at 1. rewrite eval_union_expr_one.
  destruct p as [|f|l|op l|f op l]; cbn [simple_path] in Hp; try contradiction.
  - (* PRel *)
    destruct (Hstart [doc_root] (Forall_cons _ Groot (Forall_nil _)) l Hp) as [coll [r [Ec [Gc [Er Hs]]]]].
    rewrite eval_path_expr_rel. unfold bindM. rewrite Ec. unfold ret.
    eexists. split; [reflexivity|].
    unfold spec_query. rewrite (s_wrapper (PRel l) (Row doc_root) pos size (SNodes (map Row r))).
    + f_equal. f_equal. symmetry. apply Hfinish; assumption.
    + rewrite s_path_rel. cbn [map] in Er. rewrite Er. reflexivity.
  - (* PAbs *)
    rewrite eval_path_expr_abs. unfold bindM, lift. rewrite (root_of_root Groot).
    destruct op.
    + destruct (Hstart [doc_root] (Forall_cons _ Groot (Forall_nil _)) l Hp) as [coll [r [Ec [Gc [Er Hs]]]]].
      rewrite Ec. unfold ret. eexists. split; [reflexivity|].
      unfold spec_query. rewrite (s_wrapper (PAbs LpCurrent l) (Row doc_root) pos size (SNodes (map Row r))).
      * f_equal. f_equal. symmetry. apply Hfinish; assumption.
      * rewrite s_path_abs. cbn [map] in Er. rewrite Er. reflexivity.
    + destruct (axis_descendant_or_self_agrees doc Hinv Hshape doc_root (good_valid doc _ Groot)) as [Ed _].
      cbn [axis_nodes] in Ed. cbn [flat_map_res]. rewrite Ed. cbn [bind]. rewrite app_nil_r.
      assert (Gstart : Forall (good doc) (doc_root :: desc doc doc_root)).
      { constructor; [exact Groot|apply desc_good; exact Groot]. }
      destruct (Hstart _ Gstart l Hp) as [coll [r [Ec [Gc [Er Hs]]]]].
      rewrite Ec. unfold ret. eexists. split; [reflexivity|].
      unfold spec_query. rewrite (s_wrapper (PAbs LpDescendantOrSelfNode l) (Row doc_root) pos size (SNodes (map Row r))).
      * f_equal. f_equal. symmetry. apply Hfinish; assumption.
      * rewrite s_path_abs. cbn [map s_descendants] in Er |- *. rewrite Er. reflexivity.
Qed.

End Paths.
