(** C09 -- core functions and operators compute the XPath 1.0 scalar semantics.
    This file only names the theorems; proofs live in Proofs/XPathFuncs*.v. *)
From Coq Require Import List NArith Bool.
From XmlRs Require Import Base.CPred Base.Float64 Spec.XPathCore Model.XPathFuncs Gen.FuncTableGen
  Proofs.XPathFuncsTable.
Open Scope N_scope.

Theorem table_arity : forall f, lookup_arity f FuncTableGen.table = lookup_arity f arity_table.
Proof. exact table_arity_lookup. Qed.

Print Assumptions table_arity.
