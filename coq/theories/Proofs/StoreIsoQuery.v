(** * C14 with C15: a query on the edited document and on a store of the re-parsed document

    The edited document [s1] of a reachable world is printed; the parser accepts the text and
    returns the document [doc_of_store s1] (C15, C04).  Let [s2] be ANY store with the invariants
    that denotes that document ([doc_of_store s2 = d'] -- what the store built from the re-parse
    is; for a concrete store the equation is decided by computation).  Then the two tables the
    evaluator works on show the same tree (Proofs/StoreIsoDoc.v), and by the second sentence of
    C14 (Proofs/StoreXDocReach.v) every supported expression has the same value on both -- the
    value XPath 1.0 prescribes. *)
From Coq Require Import List NArith Bool.
From XmlRs Require Import Base.CPred.
From XmlRs Require Import Model.XPathAst Model.XDoc Model.XPathEval Spec.XPath10.
From XmlRs Require Import Proofs.XPathNav Proofs.XPathAstPred Proofs.XPathCanon Proofs.XPathRefine
  Proofs.XPathRefineSupp Proofs.XPathRefineEval Proofs.XPathTreeOnly.
From XmlRs Require Import Model.Info Model.Display.
From XmlRs Require Import Model.Store Model.StoreView Model.DomOps Model.StoreDoc
  Proofs.DomTree Proofs.DomOpsInv Proofs.DomOrder Proofs.DomOrderInv Proofs.DomPrintable Proofs.DomL1RefineInv
  Proofs.StoreXDocReach Proofs.StoreDocInv Proofs.StoreDocReach Proofs.StoreDocPiFlag Proofs.StoreIsoDoc.
Import ListNotations.
Open Scope N_scope.

Theorem query_on_reparse F1 F2 fa fr merged init ops k s1 s2 d' :
  WGood init -> WInv2 init -> WLex15 init -> WPiFlag init ->
  Forall op_facts_ok ops -> Forall op_facts_ok15 ops ->
  doc_at (run init ops) k = Some s1 -> Known15 s1 = false ->
  from_raw (show_doc s1) = OOk ([], d') ->
  TreeInv s2 -> OrderInv s2 -> Lex15 s2 -> PiFlagOk s2 -> doc_of_store s2 = d' ->
  FactsBy fa fr F1 s1 -> FactsBy fa fr F2 s2 ->
  forall (c1 c2 : ctx) (e : expr),
    c_ns c1 = c_ns c2 -> get_position c1 = get_position c2 -> get_size c1 = get_size c2 ->
    ns_lookup (c_ns c1) None = None -> supported (c_ns c1) e ->
    value_abs (fst (query (xdoc_of_store F1 merged s1) e c1)) =
    value_abs (fst (query (xdoc_of_store F2 merged s2) e c2)) /\
    value_abs (fst (query (xdoc_of_store F1 merged s1) e c1)) =
    spec_query (xdoc_of_store F1 merged s1) (c_ns c1) (get_position c1) (get_size c1) e.
Proof.
  intros G I2 L PF F1ok F2ok D K R T2 O2 L2 P2 E2 B1 B2.
  destruct (inv15_reachable init ops k s1 I2 L F1ok F2ok D) as [T1 [L1 U1]].
  pose proof (doc_at_P PiFlagOk _ _ _ (piflag_reachable ops init PF) D) as P1.
  destruct (edited_roundtrip s1 T1 L1 U1 K) as [_ [_ R1]]. rewrite R1 in R. inversion R as [E1].
  assert (E : doc_of_store s1 = doc_of_store s2) by congruence.
  assert (He1 : doc_element s1 <> None).
  { unfold Known15 in K. repeat (apply orb_false_iff in K; destruct K as [K _]). unfold K_noroot in K.
    destruct (doc_element s1); [discriminate | discriminate]. }
  pose proof (same_doc_element s1 s2 T1 T2 L1 L2 P1 P2 E He1) as He2.
  apply (query_depends_on_tree_only_all F1 F2 merged init ops k s1 s2 G D T2 O2 He1 He2).
  apply (same_doc_same_tree F1 F2 merged s1 s2 fa fr); assumption.
Qed.

(** ** example: the edited store of Proofs/StoreDocReach.v ([rt_store], 11 calls) and a store of
    the fresh parse of its print, with the ids a parser would hand out *)
Definition rp_items : list (id * Store.item) :=
  [ (1, mk15 KDoc None [] [] None [2;3;4;21] []);
    (2, mk15 KCm None [] [99] (Some 1) [] []);
    (3, mkItem KDt None [114] dt_e false (Some 1) [] [] [[101]]);
    (4, mk15 KEl None [114] [] (Some 1) [7;16] [5]);
    (5, mk15 KAt (Some Store.s_xmlns) [112] [] (Some 4) [6] []);
    (6, mk15 KTx None [] [117;114;110;58;112] (Some 5) [] []);
    (7, mk15 KEl None [98] [] (Some 4) [10;11;12;13;14;15] [8]);
    (8, mk15 KAt (Some [112]) [120] [] (Some 7) [9] []);
    (9, mk15 KTx None [] [50] (Some 8) [] []);
    (10, mk15 KTx None [] [116] (Some 7) [] []);
    (11, mk15 KCd None [] [60;38] (Some 7) [] []);
    (12, mk15 KTx None [] [117] (Some 7) [] []);
    (13, mk15 KEl (Some [112]) [101] [] (Some 7) [] []);
    (14, mk15 KEr None [101] [] (Some 7) [] []);
    (15, mk15 KCr None [35;54;53] [65] (Some 7) [] []);
    (16, mk15 KEl None [110] [] (Some 4) [] [17]);
    (17, mk15 KAt None [107] [] (Some 16) [18;19;20] []);
    (18, mk15 KTx None [] [118] (Some 17) [] []);
    (19, mk15 KCr None [35;120;52;49] [65] (Some 17) [] []);
    (20, mk15 KEr None [101] [] (Some 17) [] []);
    (21, mkItem KPi None [113] [122] true (Some 1) [] [] []) ].
Definition rp_store : store := StoreCheck.store_of_list rp_items 22 decl10 1.

(** facts that are functions of the denotation, for any two such functions *)
Definition facts_by (fa : list attr -> str) (fr : list avalue -> str) (s : store) : sfacts :=
  mkFacts (fun n => fa (attr_of s (ents_of (hdr s)) n)) (fun n => fr (avalue_of s (ents_of (hdr s)) n)).

Lemma facts_by_ok fa fr s : FactsBy fa fr (facts_by fa fr s) s.
Proof. intros n. split; reflexivity. Qed.

Example query_on_reparse_example : forall fa fr merged (c1 c2 : ctx) (e : expr),
  c_ns c1 = c_ns c2 -> get_position c1 = get_position c2 -> get_size c1 = get_size c2 ->
  ns_lookup (c_ns c1) None = None -> supported (c_ns c1) e ->
  from_raw (show_doc rt_store) = OOk ([], doc_of_store rp_store)
  /\ value_abs (fst (query (xdoc_of_store (facts_by fa fr rt_store) merged rt_store) e c1)) =
     value_abs (fst (query (xdoc_of_store (facts_by fa fr rp_store) merged rp_store) e c2)).
Proof.
  intros fa fr merged c1 c2 e H1 H2 H3 H4 H5.
  assert (I : init_ok rt_items 21 decl10 = true) by (vm_compute; reflexivity).
  destruct (init_ok_sound _ _ _ I) as [I2 IL].
  assert (G : WGood (mkWorld [StoreCheck.store_of_list rt_items 21 decl10 1])).
  { constructor; [|constructor]. split; [apply DomCheck.tree_inv_b_sound; vm_compute; reflexivity | left; reflexivity]. }
  assert (PF : WPiFlag (mkWorld [StoreCheck.store_of_list rt_items 21 decl10 1])).
  { constructor; [|constructor]. apply pi_flag_b_sound. vm_compute. reflexivity. }
  assert (F1 : Forall op_facts_ok rt_ops) by (unfold rt_ops; facts_trivial).
  assert (F2 : Forall op_facts_ok15 rt_ops) by (unfold rt_ops; facts_trivial).
  assert (K : Known15 rt_store = false) by (vm_compute; reflexivity).
  assert (T2 : TreeInv rp_store) by (apply DomCheck.tree_inv_b_sound; vm_compute; reflexivity).
  assert (O2 : OrderInv rp_store) by (apply order_inv; [exact T2 | left; reflexivity]).
  assert (L2 : Lex15 rp_store) by (apply lex15_b_sound; vm_compute; reflexivity).
  assert (P2 : PiFlagOk rp_store) by (apply pi_flag_b_sound; vm_compute; reflexivity).
  assert (E : doc_of_store rp_store = doc_of_store rt_store) by (vm_compute; reflexivity).
  destruct rt_roundtrip as [_ [_ [_ [_ R]]]].
  split; [rewrite E; exact R|].
  eapply (query_on_reparse _ _ fa fr merged _ rt_ops 0 rt_store rp_store (doc_of_store rt_store) G I2 IL PF F1 F2 rt_final_store K R T2 O2 L2 P2 E
            (facts_by_ok fa fr rt_store) (facts_by_ok fa fr rp_store)); eassumption.
Qed.
