"""C10 -- namespaces resolve per Namespaces in XML; name tests match expanded names.

An abstract document is a tree of {'name': (prefix|None, local), 'decls': [(prefix|None, uri)],
'attrs': [(prefix|None, local)], 'kids': [...]} -- the `tree` of Spec/Namespaces.v.  It is rendered to XML
text for the real crates (harness domain `ns`) and to the word form read by the extracted model and
specification (ocaml/{domains,specdomains}/nsattr/ns.ml).  A query case adds a name test, the axis
(elements `//T` or attributes `//@T`) and the caller's prefix bindings.

A case may carry a DTD, `dtd` = [(element type (prefix|None, local), [(name, kind, value), ...]), ...]: one entry per
attribute-list declaration, in document order; name = ('D', prefix|None) for xmlns / xmlns:prefix or ('A', (prefix|None, local))
for an ordinary attribute; kind = 'V' ("value"), 'F' (#FIXED "value"), 'R' (#REQUIRED), 'I' (#IMPLIED) -- the `nsdtd` of
Spec/Namespaces.v.  Namespaces in XML applies AFTER attribute defaulting (XML 1.0 3.3.2, Namespaces 3; D67)."""
import itertools, json, os
from . import lib

XML_NS = 'http://www.w3.org/XML/1998/namespace'

# ------------------------------------------------------------------ rendering
def qn(q):
    return (q[0] + ':' if q[0] else '') + q[1]

def render_xml(t):
    atts = ''.join(' xmlns%s="%s"' % (':' + p if p else '', u) for p, u in t['decls'])
    atts += ''.join(' %s="v"' % qn(a) for a in t['attrs'])
    kids = ''.join(render_xml(k) for k in t['kids'])
    return '<%s%s>%s</%s>' % (qn(t['name']), atts, kids, qn(t['name'])) if kids else '<%s%s/>' % (qn(t['name']), atts)

def attname(n):
    return ('xmlns' + (':' + n[1] if n[1] else '')) if n[0] == 'D' else qn(n[1])

def render_dtd(dtd, root):
    if not dtd: return ''
    out = []
    for ty, defs in dtd:
        ds = ''.join(' %s CDATA %s' % (attname(n), {'V': '"%s"' % v, 'F': '#FIXED "%s"' % v, 'R': '#REQUIRED', 'I': '#IMPLIED'}[k])
                     for n, k, v in defs)
        out.append('<!ATTLIST %s%s>' % (qn(ty), ds))
    return '<!DOCTYPE %s [%s]>' % (qn(root['name']), ''.join(out))

def render_case_xml(c):
    return render_dtd(c.get('dtd') or [], c['doc']) + render_xml(c['doc'])

def cps(s):
    return '.'.join(str(ord(c)) for c in s)

def w_qn(q):
    return '%s:%s' % (cps(q[0] or ''), cps(q[1]))

def render_words(t, depth=0):
    w = ['n%d/%s/%s/%s' % (depth, w_qn(t['name']), ','.join('%s=%s' % (cps(p or ''), cps(u)) for p, u in t['decls']),
                           ','.join(w_qn(a) for a in t['attrs']))]
    for k in t['kids']:
        w += render_words(k, depth + 1)
    return w

def dtd_words(dtd):
    w = []
    for ty, defs in dtd or []:
        for n, k, v in defs:
            w.append('d/%s/%s/%s/%s/%s' % (w_qn(ty), n[0], cps(n[1] or '') if n[0] == 'D' else w_qn(n[1]), k, cps(v or '')))
    return w

def case_words(c):
    return dtd_words(c.get('dtd')) + render_words(c['doc'])

def test_xpath(test, attrs):
    k, p, l = test
    s = '*' if k == 'any' else (p + ':*' if k == 'pany' else (p + ':' if p else '') + l)
    return ('//@' if attrs else '//') + s

def test_word(test):
    k, p, l = test
    return 't*' if k == 'any' else ('tp' + cps(p) if k == 'pany' else 'tn%s:%s' % (cps(p or ''), cps(l)))

def case_lines(c):
    """(line for the harness, line for model / spec)"""
    if c['kind'] == 'doc':
        return 'doc ' + lib.enc(render_case_xml(c)), 'doc ' + ' '.join(case_words(c))
    b = c['bindings']
    h = 'q %s %s %s' % (lib.enc(render_case_xml(c)), lib.enc(test_xpath(c['test'], c['attrs'])),
                        ' '.join('%s=%s' % (lib.enc(p), lib.enc(u)) for p, u in b))
    m = 'q %s a%d %s %s' % (test_word(c['test']), 1 if c['attrs'] else 0,
                            ' '.join('b%s=%s' % (cps(p), cps(u)) for p, u in b), ' '.join(case_words(c)))
    return h.strip(), ' '.join(m.split())

def canon(line):
    return 'err' if line.startswith('err') else line

# ------------------------------------------------------------------ abstract semantics used by the generators only
def bound(env, p):
    for q, u in env:
        if q == p:
            return u or None
    return None

def elements(t, env=None, out=None):
    """pre-order list of (element, environment)"""
    env = [('xml', XML_NS)] if env is None else env
    out = [] if out is None else out
    e = list(t['decls']) + env
    out.append((t, e))
    for k in t['kids']:
        elements(k, e, out)
    return out

def binding_defs(dtd):
    """flat list of (type, name, kind, value): the first definition of an attribute of an element type is binding"""
    seen, out = set(), []
    for ty, defs in dtd or []:
        for n, k, v in defs:
            if (ty, n) in seen: continue
            seen.add((ty, n)); out.append((ty, n, k, v))
    return out

def apply_defaults(dtd, t):
    """the document 'as though the attributes were present with the declared default value' (generator-side oracle)"""
    decls, attrs = list(t['decls']), list(t['attrs'])
    for ty, n, k, v in binding_defs(dtd):
        if ty != t['name'] or k not in 'VF': continue
        if n[0] == 'D':
            if all(p != n[1] for p, _ in t['decls']): decls.append((n[1], v))
        elif n[1] not in t['attrs']:
            attrs.append(n[1])
    return {'name': t['name'], 'decls': decls, 'attrs': attrs, 'kids': [apply_defaults(dtd, k) for k in t['kids']]}

def eff(c):
    return apply_defaults(c.get('dtd'), c['doc']) if c.get('dtd') else c['doc']

def dtd_prefixes(dtd):
    ps = set()
    for ty, defs in dtd or []:
        if ty[0]: ps.add(ty[0])
        for n, _, _ in defs:
            p = n[1] if n[0] == 'D' else n[1][0]
            if p: ps.add(p)
    return ps

def rename_dtd(dtd, f):
    r = lambda p: f.get(p, p) if p else p
    return [((r(ty[0]), ty[1]), [((('D', r(n[1])) if n[0] == 'D' else ('A', (r(n[1][0]), n[1][1]))), k, v) for n, k, v in defs])
            for ty, defs in dtd or []]

def nswf(t):
    for x, env in elements(t):
        if x['name'][0] and not bound(env, x['name'][0]): return False
        if any(a[0] and not bound(env, a[0]) for a in x['attrs']): return False
    return True

def prefixes_of(t):
    ps = set()
    for x, _ in elements(t):
        ps.update(p for p in [x['name'][0]] + [d[0] for d in x['decls']] + [a[0] for a in x['attrs']] if p)
    return ps

def rename_doc(t, f):
    r = lambda p: f.get(p, p) if p else p
    return {'name': (r(t['name'][0]), t['name'][1]), 'decls': [(r(p), u) for p, u in t['decls']],
            'attrs': [(r(a[0]), a[1]) for a in t['attrs']], 'kids': [rename_doc(k, f) for k in t['kids']]}

def nontrivial(c):
    return any(x['decls'] for x, _ in elements(eff(c)))

def norm_case(c):
    """tuples instead of the lists json gives back"""
    def t(x):
        return {'name': tuple(x['name']), 'decls': [tuple(y) for y in x['decls']], 'attrs': [tuple(y) for y in x['attrs']],
                'kids': [t(k) for k in x['kids']]}
    c = dict(c, doc=t(c['doc']))
    if c.get('dtd'):
        c['dtd'] = [(tuple(ty), [((n[0], n[1]) if n[0] == 'D' else ('A', tuple(n[1])), k, v) for n, k, v in defs]) for ty, defs in c['dtd']]
    if c['kind'] == 'q':
        c['test'] = tuple(c['test']); c['bindings'] = [tuple(b) for b in c['bindings']]
    return c

# ------------------------------------------------------------------ generators
URIS = ['u1', 'u2']
LOCALS = ['a', 'b', 'c']

def layout_decls(dflt, p):
    d = []
    if dflt is not None: d.append((None, dflt))
    if p is not None: d.append(('p', p))
    return d

def small_universe(rng):
    """DESIGN 5.10: a chain of three elements; at every level the default namespace is absent / u1 / u2 /
    undeclared and the prefix p absent / u1 / u2; a third prefix q optionally declared at the root: all
    layouts; element and attribute prefixes drawn among the bound ones"""
    opts = [(d, p) for d in (None, 'u1', 'u2', '') for p in (None, 'u1', 'u2')]
    docs = []
    for l0, l1, l2 in itertools.product(opts, repeat=3):
        for qdecl in (False, True):
            levels = []
            env = [('xml', XML_NS)]
            for i, (d, p) in enumerate((l0, l1, l2)):
                decls = layout_decls(d, p) + ([('q', 'u2')] if qdecl and i == 0 else [])
                env = decls + env
                cands = [None] + [x for x in ('p', 'q') if bound(env, x)]
                name = (rng.choice(cands), LOCALS[i])
                attrs = [(None, 'y')]
                if bound(env, 'p'): attrs.append(('p', 'z'))
                if i == 2: attrs.append(('xml', 'k'))
                if bound(env, 'q') and i == 1: attrs.append(('q', 'xmlns'))   # an ordinary attribute (D60)
                levels.append({'name': name, 'decls': decls, 'attrs': attrs, 'kids': []})
            levels[0]['kids'] = [levels[1]]; levels[1]['kids'] = [levels[2]]
            docs.append(levels[0])
    return docs

ALL_TESTS = [('any', None, None)] + [('pany', p, None) for p in ('r', 's')] + \
            [('name', p, l) for p in (None, 'r', 's') for l in ('a', 'b', 'c', 'y', 'z', 'k', 'xmlns', 'zd', 'w')]
BINDINGS = [[('r', 'u1'), ('s', 'u2')], [('r', 'u2'), ('s', XML_NS)], [('s', 'u1'), ('r', 'u1')]]

def random_doc(rng, depth=0, env=None):
    env = [('xml', XML_NS)] if env is None else env
    decls = []
    if rng.random() < 0.45:
        decls.append((None, rng.choice(URIS + ['', 'u3'])))
    for p in ('p', 'q', 'pp'):
        if rng.random() < 0.3:
            decls.append((p, rng.choice(URIS + ['u3'])))
    if rng.random() < 0.05:
        decls.append(('xml', XML_NS))
    rng.shuffle(decls)
    e = decls + env
    cands = [None, None] + [x for x in ('p', 'q', 'pp', 'xml') if bound(e, x)]
    name = (rng.choice(cands), rng.choice(LOCALS + ['xmlns']))
    attrs, used = [], set()
    for _ in range(rng.randint(0, 3)):
        a = (rng.choice(cands), rng.choice(['y', 'z', 'a', 'xmlns']))
        if a[0] is None and a[1] == 'xmlns':
            continue                     # that is a declaration, not an attribute
        if a[1] in used: continue        # keeps expanded names distinct as well
        used.add(a[1]); attrs.append(a)
    kids = []
    if depth < 3:
        for _ in range(rng.choice([0, 1, 1, 2, 3]) if depth < 2 else rng.choice([0, 0, 1])):
            kids.append(random_doc(rng, depth + 1, e))
    return {'name': name, 'decls': decls, 'attrs': attrs, 'kids': kids}

def random_query(rng, doc, dtd=None):
    q = random_query1(rng, apply_defaults(dtd, doc) if dtd else doc)
    q['doc'] = doc
    if dtd: q['dtd'] = strip_attr_defaults(dtd) if q['attrs'] else dtd
    return q

def strip_attr_defaults(dtd):
    """//@T is not asked where the DTD supplies ORDINARY attributes: those nodes carry order key 0, sort first and collapse
    in a node-set (listed finding D19 of C05 / C07); the per-element dump (`doc`) and //T keep them"""
    out = []
    for ty, defs in dtd:
        defs = [d for d in defs if d[0][0] == 'D']
        if defs: out.append((ty, defs))
    return out

def random_query1(rng, doc):
    if rng.random() < 0.6:
        # aim at a node of the document: bind a prefix to its namespace and ask for its name
        x, env = rng.choice(elements(doc))
        attrs = bool(x['attrs']) and rng.random() < 0.5
        if attrs:
            a = rng.choice(x['attrs']); local, uri = a[1], (bound(env, a[0]) if a[0] else None)
        else:
            local, uri = x['name'][1], bound(env, x['name'][0])
        b = [(p, rng.choice(URIS + ['u3'])) for p in rng.sample(['s', 'p'], rng.randint(0, 2))]
        if uri: b.insert(rng.randint(0, len(b)), ('r', uri))
        test = ('pany', 'r', None) if uri and rng.random() < 0.3 else ('name', 'r' if uri else None, local)
        return {'kind': 'q', 'doc': doc, 'test': test, 'attrs': attrs, 'bindings': b}
    uris = URIS + ['u3', XML_NS]
    ps = rng.sample(['r', 's', 'p', 'q'], rng.randint(0, 3))
    b = [(p, rng.choice(uris)) for p in ps]
    k = rng.random()
    if k < 0.15: test = ('any', None, None)
    elif k < 0.4 and ps: test = ('pany', rng.choice(ps), None)
    else: test = ('name', rng.choice([None] + ps), rng.choice(LOCALS + ['y', 'z', 'xmlns']))
    return {'kind': 'q', 'doc': doc, 'test': test, 'attrs': rng.random() < 0.5, 'bindings': b}

def corpus_cases():
    """minimised reproductions of every defect found so far (corpus/C10_regressions.json); they run first"""
    try:
        raw = json.load(open(os.path.join(lib.VERIF, 'corpus', 'C10_regressions.json')))
    except OSError:
        return []
    return [norm_case(c) for c in raw]

def unbound_query(rng, doc, dtd=None):
    """a prefix without binding is an error (only asked where some node is tested)"""
    has_attrs = any(x['attrs'] for x, _ in elements(apply_defaults(dtd, doc) if dtd else doc))
    q = {'kind': 'q', 'doc': doc, 'test': rng.choice([('pany', 'zz', None), ('name', 'zz', 'a')]),
         'attrs': has_attrs and rng.random() < 0.5, 'bindings': [('r', 'u1')]}
    if dtd: q['dtd'] = strip_attr_defaults(dtd) if q['attrs'] else dtd
    return q

# ------------------------------------------------------------------ generators: namespace declarations by ATTLIST default (D67)
def dtd_families(n0, n1, n2):
    """the shapes of DESIGN 5.10 / D67 over the element types of the 3-level chain (raw names n0 > n1 > n2)"""
    D = lambda p: ('D', p)
    return [
        ('default-only',            [(n0, [(D('p'), 'V', 'u1')])]),
        ('default-only-new-prefix', [(n0, [(D('d'), 'V', 'u2')])]),
        ('inner-type-only',         [(n1, [(D('p'), 'V', 'u2'), (D('d'), 'V', 'u1')])]),
        ('default-namespace',       [(n0, [(D(None), 'V', 'u1')]), (n2, [(D(None), 'V', 'u2')])]),
        ('default-namespace-empty', [(n1, [(D(None), 'V', '')])]),
        ('fixed',                   [(n0, [(D('p'), 'F', 'u2'), (D(None), 'F', 'u1')])]),
        ('required-implied',        [(n0, [(D('p'), 'R', ''), (D(None), 'I', '')]), (n1, [(D('d'), 'I', '')])]),
        ('first-binding-two-lists', [(n1, [(D('p'), 'V', 'u1')]), (n1, [(D('p'), 'V', 'u2'), (D('d'), 'V', 'u2')])]),
        ('first-binding-no-value',  [(n1, [(D('p'), 'I', '')]), (n1, [(D('p'), 'V', 'u1')])]),
        ('first-binding-one-list',  [(n0, [(D(None), 'V', 'u2'), (D(None), 'V', 'u1'), (D('d'), 'V', 'u1'), (D('d'), 'F', 'u2')])]),
        ('defaulted-attribute',     [(n2, [(D('d'), 'V', 'u1'), (('A', ('d', 'w')), 'V', 'v'), (('A', (None, 'w')), 'F', 'v')])]),
        ('every-level',             [(n0, [(D('p'), 'V', 'u1')]), (n1, [(D('p'), 'V', 'u2')]), (n2, [(D('p'), 'V', 'u1'), (D(None), 'V', 'u1')])]),
        ('other-type',              [((None, 'zz'), [(D('p'), 'V', 'u1')]), (('p', n0[1]) if not n0[0] else (None, n0[1]), [(D('d'), 'V', 'u1')])]),
    ]

def use_defaults(rng, doc, dtd):
    """write attributes (and, for element types no ATTLIST names, element names) with the prefixes that are bound
    only because of a default"""
    targeted = {ty for ty, _ in dtd}
    def go(t, env_w, env_e, e):
        env_w = list(t['decls']) + env_w
        env_e = list(e['decls']) + env_e
        only = [p for p in ('p', 'q', 'pp', 'd') if bound(env_e, p) and not bound(env_w, p)]
        attrs, name = list(t['attrs']), t['name']
        for p in only:
            if rng.random() < 0.6 and all(a[1] != 'z' + p for a in attrs):
                attrs.append((p, 'z' + p))
        if only and t['name'] not in targeted and rng.random() < 0.4:
            cand = (rng.choice(only), t['name'][1])
            if cand not in targeted: name = cand
        return {'name': name, 'decls': t['decls'], 'attrs': attrs,
                'kids': [go(k, env_w, env_e, ek) for k, ek in zip(t['kids'], e['kids'])]}
    env0 = [('xml', XML_NS)]
    return go(doc, env0, env0, apply_defaults(dtd, doc))

def small_universe_dtd(rng, doc, k):
    """the k-th family for one chain document, the defaulted prefixes put to use"""
    n0, n1, n2 = doc['name'], doc['kids'][0]['name'], doc['kids'][0]['kids'][0]['name']
    fams = dtd_families(n0, n1, n2)
    fam, dtd = fams[k % len(fams)]
    return fam, use_defaults(rng, doc, dtd), dtd

def random_dtd_case(rng):
    """a random document, a random DTD over its element types (and sometimes another type), the defaulted prefixes in use"""
    doc = random_doc(rng)
    names = sorted({x['name'] for x, _ in elements(doc)}, key=lambda n: (n[0] or '', n[1]))
    dtd = []
    for _ in range(rng.choice([1, 1, 2, 3])):
        ty = rng.choice(names) if rng.random() < 0.9 else (None, 'zz')
        defs = []
        for _ in range(rng.choice([1, 1, 2, 3])):
            k = rng.random()
            if k < 0.3: n = ('D', None)
            elif k < 0.8: n = ('D', rng.choice(['p', 'q', 'd', 'd']))
            else: n = ('A', (rng.choice([None, 'p', 'd']), 'w'))
            kind = rng.choice('VVVVVVFFRI')
            if n[0] == 'A' and kind == 'R': kind = 'I'          # D36 (C11): a #REQUIRED attribute is materialised
            v = rng.choice(URIS + ['u3'] + ([''] if n == ('D', None) else []))
            defs.append((n, kind, v if kind in 'VF' else ''))
        dtd.append((ty, defs))
    if rng.random() < 0.2:
        # an element whose own prefix is declared by the default of its own type
        xs = [x for x, _ in elements(doc) if not x['name'][0] and not x['kids'] and x['name'] not in {ty for ty, _ in dtd}]
        if xs:
            x = rng.choice(xs); x['name'] = ('d', x['name'][1])
            dtd.append((x['name'], [(('D', 'd'), rng.choice('VF'), rng.choice(URIS))]))
    return use_defaults(rng, doc, dtd), dtd

def dtd_features(c):
    """what a case with a DTD exercises (evidence histogram)"""
    out = set()
    dtd = c.get('dtd') or []
    if not dtd: return out
    flat = [(ty, n, k, v) for ty, defs in dtd for n, k, v in defs]
    bind = binding_defs(dtd)
    if len(flat) != len(bind): out.add('second-definition-ignored')
    e = apply_defaults(dtd, c['doc'])
    for (x, envw), (y, enve) in zip(elements(c['doc']), elements(e)):
        added = y['decls'][len(x['decls']):]
        if added: out.add('declaration-by-default')
        if any(p is None for p, _ in added): out.add('default-namespace-by-default')
        if any(p is None and u == '' for p, u in added): out.add('xmlns-empty-by-default')
        for ty, n, k, v in bind:
            if ty != x['name'] or n[0] != 'D': continue
            if k == 'F' and (n[1], v) in added: out.add('fixed')
            if k in 'RI': out.add('required-or-implied-xmlns')
            if k in 'VF' and any(p == n[1] for p, _ in x['decls']): out.add('written-wins-over-default')
        only = {p for p in ('p', 'q', 'pp', 'd') if bound(enve, p) != bound(envw, p)}
        if x['name'][0] in only: out.add('element-name-with-defaulted-prefix')
        if any(a[0] in only for a in y['attrs']): out.add('attribute-with-defaulted-prefix')
        if len(y['attrs']) > len(x['attrs']): out.add('ordinary-attribute-by-default')
        if bound(enve, None) != bound(envw, None) and not x['name'][0]: out.add('element-in-defaulted-default-namespace')
    if len(e['decls']) == len(c['doc']['decls']) and 'declaration-by-default' in out: out.add('inner-element-type-only')
    return out

def rename_ref(line, f):
    """apply the document renaming to the attribute names of a `nodes ...` line"""
    out = []
    for w in line.split(' '):
        if w.startswith('a') and '.' in w:
            k, name = w.split('.', 1)
            s = lib.dec(name)
            if ':' in s:
                p, l = s.split(':', 1)
                s = f.get(p, p) + ':' + l
            w = k + '.' + lib.enc(s)
        out.append(w)
    return ' '.join(out)

# ------------------------------------------------------------------ running
def run_three(cases, okr, okm, oks):
    lines = [case_lines(c) for c in cases]
    r = m = s = None
    if okr:
        rc, r = lib.run_bin(lib.rust_bin(), ['ns'], [h for h, _ in lines], timeout=1200, shards=lib.NPROC)
        r = [canon(x) for x in r]
    if okm:
        rc, m = lib.run_bin(lib.model_bin('nsattr'), ['ns'], [w for _, w in lines], timeout=1200, shards=lib.NPROC)
    if oks:
        rc, s = lib.run_bin(lib.spec_bin('nsattr'), ['ns'], [w for _, w in lines], timeout=1200, shards=lib.NPROC)
    return r, m, s

def shrink(case, still_fails):
    """drop a subtree, a declaration, an attribute, a binding -- as long as the document stays
    namespace-well-formed and the case keeps failing"""
    def doc_variants(t):
        for i in range(len(t['kids'])):
            yield dict(t, kids=t['kids'][:i] + t['kids'][i + 1:])
            yield dict(t, kids=t['kids'][:i] + t['kids'][i]['kids'] + t['kids'][i + 1:])     # splice the grandchildren in
        for i in range(len(t['decls'])):
            yield dict(t, decls=t['decls'][:i] + t['decls'][i + 1:])
        for i in range(len(t['attrs'])):
            yield dict(t, attrs=t['attrs'][:i] + t['attrs'][i + 1:])
        if t['name'][0]:
            yield dict(t, name=(None, t['name'][1]))
        for i, k in enumerate(t['kids']):
            for v in doc_variants(k):
                yield dict(t, kids=t['kids'][:i] + [v] + t['kids'][i + 1:])
    def candidates(c):
        dtd = c.get('dtd') or []
        ok = lambda d, dt: nswf(apply_defaults(dt, d) if dt else d)
        for d in doc_variants(c['doc']):
            if ok(d, dtd): yield dict(c, doc=d)
        for k in c['doc']['kids']:
            if ok(k, dtd): yield dict(c, doc=k)                                       # a child as the new root
        for i in range(len(dtd)):
            dt = dtd[:i] + dtd[i + 1:]
            if ok(c['doc'], dt): yield dict(c, dtd=dt)                                # drop an attribute-list declaration
            ty, defs = dtd[i]
            for j in range(len(defs)):
                if len(defs) > 1:
                    dt = dtd[:i] + [(ty, defs[:j] + defs[j + 1:])] + dtd[i + 1:]
                    if ok(c['doc'], dt): yield dict(c, dtd=dt)                        # drop one definition
        if c['kind'] == 'q':
            for i in range(len(c['bindings'])):
                if c['bindings'][i][0] != c['test'][1]:           # keep the binding the test needs
                    yield dict(c, bindings=c['bindings'][:i] + c['bindings'][i + 1:])
    cur = case
    for _ in range(60):
        cands = list(candidates(cur))
        if not cands: break
        flags = still_fails(cands)
        nxt = next((c for c, f in zip(cands, flags) if f), None)
        if nxt is None: break
        cur = nxt
    return cur

def describe(c):
    if c['kind'] == 'doc':
        return render_case_xml(c)
    return '%s on %s with bindings %s' % (test_xpath(c['test'], c['attrs']), render_case_xml(c),
                                          ', '.join('%s=%s' % b for b in c['bindings']) or '(none)')

def check(run):
    run.trusted = ['Coq 8.16.1 kernel + VM', 'Spec/Namespaces.v: transcription of Namespaces in XML 1.0 (3, 5, 6), XML 1.0 3.3 / 3.3.2 (attribute defaults, applied first) and XPath 1.0 2.3 (readings N1-N6 stated there)',
                   'Model/NsModel.v: hand-written model of info::{declaration_att_defs, namespace_attributes, attributes, in_scope_namespace, find_nameapce_uri, namespace_name}, dom::as_expanded_name, xpath::{eval_node_test, Context::add_ns/get_ns_uri/expanded_name}, tied by the ns correspondence below',
                   'document order of //T and //@T (the traversal itself belongs to property C05)',
                   'renderer of abstract documents (checks/C10.py), xml-parser and the XPath parser for the concrete syntax',
                   'harness/src/domains/ns.rs, extraction (ExtrOcamlBasic only) + ocaml glue']
    lib.proof_step(run, 'C10', [])
    okr, mok, sok = lib.build_binaries(run, model_areas=['nsattr'], spec_areas=['nsattr'])
    okm, oks = mok.get('nsattr', False), sok.get('nsattr', False)
    rng = run.rng
    uni = small_universe(rng)
    run.extra['small_universe_documents'] = len(uni)
    rnd = [random_doc(rng) for _ in range(600 if run.tier == 'quick' else 12000)]
    rnd = [d for d in rnd if nswf(d)]
    cases = corpus_cases()
    run.extra['corpus_cases'] = len(cases)
    # namespace declarations supplied by ATTLIST defaults (D67): every family over sampled chain documents, random DTDs
    nfam = len(dtd_families((None, 'a'), (None, 'b'), (None, 'c')))
    ddocs = []
    for i, d in enumerate(rng.sample(uni, 390 if run.tier == 'quick' else len(uni))):
        fam, doc, dtd = small_universe_dtd(rng, d, i)
        if nswf(apply_defaults(dtd, doc)):
            ddocs.append((doc, dtd, 4 if run.tier == 'quick' else 8))
    for _ in range(500 if run.tier == 'quick' else 10000):
        doc, dtd = random_dtd_case(rng)
        if nswf(apply_defaults(dtd, doc)):
            ddocs.append((doc, dtd, 3))
    run.extra['documents_with_attlist_defaults'] = len(ddocs)
    run.extra['attlist_default_families'] = nfam
    for doc, dtd, nq in ddocs:
        cases.append({'kind': 'doc', 'doc': doc, 'dtd': dtd})
        for _ in range(nq):
            cases.append(random_query(rng, doc, dtd))
        if rng.random() < 0.1:
            cases.append(unbound_query(rng, doc, dtd))
    if run.tier == 'quick':
        uni_docs = rng.sample(uni, 500)
        for d in uni_docs:
            cases.append({'kind': 'doc', 'doc': d})
            for test in rng.sample(ALL_TESTS, 4):
                cases.append({'kind': 'q', 'doc': d, 'test': test, 'attrs': rng.random() < 0.5, 'bindings': rng.choice(BINDINGS)})
    else:
        run.extra['exhaustive'] = 'every declaration layout of the 3-level chain (%d documents) x %d name tests x 2 axes x %d binding sets' % (len(uni), len(ALL_TESTS), len(BINDINGS))
        for d in uni:
            cases.append({'kind': 'doc', 'doc': d})
            b = BINDINGS[len(cases) % len(BINDINGS)]
            for test in ALL_TESTS:
                for attrs in (False, True):
                    cases.append({'kind': 'q', 'doc': d, 'test': test, 'attrs': attrs, 'bindings': b})
    for d in rnd:
        cases.append({'kind': 'doc', 'doc': d})
        for _ in range(3):
            cases.append(random_query(rng, d))
        if rng.random() < 0.15:
            cases.append(unbound_query(rng, d))
    # metamorphic pairs: the same query after a consistent renaming of the document's prefixes, and after a
    # consistent renaming of the expression's prefixes together with the bindings
    pairs = []
    fresh = ['m1', 'm2', 'm3', 'm4']
    nmeta = 300 if run.tier == 'quick' else 4000
    for d, dtd in [(d, None) for d in rnd[:nmeta]] + [(d, dtd) for d, dtd, _ in ddocs[-nmeta:]]:
        ps = sorted((prefixes_of(d) | dtd_prefixes(dtd)) - {'xml'})
        if not ps: continue
        tgt = rng.sample(ps + fresh, len(ps))           # injective, may permute the existing prefixes
        f = dict(zip(ps, tgt))
        q = random_query(rng, d, dtd)
        q['bindings'] = [b for b in q['bindings']]
        c1, c2 = q, dict(q, doc=rename_doc(d, f))
        if q.get('dtd'): c2['dtd'] = rename_dtd(q['dtd'], f)
        pairs.append(('doc', f, len(cases), len(cases) + 1)); cases += [c1, c2]
        if dtd: run.count('metamorphic:doc-with-attlist-defaults')
        bp = sorted({p for p, _ in q['bindings']} | ({q['test'][1]} if q['test'][1] else set()))
        if bp:
            g = dict(zip(bp, rng.sample(bp + fresh, len(bp))))
            r = lambda p: g.get(p, p) if p else p
            c3 = dict(q, test=(q['test'][0], r(q['test'][1]), q['test'][2]), bindings=[(r(p), u) for p, u in q['bindings']])
            pairs.append(('expr', g, len(cases) - 2, len(cases))); cases.append(c3)
    r, m, s = run_three(cases, okr, okm, oks)
    ties, fails = 0, []
    if r is not None:
        for i, c in enumerate(cases):
            run.evaluations += 1
            if nontrivial(c):
                run.nontrivial.add(case_lines(c)[1])
            run.count('kind:' + c['kind'])
            run.count('result:' + r[i].split(' ')[0])
            if c['kind'] == 'q':
                run.count('test:' + c['test'][0] + ('/attr' if c['attrs'] else '/elem'))
                run.count('selected:%d' % min(5, max(0, len(r[i].split(' ')) - 1)))
            else:
                els = elements(eff(c))
                run.count('elements:%d' % min(12, len(els)))
                run.count('declarations:%d' % min(8, sum(len(x['decls']) for x, _ in els)))
                if any(p is None and u == '' for x, _ in els for p, u in x['decls']): run.count('feature:undeclaration')
                if any(x['attrs'] and bound(e, None) for x, e in els): run.count('feature:attributes-under-default-namespace')
            for ft in dtd_features(c):
                run.count('attlist-default:' + ft)
            if c.get('dtd'): run.count('with-attlist:' + c['kind'])
            if i % 1201 == 0:
                run.sample({'case': describe(c), 'implementation': r[i], 'model': m[i] if m else None, 'spec': s[i] if s else None})
            if m is not None and m[i] != r[i]:
                ties += 1
                if ties <= 5:
                    run.tie_breaks.append('model and implementation differ on %s: model `%s`, implementation `%s`' % (describe(c), m[i], r[i]))
            if s is not None and s[i] != r[i]:
                fails.append(i)
        if ties > 5:
            run.tie_breaks.append('... and %d more model / implementation differences' % (ties - 5))
        # metamorphic: implementation against itself
        for kind, f, i, j in pairs:
            run.count('metamorphic:' + kind)
            want = rename_ref(r[i], f) if kind == 'doc' else r[i]
            if r[j] != want:
                run.failing_inputs.append({
                    'property': 'C10', 'class': 'renaming-' + kind,
                    'what': 'result changes under a consistent renaming of the %s prefixes %s: %s gives `%s`, %s gives `%s`'
                            % ('document' if kind == 'doc' else 'expression', f, describe(cases[i]), r[i], describe(cases[j]), r[j]),
                    'case': cases[i], 'renamed': cases[j], 'implementation': r[i], 'implementation_renamed': r[j],
                    'replay': 'bin/check C10 --replay <this file>'})
    # metamorphic: binding a prefix to another URI first and to the intended one afterwards must give what
    # binding it once gives (the last binding of a prefix is the caller's binding); implementation only
    if r is not None:
        base = [i for i, c in enumerate(cases) if c['kind'] == 'q' and c['bindings']]
        rng.shuffle(base)
        base = base[:(300 if run.tier == 'quick' else 3000)]
        rb = [dict(cases[i], bindings=[(p, 'urn:rebound-first') for p, _ in cases[i]['bindings']] + list(cases[i]['bindings'])) for i in base]
        rr, _, _ = run_three(rb, okr, False, False)
        if rr is not None:
            for i, c2, got in zip(base, rb, rr):
                run.count('metamorphic:rebind'); run.evaluations += 1
                if got != r[i]:
                    run.failing_inputs.append({
                        'property': 'C10', 'class': 'rebinding',
                        'what': 'binding each prefix twice (first to another URI, then to the intended one) changes the result: %s gives `%s`, with the rebinding `%s`'
                                % (describe(cases[i]), r[i], got),
                        'case': cases[i], 'rebound': c2, 'implementation': r[i], 'implementation_rebound': got})
                    if sum(1 for f in run.failing_inputs if f.get('class') == 'rebinding') >= 3:
                        break
    def still_fails(cands):
        rr, _, ss = run_three(cands, okr, False, oks)
        return [a != b for a, b in zip(rr, ss)]
    reported = set()
    for i in fails[:12]:
        small = shrink(cases[i], still_fails)
        key = case_lines(small)[1]
        if key in reported or len(reported) >= 6: continue
        reported.add(key)
        rr, mm, ss = run_three([small], okr, okm, oks)
        run.failing_inputs.append({
            'property': 'C10', 'class': 'namespaces-' + small['kind'],
            'what': '%s: implementation `%s`, Namespaces in XML / XPath 1.0 `%s`' % (describe(small), rr[0], ss[0]),
            'case': small, 'xml': render_case_xml(small), 'implementation': rr[0], 'model': mm[0] if mm else None, 'spec': ss[0],
            'original': describe(cases[i]), 'replay': 'bin/check C10 --replay <this file>'})
    if fails:
        run.notes.append('%d failing inputs in all, %d distinct after shrinking the first 12' % (len(fails), len(reported)))
    # namespace scopes on EDITED documents (shared dom campaign): namespace-sensitive queries on the edited
    # tree against a re-parse of its serialisation
    try:
        from . import domlib as D
        for g in D.query_findings(run, ('query',), only_queries=D.NS_QUERIES):
            run.failing_inputs.append({'property': 'C10', 'class': 'namespaces-after-edit', 'what': g['what'], 'docs': g['docs'], 'ops': g['ops'], 'view': g['view'], 'clause': g['clause']})
    except Exception as ex:
        run.notes.append('edited-document stream not run: %r' % (ex,))

    return run.finish(level='proof',
        rule='one case = an abstract document (dump of every element) or a document + name test + axis + caller bindings; distinct by the abstract case; non-trivial = the document has at least one namespace declaration',
        assumptions=['documents are namespace-well-formed: no duplicate declarations in a start-tag, the prefix xmlns is not used, every prefix used is bound AFTER attribute defaulting; a DTD contributes attribute-list declarations only (CDATA type; xmlns / xmlns:p / ordinary names; "v", #FIXED "v", #REQUIRED, #IMPLIED) and no #REQUIRED ordinary attribute (materialised by xml-rs: finding D36 of C11)',
                     'caller bindings bind each prefix once and never the empty prefix (Context::add_ns(None, ..) is an extension outside XPath 1.0)',
                     '//@T is not asked on a document whose DTD supplies ordinary attributes by default (order key 0: listed finding D19 of C05 / C07); their expanded names are compared in the per-element dumps',
                     'the traversal order of //T and //@T is document order (property C05); documents contain elements and attributes only, so the principal-node-type defect D14 cannot interfere'])

def replay(path):
    d = json.load(open(path))
    print(json.dumps(d, indent=1, ensure_ascii=False))
    fix = norm_case
    for key in ('case', 'renamed'):
        if d.get(key):
            c = fix(d[key])
            print('%-14s: %s' % (key, describe(c)))
            h, w = case_lines(c)
            for name, b, line in (('implementation', lib.rust_bin(), h), ('model', lib.model_bin('nsattr'), w),
                                  ('specification', lib.spec_bin('nsattr'), w)):
                if os.path.exists(b):
                    rc, out = lib.run_bin(b, ['ns'], [line], timeout=60)
                    print('  %-14s: %s' % (name, out[0] if out else '(no answer)'))
    return 0
