(** C18 -- character classes and name syntax match XML 1.0 5th Ed. for every code point.
    This file only names the theorems; proofs live in Proofs/. *)
From Coq Require Import List NArith Bool.
From XmlRs Require Import Base.CPred Spec.XmlChars Gen.XmlcharGen Proofs.XmlcharProofs.
Open Scope N_scope.

Theorem C18_is_char : forall c : N, eval is_char c = eval spec_Char c.
Proof. exact is_char_equiv. Qed.
Theorem C18_is_name_start_char : forall c : N, eval is_name_start_char c = eval spec_NameStartChar c.
Proof. exact is_name_start_char_equiv. Qed.
Theorem C18_is_name_char : forall c : N, eval is_name_char c = eval spec_NameChar c.
Proof. exact is_name_char_equiv. Qed.
Theorem C18_is_pubid_char : forall c : N, eval is_pubid_char c = eval spec_PubidChar c.
Proof. exact is_pubid_char_equiv. Qed.
Theorem C18_is_enc_name : forall c : N, eval is_enc_name c = eval spec_EncNameChar c.
Proof. exact is_enc_name_equiv. Qed.

Print Assumptions C18_is_char.
Print Assumptions C18_is_name_start_char.
Print Assumptions C18_is_name_char.
Print Assumptions C18_is_pubid_char.
Print Assumptions C18_is_enc_name.
