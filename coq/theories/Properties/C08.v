(** * C08 -- equivalent XPath spellings evaluate identically; precedence per grammar.

    FULL STATEMENT (DESIGN 5, C08):

      Theorem parse_spell : forall a sp, ok_spelling a sp ->
        exists e, parse_expr (spell a sp) = POk e [] /\ abs_or e ≈ a.
      Theorem spelling_irrelevant : forall doc bind a sp1 sp2,
        ok_spelling a sp1 -> ok_spelling a sp2 ->
        query_model doc bind (spell a sp1) = query_model doc bind (spell a sp2).

    where [a : xexpr] ranges over all abstract syntax trees of XPath 1.0 (Spec/XPathSyntax.v), a
    spelling [sp] of [a] is ANY tree derivable from the grammar of the recommendation that the
    recommendation declares equivalent to [a] (abbreviated or unabbreviated steps, [//], [.],
    [..], [@], omitted [child::], [n] or [position()=n], redundant parentheses) together with
    any choice of white space between tokens, [parse_expr] is the model of
    [xml_xpath::expr::parse] (the grammar REGENERATED from xpath/src/expr/mod.rs by T2,
    interpreted by Model/Peg.v, with the [map] functions interpreted by
    Model/ParseActionsXPath.v), and [abs_or] reads the Rust AST as a tree of the recommendation.

    PROVED HERE:
    - [parse_spell]: the first statement, for EVERY tree and every spelling of it, under the one
      hypothesis [no_fname_case (surface sp)] that excludes known finding C08-fname-case (after
      the D28 repair a function name that equals a NodeType up to letter case is rejected;
      [fname_case_refuted] is the witness [Text()]).  It is in fact stronger than [≈]: the
      parser returns exactly the tree that was spelled ([parse_spell_surface]): operators,
      unary minus, literals, numbers, variables, function calls, parentheses, filter expressions,
      predicates, the root, location paths with every axis, node test and abbreviation.
    - precedence and left associativity as corollaries: [precedence_right], [precedence_left],
      [left_assoc], [unary_binds_tighter], [union_binds_tightest],
      [other_grouping_needs_parentheses]; [parse_spell_partial_operators] is the first rung of
      the ladder (kept for reference).
    - the parser half of C06: [xpath_parse_terminates] (no input exhausts the fuel) and
      [parse_expr_total] / [parse_expr_never_panics] (on every string: a tree or a syntax error;
      no [unreachable!()] arm is reached).  The cost bound is established by the check only.

    MISSING: [spelling_irrelevant].  It follows from [parse_spell] once the evaluator model
    (Model/XPathEval.v, property C05) is shown to respect [≈]; until then that half is
    established by the failing-input search of checks/C08.py on the real [query] (every
    generated spelling pair is evaluated on documents).  The two canonical
    spellings computed by Spec/XPathSyntax.v ARE proved to be spellings: [paren] (minimal
    parentheses: [every_tree_has_a_spelling], [parse_spell_minimal]) and [abbreviate] (every
    abbreviation that applies: [parse_spell_abbreviated]); [spellings_agree] is the syntactic half
    of [spelling_irrelevant]. *)
From Coq Require Import List NArith Arith Bool.
From XmlRs Require Import Base.CPred Spec.XPathSyntax Model.Peg Model.XPathAst
  Model.ParseActionsXPath Model.XPathAstAbs Proofs.XPathParseExpr Proofs.XPathParseMain Proofs.XPathSyntaxLemmas Proofs.XPathParsePrecedence Proofs.XPathParseTotal.
Import ListNotations.

(** [Theorem]s have their assumptions re-checked on every run of checks/C08.py; [Corollary]s are
    consequences of them (their [Print Assumptions] is at the end of this file). *)

(** the parser of XPath expressions terminates on every input (parser half of C06) *)
Theorem xpath_parse_terminates : forall s : str, run_expr s <> Oof.
Proof. exact xpath_parse_terminates_proof. Qed.

Corollary xpath_parse_never_oof : forall s : str, parse_expr s <> POof.
Proof. exact xpath_parse_never_oof_proof. Qed.

(** ... and never panics: on EVERY string the parser answers a tree or a syntax error; none of the
    [unreachable!()] arms of expr/model.rs is reachable, no [map] function is applied to a value
    of the wrong type (parser half of C06, for the model of [expr::parse]) *)
Theorem parse_expr_total : forall s : str, (exists e r, parse_expr s = POk e r) \/ parse_expr s = PErr.
Proof. exact XPathParseTotal.parse_expr_total. Qed.

Corollary parse_expr_never_panics : forall s : str,
  parse_expr s <> PPanic /\ parse_expr s <> PBad /\ parse_expr s <> POof.
Proof. exact XPathParseTotal.parse_expr_never_panics. Qed.

(** the surface round trip: what was spelled is what is parsed *)
Theorem parse_spell_surface : forall (a : xexpr) (w : wtree),
  wfb a = true -> no_fname_case a = true -> ws_ok w = true ->
  exists e, parse_expr (spell_surface a w) = POk e [] /\ abs_or e = a.
Proof. exact parse_spell_surface_proof. Qed.

(** every spelling of every tree is accepted completely and means the tree (up to the
    equivalences of the recommendation) *)
Theorem parse_spell : forall (a : xexpr) (sp : spelling),
  ok_spelling a sp -> no_fname_case (surface sp) = true ->
  exists e, parse_expr (spell a sp) = POk e [] /\ abs_or e ≈ a.
Proof. exact parse_spell_proof. Qed.

(** the hypothesis [ok_spelling] is satisfiable for every tree with lexically valid leaves *)
Corollary every_tree_has_a_spelling : forall (a : xexpr) (w : wtree),
  leaves_ok a = true -> ws_ok w = true -> ok_spelling a {| surface := paren a; white := w |}.
Proof. exact every_tree_has_a_spelling_proof. Qed.

(** precedence in general: the spelling of ANY tree with only the parentheses the grammar demands
    ([paren]: minimal parentheses) parses back to that tree *)
Theorem parse_spell_minimal : forall (a : xexpr) (w : wtree),
  leaves_ok a = true -> no_fname_case a = true -> ws_ok w = true ->
  exists e, parse_expr (spell_surface (paren a) w) = POk e [] /\ abs_or e ≈ a.
Proof. exact parse_spell_minimal_proof. Qed.

(** abbreviated against unabbreviated: spelling a derivable tree with every abbreviation that
    applies gives a string that parses to an equivalent tree *)
Theorem parse_spell_abbreviated : forall (a : xexpr) (w : wtree),
  wfb a = true -> no_fname_case a = true -> ws_ok w = true ->
  exists e, parse_expr (spell_surface (abbreviate a) w) = POk e [] /\ abs_or e ≈ a.
Proof. exact parse_spell_abbreviated_proof. Qed.

(** any two spellings of one tree are accepted completely and parse to equivalent trees *)
Theorem spellings_agree : forall a sp1 sp2,
  ok_spelling a sp1 -> ok_spelling a sp2 ->
  no_fname_case (surface sp1) = true -> no_fname_case (surface sp2) = true ->
  exists e1 e2, parse_expr (spell a sp1) = POk e1 [] /\ parse_expr (spell a sp2) = POk e2 [] /\ abs_or e1 ≈ abs_or e2.
Proof. exact spellings_agree_proof. Qed.

(** rung 1 of the ladder *)
Corollary parse_spell_surface_operators : forall (a : xexpr) (w : wtree),
  wfb a = true -> rung1 a = true -> ws_ok w = true ->
  exists e, parse_expr (spell_surface a w) = POk e [] /\ abs_or e = a.
Proof. exact parse_spell_surface_operators_proof. Qed.

Corollary parse_spell_partial_operators : forall (a : xexpr) (sp : spelling),
  ok_spelling a sp -> rung1 (surface sp) = true ->
  exists e, parse_expr (spell a sp) = POk e [] /\ abs_or e ≈ a.
Proof. exact parse_spell_partial_operators_proof. Qed.

(** [a o1 b o2 c] with [o2] binding tighter groups to the right *)
Corollary precedence_right : forall o1 o2 a b c w,
  (lvl o1 < lvl o2)%nat -> operand a -> operand b -> operand c -> ws_ok w = true ->
  exists e, parse_expr (spell_surface (XBin o1 a (XBin o2 b c)) w) = POk e [] /\
            abs_or e = XBin o1 a (XBin o2 b c).
Proof. exact precedence_right_proof. Qed.

(** [a o1 b o2 c] with [o1] binding at least as tight groups to the left: higher precedence on
    the left, and LEFT ASSOCIATIVITY when the levels are equal *)
Corollary precedence_left : forall o1 o2 a b c w,
  (lvl o2 <= lvl o1)%nat -> operand a -> operand b -> operand c -> ws_ok w = true ->
  exists e, parse_expr (spell_surface (XBin o2 (XBin o1 a b) c) w) = POk e [] /\
            abs_or e = XBin o2 (XBin o1 a b) c.
Proof. exact precedence_left_proof. Qed.

Corollary left_assoc : forall o a b c w,
  operand a -> operand b -> operand c -> ws_ok w = true ->
  exists e, parse_expr (spell_surface (XBin o (XBin o a b) c) w) = POk e [] /\
            abs_or e = XBin o (XBin o a b) c.
Proof. exact left_assoc_proof. Qed.

(** the other grouping is not what the unparenthesised string means: it is not derivable
    without parentheses *)
Corollary other_grouping_needs_parentheses : forall o1 o2 a b c,
  ((lvl o1 < lvl o2)%nat -> wfb (XBin o2 (XBin o1 a b) c) = false) /\
  ((lvl o2 <= lvl o1)%nat -> wfb (XBin o1 a (XBin o2 b c)) = false).
Proof. exact other_grouping_needs_parentheses_proof. Qed.

(** unary minus binds tighter than every binary operator except union ... *)
Corollary unary_binds_tighter : forall o a b w,
  (lvl o < 6)%nat -> operand a -> operand b -> ws_ok w = true ->
  exists e, parse_expr (spell_surface (XBin o (XNeg a) b) w) = POk e [] /\
            abs_or e = XBin o (XNeg a) b.
Proof. exact unary_binds_tighter_proof. Qed.

(** ... and looser than union: the spelling of -(a|b) needs no parentheses *)
Corollary union_binds_tightest : forall a b w,
  operand a -> operand b -> ws_ok w = true ->
  exists e, parse_expr (spell_surface (XNeg (XBin BUnion a b)) w) = POk e [] /\
            abs_or e = XNeg (XBin BUnion a b).
Proof. exact union_binds_tightest_proof. Qed.

(** the hypotheses are satisfiable by a non-trivial value (Proofs/XPathParsePrecedence.v) *)
Check ex_hypotheses : wfb ex_tree = true /\ rung1 ex_tree = true /\ ws_ok ex_white = true.
Check ex_path_hypotheses : wfb ex_path = true /\ no_fname_case ex_path = true.
Check ex_path_parses : exists e, parse_expr (spell_surface ex_path (W false [] [])) = POk e [] /\ abs_or e = ex_path.

(** the known finding: a function name that differs from a NodeType only in letter case *)
Theorem fname_case_refuted : exists f : xqname,
  KnownFnameCase f = true /\ wfb (XCall f []) = true /\
  forall e, parse_expr (spell_surface (XCall f []) (W false [] [])) <> POk e [].
Proof. exact fname_case_refuted_proof. Qed.

Print Assumptions xpath_parse_terminates.
Print Assumptions parse_expr_total.
Print Assumptions parse_expr_never_panics.
Print Assumptions parse_spell_surface.
Print Assumptions parse_spell.
Print Assumptions every_tree_has_a_spelling.
Print Assumptions parse_spell_minimal.
Print Assumptions parse_spell_abbreviated.
Print Assumptions spellings_agree.
Print Assumptions parse_spell_surface_operators.
Print Assumptions parse_spell_partial_operators.
Print Assumptions precedence_right.
Print Assumptions precedence_left.
Print Assumptions left_assoc.
Print Assumptions other_grouping_needs_parentheses.
Print Assumptions unary_binds_tighter.
Print Assumptions union_binds_tightest.
Print Assumptions fname_case_refuted.
