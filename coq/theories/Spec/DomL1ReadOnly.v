(** * DOM Level 1 Core: the read-only NamedNodeMaps of a DocumentType (property C13, exception class
    NO_MODIFICATION_ALLOWED_ERR) -- an extension of the abstract machine of Spec/DomL1.v

    Transcribed from REC-DOM-Level-1-19981001, section 1.3, interface DocumentType:

      "entities  -- A NamedNodeMap containing the general entities, both external and internal, declared in the
       DTD. [...]  The DOM Level 1 does not support editing entities, therefore entities cannot be altered in
       any way."
      "notations -- A NamedNodeMap containing the notations declared in the DTD. [...]  The DOM Level 1 does not
       support editing notations, therefore notations cannot be altered in any way."

    section 1.2, interface NamedNodeMap:

      "setNamedItem [...] Exceptions [...] NO_MODIFICATION_ALLOWED_ERR: Raised if this NamedNodeMap is readonly."
      "removeNamedItem [...] Exceptions  NOT_FOUND_ERR: Raised if there is no node named name in the map."

    and ExceptionCode: "NO_MODIFICATION_ALLOWED_ERR  If an attempt is made to modify an object where modifications
    are not allowed".  Independent of /repo.

    READING R8 (continues the list R1-R7 of Spec/DomL1.v).  Both maps of a DocumentType are readonly.  Every
    [setNamedItem] and every [removeNamedItem] on them raises NO_MODIFICATION_ALLOWED_ERR and leaves the state as
    it was.  The readonly test is made first, in the spirit of R2 (several exceptions may apply to one call and
    Level 1 does not order them):
    - [setNamedItem(arg)] with [arg] taken from the map of ANOTHER document: WRONG_DOCUMENT_ERR applies as well;
      the machine answers NO_MODIFICATION_ALLOWED_ERR (the map is readonly whatever the argument is);
    - [removeNamedItem(name)]: Level 1 lists only NOT_FOUND_ERR for this method (NO_MODIFICATION_ALLOWED_ERR "Raised
      if this map is readonly" was added to it by DOM Level 2).  For a name that IS in the map Level 1 names no code
      although the map "cannot be altered in any way": the machine takes the code whose definition fits, the one
      Level 2 prescribes.  For a name that is NOT in the map the letter of Level 1 is NOT_FOUND_ERR; Level 2 lists
      both codes, unordered.  The machine answers NO_MODIFICATION_ALLOWED_ERR here too (readonly first).  This is
      the one place where R8 departs from the letter of Level 1; both answers leave the state unchanged.
    Reading R6 applies as before: a call that cannot be written -- the node is no Document with a document type and
    no DocumentType, or the argument of [setNamedItem] does not exist (the only source of Entity / Notation nodes is
    a lookup in such a map, and the lookup found nothing) -- is answered [ANotOffered].

    The state of Spec/DomL1.v records the entities of a DocumentType ([n_entities]) but not its notations: for the
    notations map the result of the lookup that produced the argument is part of the operation ([declared]). *)
From Coq Require Import List NArith Bool.
From XmlRs Require Import Base.CPred Spec.DomCharData Spec.DomL1.
Import ListNotations.
Open Scope N_scope.

Inductive amap := AEntities | ANotations.

(** how the argument of [setNamedItem] was obtained from the map of [src] *)
Inductive akey :=
| AByName (name : str)     (* getNamedItem(name) *)
| AByIndex (i : N).        (* item(i) *)

Inductive aro_op :=
| AMapSetNamedItem (m : amap) (r src : nid) (k : akey) (declared : bool)
| AMapRemoveNamedItem (m : amap) (r : nid) (name : str).

(** the DocumentType a node gives access to: [Document.doctype] ("For documents without a document type
    declaration this returns null"), or the DocumentType node itself *)
Definition ro_doctype (a : adom) (r : nid) : option anode :=
  match doc_of a (fst r), aget a r with
  | Some d, Some rn =>
    match n_type rn with
    | TDocument => doctype_of d
    | TDoctype => Some rn
    | _ => None
    end
  | _, _ => None
  end.

Definition key_found (names : list str) (k : akey) : bool :=
  match k with
  | AByName n => existsb (str_eqb n) names
  | AByIndex i => match nth_error names (N.to_nat i) with Some _ => true | None => false end
  end.

(** the lookup that produces the argument returns a node *)
Definition ro_arg_exists (a : adom) (m : amap) (src : nid) (k : akey) (declared : bool) : bool :=
  match ro_doctype a src with
  | Some t => match m with
              | AEntities => key_found (map fst (n_entities t)) k
              | ANotations => declared
              end
  | None => false
  end.

Definition dom_step_ro (a : adom) (o : aro_op) : adom * aoutcome :=
  match o with
  | AMapSetNamedItem m r src k declared =>
    match ro_doctype a r with
    | Some _ => if ro_arg_exists a m src k declared then raise a NoModificationAllowedErr else (a, ANotOffered)
    | None => (a, ANotOffered)
    end
  | AMapRemoveNamedItem m r name =>
    match ro_doctype a r with
    | Some _ => raise a NoModificationAllowedErr
    | None => (a, ANotOffered)
    end
  end.

(** "the implementation conforms on this call" ([before]: the state in which the call was made, [after] / [got]:
    what the implementation did); no reading R1 is involved *)
Definition conforms_ro (before : adom) (o : aro_op) (after : adom) (got : aoutcome) : Prop :=
  after = fst (dom_step_ro before o) /\ got = snd (dom_step_ro before o).
