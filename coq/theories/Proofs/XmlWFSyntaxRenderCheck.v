(** * C01, the constraints on rendered documents without DOCTYPE: what is read back from the rendering
    of an abstract node ([reads], Proofs/XmlWFSyntaxRenderNode.v) passes the well-formedness constraints
    ([expand], [tree_ok]) and the namespace constraints ([ns_tree]) whenever the canonical tree [to_x]
    of the node does.  The two trees differ by: the order of the attributes, the pieces chosen for the
    attribute values (same normalized value), the items chosen for character data (same characters),
    empty-element tags.  [reads_checks]. *)
From Coq Require Import List NArith Arith Lia Bool Permutation.
From XmlRs Require Import Base.CPred Spec.XmlChars Spec.XmlWF Spec.Infoset Proofs.XmlWFRender Proofs.XmlWFSyntaxRenderNode.
From XmlRs Require Proofs.XmlWFSyntaxCheck Proofs.XmlWFSyntaxConvCheck.
Import ListNotations.
Local Open Scope nat_scope.

Notation en0 := XmlWFSyntaxCheck.en0.

(** ** lists, permutations, association lists *)
Lemma str_eqb_true (a b : str) : str_eqb a b = true <-> a = b.
Proof. split; [apply XmlWFSyntaxCheck.Wstr_eqb_eq|intros ->; apply XmlWFSyntaxCheck.Wstr_eqb_refl]. Qed.

Lemma mem_In (k : str) (l : list str) : mem k l = true <-> In k l.
Proof.
  unfold mem. rewrite existsb_exists. split.
  - intros [x [Hin E]]. apply str_eqb_true in E. subst x. exact Hin.
  - intros Hin. exists k. split; [exact Hin|apply str_eqb_true; reflexivity].
Qed.

Lemma nodup_names_NoDup (l : list str) : nodup_names l = true <-> NoDup l.
Proof.
  induction l as [|x l IH]; cbn [nodup_names]; [split; [constructor|reflexivity]|].
  rewrite andb_true_iff, negb_true_iff, IH. split.
  - intros [Hm Hn]. constructor; [|exact Hn]. intros Hin. apply mem_In in Hin. congruence.
  - intros H. inversion H as [|? ? Hx Hl]; subst. split; [|exact Hl]. destruct (mem x l) eqn:E; [|reflexivity]. apply mem_In in E. contradiction.
Qed.

Lemma forallb_perm {A} (f : A -> bool) (l1 l2 : list A) : Permutation l1 l2 -> forallb f l1 = forallb f l2.
Proof.
  induction 1 as [|x l l' _ IH|x y l|l l' l'' _ IH1 _ IH2]; cbn [forallb]; [reflexivity|now rewrite IH| |congruence].
  destruct (f x), (f y); reflexivity.
Qed.

Lemma filter_perm {A} (f : A -> bool) (l1 l2 : list A) : Permutation l1 l2 -> Permutation (filter f l1) (filter f l2).
Proof.
  induction 1 as [|x l l' _ IH|x y l|l l' l'' _ IH1 _ IH2]; cbn [filter]; [constructor| | |eapply perm_trans; eassumption].
  - destruct (f x); [now constructor|exact IH].
  - destruct (f x), (f y); try reflexivity. apply perm_swap.
Qed.

Lemma assoc_app {A} (k : str) (a b : list (str * A)) :
  assoc k (a ++ b) = match assoc k a with Some v => Some v | None => assoc k b end.
Proof. induction a as [|[k' v] a IH]; [reflexivity|]. cbn [app assoc]. destruct (str_eqb k k'); [reflexivity|exact IH]. Qed.

Lemma assoc_perm {A} (k : str) (l1 l2 : list (str * A)) : Permutation l1 l2 -> NoDup (map fst l1) -> assoc k l1 = assoc k l2.
Proof.
  induction 1 as [|[k' v] l l' _ IH|[k1 v1] [k2 v2] l|l l' l'' H1 IH1 H2 IH2]; intros Hnd.
  - reflexivity.
  - cbn [assoc]. cbn [map fst] in Hnd. inversion Hnd; subst. rewrite IH by assumption. reflexivity.
  - cbn [assoc]. cbn [map fst] in Hnd. inversion Hnd as [|? ? Hx _]; subst.
    destruct (str_eqb k k1) eqn:E1, (str_eqb k k2) eqn:E2; try reflexivity.
    apply str_eqb_true in E1. apply str_eqb_true in E2. subst. exfalso. apply Hx. left. reflexivity.
  - rewrite IH1 by exact Hnd. apply IH2. eapply Permutation_NoDup; [|exact Hnd]. apply Permutation_map. exact H1.
Qed.

Definition scope_eq (s1 s2 : list (str * str)) : Prop := forall p, assoc p s1 = assoc p s2.

(** the test for duplicate expanded names, as a top-level function *)
Fixpoint nodup_pairs (l : list (str * str)) : bool :=
  match l with
  | [] => true
  | (u, n) :: t => negb (existsb (fun '(u', n') => str_eqb u u' && str_eqb n n') t) && nodup_pairs t
  end.

Lemma nodup_pairs_NoDup (l : list (str * str)) : nodup_pairs l = true <-> NoDup l.
Proof.
  induction l as [|[u n] l IH]; cbn [nodup_pairs]; [split; [constructor|reflexivity]|].
  rewrite andb_true_iff, negb_true_iff, IH.
  assert (Hex : existsb (fun '(u', n') => str_eqb u u' && str_eqb n n') l = true <-> In (u, n) l).
  { rewrite existsb_exists. split.
    - intros [[u' n'] [Hin E]]. apply andb_true_iff in E. destruct E as [E1 E2]. apply str_eqb_true in E1. apply str_eqb_true in E2. subst. exact Hin.
    - intros Hin. exists (u, n). split; [exact Hin|]. apply andb_true_iff. split; apply str_eqb_true; reflexivity. }
  split.
  - intros [Hm Hn]. constructor; [|exact Hn]. intros Hin. apply Hex in Hin. congruence.
  - intros H. inversion H as [|? ? Hx Hl]; subst. split; [|exact Hl].
    apply not_true_is_false. intros E. apply Hex in E. contradiction.
Qed.

Lemma nodup_pairs_perm (l1 l2 : list (str * str)) : Permutation l1 l2 -> nodup_pairs l1 = nodup_pairs l2.
Proof.
  intros H. destruct (nodup_pairs l1) eqn:E1, (nodup_pairs l2) eqn:E2; try reflexivity.
  - apply nodup_pairs_NoDup in E1. assert (NoDup l2) as H2 by (eapply Permutation_NoDup; eassumption). apply nodup_pairs_NoDup in H2. congruence.
  - apply nodup_pairs_NoDup in E2. assert (NoDup l1) as H1 by (eapply Permutation_NoDup; [symmetry|]; eassumption). apply nodup_pairs_NoDup in H1. congruence.
Qed.

(** ** the namespace test of one element, as a function of the attribute names with their normalized values *)
Definition nval (a : str * list avpiece) : str * str := (fst a, av_value 6 en0 (snd a)).

Definition declsL (L : list (str * str)) : list (str * str) :=
  flat_map (fun '(a, u) => match split_qname a with
                           | (Some p, l) => if str_eqb p s_xmlns then [(l, u)] else []
                           | _ => [] end) L.
Definition dfltL (L : list (str * str)) : list str :=
  flat_map (fun '(a, u) => if str_eqb a s_xmlns then [u] else []) L.
Definition other (a : str * str) : bool :=
  negb (str_eqb (fst a) s_xmlns) && match split_qname (fst a) with (Some p, _) => negb (str_eqb p s_xmlns) | _ => true end.
Definition bound (sc : list (str * str)) (p : str) : option str := if str_eqb p s_xml then Some ns_xml else assoc p sc.
Definition exp_name (sc : list (str * str)) (a : str * str) : str * str :=
  match split_qname (fst a) with
  | (Some p, l) => (match bound sc p with Some u => u | None => [] end, l)
  | (None, l) => ([], l) end.
Definition decl_ok (pu : str * str) : bool :=
  let '(p, u) := pu in
  negb (str_eqb p s_xmlns) && Bool.eqb (str_eqb p s_xml) (str_eqb u ns_xml) && negb (str_eqb u ns_xmlns)
  && negb (match u with [] => true | _ => false end).
Definition pref_ok (sc : list (str * str)) (a : str) : bool :=
  match split_qname a with (Some p, _) => match bound sc p with Some _ => true | None => false end | _ => true end.

Definition g1 (nm : str) (L : list (str * str)) : bool := is_QName nm && forallb (fun a => is_QName (fst a)) L.
Definition g2 (L : list (str * str)) : bool :=
  forallb decl_ok (declsL L) && forallb (fun u => negb (str_eqb u ns_xml) && negb (str_eqb u ns_xmlns)) (dfltL L).
Definition g3 (nm : str) (L : list (str * str)) (sc : list (str * str)) : bool :=
  match split_qname nm with
  | (Some p, _) => negb (str_eqb p s_xmlns) && match bound sc p with Some _ => true | None => false end
  | _ => true end
  && forallb (fun a => pref_ok sc (fst a)) (filter other L).
Definition g4 (L : list (str * str)) (sc : list (str * str)) : bool := nodup_pairs (map (exp_name sc) (filter other L)).

Lemma flat_map_map {A B C} (g : A -> B) (f : B -> list C) (l : list A) : flat_map f (map g l) = flat_map (fun x => f (g x)) l.
Proof. induction l as [|x l IH]; [reflexivity|]. cbn [map flat_map]. now rewrite IH. Qed.

Lemma filter_map_comm {A B} (g : A -> B) (f : B -> bool) (l : list A) : filter f (map g l) = map g (filter (fun x => f (g x)) l).
Proof. induction l as [|x l IH]; [reflexivity|]. cbn [map filter]. destruct (f (g x)); cbn [map]; now rewrite IH. Qed.

Lemma forallb_map' {A B} (g : A -> B) (f : B -> bool) (l : list A) : forallb f (map g l) = forallb (fun x => f (g x)) l.
Proof. induction l as [|x l IH]; [reflexivity|]. cbn [map forallb]. now rewrite IH. Qed.

Lemma forallb_ext2 {A} (f g : A -> bool) (l : list A) : (forall x, f x = g x) -> forallb f l = forallb g l.
Proof. intros H. induction l as [|x l IH]; [reflexivity|]. cbn [forallb]. now rewrite H, IH. Qed.

Lemma decls_eq (atts : list (str * list avpiece)) :
  flat_map (fun '(a, v) => match split_qname a with
                           | (Some p, l) => if str_eqb p s_xmlns then [(l, av_value 6 en0 v)] else []
                           | _ => [] end) atts = declsL (map nval atts).
Proof. unfold declsL. rewrite flat_map_map. apply flat_map_ext. intros [a v]. reflexivity. Qed.

Lemma dflt_eq (atts : list (str * list avpiece)) :
  flat_map (fun '(a, v) => if str_eqb a s_xmlns then [av_value 6 en0 v] else []) atts = dfltL (map nval atts).
Proof. unfold dfltL. rewrite flat_map_map. apply flat_map_ext. intros [a v]. reflexivity. Qed.

Lemma others_eq (atts : list (str * list avpiece)) :
  map nval (filter (fun '(a, _) => negb (str_eqb a s_xmlns) &&
                                    match split_qname a with (Some p, _) => negb (str_eqb p s_xmlns) | _ => true end) atts)
  = filter other (map nval atts).
Proof. rewrite filter_map_comm. f_equal. apply filter_ext. intros [a v]. reflexivity. Qed.

Lemma ns_tree_elem_eq scope nm atts et kids :
  ns_tree 6 en0 [] scope (XElem nm atts et kids) =
  andc (guard (g1 nm (map nval atts)) RNsName)
 (andc (guard (g2 (map nval atts)) RNsReserved)
 (andc (guard (g3 nm (map nval atts) (declsL (map nval atts) ++ scope)) RNsPrefix)
 (andc (guard (g4 (map nval atts) (declsL (map nval atts) ++ scope)) RNsDupAttr)
       (allc (ns_tree 6 en0 [] (declsL (map nval atts) ++ scope)) kids)))).
Proof.
  cbn [ns_tree]. change (defaulted_atts [] nm atts) with (@nil (str * list avpiece)). rewrite !app_nil_r.
  rewrite !decls_eq, !dflt_eq.
  assert (Hg : forall a b r, a = b -> guard a r = guard b r) by (intros a b r ->; reflexivity).
  apply (f_equal2 andc); [apply Hg|apply (f_equal2 andc); [apply Hg|apply (f_equal2 andc); [apply Hg|apply (f_equal2 andc); [apply Hg|reflexivity]]]].
  - unfold g1. rewrite forallb_map'. reflexivity.
  - unfold g2. f_equal; try (apply forallb_ext2; intros [p u]; reflexivity).
  - unfold g3. f_equal; try (rewrite <- others_eq, forallb_map'; apply forallb_ext2; intros [a v]; reflexivity).
  - unfold g4. rewrite <- others_eq, map_map.
    match goal with |- _ ?l = _ => change (nodup_pairs l = nodup_pairs (map (fun x => exp_name (declsL (map nval atts) ++ scope) (nval x))
       (filter (fun '(a, _) => negb (str_eqb a s_xmlns) && match split_qname a with (Some p, _) => negb (str_eqb p s_xmlns) | _ => true end) atts))) end.
    f_equal. apply map_ext. intros [a v]. reflexivity.
Qed.

(** ** the namespace test of an element does not depend on the order of the attributes *)
Lemma g1_perm nm L1 L2 : Permutation L1 L2 -> g1 nm L1 = g1 nm L2.
Proof. intros H. unfold g1. now rewrite (forallb_perm _ _ _ H). Qed.

Lemma declsL_perm L1 L2 : Permutation L1 L2 -> Permutation (declsL L1) (declsL L2).
Proof. apply Permutation_flat_map. Qed.

Lemma dfltL_perm L1 L2 : Permutation L1 L2 -> Permutation (dfltL L1) (dfltL L2).
Proof. apply Permutation_flat_map. Qed.

Lemma g2_perm L1 L2 : Permutation L1 L2 -> g2 L1 = g2 L2.
Proof. intros H. unfold g2. now rewrite (forallb_perm _ _ _ (declsL_perm _ _ H)), (forallb_perm _ _ _ (dfltL_perm _ _ H)). Qed.

Lemma split_qname_app a p l : split_qname a = (Some p, l) -> a = p ++ colon :: l.
Proof.
  unfold split_qname. destruct (split_colon a) as [[p' l']|] eqn:E; [|discriminate]. intros H. injection H as <- <-.
  now apply split_colon_app.
Qed.

Lemma in_declsL l u L : In (l, u) (declsL L) -> In (s_xmlns ++ colon :: l, u) L.
Proof.
  unfold declsL. intros H. apply in_flat_map in H. destruct H as [[a u'] [Hin H]].
  destruct (split_qname a) as [[p|] l'] eqn:E; [|destruct H]. destruct (str_eqb p s_xmlns) eqn:Ep; [|destruct H].
  destruct H as [H|[]]. injection H as <- <-. apply str_eqb_true in Ep. subst p. apply split_qname_app in E. subst a. exact Hin.
Qed.

Lemma declsL_nodup L : NoDup (map fst L) -> NoDup (map fst (declsL L)).
Proof.
  induction L as [|[a u] L IH]; intros H; [constructor|]. cbn [map fst] in H. inversion H as [|? ? Ha HL]; subst.
  change (declsL ((a, u) :: L)) with ((match split_qname a with
                           | (Some p, l) => if str_eqb p s_xmlns then [(l, u)] else []
                           | _ => [] end) ++ declsL L).
  destruct (split_qname a) as [[p|] l] eqn:E; [|exact (IH HL)]. destruct (str_eqb p s_xmlns) eqn:Ep; [|exact (IH HL)].
  cbn [app map fst]. constructor; [|exact (IH HL)]. intros Hin. apply in_map_iff in Hin. destruct Hin as [[l' u'] [El Hin]]. cbn [fst] in El. subst l'.
  apply in_declsL in Hin. apply str_eqb_true in Ep. subst p. apply split_qname_app in E. subst a.
  apply Ha. apply in_map_iff. exists (s_xmlns ++ colon :: l, u'). split; [reflexivity|exact Hin].
Qed.

Lemma scope_ext L1 L2 s1 s2 : Permutation L1 L2 -> NoDup (map fst L1) -> scope_eq s1 s2 ->
  scope_eq (declsL L1 ++ s1) (declsL L2 ++ s2).
Proof.
  intros HP Hnd Hs p. rewrite !assoc_app. rewrite (assoc_perm p _ _ (declsL_perm _ _ HP) (declsL_nodup _ Hnd)). rewrite (Hs p). reflexivity.
Qed.

Lemma bound_eq sc1 sc2 p : scope_eq sc1 sc2 -> bound sc1 p = bound sc2 p.
Proof. intros H. unfold bound. now rewrite (H p). Qed.

Lemma g3_eq nm L1 L2 sc1 sc2 : Permutation L1 L2 -> scope_eq sc1 sc2 -> g3 nm L1 sc1 = g3 nm L2 sc2.
Proof.
  intros HP Hs. unfold g3. f_equal.
  - destruct (split_qname nm) as [[p|] l]; [|reflexivity]. now rewrite (bound_eq _ _ p Hs).
  - rewrite (forallb_perm _ _ _ (filter_perm other _ _ HP)). apply forallb_ext2. intros a. unfold pref_ok.
    destruct (split_qname (fst a)) as [[p|] l]; [|reflexivity]. now rewrite (bound_eq _ _ p Hs).
Qed.

Lemma g4_eq L1 L2 sc1 sc2 : Permutation L1 L2 -> scope_eq sc1 sc2 -> g4 L1 sc1 = g4 L2 sc2.
Proof.
  intros HP Hs. unfold g4. rewrite (nodup_pairs_perm _ _ (Permutation_map (exp_name sc1) (filter_perm other _ _ HP))).
  f_equal. apply map_ext. intros a. unfold exp_name. destruct (split_qname (fst a)) as [[p|] l]; [|reflexivity]. now rewrite (bound_eq _ _ p Hs).
Qed.

(** ** the attributes read back against the canonical ones *)
Definition canon_atts (atts : list (str * list aitem)) : list (str * list avpiece) := map (fun a => (fst a, att_pieces (snd a))) atts.

Lemma std_predef_en0 : std_predef en0.
Proof.
  intros nm t Hin. cbn [predefined In] in Hin.
  destruct Hin as [H|[H|[H|[H|[H|[]]]]]]; injection H as <- <-; reflexivity.
Qed.

Lemma nval_read (atts' : list (str * list aitem)) parsed : Forall2 att_read atts' parsed ->
  map nval parsed = map nval (canon_atts atts').
Proof.
  induction 1 as [|a pa atts' parsed [Hn (q & c & p & i & Hq & Hv)] _ IH]; [reflexivity|].
  cbn [map canon_atts]. fold (canon_atts atts'). rewrite IH. f_equal. unfold nval. cbn [fst snd]. rewrite Hn, Hv.
  f_equal. exact (att_value_choice_independent 4 en0 q c p (snd a) i Hq std_predef_en0).
Qed.

Lemma atts_read_nval atts parsed : atts_read atts parsed -> Permutation (map nval parsed) (map nval (canon_atts atts)).
Proof.
  intros (atts' & HP & HF). rewrite (nval_read _ _ HF). apply Permutation_map. unfold canon_atts. apply Permutation_map. exact HP.
Qed.

Lemma atts_read_names atts parsed : atts_read atts parsed -> Permutation (map fst parsed) (map fst atts).
Proof.
  intros (atts' & HP & HF). assert (map fst parsed = map fst atts') as ->.
  { clear HP. induction HF as [|a pa atts' parsed [Hn _] _ IH]; [reflexivity|]. cbn [map]. now rewrite Hn, IH. }
  apply Permutation_map. exact HP.
Qed.

(** ** attribute values: Legal Character, Entity Declared, No < in Attribute Values *)
Module C := XmlWFSyntaxCheck.
Module V := XmlWFSyntaxConvCheck.

Lemma predef_name_is_predef ch nm : predef_name ch = Some nm -> C.is_predef nm.
Proof.
  unfold predef_name, C.is_predef.
  repeat (match goal with |- (if ?b then _ else _) = _ -> _ => destruct b; [intros H; injection H as <-; unfold s_lt, s_gt, s_amp, s_apos, s_quot; tauto|] end).
  discriminate.
Qed.

Lemma lit_pieces_ok q c p : forall s i, all_chars s = true -> av_ok 6 en0 [] (lit_pieces q c p i s) = None.
Proof.
  induction s as [|ch s IH]; intros i Hc; [reflexivity|]. cbn [all_chars forallb] in Hc. apply andb_true_iff in Hc. destruct Hc as [Hch Hs].
  cbn [lit_pieces]. change (lit_piece q (c (i :: p)) ch :: lit_pieces q c p (i + 1) s) with ([lit_piece q (c (i :: p)) ch] ++ lit_pieces q c p (i + 1) s).
  apply C.av_ok_app; [|apply IH; exact Hs].
  destruct (lit_piece_rel q (c (i :: p)) ch) as [->|[->|[nm [Hn ->]]]].
  - exact (C.av_ok_lits [ch]).
  - apply C.av_ok_char. exact Hch.
  - apply C.predef_av. eapply predef_name_is_predef. exact Hn.
Qed.

Lemma av_ok_read q c p : forall v i, items_ok v = true -> av_ok 6 en0 [] (att_pieces v) = None ->
  av_ok 6 en0 [] (items_pieces q c p i v) = None.
Proof.
  induction v as [|it v IH]; intros i Hok Hav; [reflexivity|]. cbn [items_ok forallb] in Hok. apply andb_true_iff in Hok. destruct Hok as [Hit Hv].
  destruct it as [s|nm].
  - rewrite att_pieces_cons_text in Hav. apply V.av_ok_app_inv in Hav. destruct Hav as [_ Hav].
    cbn [items_pieces]. apply C.av_ok_app; [apply lit_pieces_ok; exact Hit|apply IH; assumption].
  - change (att_pieces (IRef nm :: v)) with (AvEnt nm :: att_pieces v) in Hav. apply V.av_ok_cons_inv in Hav. destruct Hav as [H1 H2].
    cbn [items_pieces]. change (AvEnt nm :: items_pieces q c p (i + 1) v) with ([AvEnt nm] ++ items_pieces q c p (i + 1) v).
    apply C.av_ok_app; [exact H1|apply IH; assumption].
Qed.

Lemma allc_In {A} (g : A -> chk) (l : list A) x : allc g l = None -> In x l -> g x = None.
Proof.
  induction l as [|y l IH]; intros H Hin; [destruct Hin|]. apply V.allc_cons_inv in H. destruct H as [Hy Hl].
  destruct Hin as [->|Hin]; [exact Hy|exact (IH Hl Hin)].
Qed.

Lemma atts_av_ok atts parsed : forallb att_ok atts = true -> atts_read atts parsed ->
  allc (fun a : str * list avpiece => av_ok 6 en0 [] (snd a)) (canon_atts atts) = None ->
  allc (fun a : str * list avpiece => av_ok 6 en0 [] (snd a)) parsed = None.
Proof.
  intros Hok (atts' & HP & HF) Hav.
  assert (Hall : forall a, In a atts' -> items_ok (snd a) = true /\ av_ok 6 en0 [] (att_pieces (snd a)) = None).
  { intros a Hin. apply (Permutation_in _ HP) in Hin. split.
    - rewrite forallb_forall in Hok. specialize (Hok a Hin). unfold att_ok in Hok. apply andb_true_iff in Hok. tauto.
    - apply (allc_In _ _ (fst a, att_pieces (snd a)) Hav). unfold canon_atts. apply in_map_iff. exists a. auto. }
  clear HP Hav Hok. induction HF as [|a pa atts' parsed [_ (q & c & p & i & Hq & Hv)] _ IH]; [reflexivity|].
  apply C.allc_cons.
  - rewrite Hv. destruct (Hall a (or_introl eq_refl)) as [H1 H2]. apply av_ok_read; assumption.
  - apply IH. intros b Hb. apply Hall. right. exact Hb.
Qed.

(** ** character data *)
Lemma predef_expand_ns nm : C.is_predef nm ->
  exists its, expand 6 en0 [] (XEntRef nm) = inr (XExp nm its) /\ tree_ok 6 en0 (XExp nm its) = None /\
              forall sc, ns_tree 6 en0 [] sc (XExp nm its) = None.
Proof.
  intros [->|[->|[->|[->| ->]]]]; eexists; (split; [vm_compute; reflexivity|]); (split; [vm_compute; reflexivity|]); intros sc; vm_compute; reflexivity.
Qed.

Lemma textlike_checks items : Forall textlike items ->
  exists r', mapM (expand 6 en0 []) items = inr r' /\ allc (tree_ok 6 en0) r' = None /\ forall sc, allc (ns_tree 6 en0 [] sc) r' = None.
Proof.
  induction 1 as [|x items Hx _ (r' & E & T & N)]; [exists []; repeat split; reflexivity|].
  assert (exists y, expand 6 en0 [] x = inr y /\ tree_ok 6 en0 y = None /\ forall sc, ns_tree 6 en0 [] sc y = None) as (y & Ey & Ty & Ny).
  { destruct Hx as [ch|ch Hch|s|nm ch Hn].
    - eexists. repeat split; reflexivity.
    - eexists. split; [reflexivity|]. split; [cbn [tree_ok]; rewrite Hch; reflexivity|reflexivity].
    - eexists. repeat split; reflexivity.
    - destruct (predef_expand_ns nm (predef_name_is_predef _ _ Hn)) as (its & H1 & H2 & H3). eauto. }
  exists (y :: r'). split; [cbn [mapM]; rewrite Ey, E; reflexivity|]. split; [apply C.allc_cons; assumption|].
  intros sc. apply C.allc_cons; [apply Ny|apply N].
Qed.

Lemma map_XChar_checks (s : str) : mapM (expand 6 en0 []) (map XChar s) = inr (map XChar s).
Proof. apply C.mapM_id. intros x Hx. apply in_map_iff in Hx. destruct Hx as [ch [<- _]]. reflexivity. Qed.

(** ** the tree *)
Definition checks_to (x : anode) : Prop :=
  forall items, reads x items -> forall r0, mapM (expand 6 en0 []) (to_x x) = inr r0 -> allc (tree_ok 6 en0) r0 = None ->
  forall s0 s', scope_eq s0 s' -> allc (ns_tree 6 en0 [] s0) r0 = None ->
  exists r', mapM (expand 6 en0 []) items = inr r' /\ allc (tree_ok 6 en0) r' = None /\ allc (ns_tree 6 en0 [] s') r' = None.

Lemma kids_checks kids : Forall (fun y => syn_ok y = true -> checks_to y) kids -> forallb syn_ok kids = true ->
  forall kitems, reads_list kids kitems -> forall ck, mapM (expand 6 en0 []) (flat_map to_x kids) = inr ck -> allc (tree_ok 6 en0) ck = None ->
  forall s0 s', scope_eq s0 s' -> allc (ns_tree 6 en0 [] s0) ck = None ->
  exists r', mapM (expand 6 en0 []) kitems = inr r' /\ allc (tree_ok 6 en0) r' = None /\ allc (ns_tree 6 en0 [] s') r' = None.
Proof.
  induction 1 as [|y t Hy _ IH]; intros Hok kitems Hr ck Hm Ht s0 s' Hs Hn.
  - cbn [reads_list] in Hr. subst kitems. exists []. repeat split; reflexivity.
  - cbn [forallb] in Hok. apply andb_true_iff in Hok. destruct Hok as [Hoy Hot].
    cbn [reads_list] in Hr. destruct Hr as (iy & its & -> & Ry & Rt).
    cbn [flat_map] in Hm. apply V.mapM_app_inv in Hm. destruct Hm as (cy & ct & My & Mt & ->).
    apply V.allc_app_inv in Ht. destruct Ht as [Ty Tt]. apply V.allc_app_inv in Hn. destruct Hn as [Ny Nt].
    destruct (Hy Hoy iy Ry cy My Ty s0 s' Hs Ny) as (ry & E1 & T1 & N1).
    destruct (IH Hot its Rt ct Mt Tt s0 s' Hs Nt) as (rt & E2 & T2 & N2).
    exists (ry ++ rt). split; [apply C.mapM_app; assumption|]. split; apply C.allc_app; assumption.
Qed.

Theorem reads_checks : forall x, syn_ok x = true -> checks_to x.
Proof.
  induction x as [s|nm|s|t d|nm atts kids IHk] using anode_ind2; intros Hok items Hr r0 Hm Ht s0 s' Hs Hn; cbn [syn_ok] in Hok; cbn [to_x] in Hm.
  - destruct Hr as [Htl _]. destruct (textlike_checks items Htl) as (r' & E & T & N). exists r'. auto.
  - cbn [reads] in Hr. subst items. exists r0. split; [exact Hm|]. split; [exact Ht|].
    apply V.mapM_cons_inv in Hm. destruct Hm as (y & ys & Ey & Eys & ->). cbn [mapM] in Eys. injection Eys as <-.
    destruct (V.expand_entref nm y Ey) as [x Hx].
    assert (C.is_predef nm) as Hp.
    { change (e_ents en0) with (with_predefined []) in Hx. destruct (Model.Info.predefined nm) as [e|] eqn:P; [eapply C.predefined_cases; exact P|].
      rewrite (V.predef_none' nm P) in Hx. discriminate Hx. }
    destruct (predef_expand_ns nm Hp) as (its & H1 & H2 & H3). rewrite H1 in Ey. injection Ey as <-.
    apply C.allc_cons; [apply H3|reflexivity].
  - cbn [reads] in Hr. subst items. exists r0. split; [exact Hm|]. split; [exact Ht|]. cbn [mapM expand] in Hm. injection Hm as <-. reflexivity.
  - cbn [reads] in Hr. subst items. exists r0. split; [exact Hm|]. split; [exact Ht|]. cbn [mapM expand] in Hm. injection Hm as <-. exact Hn.
  - apply andb_true_iff in Hok. destruct Hok as [Hok _]. apply andb_true_iff in Hok. destruct Hok as [Hok Hkids].
    apply andb_true_iff in Hok. destruct Hok as [Hnm Hatts].
    apply reads_elem in Hr. destruct Hr as (parsed & et & kitems & -> & Hrd & Het & Rk).
    fold (canon_atts atts) in Hm.
    apply V.mapM_cons_inv in Hm. destruct Hm as (y & ys & Ey & Eys & ->). cbn [mapM] in Eys. injection Eys as <-.
    rewrite C.expand_elem in Ey. destruct (mapM (expand 6 en0 []) (flat_map to_x kids)) as [e|ck] eqn:Ek; [discriminate|]. injection Ey as <-.
    apply V.allc_cons_inv in Ht. destruct Ht as [Ht _]. apply V.tree_ok_elem in Ht. destruct Ht as (_ & Hnd & Hav & Tk).
    apply V.allc_cons_inv in Hn. destruct Hn as [Hn _]. rewrite ns_tree_elem_eq in Hn.
    apply V.andc_none in Hn. destruct Hn as [G1 Hn]. apply V.andc_none in Hn. destruct Hn as [G2 Hn].
    apply V.andc_none in Hn. destruct Hn as [G3 Hn]. apply V.andc_none in Hn. destruct Hn as [G4 Nk].
    apply V.guard_none in G1. apply V.guard_none in G2. apply V.guard_none in G3. apply V.guard_none in G4.
    set (L0 := map nval (canon_atts atts)) in *. set (L' := map nval parsed).
    assert (HP : Permutation L0 L') by (symmetry; apply atts_read_nval; exact Hrd).
    assert (Hfst : map fst (canon_atts atts) = map fst atts) by (unfold canon_atts; rewrite map_map; reflexivity).
    assert (HND : NoDup (map fst L0)).
    { unfold L0. rewrite map_map. change (map (fun x => fst (nval x)) (canon_atts atts)) with (map fst (canon_atts atts)).
      apply nodup_names_NoDup. exact Hnd. }
    pose proof (scope_ext L0 L' s0 s' HP HND Hs) as Hsc.
    destruct (kids_checks kids IHk Hkids kitems Rk ck Ek Tk _ _ Hsc Nk) as (rk & Erk & Trk & Nrk).
    exists [XElem nm parsed et rk]. split; [cbn [mapM]; rewrite C.expand_elem, Erk; reflexivity|]. split.
    + apply C.allc_cons; [|reflexivity]. cbn [tree_ok].
      assert (E1 : match et with Some e => str_eqb e nm | None => true end = true).
      { destruct Het as [->|[-> _]]; [apply C.Wstr_eqb_refl|reflexivity]. }
      assert (E2 : nodup_names (map fst parsed) = true).
      { apply nodup_names_NoDup. eapply Permutation_NoDup; [symmetry; apply atts_read_names; exact Hrd|]. rewrite <- Hfst. apply nodup_names_NoDup. exact Hnd. }
      rewrite E1, E2. cbn [guard andc]. rewrite (atts_av_ok atts parsed Hatts Hrd Hav). exact Trk.
    + apply C.allc_cons; [|reflexivity]. rewrite ns_tree_elem_eq. fold L'.
      rewrite <- (g1_perm nm L0 L' HP), <- (g2_perm L0 L' HP), <- (g3_eq nm L0 L' _ _ HP Hsc), <- (g4_eq L0 L' _ _ HP Hsc), G1, G2, G3, G4.
      exact Nrk.
Qed.
