(** * The converse direction for the DOCTYPE rung, part 1: literals, external identifiers, entity values,
    general entity and notation declarations.  What the grammar of Spec/XmlWF.v reads, the regenerated
    grammar accepts with the corresponding typed value (same method as Proofs/XmlWFSyntaxConvLex.v). *)
From Coq Require Import List NArith Arith Lia Bool.
From XmlRs Require Import Base.CPred Spec.XmlChars Model.Peg Gen.XmlcharGen Gen.GrammarXmlGen Model.ParseActions Model.Info Model.Display
     Proofs.XmlcharProofs Proofs.PegTermination Proofs.PegLemmas Proofs.PegInv Proofs.Expansion
     Proofs.DisplayLex Proofs.ActionLemmas Proofs.DisplayElem Proofs.DisplayDoc Proofs.DisplayDtd
     Proofs.ParseInv Proofs.ParseInvElem Proofs.ParseInvDtd
     Proofs.XmlWFSyntaxLex Proofs.XmlWFSyntaxElem Proofs.XmlWFSyntaxDtd
     Proofs.XmlWFSyntaxConvLex Proofs.XmlWFSyntaxConvElem Proofs.XmlWFSyntaxConvDoc.
From XmlRs Require Spec.XmlWF.
Import ListNotations.
Local Open Scope N_scope.

(** ** S? '>' *)
Lemma conv_close (s r : str) : W.p_close s = Some r -> exists t, P (Seq (Chars0 ws) (Tag [62])) s t r.
Proof.
  unfold W.p_close. intros H. destruct (conv_ws0 s) as [a Pa]. destruct (W.skipS s) as [|c t]; [discriminate|].
  destruct (N.eqb_spec c W.c_gt) as [->|]; [|discriminate]. injection H as <-.
  eexists. eapply parses_seq; [exact Pa|apply (parses_tag G_xml [62] t)].
Qed.

Lemma close_tag_end (s r : str) : W.p_close s = Some r -> tag_end s false r.
Proof.
  unfold W.p_close. intros H. destruct (skipS_inv s) as [a [Ha [_ E]]]. destruct (W.skipS s) as [|c t]; [discriminate|].
  destruct (N.eqb_spec c W.c_gt) as [->|]; [|discriminate]. injection H as <-. exists a. split; [exact Ha|exact E].
Qed.

(** ** [11] SystemLiteral, [12] PubidLiteral *)
Lemma quoted_inv (f : char -> bool) (s a r : str) : W.p_quoted f s = Some (a, r) ->
  exists q, (q = 34 \/ q = 39) /\ s = q :: a ++ q :: r /\ forallb (fun c => f c && negb (c =? q)) a = true.
Proof.
  unfold W.p_quoted. destruct s as [|q t]; [discriminate|]. destruct (W.isQuote q) eqn:Eq; [|discriminate].
  destruct (W.span (fun c => f c && negb (c =? q)) t) as [a' b] eqn:Es. destruct (Wspan_inv _ _ _ _ Es) as [-> [Ha _]].
  destruct b as [|c r']; [discriminate|]. destruct (N.eqb_spec c q) as [->|]; [|discriminate]. intros H. injection H as <- <-.
  exists q. split; [|split; [reflexivity|exact Ha]].
  unfold W.isQuote in Eq. apply orb_prop in Eq. destruct Eq as [E|E]; apply N.eqb_eq in E; [left|right]; exact E.
Qed.

Lemma conv_system_literal (s x r : str) : W.p_SystemLiteral s = Some (x, r) -> P (NT nt_system_literal) s (TStr x) r.
Proof.
  intros H. destruct (quoted_inv _ _ _ _ H) as [q [Hq [-> Ha]]]. apply parses_nt. rewrite body_system_literal. unfold xc_char_except0.
  assert (forallb (eval (is_char_except [q])) x = true) as Hx.
  { revert Ha. apply forallb_impl. intros c Hc. rewrite char_except1. exact Hc. }
  assert (stops (eval (is_char_except [q])) (q :: r)) as Hst.
  { cbn [stops]. rewrite char_except1, N.eqb_refl. apply andb_false_r. }
  destruct Hq as [->| ->].
  - apply parses_alt_l. eapply parses_seqr; [apply (parses_tag G_xml [34])|]. eapply parses_seql; [apply parses_chars0; assumption|apply (parses_tag G_xml [34] r)].
  - apply parses_alt_r; [apply fails_seqr_l; apply fails_tag; reflexivity|].
    eapply parses_seqr; [apply (parses_tag G_xml [39])|]. eapply parses_seql; [apply parses_chars0; assumption|apply (parses_tag G_xml [39] r)].
Qed.

Lemma conv_pubid_literal (s x r : str) : W.p_PubidLiteral s = Some (x, r) -> P (NT nt_pubid_literal) s (TStr x) r.
Proof.
  intros H. destruct (quoted_inv _ _ _ _ H) as [q [Hq [-> Ha]]]. apply parses_nt. rewrite body_pubid_literal. unfold xc_pubid_char_except0.
  destruct Hq as [->| ->].
  - apply parses_alt_l. eapply parses_seqr; [apply (parses_tag G_xml [34])|]. eapply parses_seql; [|apply (parses_tag G_xml [34] r)].
    apply parses_nt. rewrite body_multipubidchar0. apply parses_chars0; [|reflexivity].
    revert Ha. apply forallb_impl. intros c Hc. apply andb_prop in Hc. destruct Hc as [Hc _]. rewrite is_pubid_char_equiv. exact Hc.
  - apply parses_alt_r; [apply fails_seqr_l; apply fails_tag; reflexivity|].
    eapply parses_seqr; [apply (parses_tag G_xml [39])|]. eapply parses_seql; [|apply (parses_tag G_xml [39] r)].
    apply parses_chars0.
    + revert Ha. apply forallb_impl. intros c Hc. change (eval (is_pubid_char_except [39]) c = true). rewrite is_pubid_char_except_equiv. cbn [existsb]. rewrite orb_false_r. exact Hc.
    + cbn [stops]. change (eval (is_pubid_char_except [39]) 39 = false). reflexivity.
Qed.

(** ** [75] ExternalID *)
Lemma conv_external_id b (s : str) pub sys r : W.p_ExternalID b s = Some (pub, Some sys, r) ->
  exists x, yields (NT nt_external_id) s (VExternalId x) r /\ ext_pub x = pub /\ ext_sys x = sys.
Proof.
  unfold W.p_ExternalID. rewrite !Wstrip_same. destruct (prefix W.s_system s) as [r0|] eqn:E1.
  - apply prefix_decomp in E1. subst s. cbv beta iota. destruct (W.p_S r0) as [r1|] eqn:Es; [|discriminate]. cbn [W.bind].
    destruct (W.p_SystemLiteral r1) as [[y r2]|] eqn:El; [|discriminate]. cbn [W.bind]. intros H. injection H as <- <- <-.
    destruct (conv_ws1 _ _ Es) as [a Pa]. apply conv_system_literal in El.
    exists (ExSystem y). split; [|split; reflexivity]. apply yields_nt. rewrite body_external_id. apply yields_alt_l.
    apply (yields_map' (VStr y)); [reflexivity|]. eapply yields_seqr; [eapply parses_seq; [apply parses_tag|exact Pa]|]. apply yields_str. exact El.
  - cbv beta iota. rewrite ?Wstrip_same. destruct (prefix W.s_public s) as [r0|] eqn:E2; [|discriminate]. cbn [W.bind]. apply prefix_decomp in E2. subst s.
    destruct (W.p_S r0) as [r1|] eqn:Es; [|discriminate]. cbn [W.bind].
    destruct (W.p_PubidLiteral r1) as [[p r2]|] eqn:Ep; [|discriminate]. cbn [W.bind].
    destruct (W.p_S r2) as [r3|] eqn:Es2; cbn [W.bind].
    + destruct (W.p_SystemLiteral r3) as [[y r4]|] eqn:El.
      * intros H. injection H as <- <- <-. destruct (conv_ws1 _ _ Es) as [a Pa]. destruct (conv_ws1 _ _ Es2) as [a2 Pa2].
        apply conv_system_literal in El. apply conv_pubid_literal in Ep.
        exists (ExPublic p y). split; [|split; reflexivity]. apply yields_nt. rewrite body_external_id.
        apply yields_alt_r; [apply fails_map; apply fails_seqr_l; apply fails_seq_l; apply fails_tag; reflexivity|].
        apply (yields_map' (VPair (VStr p) (VStr y))); [reflexivity|].
        eapply yields_seqr; [eapply parses_seq; [apply parses_tag|exact Pa]|].
        eapply yields_seq; [apply yields_str; exact Ep|]. eapply yields_seqr; [exact Pa2|apply yields_str; exact El].
      * destruct b; intros H; discriminate H.
    + destruct b; intros H; discriminate H.
Qed.

(** the public identifier of a NOTATION declaration without system literal *)
Lemma conv_public_id (s : str) p r : W.p_ExternalID true s = Some (Some p, None, r) ->
  P (NT nt_public_id) s (TStr p) r /\ F (NT nt_external_id) s.
Proof.
  intros H. assert (F (NT nt_external_id) s) as HF.
  { apply fails_of_no_succ. intros t r' HS. apply syn_external_id in HS. destruct HS as [x [_ [Hx _]]]. rewrite (Hx true) in H. discriminate H. }
  split; [|exact HF]. revert H. unfold W.p_ExternalID. rewrite !Wstrip_same. destruct (prefix W.s_system s) as [r0|] eqn:E1.
  { cbv beta iota. destruct (W.p_S r0) as [r1|]; [|discriminate]. cbn [W.bind]. destruct (W.p_SystemLiteral r1) as [[y r2]|]; discriminate. }
  cbv beta iota. rewrite ?Wstrip_same. destruct (prefix W.s_public s) as [r0|] eqn:E2; [|discriminate]. cbn [W.bind]. apply prefix_decomp in E2. subst s.
  destruct (W.p_S r0) as [r1|] eqn:Es; [|discriminate]. cbn [W.bind].
  destruct (W.p_PubidLiteral r1) as [[p' r2]|] eqn:Ep; [|discriminate]. cbn [W.bind].
  match goal with |- match ?X with _ => _ end = _ -> _ => destruct X as [[y r4]|] end; [discriminate|]. intros H. injection H as <- <-.
  destruct (conv_ws1 _ _ Es) as [a Pa]. apply conv_pubid_literal in Ep.
  apply parses_nt. rewrite body_public_id. eapply parses_seqr; [eapply parses_seq; [apply parses_tag|exact Pa]|exact Ep].
Qed.

(** ** [9] EntityValue: the literal characters grouped into maximal runs, as the parser returns them *)
Definition ev_of_ref (x : reference) : ent_value := match x with RefChar num r => XvCharacter num r | RefEntity n => XvEntity n end.
Definition cons_evchar (c : char) (l : list ent_value) : list ent_value :=
  match l with XvText s :: l' => XvText (c :: s) :: l' | _ => XvText [c] :: l end.

Lemma cons_evchar_ok q c l : eval (is_char_except [37;38;q]) c = true -> ev_ok q false l \/ ev_ok q true l ->
  ev_ok q false (cons_evchar c l) /\ d_evs (cons_evchar c l) = c :: d_evs l
  /\ x_ev (map un_ev (cons_evchar c l)) = W.AvLit c :: x_ev (map un_ev l)
  /\ d04_ev (map un_ev (cons_evchar c l)) = d04_ev (map un_ev l) /\ nope_ev (map un_ev (cons_evchar c l)) = nope_ev (map un_ev l).
Proof.
  intros Hc Hl. destruct l as [|[num r|n|n|s] l']; cbn [cons_evchar].
  - repeat split; try reflexivity; try discriminate. cbn [forallb]. rewrite Hc. reflexivity.
  - split; [|repeat split; reflexivity]. cbn [ev_ok]. repeat split; try discriminate; [cbn [forallb]; rewrite Hc; reflexivity| |];
      destruct Hl as [Hl|Hl]; cbn [ev_ok] in Hl; tauto.
  - split; [|repeat split; reflexivity]. cbn [ev_ok]. repeat split; try discriminate; [cbn [forallb]; rewrite Hc; reflexivity| |];
      destruct Hl as [Hl|Hl]; cbn [ev_ok] in Hl; tauto.
  - destruct Hl as [Hl|Hl]; cbn [ev_ok] in Hl; contradiction.
  - split; [|repeat split; reflexivity]. destruct Hl as [Hl|Hl]; cbn [ev_ok] in Hl; [|destruct Hl as [Hf _]; discriminate Hf].
    destruct Hl as [_ [Hne [Hs Hl']]]. cbn [ev_ok]. repeat split; try discriminate; [cbn [forallb]; rewrite Hc, Hs; reflexivity|exact Hl'].
Qed.

Lemma conv_ev_pieces q : q = 34 \/ q = 39 -> forall fuel (s : str) ps r, W.p_pieces fuel (Some q) W.c_pct s = Some (ps, r) ->
  exists l, ev_ok q false l /\ s = d_evs l ++ q :: r /\ x_ev (map un_ev l) = ps /\ d04_ev (map un_ev l) = true /\ nope_ev (map un_ev l) = true.
Proof.
  intros Hq. induction fuel as [|f IH]; intros s ps r H; [discriminate|]. cbn [W.p_pieces] in H.
  destruct s as [|c t]; [discriminate|]. destruct (N.eqb_spec c q) as [->|Hcq].
  - injection H as <- <-. exists []. repeat split; reflexivity.
  - destruct (N.eqb_spec c W.c_pct) as [->|Hpct]; [discriminate|]. destruct (N.eqb_spec c W.c_amp) as [->|Hamp].
    + destruct (W.p_ref t) as [[rf t']|] eqn:Er; [|discriminate]. cbn [W.bind] in H.
      destruct (W.p_pieces f (Some q) W.c_pct t') as [[ps' rest]|] eqn:Ep; [|discriminate]. cbn [W.bind] in H. injection H as <- <-.
      destruct (IH _ _ _ Ep) as [l [Hl [-> [Hx [Hd Hn]]]]]. destruct (conv_ref _ _ _ Er) as [x [Hxo [Ex [Exr Hdx]]]].
      exists (ev_of_ref x :: l). split; [|split; [|split; [|split]]].
      * destruct x as [num rd|n]; cbn [ev_of_ref ev_ok]; split; assumption.
      * change (d_evs (ev_of_ref x :: l)) with (d_ent_value (ev_of_ref x) ++ d_evs l). rewrite <- app_assoc.
        assert (d_ent_value (ev_of_ref x) = d_reference x) as -> by (destruct x as [num [|]|n]; reflexivity). exact Ex.
      * assert (un_ev (ev_of_ref x) = EvReference x) as Eu by (destruct x; reflexivity).
        cbn [map]. rewrite Eu. change (x_ev (EvReference x :: map un_ev l)) with ([W.piece_of_ref (x_ref x)] ++ x_ev (map un_ev l)). rewrite Exr, Hx. reflexivity.
      * assert (un_ev (ev_of_ref x) = EvReference x) as Eu by (destruct x; reflexivity).
        cbn [map d04_ev forallb]. rewrite Eu. cbn [d04_evpiece]. rewrite Hdx. exact Hd.
      * assert (un_ev (ev_of_ref x) = EvReference x) as Eu by (destruct x; reflexivity).
        cbn [map nope_ev forallb]. rewrite Eu. cbn [nope_evpiece]. exact Hn.
    + destruct (W.isChar c) eqn:Ech; [|discriminate].
      destruct (W.p_pieces f (Some q) W.c_pct t) as [[ps' rest]|] eqn:Ep; [|discriminate]. cbn [W.bind] in H. injection H as <- <-.
      destruct (IH _ _ _ Ep) as [l [Hl [-> [Hx [Hd Hn]]]]].
      assert (eval (is_char_except [37;38;q]) c = true) as Hc.
      { rewrite is_char_except_equiv. unfold W.isChar in Ech. rewrite Ech. cbn [existsb andb]. rewrite orb_false_r.
        apply N.eqb_neq in Hcq, Hpct, Hamp. unfold W.c_pct, W.c_amp in *. rewrite Hpct, Hamp, Hcq. reflexivity. }
      destruct (cons_evchar_ok q c l Hc (or_introl Hl)) as [H1 [H2 [H3 [H4 H5]]]].
      exists (cons_evchar c l). split; [exact H1|]. split; [rewrite H2; reflexivity|]. split; [rewrite H3, Hx; reflexivity|].
      split; [rewrite H4; exact Hd|rewrite H5; exact Hn].
Qed.

Lemma conv_entity_value fuel (s : str) ps r : W.p_EntityValue fuel s = Some (ps, r) ->
  exists lv : list entity_value, yields (NT nt_entity_value) s (VList (map VEntityValue lv)) r /\ x_ev lv = ps
    /\ d04_ev lv = true /\ nope_ev lv = true /\ (exists q l, (q = 34 \/ q = 39) /\ lv = map un_ev l /\ ev_ok q false l).
Proof.
  unfold W.p_EntityValue. destruct s as [|q t]; [discriminate|]. destruct (W.isQuote q) eqn:Eq; [|discriminate].
  assert (q = 34 \/ q = 39) as Hq.
  { unfold W.isQuote in Eq. apply orb_prop in Eq. destruct Eq as [E|E]; apply N.eqb_eq in E; [left|right]; exact E. }
  intros H. destruct (conv_ev_pieces q Hq _ _ _ _ H) as [l [Hl [-> [Hx [Hd Hn]]]]].
  exists (map un_ev l). split; [|split; [exact Hx|split; [exact Hd|split; [exact Hn|exists q, l; auto]]]].
  apply yields_nt. rewrite body_entity_value.
  pose proof (yields_many0 _ _ _ _ (many_ev q r Hq l false Hl)) as Hm.
  destruct Hq as [->| ->].
  - apply yields_alt_l. eapply yields_seqr; [apply (parses_tag G_xml [34])|]. eapply yields_seql; [exact Hm|apply (parses_tag G_xml [34] r)].
  - apply yields_alt_r; [apply fails_seqr_l; apply fails_tag; reflexivity|].
    eapply yields_seqr; [apply (parses_tag G_xml [39])|]. eapply yields_seql; [exact Hm|apply (parses_tag G_xml [39] r)].
Qed.

(** ** [71] GEDecl *)
Lemma name_parses (s n r : str) : W.p_Name s = Some (n, r) -> P (NT nt_name) s (TStr n) r /\ is_Name n = true /\ s = n ++ r.
Proof.
  intros H. destruct (p_Name_inv _ _ _ H) as [-> [Hn Hst]]. split; [|split; [exact Hn|reflexivity]].
  apply parses_name; [apply is_Name_name_ok; exact Hn|exact Hst].
Qed.

Lemma tag_end_fails_ndata (r rest : str) : tag_end r false rest -> F (NT nt_ndata_decl) r.
Proof.
  intros [a [Ha ->]]. apply fails_nt. rewrite body_ndata_decl. apply fails_seqr_l. destruct a as [|c a].
  - apply fails_seq_l. apply fails_chars1. reflexivity.
  - eapply fails_seq_r; [apply (parses_chars1 G_xml ws (c :: a) (62 :: rest)); [discriminate|exact Ha|reflexivity]|].
    apply fails_seq_l. apply fails_tag. reflexivity.
Qed.

Lemma extid_fails_entity_value (s : str) : (exists s', s = W.s_system ++ s' \/ s = W.s_public ++ s') -> F (NT nt_entity_value) s.
Proof.
  intros [s' [->| ->]]; apply fails_nt; rewrite body_entity_value; apply fails_alt; apply fails_seqr_l; apply fails_tag; reflexivity.
Qed.

Lemma conv_gedef fuel nm (s : str) d r : spec_gedef fuel nm s = Some (d, r) ->
  exists def, yields (SeqL (NT nt_entity_def) (Seq (Chars0 ws) (Tag [62]))) s (VEntityDef def) r /\ d = W.DEntity nm (x_entdef def) /\ d04_entdef def = true.
Proof.
  unfold spec_gedef. destruct (W.p_EntityValue fuel s) as [[v r5]|] eqn:Ev.
  - destruct (W.p_close r5) as [r6|] eqn:Ec; [|discriminate]. cbn [W.bind]. intros H. injection H as <- <-.
    destruct (conv_entity_value _ _ _ _ Ev) as [lv [Y [Hx [Hd [Hn _]]]]]. destruct (conv_close _ _ Ec) as [tc Pc].
    exists (EdValue lv). split; [|split; [cbn [x_entdef]; rewrite Hx; reflexivity|cbn [d04_entdef]; rewrite Hn, Hd; reflexivity]].
    eapply yields_seql; [|exact Pc]. apply yields_nt. rewrite body_entity_def. apply yields_alt_l.
    eapply yields_map'; [apply al_entity_def_value|exact Y].
  - destruct (W.p_ExternalID false s) as [[[pub sys] r5]|] eqn:Ex; [|discriminate]. cbn [W.bind].
    destruct (W.extid_of pub sys) as [id|] eqn:Eid; [|discriminate]. cbn [W.bind].
    destruct sys as [sys|]; [|destruct pub; discriminate Eid].
    destruct (conv_external_id _ _ _ _ _ Ex) as [x [Yx [Ep Es]]].
    assert (id = x_extid x) as -> by (destruct x; cbn [ext_pub ext_sys] in *; subst; cbn [W.extid_of] in Eid; injection Eid as <-; reflexivity).
    assert (F (Map L_model_DeclarationEntityDef_from (NT nt_entity_value)) s) as Hfv.
    { apply fails_map. apply extid_fails_entity_value. destruct Yx as [t [[f0 Hy] _]]. specialize (Hy f0 (le_n _)).
      pose proof (den_S _ _ _ _ _ Hy eq_refl) as HS. apply syn_external_id in HS. destruct HS as [_ [_ [_ Hh]]]. exact Hh. }
    destruct (W.bind (W.p_S r5) (fun r6 => W.bind (W.strip W.s_NDATA r6) (fun r7 => W.bind (W.p_S r7) (fun r8 => W.p_Name r8)))) as [[n r9]|] eqn:End.
    + destruct (W.p_close r9) as [r10|] eqn:Ec; [|discriminate]. cbn [W.bind]. intros H. injection H as <- <-.
      destruct (W.p_S r5) as [r6|] eqn:E6; [|discriminate End]. cbn [W.bind] in End. rewrite Wstrip_same in End.
      destruct (prefix W.s_NDATA r6) as [r7|] eqn:E7; [|discriminate End]. cbn [W.bind] in End. apply prefix_decomp in E7. subst r6.
      destruct (W.p_S r7) as [r8|] eqn:E8; [|discriminate End]. cbn [W.bind] in End.
      destruct (name_parses _ _ _ End) as [Pn [Hn _]]. destruct (conv_ws1 _ _ E6) as [a6 P6]. destruct (conv_ws1 _ _ E8) as [a8 P8].
      destruct (conv_close _ _ Ec) as [tc Pc].
      exists (EdExternal x (Some n)). split; [|split; [reflexivity|exact Hn]].
      eapply yields_seql; [|exact Pc]. apply yields_nt. rewrite body_entity_def. apply yields_alt_r; [exact Hfv|].
      apply (yields_map' (VPair (VExternalId x) (VSome (VStr n)))); [reflexivity|].
      eapply yields_seq; [exact Yx|]. apply yields_opt_some. apply yields_str. apply parses_nt. rewrite body_ndata_decl.
      eapply parses_seqr; [|exact Pn]. eapply parses_seq; [exact P6|]. eapply parses_seq; [apply (parses_tag G_xml [78;68;65;84;65])|exact P8].
    + destruct (W.p_close r5) as [r6|] eqn:Ec; [|discriminate]. cbn [W.bind]. intros H. injection H as <- <-.
      destruct (conv_close _ _ Ec) as [tc Pc]. pose proof (close_tag_end _ _ Ec) as Hend.
      exists (EdExternal x None). split; [|split; reflexivity].
      eapply yields_seql; [|exact Pc]. apply yields_nt. rewrite body_entity_def. apply yields_alt_r; [exact Hfv|].
      apply (yields_map' (VPair (VExternalId x) VNone)); [reflexivity|].
      eapply yields_seq; [exact Yx|]. apply yields_opt_none. eapply tag_end_fails_ndata. exact Hend.
Qed.

Lemma conv_ge_decl fuel (s' r1 : str) d r : W.p_S s' = Some r1 -> spec_gedecl fuel r1 = Some (d, r) ->
  exists n def, yields (NT nt_ge_decl) (W.s_entity ++ s') (VGeneralEntity n def) r /\ d = W.DEntity n (x_entdef def)
                /\ is_Name n = true /\ d04_entdef def = true.
Proof.
  intros Hs H. unfold spec_gedecl in H. destruct r1 as [|c t]; [discriminate|]. destruct (c =? W.c_pct) eqn:Epct; [discriminate|].
  destruct (W.p_Name (c :: t)) as [[nm r3]|] eqn:En; [|discriminate]. cbn [W.bind] in H.
  destruct (W.p_S r3) as [r4|] eqn:E4; [|discriminate]. cbn [W.bind] in H.
  destruct (conv_gedef _ _ _ _ _ H) as [def [Yd [Ed Hd]]]. destruct (name_parses _ _ _ En) as [Pn [Hn _]].
  destruct (conv_ws1 _ _ Hs) as [a1 P1]. destruct (conv_ws1 _ _ E4) as [a4 P4].
  exists nm, def. split; [|split; [exact Ed|split; [exact Hn|exact Hd]]].
  apply yields_nt. rewrite body_ge_decl. apply (yields_map' (VPair (VStr nm) (VEntityDef def))); [reflexivity|].
  eapply yields_seq; [|exact Yd]. apply yields_str.
  eapply parses_seqr; [eapply parses_seq; [apply (parses_tag G_xml [60;33;69;78;84;73;84;89])|exact P1]|].
  eapply parses_seql; [exact Pn|exact P4].
Qed.

(** ** [82] NotationDecl *)
Lemma conv_notation_decl fuel (s' : str) d r : W.p_markupdecl fuel (W.s_notation_decl ++ s') = Some (d, r) ->
  exists dn, yields (NT nt_notation_decl) (W.s_notation_decl ++ s') (VDeclNotation dn) r /\ d = x_notation dn /\ is_Name (dn_name dn) = true.
Proof.
  rewrite markupdecl_notation. destruct (W.p_S s') as [r1|] eqn:E1; [|discriminate]. cbn [W.bind].
  destruct (W.p_Name r1) as [[nm r2]|] eqn:En; [|discriminate]. cbn [W.bind].
  destruct (W.p_S r2) as [r3|] eqn:E3; [|discriminate]. cbn [W.bind].
  destruct (W.p_ExternalID true r3) as [[[pub sys] r4]|] eqn:Ex; [|discriminate]. cbn [W.bind].
  destruct (W.p_close r4) as [r5|] eqn:Ec; [|discriminate]. cbn [W.bind]. intros H. injection H as <- <-.
  destruct (name_parses _ _ _ En) as [Pn [Hn _]]. destruct (conv_ws1 _ _ E1) as [a1 P1]. destruct (conv_ws1 _ _ E3) as [a3 P3].
  destruct (conv_close _ _ Ec) as [tc Pc].
  assert (forall i, yields (Alt (Map L_model_DeclarationNotationId_from (NT nt_external_id)) (Map L_model_DeclarationNotationId_from (NT nt_public_id))) r3 (VNotationId i) r4 ->
            yields (NT nt_notation_decl) (W.s_notation_decl ++ s') (VDeclNotation (DeclNotation nm i)) r5) as Hbuild.
  { intros i Yi. apply yields_nt. rewrite body_notation_decl. apply (yields_map' (VPair (VStr nm) (VNotationId i))); [reflexivity|].
    eapply yields_seq; [apply yields_str; eapply parses_seqr; [eapply parses_seq; [apply (parses_tag G_xml [60;33;78;79;84;65;84;73;79;78])|exact P1]|exact Pn]|].
    eapply yields_seqr; [exact P3|]. eapply yields_seql; [exact Yi|exact Pc]. }
  destruct sys as [sys|].
  - destruct (conv_external_id _ _ _ _ _ Ex) as [x [Yx [Ep Es]]].
    exists (DeclNotation nm (NiExternal x)). split; [|split; [unfold x_notation; cbn [dn_id dn_name]; rewrite Ep, Es; reflexivity|exact Hn]].
    apply Hbuild. apply yields_alt_l. apply (yields_map' (VExternalId x)); [reflexivity|exact Yx].
  - destruct pub as [p|].
    + destruct (conv_public_id _ _ _ Ex) as [Pp Fx].
      exists (DeclNotation nm (NiPublic p)). split; [|split; [reflexivity|exact Hn]].
      apply Hbuild. apply yields_alt_r; [apply fails_map; exact Fx|]. apply (yields_map' (VStr p)); [reflexivity|apply yields_str; exact Pp].
    + exfalso. revert Ex. unfold W.p_ExternalID. destruct (W.strip W.s_system r3) as [r0|].
      * destruct (W.p_S r0) as [r1'|]; [|discriminate]. cbn [W.bind]. destruct (W.p_SystemLiteral r1') as [[y r2']|]; discriminate.
      * destruct (W.strip W.s_public r3) as [r0|]; [|discriminate]. cbn [W.bind]. destruct (W.p_S r0) as [r1'|]; [|discriminate]. cbn [W.bind].
        destruct (W.p_PubidLiteral r1') as [[p' r2']|]; [|discriminate]. cbn [W.bind].
        match goal with |- match ?X with _ => _ end = _ -> _ => destruct X as [[y r4']|] end; discriminate.
Qed.
