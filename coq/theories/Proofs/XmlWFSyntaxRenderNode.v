(** * C01, the element / content rung with EXPLICIT trees and fuel bounds.

    Proofs/XmlWFRender.v shows that the rendering of an abstract node is read back by [p_content] as
    SOME items with SOME fuel.  For [render_wf] the items must be known (the constraints are checked on
    them) and the fuel must be bounded by the length of the rendering ([parse_document] runs with
    fuel = length of the input + 1).  This file proves both: [node_reads]. *)
From Coq Require Import List NArith Arith Lia Bool Permutation.
From XmlRs Require Import Base.CPred Spec.XmlChars Spec.XmlWF Spec.Infoset Proofs.XmlWFRender.
Import ListNotations.
Local Open Scope nat_scope.

(** ** what a rendered abstract node is read back as *)
Inductive textlike : xcontent -> Prop :=
| TLchar ch : textlike (XChar ch)
| TLref ch : isChar ch = true -> textlike (XCharRef ch)
| TLcdata s : textlike (XCData s)
| TLent nm ch : predef_name ch = Some nm -> textlike (XEntRef nm).

(** one attribute as read back: same name, the pieces the oracle chose for the same abstract value *)
Definition att_read (a : str * list aitem) (pa : str * list avpiece) : Prop :=
  fst pa = fst a /\ exists q c p i, quote q /\ snd pa = items_pieces q c p i (snd a).

Definition atts_read (atts : list (str * list aitem)) (parsed : list (str * list avpiece)) : Prop :=
  exists atts', Permutation atts' atts /\ Forall2 att_read atts' parsed.

Fixpoint reads (x : anode) (items : list xcontent) : Prop :=
  match x with
  | AText s => Forall textlike items /\ chars_of items = s
  | ARef nm => items = [XEntRef nm]
  | AComment s => items = [XComment s]
  | API t d => items = [XPI t d]
  | AElem nm atts kids =>
    exists parsed et kitems, items = [XElem nm parsed et kitems] /\ atts_read atts parsed /\
      (et = Some nm \/ (et = None /\ kids = [])) /\
      (fix rl (kids : list anode) (kitems : list xcontent) : Prop :=
         match kids with
         | [] => kitems = []
         | y :: t => exists iy its, kitems = iy ++ its /\ reads y iy /\ rl t its
         end) kids kitems
  end.

Fixpoint reads_list (kids : list anode) (kitems : list xcontent) : Prop :=
  match kids with
  | [] => kitems = []
  | y :: t => exists iy its, kitems = iy ++ its /\ reads y iy /\ reads_list t its
  end.

Lemma reads_elem nm atts kids items : reads (AElem nm atts kids) items <->
  exists parsed et kitems, items = [XElem nm parsed et kitems] /\ atts_read atts parsed /\
    (et = Some nm \/ (et = None /\ kids = [])) /\ reads_list kids kitems.
Proof. split; intros H; exact H. Qed.

(** ** character data, with the shape of the items and the fuel bound *)
Lemma char_ref_len k ch : 1 <= length (char_ref k ch).
Proof. unfold char_ref. destruct (N.eqb _ _); cbn [app length]; lia. Qed.

Theorem text_reads_back2 : forall c p f i prev s, all_chars s = true -> length s <= f ->
  exists items n, chars_of items = s /\ Forall textlike items /\ n <= length (text_chars f c p i prev s) /\
    forall fuel T, follow_ok T ->
      p_content (n + fuel) (text_chars f c p i prev s ++ T) =
      bind (p_content fuel T) (fun '(l, r) => Some (items ++ l, r)).
Proof.
  intros c p. induction f as [|f IH]; intros i prev s Hc Hl.
  - destruct s; [|cbn in Hl; lia]. exists [], 0. split; [reflexivity|]. split; [constructor|]. split; [lia|]. intros fuel T _. cbn [text_chars app Nat.add].
    destruct (p_content fuel T) as [[l r]|]; reflexivity.
  - destruct s as [|ch t].
    { exists [], 0. split; [reflexivity|]. split; [constructor|]. split; [lia|]. intros fuel T _. cbn [text_chars app Nat.add].
      destruct (p_content fuel T) as [[l r]|]; reflexivity. }
    cbn [all_chars forallb] in Hc. apply andb_true_iff in Hc. destruct Hc as [Hch Hct]. cbn [length] in Hl.
    destruct (text_step f c p i prev ch t) as [u Hu|run rest Hs Hne Hnr Hncr].
    + destruct (IH (i + 1)%N ch t Hct ltac:(lia)) as (items & n & Hitems & Htl & Hn & Hrun).
      assert (Hlitc : forall fuel T, follow_ok T -> text_esc prev ch = false ->
                p_content (S (n + fuel)) (ch :: text_chars f c p (i + 1) ch t ++ T) =
                bind (p_content fuel T) (fun '(l, r) => Some ((XChar ch :: items) ++ l, r))).
      { intros fuel T HT He. destruct (esc_false _ _ He) as [H1 H2].
        rewrite (pc_char _ ch _ Hch H1 H2 (lit_starts f c p i ch t T HT)). rewrite (Hrun fuel T HT).
        destruct (p_content fuel T) as [[l r]|]; reflexivity. }
      assert (Hrefc : forall k fuel T, follow_ok T ->
                p_content (S (n + fuel)) (char_ref k ch ++ text_chars f c p (i + 1) ch t ++ T) =
                bind (p_content fuel T) (fun '(l, r) => Some ((XCharRef ch :: items) ++ l, r))).
      { intros k fuel T HT. pose proof (char_ref_roundtrip k ch (text_chars f c p (i + 1) ch t ++ T) (isChar_bound ch Hch)) as Hr.
        assert (Hs : exists tl', char_ref k ch = c_amp :: tl') by (unfold char_ref; destruct (N.eqb (N.modulo k 2) 0); eexists; reflexivity).
        destruct Hs as [tl' Et]. rewrite Et in *. cbn [tl app] in *.
        rewrite (pc_ref _ _ _ _ Hr). rewrite (Hrun fuel T HT). destruct (p_content fuel T) as [[l r]|]; reflexivity. }
      inversion Hu as [He|k|nm Hnm|He|k]; subst u.
      * exists (XChar ch :: items), (S n). split; [cbn [chars_of]; now rewrite Hitems|]. split; [constructor; [constructor|exact Htl]|].
        split; [cbn [app length]; lia|].
        intros fuel T HT. cbn [app Nat.add]. now apply Hlitc.
      * exists (XCharRef ch :: items), (S n). split; [cbn [chars_of]; now rewrite Hitems|]. split; [constructor; [constructor; exact Hch|exact Htl]|].
        split; [rewrite app_length; pose proof (char_ref_len k ch); lia|].
        intros fuel T HT. cbn [Nat.add]. rewrite <- app_assoc. now apply Hrefc.
      * exists (XEntRef nm :: items), (S n). split; [cbn [chars_of]; now rewrite (predef_char_name _ _ Hnm), Hitems|].
        split; [constructor; [econstructor; exact Hnm|exact Htl]|].
        split; [rewrite app_length; unfold entity_ref; cbn [length]; lia|].
        intros fuel T HT. cbn [Nat.add]. unfold entity_ref. rewrite <- !app_assoc. cbn [app]. rewrite <- !app_assoc. cbn [app].
        pose proof (p_ref_entity nm (text_chars f c p (i + 1) ch t ++ T) (predef_name_Name _ _ Hnm)) as Hr.
        rewrite (pc_ref _ _ _ _ Hr). rewrite (Hrun fuel T HT). destruct (p_content fuel T) as [[l r]|]; reflexivity.
      * exists (XCData [] :: XChar ch :: items), (S (S n)). split; [cbn [chars_of app]; now rewrite Hitems|].
        split; [constructor; [constructor|constructor; [constructor|exact Htl]]|].
        split; [rewrite !app_length; unfold s_cdata_open, s_cdata_close; cbn [length]; unfold str, char in *; lia|].
        intros fuel T HT. cbn [Nat.add]. rewrite <- !app_assoc.
        rewrite (pc_cdata _ _ [] ([ch] ++ text_chars f c p (i + 1) ch t ++ T))
          by (rewrite scan_to_eq, strip_app; reflexivity).
        cbn [app]. rewrite (Hlitc fuel T HT He). destruct (p_content fuel T) as [[l r]|]; reflexivity.
      * exists (XCData [] :: XCharRef ch :: items), (S (S n)). split; [cbn [chars_of app]; now rewrite Hitems|].
        split; [constructor; [constructor|constructor; [constructor; exact Hch|exact Htl]]|].
        split; [rewrite !app_length; unfold s_cdata_open, s_cdata_close; cbn [length]; unfold str, char in *; lia|].
        intros fuel T HT. cbn [Nat.add]. rewrite <- !app_assoc.
        rewrite (pc_cdata _ _ [] (char_ref k ch ++ text_chars f c p (i + 1) ch t ++ T))
          by (rewrite scan_to_eq, strip_app; reflexivity).
        rewrite (Hrefc k fuel T HT). destruct (p_content fuel T) as [[l r]|]; reflexivity.
    + assert (Hall : all_chars (run ++ rest) = true) by (rewrite <- Hs; cbn [all_chars forallb]; now rewrite Hch).
      unfold all_chars in Hall. rewrite forallb_app in Hall. apply andb_true_iff in Hall. destruct Hall as [Har Hrest].
      assert (Hlen : length rest <= f).
      { assert (length (ch :: t) = length (run ++ rest)) by now rewrite Hs. rewrite app_length in H. cbn [length] in H.
        destruct run; [now elim Hne|cbn [length] in H; lia]. }
      destruct (IH (i + N.of_nat (length run))%N (last run ch) rest Hrest Hlen) as (items & n & Hitems & Htl & Hn & Hrun).
      exists (XCData run :: items), (S n). split; [cbn [chars_of]; now rewrite Hitems|].
      split; [constructor; [constructor|exact Htl]|].
      split; [rewrite !app_length; unfold s_cdata_open, s_cdata_close; cbn [length]; unfold str, char in *; lia|].
      intros fuel T HT. cbn [Nat.add]. rewrite <- !app_assoc.
      rewrite (pc_cdata _ _ run (text_chars f c p (i + N.of_nat (length run)) (last run ch) rest ++ T))
        by (apply scan_to_cdata; assumption).
      rewrite (Hrun fuel T HT). destruct (p_content fuel T) as [[l r]|]; reflexivity.
Qed.

(** ** attributes *)
Lemma lit_char_len k e b ch : 1 <= length (lit_char k e b ch).
Proof.
  unfold lit_char. pose proof (char_ref_len (N.div k 4) ch) as H.
  destruct (N.modulo k 4) as [|m]; [destruct e; cbn [length]; lia|].
  destruct m as [m|m|]; [exact H| |destruct e; cbn [length]; lia].
  destruct m as [m|m|]; try exact H. destruct (predef_name ch); [destruct b; [unfold entity_ref; cbn [length]; lia|exact H]|destruct e; cbn [length]; lia].
Qed.

Lemma lit_chars_len c p esc b : forall s i, length s <= length (lit_chars c p esc b i s).
Proof.
  induction s as [|ch s IH]; intros i; [cbn; lia|]. cbn [lit_chars length]. rewrite app_length.
  pose proof (lit_char_len (c (i :: p)) (esc ch) b ch). specialize (IH (i + 1)%N). lia.
Qed.

Lemma lit_items_len c p esc b : forall l i, items_size l <= length (lit_items c p esc b i l).
Proof.
  induction l as [|it l IH]; intros i; [cbn; lia|]. destruct it as [s|nm]; cbn [lit_items items_size]; rewrite app_length; specialize (IH (i + 1)%N).
  - pose proof (lit_chars_len c (i :: p) esc b s 0%N). lia.
  - unfold entity_ref. cbn [length]. lia.
Qed.

Lemma S1_len c p : 1 <= length (S1 c p).
Proof. unfold S1. cbn [ws_run length]. lia. Qed.

Lemma render_att_len c p ia : S (S (items_size (snd (snd ia)))) <= length (render_att c p ia).
Proof.
  unfold render_att, att_literal, Eq_. rewrite !app_length. cbn [length]. rewrite !app_length. cbn [length].
  pose proof (S1_len c (0%N :: N.of_nat (fst ia) :: 1%N :: p)).
  pose proof (lit_items_len c (1%N :: 2%N :: N.of_nat (fst ia) :: 1%N :: p)
    (att_must_escape (if (c (0%N :: 2%N :: N.of_nat (fst ia) :: 1%N :: p) mod 2 =? 0)%N then c_quot else c_apos)) true (snd (snd ia)) 0%N).
  unfold str, char in *. lia.
Qed.

Lemma atts_size_le c p l : atts_size l <= S (length (flat_map (render_att c p) l)).
Proof.
  induction l as [|ia l IH]; [cbn; lia|]. cbn [atts_size flat_map]. rewrite app_length. pose proof (render_att_len c p ia). lia.
Qed.

Lemma p_atts_render2 c p : forall l,
  forallb (fun ia => att_ok (snd ia)) l = true ->
  exists parsed, Forall2 att_read (map snd l) parsed /\
    forall closing e rest extra,
    (closing = [c_gt] /\ e = false) \/ (closing = s_empty_close /\ e = true) ->
    p_atts (atts_size l + extra) (flat_map (render_att c p) l ++ S0 c (2%N :: p) ++ closing ++ rest) = Some (parsed, e, rest).
Proof.
  induction l as [|ia l IH]; intros Hok.
  - exists []. split; [constructor|]. intros closing e rest extra Hcl. cbn [flat_map app atts_size Nat.add p_atts].
    rewrite (skipS_run (S0 c (2%N :: p)) (closing ++ rest) (S0_S _ _))
      by (destruct Hcl as [[-> _]|[-> _]]; reflexivity).
    destruct Hcl as [[-> ->]|[-> ->]]; reflexivity.
  - cbn [forallb] in Hok. apply andb_true_iff in Hok. destruct Hok as [Ha Hl].
    unfold att_ok in Ha. apply andb_true_iff in Ha. destruct Ha as [Hn Hv].
    destruct ia as [k [nm v]]. cbn [fst snd] in *.
    pose proof Hn as Hname. destruct (name_head nm Hname) as (x & t & -> & Hx).
    destruct (nsc_facts x Hx) as (HxS & Hxgt & Hxsl & Hxeq).
    set (q := N.of_nat k :: 1%N :: p).
    destruct (IH Hl) as (parsed & Hp1 & Hp2).
    destruct (att_literal_head c (2%N :: q) v) as (qc & lt & Elit & Hqc).
    destruct (att_literal_reads_back_fuel c (2%N :: q) v Hv) as (q' & Hq' & Hval).
    exists (((x :: t), items_pieces q' c (1%N :: 2%N :: q) 0 v) :: parsed). split.
    { cbn [map snd]. constructor; [|exact Hp1]. split; [reflexivity|]. cbn [snd]. exists q', c, (1%N :: 2%N :: q), 0%N. auto. }
    intros closing e rest extra Hcl.
    specialize (Hp2 closing e rest (extra + S (items_size v)) Hcl).
    set (R := flat_map (render_att c p) l ++ S0 c (2%N :: p) ++ closing ++ rest) in *.
    specialize (Hval R (atts_size l + extra)).
    cbn [flat_map atts_size]. unfold render_att at 1. cbn [fst snd]. fold q.
    rewrite <- !app_assoc. fold R.
    replace (S (S (items_size v)) + atts_size l + extra) with (S (S (items_size v) + (atts_size l + extra))) by lia.
    cbn [p_atts].
    assert (Hskip : skipS (S1 c (0%N :: q) ++ (x :: t) ++ Eq_ c (1%N :: q) ++ att_literal c (2%N :: q) v ++ R)
                    = (x :: t) ++ Eq_ c (1%N :: q) ++ att_literal c (2%N :: q) v ++ R)
      by (apply skipS_run; [apply S1_S|exact HxS]).
    assert (HpS : exists r', p_S (S1 c (0%N :: q) ++ (x :: t) ++ Eq_ c (1%N :: q) ++ att_literal c (2%N :: q) v ++ R) = Some r').
    { eexists. apply (p_S_run (S1 c (0%N :: q))); [apply S1_ne|apply S1_S|exact HxS]. }
    destruct HpS as [r' HpS].
    assert (En : p_Name ((x :: t) ++ Eq_ c (1%N :: q) ++ att_literal c (2%N :: q) v ++ R)
                 = Some (x :: t, Eq_ c (1%N :: q) ++ att_literal c (2%N :: q) v ++ R)).
    { apply p_Name_app; [exact Hname|]. unfold Eq_. rewrite <- app_assoc.
      destruct (S0 c (0%N :: 1%N :: q)) as [|w ws] eqn:Ew; cbn [app stops_name]; [reflexivity|].
      apply isS_not_namechar. pose proof (S0_S c (0%N :: 1%N :: q)) as HS. rewrite Ew in HS. cbn [forallb] in HS.
      apply andb_true_iff in HS. tauto. }
    assert (HEq : p_Eq (Eq_ c (1%N :: q) ++ att_literal c (2%N :: q) v ++ R) = Some (att_literal c (2%N :: q) v ++ R)).
    { apply p_Eq_render. rewrite Elit. cbn [app]. now apply isQuote_not_S. }
    assert (Hfuel : S (items_size v) + (atts_size l + extra) = atts_size l + (extra + S (items_size v))) by lia.
    cbn [app] in *. unfold str, char in *. rewrite Hskip. rewrite Hxgt, Hxsl. rewrite HpS. rewrite En. cbn [bind].
    rewrite HEq. cbn [bind]. rewrite Hval. cbn [bind]. rewrite Hfuel, Hp2. reflexivity.
Qed.

(** the oracle's reordering is a permutation *)
Lemma insert_at_perm {A} n (x : A) : forall l, Permutation (insert_at n x l) (x :: l).
Proof.
  induction n as [|n IH]; intros l; [reflexivity|]. destruct l as [|y t]; cbn [insert_at]; [reflexivity|].
  rewrite IH. apply perm_swap.
Qed.

Lemma permute_perm {A} c p : forall (l : list A) i acc, Permutation (permute c p i l acc) (l ++ acc).
Proof.
  induction l as [|x t IH]; intros i acc; cbn [permute app]; [reflexivity|].
  rewrite IH. rewrite insert_at_perm. symmetry. apply Permutation_middle.
Qed.

Lemma combine_seq_snd {A} (l : list A) : forall k, map snd (combine (seq k (length l)) l) = l.
Proof. induction l as [|x l IH]; intros k; [reflexivity|]. cbn [length seq combine map snd]. now rewrite IH. Qed.

Definition perm_atts (c : choices) (p : list N) (atts : list (str * list aitem)) : list (nat * (str * list aitem)) :=
  permute c (0%N :: p) 0 (combine (seq 0 (length atts)) atts) [].

Lemma perm_atts_perm c p atts : Permutation (map snd (perm_atts c p atts)) atts.
Proof.
  unfold perm_atts. rewrite (permute_perm c (0%N :: p) _ 0%N []). rewrite app_nil_r. now rewrite combine_seq_snd.
Qed.

(** the tag with the attributes as they are read *)
Lemma p_tag_render2 c p nm atts :
  is_Name nm = true -> forallb att_ok atts = true ->
  exists parsed, atts_read atts parsed /\ forall closing e rest extra,
    (closing = [c_gt] /\ e = false) \/ (closing = s_empty_close /\ e = true) ->
    p_tag (atts_size (perm_atts c p atts) + extra)
          (tl (render_open c p nm atts) ++ closing ++ rest) = Some (nm, parsed, e, rest).
Proof.
  intros Hn Ha. unfold render_open. cbn [tl]. fold (perm_atts c p atts).
  set (atts' := perm_atts c p atts).
  assert (Ha' : forallb (fun ia => att_ok (snd ia)) atts' = true).
  { unfold atts', perm_atts. rewrite forallb_permute. cbn [forallb]. rewrite andb_true_r. now apply forallb_combine_snd. }
  destruct (p_atts_render2 c p atts' Ha') as (parsed & Hrd & Hp).
  exists parsed. split; [exists (map snd atts'); split; [apply perm_atts_perm|exact Hrd]|].
  intros closing e rest extra Hcl. specialize (Hp closing e rest extra Hcl).
  unfold p_tag. rewrite <- !app_assoc.
  assert (En : p_Name (nm ++ flat_map (render_att c p) atts' ++ S0 c (2%N :: p) ++ closing ++ rest)
               = Some (nm, flat_map (render_att c p) atts' ++ S0 c (2%N :: p) ++ closing ++ rest)).
  { apply p_Name_app; [exact Hn|].
    destruct atts' as [|ia l].
    - cbn [flat_map app]. destruct (S0 c (2%N :: p)) as [|w ws] eqn:Ew.
      + cbn [app]. destruct Hcl as [[-> _]|[-> _]]; reflexivity.
      + cbn [app stops_name]. apply isS_not_namechar. pose proof (S0_S c (2%N :: p)) as HS. rewrite Ew in HS.
        cbn [forallb] in HS. apply andb_true_iff in HS. tauto.
    - cbn [flat_map]. unfold render_att at 1. rewrite <- !app_assoc.
      destruct (S1 c (0%N :: N.of_nat (fst ia) :: 1%N :: p)) as [|w ws] eqn:Ew; [now elim (S1_ne c (0%N :: N.of_nat (fst ia) :: 1%N :: p))|].
      cbn [app stops_name]. apply isS_not_namechar. pose proof (S1_S c (0%N :: N.of_nat (fst ia) :: 1%N :: p)) as HS. rewrite Ew in HS.
      cbn [forallb] in HS. apply andb_true_iff in HS. tauto. }
  unfold str, char in *. rewrite En. cbn [bind]. rewrite Hp. reflexivity.
Qed.

(** ** nodes *)
Ltac norm_app := repeat progress (rewrite <- ?app_assoc; cbn [tl app]).

Definition parses2 (c : choices) (p : list N) (x : anode) : Prop :=
  exists items n m, reads x items /\ n <= length (render_node c p x) /\
    (forall fuel T, match x with AText _ => follow_ok T | _ => True end ->
       p_content (n + fuel) (render_node c p x ++ T) =
       bind (p_content (m + fuel) T) (fun '(l, r) => Some (items ++ l, r))) /\
    match x with
    | AElem _ _ _ => exists item, items = [item] /\
        forall F T, n <= S F -> p_element_with (p_content F) F (tl (render_node c p x) ++ T) = Some (item, T)
    | _ => True
    end.

Lemma kids_reads c p : forall kids, Forall (fun y => syn_ok y = true -> forall c p, parses2 c p y) kids ->
  forallb syn_ok kids = true -> no_adjacent_text kids = true -> forall i,
  exists items n m, reads_list kids items /\ n <= length (render_kids c p i kids) /\ forall fuel T, follow_ok T ->
    p_content (n + fuel) (render_kids c p i kids ++ T) =
    bind (p_content (m + fuel) T) (fun '(l, r) => Some (items ++ l, r)).
Proof.
  induction kids as [|y t IH]; intros HF Hok Hadj i.
  - exists [], 0, 0. split; [reflexivity|]. split; [cbn; lia|]. intros fuel T _. cbn [render_kids app Nat.add]. destruct (p_content fuel T) as [[l r]|]; reflexivity.
  - inversion HF as [|y' t' Hy Ht]; subst. cbn [forallb] in Hok. apply andb_true_iff in Hok. destruct Hok as [Hoy Hot].
    assert (Hadj_t : no_adjacent_text t = true).
    { destruct y; cbn [no_adjacent_text] in Hadj; try exact Hadj. destruct t as [|z t']; [reflexivity|]. destruct z; try exact Hadj; discriminate. }
    destruct (IH Ht Hot Hadj_t (i + 1)%N) as (its & nt & mt & Rt & Bt & Ht').
    destruct (Hy Hoy c (i :: 5%N :: p)) as (iy & ny & my & Ry & By & Hy' & _).
    exists (iy ++ its), (ny + nt), (mt + my). split; [cbn [reads_list]; exists iy, its; auto|].
    split; [cbn [render_kids]; rewrite app_length; lia|].
    intros fuel T HT. cbn [render_kids]. rewrite <- app_assoc.
    replace (ny + nt + fuel) with (ny + (nt + fuel)) by lia.
    rewrite Hy'.
    + replace (my + (nt + fuel)) with (nt + (my + fuel)) by lia. rewrite (Ht' (my + fuel) T HT).
      replace (mt + (my + fuel)) with (mt + my + fuel) by lia.
      destruct (p_content (mt + my + fuel) T) as [[l r]|]; cbn [bind]; [now rewrite app_assoc|reflexivity].
    + destruct y as [s| | | |]; try exact I.
      destruct t as [|z t']; [cbn [render_kids app]; exact HT|].
      assert (Hz : match z with AText _ => False | _ => True end) by (destruct z; try exact I; discriminate).
      destruct (render_head c ((i + 1)%N :: 5%N :: p) z Hz) as (h & r & Eh & Hh).
      cbn [render_kids]. rewrite Eh. cbn [app]. exact Hh.
Qed.

Lemma render_open_len c p nm atts : 1 <= length nm ->
  S (S (length (flat_map (render_att c p) (perm_atts c p atts)))) <= length (render_open c p nm atts).
Proof. intros H. unfold render_open. fold (perm_atts c p atts). cbn [length]. rewrite !app_length. lia. Qed.

Theorem node_reads : forall x, syn_ok x = true -> forall c p, parses2 c p x.
Proof.
  induction x as [s|nm|s|t d|nm atts kids IHk] using anode_ind2; intros Hok c p; unfold parses2; cbn [syn_ok] in Hok.
  - destruct (text_reads_back2 c p (S (length s)) 0%N c_rbr s Hok ltac:(lia)) as (items & n & Hi & Htl & Hn & Hrun).
    exists items, n, 0. split; [cbn [reads]; auto|]. split; [exact Hn|]. split; [|exact I]. intros fuel T HT. cbn [render_node Nat.add]. now apply Hrun.
  - exists [XEntRef nm], 1, 0. split; [reflexivity|]. split; [cbn [render_node]; unfold entity_ref; cbn [length]; lia|]. split; [|exact I].
    intros fuel T _. cbn [render_node Nat.add app]. now apply pc_entref.
  - exists [XComment s], 1, 0. split; [reflexivity|]. split; [cbn [render_node]; unfold render_comment, s_comment_open; cbn [app length]; lia|]. split; [|exact I].
    intros fuel T _. cbn [render_node Nat.add app]. now apply pc_comment.
  - exists [XPI t d], 1, 0. split; [reflexivity|]. split; [cbn [render_node]; unfold render_pi, s_pi_open; cbn [app length]; lia|]. split; [|exact I].
    intros fuel T _. cbn [render_node Nat.add app]. now apply pc_pi.
  - apply andb_true_iff in Hok. destruct Hok as [Hok Hadj]. apply andb_true_iff in Hok. destruct Hok as [Hok Hkids].
    apply andb_true_iff in Hok. destruct Hok as [Hn Hatts].
    destruct (name_head nm Hn) as (x & t & -> & Hx).
    set (A := atts_size (perm_atts c p atts)).
    assert (HA : A <= S (length (flat_map (render_att c p) (perm_atts c p atts)))) by apply atts_size_le.
    pose proof (render_open_len c p (x :: t) atts ltac:(cbn [length]; lia)) as Hol.
    destruct (kids_reads c p kids IHk Hkids Hadj 0%N) as (kitems & nk & mk & Rk & Bk & Hk).
    destruct (p_tag_render2 c p (x :: t) atts Hn Hatts) as (parsed & Hrd & Htag). fold A in Htag.
    rewrite render_node_elem.
    (* the start/end pair around some content K whose parse is known *)
    assert (Hpair : forall K items' n' m',
              (forall fuel T, follow_ok T -> p_content (n' + fuel) (K ++ T) = bind (p_content (m' + fuel) T) (fun '(l, r) => Some (items' ++ l, r))) ->
              forall F T, A + n' + 1 <= F ->
              p_element_with (p_content F) F (tl (render_open c p (x :: t) atts ++ [c_gt] ++ K ++ s_etag_open ++ (x :: t) ++ S0 c (4%N :: p) ++ [c_gt]) ++ T) =
              Some (XElem (x :: t) parsed (Some (x :: t)) items', T)).
    { intros K items' n' m' HK F T HF.
      assert (Etl : tl (render_open c p (x :: t) atts ++ [c_gt] ++ K ++ s_etag_open ++ (x :: t) ++ S0 c (4%N :: p) ++ [c_gt]) ++ T
                    = tl (render_open c p (x :: t) atts) ++ [c_gt] ++ (K ++ s_etag_open ++ (x :: t) ++ S0 c (4%N :: p) ++ [c_gt] ++ T)).
      { unfold render_open. norm_app. reflexivity. }
      rewrite Etl. unfold p_element_with.
      pose proof (Htag [c_gt] false (K ++ s_etag_open ++ (x :: t) ++ S0 c (4%N :: p) ++ [c_gt] ++ T) (F - A) (or_introl (conj eq_refl eq_refl))) as Ht.
      replace (A + (F - A)) with F in Ht by lia.
      pose proof (HK (F - n') (s_etag_open ++ (x :: t) ++ S0 c (4%N :: p) ++ [c_gt] ++ T) (or_introl eq_refl)) as Hk2.
      replace (n' + (F - n')) with F in Hk2 by lia.
      replace (m' + (F - n')) with (S (m' + (F - n' - 1))) in Hk2 by lia. rewrite pc_etag_stop in Hk2. cbn [bind] in Hk2. rewrite app_nil_r in Hk2.
      pose proof (p_etag_render c (4%N :: p) (x :: t) T Hn) as Het.
      pose proof (strip_app s_etag_open ((x :: t) ++ S0 c (4%N :: p) ++ [c_gt] ++ T)) as Hst.
      unfold str, char in *. rewrite Ht. cbn [bind]. rewrite Hk2. cbn [bind]. rewrite Hst. cbn [bind]. rewrite Het. reflexivity. }
    (* from the element form to the content form *)
    assert (Hcont : forall body item b, (forall F T, b <= F -> p_element_with (p_content F) F (tl (render_open c p (x :: t) atts ++ body) ++ T) = Some (item, T)) ->
              forall fuel T, p_content (S b + fuel) ((render_open c p (x :: t) atts ++ body) ++ T) =
                             bind (p_content (b + fuel) T) (fun '(l, r) => Some ([item] ++ l, r))).
    { intros body item b Hel fuel T.
      set (after := flat_map (render_att c p) (permute c (0%N :: p) 0 (combine (seq 0 (length atts)) atts) []) ++ S0 c (2%N :: p)).
      assert (E : (render_open c p (x :: t) atts ++ body) ++ T = c_lt :: (x :: t) ++ (after ++ body ++ T)).
      { unfold render_open, after. norm_app. reflexivity. }
      assert (E2 : tl (render_open c p (x :: t) atts ++ body) ++ T = (x :: t) ++ (after ++ body ++ T)).
      { unfold render_open, after. norm_app. reflexivity. }
      rewrite E. cbn [Nat.add]. rewrite (pc_elem (b + fuel) x t _ item T Hx).
      - destruct (p_content (b + fuel) T) as [[l r]|]; reflexivity.
      - pose proof (Hel (b + fuel) T ltac:(lia)) as H'. rewrite E2 in H'. exact H'. }
    destruct kids as [|k0 kids'].
    + destruct (N.eqb (N.modulo (c (3%N :: p)) 2) 0).
      * (* empty-element tag *)
        assert (Hel : forall F T, A <= F -> p_element_with (p_content F) F (tl (render_open c p (x :: t) atts ++ s_empty_close) ++ T) = Some (XElem (x :: t) parsed None [], T)).
        { intros F T HF. assert (Etl : tl (render_open c p (x :: t) atts ++ s_empty_close) ++ T = tl (render_open c p (x :: t) atts) ++ s_empty_close ++ T).
          { unfold render_open. norm_app. reflexivity. }
          rewrite Etl. unfold p_element_with.
          pose proof (Htag s_empty_close true T (F - A) (or_intror (conj eq_refl eq_refl))) as Ht. replace (A + (F - A)) with F in Ht by lia.
          unfold str, char in *. rewrite Ht. reflexivity. }
        exists [XElem (x :: t) parsed None []], (S A), A. split; [apply reads_elem; exists parsed, None, []; split; [reflexivity|]; split; [exact Hrd|]; split; [right; split; reflexivity|reflexivity]|].
        split; [unfold str, char in *; rewrite app_length; unfold s_empty_close; cbn [length]; lia|].
        split; [intros fuel T _; apply Hcont; exact Hel|].
        eexists. split; [reflexivity|]. intros F T HF. apply Hel. lia.
      * pose proof (Hpair [] [] 0 0 ltac:(intros fuel' T' _; cbn [app Nat.add]; destruct (p_content fuel' T') as [[l r]|]; reflexivity)) as Hel.
        exists [XElem (x :: t) parsed (Some (x :: t)) []], (S (A + 0 + 1)), (A + 0 + 1).
        split; [apply reads_elem; exists parsed, (Some (x :: t)), []; split; [reflexivity|]; split; [exact Hrd|]; split; [left; reflexivity|reflexivity]|].
        split; [unfold str, char in *; rewrite !app_length; unfold s_etag_open; cbn [length]; lia|].
        split; [intros fuel T _; apply (Hcont ([c_gt] ++ [] ++ s_etag_open ++ (x :: t) ++ S0 c (4%N :: p) ++ [c_gt])); exact Hel|].
        eexists. split; [reflexivity|]. intros F T HF. apply (Hel F T). lia.
    + pose proof (Hpair (render_kids c p 0 (k0 :: kids')) kitems nk mk Hk) as Hel.
      exists [XElem (x :: t) parsed (Some (x :: t)) kitems], (S (A + nk + 1)), (A + nk + 1).
      split; [apply reads_elem; exists parsed, (Some (x :: t)), kitems; split; [reflexivity|]; split; [exact Hrd|]; split; [left; reflexivity|exact Rk]|].
      split; [unfold str, char in *; rewrite !app_length; unfold s_etag_open; cbn [length]; lia|].
      split; [intros fuel T _; apply (Hcont ([c_gt] ++ render_kids c p 0 (k0 :: kids') ++ s_etag_open ++ (x :: t) ++ S0 c (4%N :: p) ++ [c_gt])); exact Hel|].
      eexists. split; [reflexivity|]. intros F T HF. apply (Hel F T). lia.
Qed.

Corollary valid_node_reads : forall x, node_ok x = true -> forall c p, parses2 c p x.
Proof. intros x H. apply node_reads, node_ok_syn, H. Qed.
