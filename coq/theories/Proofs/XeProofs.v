(** * xe: the sequential in-place algorithm of the tool computes [replace_spec] (C17).

    [xe_effect_elements]: for every document, every list of selected ELEMENT identifiers (in
    any order, nested or not) and every replacement the tool can convert, the model of
    xe's loop ends with exactly the document [replace_spec] prescribes.  [rs_frame]: every
    subtree that contains no selected node is returned unchanged by [replace_spec]. *)
From Coq Require Import List NArith Bool Arith Lia.
From XmlRs Require Import Base.CPred Spec.XeSpec Model.Cli.
Import ListNotations.
Local Open Scope nat_scope.

(** ** induction principles for the two nested tree types *)
Section XnInd.
  Variable PP : xn -> Prop.
  Hypothesis HE : forall i name attrs ch, Forall PP ch -> PP (E i name attrs ch).
  Hypothesis HT : forall s, PP (T s).
  Hypothesis HC : forall s, PP (Cm s).
  Hypothesis HP : forall t d, PP (P t d).
  Hypothesis HR : forall n, PP (Rf n).
  Hypothesis HD : forall s, PP (D s).
  Hypothesis HX : forall s, PP (X s).
  Fixpoint xn_ind' (n : xn) : PP n :=
    match n with
    | E i name attrs ch =>
        HE i name attrs ch ((fix go (l : list xn) : Forall PP l :=
                               match l with
                               | [] => Forall_nil PP
                               | c :: r => Forall_cons c (xn_ind' c) (go r)
                               end) ch)
    | T s => HT s | Cm s => HC s | P t d => HP t d | Rf m => HR m | D s => HD s | X s => HX s
    end.
End XnInd.

Section FnInd.
  Variable Q : fnode -> Prop.
  Hypothesis HFE : forall name attrs ch, Forall Q ch -> Q (FE name attrs ch).
  Hypothesis HFT : forall s, Q (FT s).
  Hypothesis HFCd : forall s, Q (FCd s).
  Hypothesis HFC : forall s, Q (FC s).
  Hypothesis HFP : forall t d, Q (FP t d).
  Hypothesis HFR : forall n, Q (FR n).
  Hypothesis HFX : Q FX.
  Fixpoint fnode_ind' (f : fnode) : Q f :=
    match f with
    | FE name attrs ch =>
        HFE name attrs ch ((fix go (l : list fnode) : Forall Q l :=
                              match l with
                              | [] => Forall_nil Q
                              | c :: r => Forall_cons c (fnode_ind' c) (go r)
                              end) ch)
    | FT s => HFT s | FCd s => HFCd s | FC s => HFC s | FP t d => HFP t d | FR n => HFR n | FX => HFX
    end.
End FnInd.

(** ** what the tool converts, it converts as the specification says *)
Definition go_model :=
  fix go (l : list fnode) : option (option (list xn)) :=
    match l with
    | [] => Some (Some [])
    | c :: r => match conv_model c with
                | CRefused => Some None
                | CUnmodelled => None
                | CNode n => match go r with
                             | Some (Some l') => Some (Some (n :: l'))
                             | x => x
                             end
                end
    end.

Lemma go_model_conv_list l : go_model l = conv_list l.
Proof. reflexivity. Qed.

Lemma conv_model_conv : forall f n, conv_model f = CNode n -> conv f = n.
Proof.
  induction f as [name attrs ch IH|s|s|s|t d|nm|] using fnode_ind'; intros n H; cbn [conv_model conv] in *;
    try (injection H as <-; reflexivity); try discriminate.
  - destruct (has_colon name || existsb (fun a => has_colon (fst a)) attrs); [discriminate|].
    fold go_model in H.
    assert (Hl : forall new, go_model ch = Some (Some new) -> map conv ch = new).
    { clear H. induction ch as [|c r IHr]; intros new Hn; cbn [go_model map] in *.
      - injection Hn as <-. reflexivity.
      - inversion IH as [|? ? Hc Hr]; subst. destruct (conv_model c) as [nc| |] eqn:Ec; try discriminate.
        destruct (go_model r) as [[l'|]|] eqn:Er; try discriminate. injection Hn as <-.
        rewrite (Hc nc eq_refl). now rewrite (IHr Hr l' eq_refl). }
    destruct (go_model ch) as [[new|]|] eqn:Eg; try discriminate. injection H as <-.
    now rewrite (Hl new eq_refl).
  - destruct (predefined nm); [injection H as <-; reflexivity|discriminate].
Qed.

Lemma conv_list_map : forall frag new, conv_list frag = Some (Some new) -> map conv frag = new.
Proof.
  induction frag as [|c r IH]; intros new H; cbn [conv_list map] in *.
  - injection H as <-. reflexivity.
  - destruct (conv_model c) as [nc| |] eqn:Ec; try discriminate.
    destruct (conv_list r) as [[l'|]|] eqn:Er; try discriminate. injection H as <-.
    rewrite (conv_model_conv _ _ Ec). now rewrite (IH l' eq_refl).
Qed.

(** ** nodes that carry no identifier other than 0 (freshly created ones) *)
Fixpoint fresh (n : xn) : Prop :=
  match n with
  | E i _ attrs ch => i = 0 /\ (fix all (l : list xn) : Prop := match l with [] => True | c :: r => fresh c /\ all r end) ch
  | _ => True
  end.
Definition all_fresh (l : list xn) : Prop := Forall fresh l.

Lemma fresh_E i name attrs ch : fresh (E i name attrs ch) <-> i = 0 /\ all_fresh ch.
Proof.
  cbn [fresh]. split; intros [Hi H]; split; auto.
  - induction ch as [|c r IH]; [constructor|]. destruct H as [Hc Hr]. constructor; auto. apply IH, Hr.
  - induction H as [|c r Hc Hr IH]; [exact I|]. split; auto.
Qed.

Lemma edit_fresh i new : i <> 0 -> forall n, fresh n -> edit_elem i new n = n.
Proof.
  intros Hi. induction n as [j name attrs ch IH|s|s|t d|m|s|s] using xn_ind'; intros Hf; cbn [edit_elem]; try reflexivity.
  apply fresh_E in Hf. destruct Hf as [-> Hch].
  destruct (Nat.eqb_spec i 0) as [E0|_]; [contradiction|]. f_equal.
  induction ch as [|c r IHr]; [reflexivity|]. cbn [map].
  inversion IH as [|? ? Hc Hr]; subst. inversion Hch as [|? ? Fc Fr]; subst.
  rewrite (Hc Fc). f_equal. apply IHr; assumption.
Qed.

Lemma map_edit_fresh i new l : i <> 0 -> all_fresh l -> map (edit_elem i new) l = l.
Proof.
  intros Hi H. induction H as [|c r Fc Fr IHr]; [reflexivity|]. cbn [map].
  rewrite (edit_fresh i new Hi c Fc). now rewrite IHr.
Qed.

Lemma merge_text_fresh l : all_fresh l -> all_fresh (merge_text l).
Proof.
  unfold all_fresh. induction l as [|x l IH]; intros H; cbn [merge_text]; [constructor|].
  inversion H as [|? ? Hx Hl]; subst. specialize (IH Hl).
  destruct x; try (constructor; assumption).
  destruct (merge_text l) as [|y r] eqn:Em.
  - destruct s; [constructor|constructor; [exact I|constructor]].
  - destruct y; try (destruct s; [exact IH|constructor; [exact I|exact IH]]).
    inversion IH; subst. constructor; [exact I|assumption].
Qed.

Lemma conv_fresh : forall f, fresh (conv f).
Proof.
  induction f as [name attrs ch IH|s|s|s|t d|nm|] using fnode_ind'; cbn [conv]; try exact I.
  - apply fresh_E. split; [reflexivity|]. apply merge_text_fresh.
    unfold all_fresh. induction IH as [|c r Hc Hr IHr]; cbn [map]; constructor; assumption.
  - destruct (predefined nm); exact I.
Qed.

(** ** structural replacement at a set of element identifiers *)
Fixpoint rsE (S : list nat) (new : list xn) (n : xn) : xn :=
  match n with
  | E j name attrs ch => if memb j S then E j name attrs new else E j name attrs (map (rsE S new) ch)
  | other => other
  end.

Lemma rsE_nil new : forall n, rsE [] new n = n.
Proof.
  induction n as [j name attrs ch IH|s|s|t d|m|s|s] using xn_ind'; cbn [rsE memb existsb]; try reflexivity.
  f_equal. induction IH as [|c r Hc Hr IHr]; [reflexivity|]. cbn [map]. now rewrite Hc, IHr.
Qed.

Lemma rsE_ext S S' new : (forall i, memb i S = memb i S') -> forall n, rsE S new n = rsE S' new n.
Proof.
  intros H. induction n as [j name attrs ch IH|s|s|t d|m|s|s] using xn_ind'; cbn [rsE]; try reflexivity.
  rewrite (H j). destruct (memb j S'); [reflexivity|]. f_equal.
  induction IH as [|c r Hc Hr IHr]; [reflexivity|]. cbn [map]. now rewrite Hc, IHr.
Qed.

Lemma memb_cons i j S : memb i (j :: S) = Nat.eqb i j || memb i S.
Proof. reflexivity. Qed.

Lemma memb_app i S S' : memb i (S ++ S') = memb i S || memb i S'.
Proof. unfold memb. apply existsb_app. Qed.

Lemma memb_rev i S : memb i (rev S) = memb i S.
Proof.
  induction S as [|j S IH]; [reflexivity|]. cbn [rev]. rewrite memb_app, IH, memb_cons.
  cbn [memb existsb]. rewrite orb_false_r. apply orb_comm.
Qed.

(** one in-place edit adds one identifier to the set *)
Lemma edit_rsE i S new : i <> 0 -> all_fresh new ->
  forall n, edit_elem i new (rsE S new n) = rsE (i :: S) new n.
Proof.
  intros Hi Hnew. induction n as [j name attrs ch IH|s|s|t d|m|s|s] using xn_ind'; cbn [rsE]; try reflexivity.
  rewrite memb_cons. destruct (memb j S) eqn:Ej.
  - rewrite orb_true_r. cbn [edit_elem]. destruct (Nat.eqb_spec i j); [reflexivity|]. f_equal.
    apply map_edit_fresh; assumption.
  - rewrite orb_false_r. cbn [edit_elem]. rewrite (Nat.eqb_sym j i). destruct (Nat.eqb_spec i j); [reflexivity|]. f_equal.
    rewrite map_map. induction IH as [|c r Hc Hr IHr]; [reflexivity|]. cbn [map]. now rewrite Hc, IHr.
Qed.

Lemma rsE_is_elem S new n : is_elem (rsE S new n) = is_elem n.
Proof. destruct n; cbn [rsE is_elem]; try reflexivity. destruct (memb id S); reflexivity. Qed.

Lemma existsb_is_elem_rsE S new l : existsb is_elem (map (rsE S new) l) = existsb is_elem l.
Proof. induction l as [|c r IH]; [reflexivity|]. cbn [map existsb]. now rewrite rsE_is_elem, IH. Qed.

(** ** the loop of the tool *)
Lemma xe_loop_elements frag new : conv_list frag = Some (Some new) ->
  let newm := merge_text new in
  forall ids did0 ch0 S, ~ In 0 ids -> all_fresh newm -> existsb is_elem ch0 = true ->
  xe_loop {| did := did0; dchildren := map (rsE S newm) ch0 |} (map (fun i => (i, KElem)) ids) frag
  = Done {| did := did0; dchildren := map (rsE (rev ids ++ S) newm) ch0 |}.
Proof.
  intros Hc newm. induction ids as [|i ids IH]; intros did0 ch0 S H0 Hf Hroot; cbn [map xe_loop rev app].
  - unfold finish. cbn [dchildren]. now rewrite existsb_is_elem_rsE, Hroot.
  - rewrite Hc. cbn [did dchildren]. fold newm.
    assert (Hi : i <> 0) by (intros ->; apply H0; left; reflexivity).
    rewrite map_map. rewrite (map_ext _ _ (edit_rsE i S newm Hi Hf)).
    rewrite IH; [|intros Hin; apply H0; right; exact Hin|exact Hf|exact Hroot].
    now rewrite <- app_assoc.
Qed.

(** ** the specification on documents whose attributes are not selected *)
Fixpoint attr_free (S : list nat) (n : xn) : Prop :=
  match n with
  | E _ _ attrs ch =>
      Forall (fun a => memb (fst (fst a)) S = false) attrs /\
      (fix all (l : list xn) : Prop := match l with [] => True | c :: r => attr_free S c /\ all r end) ch
  | _ => True
  end.

Lemma attr_free_E S i name attrs ch :
  attr_free S (E i name attrs ch) <-> Forall (fun a => memb (fst (fst a)) S = false) attrs /\ Forall (attr_free S) ch.
Proof.
  cbn [attr_free]. split; intros [Ha H]; split; auto.
  - induction ch as [|c r IH]; [constructor|]. destruct H as [Hc Hr]. constructor; auto.
  - induction H as [|c r Hc Hr IH]; [exact I|]. split; auto.
Qed.

Lemma rs_attrs_free S frag attrs :
  Forall (fun a => memb (fst (fst a)) S = false) attrs -> rs_attrs S frag attrs = Some attrs.
Proof.
  unfold rs_attrs. induction 1 as [|[[i n] v] r Hi Hr IH]; cbn [fold_right]; [reflexivity|].
  rewrite IH. cbn [fst] in Hi. now rewrite Hi.
Qed.

Definition go_rs (S : list nat) (frag : list fnode) :=
  fix go (l : list xn) : option (list xn) :=
    match l with
    | [] => Some []
    | c :: r => match rs S frag c, go r with
                | Some c', Some r' => Some (c' :: r')
                | _, _ => None
                end
    end.

Lemma rs_rsE S frag : forall n, attr_free S n -> rs S frag n = Some (rsE S (conv_children frag) n).
Proof.
  induction n as [j name attrs ch IH|s|s|t d|m|s|s] using xn_ind'; intros Hf; cbn [rs rsE]; try reflexivity.
  apply attr_free_E in Hf. destruct Hf as [Ha Hch]. rewrite (rs_attrs_free _ _ _ Ha).
  destruct (memb j S); [reflexivity|]. fold (go_rs S frag).
  assert (Hg : go_rs S frag ch = Some (map (rsE S (conv_children frag)) ch)).
  { induction ch as [|c r IHr]; [reflexivity|]. cbn [go_rs map].
    inversion IH as [|? ? Hc Hr]; subst. inversion Hch as [|? ? Fc Fr]; subst.
    rewrite (Hc Fc). fold (go_rs S frag). now rewrite (IHr Hr Fr). }
  now rewrite Hg.
Qed.

Lemma go_rs_map S frag ch : Forall (attr_free S) ch ->
  go_rs S frag ch = Some (map (rsE S (conv_children frag)) ch).
Proof.
  induction 1 as [|c r Fc Fr IH]; [reflexivity|]. cbn [go_rs map]. rewrite (rs_rsE S frag c Fc).
  fold (go_rs S frag). now rewrite IH.
Qed.

(** ** main theorem *)
Theorem xe_effect_elements : forall (d : xdoc) (ids : list nat) (frag : list fnode) (new : list xn),
  conv_list frag = Some (Some new) ->          (* the tool can convert the replacement *)
  ~ In 0 ids -> did d = 0 ->                    (* the document node is not selected *)
  Forall (attr_free ids) (dchildren d) ->       (* only elements are selected *)
  existsb is_elem (dchildren d) = true ->       (* the document has a document element *)
  exists d',
    xe_model d (map (fun i => (i, KElem)) ids) frag = Done d' /\
    replace_spec ids frag d = Some d'.
Proof.
  intros [did0 ch0] ids frag new Hc H0 Hd Hfree Hroot. cbn [did dchildren] in *. subst did0.
  pose proof (conv_list_map _ _ Hc) as Hmap.
  assert (Hnewm : all_fresh (merge_text new)).
  { apply merge_text_fresh. rewrite <- Hmap. unfold all_fresh. clear. induction frag; cbn [map]; constructor; [apply conv_fresh|assumption]. }
  exists {| did := 0; dchildren := map (rsE ids (merge_text new)) ch0 |}. split.
  - unfold xe_model.
    replace ch0 with (map (rsE [] (merge_text new)) ch0) at 1
      by (rewrite (map_ext _ _ (rsE_nil (merge_text new))); apply map_id).
    rewrite (xe_loop_elements frag new Hc ids 0 ch0 [] H0 Hnewm Hroot). rewrite app_nil_r. f_equal. f_equal.
    apply map_ext. intros n. apply rsE_ext. intros i. apply memb_rev.
  - unfold replace_spec. cbn [did dchildren].
    assert (Hm : memb 0 ids = false).
    { unfold memb. destruct (existsb (Nat.eqb 0) ids) eqn:E; [|reflexivity]. apply existsb_exists in E.
      destruct E as [x [Hx Hx0]]. apply Nat.eqb_eq in Hx0. subst x. contradiction. }
    rewrite Hm. fold (go_rs ids frag). rewrite (go_rs_map _ _ _ Hfree).
    unfold conv_children. now rewrite Hmap.
Qed.

(** ** frame: a subtree without any selected identifier is returned as it is *)
Fixpoint untouched (S : list nat) (n : xn) : Prop :=
  match n with
  | E j _ attrs ch =>
      memb j S = false /\ Forall (fun a => memb (fst (fst a)) S = false) attrs /\
      (fix all (l : list xn) : Prop := match l with [] => True | c :: r => untouched S c /\ all r end) ch
  | _ => True
  end.

Lemma untouched_E S j name attrs ch :
  untouched S (E j name attrs ch) <->
  memb j S = false /\ Forall (fun a => memb (fst (fst a)) S = false) attrs /\ Forall (untouched S) ch.
Proof.
  cbn [untouched]. split; intros (Hj & Ha & H); repeat split; auto.
  - induction ch as [|c r IH]; [constructor|]. destruct H as [Hc Hr]. constructor; auto.
  - induction H as [|c r Hc Hr IH]; [exact I|]. split; auto.
Qed.

Theorem rs_frame S frag : forall n, untouched S n -> rs S frag n = Some n.
Proof.
  induction n as [j name attrs ch IH|s|s|t d|m|s|s] using xn_ind'; intros Hu; cbn [rs]; try reflexivity.
  apply untouched_E in Hu. destruct Hu as (Hj & Ha & Hch). rewrite (rs_attrs_free _ _ _ Ha), Hj.
  fold (go_rs S frag).
  assert (Hg : go_rs S frag ch = Some ch).
  { induction ch as [|c r IHr]; [reflexivity|]. cbn [go_rs].
    inversion IH as [|? ? Hc Hr]; subst. inversion Hch as [|? ? Uc Ur]; subst.
    rewrite (Hc Uc). fold (go_rs S frag). now rewrite (IHr Hr Ur). }
  now rewrite Hg.
Qed.

(** xq: the model prints what the specification prescribes, line by line *)
Theorem xq_output : forall lines, xq_model lines = xq_spec lines.
Proof. reflexivity. Qed.

(** non-vacuity: a document with nested selected elements *)
Example xe_example :
  let d := {| did := 0; dchildren := [E 1 [114%N] [] [E 2 [97%N] [(3, [112%N], [49%N])] [T [120%N]; E 4 [97%N] [] []]; E 5 [99%N] [] []]] |} in
  xe_model d [(2, KElem); (4, KElem)] [FT [110%N]; FE [107%N] [] []]
  = Done {| did := 0; dchildren := [E 1 [114%N] [] [E 2 [97%N] [(3, [112%N], [49%N])] [T [110%N]; E 0 [107%N] [] []]; E 5 [99%N] [] []]] |}
  /\ replace_spec [2; 4] [FT [110%N]; FE [107%N] [] []] d
     = Some {| did := 0; dchildren := [E 1 [114%N] [] [E 2 [97%N] [(3, [112%N], [49%N])] [T [110%N]; E 0 [107%N] [] []]; E 5 [99%N] [] []]] |}.
Proof. split; vm_compute; reflexivity. Qed.

(** * The general case: elements, attributes and the document node among the selected nodes *)

Definition upd_attrs (SA : list nat) (v : str) (attrs : list (nat * str * str)) : list (nat * str * str) :=
  map (fun a => let '(i, n, w) := a in if memb i SA then (i, n, v) else a) attrs.

Fixpoint rsA (SE SA : list nat) (v : str) (new : list xn) (n : xn) : xn :=
  match n with
  | E j name attrs ch =>
      if memb j SE then E j name (upd_attrs SA v attrs) new
      else E j name (upd_attrs SA v attrs) (map (rsA SE SA v new) ch)
  | other => other
  end.

(** fresh nodes: element AND attribute identifiers are 0 *)
Fixpoint fresh2 (n : xn) : Prop :=
  match n with
  | E i _ attrs ch => i = 0 /\ Forall (fun a => fst (fst a) = 0) attrs /\
      (fix all (l : list xn) : Prop := match l with [] => True | c :: r => fresh2 c /\ all r end) ch
  | _ => True
  end.

Lemma fresh2_E i name attrs ch :
  fresh2 (E i name attrs ch) <-> i = 0 /\ Forall (fun a => fst (fst a) = 0) attrs /\ Forall fresh2 ch.
Proof.
  cbn [fresh2]. split; intros (Hi & Ha & H); repeat split; auto.
  - induction ch as [|c r IH]; [constructor|]. destruct H as [Hc Hr]. constructor; auto.
  - induction H as [|c r Hc Hr IH]; [exact I|]. split; auto.
Qed.

Lemma fresh2_fresh : forall n, fresh2 n -> fresh n.
Proof.
  induction n as [j name attrs ch IH|s|s|t d|m|s|s] using xn_ind'; intros H; try exact I.
  apply fresh2_E in H. destruct H as (Hj & _ & Hch). apply fresh_E. split; [exact Hj|].
  unfold all_fresh. induction ch as [|c r IHr]; [constructor|].
  inversion IH; subst. inversion Hch; subst. constructor; auto.
Qed.

Lemma set_attr_zero j v attrs : j <> 0 -> Forall (fun a => fst (fst a) = 0) attrs -> set_attr j v attrs = attrs.
Proof.
  intros Hj H. unfold set_attr. induction H as [|[[i n] w] r Hi Hr IH]; [reflexivity|]. cbn [map fst] in *. subst i.
  destruct (Nat.eqb_spec j 0); [contradiction|]. now rewrite IH.
Qed.

Lemma edit_attr_fresh j v : j <> 0 -> forall n, fresh2 n -> edit_attr j v n = n.
Proof.
  intros Hj. induction n as [i name attrs ch IH|s|s|t d|m|s|s] using xn_ind'; intros Hf; cbn [edit_attr]; try reflexivity.
  apply fresh2_E in Hf. destruct Hf as (_ & Ha & Hch). rewrite (set_attr_zero j v attrs Hj Ha). f_equal.
  induction ch as [|c r IHr]; [reflexivity|]. cbn [map]. inversion IH; subst. inversion Hch; subst.
  f_equal; auto.
Qed.

Lemma map_edit_attr_fresh j v l : j <> 0 -> Forall fresh2 l -> map (edit_attr j v) l = l.
Proof.
  intros Hj H. induction H as [|c r Fc Fr IHr]; [reflexivity|]. cbn [map].
  rewrite (edit_attr_fresh j v Hj c Fc). now rewrite IHr.
Qed.

Lemma merge_text_fresh2 l : Forall fresh2 l -> Forall fresh2 (merge_text l).
Proof.
  induction l as [|x l IH]; intros H; cbn [merge_text]; [constructor|].
  inversion H as [|? ? Hx Hl]; subst. specialize (IH Hl).
  destruct x; try (constructor; assumption).
  destruct (merge_text l) as [|y r] eqn:Em.
  - destruct s; [constructor|constructor; [exact I|constructor]].
  - destruct y; try (destruct s; [exact IH|constructor; [exact I|exact IH]]).
    inversion IH; subst. constructor; [exact I|assumption].
Qed.

Lemma conv_fresh2 : forall f, fresh2 (conv f).
Proof.
  induction f as [name attrs ch IH|s|s|s|t d|nm|] using fnode_ind'; cbn [conv]; try exact I.
  - apply fresh2_E. split; [reflexivity|]. split.
    + clear. induction attrs as [|a r IHr]; cbn [map]; constructor; [reflexivity|exact IHr].
    + apply merge_text_fresh2. induction IH as [|c r Hc Hr IHr]; cbn [map]; constructor; assumption.
  - destruct (predefined nm); exact I.
Qed.

Lemma upd_attrs_nil v attrs : upd_attrs [] v attrs = attrs.
Proof. unfold upd_attrs. induction attrs as [|[[i n] w] r IH]; [reflexivity|]. cbn [map]. rewrite IH. reflexivity. Qed.

Lemma set_attr_upd j SA v attrs : set_attr j v (upd_attrs SA v attrs) = upd_attrs (j :: SA) v attrs.
Proof.
  unfold set_attr, upd_attrs. rewrite map_map. apply map_ext. intros [[i n] w].
  rewrite memb_cons. rewrite (Nat.eqb_sym i j). destruct (memb i SA); cbn [orb]; destruct (Nat.eqb j i); reflexivity.
Qed.

Lemma rsA_nil v new : forall n, rsA [] [] v new n = n.
Proof.
  induction n as [j name attrs ch IH|s|s|t d|m|s|s] using xn_ind'; cbn [rsA memb existsb]; try reflexivity.
  rewrite upd_attrs_nil. f_equal. induction IH as [|c r Hc Hr IHr]; [reflexivity|]. cbn [map]. now rewrite Hc, IHr.
Qed.

Lemma upd_attrs_ext SA SA' v attrs : (forall i, memb i SA = memb i SA') -> upd_attrs SA v attrs = upd_attrs SA' v attrs.
Proof. intros H. unfold upd_attrs. apply map_ext. intros [[i n] w]. now rewrite H. Qed.

Lemma rsA_ext SE SE' SA SA' v new :
  (forall i, memb i SE = memb i SE') -> (forall i, memb i SA = memb i SA') ->
  forall n, rsA SE SA v new n = rsA SE' SA' v new n.
Proof.
  intros HE HA. induction n as [j name attrs ch IH|s|s|t d|m|s|s] using xn_ind'; cbn [rsA]; try reflexivity.
  rewrite (HE j), (upd_attrs_ext SA SA' v attrs HA). destruct (memb j SE'); [reflexivity|]. f_equal.
  induction IH as [|c r Hc Hr IHr]; [reflexivity|]. cbn [map]. now rewrite Hc, IHr.
Qed.

Lemma edit_elem_rsA i SE SA v new : i <> 0 -> Forall fresh2 new ->
  forall n, edit_elem i new (rsA SE SA v new n) = rsA (i :: SE) SA v new n.
Proof.
  intros Hi Hnew. induction n as [j name attrs ch IH|s|s|t d|m|s|s] using xn_ind'; cbn [rsA]; try reflexivity.
  rewrite memb_cons. destruct (memb j SE) eqn:Ej.
  - rewrite orb_true_r. cbn [edit_elem]. destruct (Nat.eqb_spec i j); [reflexivity|]. f_equal.
    apply map_edit_fresh; [exact Hi|]. unfold all_fresh. eapply Forall_impl; [|exact Hnew]. apply fresh2_fresh.
  - rewrite orb_false_r. cbn [edit_elem]. rewrite (Nat.eqb_sym j i). destruct (Nat.eqb_spec i j); [reflexivity|]. f_equal.
    rewrite map_map. induction IH as [|c r Hc Hr IHr]; [reflexivity|]. cbn [map]. now rewrite Hc, IHr.
Qed.

Lemma edit_attr_rsA j SE SA v new : j <> 0 -> Forall fresh2 new ->
  forall n, edit_attr j v (rsA SE SA v new n) = rsA SE (j :: SA) v new n.
Proof.
  intros Hj Hnew. induction n as [i name attrs ch IH|s|s|t d|m|s|s] using xn_ind'; cbn [rsA]; try reflexivity.
  destruct (memb i SE) eqn:Ei; cbn [edit_attr]; rewrite set_attr_upd; f_equal.
  - apply map_edit_attr_fresh; assumption.
  - rewrite map_map. induction IH as [|c r Hc Hr IHr]; [reflexivity|]. cbn [map]. now rewrite Hc, IHr.
Qed.

Definition elems_of (sel : list (nat * kind)) : list nat :=
  map fst (filter (fun p => match snd p with KElem => true | _ => false end) sel).
Definition attrs_of (sel : list (nat * kind)) : list nat :=
  map fst (filter (fun p => match snd p with KAttr => true | _ => false end) sel).
Definition no_doc_other (sel : list (nat * kind)) : Prop :=
  Forall (fun p => match snd p with KElem | KAttr => True | _ => False end) sel.

Lemma rsA_is_elem SE SA v new n : is_elem (rsA SE SA v new n) = is_elem n.
Proof. destruct n; cbn [rsA is_elem]; try reflexivity. destruct (memb id SE); reflexivity. Qed.

Lemma existsb_is_elem_rsA SE SA v new l : existsb is_elem (map (rsA SE SA v new) l) = existsb is_elem l.
Proof. induction l as [|c r IH]; [reflexivity|]. cbn [map existsb]. now rewrite rsA_is_elem, IH. Qed.

(** the loop on a selection of elements and attributes *)
Lemma xe_loop_mixed frag newm v :
  forall sel did0 ch0 SE SA, no_doc_other sel -> ~ In 0 (map fst sel) -> Forall fresh2 newm ->
  (elems_of sel = [] \/ exists new, conv_list frag = Some (Some new) /\ merge_text new = newm) ->
  (attrs_of sel = [] \/ attr_text frag = Some v) ->
  existsb is_elem ch0 = true ->
  xe_loop {| did := did0; dchildren := map (rsA SE SA v newm) ch0 |} sel frag
  = Done {| did := did0; dchildren := map (rsA (rev (elems_of sel) ++ SE) (rev (attrs_of sel) ++ SA) v newm) ch0 |}.
Proof.
  induction sel as [|[i k] sel IH]; intros did0 ch0 SE SA Hk H0 Hf HE HA Hroot.
  - cbn [xe_loop elems_of attrs_of filter map rev app]. unfold finish. cbn [dchildren].
    now rewrite existsb_is_elem_rsA, Hroot.
  - inversion Hk as [|? ? Hk1 Hk2]; subst. cbn [snd] in Hk1.
    assert (Hi : i <> 0) by (intros ->; apply H0; left; reflexivity).
    assert (H0' : ~ In 0 (map fst sel)) by (intros Hin; apply H0; right; exact Hin).
    destruct k; try contradiction; cbn [xe_loop].
    + (* element *)
      destruct HE as [HE|[new [Hc Hnew]]]; [unfold elems_of in HE; cbn [filter snd map] in HE; discriminate|].
      rewrite Hc. cbn [did dchildren]. rewrite Hnew.
      rewrite map_map. rewrite (map_ext _ _ (edit_elem_rsA i SE SA v newm Hi Hf)).
      rewrite (IH did0 ch0 (i :: SE) SA Hk2 H0' Hf); [| right; eauto | exact HA | exact Hroot].
      unfold elems_of, attrs_of. cbn [filter snd map rev fst]. now rewrite <- app_assoc.
    + (* attribute *)
      destruct HA as [HA|Hvv]; [unfold attrs_of in HA; cbn [filter snd map] in HA; discriminate|].
      rewrite Hvv. cbn [did dchildren].
      rewrite map_map. rewrite (map_ext _ _ (edit_attr_rsA i SE SA v newm Hi Hf)).
      rewrite (IH did0 ch0 SE (i :: SA) Hk2 H0' Hf); [| exact HE | right; exact Hvv | exact Hroot].
      unfold elems_of, attrs_of. cbn [filter snd map rev fst]. now rewrite <- app_assoc.
Qed.

(** the specification, for identifiers whose kind is what the selection says *)
Fixpoint kinds_ok (SE SA : list nat) (n : xn) : Prop :=
  match n with
  | E j _ attrs ch =>
      memb j SA = false /\ Forall (fun a => memb (fst (fst a)) SE = false) attrs /\
      (fix all (l : list xn) : Prop := match l with [] => True | c :: r => kinds_ok SE SA c /\ all r end) ch
  | _ => True
  end.

Lemma kinds_ok_E SE SA j name attrs ch :
  kinds_ok SE SA (E j name attrs ch) <->
  memb j SA = false /\ Forall (fun a => memb (fst (fst a)) SE = false) attrs /\ Forall (kinds_ok SE SA) ch.
Proof.
  cbn [kinds_ok]. split; intros (Hj & Ha & H); repeat split; auto.
  - induction ch as [|c r IH]; [constructor|]. destruct H as [Hc Hr]. constructor; auto.
  - induction H as [|c r Hc Hr IH]; [exact I|]. split; auto.
Qed.

Lemma attr_text_frag_text : forall frag v, attr_text frag = Some v -> frag_text frag = Some v.
Proof.
  induction frag as [|f r IH]; intros v H; cbn [attr_text frag_text] in *; [exact H|].
  destruct f; try discriminate.
  - destruct (attr_text r) as [w|]; [|discriminate]. now rewrite (IH w eq_refl).
  - destruct (predefined name); [|discriminate]. destruct (attr_text r) as [w|]; [|discriminate]. now rewrite (IH w eq_refl).
Qed.

Lemma rs_attrs_upd SE SA frag v attrs :
  Forall (fun a => memb (fst (fst a)) SE = false) attrs ->
  (forall a, In a attrs -> memb (fst (fst a)) SA = true -> frag_text frag = Some v) ->
  rs_attrs (SE ++ SA) frag attrs = Some (upd_attrs SA v attrs).
Proof.
  unfold rs_attrs, upd_attrs. induction attrs as [|[[i n] w] r IH]; intros HE Hv; cbn [fold_right map]; [reflexivity|].
  inversion HE as [|? ? Hi Hr]; subst. cbn [fst] in Hi.
  rewrite IH; [|exact Hr|intros a Ha; apply Hv; right; exact Ha].
  rewrite memb_app, Hi. cbn [orb]. destruct (memb i SA) eqn:Ei; [|reflexivity].
  rewrite (Hv (i, n, w) (or_introl eq_refl) Ei). reflexivity.
Qed.

Lemma rs_rsA SE SA frag v : (SA <> [] -> frag_text frag = Some v) ->
  forall n, kinds_ok SE SA n -> rs (SE ++ SA) frag n = Some (rsA SE SA v (conv_children frag) n).
Proof.
  intros Hv. induction n as [j name attrs ch IH|s|s|t d|m|s|s] using xn_ind'; intros Hk; cbn [rs rsA]; try reflexivity.
  apply kinds_ok_E in Hk. destruct Hk as (Hj & Ha & Hch).
  rewrite (rs_attrs_upd SE SA frag v attrs Ha).
  2:{ intros a _ Hm. apply Hv. intros ->. discriminate. }
  rewrite memb_app, Hj, orb_false_r. destruct (memb j SE); [reflexivity|]. fold (go_rs (SE ++ SA) frag).
  assert (Hg : go_rs (SE ++ SA) frag ch = Some (map (rsA SE SA v (conv_children frag)) ch)).
  { induction ch as [|c r IHr]; [reflexivity|]. cbn [go_rs map].
    inversion IH as [|? ? Hc Hr]; subst. inversion Hch as [|? ? Kc Kr]; subst.
    rewrite (Hc Kc). fold (go_rs (SE ++ SA) frag). now rewrite (IHr Hr Kr). }
  now rewrite Hg.
Qed.

Lemma rs_ext S S' frag : (forall i, memb i S = memb i S') -> forall n, rs S frag n = rs S' frag n.
Proof.
  intros H. induction n as [j name attrs ch IH|s|s|t d|m|s|s] using xn_ind'; cbn [rs]; try reflexivity.
  assert (Ha : rs_attrs S frag attrs = rs_attrs S' frag attrs).
  { unfold rs_attrs. induction attrs as [|[[i n] w] r IHr]; cbn [fold_right]; [reflexivity|]. now rewrite IHr, (H i). }
  rewrite Ha, (H j). destruct (rs_attrs S' frag attrs); [|reflexivity]. destruct (memb j S'); [reflexivity|].
  fold (go_rs S frag). fold (go_rs S' frag).
  assert (Hg : go_rs S frag ch = go_rs S' frag ch).
  { induction IH as [|c r Hc Hr IHr]; [reflexivity|]. cbn [go_rs]. rewrite Hc. fold (go_rs S frag). fold (go_rs S' frag). now rewrite IHr. }
  now rewrite Hg.
Qed.

Lemma memb_sel_split sel : no_doc_other sel ->
  forall i, memb i (map fst sel) = memb i (rev (elems_of sel) ++ rev (attrs_of sel)).
Proof.
  intros Hk i. rewrite memb_app, !memb_rev. induction Hk as [|[j k] r Hk1 Hr IH]; [reflexivity|].
  cbn [snd] in Hk1. unfold elems_of, attrs_of in *. cbn [map fst filter snd]. rewrite memb_cons, IH.
  destruct k; try contradiction; cbn [map fst]; rewrite memb_cons; destruct (Nat.eqb i j); cbn [orb]; try reflexivity.
  now rewrite orb_true_r.
Qed.

(** what the loop must have converted when it ends with [Done] *)
Lemma xe_loop_done_conv frag : forall sel x d', no_doc_other sel -> xe_loop x sel frag = Done d' ->
  (elems_of sel = [] \/ exists new, conv_list frag = Some (Some new)) /\
  (attrs_of sel = [] \/ exists v, attr_text frag = Some v).
Proof.
  induction sel as [|[i k] r IH]; intros x d' Hk Hm.
  - split; left; reflexivity.
  - inversion Hk as [|? ? Hk1 Hk2]; subst. cbn [snd] in Hk1. destruct k; try contradiction; cbn [xe_loop] in Hm.
    + destruct (conv_list frag) as [[new|]|] eqn:Ec; try discriminate.
      destruct (IH _ _ Hk2 Hm) as [_ IH2]. split; [right; eauto|].
      unfold attrs_of in *. cbn [filter snd]. exact IH2.
    + destruct (attr_text frag) as [v|] eqn:Ev; try discriminate.
      destruct (IH _ _ Hk2 Hm) as [IH1 _]. split; [|right; eauto].
      unfold elems_of in *. cbn [filter snd]. exact IH1.
Qed.

Lemma rev_nil_iff {A} (l : list A) : rev l = [] <-> l = [].
Proof. split; intros H; [|now subst]. destruct l as [|a l]; [reflexivity|]. cbn [rev] in H. destruct (rev l); discriminate. Qed.

(** ** xe_effect for every selection of elements and attributes *)
Theorem xe_effect_mixed : forall (d : xdoc) (sel : list (nat * kind)) (frag : list fnode) (d' : xdoc),
  no_doc_other sel ->                                  (* elements and attributes are selected *)
  ~ In 0 (map fst sel) -> did d = 0 ->
  Forall (kinds_ok (rev (elems_of sel)) (rev (attrs_of sel))) (dchildren d) ->   (* identifiers have the kind the selection says *)
  existsb is_elem (dchildren d) = true ->
  xe_model d sel frag = Done d' ->
  replace_spec (map fst sel) frag d = Some d'.
Proof.
  intros [did0 ch0] sel frag d' Hk H0 Hd Hkinds Hroot Hm. cbn [did dchildren] in *. subst did0.
  unfold xe_model in Hm.
  destruct (xe_loop_done_conv frag sel _ _ Hk Hm) as [HcE HcA].
  set (newm := conv_children frag).
  set (v := match attr_text frag with Some w => w | None => [] end).
  assert (Hfresh : Forall fresh2 newm).
  { unfold newm, conv_children. apply merge_text_fresh2. clear. induction frag; cbn [map]; constructor; [apply conv_fresh2|assumption]. }
  assert (HE : elems_of sel = [] \/ exists new, conv_list frag = Some (Some new) /\ merge_text new = newm).
  { destruct HcE as [HcE|[new Hc]]; [left; exact HcE|right]. exists new. split; [exact Hc|].
    unfold newm, conv_children. now rewrite (conv_list_map _ _ Hc). }
  assert (HA : attrs_of sel = [] \/ attr_text frag = Some v).
  { destruct HcA as [HcA|[w Hw]]; [left; exact HcA|right]. unfold v. now rewrite Hw. }
  replace ch0 with (map (rsA [] [] v newm) ch0) in Hm at 1
    by (rewrite (map_ext _ _ (rsA_nil v newm)); apply map_id).
  rewrite (xe_loop_mixed frag newm v sel 0 ch0 [] [] Hk H0 Hfresh HE HA Hroot) in Hm.
  injection Hm as <-. rewrite !app_nil_r.
  unfold replace_spec. cbn [did dchildren].
  assert (Hm0 : memb 0 (map fst sel) = false).
  { unfold memb. destruct (existsb (Nat.eqb 0) (map fst sel)) eqn:E; [|reflexivity]. apply existsb_exists in E.
    destruct E as [x [Hx Hx0]]. apply Nat.eqb_eq in Hx0. subst x. contradiction. }
  rewrite Hm0. fold (go_rs (map fst sel) frag).
  assert (Hg : go_rs (map fst sel) frag ch0 = Some (map (rsA (rev (elems_of sel)) (rev (attrs_of sel)) v newm) ch0)).
  { clear Hroot. induction ch0 as [|c r IHr]; [reflexivity|]. cbn [go_rs map]. inversion Hkinds as [|? ? Kc Kr]; subst.
    rewrite (rs_ext _ _ frag (memb_sel_split sel Hk) c).
    rewrite (rs_rsA (rev (elems_of sel)) (rev (attrs_of sel)) frag v); [| |exact Kc].
    - fold (go_rs (map fst sel) frag). now rewrite (IHr Kr).
    - intros Hne. destruct HA as [HA|HA]; [exfalso; apply Hne; apply rev_nil_iff; exact HA|].
      apply attr_text_frag_text. exact HA. }
  now rewrite Hg.
Qed.

(** ** the document node as the selected node (`--xpath /`) *)
Lemma merge_text_no_text l :
  forallb (fun n => match n with E _ _ _ _ | Cm _ | P _ _ => true | _ => false end) l = true -> merge_text l = l.
Proof.
  induction l as [|x l IH]; [reflexivity|]. cbn [forallb]. intros H. apply andb_true_iff in H. destruct H as [Hx Hl].
  destruct x; try discriminate; cbn [merge_text]; now rewrite (IH Hl).
Qed.

Lemma filter_elem_length l : existsb is_elem l = true -> length (filter is_elem l) <= 1 -> length (filter is_elem l) = 1.
Proof.
  intros He Hl. destruct (filter is_elem l) as [|a r] eqn:Ef.
  - exfalso. apply existsb_exists in He. destruct He as [x [Hin Hx]].
    assert (In x (filter is_elem l)) by (apply filter_In; auto). rewrite Ef in H. destruct H.
  - cbn [length] in *. lia.
Qed.

Theorem xe_effect_document : forall (d : xdoc) (frag : list fnode) (d' : xdoc),
  did d = 0 -> xe_model d [(0, KDoc)] frag = Done d' -> replace_spec [0] frag d = Some d'.
Proof.
  intros [did0 ch0] frag d' Hd Hm. cbn [did] in Hd. subst did0. unfold xe_model in Hm. cbn [xe_loop] in Hm.
  destruct (conv_list frag) as [[new|]|] eqn:Ec; try discriminate.
  destruct (forallb _ new && Nat.leb (length (filter is_elem new)) 1) eqn:Eok; [|discriminate].
  apply andb_true_iff in Eok. destruct Eok as [Hkinds Hle]. apply Nat.leb_le in Hle.
  unfold finish in Hm. cbn [did dchildren] in Hm.
  destruct (existsb is_elem new) eqn:Ee; [|discriminate]. injection Hm as <-.
  unfold replace_spec. cbn [did dchildren memb existsb Nat.eqb orb].
  unfold conv_children. rewrite (conv_list_map _ _ Ec), (merge_text_no_text _ Hkinds).
  unfold doc_children_ok. rewrite Hkinds, (filter_elem_length _ Ee Hle). reflexivity.
Qed.

(** non-vacuity of the hypotheses of [xe_effect_mixed]: a selected element, a selected attribute
    of that element and a selected element nested in it *)
Example xe_mixed_hypotheses :
  let d := {| did := 0; dchildren := [E 1 [114%N] [] [E 2 [97%N] [(3, [112%N], [49%N])] [T [120%N]; E 4 [97%N] [] []]; E 5 [99%N] [] []]] |} in
  let sel := [(2, KElem); (3, KAttr); (4, KElem)] in
  no_doc_other sel /\ ~ In 0 (map fst sel) /\ did d = 0 /\
  Forall (kinds_ok (rev (elems_of sel)) (rev (attrs_of sel))) (dchildren d) /\
  existsb is_elem (dchildren d) = true /\
  xe_model d sel [FT [110%N]] = Done {| did := 0; dchildren := [E 1 [114%N] [] [E 2 [97%N] [(3, [112%N], [110%N])] [T [110%N]]; E 5 [99%N] [] []]] |}.
Proof.
  cbv zeta. repeat split.
  - repeat constructor.
  - cbn. intros [H|[H|[H|[]]]]; discriminate.
  - repeat (constructor; cbn; repeat split; try reflexivity).
Qed.
