(** * C02, rung 2 (syntax), part 1: definitions and the lexical productions WITH their values.

    Direction of C02: whatever the model of the parser accepts, the recogniser of
    Spec/XmlWF.v reads the same way.  The hypothesis is a derivation of the big-step success
    relation [succ G_xml] (Proofs/PegInv.v: every successful [denote] / [run] is one); the
    conclusion is an equation about the function of Spec/XmlWF.v that reads the same production,
    giving the SAME rest and the spec parse tree that corresponds to the typed value of the model
    ([x_ref], [x_av], [x_elem] ... below: the translation of Model/ParseActions.v values into the
    parse trees of the specification).

    Finding D04 (the production `name` of the implementation is a run of NameStartChars then a run of NameChars) is
    excluded by explicit hypotheses [is_Name n = true] on the names read at Name positions. *)
From Coq Require Import List NArith Arith Lia Bool.
From XmlRs Require Import Base.CPred Spec.XmlChars Model.Peg Gen.XmlcharGen Gen.GrammarXmlGen Model.ParseActions
     Proofs.XmlcharProofs Proofs.PegTermination Proofs.PegLemmas Proofs.PegInv
     Proofs.DisplayLex Proofs.ActionLemmas Proofs.ParseInv.
From XmlRs Require Spec.XmlWF Proofs.NameLanguage Proofs.XmlWFLexical.
Import ListNotations.
Local Open Scope N_scope.

Module W := Spec.XmlWF.

(** [char] and [N], [str] and [list N] are the same types under different names: rewriting is syntactic *)
Ltac srw E := let H := fresh in pose proof E as H; unfold str, char in *; rewrite H; clear H.

(** ** translation of the typed parse model into the parse trees of the specification *)
Definition x_ref (r : reference) : W.ref :=
  match r with
  | RefChar num Dec => W.RChar (W.number 10 num)
  | RefChar num Hex => W.RChar (W.number 16 num)
  | RefEntity n => W.REnt n
  end.

Definition x_avpiece (v : att_value) : list W.avpiece :=
  match v with
  | AvText s => map W.AvLit s
  | AvReference r => [W.piece_of_ref (x_ref r)]
  end.
Definition x_av (l : list att_value) : list W.avpiece := flat_map x_avpiece l.

Definition x_refitem (r : reference) : W.xcontent :=
  match x_ref r with W.RChar n => W.XCharRef n | W.REnt nm => W.XEntRef nm end.

Definition x_pi (p : ppi) : W.xcontent := W.XPI (pi_target p) (pi_value p).

(** ** the names at Name positions are Names (exclusion of finding D04) *)
Definition d04_ref (r : reference) : bool := match r with RefEntity n => is_Name n | RefChar _ _ => true end.
Definition d04_avpiece (v : att_value) : bool := match v with AvReference r => d04_ref r | AvText _ => true end.
Definition d04_av (l : list att_value) : bool := forallb d04_avpiece l.
Definition d04_pi (p : ppi) : bool := is_Name (pi_target p).

(** ** character classes *)
Lemma sub_sound (p q : cpred) : equiv_check (And p q) p = true -> forall c, eval p c = true -> eval q c = true.
Proof.
  intros H c Hp. pose proof (equiv_sound _ _ H c) as E. cbn [eval] in E. rewrite Hp in E. cbn [andb] in E. exact E.
Qed.

Lemma disj_sound (p q : cpred) : equiv_check (And p q) (InR []) = true -> forall c, eval p c = true -> eval q c = false.
Proof.
  intros H c Hp. pose proof (equiv_sound _ _ H c) as E. cbn [eval existsb] in E. rewrite Hp in E. cbn [andb] in E. exact E.
Qed.

Lemma isS_ws c : W.isS c = eval ws c.
Proof. reflexivity. Qed.

Lemma isChar_eval c : W.isChar c = eval is_char c.
Proof. unfold W.isChar. symmetry. apply is_char_equiv. Qed.

(** ** the string helpers of the two developments *)
Lemma Wspan_same f (s : str) : W.span f s = span f s.
Proof.
  induction s as [|c s IH]; cbn [W.span span]; [reflexivity|].
  destruct (f c); [|reflexivity]. rewrite IH. reflexivity.
Qed.

Lemma Wstrip_same (p s : str) : W.strip p s = prefix p s.
Proof. reflexivity. Qed.

Lemma Wspan_app f (a r : str) : forallb f a = true -> stops f r -> W.span f (a ++ r) = (a, r).
Proof. intros Ha Hr. rewrite Wspan_same. apply span_app; assumption. Qed.

Lemma Wspan_ext (f g : char -> bool) (s : str) : (forall c, f c = g c) -> W.span f s = W.span g s.
Proof.
  intros H. induction s as [|c s IH]; cbn [W.span]; [reflexivity|]. rewrite H, IH. reflexivity.
Qed.

Lemma stops_ext (f g : char -> bool) (r : str) : (forall c, f c = g c) -> stops f r -> stops g r.
Proof. intros H. destruct r as [|c r]; cbn [stops]; [auto|]. rewrite H. auto. Qed.

Lemma forallb_ext' {A} (f g : A -> bool) (l : list A) : (forall c, f c = g c) -> forallb f l = true -> forallb g l = true.
Proof. intros H. induction l as [|x l IH]; cbn [forallb]; [auto|]. rewrite H. intros Hx. apply andb_prop in Hx. destruct Hx as [-> Hl]. cbn. auto. Qed.

Lemma Wstrip_app (p r : str) : W.strip p (p ++ r) = Some r.
Proof. rewrite Wstrip_same. apply prefix_app. Qed.

Lemma starts_app (p r : str) : W.starts p (p ++ r) = true.
Proof. unfold W.starts. rewrite Wstrip_app. reflexivity. Qed.

(** a pattern over a class cannot match across the end of a prefix when the rest stops the class *)
Lemma prefix_app_none (f : char -> bool) (pat a r : str) :
  forallb f pat = true -> stops f r -> prefix pat a = None -> prefix pat (a ++ r) = None.
Proof.
  revert a. induction pat as [|x pat IH]; intros a Hp Hr Hn; cbn [prefix] in *; [discriminate|].
  cbn [forallb] in Hp. apply andb_prop in Hp. destruct Hp as [Hx Hp].
  destruct a as [|y a]; cbn [app].
  - destruct r as [|z r]; [reflexivity|]. cbn [stops] in Hr.
    destruct (N.eqb_spec x z) as [->|]; [congruence|reflexivity].
  - destruct (x =? y); [apply IH; assumption|reflexivity].
Qed.

(** ** [3] S and [25] Eq *)
Lemma skipS_app (a r : str) : forallb (eval ws) a = true -> stops (eval ws) r -> W.skipS (a ++ r) = r.
Proof. intros Ha Hr. unfold W.skipS. rewrite (Wspan_app W.isS a r Ha Hr). reflexivity. Qed.

Lemma skipS_stops (r : str) : stops (eval ws) r -> W.skipS r = r.
Proof. intros Hr. apply (skipS_app [] r eq_refl Hr). Qed.

Lemma p_S_app (a r : str) : a <> [] -> forallb (eval ws) a = true -> stops (eval ws) r -> W.p_S (a ++ r) = Some r.
Proof.
  intros Hn Ha Hr. unfold W.p_S. rewrite (Wspan_app W.isS a r Ha Hr). destruct a; [contradiction|reflexivity].
Qed.

Lemma p_S_stops (r : str) : stops (eval ws) r -> W.p_S r = None.
Proof. intros Hr. unfold W.p_S. pose proof (Wspan_app W.isS [] r eq_refl Hr) as E. cbn [app] in E. rewrite E. reflexivity. Qed.

Lemma Wspan_length f (s : str) : (length (snd (W.span f s)) <= length s)%nat.
Proof.
  induction s as [|c s IH]; cbn [W.span]; [cbn; lia|]. destruct (f c); [|cbn [snd]; lia].
  destruct (W.span f s) as [a b]. cbn [snd length] in *. lia.
Qed.

Lemma skipS_length (s : str) : (length (W.skipS s) <= length s)%nat.
Proof. apply Wspan_length. Qed.

Lemma p_S_length (s r : str) : W.p_S s = Some r -> (length r <= length s)%nat.
Proof.
  unfold W.p_S. pose proof (Wspan_length W.isS s) as H. destruct (W.span W.isS s) as [[|c a] b]; [discriminate|].
  intros E. injection E as <-. exact H.
Qed.

Lemma Wspan_length_eq f (s : str) : length s = (length (fst (W.span f s)) + length (snd (W.span f s)))%nat.
Proof.
  induction s as [|c s IH]; cbn [W.span]; [reflexivity|]. destruct (f c); [|reflexivity].
  destruct (W.span f s) as [a b]. cbn [fst snd length] in *. lia.
Qed.

Lemma p_S_lt (s r : str) : W.p_S s = Some r -> (length r < length s)%nat.
Proof.
  unfold W.p_S. pose proof (Wspan_length_eq W.isS s) as H. destruct (W.span W.isS s) as [[|c a] b]; [discriminate|].
  intros E. injection E as <-. cbn [fst snd length] in H. lia.
Qed.

Lemma sm_length e (s : str) ts (r : str) : SM e s ts r -> (length r <= length s)%nat.
Proof. induction 1 as [e s|e s t r1 ts r Hs Hlt Hm IH]; lia. Qed.

Lemma inv_ws0 s t r : S (Chars0 ws) s t r -> exists a : str, s = a ++ r /\ forallb (eval ws) a = true /\ stops (eval ws) r.
Proof. intros H. inv H. eauto. Qed.

Lemma inv_ws1 s t r : S (Chars1 ws) s t r ->
  exists a : str, s = a ++ r /\ a <> [] /\ forallb (eval ws) a = true /\ stops (eval ws) r /\ t = TStr a.
Proof. intros H. inv H. eexists. repeat split; eauto. Qed.

Lemma syn_ws0 s t r : S (Chars0 ws) s t r -> W.skipS s = r.
Proof. intros H. apply inv_ws0 in H. destruct H as [a [-> [Ha Hr]]]. apply skipS_app; assumption. Qed.

Lemma syn_ws1 s t r : S (Chars1 ws) s t r -> W.p_S s = Some r /\ W.skipS s = r.
Proof.
  intros H. apply inv_ws1 in H. destruct H as [a [-> [Hn [Ha [Hr _]]]]].
  split; [apply p_S_app; assumption|apply skipS_app; assumption].
Qed.

Lemma syn_eq s t r : S (NT nt_eq) s t r -> W.p_Eq s = Some r.
Proof.
  intros H. inv_nt H body_eq. invs. unfold W.p_Eq.
  rewrite skipS_app by assumption. cbn [app]. unfold W.c_eq. rewrite N.eqb_refl.
  rewrite skipS_app by assumption. reflexivity.
Qed.

(** what an Eq starts with: white space or the equals sign, hence not a name character *)
Lemma eq_first s t r : S (NT nt_eq) s t r -> stops (eval is_name_char) s.
Proof.
  intros H. inv_nt H body_eq. invs.
  match goal with H : forallb (eval ws) ?a = true |- stops _ (?a ++ _) => destruct a as [|c a']; cbn [app stops]; [reflexivity|];
    cbn [forallb] in H; apply andb_prop in H; destruct H as [Hc _] end.
  revert Hc. apply (disj_sound ws is_name_char). vm_compute. reflexivity.
Qed.

(** ** [5] Name *)
Lemma p_Name_app (n r : str) : is_Name n = true -> stops (eval is_name_char) r -> W.p_Name (n ++ r) = Some (n, r).
Proof.
  destruct n as [|c n]; [discriminate|]. cbn [is_Name]. intros H Hr. apply andb_prop in H. destruct H as [Hc Hn].
  cbn [app W.p_Name]. rewrite Hc. rewrite (Wspan_app (eval spec_NameChar) n r Hn).
  - reflexivity.
  - eapply stops_ext; [|exact Hr]. apply is_name_char_equiv.
Qed.

Lemma syn_name s t r : S (NT nt_name) s t r ->
  exists n : str, t = TStr n /\ s = n ++ r /\ name_ok n /\ (is_Name n = true -> W.p_Name s = Some (n, r)).
Proof.
  intros H. apply inv_name in H. destruct H as [n [-> [Hn [-> Hr]]]].
  exists n. repeat split; try assumption. intros Hd. apply p_Name_app; assumption.
Qed.

Lemma forallb_impl {A} (f g : A -> bool) (l : list A) : (forall c, f c = true -> g c = true) -> forallb f l = true -> forallb g l = true.
Proof.
  intros H. induction l as [|x l IH]; cbn [forallb]; [auto|]. intros Hx. apply andb_prop in Hx. destruct Hx as [Hx Hl].
  rewrite (H _ Hx), (IH Hl). reflexivity.
Qed.

(** NCNames and QNames are Names *)
Lemma ncname_is_Name (n : str) : ncname_ok n -> is_Name n = true.
Proof.
  destruct n as [|c n]; [intros []|]. intros [Hc Hn]. cbn [is_Name]. apply andb_true_intro. split.
  - rewrite is_name_start_char_except_equiv in Hc. apply andb_prop in Hc. tauto.
  - revert Hn. apply forallb_impl. intros c0 H0. rewrite <- is_name_char_equiv. apply name_char_except_colon. exact H0.
Qed.

Lemma ncname_name_chars (n : str) : ncname_ok n -> forallb (eval spec_NameChar) n = true.
Proof.
  intros H. apply ncname_is_Name in H. destruct n as [|c n]; [discriminate|]. cbn [is_Name] in H. apply andb_prop in H.
  destruct H as [Hc Hn]. cbn [forallb]. rewrite Hn, andb_true_r.
  revert Hc. apply (sub_sound spec_NameStartChar spec_NameChar). vm_compute. reflexivity.
Qed.

Lemma qname_is_Name (q : qname) : qname_ok q -> is_Name (d_qname q) = true.
Proof.
  destruct q as [p l|n]; cbn [qname_ok d_qname]; [|apply ncname_is_Name].
  intros [Hp Hl]. pose proof (ncname_name_chars l Hl) as Hl'. pose proof (ncname_is_Name p Hp) as Hp'.
  destruct p as [|c p]; [discriminate|]. cbn [is_Name app] in *. apply andb_prop in Hp'. destruct Hp' as [Hc Hp'].
  rewrite Hc. cbn [andb]. rewrite forallb_app. apply andb_true_intro. split; [exact Hp'|]. cbn [forallb]. apply andb_true_intro. split; [reflexivity|exact Hl'].
Qed.

(** a QName followed by something that is no name character, read as a [5] Name *)
Lemma syn_qname s t r : S (NT nt_qname) s t r -> stops (eval is_name_char) r ->
  exists q, t = tree_qname q /\ qname_ok q /\ s = d_qname q ++ r /\ W.p_Name s = Some (d_qname q, r).
Proof.
  intros H Hr. apply inv_qname in H. destruct H as [q [-> [Hq [-> _]]]].
  exists q. repeat split; try assumption. apply p_Name_app; [apply qname_is_Name; exact Hq|exact Hr].
Qed.

(** ** [66] CharRef, [68] EntityRef, [67] Reference *)
Lemma digit_class c : eval dec_digits c = W.isDigit c.
Proof. apply XmlWFLexical.digit_class. Qed.
Lemma hex_class c : eval hex_digits c = W.isHex c.
Proof. apply XmlWFLexical.hex_class. Qed.

Lemma name_start_not_hash c : eval spec_NameStartChar c = true -> (c =? W.c_hash) = false.
Proof.
  intros H. destruct (N.eqb_spec c W.c_hash) as [->|]; [|reflexivity]. vm_compute in H. discriminate.
Qed.

Lemma p_digits_semi_app base (f : char -> bool) (a r : str) : a <> [] -> forallb f a = true -> f 59 = false ->
  W.p_digits_semi base f (a ++ 59 :: r) = Some (W.RChar (W.number base a), r).
Proof.
  intros Hn Ha H59. unfold W.p_digits_semi. rewrite (Wspan_app f a (59 :: r) Ha H59).
  destruct a as [|d a]; [contradiction|]. reflexivity.
Qed.

Lemma syn_reference s t r : S (NT nt_reference) s t r ->
  exists x, eval_tree t = VReference x /\ reference_ok x /\
            exists s', s = 38 :: s' /\ (d04_ref x = true -> W.p_ref s' = Some (x_ref x, r)).
Proof.
  intros H. inv_nt H body_reference. inv_alt.
  - match goal with H : succ _ (NT nt_entity_ref) _ _ _ |- _ => inv_nt H body_entity_ref end. invs.
    match goal with H : succ _ (NT nt_name) _ _ _ |- _ => apply syn_name in H; destruct H as [n [-> [-> [Hn Hp]]]] end.
    exists (RefEntity n). split; [reflexivity|]. split; [exact Hn|]. eexists. split; [reflexivity|].
    cbn [d04_ref x_ref]. intros Hd. specialize (Hp Hd).
    destruct n as [|c n]; [discriminate|]. cbn [app] in *. unfold W.p_ref.
    cbn [is_Name] in Hd. apply andb_prop in Hd. destruct Hd as [Hc _]. rewrite (name_start_not_hash c Hc).
    rewrite Hp. unfold W.c_semi. rewrite N.eqb_refl. reflexivity.
  - match goal with H : succ _ (NT nt_char_ref) _ _ _ |- _ => inv_nt H body_char_ref end. inv_alt; invs.
    + eexists (RefChar _ Dec). split; [reflexivity|]. split; [split; assumption|]. eexists. split; [reflexivity|].
      intros _. cbn [app x_ref]. unfold W.p_ref. change (35 =? W.c_hash) with true. cbv iota.
      match goal with Hn : ?a <> [], Hf : forallb _ ?a = true |- _ =>
        destruct a as [|d a']; [contradiction|]; cbn [app];
        assert (d =? W.c_x = false) as -> by
          (cbn [forallb] in Hf; apply andb_prop in Hf; destruct Hf as [Hd _];
           destruct (N.eqb_spec d W.c_x) as [->|]; [vm_compute in Hd; discriminate|reflexivity]);
        apply (p_digits_semi_app 10 W.isDigit (d :: a') r); [discriminate| |reflexivity];
        revert Hf; apply forallb_impl; intros c0 H0; rewrite <- digit_class; exact H0 end.
    + eexists (RefChar _ Hex). split; [reflexivity|]. split; [split; assumption|]. eexists. split; [reflexivity|].
      intros _. cbn [app x_ref]. unfold W.p_ref. change (35 =? W.c_hash) with true. cbv iota.
      change (120 =? W.c_x) with true. cbv iota.
      match goal with Hn : ?a <> [], Hf : forallb _ ?a = true |- _ =>
        apply (p_digits_semi_app 16 W.isHex a r); [exact Hn| |reflexivity];
        revert Hf; apply forallb_impl; intros c0 H0; rewrite <- hex_class; exact H0 end.
Qed.

(** ** [10] AttValue *)
Lemma av_class q c : eval (is_char_except [60;38;q]) c = true ->
  W.isChar c = true /\ (c =? 60) = false /\ (c =? 38) = false /\ (c =? q) = false.
Proof.
  rewrite is_char_except_equiv. cbn [existsb]. rewrite orb_false_r, !negb_orb. intros H.
  apply andb_prop in H. destruct H as [H1 H]. apply andb_prop in H. destruct H as [H2 H]. apply andb_prop in H. destruct H as [H3 H4].
  rewrite negb_true_iff in *. repeat split; assumption.
Qed.

Lemma pieces_text q (a : str) : forallb (eval (is_char_except [60;38;q])) a = true ->
  forall (r : str) fuel, (length a <= fuel)%nat ->
  W.p_pieces fuel (Some q) W.c_lt (a ++ r) =
  W.bind (W.p_pieces (fuel - length a) (Some q) W.c_lt r) (fun x => Some (map W.AvLit a ++ fst x, snd x)) \/ (fuel - length a = 0)%nat.
Proof.
  induction a as [|c a IH]; intros Ha r fuel Hf.
  - left. cbn [app length map]. rewrite Nat.sub_0_r. destruct (W.p_pieces fuel (Some q) W.c_lt r) as [[ps rest]|]; reflexivity.
  - cbn [forallb] in Ha. apply andb_prop in Ha. destruct Ha as [Hc Ha]. cbn [length] in Hf. destruct fuel as [|fuel]; [lia|].
    destruct (IH Ha r fuel ltac:(lia)) as [E|E]; [left|right; cbn [length]; lia].
    cbn [app length Nat.sub W.p_pieces]. destruct (av_class q c Hc) as [H1 [H2 [H3 H4]]].
    rewrite H4. unfold W.c_lt, W.c_amp in *. rewrite H2, H3, H1. rewrite E.
    destruct (W.p_pieces (fuel - length a) (Some q) 60 r) as [[ps rest]|]; reflexivity.
Qed.

Lemma syn_av_many q s ts r : q = 34 \/ q = 39 -> SM (av_piece q) s ts r ->
  exists l, map eval_tree ts = map VAttValue l /\
    (d04_av l = true -> forall r2 fuel, r = q :: r2 -> (length s < fuel)%nat ->
       W.p_pieces fuel (Some q) W.c_lt s = Some (x_av l, r2)).
Proof.
  intros Hq H. remember (av_piece q) as e eqn:Ee. induction H as [e s|e s t r1 ts r Hs Hlt Hm IH]; subst e.
  - exists []. split; [reflexivity|]. intros _ r2 fuel -> Hf. destruct fuel as [|fuel]; [lia|].
    cbn [W.p_pieces]. rewrite N.eqb_refl. reflexivity.
  - destruct (IH eq_refl) as [l [El Hl]]. unfold av_piece in Hs. inv Hs; invs.
    + (* text *)
      exists (AvText a :: l). split; [cbn [map eval_tree]; rewrite El; reflexivity|].
      cbn [d04_av forallb d04_avpiece andb]. intros Hd r2 fuel Er Hf. rewrite app_length in Hf.
      match goal with Ha : forallb _ a = true |- _ => destruct (pieces_text q a Ha r1 fuel ltac:(lia)) as [E|E]; [|lia] end.
      rewrite E. rewrite (Hl Hd r2 _ Er) by lia. reflexivity.
    + (* reference *)
      match goal with H : succ _ (NT nt_reference) _ _ _ |- _ => apply syn_reference in H; destruct H as [x [Ex [Hx [s' [-> Hp]]]]] end.
      exists (AvReference x :: l). split; [cbn [map eval_tree]; rewrite Ex, El; reflexivity|].
      cbn [d04_av forallb d04_avpiece]. intros Hd r2 fuel Er Hf. apply andb_prop in Hd. destruct Hd as [Hdx Hd].
      destruct fuel as [|fuel]; [lia|]. cbn [W.p_pieces].
      assert ((38 =? q) = false) as -> by (destruct Hq; subst q; reflexivity).
      change (38 =? W.c_lt) with false. change (38 =? W.c_amp) with true. cbv iota.
      rewrite (Hp Hdx). cbn [W.bind]. cbn [length] in Hf, Hlt. rewrite (Hl Hd r2 fuel Er) by lia. reflexivity.
Qed.

Lemma syn_att_value s t r : S (NT nt_att_value) s t r ->
  exists l, eval_tree t = VList (map VAttValue l) /\
    (d04_av l = true -> forall fuel, (length s < fuel)%nat -> W.p_AttValue fuel s = Some (x_av l, r)).
Proof.
  intros H. inv_nt H body_att_value. inv_alt; invs.
  - match goal with H : succ_many _ (av_piece 34) _ _ _ |- _ => destruct (syn_av_many _ _ _ _ (or_introl eq_refl) H) as [l [El Hl]] end.
    exists l. split; [cbn [eval_tree]; rewrite El; reflexivity|]. intros Hd fuel Hf. cbn [app length] in *.
    unfold W.p_AttValue. change (W.isQuote 34) with true. cbv iota. apply (Hl Hd); [reflexivity|lia].
  - match goal with H : succ_many _ (av_piece 39) _ _ _ |- _ => destruct (syn_av_many _ _ _ _ (or_intror eq_refl) H) as [l [El Hl]] end.
    exists l. split; [cbn [eval_tree]; rewrite El; reflexivity|]. intros Hd fuel Hf. cbn [app length] in *.
    unfold W.p_AttValue. change (W.isQuote 39) with true. cbv iota. apply (Hl Hd); [reflexivity|lia].
Qed.

(** ** scanning up to a delimiter: helper::take_until over a run of Chars, then the delimiter *)
Lemma scan_to_cut (pat : str) : pat <> [] -> forallb W.isChar pat = true ->
  forall (v r : str) i, forallb W.isChar v = true -> stops W.isChar r -> find_sub pat v = Some i ->
  exists r2, skipn i (v ++ r) = pat ++ r2 /\ W.scan_to pat (v ++ r) = Some (firstn i (v ++ r), r2).
Proof.
  intros Hne Hpat. induction v as [|c v IH]; intros r i Hv Hr Hf.
  - rewrite (find_sub_nil pat Hne) in Hf. discriminate.
  - cbn [find_sub] in Hf. cbn [forallb] in Hv. apply andb_prop in Hv. destruct Hv as [Hc Hv].
    destruct (prefix pat (c :: v)) as [t|] eqn:E.
    + injection Hf as <-. pose proof (prefix_some_app' pat (c :: v) t r E) as E2.
      exists (t ++ r). split; [cbn [skipn]; apply prefix_decomp; exact E2|].
      cbn [app] in *. cbn [W.scan_to]. rewrite Wstrip_same, E2. reflexivity.
    + destruct (find_sub pat v) as [j|] eqn:Ej; [|discriminate]. injection Hf as <-.
      destruct (IH r j Hv Hr eq_refl) as [r2 [E1 E2]]. exists r2. split; [exact E1|].
      pose proof (prefix_app_none W.isChar pat (c :: v) r Hpat Hr E) as E3.
      cbn [app] in *. cbn [W.scan_to]. rewrite Wstrip_same, E3, Hc, E2. reflexivity.
Qed.

Lemma syn_until_tag (pat : str) s t r1 t2 r : pat <> [] -> forallb W.isChar pat = true ->
  S (TakeUntil (NT nt_multichar0) pat) s t r1 -> S (Tag pat) r1 t2 r ->
  exists x : str, t = TStr x /\ W.scan_to pat s = Some (x, r).
Proof.
  intros Hne Hpat H1 H2. inv H2. inv H1.
  - (* no occurrence inside the run of Chars: the delimiter cannot follow *)
    exfalso. match goal with H : succ _ (NT nt_multichar0) _ _ _ |- _ => apply inv_multichar0 in H; inv H end.
    destruct pat as [|p0 pat]; [contradiction|]. cbn [app stops forallb] in *.
    apply andb_prop in Hpat. destruct Hpat as [Hp0 _]. rewrite isChar_eval in Hp0. congruence.
  - match goal with H : succ _ (NT nt_multichar0) _ _ _ |- _ => apply inv_multichar0 in H; inv H end.
    match goal with H : ?v ++ ?r = ?a ++ ?r |- _ => apply app_inv_tail in H; subst v end.
    match goal with Hf : find_sub pat ?a = Some ?i, Ha : forallb (eval is_char) ?a = true, Hr : stops (eval is_char) ?r0 |- _ =>
      destruct (scan_to_cut pat Hne Hpat a r0 i) as [r2 [E1 E2]];
        [revert Ha; apply forallb_impl; intros c0 H0; rewrite isChar_eval; exact H0
        |eapply stops_ext; [|exact Hr]; intros c0; symmetry; apply isChar_eval
        |exact Hf|] end.
    match goal with H : skipn _ _ = pat ++ r |- _ => rewrite E1 in H; apply app_inv_head in H; subst r2 end.
    eexists. split; [reflexivity|exact E2].
Qed.

(** ** [18] CDSect *)
Lemma syn_cdsect s t r : S (NT nt_cdsect) s t r ->
  exists d s', eval_tree t = VCData d /\ s = W.s_cdata_open ++ s' /\ W.scan_to W.s_cdata_close s' = Some (d, r).
Proof.
  intros H. inv_nt H body_cdsect.
  match goal with H : succ _ (Map _ _) _ _ _ |- _ => inv H end.
  match goal with H : succ _ (SeqR _ _) _ _ _ |- _ => inv H end.
  match goal with H : succ _ (SeqL _ _) _ _ _ |- _ => inv H end.
  match goal with H1 : succ _ (TakeUntil _ _) _ _ _, H2 : succ _ (Tag [93;93;62]) _ _ _ |- _ =>
    destruct (syn_until_tag [93;93;62] _ _ _ _ _ ltac:(discriminate) eq_refl H1 H2) as [x [-> Hx]] end.
  repeat match goal with H : succ _ (Tag _) _ _ _ |- _ => inv H end.
  exists x. eexists. split; [reflexivity|]. split; [reflexivity|exact Hx].
Qed.

(** ** [15] Comment *)
Lemma nondash_class c : eval nondash c = true -> W.isChar c = true /\ (c =? W.c_dash) = false.
Proof.
  unfold nondash. rewrite is_char_except_equiv. cbn [existsb]. rewrite orb_false_r. intros H. apply andb_prop in H.
  destruct H as [H1 H2]. apply negb_true_iff in H2. split; assumption.
Qed.

Lemma comment_body_ok (r2 : str) : forall n (c : str), (length c <= n)%nat -> comment_okb c = true ->
  W.p_comment_body (c ++ 45 :: 45 :: 62 :: r2) = Some (c, r2).
Proof.
  induction n as [|n IH]; intros c Hl Hc.
  - destruct c; [reflexivity|cbn in Hl; lia].
  - destruct c as [|x c]; [reflexivity|]. cbn [comment_okb] in Hc. apply andb_prop in Hc. destruct Hc as [Hx Hc].
    cbn [app W.p_comment_body]. destruct (N.eqb_spec x 45) as [->|Hne].
    + change (45 =? W.c_dash) with true. cbv iota. destruct c as [|y c]; [discriminate|]. cbn [app].
      destruct (nondash_class y Hx) as [Hy1 Hy2]. rewrite Hy2, Hy1.
      cbn [comment_okb] in Hc. apply andb_prop in Hc. destruct Hc as [_ Hc].
      cbn [length] in Hl. rewrite (IH c ltac:(lia) Hc). reflexivity.
    + destruct (nondash_class x Hx) as [Hx1 Hx2]. rewrite Hx2, Hx1. cbn [length] in Hl. rewrite (IH c ltac:(lia) Hc). reflexivity.
Qed.

Lemma syn_comment s t r : S (NT nt_comment) s t r ->
  exists c s', eval_tree t = VComment c /\ s = W.s_comment_open ++ s' /\ W.p_comment_body s' = Some (c, r).
Proof.
  intros H. inv_nt H body_comment. fold cm_item in *. invs.
  match goal with H : succ_many _ cm_item _ _ _ |- _ => destruct (inv_cm_many _ _ _ H) as [c0 [E [Hok _]]] end.
  match goal with H : ?c ++ ?r = ?c0 ++ ?r |- _ => apply app_inv_tail in H; subst c end.
  exists c0. eexists. split; [reflexivity|]. split; [reflexivity|].
  cbn [app]. apply (comment_body_ok r (length c0) c0 (le_n _) Hok).
Qed.

(** ** [16] PI, [17] PITarget *)
Lemma ws_not_qm c : eval ws c = true -> (63 =? c) = false.
Proof. intros H. destruct (N.eqb_spec 63 c) as [<-|]; [vm_compute in H; discriminate|reflexivity]. Qed.

Lemma syn_pi s t r : S (NT nt_pi) s t r ->
  exists p s', eval_tree t = VPI p /\ s = W.s_pi_open ++ s' /\
    (d04_pi p = true -> W.p_pi_body s' = Some (pi_target p, pi_value p, r)).
Proof.
  intros H. inv_nt H body_pi.
  match goal with H : succ _ (Map _ _) _ _ _ |- _ => inv H end.
  match goal with H : succ _ (SeqR _ _) _ _ _ |- _ => inv H end.
  match goal with H : succ _ (SeqL _ _) _ _ _ |- _ => inv H end.
  match goal with H : succ _ (Seq _ _) _ _ _ |- _ => inv H end.
  match goal with H : succ _ (NT nt_pi_target) _ _ _ |- _ => inv_nt H body_pi_target end.
  match goal with H : succ _ (TakeExcept _ _) _ _ _ |- _ => inv H end.
  match goal with H : succ _ (NT nt_name) _ _ _ |- _ => apply syn_name in H; destruct H as [n [_ [E [Hn Hp]]]] end.
  match goal with H : ?v ++ ?r = ?n ++ ?r |- _ => apply app_inv_tail in H; subst v end.
  match goal with H : ci_reject _ _ = false |- _ => rewrite NameLanguage.ci_reject_xml in H; rename H into Hx end.
  match goal with H : succ _ (Opt _) _ _ _ |- _ => inv H end.
  - (* with data *)
    match goal with H : succ _ (SeqR _ _) _ _ _ |- _ => inv H end.
    match goal with H1 : succ _ (TakeUntil _ _) _ _ _, H2 : succ _ (Tag [63;62]) _ _ _ |- _ =>
      destruct (syn_until_tag [63;62] _ _ _ _ _ ltac:(discriminate) eq_refl H1 H2) as [x [-> Hd]] end.
    match goal with H : succ _ (Chars1 ws) _ _ _ |- _ => apply inv_ws1 in H; destruct H as [a [-> [Hne [Ha [Hr _]]]]] end.
    repeat match goal with H : succ _ (Tag _) _ _ _ |- _ => inv H end.
    exists (PI n (Some x)). eexists. split; [reflexivity|]. split; [reflexivity|].
    cbn [d04_pi pi_target pi_value]. intros Hd04. unfold W.p_pi_body. rewrite (Hp Hd04). cbn [W.bind]. rewrite Hx.
    assert (W.strip W.s_pi_close (a ++ r1) = None) as ->.
    { destruct a as [|c a]; [contradiction|]. cbn [forallb] in Ha. apply andb_prop in Ha. destruct Ha as [Hc _].
      cbn [app]. rewrite Wstrip_same. unfold W.s_pi_close. cbn [prefix]. rewrite (ws_not_qm c Hc). reflexivity. }
    rewrite (p_S_app a r1 Hne Ha Hr). cbn [W.bind]. change W.s_pi_close with [63;62]. rewrite Hd. reflexivity.
  - repeat match goal with H : succ _ (Tag _) _ _ _ |- _ => inv H end.
    exists (PI n None). eexists. split; [reflexivity|]. split; [reflexivity|].
    cbn [d04_pi pi_target pi_value]. intros Hd04. unfold W.p_pi_body. rewrite (Hp Hd04). cbn [W.bind]. rewrite Hx.
    change W.s_pi_close with [63;62]. rewrite Wstrip_app. reflexivity.
Qed.
