(** * The document table the XPath evaluator sees for a document held in a store (C14 bridge)

    [Model/Store.v] is the editable store of the DOM model (items by id, parent / children /
    attribute lists, order keys); [Model/XDoc.v] is the read-only table the evaluator model works
    on.  [xdoc_of_store F merged s] is the table of the document of store [s], built the way the
    harness builds it from the real DOM ([Table::add] / [Table::build] of
    harness/src/domains/xpath.rs): a pre-order walk from the document node -- node, its in-scope
    namespace nodes that have no row yet, its attributes, its children in the DOM view of the
    case ([merged = false]: raw, [true]: maximal runs of character data are one [XmlExpandedText]
    named by its first component, what xq / xe use) -- and every field of a row is what the dom
    reports for that node, computed with the functions of Model/Store.v:

    - [n_kind]     the [XmlNode] variant ([KExpandedText] for a merged run);
    - [n_id]       the item id (first component for a merged run, the declaration attribute for a
                   namespace node, 0 for the implicit xml namespace);
    - [n_key]      [Store.key]: what [HasContext::order] returns (first component / declaration
                   attribute; 0 for the implicit xml namespace);
    - [n_parent]   [Store.parent_node], for an attribute [Store.owner_element] (as the harness), as
                   the index of the row of that node;
    - [n_children] [Store.child_view]; empty for an attribute (the harness does not walk the value
                   items: the evaluator never asks for them);
    - [n_attrs]    [Store.plain_attrs] ([attributes()] does not list namespace declarations);
    - [n_nss]      [Element::in_scope_namespace]: own declarations in attribute order, then the
                   parent's in-scope namespaces whose prefix is not yet present (or the implicit
                   xml namespace under the document), without those whose name is empty.  A
                   namespace node inherited from an ancestor is the ancestor's row (the harness
                   finds it by kind and id); the implicit xml namespace has id 0 and gets a row
                   of its own under every element;
    - [n_name]     [as_expanded_name]: prefix ["xmlns"] for unprefixed elements and attributes, the
                   URI looked up among the in-scope namespace nodes by node name;
    - [n_data]     [as_string_value] of leaves, attributes and namespace nodes.

    String facts the store does not hold are a parameter [F : sfacts], as the string facts of the
    operations are in Model/DomOps.v: the normalised value of an attribute ([sf_attr], by id) and
    the replacement text of an entity reference ([sf_ref], by id of the reference item).  The
    theorems quantify over all facts.  Documents on which one of these observations FAILS (an
    entity without usable replacement text: the harness prints [E], the table has [DataErr] /
    [XNameErr] / [n_nss = None]) are outside this view.  DTD-defaulted attributes (id 0) are
    outside the store model (notes/dom_STATUS.md).

    References between rows are resolved by position in the walk ([ix]).  Everything is
    computable; fuel is [next s] as everywhere in Model/Store.v.  No proofs in this file. *)
From Coq Require Import List NArith Bool.
From XmlRs Require Import Base.CPred Model.XDoc Model.Store.
Import ListNotations.
Open Scope N_scope.

(** string facts *)
Record sfacts := mkFacts {
  sf_attr : id -> str;       (* [Attribute::normalized_value] of the attribute item *)
  sf_ref : id -> str         (* [XmlEntityReference::value] of an entity-reference item *)
}.

(** what a row stands for *)
Inductive vkey :=
| KNode (v : vnode)          (* a node of the tree, or a merged text *)
| KNs (a : id)               (* the namespace node of declaration attribute [a] *)
| KXml (e : id).             (* the implicit xml namespace node as seen from element [e] *)

Definition vnode_eqb (a b : vnode) : bool :=
  match a, b with
  | Plain i, Plain j | Merged i, Merged j => i =? j
  | _, _ => false
  end.

Definition vkey_eqb (a b : vkey) : bool :=
  match a, b with
  | KNode v, KNode w => vnode_eqb v w
  | KNs i, KNs j | KXml i, KXml j => i =? j
  | _, _ => false
  end.

(** position of [k] in [l] counted from [n]; past the end when absent *)
Fixpoint idx (k : vkey) (l : list vkey) (n : N) : N :=
  match l with
  | [] => n
  | x :: t => if vkey_eqb x k then n else idx k t (n + 1)
  end.

Definition s_xml : str := [120; 109; 108].
Definition xml_uri : str :=
  [104;116;116;112;58;47;47;119;119;119;46;119;51;46;111;114;103;47;88;77;76;47;49;57;57;56;47;110;97;109;101;115;112;97;99;101].

(** an in-scope namespace: prefix, row, namespace name *)
Record nsent := mkNs { ne_prefix : option str; ne_key : vkey; ne_value : str }.

Definition oprefix_eqb (a b : option str) : bool :=
  match a, b with
  | None, None => true
  | Some x, Some y => str_eqb x y
  | _, _ => false
  end.

(** [XmlNamespace::node_name] *)
Definition ns_node_name (x : nsent) : str :=
  match ne_prefix x with Some p => p | None => s_xmlns end.

Definition xkind (k : Store.kind) : nkind :=
  match k with
  | KDoc => KDocument | KEl => KElement | KAt => KAttribute | KTx => KText | KCd => KCData
  | KCr | KEr => KEntityReference | KPi => KPI | KCm => KComment | KDt => KDocumentType
  | KFr => KDocumentFragment
  end.

Fixpoint take_textish (s : store) (l : list id) : list id :=
  match l with
  | [] => []
  | x :: t => match get s x with
              | Some it => if textish (ikind it) then x :: take_textish s t else []
              | None => []
              end
  end.

Fixpoint drop_to (x : id) (l : list id) : list id :=
  match l with
  | [] => []
  | y :: t => if y =? x then l else drop_to x t
  end.

Section View.
Variable F : sfacts.
Variable merged : bool.
Variable s : store.

(** ** in-scope namespaces *)

(** [XmlElement::namespaces]: one namespace item per declaration attribute, in attribute order;
    the prefix is [None] when the local name of the attribute is "xmlns" *)
Definition own_ns (e : id) : list nsent :=
  flat_map (fun a =>
    match get s a with
    | Some it => [mkNs (if str_eqb (ilocal it) s_xmlns then None else Some (ilocal it)) (KNs a) (sf_attr F a)]
    | None => []
    end) (ns_attrs s e).

Definition xml_ent (e : id) : nsent := mkNs (Some s_xml) (KXml e) xml_uri.

(** an inherited implicit xml namespace is a new object (id 0): a row of its own *)
Definition rekey (e : id) (x : nsent) : nsent :=
  match ne_key x with
  | KXml _ => mkNs (ne_prefix x) (KXml e) (ne_value x)
  | _ => x
  end.

(** [for ns in parent.in_scope_namespace() { if !items.any(same prefix) { items.push(ns) } }] *)
Definition inherit (items parent_scope : list nsent) : list nsent :=
  fold_left (fun acc x => if existsb (fun v => oprefix_eqb (ne_prefix v) (ne_prefix x)) acc
                          then acc else acc ++ [x]) parent_scope items.

Fixpoint inscope_fuel (fuel : nat) (e : id) : list nsent :=
  match fuel with
  | O => []
  | S f =>
    let items :=
      match parent_of s e with
      | Some p =>
        match kind_of s p with
        | Some KEl => inherit (own_ns e) (map (rekey e) (inscope_fuel f p))
        | Some KDoc => inherit (own_ns e) [xml_ent e]
        | _ => own_ns e
        end
      | None => own_ns e
      end in
    filter (fun x => match ne_value x with [] => false | _ => true end) items
  end.

Definition inscope (e : id) : list nsent := inscope_fuel (N.to_nat (next s)) e.

(** the in-scope namespace nodes of [e] that the table does not hold yet when [e] is reached *)
Definition is_new (e : id) (k : vkey) : bool :=
  match k with
  | KNs a => mem a (ns_attrs s e)
  | KXml e' => e' =? e
  | KNode _ => false
  end.

Definition new_ns (e : id) : list vkey := filter (is_new e) (map ne_key (inscope e)).

(** ** the walk: node, new namespace nodes, attributes, children *)
Definition vlisted (v : vnode) : list vnode :=
  match v with
  | Merged _ => []
  | Plain n =>
    match get s n with
    | Some it =>
      match ikind it with
      | KEl => map Plain (plain_attrs s n) ++ child_view s merged n
      | KDoc => child_view s merged n
      | _ => []           (* the value items of an attribute are not part of the view *)
      end
    | None => []
    end
  end.

Definition vextra (v : vnode) : list vkey :=
  match v with
  | Plain n => if has_kind s KEl n then new_ns n else []
  | Merged _ => []
  end.

Fixpoint vwalk (fuel : nat) (v : vnode) : list vkey :=
  match fuel with
  | O => []
  | S f =>
    match get s (vid v) with
    | Some _ => KNode v :: vextra v ++ flat_map (vwalk f) (vlisted v)
    | None => []
    end
  end.

Definition vrows : list vkey := vwalk (N.to_nat (next s)) (Plain (sroot s)).

Definition ix (k : vkey) : N := idx k vrows 0.

(** ** the rows *)

(** the components of the merged text whose first component is [x] *)
Definition run_of (x : id) : list id :=
  match parent_of s x with
  | Some p => take_textish s (drop_to x (children_of s p))
  | None => [x]
  end.

(** [XmlExpandedText::data]: text and CDATA data, the character of a character reference, the
    replacement text of an entity reference *)
Definition comp_value (c : id) : str :=
  match get s c with
  | Some it => match ikind it with KEr => sf_ref F c | _ => idata it end
  | None => []
  end.

Definition ns_uri (l : list nsent) (name : str) : option str :=
  match find (fun x => str_eqb (ns_node_name x) name) l with
  | Some x => Some (ne_value x)
  | None => None
  end.

(** [as_expanded_name] *)
Definition xname_of (n : id) (it : item) : xname :=
  match ikind it with
  | KEl =>
    let p := match iprefix it with Some p => p | None => s_xmlns end in
    XName (ilocal it) (Some p) (ns_uri (inscope n) p)
  | KAt =>
    match owner_element s n with
    | Some e =>
      match iprefix it with
      | None => XName (ilocal it) (Some s_xmlns) None
      | Some p => XName (ilocal it) (Some p) (ns_uri (inscope e) p)
      end
    | None => XName (ilocal it) None None
    end
  | KPi => XName (ilocal it) None None
  | _ => XNameNone
  end.

(** [as_string_value] as the harness prints it *)
Definition xdata_of (n : id) (it : item) : xdata :=
  match ikind it with
  | KEl | KDoc | KFr => DataComputed
  | KAt => DataStr (sf_attr F n)
  | KTx | KCd | KCm | KPi => DataStr (idata it)
  | KCr | KEr | KDt => DataStr []
  end.

Definition node_ix (o : option id) : option N :=
  match o with Some p => Some (ix (KNode (Plain p))) | None => None end.

Definition row_of (k : vkey) : xnode :=
  match k with
  | KNode (Plain n) =>
    match get s n with
    | Some it =>
      mk_xnode (xkind (ikind it)) n (Store.key s n)
        (match ikind it with
         | KAt => node_ix (owner_element s n)
         | _ => node_ix (Store.parent_node s n)
         end)
        (match ikind it with
         | KEl | KDoc => map (fun v => ix (KNode v)) (child_view s merged n)
         | _ => []
         end)
        (match ikind it with
         | KEl => map (fun a => ix (KNode (Plain a))) (plain_attrs s n)
         | _ => []
         end)
        (Some (match ikind it with
               | KEl => map (fun x => ix (ne_key x)) (inscope n)
               | _ => []
               end))
        (xname_of n it) (xdata_of n it)
    | None => dummy_node
    end
  | KNode (Merged n) =>
    mk_xnode KExpandedText n (Store.key s n) (node_ix (Store.parent_node s n)) [] [] (Some [])
      XNameNone (DataStr (flat_map comp_value (run_of n)))
  | KNs a =>
    mk_xnode KNamespace a (Store.key s a) None [] [] (Some [])
      (match get s a with                   (* [XmlNamespace::node_name]: the prefix, or "xmlns" *)
       | Some it => XName (ilocal it) None None
       | None => XNameNone
       end)
      (DataStr (sf_attr F a))
  | KXml _ =>
    mk_xnode KNamespace 0 0 None [] [] (Some []) (XName s_xml None None) (DataStr xml_uri)
  end.

Definition xdoc_of_store : xdoc := map row_of vrows.

End View.
