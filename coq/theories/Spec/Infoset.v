(** * The information set an XML text denotes, abstract documents and their renderings (C01)

    Three things, all independent of /repo:

    1. [token]/[infoset]: the information items of a document in the merged-text view — document
       properties, comments, PIs, the document type declaration with its notations and unparsed
       entities, elements with their attribute SETS (sorted by qualified name, normalized values,
       defaults supplied by ATTLIST declarations marked), character data after reference
       expansion with adjacent pieces merged — in the order and with the content of the
       canonical dump of harness/src/domains/wfdoc.rs (see [ocaml/specdomains/wf/wfdoc.ml] for
       the printer).

    2. [infoset_of_string]: what an arbitrary text denotes: end-of-line normalization (2.11),
       [Spec.XmlWF.parse_document], the well-formedness constraints, inclusion of internal
       entities, attribute-value normalization and defaulting (3.3.3, 3.3.2).

    3. Abstract documents [adoc], [valid], [render : adoc -> choices -> str] and
       [denote : adoc -> infoset].  [choices] is an oracle [list N -> N] from decision points
       (paths) to numbers; every surface decision of C01 is read from it and decoded TOTALLY
       (a number always selects one of the forms that are legal at that point), so every oracle is
       admissible: [ok_choices] is constantly true and is kept only so that the theorems read
       as in DESIGN.md.  [denote] does not take the oracle: independence of the result from the
       surface choices holds by construction.
       Decisions: quote character of every literal; number and kind (space, tab, LF, CR) of
       white-space characters at every S and S?; empty-element tag or start/end pair for an
       element without children; per character of character data: literal, decimal or
       hexadecimal character reference (digit case, leading zeros), predefined entity reference,
       or a CDATA section around a run of characters (also empty CDATA sections); per character
       of an attribute or entity value: literal, character reference, predefined entity; the order
       of the attributes (a permutation); white space before "?>", ">" and "/>". *)
From Coq Require Import List NArith Bool.
From XmlRs Require Import Base.CPred Spec.XmlChars Spec.XmlWF.
Import ListNotations.
Open Scope N_scope.

Local Notation "'do' x <- a ; b" := (bind a (fun x => b)) (at level 200, x pattern, a at level 100, b at level 200).

(** ** 1. Information items *)
Inductive token :=
| TDoc (version encoding : option str) (standalone : option bool)
| TComment (s : str)
| TPI (target data : str)
| TDoctype (name : str) (pub sys : option str)
| TNotation (name : str) (pub sys : option str)
| TUnparsed (name : str) (pub : option str) (sys notation : str)
| TEndDoctype
| TElem (name : str)
| TAttr (specified : bool) (name value : str)
| TEndElem
| TText (s : str)
| TUnexp (name : str).          (* reference to an external parsed entity, not included *)
Definition infoset := list token.

Fixpoint str_ltb (a b : str) : bool :=
  match a, b with
  | [], _ :: _ => true
  | _, [] => false
  | x :: a', y :: b' => (x <? y) || ((x =? y) && str_ltb a' b')
  end.

Section Sort.
Context {A : Type} (key : A -> str).
Fixpoint insert_by (x : A) (l : list A) : list A :=
  match l with
  | [] => [x]
  | y :: t => if str_ltb (key x) (key y) then x :: l else y :: insert_by x t
  end.
Definition sort_by (l : list A) : list A := fold_right insert_by [] l.
(** first occurrence of every key *)
Fixpoint first_by (seen : list str) (l : list A) : list A :=
  match l with
  | [] => []
  | x :: t => if mem (key x) seen then first_by seen t else x :: first_by (key x :: seen) t
  end.
End Sort.

(** ** 2. What a text denotes *)

(** 2.11 end-of-line handling: CR LF and a lone CR become LF *)
Fixpoint eol (s : str) : str :=
  match s with
  | c :: t => if c =? c_cr then c_lf :: match t with
                                         | c2 :: t2 => if c2 =? c_lf then eol t2 else eol t
                                         | [] => [] end
              else c :: eol t
  | [] => []
  end.

(** 3.3.3: further normalization of non-CDATA attributes: leading/trailing spaces dropped,
    sequences of spaces collapsed *)
Fixpoint words (s cur : str) : list str :=
  match s with
  | [] => match cur with [] => [] | _ => [rev cur] end
  | c :: t => if c =? c_sp then match cur with [] => words t [] | _ => rev cur :: words t [] end
              else words t (c :: cur)
  end.
Fixpoint join_sp (l : list str) : str :=
  match l with [] => [] | [w] => w | w :: t => w ++ c_sp :: join_sp t end.
Definition tok_norm (s : str) : str := join_sp (words s []).
Definition type_norm (ty : atttype) (s : str) : str :=
  match ty with ATCData => s | _ => tok_norm s end.

Definition opt_str (o : option str) : str := match o with Some s => s | None => [] end.

Definition misc_token (x : xcontent) : list token :=
  match x with
  | XComment s => [TComment s]
  | XPI t d => [TPI t (opt_str d)]
  | _ => []
  end.

Definition flush (acc : str) : list token := match acc with [] => [] | _ => [TText (rev acc)] end.

Section Tokens.
Variable fuel : nat.
Variable en : env.
Variable subset : list decl.

Definition attr_tokens (el : str) (atts : list (str * list avpiece)) : list token :=
  let defs := attdefs_of subset el in
  let ty_of a := match find (fun d => str_eqb (fst (fst d)) a) defs with
                 | Some (_, ty, _) => ty | None => ATCData end in
  let spec := map (fun '(a, v) => (a, TAttr true a (type_norm (ty_of a) (av_value fuel en v)))) atts in
  let dflt := map (fun '(a, v) => (a, TAttr false a (type_norm (ty_of a) (av_value fuel en v))))
                  (defaulted_atts subset el atts) in
  map snd (sort_by fst (spec ++ dflt)).

(** tokens of one content item, threading the pending (reversed) run of character data *)
Fixpoint item_tokens (x : xcontent) (acc : str) : list token * str :=
  match x with
  | XChar c => ([], c :: acc)
  | XCData s => ([], rev s ++ acc)
  | XCharRef n => ([], n :: acc)
  | XEntRef nm => (flush acc ++ [TUnexp nm], [])
  | XComment s => (flush acc ++ [TComment s], [])
  | XPI t d => (flush acc ++ [TPI t (opt_str d)], [])
  | XExp _ items =>
    (fix go (l : list xcontent) (acc : str) : list token * str :=
       match l with
       | [] => ([], acc)
       | y :: t => let (o1, a1) := item_tokens y acc in let (o2, a2) := go t a1 in (o1 ++ o2, a2)
       end) items acc
  | XElem nm atts _ kids =>
    let (o, a) := (fix go (l : list xcontent) (acc : str) : list token * str :=
                     match l with
                     | [] => ([], acc)
                     | y :: t => let (o1, a1) := item_tokens y acc in let (o2, a2) := go t a1 in (o1 ++ o2, a2)
                     end) kids [] in
    (flush acc ++ TElem nm :: attr_tokens nm atts ++ o ++ flush a ++ [TEndElem], [])
  end.
End Tokens.

(** 4.2.2: a public identifier is normalized before it is reported: white space becomes single
    spaces, leading and trailing white space is removed *)
Definition pub_norm (s : str) : str := tok_norm (map (fun c => if isS c then c_sp else c) s).

Definition doctype_tokens (dt : doctype) : list token :=
  let l := dt_subset dt in
  let pub_sys id := match id with
                    | Some (SystemId s) => (None, Some s)
                    | Some (PublicId p s) => (Some (pub_norm p), Some s)
                    | None => (None, None) end in
  let nots := flat_map (fun d => match d with DNotation nm p s => [(nm, TNotation nm (option_map pub_norm p) s)] | _ => [] end) l in
  let unp := flat_map (fun d => match d with
                                | DEntity nm (EdExternal id (Some n)) =>
                                  [(nm, TUnparsed nm (fst (pub_sys (Some id))) (opt_str (snd (pub_sys (Some id)))) n)]
                                | _ => [] end)
                      (first_by (fun d => match d with DEntity nm _ => nm | _ => [] end) []
                                (filter (fun d => match d with DEntity _ _ => true | _ => false end) l)) in
  let pis := flat_map (fun d => match d with DPI t x => [TPI t (opt_str x)] | _ => [] end) l in
  TDoctype (dt_name dt) (fst (pub_sys (dt_extid dt))) (snd (pub_sys (dt_extid dt)))
  :: map snd (sort_by fst nots) ++ map snd (sort_by fst unp) ++ pis ++ [TEndDoctype].

Definition doc_tokens (d : xdoc) (root : xcontent) : infoset :=
  let subset := match x_doctype d with Some dt => dt_subset dt | None => [] end in
  (match x_decl d with
   | Some xd => TDoc (Some (xd_version xd)) (xd_encoding xd) (xd_standalone xd)
   | None => TDoc None None None end)
  :: flat_map misc_token (x_misc1 d)
  ++ (match x_doctype d with Some dt => doctype_tokens dt | None => [] end)
  ++ flat_map misc_token (x_misc2 d)
  ++ fst (item_tokens (ent_fuel d) (doc_env d) subset root [])
  ++ flat_map misc_token (x_misc3 d).

(** the infoset of a text (None when the text is not an XML 1.0 well-formed document of the
    supported kind) *)
Definition infoset_of_string (s : str) : option infoset :=
  do d <- parse_document (eol s);
  if unsupported d then None
  else match check_doc d with inl _ => None | inr root => Some (doc_tokens d root) end.

(** ** 3. Abstract documents *)
Inductive aitem :=                    (* one item of an attribute value or entity value *)
| IText (s : str)                     (* characters that denote themselves *)
| IRef (nm : str).                    (* reference to a general entity *)

Inductive anode :=
| AText (s : str)                     (* character data *)
| ARef (nm : str)                     (* reference to an internal general entity *)
| AComment (s : str)
| API (target : str) (data : option str)     (* None: "<?t?>", Some d: "<?t" S d "?>" *)
| AElem (nm : str) (atts : list (str * list aitem)) (kids : list anode).

Inductive occ := OOne | OOpt | OStar | OPlus.
Inductive acp := CPName (nm : str) (o : occ) | CPChoice (l : list acp) (o : occ) | CPSeq (l : list acp) (o : occ).
Inductive acontentspec := CSEmpty | CSAny | CSMixed (names : list str) | CSChildren (cp : acp).

Inductive adefault := DfRequired | DfImplied | DfValue (fixed : bool) (v : list aitem).

Inductive adecl :=
| ADEntity (nm : str) (v : list aitem)                                      (* internal general entity *)
| ADExtEntity (nm : str) (pub : option str) (sys : str) (ndata : option str) (* external / unparsed *)
| ADNotation (nm : str) (pub sys : option str)
| ADAttlist (el : str) (defs : list (str * atttype * adefault))
| ADElement (nm : str) (spec : acontentspec)
| ADComment (s : str)
| ADPI (target : str) (data : option str).

Record adoctype := { ad_name : str; ad_pub : option str; ad_sys : option str; ad_subset : option (list adecl) }.
Record adoc := { a_version : option str;               (* Some: there is an XML declaration *)
                 a_encoding : option str; a_standalone : option bool;
                 a_misc1 : list anode; a_doctype : option adoctype; a_misc2 : list anode;
                 a_root : anode; a_misc3 : list anode }.

(** *** choices *)
Definition choices := list N -> N.
Definition ok_choices (d : adoc) (c : choices) : bool := true.

(** white space: [n mod 3] (+1 when required) characters, kinds from the base-4 digits of n/3 *)
Definition ws_char (k : N) : char :=
  match k mod 4 with 0 => c_sp | 1 => c_tab | 2 => c_lf | _ => c_cr end.
Fixpoint ws_run (cnt : nat) (k : N) : str :=
  match cnt with O => [] | S m => ws_char k :: ws_run m (k / 4) end.
Definition S0 (c : choices) (p : list N) : str := ws_run (N.to_nat (c p mod 3)) (c p / 3).
Definition S1 (c : choices) (p : list N) : str := ws_run (S (N.to_nat (c p mod 3))) (c p / 3).
Definition Eq_ (c : choices) (p : list N) : str := S0 c (0 :: p) ++ c_eq :: S0 c (1 :: p).

(** quotes: the oracle's preference unless the value forbids it *)
Definition contains (x : char) (s : str) : bool := existsb (N.eqb x) s.
Definition pick_quote (c : choices) (p : list N) (body : str) : char :=
  if contains c_quot body then c_apos
  else if contains c_apos body then c_quot
  else if c p mod 2 =? 0 then c_quot else c_apos.
Definition quoted (c : choices) (p : list N) (body : str) : str :=
  let q := pick_quote c p body in q :: body ++ [q].

(** character references *)
Fixpoint digits_of (fuel : nat) (base : N) (upper : bool) (n : N) (acc : str) : str :=
  match fuel with
  | O => acc
  | S f => let d := n mod base in
           let ch := if d <? 10 then 48 + d else (if upper then 55 else 87) + d in
           if n / base =? 0 then ch :: acc else digits_of f base upper (n / base) (ch :: acc)
  end.
Definition char_ref (k : N) (ch : char) : str :=
  (* k: bit 0 hexadecimal, bit 1 upper-case digits, bits 2-3 number of leading zeros *)
  let zeros := repeat 48 (N.to_nat ((k / 4) mod 4)) in
  if k mod 2 =? 0 then [c_amp; c_hash] ++ zeros ++ digits_of 8 10 false ch [] ++ [c_semi]
  else [c_amp; c_hash; c_x] ++ zeros ++ digits_of 8 16 ((k / 2) mod 2 =? 1) ch [] ++ [c_semi].
Definition predef_name (ch : char) : option str :=
  if ch =? c_lt then Some s_lt else if ch =? c_gt then Some s_gt else if ch =? c_amp then Some s_amp
  else if ch =? c_apos then Some s_apos else if ch =? c_quot then Some s_quot else None.
Definition entity_ref (nm : str) : str := c_amp :: nm ++ [c_semi].

(** one character of a literal ([10] AttValue or [9] EntityValue) delimited by [q].
    [must_escape ch]: the character may not stand for itself. *)
Definition lit_char (k : N) (must_escape : bool) (allow_predef : bool) (ch : char) : str :=
  match k mod 4 with
  | 0 | 1 => if must_escape then char_ref (k / 4) ch else [ch]
  | 2 => match predef_name ch with
         | Some nm => if allow_predef then entity_ref nm else char_ref (k / 4) ch
         | None => if must_escape then char_ref (k / 4) ch else [ch] end
  | _ => char_ref (k / 4) ch
  end.

Definition att_must_escape (q ch : char) : bool :=
  (ch =? c_lt) || (ch =? c_amp) || (ch =? q) || (ch =? c_tab) || (ch =? c_lf) || (ch =? c_cr).
Definition ent_must_escape (q ch : char) : bool :=
  (ch =? c_pct) || (ch =? c_amp) || (ch =? q) || (ch =? c_cr).

Fixpoint lit_chars (c : choices) (p : list N) (esc : char -> bool) (predef : bool) (i : N) (s : str) : str :=
  match s with
  | [] => []
  | ch :: t => lit_char (c (i :: p)) (esc ch) predef ch ++ lit_chars c p esc predef (i + 1) t
  end.

Fixpoint lit_items (c : choices) (p : list N) (esc : char -> bool) (predef : bool) (i : N) (l : list aitem) : str :=
  match l with
  | [] => []
  | IText s :: t => lit_chars c (i :: p) esc predef 0 s ++ lit_items c p esc predef (i + 1) t
  | IRef nm :: t => entity_ref nm ++ lit_items c p esc predef (i + 1) t
  end.

Definition att_literal (c : choices) (p : list N) (v : list aitem) : str :=
  let q := if c (0 :: p) mod 2 =? 0 then c_quot else c_apos in
  q :: lit_items c (1 :: p) (att_must_escape q) true 0 v ++ [q].
(** in an entity value a predefined entity reference would be bypassed, not included: the
    replacement text would differ; only character references are used there *)
Definition ent_literal (c : choices) (p : list N) (v : list aitem) : str :=
  let q := if c (0 :: p) mod 2 =? 0 then c_quot else c_apos in
  q :: lit_items c (1 :: p) (ent_must_escape q) false 0 v ++ [q].

(** character data [14] with references and CDATA sections.  [prev]: the previous abstract
    character (a ">" directly after "]" is never written literally, so "]]>" cannot arise);
    a CDATA run never contains "]" for the same reason. *)
Fixpoint take_run (n : nat) (s : str) : str * str :=
  match n, s with
  | S m, ch :: t => if ch =? c_rbr then ([], s) else let (a, b) := take_run m t in (ch :: a, b)
  | _, _ => ([], s)
  end.

Fixpoint text_chars (fuel : nat) (c : choices) (p : list N) (i : N) (prev : char) (s : str) : str :=
  match fuel with
  | O => []
  | S f =>
    match s with
    | [] => []
    | ch :: t =>
      let k := c (i :: p) in
      let esc := (ch =? c_lt) || (ch =? c_amp) || (ch =? c_cr) || ((ch =? c_gt) && (prev =? c_rbr)) in
      let one (x : str) := x ++ text_chars f c p (i + 1) ch t in
      match k mod 8 with
      | 0 | 1 | 2 => one (if esc then char_ref (k / 8) ch else [ch])
      | 3 => one (char_ref (k / 8) ch)
      | 4 => one (match predef_name ch with Some nm => entity_ref nm
                                         | None => if esc then char_ref (k / 8) ch else [ch] end)
      | 5 => one (s_cdata_open ++ s_cdata_close ++ (if esc then char_ref (k / 8) ch else [ch]))
      | _ =>
        match take_run (S (N.to_nat ((k / 8) mod 4))) s with
        | ([], _) => one (char_ref (k / 8) ch)
        | (run, rest) =>
          if existsb (N.eqb c_cr) run then one (char_ref (k / 8) ch)
          else s_cdata_open ++ run ++ s_cdata_close
               ++ text_chars f c p (i + N.of_nat (length run)) (last run ch) rest
        end
      end
    end
  end.

Definition occ_str (o : occ) : str :=
  match o with OOne => [] | OOpt => [c_qm] | OStar => [c_star] | OPlus => [c_plus] end.

(** permutation decoded from the oracle: the i-th element is inserted at position k_i mod (i+1) *)
Fixpoint insert_at {A} (n : nat) (x : A) (l : list A) : list A :=
  match n, l with
  | O, _ => x :: l
  | S m, y :: t => y :: insert_at m x t
  | S _, [] => [x]
  end.
Fixpoint permute {A} (c : choices) (p : list N) (i : N) (l : list A) (acc : list A) : list A :=
  match l with
  | [] => acc
  | x :: t => permute c p (i + 1) t (insert_at (N.to_nat (c (i :: p) mod (i + 1))) x acc)
  end.

Definition render_comment (s : str) : str := s_comment_open ++ s ++ s_comment_close.
Definition render_pi (c : choices) (p : list N) (t : str) (d : option str) : str :=
  s_pi_open ++ t ++ match d with None => [] | Some x => S1 c p ++ x end ++ s_pi_close.

Fixpoint render_node (c : choices) (p : list N) (x : anode) : str :=
  match x with
  | AText s => text_chars (S (length s)) c p 0 c_rbr s     (* as if a "]" preceded: a leading ">" is never literal *)
  | ARef nm => entity_ref nm
  | AComment s => render_comment s
  | API t d => render_pi c p t d
  | AElem nm atts kids =>
    let atts' := permute c (0 :: p) 0 (combine (seq 0 (length atts)) atts) [] in
    let render_att (ia : nat * (str * list aitem)) :=
      let q := N.of_nat (fst ia) :: 1 :: p in
      S1 c (0 :: q) ++ fst (snd ia) ++ Eq_ c (1 :: q) ++ att_literal c (2 :: q) (snd (snd ia)) in
    let open := c_lt :: nm ++ flat_map render_att atts' ++ S0 c (2 :: p) in
    match kids with
    | [] => if c (3 :: p) mod 2 =? 0 then open ++ s_empty_close
            else open ++ [c_gt] ++ s_etag_open ++ nm ++ S0 c (4 :: p) ++ [c_gt]
    | _ =>
      open ++ [c_gt]
      ++ (fix go (i : N) (l : list anode) : str :=
            match l with [] => [] | y :: t => render_node c (i :: 5 :: p) y ++ go (i + 1) t end) 0 kids
      ++ s_etag_open ++ nm ++ S0 c (4 :: p) ++ [c_gt]
    end
  end.

(** DTD *)
Fixpoint sep_by (sep : str) (l : list str) : str :=
  match l with [] => [] | [x] => x | x :: t => x ++ sep ++ sep_by sep t end.

Fixpoint render_cp (c : choices) (p : list N) (x : acp) : str :=
  match x with
  | CPName nm o => nm ++ occ_str o
  | CPChoice l o =>
    c_lpar :: S0 c (0 :: p)
    ++ (fix go (i : N) (l : list acp) : str :=
          match l with
          | [] => []
          | [y] => render_cp c (i :: 2 :: p) y
          | y :: t => render_cp c (i :: 2 :: p) y ++ S0 c (i :: 3 :: p) ++ c_bar :: S0 c (i :: 4 :: p) ++ go (i + 1) t
          end) 0 l
    ++ S0 c (1 :: p) ++ c_rpar :: occ_str o
  | CPSeq l o =>
    c_lpar :: S0 c (0 :: p)
    ++ (fix go (i : N) (l : list acp) : str :=
          match l with
          | [] => []
          | [y] => render_cp c (i :: 2 :: p) y
          | y :: t => render_cp c (i :: 2 :: p) y ++ S0 c (i :: 3 :: p) ++ c_comma :: S0 c (i :: 4 :: p) ++ go (i + 1) t
          end) 0 l
    ++ S0 c (1 :: p) ++ c_rpar :: occ_str o
  end.

Fixpoint render_alts (c : choices) (p : list N) (i : N) (l : list str) : str :=
  match l with
  | [] => []
  | [x] => S0 c (i :: 0 :: p) ++ x ++ S0 c (i :: 1 :: p)
  | x :: t => S0 c (i :: 0 :: p) ++ x ++ S0 c (i :: 1 :: p) ++ c_bar :: render_alts c p (i + 1) t
  end.

Definition render_contentspec (c : choices) (p : list N) (s : acontentspec) : str :=
  match s with
  | CSEmpty => s_EMPTY
  | CSAny => s_ANY
  | CSMixed [] => c_lpar :: S0 c (0 :: p) ++ s_PCDATA ++ S0 c (1 :: p) ++ c_rpar :: (if c (2 :: p) mod 2 =? 0 then [] else [c_star])
  | CSMixed names =>
    c_lpar :: S0 c (0 :: p) ++ s_PCDATA
    ++ (fix go (i : N) (l : list str) : str :=
          match l with [] => [] | x :: t => S0 c (i :: 3 :: p) ++ c_bar :: S0 c (i :: 4 :: p) ++ x ++ go (i + 1) t end) 0 names
    ++ S0 c (1 :: p) ++ [c_rpar; c_star]
  | CSChildren cp => render_cp c p cp
  end.

Definition render_atttype (c : choices) (p : list N) (t : atttype) : str :=
  match t with
  | ATCData => s_CDATA | ATId => s_ID | ATIdRef => s_IDREF | ATIdRefs => s_IDREFS
  | ATEntity => s_ENTITY | ATEntities => s_ENTITIES | ATNmtoken => s_NMTOKEN | ATNmtokens => s_NMTOKENS
  | ATNotation l => s_NOTATION ++ S1 c (0 :: p) ++ c_lpar :: render_alts c (1 :: p) 0 l ++ [c_rpar]
  | ATEnum l => c_lpar :: render_alts c (1 :: p) 0 l ++ [c_rpar]
  end.

Definition render_default (c : choices) (p : list N) (d : adefault) : str :=
  match d with
  | DfRequired => s_REQUIRED
  | DfImplied => s_IMPLIED
  | DfValue true v => s_FIXED ++ S1 c (0 :: p) ++ att_literal c (1 :: p) v
  | DfValue false v => att_literal c (1 :: p) v
  end.

Definition render_extid (c : choices) (p : list N) (pub sys : option str) : str :=
  match pub, sys with
  | None, Some s => s_system ++ S1 c (0 :: p) ++ quoted c (1 :: p) s
  | Some pb, Some s => s_public ++ S1 c (0 :: p) ++ quoted c (1 :: p) pb ++ S1 c (2 :: p) ++ quoted c (3 :: p) s
  | Some pb, None => s_public ++ S1 c (0 :: p) ++ quoted c (1 :: p) pb
  | None, None => []
  end.

Definition render_decl (c : choices) (p : list N) (d : adecl) : str :=
  match d with
  | ADEntity nm v => s_entity ++ S1 c (0 :: p) ++ nm ++ S1 c (1 :: p) ++ ent_literal c (2 :: p) v ++ S0 c (3 :: p) ++ [c_gt]
  | ADExtEntity nm pub sys nd =>
    s_entity ++ S1 c (0 :: p) ++ nm ++ S1 c (1 :: p) ++ render_extid c (2 :: p) pub (Some sys)
    ++ match nd with Some n => S1 c (4 :: p) ++ s_NDATA ++ S1 c (5 :: p) ++ n | None => [] end
    ++ S0 c (3 :: p) ++ [c_gt]
  | ADNotation nm pub sys =>
    s_notation_decl ++ S1 c (0 :: p) ++ nm ++ S1 c (1 :: p) ++ render_extid c (2 :: p) pub sys ++ S0 c (3 :: p) ++ [c_gt]
  | ADAttlist el defs =>
    s_attlist ++ S1 c (0 :: p) ++ el
    ++ (fix go (i : N) (l : list (str * atttype * adefault)) : str :=
          match l with
          | [] => []
          | (nm, ty, df) :: t =>
            S1 c (i :: 1 :: p) ++ nm ++ S1 c (i :: 2 :: p) ++ render_atttype c (i :: 3 :: p) ty
            ++ S1 c (i :: 4 :: p) ++ render_default c (i :: 5 :: p) df ++ go (i + 1) t
          end) 0 defs
    ++ S0 c (6 :: p) ++ [c_gt]
  | ADElement nm spec =>
    s_element ++ S1 c (0 :: p) ++ nm ++ S1 c (1 :: p) ++ render_contentspec c (2 :: p) spec ++ S0 c (3 :: p) ++ [c_gt]
  | ADComment s => render_comment s
  | ADPI t x => render_pi c p t x
  end.

Definition render_doctype (c : choices) (p : list N) (dt : adoctype) : str :=
  s_doctype ++ S1 c (0 :: p) ++ ad_name dt
  ++ match ad_sys dt with
     | Some _ => S1 c (1 :: p) ++ render_extid c (2 :: p) (ad_pub dt) (ad_sys dt)
     | None => [] end
  ++ S0 c (3 :: p)
  ++ match ad_subset dt with
     | Some l =>
       c_lbr :: (fix go (i : N) (l : list adecl) : str :=
                   match l with [] => [] | d :: t => S0 c (i :: 4 :: p) ++ render_decl c (i :: 5 :: p) d ++ go (i + 1) t end) 0 l
       ++ S0 c (6 :: p) ++ c_rbr :: S0 c (7 :: p)
     | None => [] end
  ++ [c_gt].

Definition render_xmldecl (c : choices) (p : list N) (v : str) (e : option str) (sa : option bool) : str :=
  s_xmldecl_open ++ S1 c (0 :: p) ++ s_version ++ Eq_ c (1 :: p) ++ quoted c (2 :: p) v
  ++ match e with Some x => S1 c (3 :: p) ++ s_encoding ++ Eq_ c (4 :: p) ++ quoted c (5 :: p) x | None => [] end
  ++ match sa with
     | Some b => S1 c (6 :: p) ++ s_standalone ++ Eq_ c (7 :: p) ++ quoted c (8 :: p) (if b then s_yes else s_no)
     | None => [] end
  ++ S0 c (9 :: p) ++ s_pi_close.

Fixpoint render_miscs (c : choices) (p : list N) (i : N) (l : list anode) : str :=
  match l with
  | [] => []
  | x :: t => render_node c (i :: 0 :: p) x ++ S0 c (i :: 1 :: p) ++ render_miscs c p (i + 1) t
  end.

Definition render (d : adoc) (c : choices) : str :=
  match a_version d with
  | Some v => render_xmldecl c [0] v (a_encoding d) (a_standalone d)
  | None => [] end
  ++ S0 c [1] ++ render_miscs c [2] 0 (a_misc1 d)
  ++ match a_doctype d with
     | Some dt => render_doctype c [3] dt ++ S0 c [4] ++ render_miscs c [5] 0 (a_misc2 d)
     | None => [] end
  ++ render_node c [6] (a_root d)
  ++ S0 c [7] ++ render_miscs c [8] 0 (a_misc3 d).

(** *** what an abstract document denotes

    [to_xdoc] is the canonical syntax tree of an abstract document (every character of character
    data stands for itself; in attribute values tab, LF and CR are character references, since
    literally they would denote a space; entity values are their replacement text).  The
    document denotes the information set of that tree. *)
Definition opt_list {A} (o : option (list A)) : list A := match o with Some l => l | None => [] end.

Definition att_pieces (v : list aitem) : list avpiece :=
  flat_map (fun i => match i with
                     | IText s => map (fun ch => if isS ch && negb (ch =? c_sp) then AvChar ch else AvLit ch) s
                     | IRef nm => [AvEnt nm] end) v.
Definition ent_pieces (v : list aitem) : list avpiece :=
  flat_map (fun i => match i with IText s => map AvLit s | IRef nm => [AvEnt nm] end) v.

Fixpoint to_x (x : anode) : list xcontent :=
  match x with
  | AText s => map XChar s
  | ARef nm => [XEntRef nm]
  | AComment s => [XComment s]
  | API t d => [XPI t d]
  | AElem nm atts kids =>
    [XElem nm (map (fun a => (fst a, att_pieces (snd a))) atts) (Some nm) (flat_map to_x kids)]
  end.

Definition to_decl (d : adecl) : decl :=
  match d with
  | ADEntity nm v => DEntity nm (EdValue (ent_pieces v))
  | ADExtEntity nm pub sys nd =>
    DEntity nm (EdExternal (match pub with Some p => PublicId p sys | None => SystemId sys end) nd)
  | ADNotation nm pub sys => DNotation nm pub sys
  | ADAttlist el defs =>
    DAttlist el (map (fun '(nm, ty, df) =>
                        (nm, ty, match df with
                                 | DfRequired => ADRequired | DfImplied => ADImplied
                                 | DfValue f v => ADValue f (att_pieces v) end)) defs)
  | ADElement nm _ => DElement nm
  | ADComment s => DComment s
  | ADPI t x => DPI t x
  end.

Definition to_xdoc (d : adoc) : xdoc :=
  {| x_decl := match a_version d with
               | Some v => Some {| xd_version := v; xd_encoding := a_encoding d; xd_standalone := a_standalone d |}
               | None => None end;
     x_misc1 := flat_map to_x (a_misc1 d);
     x_doctype := match a_doctype d with
                  | Some dt => Some {| dt_name := ad_name dt;
                                       dt_extid := extid_of (ad_pub dt) (ad_sys dt);
                                       dt_subset := map to_decl (opt_list (ad_subset dt)) |}
                  | None => None end;
     x_misc2 := flat_map to_x (a_misc2 d);
     x_root := match to_x (a_root d) with [r] => r | _ => XComment [] end;
     x_misc3 := flat_map to_x (a_misc3 d) |}.

Definition denote (d : adoc) : infoset :=
  match check_doc (to_xdoc d) with
  | inr root => doc_tokens (to_xdoc d) root
  | inl _ => []
  end.

(** *** validity of an abstract document: it can be written down at all (lexical conditions on
    the strings it carries), it is inside the supported profile, and its canonical tree satisfies
    the well-formedness and namespace constraints *)
Definition all_chars (s : str) : bool := forallb isChar s.
Fixpoint has_sub (pat s : str) : bool :=
  starts pat s || match s with [] => false | _ :: t => has_sub pat t end.
Definition no_cr (s : str) : bool := negb (contains c_cr s).

Definition comment_ok (s : str) : bool :=
  all_chars s && no_cr s && negb (has_sub [c_dash; c_dash] s)
  && negb (match rev s with c :: _ => c =? c_dash | [] => false end).
Definition pi_ok (t : str) (d : option str) : bool :=
  is_PITarget t && is_NCName t
  && match d with
     | None => true
     | Some x => all_chars x && no_cr x && negb (has_sub s_pi_close x)
                 && match x with c :: _ => negb (isS c) | [] => true end
     end.
Definition text_ok (s : str) : bool := all_chars s.
Definition items_ok (v : list aitem) : bool :=
  forallb (fun i => match i with IText s => all_chars s | IRef nm => is_NCName nm end) v.
(** replacement text that is character data only (the profile: no markup inside entities) *)
Definition ent_items_ok (v : list aitem) : bool :=
  forallb (fun i => match i with
                    | IText s => all_chars s && negb (contains c_lt s) && negb (contains c_amp s)
                    | IRef nm => is_NCName nm end) v.
Definition sysid_ok (s : str) : bool :=
  all_chars s && no_cr s && negb (contains c_quot s && contains c_apos s).
(** a public identifier in its normalized form (4.2.2) *)
Definition pubid_ok (s : str) : bool :=
  forallb (eval spec_PubidChar) s && negb (contains c_cr s) && negb (contains c_lf s)
  && str_eqb (tok_norm s) s.

(** adjacent character-data children are one child (normal form of the abstract document) *)
Fixpoint no_adjacent_text (l : list anode) : bool :=
  match l with
  | AText _ :: ((AText _ :: _) as t) => false
  | _ :: t => no_adjacent_text t
  | [] => true
  end.

Fixpoint node_ok (x : anode) : bool :=
  match x with
  | AText s => text_ok s
  | ARef nm => is_NCName nm
  | AComment s => comment_ok s
  | API t d => pi_ok t d
  | AElem nm atts kids =>
    is_QName nm && forallb (fun a => is_QName (fst a) && items_ok (snd a)) atts && forallb node_ok kids
    && no_adjacent_text kids
  end.
Definition misc_ok (x : anode) : bool :=
  match x with AComment _ | API _ _ => node_ok x | _ => false end.

Fixpoint cp_ok (x : acp) : bool :=
  match x with
  | CPName nm _ => is_QName nm
  | CPChoice l _ => Nat.leb 2 (length l) && forallb cp_ok l
  | CPSeq l _ => Nat.leb 1 (length l) && forallb cp_ok l
  end.

Definition decl_ok (d : adecl) : bool :=
  match d with
  | ADEntity nm v => is_NCName nm && ent_items_ok v
  | ADExtEntity nm pub sys nd =>
    is_NCName nm && sysid_ok sys && match pub with Some p => pubid_ok p | None => true end
    && match nd with Some n => is_NCName n | None => true end
  | ADNotation nm pub sys =>
    is_NCName nm && match pub with Some p => pubid_ok p | None => true end
    && match sys with Some s => sysid_ok s | None => true end
    && match pub, sys with None, None => false | _, _ => true end
  | ADAttlist el defs =>
    is_QName el
    && forallb (fun '(nm, ty, df) =>
                  is_QName nm
                  && match ty with
                     | ATNotation l => Nat.leb 1 (length l) && forallb is_NCName l
                     | ATEnum l => Nat.leb 1 (length l) && forallb is_Nmtoken l
                     | _ => true end
                  && match df with DfValue _ v => items_ok v | _ => true end) defs
  | ADElement nm spec =>
    is_QName nm
    && match spec with
       | CSMixed names => forallb is_QName names
       | CSChildren (CPName _ _) => false
       | CSChildren cp => cp_ok cp
       | _ => true end
  | ADComment s => comment_ok s
  | ADPI t x => pi_ok t x
  end.

Fixpoint distinct (l : list str) : bool :=
  match l with [] => true | x :: t => negb (mem x t) && distinct t end.

Definition version_ok (v : str) : bool :=
  match strip s_one_dot v with
  | Some ((_ :: _) as ds) => forallb isDigit ds
  | _ => false end.
Definition encname_ok (e : str) : bool :=
  match e with c :: t => eval spec_EncNameStart c && forallb (eval spec_EncNameChar) t | [] => false end.

Definition shape_ok (d : adoc) : bool :=
  match a_version d with
  | Some v => version_ok v && match a_encoding d with Some e => encname_ok e | None => true end
  | None => match a_encoding d, a_standalone d with None, None => true | _, _ => false end
  end
  && forallb misc_ok (a_misc1 d) && forallb misc_ok (a_misc2 d) && forallb misc_ok (a_misc3 d)
  && match a_root d with AElem _ _ _ => node_ok (a_root d) | _ => false end
  && match a_doctype d with
     | None => match a_misc2 d with [] => true | _ => false end
     | Some dt =>
       is_QName (ad_name dt)
       && match ad_pub dt, ad_sys dt with
          | Some p, Some s => pubid_ok p && sysid_ok s
          | None, Some s => sysid_ok s
          | None, None => true
          | Some _, None => false end
       && forallb decl_ok (opt_list (ad_subset dt))
       && distinct (flat_map (fun x => match x with
                                       | ADEntity nm _ | ADExtEntity nm _ _ _ => [nm] | _ => [] end)
                             (opt_list (ad_subset dt)))
       && distinct (flat_map (fun x => match x with ADNotation nm _ _ => [nm] | _ => [] end)
                             (opt_list (ad_subset dt)))
     end.

(** no reference to an external entity in content (it would not be included: outside the profile) *)
Fixpoint no_unexp (x : xcontent) : bool :=
  match x with
  | XEntRef _ => false
  | XElem _ _ _ kids => forallb no_unexp kids
  | XExp _ items => forallb no_unexp items
  | _ => true
  end.

Definition valid (d : adoc) : bool :=
  shape_ok d
  && match check_doc (to_xdoc d) with
     | inr root => no_unexp root && match ns_doc (to_xdoc d) root with None => true | Some _ => false end
     | inl _ => false
     end.

(** an oracle from a finite seed: the driver of the generated cases uses this one *)
Definition seeded (seed : list N) : choices :=
  fun p => let h := fold_left (fun h x => (h * 1000003 + x + 12345) mod 4294967296) p 2166136261 in
           nth (N.to_nat (h mod N.of_nat (length seed))) seed 0.
