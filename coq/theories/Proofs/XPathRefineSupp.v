(** * C05, round 2: the supported expressions (a decidable, purely syntactic class).

    [supported_b ns e] holds when
    - no step of [e] uses the namespace axis (namespace nodes have no usable order key and no owner
      in the dom: finding D19);
    - every prefix of a name test is bound in [ns] (an undeclared prefix is an error in XPath 1.0; the
      implementation reports it only when a node of the principal node type is tested: difference
      reported in round 2);
    - every number literal is a Number of the grammar ([Digits ('.' Digits?)? | '.' Digits]);
    - [id()] is not called (outside the property);
    - an argument in a string-typed parameter of a core function, or the argument of [lang], is not
      syntactically able to be a negative-zero number ([nz_safe]): finding D34b of C09 -- the
      implementation prints the number negative zero as "-0", XPath 1.0 as "0". *)
From Coq Require Import List NArith Bool.
From XmlRs Require Import Base.CPred.
From XmlRs Require Import Spec.XPathCore Model.XPathFuncs Model.XPathAst Model.XDoc Model.XPathScalar Model.XPathEval.
From XmlRs Require Import Proofs.XPathAstPred Proofs.XPathFuncs.
Import ListNotations.

(** the parameters of the core functions that are converted to strings *)
Definition fn_str_param (name : str) (i : nat) : bool :=
  match fname_of name library with Some Flang => true | Some id => str_param id i | None => false end.

(** functions whose value is a string, a boolean, or a number that is never a negative zero *)
Definition nz_fn (name : str) : bool :=
  match fname_of name library with
  | Some (Flast | Fposition | Fcount | Flocal_name | Fnamespace_uri | Fname
          | Fstring | Fconcat | Fstarts_with | Fcontains | Fsubstring_before | Fsubstring_after
          | Fsubstring | Fstring_length | Fnormalize_space | Ftranslate
          | Fboolean | Fnot | Ftrue | Ffalse | Flang) => true
  | _ => false
  end.

(** a Number of the grammar *)
Definition lit_ok (s : str) : bool := match spec_literal s with ROk _ => true | _ => false end.

Definition and_list_nil (l : and_list) : bool := match l with AndNil => true | _ => false end.
Definition eq_list_nil (l : eq_list) : bool := match l with EqNil => true | _ => false end.
Definition eqop_list_nil (l : eqop_list) : bool := match l with EqopNil => true | _ => false end.
Definition relop_list_nil (l : relop_list) : bool := match l with RelopNil => true | _ => false end.
Definition addop_list_nil (l : addop_list) : bool := match l with AddopNil => true | _ => false end.
Definition mulop_list_nil (l : mulop_list) : bool := match l with MulopNil => true | _ => false end.

(** the value of [e], if it is a number, is not the negative zero -- decided on the shape of [e]:
    [or], [and], comparisons give booleans; location paths, unions and filtered expressions give
    node-sets; string literals and Numbers of the grammar; calls of the functions [nz_fn]; parentheses around such an expression.
    Arithmetic, unary minus and the numeric functions number, sum, floor, ceiling, round are not
    in the class. *)
Fixpoint nz_safe (e : or_expr) : bool :=
  match e with
  | EOr (EAnd (EEq (ERel (EAdd (EMul (EUnary inv (EUnion pl)) mops) aops) rops) eops) eqs) ands =>
      if negb (and_list_nil ands) || negb (eq_list_nil eqs) || negb (eqop_list_nil eops) || negb (relop_list_nil rops)
      then true
      else if negb (addop_list_nil aops) || negb (mulop_list_nil mops) || negb (N.eqb inv 0) then false
      else match pl with
           | PathCons (PFilter (EFilter prim ExprNil)) PathNil =>
               match prim with
               | PrimVariable _ => true
               | PrimExpr x => nz_safe x
               | PrimLiteral _ => true
               | PrimNumber s => lit_ok s
               | PrimFunction (QPrefixed _ _) _ => true
               | PrimFunction (QUnprefixed name) _ => nz_fn name
               end
           | _ => true
           end
  end.

Fixpoint args_nz (name : str) (args : expr_list) (i : nat) : bool :=
  match args with
  | ExprNil => true
  | ExprCons e t => (negb (fn_str_param name i) || nz_safe e) && args_nz name t (S i)
  end.

Section Supp.
Variable ns : list (option str * str).

Definition prefix_bound (p : str) : bool :=
  match ns_lookup ns (Some p) with Some _ => true | None => false end.

Definition test_ok (t : node_test) : bool :=
  match t with
  | TestName (NameNamespace p) => prefix_bound p
  | TestName (NameQName (QPrefixed p _)) => prefix_bound p
  | _ => true
  end.

Fixpoint sup_or (e : or_expr) : bool :=
  match e with EOr f r => sup_and f && sup_and_list r end
with sup_and_list (l : and_list) : bool :=
  match l with AndNil => true | AndCons a t => sup_and a && sup_and_list t end
with sup_and (e : and_expr) : bool :=
  match e with EAnd f r => sup_eq f && sup_eq_list r end
with sup_eq_list (l : eq_list) : bool :=
  match l with EqNil => true | EqCons a t => sup_eq a && sup_eq_list t end
with sup_eq (e : eq_expr) : bool :=
  match e with EEq o ops => sup_rel o && sup_eqop_list ops end
with sup_eqop_list (l : eqop_list) : bool :=
  match l with EqopNil => true | EqopCons _ e t => sup_rel e && sup_eqop_list t end
with sup_rel (e : rel_expr) : bool :=
  match e with ERel o ops => sup_add o && sup_relop_list ops end
with sup_relop_list (l : relop_list) : bool :=
  match l with RelopNil => true | RelopCons _ e t => sup_add e && sup_relop_list t end
with sup_add (e : add_expr) : bool :=
  match e with EAdd o ops => sup_mul o && sup_addop_list ops end
with sup_addop_list (l : addop_list) : bool :=
  match l with AddopNil => true | AddopCons _ e t => sup_mul e && sup_addop_list t end
with sup_mul (e : mul_expr) : bool :=
  match e with EMul o ops => sup_unary o && sup_mulop_list ops end
with sup_mulop_list (l : mulop_list) : bool :=
  match l with MulopNil => true | MulopCons _ e t => sup_unary e && sup_mulop_list t end
with sup_unary (e : unary_expr) : bool :=
  match e with EUnary _ u => sup_union u end
with sup_union (e : union_expr) : bool :=
  match e with EUnion l => sup_path_list l end
with sup_path_list (l : path_list) : bool :=
  match l with PathNil => true | PathCons p t => sup_path p && sup_path_list t end
with sup_path (e : path_expr) : bool :=
  match e with
  | PRoot => true
  | PFilter f => sup_filter f
  | PRel l => sup_rel_path l
  | PAbs _ l => sup_rel_path l
  | PFilterPath f _ l => sup_filter f && sup_rel_path l
  end
with sup_filter (e : filter_expr) : bool :=
  match e with EFilter p preds => sup_primary p && sup_expr_list preds end
with sup_primary (e : primary_expr) : bool :=
  match e with
  | PrimVariable _ => true
  | PrimExpr x => sup_or x
  | PrimLiteral _ => true
  | PrimNumber s => lit_ok s
  | PrimFunction (QPrefixed _ _) _ => true
  | PrimFunction (QUnprefixed name) args =>
      negb (str_eqb name fn_id) && sup_expr_list args && args_nz name args 0
  end
with sup_expr_list (l : expr_list) : bool :=
  match l with ExprNil => true | ExprCons e t => sup_or e && sup_expr_list t end
with sup_rel_path (e : rel_path) : bool :=
  match e with ERelPath s ops => sup_step s && sup_stepop_list ops end
with sup_stepop_list (l : stepop_list) : bool :=
  match l with StepopNil => true | StepopCons _ s t => sup_step s && sup_stepop_list t end
with sup_step (s : step) : bool :=
  match s with
  | StepTest a t preds => not_ns_axis a && test_ok t && sup_expr_list preds
  | StepCurrent => true
  | StepParent => true
  end.

End Supp.

(** the supported expressions, for the namespace bindings [ns] of the context *)
Definition supported_b (ns : list (option str * str)) (e : expr) : bool := sup_or ns e.
Definition supported (ns : list (option str * str)) (e : expr) : Prop := supported_b ns e = true.
