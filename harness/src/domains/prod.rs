//! One grammar production on one string: `<grammar> <production> <string>` ->
//! `ok <chars consumed>` | `err` | `unknown`.
use crate::util::dec;

fn nom_prod(name: &str, input: &str) -> Option<Result<usize, ()>> {
    fn run<O, E>(input: &str, r: Result<(&str, O), E>) -> Result<usize, ()> {
        r.map(|(rest, _)| input.len() - rest.len()).map_err(|_| ())
    }
    Some(match name {
        "ncname" => run(input, xml_nom::ncname(input)),
        "qname" => run(input, xml_nom::qname(input)),
        _ => return None,
    })
}

pub fn case(line: &str) -> String {
    let mut it = line.split(' ');
    let grammar = it.next().unwrap_or("");
    let name = it.next().unwrap_or("");
    let s = match dec(it.next().unwrap_or("-")) {
        Some(s) => s,
        None => return "badinput".to_string(),
    };
    let r = match grammar {
        "xml" => nom_prod(name, &s).or_else(|| xml_parser::verif_production(name, &s)),
        "xpath" => xml_xpath::expr::verif_production(name, &s),
        _ => None,
    };
    match r {
        None => "unknown".to_string(),
        Some(Err(())) => "err".to_string(),
        Some(Ok(n)) => format!("ok {}", s[..n].chars().count()),
    }
}
