(** * C14 for histories that contain [normalize] calls (Model/DomNormalize.v) *)
From Coq Require Import List NArith Bool.
From XmlRs Require Import Base.CPred Model.Store Model.DomOps Model.DomNormalize
  Proofs.DomTree Proofs.DomOpsInv Proofs.DomOrder Proofs.DomOrderInv Proofs.DomC14 Proofs.DomExample
  Proofs.DomNormalizeHist Proofs.DomNormalizeC12.
Import ListNotations.
Open Scope N_scope.

Theorem good_reachable_with_normalize : forall init nops, WGood init -> WGood (run_n init nops).
Proof. intros init nops. apply (run_n_invariant WGood). intros ops w. apply run_good. Qed.

Theorem order_inv_reachable_with_normalize :
  forall init nops k s, WGood init -> doc_at (run_n init nops) k = Some s -> OrderInv s.
Proof.
  intros init nops k s Hi D. destruct (run_n_history nops init) as [ops [E _]]. rewrite E in D.
  exact (order_inv_reachable init ops k s Hi D).
Qed.

Theorem keys_after_any_history_with_normalize :
  forall init nops k s, WGood init -> doc_at (run_n init nops) k = Some s ->
    Walk s (sroot s) (preorder s)
    /\ (forall x, In x (preorder s) <-> attached s x)
    /\ (forall x, attached s x -> Store.key s x <> 0)
    /\ (forall l1 x l2 y l3, preorder s = l1 ++ x :: l2 ++ y :: l3 -> Store.key s x < Store.key s y)
    /\ (forall x, ~ attached s x -> Store.key s x = 0).
Proof.
  intros init nops k s Hi D. destruct (run_n_history nops init) as [ops [E _]]. rewrite E in D.
  exact (keys_after_any_history init ops k s Hi D).
Qed.

(** the example history of Proofs/DomNormalizeC12.v: after the two [normalize] calls the removed Text nodes 8 and 9
    have key 0, the nodes that stayed have increasing keys *)
Example nz_example_keys :
  OrderInv (store0 nz_final)
  /\ map (Store.key (store0 nz_final)) [1; 2; 3; 4; 5; 6; 10; 7; 8; 9] = [1; 2; 3; 4; 5; 6; 7; 8; 0; 0].
Proof.
  split; [|vm_compute; reflexivity].
  apply (order_inv_reachable_with_normalize ex_world nz_ops 0 _ ex_good). vm_compute. reflexivity.
Qed.
