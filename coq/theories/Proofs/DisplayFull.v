(** * C04: the print -> parse direction, complete.

    [printable d]: the lexical and structural invariants of an infoset document -- names are
    NCNames / Names, texts and attribute-value pieces avoid their delimiters, comments have no
    "--", PI data no "?>", CDATA no "]]>", adjacent text items do not occur, attribute names are
    pairwise different, every entity reference resolves (and passes the well-formedness checks of
    XmlDocument::new) against the declarations of the document itself, the children of the
    document are [Misc* doctype? Misc* element Misc*], the XML declaration fields are lexically
    valid.  For every such document, of any size and depth:

        from_raw (display d) = OOk ([], d)

    the compact serialisation is accepted with nothing left over and denotes the document itself;
    hence it is equal ([doc_eq] = Leibniz equality) and its serialisation is the same string. *)
From Coq Require Import List NArith Bool.
From XmlRs Require Import Base.CPred Model.Peg Gen.XmlcharGen Gen.GrammarXmlGen Model.ParseActions
     Model.Info Model.Display Proofs.PegLemmas Proofs.DisplayLex Proofs.DisplayElem Proofs.DisplayDoc
     Proofs.DisplayDtd Proofs.DisplayEq.
Import ListNotations.

Definition printable (d : document) : Prop :=
  exists p, doc_children d = parts_children p
    /\ (dp_dt p = None -> dp_mid p = [])
    /\ Forall misc_wf (dp_pre p) /\ Forall misc_wf (dp_mid p) /\ Forall misc_wf (dp_post p)
    /\ is_element (dp_root p) = true
    /\ item_wf (match dp_dt p with Some x => dt_entities x | None => [] end)
               (external_subset (doc_standalone d) (match dp_dt p with Some x => dt_system x | None => None end))
               (dp_root p)
    /\ match doc_version d with
       | Some v => version_ok v /\ (doc_encoding d = [] \/ enc_ok (doc_encoding d))
       | None => doc_encoding d = [] /\ doc_standalone d = None
       end
    /\ (forall x, dp_dt p = Some x -> doctype_wf (doc_standalone d) x).

Lemma printable_doc_wf d : printable d -> doc_wf d.
Proof.
  intros [p [H1 [H2 [H3 [H4 [H5 [H6 [H7 [H8 H9]]]]]]]]]. exists p. repeat split; try assumption.
  intros x Hx. apply doctype_round_trip. apply H9. exact Hx.
Qed.

Theorem print_parse_printable (d : document) : printable d -> from_raw (display d) = OOk ([], d).
Proof. intros H. apply document_round_trip. apply printable_doc_wf. exact H. Qed.

(** in the shape of the property: re-parse accepted, nothing left, equal document, fixpoint *)
Corollary print_parse_printable' (d : document) : printable d ->
  exists d', from_raw (display d) = OOk ([], d') /\ doc_eq d' d /\ impl_eq d d' = true /\ display d' = display d.
Proof.
  intros H. exists d. split; [apply print_parse_printable; exact H|]. split; [reflexivity|]. split; [apply impl_eq_refl|reflexivity].
Qed.
