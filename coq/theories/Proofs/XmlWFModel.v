(** * C02 at the level of the model of the implementation (Model/Info.v [from_raw], written by
    another area from the REPAIRED code): witnesses, computed by [vm_compute], that
    - the full statement [accepted_is_wellformed] is refuted by each finding that stays
      (D04, WF13) and, for the namespace constraints, by WFNS20-23;
    - the inputs of the defects that were repaired (D01 D02 D05 D06, unparsed / external /
      recursive / undeclared / unbalanced entity references, PE reference in an entity value)
      are rejected by the model of the repaired code.
    The strings are spelled as code points; the comment in front of each gives the text. *)
From Coq Require Import List NArith Bool.
From XmlRs Require Import Base.CPred Spec.XmlChars Spec.XmlWF Model.Info.
Import ListNotations.

(** "completely parsed": [from_raw] returns a document and an EMPTY rest *)
Definition accepted (s : str) : bool :=
  match from_raw s with OOk ([], _) => true | _ => false end.

Lemma accepted_spec s : accepted s = true <-> exists d, from_raw s = OOk ([], d).
Proof.
  unfold accepted. destruct (from_raw s) as [[[|c r] d]| | | |]; split; try discriminate; eauto;
    intros [d' H]; try discriminate; injection H; discriminate.
Qed.

(* <a><?1 x?></a> *)
Definition w_d04 : str := [60;97;62;60;63;49;32;120;63;62;60;47;97;62]%N.
(* <!DOCTYPE a [<!ENTITY e "&#38;#0;">]><a>&e;</a> *)
Definition w_wf13 : str := [60;33;68;79;67;84;89;80;69;32;97;32;91;60;33;69;78;84;73;84;89;32;101;32;34;38;35;51;56;59;35;48;59;34;62;93;62;60;97;62;38;101;59;60;47;97;62]%N.
(* <a:b/> *)
Definition w_ns21 : str := [60;97;58;98;47;62]%N.
(* <a xmlns:p=""/> *)
Definition w_ns22 : str := [60;97;32;120;109;108;110;115;58;112;61;34;34;47;62]%N.
(* <a xmlns:p="u" xmlns:q="u" p:x="1" q:x="2"/> *)
Definition w_ns23 : str := [60;97;32;120;109;108;110;115;58;112;61;34;117;34;32;120;109;108;110;115;58;113;61;34;117;34;32;112;58;120;61;34;49;34;32;113;58;120;61;34;50;34;47;62]%N.
(* <a><?p:i?></a> *)
Definition w_ns20 : str := [60;97;62;60;63;112;58;105;63;62;60;47;97;62]%N.
(* <a></b> *)
Definition x_d01 : str := [60;97;62;60;47;98;62]%N.
(* <a x="1" x="2"/> *)
Definition x_d02 : str := [60;97;32;120;61;34;49;34;32;120;61;34;50;34;47;62]%N.
(* <a>&#0;</a> *)
Definition x_d05 : str := [60;97;62;38;35;48;59;60;47;97;62]%N.
(* <!DOCTYPE a [<!ENTITY e "&#0;">]><a/> *)
Definition x_d05e : str := [60;33;68;79;67;84;89;80;69;32;97;32;91;60;33;69;78;84;73;84;89;32;101;32;34;38;35;48;59;34;62;93;62;60;97;47;62]%N.
(* <!DOCTYPE a [<!ENTITY e "<">]><a x="&e;"/> *)
Definition x_d06 : str := [60;33;68;79;67;84;89;80;69;32;97;32;91;60;33;69;78;84;73;84;89;32;101;32;34;60;34;62;93;62;60;97;32;120;61;34;38;101;59;34;47;62]%N.
(* <!DOCTYPE a [<!ENTITY u SYSTEM "u" NDATA n>]><a>&u;</a> *)
Definition x_unparsed : str := [60;33;68;79;67;84;89;80;69;32;97;32;91;60;33;69;78;84;73;84;89;32;117;32;83;89;83;84;69;77;32;34;117;34;32;78;68;65;84;65;32;110;62;93;62;60;97;62;38;117;59;60;47;97;62]%N.
(* <!DOCTYPE a [<!ENTITY u SYSTEM "u">]><a x="&u;"/> *)
Definition x_extattr : str := [60;33;68;79;67;84;89;80;69;32;97;32;91;60;33;69;78;84;73;84;89;32;117;32;83;89;83;84;69;77;32;34;117;34;62;93;62;60;97;32;120;61;34;38;117;59;34;47;62]%N.
(* <!DOCTYPE a [<!ENTITY e "&e;">]><a>&e;</a> *)
Definition x_recursion : str := [60;33;68;79;67;84;89;80;69;32;97;32;91;60;33;69;78;84;73;84;89;32;101;32;34;38;101;59;34;62;93;62;60;97;62;38;101;59;60;47;97;62]%N.
(* <!DOCTYPE a [<!ENTITY e "&g;">]><a>&e;</a> *)
Definition x_undeclared_inner : str := [60;33;68;79;67;84;89;80;69;32;97;32;91;60;33;69;78;84;73;84;89;32;101;32;34;38;103;59;34;62;93;62;60;97;62;38;101;59;60;47;97;62]%N.
(* <!DOCTYPE a [<!ENTITY e "<b>">]><a>&e;</a> *)
Definition x_unbalanced : str := [60;33;68;79;67;84;89;80;69;32;97;32;91;60;33;69;78;84;73;84;89;32;101;32;34;60;98;62;34;62;93;62;60;97;62;38;101;59;60;47;97;62]%N.
(* <!DOCTYPE a [<!ENTITY e "%p;">]><a/> *)
Definition x_pe_in_value : str := [60;33;68;79;67;84;89;80;69;32;97;32;91;60;33;69;78;84;73;84;89;32;101;32;34;37;112;59;34;62;93;62;60;97;47;62]%N.

(** the statement of C02 on the model *)
Lemma wf_is_wf_xml10_aux s : wf s = true -> wf_xml10 s = true.
Proof.
  unfold wf, wf_xml10, verdict_ns, verdict10.
  destruct (parse_document s) as [d|]; [|discriminate].
  destruct (unsupported d); [discriminate|].
  destruct (check_doc d) as [r|root]; [discriminate|]. reflexivity.
Qed.

Definition accepted_is_wellformed_statement : Prop :=
  forall s d, from_raw s = OOk ([], d) -> wf s = true.

Theorem accepted_is_wellformed_refuted_D04 : exists s d, from_raw s = OOk ([], d) /\ wf_xml10 s = false.
Proof. assert (H : accepted w_d04 = true) by (vm_compute; reflexivity).
  apply accepted_spec in H. destruct H as [d H]. exists w_d04, d. split; [exact H|vm_compute; reflexivity]. Qed.

Theorem accepted_is_wellformed_refuted_WF13 : exists s d, from_raw s = OOk ([], d) /\ wf_xml10 s = false.
Proof. assert (H : accepted w_wf13 = true) by (vm_compute; reflexivity).
  apply accepted_spec in H. destruct H as [d H]. exists w_wf13, d. split; [exact H|vm_compute; reflexivity]. Qed.

(** namespace constraints: accepted, XML 1.0 well-formed, not namespace-well-formed *)
Theorem accepted_is_wellformed_refuted_NS : forall w, In w [w_ns20; w_ns21; w_ns22; w_ns23] ->
  (exists d, from_raw w = OOk ([], d)) /\ wf_xml10 w = true /\ wf w = false.
Proof.
  intros w Hw. cbn [In] in Hw.
  destruct Hw as [<-|[<-|[<-|[<-|[]]]]]; (split; [apply accepted_spec; vm_compute; reflexivity|split; vm_compute; reflexivity]).
Qed.

Theorem accepted_is_wellformed_refuted : ~ accepted_is_wellformed_statement.
Proof.
  intros H. destruct accepted_is_wellformed_refuted_D04 as (s & d & Hs & Hw).
  apply H in Hs. apply wf_is_wf_xml10_aux in Hs. congruence.
Qed.

(** the repaired defects: the model of the repaired code rejects their inputs, and the
    specification calls every one of them ill-formed *)
Theorem repaired_defects_rejected : forall x,
  In x [x_d01; x_d02; x_d05; x_d05e; x_d06; x_unparsed; x_extattr; x_recursion; x_undeclared_inner; x_unbalanced; x_pe_in_value] ->
  accepted x = false /\ wf_xml10 x = false.
Proof.
  intros x Hx. cbn [In] in Hx.
  repeat (destruct Hx as [<-|Hx]; [split; vm_compute; reflexivity|]). destruct Hx.
Qed.
