(** * C11: namespace declarations are no members of [attributes], written or supplied by an attribute-list
      default (XML Infoset 2.2; /repo commit bf629dc, D67). *)
From Coq Require Import List NArith Bool.
From XmlRs Require Import Base.CPred Spec.AttrNorm Model.AttrModel
  Proofs.AttrTokenProofs Proofs.AttrNormProofs Proofs.AttrSetProofs Proofs.AttrWfProofs Proofs.AttrExamples.
Import ListNotations.
Open Scope N_scope.

Lemma spec_items_no_nsdecl d el written :
  Forall (fun i => is_nsdecl (ai_name i) = false) (spec_attrs_items d el written).
Proof.
  apply Forall_forall. intros i Hi. unfold spec_attrs_items in Hi. apply in_app_or in Hi as [Hi|Hi].
  - apply in_map_iff in Hi as (nl & <- & Hnl). apply filter_In in Hnl as [_ Hnl]. cbn [ai_name].
    destruct (is_nsdecl (fst nl)); [discriminate|reflexivity].
  - apply in_flat_map in Hi as (x & _ & Hi). destruct (ad_default x) as [| |fx lit]; try destruct Hi.
    destruct (is_nsdecl (ad_name x)) eqn:E.
    + rewrite orb_true_r in Hi. destruct Hi.
    + match type of Hi with context [if ?c then _ else _] => destruct c end; [destruct Hi|]. destruct Hi as [<-|[]]. exact E.
Qed.

Theorem spec_attrs_no_nsdecl_proof : forall d el written l,
  spec_attrs d el written = Ok l -> Forall (fun i => is_nsdecl (ai_name i) = false) l.
Proof.
  intros d el written l. unfold spec_attrs. destruct (_ && _); [|discriminate]. intros H. injection H as <-.
  apply spec_items_no_nsdecl.
Qed.

Lemma model_nodes_no_nsdecl d el written :
  Forall (fun n => is_nsdecl (mn_name n) = false) (m_attributes_nodes d el written).
Proof.
  unfold m_attributes_nodes. rewrite att_defs_merged. fold (defs_for d el).
  set (base := map (fun nl => {| mn_name := fst nl; mn_vals := snd nl; mn_from_dtd := false |})
                   (filter (fun nl => negb (m_namespace (fst nl))) written)).
  rewrite <- (app_nil_r base).
  rewrite (m_defaults_flat (defs_for d el) base [] (defs_for_nodup d el)) by (intros e []).
  cbn [app]. apply Forall_forall. intros n Hn. apply in_app_or in Hn as [Hn|Hn].
  - unfold base in Hn. apply in_map_iff in Hn as (nl & <- & Hnl). apply filter_In in Hnl as [_ Hnl]. cbn [mn_name].
    rewrite namespace_is_nsdecl in Hnl. destruct (is_nsdecl (fst nl)); [discriminate|reflexivity].
  - apply in_flat_map in Hn as (x & _ & Hn). unfold mrow in Hn. rewrite namespace_is_nsdecl in Hn.
    destruct (is_nsdecl (ad_name x)) eqn:E; [destruct Hn|].
    match type of Hn with context [if ?c then _ else _] => destruct c end; [destruct Hn|].
    destruct (ad_default x); [destruct Hn|destruct Hn as [<-|[]]; exact E|destruct Hn as [<-|[]]; exact E].
Qed.

Theorem model_attrs_no_nsdecl_proof : forall d el written l,
  model_attrs d el written = Ok l -> Forall (fun a => is_nsdecl (ma_name a) = false) l.
Proof.
  intros d el written l. unfold model_attrs. destruct (_ && _); [|discriminate]. intros H. injection H as <-.
  apply Forall_forall. intros a Ha. apply in_map_iff in Ha as (n & <- & Hn). cbn [m_observe ma_name].
  pose proof (model_nodes_no_nsdecl d el written) as F. rewrite Forall_forall in F. exact (F n Hn).
Qed.

Theorem no_nsdecl_among_attributes : forall d el written,
  (forall l, spec_attrs d el written = Ok l -> Forall (fun i => is_nsdecl (ai_name i) = false) l) /\
  (forall l, model_attrs d el written = Ok l -> Forall (fun a => is_nsdecl (ma_name a) = false) l).
Proof.
  intros d el written. split; [apply spec_attrs_no_nsdecl_proof|apply model_attrs_no_nsdecl_proof].
Qed.

(** the hypotheses of [attribute_set_refines] are satisfiable by a document whose DTD supplies namespace
    declarations by default: [xmlns:p] (value), [xmlns] (#FIXED) and [xmlns:q] (#REQUIRED, not written) next to an
    ordinary default; the written [xmlns:p] wins in the namespace machinery (C10) and is no attribute here *)
Definition n_xmlns_p : name := [120;109;108;110;115;58;112].
Definition n_xmlns_q : name := [120;109;108;110;115;58;113].
Definition dtd_nsdef : dtd_doc :=
  [ DAttlist n_e [ {| ad_name := n_xmlns_p; ad_type := TCdata; ad_default := Default false [Text [117]] |};
                   {| ad_name := n_xmlns; ad_type := TCdata; ad_default := Default true [Text [118]] |};
                   {| ad_name := n_a; ad_type := TCdata; ad_default := Default false [Text [49]] |};
                   {| ad_name := n_xmlns_q; ad_type := TCdata; ad_default := Implied |} ] ].
Definition written_nsdef : list (name * list piece) := [ (n_xmlns_p, [Text [119]]); (n_b, [Text [50]]) ].

Example nsdef_known36 : Known36 dtd_nsdef n_e written_nsdef = false.
Proof. vm_compute. reflexivity. Qed.
Example nsdef_has_ns_defs : ~ no_ns_defs dtd_nsdef n_e.
Proof.
  intros H. specialize (H {| ad_name := n_xmlns; ad_type := TCdata; ad_default := Default true [Text [118]] |}).
  assert (Hin : In {| ad_name := n_xmlns; ad_type := TCdata; ad_default := Default true [Text [118]] |} (defs_for dtd_nsdef n_e))
    by (vm_compute; right; left; reflexivity).
  specialize (H Hin). vm_compute in H. discriminate.
Qed.
Example nsdef_attrs :
  spec_attrs dtd_nsdef n_e written_nsdef =
  Ok [ {| ai_name := n_b; ai_value := Ok [50]; ai_specified := true; ai_type := None |};
       {| ai_name := n_a; ai_value := Ok [49]; ai_specified := false; ai_type := Some TCdata |} ]
  /\ model_attrs dtd_nsdef n_e written_nsdef = map_ares (map of_item) (spec_attrs dtd_nsdef n_e written_nsdef).
Proof. split; vm_compute; reflexivity. Qed.
