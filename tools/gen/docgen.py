"""Structured generator of XML documents for the `parse` domain (C03, C04 and the model tie).

Abstract-first: a document is drawn as a tree with a DTD, then rendered with random surface
choices (quote characters, white space inside tags, empty-element tag or pair, character
reference spellings).  Most documents are accepted by xml-rs; with small probabilities a
document uses a construct the library refuses (undeclared entity, parameter entities, a
character reference to a non-character) so that the error paths of XmlDocument::new are
exercised too.  `features` lists what a document contains (for the evidence histogram and the
distinct non-trivial count).  Every random choice comes from the `random.Random` passed in.

Hostile families (deep nesting, nested content-model groups, entity cycles / fan-out, very many
attributes) are at the end; they are run one process per case."""

NAME_START = 'abcxyzABZ_' + 'éあⰀ\U00010000'
NAME_REST = NAME_START + '0189.-' + '·̀‿'
TEXT_CHARS = 'abc xyz 019\t\n.,;:!?()[]{}>\'"=/*+-_#%@^~|' + 'éあ퟿�\U00010000\U0010ffff\u0085 '
WS = [' ', ' ', ' ', '\t', '\n', '\r', '  ', ' \n ']

PREDEF = ['lt', 'gt', 'amp', 'apos', 'quot']


class DocGen:
    def __init__(self, rng):
        self.r = rng
        self.features = set()

    # ------------------------------------------------------------------ lexical
    def f(self, x):
        self.features.add(x)

    def name(self, colon=False):
        r = self.r
        n = r.choice(NAME_START) + ''.join(r.choice(NAME_REST) for _ in range(r.choice([0, 0, 1, 2, 3, 6])))
        if n.lower().startswith('xml'):
            n = 'n' + n
        if any(ord(c) > 127 for c in n):
            self.f('name:nonascii')
        return n

    def qname(self):
        if self.r.random() < 0.25:
            self.f('name:prefixed')
            return self.name() + ':' + self.name()
        return self.name()

    def ws(self, opt=False):
        if opt and self.r.random() < 0.6:
            return ''
        w = self.r.choice(WS)
        if w != ' ':
            self.f('ws:varied')
        return w

    def text(self, forbid, maxlen=8):
        r = self.r
        n = r.choice([1, 1, 2, 3, maxlen])
        out = []
        for _ in range(n):
            c = r.choice(TEXT_CHARS)
            if c in forbid:
                c = 'x'
            out.append(c)
        s = ''.join(out)
        return s

    def charref(self):
        r = self.r
        cp = r.choice([0x20, 0x41, 0x3c, 0x26, 0x22, 0x27, 0x9, 0xa, 0xd, 0xe9, 0x3042, 0x10000, 0x10ffff, 0xfffd, 0xd7ff, 0x85])
        if r.random() < 0.04:
            cp = r.choice([0x0, 0x1, 0x8, 0xb, 0x1f, 0xfffe, 0xffff, 0xd800, 0xdfff, 0x110000, 0xffffffff, 0x100000000, 99999999999])
            self.f('charref:nonchar')
        self.f('charref')
        if r.random() < 0.5:
            return '&#%s%d;' % ('0' * r.choice([0, 0, 0, 1, 3]), cp)
        h = '%x' % cp
        if r.random() < 0.5:
            h = h.upper()
        return '&#x%s%s;' % ('0' * r.choice([0, 0, 1, 2]), h)

    def entref(self, declared, allow_undeclared=True):
        r = self.r
        x = r.random()
        if declared and x < 0.45:
            self.f('entref:declared')
            return '&%s;' % r.choice(declared)
        if allow_undeclared and x > 0.985:
            self.f('entref:undeclared')
            return '&%s;' % self.name()
        self.f('entref:predefined')
        return '&%s;' % r.choice(PREDEF)

    def att_value(self, declared, allow_undeclared=True):
        r = self.r
        q = r.choice('"\'')
        pieces = []
        for _ in range(r.choice([0, 1, 1, 2, 3, 5])):
            x = r.random()
            if x < 0.6:
                pieces.append(self.text('<&' + q))
            elif x < 0.8:
                pieces.append(self.charref())
            else:
                pieces.append(self.entref(declared, allow_undeclared))
        v = ''.join(pieces)
        if ("'" if q == '"' else '"') in v:
            self.f('attvalue:other-quote-inside')
        self.f('attvalue:' + ('dq' if q == '"' else 'sq'))
        return q + v + q

    def comment(self):
        r = self.r
        body = ''.join(r.choice('ab -<>&\'"]?あ') for _ in range(r.choice([0, 1, 3, 6])))
        body = body.replace('--', '-x')
        if body.endswith('-'):
            body += 'y'
        self.f('comment' + (':empty' if not body else ''))
        return '<!--' + body + '-->'

    def pi(self):
        r = self.r
        t = self.name()
        if r.random() < 0.15:
            t = r.choice(['x', 'X', 'xm', 'xM', 'xmlx', 'XMLa', 'xml-stylesheet', 'x.m.l'])
            self.f('pi:xml-like-target')
        x = r.random()
        if x < 0.3:
            self.f('pi:nodata')
            return '<?' + t + '?>'
        if x < 0.4:
            self.f('pi:emptydata')
            return '<?' + t + self.ws() + '?>'
        data = ''.join(r.choice('ab =\'"<>&?-]あ ') for _ in range(r.choice([1, 2, 5, 9])))
        data = data.replace('?>', '?x').lstrip(' ')
        if data.startswith('?'):
            self.f('pi:data-starts-with-?')
        self.f('pi:data')
        return '<?' + t + self.ws() + data + '?>'

    def cdata(self):
        r = self.r
        body = ''.join(r.choice('ab <>&]]>\'"あ') for _ in range(r.choice([0, 1, 3, 7])))
        body = body.replace(']]>', ']]x')
        self.f('cdata' + (':empty' if not body else ''))
        return '<![CDATA[' + body + ']]>'

    # ------------------------------------------------------------------ element tree
    def attributes(self, declared):
        r = self.r
        out = ''
        n = r.choice([0, 0, 1, 1, 2, 4])
        used = set()
        for _ in range(n):
            x = r.random()
            if x < 0.1:
                nm = 'xmlns'
                self.f('attr:xmlns')
            elif x < 0.25:
                nm = 'xmlns:' + self.name()
                self.f('attr:xmlns-prefix')
            elif x < 0.31:
                nm = r.choice(['xmlnsx', 'xmlns.a', 'xmlns-', 'p:xmlns', 'xmlnsx:a', 'xml', 'xmln', 'xmlns_:xmlns'])
                self.f('attr:xmlns-like-name')
            else:
                nm = self.qname()
            if nm in used and r.random() < 0.9:
                continue
            if nm in used:
                self.f('attr:duplicate')
            used.add(nm)
            out += self.ws() + nm + self.ws(True) + '=' + self.ws(True) + self.att_value(declared)
        if n:
            self.f('attr')
        return out

    def element(self, depth, declared, name=None):
        r = self.r
        nm = name or self.qname()
        head = '<' + nm + self.attributes(declared)
        if r.random() < (0.35 if depth else 0.1):
            self.f('element:empty-tag')
            return head + self.ws(True) + '/>'
        body = ''
        n = 0 if depth >= 5 else r.choice([0, 1, 1, 2, 3, 5])
        if n == 0:
            self.f('element:empty-pair')
        for _ in range(n):
            x = r.random()
            if x < 0.30:
                body += self.element(depth + 1, declared)
                self.f('child:element')
            elif x < 0.55:
                t = self.text('<&').replace(']]>', ']]x')
                body += t
                self.f('child:text')
                if ']]' in t or '>' in t:
                    self.f('text:bracket-or-gt')
            elif x < 0.65:
                body += self.cdata()
            elif x < 0.75:
                body += self.comment()
            elif x < 0.85:
                body += self.pi()
            elif x < 0.93:
                body += self.charref()
            else:
                body += self.entref(declared)
        end = nm
        if r.random() < 0.01:
            end = self.qname()
            self.f('element:mismatched-end-tag')
        return head + self.ws(True) + '>' + body + '</' + end + self.ws(True) + '>'

    # ------------------------------------------------------------------ DTD
    def literal(self, chars, forbid=''):
        r = self.r
        q = r.choice('"\'')
        body = ''.join(c for c in (r.choice(chars) for _ in range(r.choice([0, 1, 3, 6]))) if c != q and c not in forbid)
        return q + body + q

    def external_id(self):
        r = self.r
        if r.random() < 0.5:
            self.f('extid:system')
            return 'SYSTEM' + self.ws() + self.literal('ab/.:\'"<>&あ ')
        self.f('extid:public')
        return 'PUBLIC' + self.ws() + self.literal("ab -'()+,./:=?;!*#@$_%\n") + self.ws() + self.literal('ab/.:\'"<&')

    def cp(self, depth):
        r = self.r
        q = r.choice(['', '', '?', '*', '+'])
        if depth >= 3 or r.random() < 0.55:
            return self.qname() + q
        sep = r.choice([',', '|'])
        n = r.choice([1, 2, 3]) if sep == ',' else r.choice([2, 3])
        self.f('contentmodel:group-depth-%d' % (depth + 1))
        return '(' + self.ws(True) + (self.ws(True) + sep + self.ws(True)).join(self.cp(depth + 1) for _ in range(n)) + self.ws(True) + ')' + q

    def element_decl(self):
        r = self.r
        x = r.random()
        if x < 0.2:
            spec = 'EMPTY'
        elif x < 0.35:
            spec = 'ANY'
        elif x < 0.5:
            spec = '(' + self.ws(True) + '#PCDATA' + self.ws(True) + ')'
        elif x < 0.7:
            spec = '(' + self.ws(True) + '#PCDATA' + ''.join(self.ws(True) + '|' + self.ws(True) + self.qname() for _ in range(r.choice([0, 1, 2]))) + self.ws(True) + ')*'
        else:
            sep = r.choice([',', '|'])
            n = r.choice([1, 2, 3]) if sep == ',' else r.choice([2, 3])
            spec = '(' + self.ws(True) + (self.ws(True) + sep + self.ws(True)).join(self.cp(1) for _ in range(n)) + self.ws(True) + ')' + r.choice(['', '?', '*', '+'])
        self.f('dtd:element')
        return '<!ELEMENT' + self.ws() + self.qname() + self.ws() + spec + self.ws(True) + '>'

    def attlist_decl(self, elem_names, notations, declared=()):
        r = self.r
        out = '<!ATTLIST' + self.ws() + (r.choice(elem_names) if elem_names and r.random() < 0.7 else self.qname())
        for _ in range(r.choice([0, 1, 1, 2, 3])):
            x = r.random()
            if x < 0.1:
                nm = 'xmlns:' + self.name()
            elif x < 0.15:
                nm = 'xmlns'
            else:
                nm = self.qname()
            ty = r.choice(['CDATA', 'ID', 'IDREF', 'IDREFS', 'ENTITY', 'ENTITIES', 'NMTOKEN', 'NMTOKENS', 'enum', 'enum', 'notation'])
            if ty == 'enum':
                toks = [''.join(r.choice(NAME_REST) for _ in range(r.choice([1, 2, 4]))) for _ in range(r.choice([1, 2, 3]))]
                ty = '(' + self.ws(True) + (self.ws(True) + '|' + self.ws(True)).join(toks) + self.ws(True) + ')'
                self.f('attlist:enumeration')
            elif ty == 'notation':
                toks = [r.choice(notations) if notations and r.random() < 0.7 else self.name() for _ in range(r.choice([1, 2]))]
                ty = 'NOTATION' + self.ws() + '(' + self.ws(True) + (self.ws(True) + '|' + self.ws(True)).join(toks) + self.ws(True) + ')'
                self.f('attlist:notation-type')
            else:
                self.f('attlist:' + ty)
            d = r.choice(['#REQUIRED', '#IMPLIED', 'value', 'value', 'fixed'])
            if d == 'value':
                d = self.att_value(list(declared), allow_undeclared=False)
                self.f('attlist:default-value')
            elif d == 'fixed':
                d = '#FIXED' + self.ws() + self.att_value(list(declared), allow_undeclared=False)
                self.f('attlist:fixed')
            else:
                self.f('attlist:' + d)
            out += self.ws() + nm + self.ws() + ty + self.ws() + d
        self.f('dtd:attlist')
        return out + self.ws(True) + '>'

    def entity_decl(self, declared, notations, allow_cycle):
        r = self.r
        nm = self.name()
        x = r.random()
        if x < 0.55:
            q = r.choice('"\'')
            pieces = []
            for _ in range(r.choice([0, 1, 1, 2, 4])):
                y = r.random()
                if y < 0.55:
                    pieces.append(self.text('%&' + q))
                elif y < 0.7:
                    pieces.append(self.charref())
                elif y < 0.97:
                    if declared and r.random() < 0.7:
                        pieces.append('&%s;' % r.choice(declared))
                        self.f('entity:refers-to-entity')
                    elif allow_cycle and r.random() < 0.3:
                        pieces.append('&%s;' % nm)
                        self.f('entity:self-reference')
                    else:
                        pieces.append('&%s;' % r.choice(PREDEF))
                else:
                    pieces.append('%' + self.name() + ';')
                    self.f('entity:pe-reference-in-value')
            v = ''.join(pieces)
            if '<' in v:
                self.f('entity:markup-in-value')
            self.f('dtd:entity-internal')
            return nm, '<!ENTITY' + self.ws() + nm + self.ws() + q + v + q + self.ws(True) + '>'
        if x < 0.8:
            self.f('dtd:entity-external')
            return nm, '<!ENTITY' + self.ws() + nm + self.ws() + self.external_id() + self.ws(True) + '>'
        self.f('dtd:entity-unparsed')
        nd = r.choice(notations) if notations and r.random() < 0.7 else self.name()
        return nm, '<!ENTITY' + self.ws() + nm + self.ws() + self.external_id() + self.ws() + 'NDATA' + self.ws() + nd + self.ws(True) + '>'

    def notation_decl(self):
        r = self.r
        nm = self.name()
        if r.random() < 0.6:
            ident = self.external_id()
        else:
            ident = 'PUBLIC' + self.ws() + self.literal("ab -'()+,./:=?;!*#@$_%")
            self.f('notation:public-only')
        self.f('dtd:notation')
        return nm, '<!NOTATION' + self.ws() + nm + self.ws() + ident + self.ws(True) + '>'

    def doctype(self, root):
        """returns (text, declared internal/external general entity names)"""
        r = self.r
        nm = root if r.random() < 0.8 else self.qname()
        out = '<!DOCTYPE' + self.ws() + nm
        if r.random() < 0.3:
            out += self.ws() + self.external_id()
            self.f('doctype:external-id')
        declared, notations, elems = [], [], [root]
        if r.random() < 0.85:
            body = ''
            allow_cycle = r.random() < 0.05
            for _ in range(r.choice([0, 1, 2, 3, 5, 8])):
                x = r.random()
                if x < 0.25:
                    n, t = self.entity_decl(declared, notations, allow_cycle)
                    declared.append(n)
                    body += t
                elif x < 0.45:
                    body += self.attlist_decl(elems, notations, declared)
                elif x < 0.6:
                    body += self.element_decl()
                elif x < 0.72:
                    n, t = self.notation_decl()
                    if r.random() < 0.1 and notations:
                        t = t.replace(n, notations[0], 1)
                        self.f('notation:duplicate-name')
                        n = notations[0]
                    notations.append(n)
                    body += t
                elif x < 0.8:
                    body += self.pi()
                    self.f('dtd:pi')
                elif x < 0.88:
                    body += self.comment()
                    self.f('dtd:comment')
                elif x < 0.97:
                    body += self.ws()
                elif x < 0.985:
                    body += '<!ENTITY' + self.ws() + '%' + self.ws() + self.name() + self.ws() + '"' + self.text('%&"') + '"' + self.ws(True) + '>'
                    self.f('dtd:pe-declaration')
                else:
                    body += '%' + self.name() + ';'
                    self.f('dtd:pe-reference')
            out += self.ws(True) + '[' + body + ']'
            self.f('doctype:internal-subset' + ('' if body else ':empty'))
        self.f('doctype')
        return out + self.ws(True) + '>', declared

    def xmldecl(self):
        r = self.r
        q = lambda s: r.choice(['"%s"', "'%s'"]) % s
        eq = lambda: self.ws(True) + '=' + self.ws(True)
        out = '<?xml' + self.ws() + 'version' + eq() + q(r.choice(['1.0', '1.0', '1.1', '1.23', '1.0000']))
        if r.random() < 0.5:
            out += self.ws() + 'encoding' + eq() + q(r.choice(['UTF-8', 'utf-8', 'ISO-8859-1', 'x', 'a.b_c-9']))
            self.f('xmldecl:encoding')
        if r.random() < 0.4:
            out += self.ws() + 'standalone' + eq() + q(r.choice(['yes', 'no']))
            self.f('xmldecl:standalone')
        self.f('xmldecl')
        return out + self.ws(True) + '?>'

    def miscs(self):
        r = self.r
        out = ''
        for _ in range(r.choice([0, 0, 1, 2, 3])):
            x = r.random()
            if x < 0.4:
                out += self.ws()
            elif x < 0.7:
                out += self.comment()
                self.f('misc:comment')
            else:
                out += self.pi()
                self.f('misc:pi')
        return out

    def document(self):
        """-> (text, sorted feature list)"""
        r = self.r
        self.features = set()
        out = ''
        if r.random() < 0.4:
            out += self.xmldecl()
        out += self.miscs()
        root = self.qname()
        declared = []
        if r.random() < 0.55:
            t, declared = self.doctype(root)
            out += t + self.miscs()
        out += self.element(0, declared, root)
        out += self.miscs()
        if r.random() < 0.02:
            out += r.choice(['x', '<b/>', '&amp;', '<', ']]>'])
            self.f('trailing-garbage')
        return out, sorted(self.features)


# ---------------------------------------------------------------------- hostile families
def nesting(n):
    return '<a>' * n + '</a>' * n

def nested_groups(depth, sep='|'):
    """<!ELEMENT a ((((a|b)|b)|b)|b)>  -- choice groups nested `depth` deep"""
    return '<!DOCTYPE a [<!ELEMENT a ' + '(' * depth + 'a' + sep + 'b' + (')' + sep + 'b') * (depth - 1) + ')>]><a/>'

def entity_cycle(k, use='attr'):
    """k entities referring to each other in a ring, then used"""
    decls = ''.join('<!ENTITY e%d "x&e%d;">' % (i, (i + 1) % k) for i in range(k))
    if use == 'attr':
        return '<!DOCTYPE a [%s]><a x="&e0;"/>' % decls
    return '<!DOCTYPE a [%s]><a>&e0;</a>' % decls

def entity_fanout(depth, width=2):
    decls = '<!ENTITY e0 "x">' + ''.join('<!ENTITY e%d "%s">' % (i, ('&e%d;' % (i - 1)) * width) for i in range(1, depth + 1))
    return '<!DOCTYPE a [%s]><a x="&e%d;"/>' % (decls, depth)

def many_attributes(n):
    return '<a ' + ' '.join('a%d="%d"' % (i, i) for i in range(n)) + '/>'

def many_children(n):
    return '<a>' + '<b/>x' * n + '</a>'

def long_text(n):
    return '<a>' + 'x' * n + '</a>'

def many_decls(n):
    return '<!DOCTYPE a [' + ''.join('<!ENTITY e%d "v%d"><!ATTLIST a x%d CDATA #IMPLIED>' % (i, i, i) for i in range(n)) + ']><a/>'

def unclosed(n):
    return '<a>' * n

def many_comments(n):
    return '<a>' + '<!--c-->' * n + '</a>'
