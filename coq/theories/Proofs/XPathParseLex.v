(** * The lexical productions of the XPath grammar on spelled tokens (C08).

    For each token of Spec/XPathSyntax.v ([qname_text q], [spell_lit], a number, white space,
    an axis name, a node type) followed by a continuation [k] that cannot extend the token:
    the production of the REGENERATED grammar [G_xpath] consumes exactly the token, and the
    parse tree it returns is interpreted by [ParseActionsXPath.act] as the expected value.
    Every proof goes through the per-production lemmas of Proofs/XPathParseProds.v. *)
From Coq Require Import List NArith Arith Lia Bool.
From XmlRs Require Import Base.CPred Spec.XmlChars Spec.XPathSyntax Model.Peg Model.XPathAst
  Model.ParseActionsXPath Model.XPathAstAbs Gen.XmlcharGen Gen.GrammarXPathGen
  Proofs.XmlcharProofs Proofs.PegTermination Proofs.XPathParseBase Proofs.XPathParseProds.
Import ListNotations.
Local Open Scope N_scope.

Notation P := (parses G_xpath).
Notation F := (fails G_xpath).

(** ** white space *)
Lemma P_ws (g k : str) : forallb is_ws g = true -> stops is_ws k -> P WS (g ++ k) (TStr g) k.
Proof. intros Hg Hk. apply parses_chars0_app; assumption. Qed.

Lemma P_ws_nil (k : str) : stops is_ws k -> P WS k (TStr []) k.
Proof. intros Hk. apply (P_ws [] k eq_refl Hk). Qed.

(** leading white space of a continuation *)
Definition lead_ws (k : str) : str := fst (span is_ws k).
Definition drop_ws (k : str) : str := snd (span is_ws k).

Lemma lead_drop k : k = lead_ws k ++ drop_ws k.
Proof. apply span_eq. Qed.

Lemma P_ws_any k : P WS k (TStr (lead_ws k)) (drop_ws k).
Proof. apply (parses_chars0 G_xpath (InR [(32,32);(9,9);(13,13);(10,10)]) k). Qed.

Lemma drop_ws_stops k : stops is_ws (drop_ws k).
Proof. apply span_snd_stops. Qed.

Lemma drop_ws_app (g k : str) : forallb is_ws g = true -> drop_ws (g ++ k) = drop_ws k.
Proof.
  intros Hg. unfold drop_ws. induction g as [|c g IH]; [reflexivity|].
  cbn [forallb] in Hg. apply andb_true_iff in Hg. destruct Hg as [Hc Hg].
  cbn [app span]. rewrite Hc. specialize (IH Hg). destruct (span is_ws (g ++ k)). exact IH.
Qed.

Lemma drop_ws_stop k : stops is_ws k -> drop_ws k = k.
Proof. intros H. unfold drop_ws. now rewrite (span_stop _ _ H). Qed.

(** ** NCName *)
Definition P1 (c : N) : bool := eval spec_NameStartChar c && negb (c =? 58).

Lemma eval_p1 c : eval (is_name_start_char_except [58]) c = P1 c.
Proof. rewrite is_name_start_char_except_equiv. unfold P1. cbn [existsb]. now rewrite orb_false_r. Qed.

Lemma eval_p0 c : eval (is_name_char_except [58]) c = ncname_char c.
Proof. rewrite is_name_char_except_equiv. unfold ncname_char, colon. cbn [existsb]. now rewrite orb_false_r. Qed.

Lemma P1_nc c : P1 c = true -> ncname_char c = true.
Proof.
  unfold P1, ncname_char, colon. intros H. apply andb_true_iff in H. destruct H as [H ->].
  unfold spec_NameChar. cbn [eval]. now rewrite H.
Qed.

Lemma ncname_split n : is_NCName n = true ->
  exists x t, n = x :: t /\ P1 x = true /\ forallb ncname_char t = true.
Proof.
  unfold is_NCName. destruct n as [|x t]; cbn [is_Name]; [discriminate|].
  intros H. apply andb_true_iff in H. destruct H as [H1 H2].
  apply andb_true_iff in H1. destruct H1 as [Hx Ht].
  apply negb_true_iff in H2. cbn [existsb] in H2. apply orb_false_iff in H2. destruct H2 as [Hxc Htc].
  exists x, t. split; [reflexivity|]. split.
  - unfold P1. rewrite Hx. unfold colon in Hxc. rewrite N.eqb_sym, Hxc. reflexivity.
  - clear Hx Hxc. induction t as [|y t IH]; [reflexivity|].
    cbn [forallb existsb] in *. apply andb_true_iff in Ht. destruct Ht as [Hy Ht].
    apply orb_false_iff in Htc. destruct Htc as [Hyc Htc].
    unfold ncname_char at 1. rewrite Hy, N.eqb_sym, Hyc. cbn [negb andb]. apply IH; assumption.
Qed.

Lemma ncname_all n : is_NCName n = true -> forallb ncname_char n = true.
Proof.
  intros H. destruct (ncname_split n H) as (x & t & -> & Hx & Ht). cbn [forallb].
  now rewrite (P1_nc _ Hx), Ht.
Qed.

Lemma P_ncname (n k : str) : is_NCName n = true -> stops ncname_char k ->
  P (NT nt_ncname) (n ++ k) (TStr n) k.
Proof.
  intros Hn Hk. pose proof (ncname_all n Hn) as Hall.
  destruct (ncname_split n Hn) as (x & t & -> & Hx & Ht).
  apply parses_nt. rewrite prod_ncname. unfold xc_name_start_char_except1, xc_name_char_except0.
  set (s := (x :: t) ++ k) in *.
  set (p1 := is_name_start_char_except [58]). set (p0 := is_name_char_except [58]).
  assert (Hne : fst (span (eval p1) s) <> []).
  { unfold s. cbn [app span]. unfold p1. rewrite eval_p1, Hx. destruct (span _ (t ++ k)). discriminate. }
  pose proof (parses_chars1 G_xpath p1 s Hne) as H1.
  pose proof (parses_chars0 G_xpath p0 (snd (span (eval p1) s))) as H0.
  pose proof (parses_recognize G_xpath _ _ _ _ (parses_seq G_xpath _ _ _ _ _ _ _ H1 H0)) as HR.
  assert (Hsub : forall c, eval p1 c = true -> eval p0 c = true).
  { intros c. unfold p1, p0. rewrite eval_p1, eval_p0. apply P1_nc. }
  pose proof (span_sub (eval p1) (eval p0) Hsub s) as E.
  assert (E2 : span (eval p0) s = (x :: t, k)).
  { unfold s. rewrite (span_ext _ ncname_char _ eval_p0). apply span_app; assumption. }
  rewrite E2 in E. remember (snd (span (eval p0) (snd (span (eval p1) s)))) as d eqn:Hd.
  assert (Ed : d = k) by (apply (f_equal snd) in E; cbn [snd] in E; symmetry; exact E).
  rewrite Ed in HR. unfold s in HR at 2. rewrite consumed_app in HR. exact HR.
Qed.

Lemma F_ncname (k : str) : stops P1 k -> F (NT nt_ncname) k.
Proof.
  intros Hk. apply fails_nt. rewrite prod_ncname. apply fails_recognize.
  apply fails_seq_1. unfold xc_name_start_char_except1. apply fails_chars1.
  destruct k as [|c k]; [exact I|]. cbn [stops] in *. now rewrite eval_p1.
Qed.

(** ** QName *)
Definition name_stop (k : str) : Prop := stops (eval spec_NameChar) k.

Lemma name_stop_nc k : name_stop k -> stops ncname_char k.
Proof. destruct k as [|c k]; [trivial|]. unfold name_stop, ncname_char. cbn [stops]. now intros ->. Qed.

Lemma name_stop_p1 k : name_stop k -> stops P1 k.
Proof.
  destruct k as [|c k]; [trivial|]. unfold name_stop, P1. cbn [stops]. intros H.
  unfold spec_NameChar in H. cbn [eval] in H. apply orb_false_iff in H. destruct H as [H _].
  cbn [eval]. now rewrite H.
Qed.

Lemma name_stop_colon k : name_stop k -> prefix [58] k = None.
Proof.
  destruct k as [|c k]; [reflexivity|]. unfold name_stop. cbn [stops prefix]. intros H.
  destruct (N.eqb_spec 58 c) as [<-|]; [|reflexivity]. vm_compute in H. discriminate.
Qed.

Definition mq (q : xqname) : qname :=
  match q with QN None l => QUnprefixed l | QN (Some p) l => QPrefixed p l end.

Lemma abs_mq q : abs_qname (mq q) = q.
Proof. destruct q as [[p|] l]; reflexivity. Qed.

Definition qname_tree (q : xqname) : tree :=
  match q with
  | QN None l => TMap L_model_QName_from (TStr l)
  | QN (Some p) l => TMap L_model_QName_from (TMap L_model_PrefixedName_from (TPair (TStr p) (TStr l)))
  end.

Lemma act_qname_tree q : act (qname_tree q) = VQName (mq q).
Proof. destruct q as [[p|] l]; reflexivity. Qed.

Lemma colon_stops_nc (k : str) : stops ncname_char (58 :: k).
Proof. reflexivity. Qed.

Lemma P_qname (q : xqname) (k : str) : wf_qname q = true -> name_stop k ->
  P (NT nt_qname) (qname_text q ++ k) (qname_tree q) k.
Proof.
  intros Hq Hk. apply parses_nt. rewrite prod_qname. destruct q as [[p|] l]; cbn [wf_qname qname_text qname_tree] in *.
  - apply andb_true_iff in Hq. destruct Hq as [Hp Hl].
    apply parses_alt_l, parses_map, parses_nt. rewrite prod_prefixed_name. apply parses_map.
    rewrite <- !app_assoc. eapply parses_seq.
    + apply P_ncname; [exact Hp|]. apply colon_stops_nc.
    + eapply parses_seqr; [apply (parses_tag_app G_xpath [58])|].
      apply P_ncname; [exact Hl|]. apply name_stop_nc, Hk.
  - apply parses_alt_r.
    + apply fails_map, fails_nt. rewrite prod_prefixed_name. apply fails_map.
      eapply fails_seq_2.
      * apply P_ncname; [exact Hq|]. apply name_stop_nc, Hk.
      * apply fails_seq_1, fails_tag, name_stop_colon, Hk.
    + apply parses_map. apply P_ncname; [exact Hq|]. apply name_stop_nc, Hk.
Qed.

Lemma F_qname (k : str) : stops P1 k -> F (NT nt_qname) k.
Proof.
  intros Hk. apply fails_nt. rewrite prod_qname. apply fails_alt.
  - apply fails_map, fails_nt. rewrite prod_prefixed_name. apply fails_map, fails_seq_1, F_ncname, Hk.
  - apply fails_map, F_ncname, Hk.
Qed.

(** ** VariableReference *)
Lemma P_variable (q : xqname) (k : str) : wf_qname q = true -> name_stop k ->
  P (NT nt_variable_reference) ([36] ++ qname_text q ++ k) (qname_tree q) k.
Proof.
  intros Hq Hk. apply parses_nt. rewrite prod_variable_reference.
  eapply parses_seqr; [apply (parses_tag_app G_xpath [36])|]. apply P_qname; assumption.
Qed.

Lemma F_variable (k : str) : prefix [36] k = None -> F (NT nt_variable_reference) k.
Proof. intros H. apply fails_nt. rewrite prod_variable_reference. apply fails_seq_1, fails_tag, H. Qed.

(** ** Literal *)
Lemma mem_false_forallb q (s : str) : mem q s = false -> forallb (fun c => negb (c =? q)) s = true.
Proof.
  induction s as [|c s IH]; [reflexivity|]. cbn [mem forallb]. intros H.
  apply orb_false_iff in H. destruct H as [-> H]. cbn. apply IH, H.
Qed.

Lemma quote_of_cases fl s : wf_lit s = true ->
  (quote_of fl s = 34 \/ quote_of fl s = 39) /\ mem (quote_of fl s) s = false.
Proof.
  unfold wf_lit, quote_of. intros H. apply negb_true_iff, andb_false_iff in H.
  destruct fl; cbn [andb].
  - destruct (mem 39 s) eqn:E39; cbn [negb].
    + destruct H as [H|H]; [|discriminate]. rewrite H. auto.
    + auto.
  - destruct (mem 34 s) eqn:E34.
    + destruct H as [H|H]; [discriminate|]. auto.
    + auto.
Qed.

Lemma P_quoted q (s k : str) : mem q s = false ->
  P (SeqR (Tag [q]) (SeqL (Chars0 (Not (InR [(q, q)]))) (Tag [q]))) (q :: s ++ [q] ++ k) (TStr s) k.
Proof.
  intros Hq. eapply parses_seqr; [apply (parses_tag_app G_xpath [q])|].
  eapply parses_seql; [|apply (parses_tag_app G_xpath [q])].
  apply parses_chars0_app.
  - apply mem_false_forallb in Hq. rewrite <- Hq. apply forallb_ext. intros c. cbn [eval existsb]; unfold in_range; cbn [fst snd].
    rewrite orb_false_r. f_equal. destruct (N.leb_spec q c), (N.ltb_spec c (q + 1)), (N.eqb_spec c q); cbn; try reflexivity; lia.
  - cbn [app stops eval existsb]; unfold in_range; cbn [fst snd]. rewrite orb_false_r.
    destruct (N.leb_spec q q), (N.ltb_spec q (q + 1)); cbn; try reflexivity; lia.
Qed.

Lemma P_literal fl (s k : str) : wf_lit s = true ->
  P (NT nt_literal) (spell_lit fl s ++ k) (TStr s) k.
Proof.
  intros Hs. apply parses_nt. rewrite prod_literal. unfold spell_lit.
  destruct (quote_of_cases fl s Hs) as [[E|E] Hm]; rewrite E in *.
  - apply parses_alt_l. cbn [app]. rewrite <- app_assoc. apply (P_quoted 34), Hm.
  - apply parses_alt_r.
    + apply fails_seq_1, fails_tag. reflexivity.
    + cbn [app]. rewrite <- app_assoc. apply (P_quoted 39), Hm.
Qed.

Lemma F_literal (k : str) : prefix [34] k = None -> prefix [39] k = None -> F (NT nt_literal) k.
Proof.
  intros H1 H2. apply fails_nt. rewrite prod_literal. apply fails_alt; apply fails_seq_1, fails_tag; assumption.
Qed.

(** ** Number *)
Definition DIG : cpred := InR [(48, 57)].

Lemma eval_dig c : eval DIG c = XPathSyntax.is_digit c.
Proof.
  unfold DIG; cbn [eval existsb]; unfold in_range; cbn [fst snd]. rewrite orb_false_r. unfold XPathSyntax.is_digit. f_equal.
  destruct (N.ltb_spec c (57 + 1)), (N.leb_spec c 57); try reflexivity; lia.
Qed.

Lemma take_while_span f s : take_while f s = span f s.
Proof.
  induction s as [|c s IH]; [reflexivity|]. cbn [take_while span]. destruct (f c); [|reflexivity]. now rewrite IH.
Qed.

(** what may follow a number: not a digit; not a dot when the number has none *)
Definition num_stop (s k : str) : Prop :=
  stops XPathSyntax.is_digit k /\ (mem 46 s = false -> prefix [46] k = None).

Lemma forallb_digit_nodot (s : str) : forallb XPathSyntax.is_digit s = true -> mem 46 s = false.
Proof.
  induction s as [|c s IH]; [reflexivity|]. cbn [forallb mem]. intros H. apply andb_true_iff in H.
  destruct H as [Hc H]. rewrite (IH H), orb_false_r. destruct (N.eqb_spec c 46) as [->|]; [discriminate|reflexivity].
Qed.

Lemma P_digits1 (d k : str) : d <> [] -> forallb XPathSyntax.is_digit d = true -> stops XPathSyntax.is_digit k ->
  P (Chars1 DIG) (d ++ k) (TStr d) k.
Proof.
  intros Hne Hd Hk. destruct d as [|x d]; [contradiction|].
  apply parses_chars1_app.
  - rewrite <- Hd. apply forallb_ext. intros c. apply eval_dig.
  - destruct k as [|c k]; [exact I|]. cbn [stops] in *. now rewrite eval_dig.
Qed.

Lemma P_digits0 (d k : str) : forallb XPathSyntax.is_digit d = true -> stops XPathSyntax.is_digit k ->
  P (Chars0 DIG) (d ++ k) (TStr d) k.
Proof.
  intros Hd Hk. apply parses_chars0_app.
  - rewrite <- Hd. apply forallb_ext. intros c. apply eval_dig.
  - destruct k as [|c k]; [exact I|]. cbn [stops] in *. now rewrite eval_dig.
Qed.

Lemma dot_stops_digit (k : str) : stops XPathSyntax.is_digit (46 :: k).
Proof. reflexivity. Qed.

Lemma P_number (s k : str) : is_number s = true -> num_stop s k ->
  P (NT nt_number) (s ++ k) (TStr s) k.
Proof.
  unfold is_number. rewrite take_while_span. intros Hs [Hk Hdot].
  pose proof (span_eq XPathSyntax.is_digit s) as Es. pose proof (span_fst_all XPathSyntax.is_digit s) as Hip.
  pose proof (span_snd_stops XPathSyntax.is_digit s) as Hstop.
  destruct (span XPathSyntax.is_digit s) as [ip r]. cbn [fst snd] in *.
  apply parses_nt. rewrite prod_number. fold DIG.
  destruct ip as [|x ip].
  - (* '.' Digits *)
    destruct r as [|c fp]; [discriminate|].
    apply andb_true_iff in Hs. destruct Hs as [Hs Hfp]. apply andb_true_iff in Hs. destruct Hs as [Hc Hne].
    apply N.eqb_eq in Hc. subst c.
    destruct fp as [|y fp]; [discriminate|]. cbn [app] in Es. subst s. rename Hfp into Hs.
    apply parses_alt_r.
    + apply fails_recognize, fails_seq_1, fails_chars1. reflexivity.
    + change ((46 :: y :: fp) ++ k) with ([46] ++ (y :: fp) ++ k).
      pose proof (parses_recognize G_xpath _ _ _ _
        (parses_seq G_xpath _ _ _ _ _ _ _ (parses_tag_app G_xpath [46] ((y :: fp) ++ k))
           (P_digits1 (y :: fp) k ltac:(discriminate) Hs Hk))) as HR.
      change ([46] ++ (y :: fp) ++ k) with ((46 :: y :: fp) ++ k) in HR.
      rewrite consumed_app in HR. exact HR.
  - apply parses_alt_l. destruct r as [|c fp].
    + (* Digits *)
      rewrite app_nil_r in Es. subst s.
      assert (Hnd : prefix [46] k = None) by (apply Hdot, forallb_digit_nodot, Hip).
      pose proof (parses_recognize G_xpath _ _ _ _
        (parses_seq G_xpath _ _ _ _ _ _ _ (P_digits1 (x :: ip) k ltac:(discriminate) Hip Hk)
           (parses_opt_none G_xpath _ _ (proj1 (fails_seq_1 G_xpath (Tag [46]) (Chars0 DIG) k (fails_tag G_xpath _ _ Hnd)))))) as HR.
      rewrite consumed_app in HR. exact HR.
    + (* Digits '.' Digits? *)
      apply andb_true_iff in Hs. destruct Hs as [Hc Hs]. apply N.eqb_eq in Hc. subst c.
      subst s. rewrite <- app_assoc.
      pose proof (parses_recognize G_xpath _ _ _ _
        (parses_seq G_xpath _ _ _ _ _ _ _ (P_digits1 (x :: ip) ((46 :: fp) ++ k) ltac:(discriminate) Hip (dot_stops_digit _))
           (parses_opt_some G_xpath _ _ _ _
              (parses_seq G_xpath _ _ _ _ _ _ _ (parses_tag_app G_xpath [46] (fp ++ k)) (P_digits0 fp k Hs Hk))))) as HR.
      change ([46] ++ fp ++ k) with ((46 :: fp) ++ k) in HR.
      rewrite app_assoc in HR. rewrite consumed_app in HR. rewrite <- app_assoc in HR. exact HR.
Qed.

Lemma F_number (k : str) : stops XPathSyntax.is_digit k ->
  (forall r, k = 46 :: r -> stops XPathSyntax.is_digit r) -> F (NT nt_number) k.
Proof.
  intros Hk Hd. apply fails_nt. rewrite prod_number. fold DIG.
  assert (Hk' : stops (eval DIG) k).
  { destruct k as [|c k]; [exact I|]. cbn [stops] in *. now rewrite eval_dig. }
  apply fails_alt.
  - apply fails_recognize, fails_seq_1, fails_chars1, Hk'.
  - apply fails_recognize. destruct (prefix [46] k) as [r|] eqn:E.
    + destruct k as [|c k]; [discriminate|]. cbn [prefix] in E.
      destruct (N.eqb_spec 46 c) as [<-|]; [|discriminate]. injection E as <-.
      eapply fails_seq_2; [apply (parses_tag_app G_xpath [46])|].
      apply fails_chars1. specialize (Hd k eq_refl).
      destruct k as [|c k]; [exact I|]. cbn [stops] in *. now rewrite eval_dig.
    + apply fails_seq_1, fails_tag, E.
Qed.
