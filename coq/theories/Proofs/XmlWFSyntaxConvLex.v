(** * The converse direction (used by C01, and showing that rung 2 of C02 is tight): what the grammar of
    Spec/XmlWF.v reads, the regenerated grammar of the real parser accepts, with the corresponding
    typed value.  Part 1: the lexical productions.

    The hypothesis is an equation on a function of Spec/XmlWF.v; the conclusion is a [yields] fact of
    Proofs/DisplayLex.v (for all sufficiently large fuel, [denote G_xml] consumes the same text and
    returns a tree whose interpretation is the stated value).  Where the production has a single
    surface form (references, comments, CDATA sections, attribute-value literals) the lemmas of the
    printer direction of C04 are reused after inverting the specification's function. *)
From Coq Require Import List NArith Arith Lia Bool.
From XmlRs Require Import Base.CPred Spec.XmlChars Model.Peg Gen.XmlcharGen Gen.GrammarXmlGen Model.ParseActions
     Proofs.XmlcharProofs Proofs.PegTermination Proofs.PegLemmas Proofs.PegInv
     Proofs.DisplayLex Proofs.ActionLemmas Proofs.ParseInv Proofs.XmlWFSyntaxLex.
From XmlRs Require Spec.XmlWF Proofs.NameLanguage Proofs.XmlWFLexical.
Import ListNotations.
Local Open Scope N_scope.

(** what a parse leaves is no longer than its input *)
Lemma P_length e (s : str) t (r : str) : nosep e = true -> P e s t r -> (length r <= length s)%nat.
Proof.
  intros He [f0 H]. specialize (H f0 (le_n _)). apply (den_S _ _ _ _ _ H) in He. apply succ_suffix in He. apply suffix_length. exact He.
Qed.

Lemma yields_length e (s : str) v (r : str) : nosep e = true -> yields e s v r -> (length r <= length s)%nat.
Proof. intros He [t [H _]]. eapply P_length; eassumption. Qed.

(** ** spans *)
Lemma Wspan_inv f (s a b : str) : W.span f s = (a, b) -> s = a ++ b /\ forallb f a = true /\ stops f b.
Proof.
  rewrite Wspan_same. intros E. destruct (span_decomp f s) as [a' [b' [E' [Hs [Ha Hb]]]]]. rewrite E in E'. injection E' as <- <-. auto.
Qed.

Lemma p_S_inv (s r : str) : W.p_S s = Some r -> exists a : str, a <> [] /\ forallb (eval ws) a = true /\ stops (eval ws) r /\ s = a ++ r.
Proof.
  unfold W.p_S. destruct (W.span W.isS s) as [a b] eqn:E. destruct (Wspan_inv _ _ _ _ E) as [-> [Ha Hb]].
  destruct a as [|c a]; [discriminate|]. intros H. injection H as <-. exists (c :: a). repeat split; try assumption. discriminate.
Qed.

Lemma skipS_inv (s : str) : exists a : str, forallb (eval ws) a = true /\ stops (eval ws) (W.skipS s) /\ s = a ++ W.skipS s.
Proof.
  unfold W.skipS. destruct (W.span W.isS s) as [a b] eqn:E. destruct (Wspan_inv _ _ _ _ E) as [-> [Ha Hb]]. exists a. cbn [snd]. auto.
Qed.

Lemma conv_ws1 (s r : str) : W.p_S s = Some r -> exists a, P (Chars1 ws) s (TStr a) r.
Proof. intros H. destruct (p_S_inv _ _ H) as [a [Hn [Ha [Hr ->]]]]. exists a. apply parses_chars1; assumption. Qed.

Lemma conv_ws0 (s : str) : exists a, P (Chars0 ws) s (TStr a) (W.skipS s).
Proof. destruct (skipS_inv s) as [a [Ha [Hr E]]]. exists a. rewrite E at 1. apply parses_chars0; assumption. Qed.

(** ** [25] Eq *)
Lemma conv_eq (s r : str) : W.p_Eq s = Some r -> exists t, P (NT nt_eq) s t r.
Proof.
  unfold W.p_Eq. intros H. destruct (conv_ws0 s) as [a Ha]. destruct (W.skipS s) as [|c t]; [discriminate|].
  destruct (N.eqb_spec c W.c_eq) as [->|]; [|discriminate]. injection H as <-. destruct (conv_ws0 t) as [b Hb].
  eexists. apply parses_nt. rewrite body_eq. eapply parses_seqr; [exact Ha|]. eapply parses_seql; [apply (parses_tag G_xml [61] t)|exact Hb].
Qed.

(** ** [5] Name, [7] QName *)
Lemma p_Name_inv (s n r : str) : W.p_Name s = Some (n, r) -> s = n ++ r /\ is_Name n = true /\ stops (eval is_name_char) r.
Proof.
  unfold W.p_Name. destruct s as [|c t]; [discriminate|]. destruct (eval spec_NameStartChar c) eqn:Ec; [|discriminate].
  destruct (W.span (eval spec_NameChar) t) as [a b] eqn:E. destruct (Wspan_inv _ _ _ _ E) as [-> [Ha Hb]].
  intros H. injection H as <- <-. split; [reflexivity|]. split; [cbn [is_Name]; rewrite Ec; exact Ha|].
  eapply stops_ext; [|exact Hb]. intros c0. symmetry. apply is_name_char_equiv.
Qed.

Lemma is_Name_name_ok (n : str) : is_Name n = true -> name_ok n.
Proof.
  destruct n as [|c n]; [discriminate|]. cbn [is_Name]. intros H. apply andb_prop in H. destruct H as [Hc Hn].
  unfold name_ok. cbn [forallb]. apply andb_true_intro. split.
  - rewrite is_name_char_equiv. revert Hc. apply (sub_sound spec_NameStartChar spec_NameChar). vm_compute. reflexivity.
  - revert Hn. apply forallb_impl. intros c0 H0. rewrite is_name_char_equiv. exact H0.
Qed.

Lemma is_NCName_ncname_ok (n : str) : is_NCName n = true -> ncname_ok n.
Proof.
  unfold is_NCName. intros H. apply andb_prop in H. destruct H as [Hn Hc]. apply negb_true_iff in Hc.
  destruct n as [|c n]; [discriminate|]. cbn [is_Name] in Hn. apply andb_prop in Hn. destruct Hn as [H1 H2].
  cbn [existsb] in Hc. apply orb_false_elim in Hc. destruct Hc as [Hc1 Hc2]. cbn [ncname_ok]. split.
  - rewrite is_name_start_char_except_equiv, H1. cbn [existsb]. rewrite orb_false_r. unfold colon in Hc1. rewrite N.eqb_sym, Hc1. reflexivity.
  - apply forallb_forall. intros x Hx. rewrite is_name_char_except_equiv. rewrite forallb_forall in H2. rewrite (H2 x Hx). cbn [existsb andb]. rewrite orb_false_r.
    destruct (N.eqb_spec x 58) as [->|]; [|reflexivity]. exfalso.
    assert (existsb (N.eqb colon) n = true) by (apply existsb_exists; exists 58; split; [exact Hx|reflexivity]). congruence.
Qed.

Lemma split_colon_spec (s p l : str) : split_colon s = Some (p, l) -> s = p ++ 58 :: l.
Proof.
  revert p. induction s as [|c s IH]; intros p H; cbn [split_colon] in H; [discriminate|].
  destruct (N.eqb_spec c colon) as [->|]; [injection H as <- <-; reflexivity|].
  destruct (split_colon s) as [[p' l']|]; [|discriminate]. injection H as <- <-. cbn [app]. f_equal. apply IH. reflexivity.
Qed.

Lemma QName_qname (n : str) : is_QName n = true -> exists q, qname_ok q /\ d_qname q = n.
Proof.
  unfold is_QName. destruct (split_colon n) as [[p l]|] eqn:E.
  - intros H. apply andb_prop in H. destruct H as [Hp Hl]. exists (Prefixed p l). split; [split; apply is_NCName_ncname_ok; assumption|].
    cbn [d_qname]. symmetry. apply split_colon_spec. exact E.
  - intros H. exists (Unprefixed n). split; [apply is_NCName_ncname_ok; exact H|reflexivity].
Qed.

(** ** [67] Reference *)
Lemma digits_semi_inv base (f : char -> bool) (s : str) rf r : W.p_digits_semi base f s = Some (rf, r) ->
  exists ds : str, ds <> [] /\ forallb f ds = true /\ s = ds ++ 59 :: r /\ rf = W.RChar (W.number base ds).
Proof.
  unfold W.p_digits_semi. destruct (W.span f s) as [a b] eqn:E. destruct (Wspan_inv _ _ _ _ E) as [-> [Ha Hb]].
  destruct a as [|d ds]; [discriminate|]. destruct b as [|c r']; [discriminate|]. destruct (N.eqb_spec c W.c_semi) as [->|]; [|discriminate].
  intros H. injection H as <- <-. exists (d :: ds). repeat split; try assumption. discriminate.
Qed.

Lemma conv_ref (s' : str) rf r : W.p_ref s' = Some (rf, r) ->
  exists x, reference_ok x /\ 38 :: s' = d_reference x ++ r /\ x_ref x = rf /\ d04_ref x = true.
Proof.
  unfold W.p_ref. destruct s' as [|c t]; [discriminate|]. destruct (N.eqb_spec c W.c_hash) as [->|Hne].
  - destruct t as [|x u]; [discriminate|]. destruct (N.eqb_spec x W.c_x) as [->|Hx]; intros H.
    + destruct (digits_semi_inv _ _ _ _ _ H) as [ds [Hn [Hd [-> ->]]]]. exists (RefChar ds Hex). split; [|split; [|split; reflexivity]].
      * split; [exact Hn|]. revert Hd. apply forallb_impl. intros c0 H0. rewrite hex_class. exact H0.
      * cbn [d_reference app]. rewrite <- app_assoc. reflexivity.
    + destruct (digits_semi_inv _ _ _ _ _ H) as [ds [Hn [Hd [E ->]]]]. exists (RefChar ds Dec). split; [|split; [|split; reflexivity]].
      * split; [exact Hn|]. revert Hd. apply forallb_impl. intros c0 H0. rewrite digit_class. exact H0.
      * cbn [d_reference app]. rewrite <- app_assoc. cbn [app]. rewrite E. reflexivity.
  - destruct (W.p_Name (c :: t)) as [[nm [|c' r']]|] eqn:E; try discriminate. destruct (N.eqb_spec c' W.c_semi) as [->|]; [|discriminate].
    intros H. injection H as <- <-. destruct (p_Name_inv _ _ _ E) as [Es [Hn _]].
    exists (RefEntity nm). split; [apply is_Name_name_ok; exact Hn|]. split; [cbn [d_reference app]; rewrite <- app_assoc; cbn [app]; rewrite Es; reflexivity|].
    split; [reflexivity|exact Hn].
Qed.

(** ** [10] AttValue: the literal characters are grouped into maximal runs, as the parser returns them *)
Definition cons_char (c : char) (l : list att_value) : list att_value :=
  match l with AvText s :: l' => AvText (c :: s) :: l' | _ => AvText [c] :: l end.

Lemma cons_char_ok q c l : eval (is_char_except [60;38;q]) c = true -> av_ok q false l \/ av_ok q true l ->
  av_ok q false (cons_char c l) /\ d_av (cons_char c l) = c :: d_av l /\ x_av (cons_char c l) = W.AvLit c :: x_av l
  /\ d04_av (cons_char c l) = d04_av l.
Proof.
  intros Hc Hl. destruct l as [|[x|s] l']; cbn [cons_char].
  - repeat split; try reflexivity; try discriminate. cbn [forallb]. rewrite Hc. reflexivity.
  - split; [|repeat split; reflexivity]. cbn [av_ok]. repeat split; try discriminate; [cbn [forallb]; rewrite Hc; reflexivity| |];
      destruct Hl as [Hl|Hl]; cbn [av_ok] in Hl; tauto.
  - split; [|repeat split; reflexivity]. destruct Hl as [Hl|Hl]; cbn [av_ok] in Hl; [|destruct Hl as [Hf _]; discriminate Hf].
    destruct Hl as [_ [Hne [Hs Hl']]]. cbn [av_ok]. repeat split; try discriminate; [cbn [forallb]; rewrite Hc, Hs; reflexivity|exact Hl'].
Qed.

Lemma conv_pieces q : q = 34 \/ q = 39 -> forall fuel (s : str) ps r, W.p_pieces fuel (Some q) W.c_lt s = Some (ps, r) ->
  exists l, av_ok q false l /\ s = d_av l ++ q :: r /\ x_av l = ps /\ d04_av l = true.
Proof.
  intros Hq. induction fuel as [|f IH]; intros s ps r H; [discriminate|]. cbn [W.p_pieces] in H.
  destruct s as [|c t]; [discriminate|]. destruct (N.eqb_spec c q) as [->|Hcq].
  - injection H as <- <-. exists []. repeat split; reflexivity.
  - destruct (N.eqb_spec c W.c_lt) as [->|Hlt]; [discriminate|]. destruct (N.eqb_spec c W.c_amp) as [->|Hamp].
    + destruct (W.p_ref t) as [[rf t']|] eqn:Er; [|discriminate]. cbn [W.bind] in H.
      destruct (W.p_pieces f (Some q) W.c_lt t') as [[ps' rest]|] eqn:Ep; [|discriminate]. cbn [W.bind] in H. injection H as <- <-.
      destruct (IH _ _ _ Ep) as [l [Hl [-> [Hx Hd]]]]. destruct (conv_ref _ _ _ Er) as [x [Hxo [Ex [Exr Hdx]]]].
      exists (AvReference x :: l). split; [cbn [av_ok]; split; assumption|]. split; [|split].
      * cbn [d_av flat_map d_av_piece]. fold (d_av l). rewrite <- app_assoc. exact Ex.
      * change (x_av (AvReference x :: l)) with ([W.piece_of_ref (x_ref x)] ++ x_av l). rewrite Exr, Hx. reflexivity.
      * cbn [d04_av forallb d04_avpiece]. rewrite Hdx. exact Hd.
    + destruct (W.isChar c) eqn:Ech; [|discriminate].
      destruct (W.p_pieces f (Some q) W.c_lt t) as [[ps' rest]|] eqn:Ep; [|discriminate]. cbn [W.bind] in H. injection H as <- <-.
      destruct (IH _ _ _ Ep) as [l [Hl [-> [Hx Hd]]]].
      assert (eval (is_char_except [60;38;q]) c = true) as Hc.
      { rewrite is_char_except_equiv. unfold W.isChar in Ech. rewrite Ech. cbn [existsb andb]. rewrite orb_false_r.
        apply N.eqb_neq in Hcq, Hlt, Hamp. unfold W.c_lt, W.c_amp in *. rewrite Hlt, Hamp, Hcq. reflexivity. }
      destruct (cons_char_ok q c l Hc (or_introl Hl)) as [H1 [H2 [H3 H4]]].
      exists (cons_char c l). split; [exact H1|]. split; [rewrite H2; reflexivity|]. split; [rewrite H3, Hx; reflexivity|rewrite H4; exact Hd].
Qed.

Lemma conv_att_value fuel (s : str) ps r : W.p_AttValue fuel s = Some (ps, r) ->
  exists l, yields (NT nt_att_value) s (VList (map VAttValue l)) r /\ x_av l = ps /\ d04_av l = true /\ (exists q, (q = 34 \/ q = 39) /\ av_ok q false l).
Proof.
  unfold W.p_AttValue. destruct s as [|q t]; [discriminate|]. destruct (W.isQuote q) eqn:Eq; [|discriminate].
  assert (q = 34 \/ q = 39) as Hq.
  { unfold W.isQuote in Eq. apply orb_prop in Eq. destruct Eq as [E|E]; apply N.eqb_eq in E; [left|right]; exact E. }
  intros H. destruct (conv_pieces q Hq _ _ _ _ H) as [l [Hl [-> [Hx Hd]]]].
  exists l. split; [apply yields_att_value; assumption|]. split; [exact Hx|]. split; [exact Hd|]. exists q. split; assumption.
Qed.

Lemma ws_name_end' (a r : str) : a <> [] -> forallb (eval ws) a = true -> stops (eval is_name_char) (a ++ r).
Proof.
  intros Hn Ha. destruct a as [|c a]; [contradiction|]. cbn [forallb] in Ha. apply andb_prop in Ha. destruct Ha as [Hc _].
  cbn [app stops]. revert Hc. apply (disj_sound ws is_name_char). vm_compute. reflexivity.
Qed.

(** ** [15] Comment *)
Lemma comment_body_inv : forall n (s c r : str), (length s <= n)%nat -> W.p_comment_body s = Some (c, r) ->
  s = c ++ 45 :: 45 :: 62 :: r /\ comment_okb c = true.
Proof.
  induction n as [|n IH]; intros s c r Hl H; (destruct s as [|x t]; [discriminate|]); [cbn in Hl; lia|].
  cbn [W.p_comment_body] in H. destruct (N.eqb_spec x W.c_dash) as [->|Hx].
  - destruct t as [|c2 t2]; [discriminate|]. destruct (N.eqb_spec c2 W.c_dash) as [->|Hc2].
    + destruct t2 as [|c3 r']; [discriminate|]. destruct (N.eqb_spec c3 W.c_gt) as [->|]; [|discriminate].
      injection H as <- <-. split; reflexivity.
    + destruct (W.isChar c2) eqn:E2; [|discriminate]. destruct (W.p_comment_body t2) as [[a r']|] eqn:Eb; [|discriminate].
      cbn [W.bind] in H. injection H as <- <-. cbn [length] in Hl. destruct (IH t2 a r' ltac:(lia) Eb) as [-> Hok].
      split; [reflexivity|]. cbn [comment_okb]. change (W.c_dash =? 45) with true. cbv iota.
      assert (eval nondash c2 = true) as Hnd.
      { unfold nondash. rewrite is_char_except_equiv. unfold W.isChar in E2. rewrite E2. cbn [existsb andb]. rewrite orb_false_r.
        apply N.eqb_neq in Hc2. unfold W.c_dash in Hc2. rewrite Hc2. reflexivity. }
      apply N.eqb_neq in Hc2. unfold W.c_dash in Hc2. unfold str, char in *. rewrite Hc2, Hnd, Hok. reflexivity.
  - destruct (W.isChar x) eqn:E; [|discriminate]. destruct (W.p_comment_body t) as [[a r']|] eqn:Eb; [|discriminate].
    cbn [W.bind] in H. injection H as <- <-. cbn [length] in Hl. destruct (IH t a r' ltac:(lia) Eb) as [-> Hok].
    split; [reflexivity|]. cbn [comment_okb]. apply N.eqb_neq in Hx. unfold W.c_dash in Hx. unfold str, char in *. rewrite Hx, Hok, andb_true_r.
    unfold nondash. rewrite is_char_except_equiv. unfold W.isChar in E. rewrite E. cbn [existsb andb]. rewrite orb_false_r, Hx. reflexivity.
Qed.

Lemma conv_comment (s c r : str) : W.p_comment_body s = Some (c, r) -> yields (NT nt_comment) (W.s_comment_open ++ s) (VComment c) r.
Proof.
  intros H. destruct (comment_body_inv (length s) s c r (le_n _) H) as [-> Hok].
  exact (yields_comment c r Hok).
Qed.

(** ** scanning up to a delimiter *)
Lemma scan_to_inv (pat : str) : pat <> [] -> forall (s x r : str), W.scan_to pat s = Some (x, r) ->
  s = x ++ pat ++ r /\ forallb (eval is_char) x = true /\ find_sub pat x = None.
Proof.
  intros Hne. induction s as [|c t IH]; intros x r H; cbn [W.scan_to] in H; rewrite Wstrip_same in H.
  - destruct (prefix pat []) as [r0|] eqn:E; [|discriminate]. destruct pat; [contradiction|discriminate E].
  - destruct (prefix pat (c :: t)) as [r0|] eqn:E.
    + injection H as <- <-. split; [cbn [app]; apply prefix_decomp; exact E|]. split; [reflexivity|apply find_sub_nil; exact Hne].
    + destruct (W.isChar c) eqn:Ec; [|discriminate]. destruct (W.scan_to pat t) as [[a r']|] eqn:Es; [|discriminate].
      cbn [W.bind] in H. injection H as <- <-. destruct (IH a r' eq_refl) as [-> [Ha Hf]]. split; [reflexivity|]. split.
      * cbn [forallb]. rewrite <- isChar_eval, Ec, Ha. reflexivity.
      * cbn [find_sub]. rewrite Hf.
        assert (prefix pat (c :: a) = None) as ->; [|reflexivity].
        destruct (prefix pat (c :: a)) as [u|] eqn:Eu; [|reflexivity]. exfalso.
        pose proof (prefix_some_app' pat (c :: a) u (pat ++ r') Eu) as E2. cbn [app] in E2. rewrite E in E2. discriminate.
Qed.

Lemma conv_cdsect (s x r : str) : W.scan_to W.s_cdata_close s = Some (x, r) -> yields (NT nt_cdsect) (W.s_cdata_open ++ s) (VCData x) r.
Proof.
  intros H. destruct (scan_to_inv [93;93;62] ltac:(discriminate) s x r H) as [-> [Hx Hf]].
  exact (yields_cdsect x r (conj Hx Hf)).
Qed.

(** ** [16] PI *)
Lemma conv_pi (s : str) tg d r : W.p_pi_body s = Some (tg, d, r) ->
  yields (NT nt_pi) (W.s_pi_open ++ s) (VPI (PI tg d)) r /\ is_Name tg = true.
Proof.
  unfold W.p_pi_body. destruct (W.p_Name s) as [[t r0]|] eqn:En; [|discriminate]. cbn [W.bind].
  destruct (is_xml_ci t) eqn:Ex; [discriminate|]. destruct (p_Name_inv _ _ _ En) as [-> [Hn Hst]].
  assert (forall r', stops (eval is_name_char) r' -> P (NT nt_pi_target) (t ++ r') (TStr t) r') as Htarget.
  { intros r' Hr'. apply parses_nt. rewrite body_pi_target. apply parses_take_except with (t := TStr t); [|rewrite NameLanguage.ci_reject_xml; exact Ex].
    apply parses_name; [apply is_Name_name_ok; exact Hn|exact Hr']. }
  rewrite Wstrip_same. change W.s_pi_close with [63;62]. destruct (prefix [63;62] r0) as [r'|] eqn:Ep.
  - intros H. injection H as <- <- <-. split; [|exact Hn]. apply prefix_decomp in Ep. subst r0.
    apply yields_nt. rewrite body_pi. apply (yields_map' (VPair (VStr t) VNone)); [reflexivity|].
    eapply yields_seqr; [apply parses_tag|]. eapply yields_seql; [|apply (parses_tag G_xml [63;62] r')].
    eapply yields_seq; [apply yields_str; apply Htarget; reflexivity|].
    apply yields_opt_none. apply fails_seqr_l. apply fails_chars1. reflexivity.
  - destruct (W.p_S r0) as [r1|] eqn:Es; [|discriminate]. cbn [W.bind]. destruct (W.scan_to [63;62] r1) as [[dd r2]|] eqn:Ed; [|discriminate].
    cbn [W.bind]. intros H. injection H as <- <- <-. split; [|exact Hn].
    destruct (p_S_inv _ _ Es) as [a [Hne [Ha [Hr1 ->]]]].
    destruct (scan_to_inv [63;62] ltac:(discriminate) r1 dd r2 Ed) as [-> [Hd Hf]].
    apply yields_nt. rewrite body_pi. apply (yields_map' (VPair (VStr t) (VSome (VStr dd)))); [reflexivity|].
    eapply yields_seqr; [apply parses_tag|]. eapply yields_seql; [|apply (parses_tag G_xml [63;62] r2)].
    eapply yields_seq; [apply yields_str; apply Htarget; apply ws_name_end'; assumption|].
    apply yields_opt_some. eapply yields_seqr; [apply parses_chars1; [exact Hne|exact Ha|exact Hr1]|].
    apply yields_str. apply parses_until; [exact Hd|reflexivity|]. intros z. apply find_qgt. exact Hf.
Qed.
