(** * C05, round 2: the bricks of the induction over all expressions.

    - [rrel_bind]: sequencing in the model's monad against the specification's [match .. with Some];
    - node lists as sets: [n_nodeset] depends on the elements only; what [eval_union_expr] does at
      the end ([finish_rel]);
    - the loops: [flat_map_m] against [opt_flat_map] ([flat_map_m_steps], [oflat_same_set]), the
      predicate loop against [pred_filter] ([pred_loop_agrees]), the operations of a relative path
      distribute over the start list in the model ([stepops_distr], [rel_path_split]);
    - the node test on an axis result followed by the key sort ([tested_sorted]). *)
From Coq Require Import List NArith ZArith Bool Lia Sorting.Sorted Sorting.Permutation.
From Coq Require Import Floats.SpecFloat.
From XmlRs Require Import Base.CPred Base.NList Base.Float64.
From XmlRs Require Import Spec.XPathCore Model.XPathFuncs.
From XmlRs Require Import Model.XPathAst Model.XDoc Model.XPathScalar Model.XPathEval.
From XmlRs Require Import Spec.XPath10.
From XmlRs Require Import Proofs.XPathEvalEqs Proofs.XPathNav Proofs.XPathSort Proofs.XPathAstPred Proofs.XPathCanon
  Proofs.XPathCtx Proofs.XPathRefine Proofs.XPathRefinePaths Proofs.XPathRefineTree Proofs.XPathRefineAxes
  Proofs.XPathRefineVal Proofs.XPathRefineSupp Proofs.XPathRefineNz Proofs.XPathRefineSpecEqs.
Import ListNotations.
Open Scope N_scope.

(** ** the result relation *)
Lemma rrel_bind {A A' B B'} (R : A -> A' -> Prop) (Q : B -> B' -> Prop) c (m : M A) (f : A -> M B)
      (so : option A') (g : A' -> option B') :
  rrel R c (m c) so -> (forall a a', R a a' -> rrel Q c (f a c) (g a')) ->
  rrel Q c (bindM m f c) (match so with Some a' => g a' | None => None end).
Proof.
  intros Hm Hf. unfold bindM. destruct (m c) as [[a|e| |] c1]; cbn [rrel] in Hm.
  - destruct Hm as [-> [a' [-> Ha]]]. apply Hf. exact Ha.
  - rewrite Hm. reflexivity.
  - rewrite Hm. reflexivity.
  - rewrite Hm. reflexivity.
Qed.

Lemma rrel_ret {A A'} (R : A -> A' -> Prop) c a a' : R a a' -> rrel R c (ret a c) (Some a').
Proof. intros H. unfold ret. cbn [rrel]. split; [reflexivity|]. exists a'. split; [reflexivity|exact H]. Qed.

Lemma rrel_weaken {A A'} (R Q : A -> A' -> Prop) c mr so :
  (forall a a', R a a' -> Q a a') -> rrel R c mr so -> rrel Q c mr so.
Proof.
  intros H. destruct mr as [[a|e| |] c1]; cbn [rrel]; try (intros E; exact E).
  intros [-> [a' [-> Ha]]]. split; [reflexivity|]. exists a'. split; [reflexivity|apply H; exact Ha].
Qed.

(** a failing [lift] *)
Lemma rrel_lift_err {A A'} (R : A -> A' -> Prop) c e : rrel R c (lift (Err e) c) None.
Proof. reflexivity. Qed.

Section Lemmas.
Variable doc : xdoc.
Hypothesis Hinv : DocInv doc.
Hypothesis Hshape : SpecShape doc.
Hypothesis Hnames : NamesOk doc.
Let Hwf := inv_wf doc Hinv.

Notation T := (T doc).
Notation D := (desc doc).
Notation V := (vrel doc).
Let TV := T_valid doc Hinv Hshape.

(** ** lists of nodes as sets *)
Definition steprel (r : list node) (rs : list snode) : Prop := rs = map Row r /\ Forall T r.
Definition setrel (r : list node) (rs : list snode) : Prop := Forall T r /\ rs = map Row (n_nodeset r).

(** values of path expressions: a node list not yet de-duplicated *)
Definition prel (v : xvalue) (sv : sval) : Prop :=
  match v, sv with
  | XNodes l, SNodes ls => setrel l ls
  | XNodes _, _ => False
  | _, SNodes _ => False
  | _, _ => V v sv
  end.

Lemma n_nodeset_same l1 l2 : (forall x, In x l1 <-> In x l2) -> n_nodeset l1 = n_nodeset l2.
Proof.
  intros H. apply lt_sorted_unique; try apply n_nodeset_sorted. intros x. rewrite !n_nodeset_in. apply H.
Qed.

Lemma n_nodeset_fixed l : inc l -> n_nodeset l = l.
Proof. intros H. apply lt_sorted_unique; [apply n_nodeset_sorted|exact H|]. intros x. apply n_nodeset_in. Qed.

Lemma n_nodeset_T l : Forall T l -> Forall T (n_nodeset l).
Proof. intros H. apply Forall_forall. intros x Hx. apply (proj1 (n_nodeset_in x l)) in Hx. rewrite Forall_forall in H. apply H. exact Hx. Qed.

Lemma map_Row_inj l1 l2 : map Row l1 = map Row l2 -> l1 = l2.
Proof.
  revert l2. induction l1 as [|x t IH]; intros [|y u] H; cbn [map] in H; try discriminate; [reflexivity|].
  inversion H. f_equal. apply IH. assumption.
Qed.

Lemma vrel_prel v sv : V v sv -> prel v sv.
Proof.
  destruct v as [b|l|x|s], sv as [b'|x'|s'|l']; cbn [vrel prel]; try (intros H; exact H).
  intros [-> [Hi Ht]]. split; [exact Ht|]. rewrite (n_nodeset_fixed l Hi). reflexivity.
Qed.

(** what [eval_union_expr] does to the collected nodes *)
Lemma finish_rel acc la : Forall T acc -> (forall x, In x la <-> In x acc) ->
  V (XNodes (union_finish doc acc)) (SNodes (nodeset doc (map Row la))).
Proof.
  intros Ht Hs. cbn [vrel].
  assert (E : map Row (union_finish doc acc) = map Row (n_nodeset la)).
  { rewrite (canon_agrees doc Hinv acc (T_good_list doc Hinv Hshape acc Ht)), (nodeset_rows doc).
    f_equal. apply n_nodeset_same. intros x. symmetry. apply Hs. }
  split; [rewrite (nodeset_rows doc); symmetry; exact E|]. split.
  - apply map_Row_inj in E. rewrite E. apply n_nodeset_sorted.
  - apply Forall_forall. intros x Hx. apply (union_finish_incl doc) in Hx. rewrite Forall_forall in Ht. apply Ht. exact Hx.
Qed.

Lemma root_of_T n : T n -> root_of doc n = [doc_root].
Proof.
  intros Tn. unfold root_of. destruct (kind doc n) eqn:Ek; unfold owner_document; rewrite ?Ek; try reflexivity.
  - rewrite (T_doc_is_root doc Hinv Hshape n Tn Ek). reflexivity.
  - exfalso. destruct (T_good doc Hinv Hshape n Tn) as [_ H]. apply H. exact Ek.
Qed.

(** ** [flat_map_m] against [opt_flat_map] *)
Lemma flat_map_m_steps (f : node -> M (list node)) (g : snode -> option (list snode)) c l :
  (forall n, In n l -> rrel steprel c (f n c) (g (Row n))) ->
  rrel steprel c (flat_map_m f l c) (opt_flat_map g (map Row l)).
Proof.
  induction l as [|n t IH]; intros H; cbn [flat_map_m map opt_flat_map].
  - apply rrel_ret. split; [reflexivity|constructor].
  - specialize (IH (fun m Hm => H m (or_intror Hm))). pose proof (H n (or_introl eq_refl)) as Hn.
    unfold bindM. destruct (f n c) as [[a|e| |] c1]; cbn [rrel] in Hn.
    + destruct Hn as [-> [rs [-> [-> Ha]]]].
      destruct (flat_map_m f t c) as [[b|e| |] c2]; cbn [rrel] in IH.
      * destruct IH as [-> [rs2 [-> [-> Hb]]]]. unfold ret. cbn [rrel]. split; [reflexivity|].
        exists (map Row a ++ map Row b). split; [reflexivity|]. split; [symmetry; apply map_app|apply Forall_app; split; assumption].
      * rewrite IH. reflexivity.
      * rewrite IH. reflexivity.
      * rewrite IH. reflexivity.
    + rewrite Hn. reflexivity.
    + rewrite Hn. reflexivity.
    + rewrite Hn. reflexivity.
Qed.

(** [opt_flat_map] over two lists with the same elements *)
Lemma opt_flat_map_none {A} (g : A -> option (list snode)) l :
  opt_flat_map g l = None <-> exists x, In x l /\ g x = None.
Proof.
  induction l as [|x t IH]; cbn [opt_flat_map].
  - split; [discriminate|intros [x [[] _]]].
  - destruct (g x) as [a|] eqn:Ex.
    + destruct (opt_flat_map g t) as [b|] eqn:Et.
      * split; [discriminate|]. intros [y [[<-|Hy] Ey]]; [rewrite Ex in Ey; discriminate|].
        assert (Hn : @None (list snode) = None) by reflexivity. apply IH in Hn || idtac.
        exfalso. assert (H : Some b = None) by (apply IH; exists y; split; assumption). discriminate.
      * split; [|reflexivity]. intros _. destruct (proj1 IH eq_refl) as [y [Hy Ey]]. exists y. split; [right; exact Hy|exact Ey].
    + split; [|reflexivity]. intros _. exists x. split; [left; reflexivity|exact Ex].
Qed.

Lemma opt_flat_map_in {A} (g : A -> option (list snode)) l r :
  opt_flat_map g l = Some r -> forall y, In y r <-> exists x a, In x l /\ g x = Some a /\ In y a.
Proof.
  revert r. induction l as [|x t IH]; intros r E y; cbn [opt_flat_map] in E.
  - inversion E. split; [intros []|intros [x [a [[] _]]]].
  - destruct (g x) as [a|] eqn:Ex; [|discriminate]. destruct (opt_flat_map g t) as [b|] eqn:Et; [|discriminate].
    inversion E; subst r. rewrite in_app_iff, (IH b eq_refl y). split.
    + intros [Hy|[x' [a' [Hx' [Ex' Hy]]]]].
      * exists x, a. split; [left; reflexivity|split; assumption].
      * exists x', a'. split; [right; exact Hx'|split; assumption].
    + intros [x' [a' [[<-|Hx'] [Ex' Hy]]]].
      * left. rewrite Ex in Ex'. inversion Ex'; subst. exact Hy.
      * right. exists x', a'. split; [exact Hx'|split; assumption].
Qed.

(** the specification's step loop from a list with the same elements gives the same node-set *)
Lemma opt_flat_map_same_set {A} (g : A -> option (list snode)) (l lc : list A) :
  (forall x, In x lc <-> In x l) ->
  match opt_flat_map g l, opt_flat_map g lc with
  | Some r, Some r' => forall y, In y r' <-> In y r
  | None, None => True
  | _, _ => False
  end.
Proof.
  intros Hs. destruct (opt_flat_map g l) as [r|] eqn:E, (opt_flat_map g lc) as [r'|] eqn:E'.
  - intros y. rewrite (opt_flat_map_in g _ _ E' y), (opt_flat_map_in g _ _ E y).
    split; intros [x [a [Hx H]]]; exists x, a; (split; [apply Hs; exact Hx|exact H]).
  - apply opt_flat_map_none in E'. destruct E' as [x [Hx Ex]].
    assert (Hn : opt_flat_map g l = None) by (apply opt_flat_map_none; exists x; split; [apply Hs; exact Hx|exact Ex]).
    rewrite E in Hn. discriminate.
  - apply opt_flat_map_none in E. destruct E as [x [Hx Ex]].
    assert (Hn : opt_flat_map g lc = None) by (apply opt_flat_map_none; exists x; split; [apply Hs; exact Hx|exact Ex]).
    rewrite E' in Hn. discriminate.
  - exact I.
Qed.

Lemma rows_list (r' : list snode) : (forall y, In y r' -> exists i, y = Row i) -> exists lr, r' = map Row lr.
Proof.
  induction r' as [|y t IH]; intros H; [exists []; reflexivity|].
  destruct (H y (or_introl eq_refl)) as [i ->]. destruct IH as [lr ->]; [intros z Hz; apply H; right; exact Hz|].
  exists (i :: lr). reflexivity.
Qed.

Lemma nodeset_same_rows (r' : list snode) (r : list node) :
  (forall y, In y r' <-> In y (map Row r)) -> nodeset doc r' = map Row (n_nodeset r).
Proof.
  intros Hin. destruct (rows_list r') as [lr ->].
  { intros y Hy. apply Hin in Hy. apply in_map_iff in Hy. destruct Hy as [i [<- _]]. exists i. reflexivity. }
  rewrite (nodeset_rows doc). f_equal. apply n_nodeset_same. intros x. split; intros Hx.
  - assert (H : In (Row x) (map Row lr)) by (apply in_map; exact Hx). apply Hin in H.
    apply in_map_iff in H. destruct H as [i [Ei Hi]]. inversion Ei; subst. exact Hi.
  - assert (H : In (Row x) (map Row r)) by (apply in_map; exact Hx). apply Hin in H.
    apply in_map_iff in H. destruct H as [i [Ei Hi]]. inversion Ei; subst. exact Hi.
Qed.

(** the model's step loop over [l] against the specification's over a list [lc] with the same
    elements: the collected nodes denote the specification's node-set *)
Lemma step_loop_agrees (f : node -> M (list node)) (g : snode -> option (list snode)) c l lc :
  (forall n, In n l -> rrel steprel c (f n c) (g (Row n))) -> (forall x, In x lc <-> In x l) ->
  rrel setrel c (flat_map_m f l c)
       (match opt_flat_map g (map Row lc) with Some r => Some (nodeset doc r) | None => None end).
Proof.
  intros Hf Hs. pose proof (flat_map_m_steps f g c l Hf) as H.
  assert (Hs' : forall x, In x (map Row lc) <-> In x (map Row l)).
  { intros x. rewrite !in_map_iff. split; intros [i [E Hi]]; exists i; (split; [exact E|apply Hs; exact Hi]). }
  pose proof (opt_flat_map_same_set g (map Row l) (map Row lc) Hs') as Hss.
  destruct (flat_map_m f l c) as [[r|e| |] c1]; cbn [rrel] in H |- *.
  - destruct H as [-> [rs [E [-> Ht]]]]. rewrite E in Hss.
    destruct (opt_flat_map g (map Row lc)) as [r'|]; [|destruct Hss].
    split; [reflexivity|]. exists (nodeset doc r'). split; [reflexivity|]. split; [exact Ht|].
    apply nodeset_same_rows. exact Hss.
  - rewrite H in Hss. destruct (opt_flat_map g (map Row lc)); [destruct Hss|reflexivity].
  - rewrite H in Hss. destruct (opt_flat_map g (map Row lc)); [destruct Hss|reflexivity].
  - rewrite H in Hss. destruct (opt_flat_map g (map Row lc)); [destruct Hss|reflexivity].
Qed.

(** ** the predicate loop against [pred_filter] *)
Definition subl (r nodes : list node) : Prop := (forall x, In x r -> In x nodes) /\ (inc nodes -> inc r).

Lemma subl_refl l : subl l l.
Proof. split; [intros x H; exact H|intros H; exact H]. Qed.

Lemma subl_trans a b d : subl a b -> subl b d -> subl a d.
Proof. intros [H1 H2] [H3 H4]. split; [intros x Hx; apply H3; apply H1; exact Hx|intros Hd; apply H2; apply H4; exact Hd]. Qed.

Lemma subl_T r nodes : subl r nodes -> Forall T nodes -> Forall T r.
Proof. intros [H _] Ht. apply Forall_forall. intros x Hx. rewrite Forall_forall in Ht. apply Ht. apply H. exact Hx. Qed.

Definition predrel (nodes r : list node) (rs : list snode) : Prop := rs = map Row r /\ subl r nodes.

Lemma pred_truth_agrees v sv k : V v sv ->
  match v with XNum x => f64_eqb x (f64_of_N k) | _ => val_to_bool v end = pred_truth doc sv k.
Proof.
  intros H. pose proof (val_to_bool_agrees doc v sv H) as Hb.
  destruct v as [b|l|x|s], sv as [b'|x'|s'|l']; cbn [vrel] in H; try contradiction; cbn [pred_truth]; try exact Hb.
  destruct H as [-> _]. reflexivity.
Qed.

Lemma pred_loop_agrees (ev : node -> M xvalue) (sp : snode -> N -> N -> option sval) nodes : forall k c0,
  (forall n j, In n nodes -> rrel V (push_position j c0) (ev n (push_position j c0)) (sp (Row n) j (get_size c0))) ->
  rrel (predrel nodes) c0 (pred_loop (predicate_of ev) nodes k c0)
       (pred_filter (fun x ps sz => match sp x ps sz with Some v => Some (pred_truth doc v ps) | None => None end)
                    (map Row nodes) k (get_size c0)).
Proof.
  induction nodes as [|n t IH]; intros k c0 Hev; cbn [pred_loop map pred_filter].
  - cbn [rrel]. split; [reflexivity|]. exists []. split; [reflexivity|]. split; [reflexivity|apply subl_refl].
  - pose proof (Hev n k (or_introl eq_refl)) as Hn. unfold predicate_of at 1. unfold bindM.
    destruct (ev n (push_position k c0)) as [[v|e| |] c1]; cbn [rrel] in Hn.
    + destruct Hn as [-> [sv [Esv Hv]]]. rewrite Esv.
      assert (Ekeep : (match v with
                       | XNum x => (Ok (f64_eqb x (f64_of_N (get_position (push_position k c0)))), push_position k c0)
                       | _ => (Ok (val_to_bool v), push_position k c0)
                       end) = (Ok (pred_truth doc sv k), push_position k c0)).
      { rewrite <- (pred_truth_agrees v sv k Hv). destruct v; reflexivity. }
      rewrite Ekeep. rewrite pop_push_position.
      specialize (IH (k + 1) c0 (fun m j Hm => Hev m j (or_intror Hm))).
      destruct (pred_loop (predicate_of ev) t (k + 1) c0) as [[r|e| |] c2]; cbn [rrel] in IH.
      * destruct IH as [-> [rs [Ers [-> [Hs1 Hs2]]]]]. rewrite Ers. cbn [rrel]. split; [reflexivity|].
        exists (if pred_truth doc sv k then Row n :: map Row r else map Row r). split; [reflexivity|].
        split; [destruct (pred_truth doc sv k); reflexivity|]. split.
        -- intros x Hx. destruct (pred_truth doc sv k); [destruct Hx as [<-|Hx]; [left; reflexivity|right; apply Hs1; exact Hx]|right; apply Hs1; exact Hx].
        -- intros Hi. inversion Hi as [|n' t' Ht Hn']; subst. specialize (Hs2 Ht).
           destruct (pred_truth doc sv k); [|exact Hs2]. constructor; [exact Hs2|].
           apply Forall_forall. intros x Hx. rewrite Forall_forall in Hn'. apply Hn'. apply Hs1. exact Hx.
      * rewrite IH. reflexivity.
      * rewrite IH. reflexivity.
      * rewrite IH. reflexivity.
    + rewrite Hn. reflexivity.
    + rewrite Hn. reflexivity.
    + rewrite Hn. reflexivity.
Qed.

(** ** values reached with the context restored: the option view of a computation *)
Definition okv {A} (m : M A) (c : ctx) : option A := match fst (m c) with Ok a => Some a | _ => None end.

Definition obind {A B} (o : option A) (f : A -> option B) : option B := match o with Some a => f a | None => None end.

Lemma okv_bind {A B} (m : M A) (f : A -> M B) c : restores m ->
  okv (bindM m f) c = obind (okv m c) (fun a => okv (f a) c).
Proof.
  intros Hm. unfold okv, bindM. destruct (m c) as [[a|e| |] c1] eqn:E; cbn [fst obind]; try reflexivity.
  rewrite (Hm c (Ok a) c1 E I). reflexivity.
Qed.

Lemma okv_ret {A} (a : A) c : okv (ret a) c = Some a.
Proof. reflexivity. Qed.

Lemma okv_lift {A} (r : res A) c : okv (lift r) c = match r with Ok a => Some a | _ => None end.
Proof. reflexivity. Qed.

Lemma rrel_okv {A B} (R : A -> B -> Prop) (m : M A) c so : restores m ->
  match okv m c with Some a => exists b, so = Some b /\ R a b | None => so = None end -> rrel R c (m c) so.
Proof.
  intros Hm. unfold okv. destruct (m c) as [[a|e| |] c1] eqn:E; cbn [fst rrel]; try (intros H; exact H).
  intros H. split; [apply (Hm c (Ok a) c1 E I)|exact H].
Qed.

Lemma okv_rrel {A B} (R : A -> B -> Prop) (m : M A) c so :
  rrel R c (m c) so -> match okv m c with Some a => exists b, so = Some b /\ R a b | None => so = None end.
Proof.
  unfold okv. destruct (m c) as [[a|e| |] c1]; cbn [fst rrel]; try (intros H; exact H). intros [_ H]. exact H.
Qed.

Lemma flat_map_res_app (g : node -> res (list node)) l1 l2 :
  flat_map_res g (l1 ++ l2) = bind (flat_map_res g l1) (fun a => bind (flat_map_res g l2) (fun b => Ok (a ++ b))).
Proof.
  induction l1 as [|x t IH]; cbn [app flat_map_res].
  - destruct (flat_map_res g l2); reflexivity.
  - destruct (g x) as [a| | |]; cbn [bind]; try reflexivity. rewrite IH.
    destruct (flat_map_res g t) as [b| | |]; cbn [bind]; try reflexivity.
    destruct (flat_map_res g l2) as [d| | |]; cbn [bind]; try reflexivity. rewrite app_assoc. reflexivity.
Qed.

Lemma okv_flat_map_m_cons (f : node -> M (list node)) n t c : (forall x, restores (f x)) ->
  okv (flat_map_m f (n :: t)) c = obind (okv (f n) c) (fun a => obind (okv (flat_map_m f t) c) (fun b => Some (a ++ b))).
Proof.
  intros Hf. cbn [flat_map_m]. rewrite okv_bind by apply Hf. destruct (okv (f n) c) as [a|]; cbn [obind]; [|reflexivity].
  rewrite okv_bind by (apply restores_flat_map_m; exact Hf). destruct (okv (flat_map_m f t) c); reflexivity.
Qed.

Lemma okv_flat_map_m_app (f : node -> M (list node)) l1 l2 c : (forall x, restores (f x)) ->
  okv (flat_map_m f (l1 ++ l2)) c =
  obind (okv (flat_map_m f l1) c) (fun a => obind (okv (flat_map_m f l2) c) (fun b => Some (a ++ b))).
Proof.
  intros Hf. induction l1 as [|n t IH]; cbn [app].
  - change (okv (flat_map_m f []) c) with (Some (@nil node)). cbn [obind app]. destruct (okv (flat_map_m f l2) c); reflexivity.
  - rewrite !okv_flat_map_m_cons by exact Hf. rewrite IH.
    destruct (okv (f n) c) as [a|]; cbn [obind]; [|reflexivity].
    destruct (okv (flat_map_m f t) c) as [b|]; cbn [obind]; [|reflexivity].
    destruct (okv (flat_map_m f l2) c) as [d|]; cbn [obind]; [|reflexivity]. rewrite app_assoc. reflexivity.
Qed.

Lemma restores_all_step s n : restores (eval_step doc s n).
Proof. pose proof (eval_restores_all doc) as H. decompose [and] H. match goal with Hs : forall s : step, P_step doc s |- _ => apply Hs end. Qed.

Lemma restores_all_stepops ops nodes : restores (eval_stepops doc ops nodes).
Proof. pose proof (eval_restores_all doc) as H. decompose [and] H. match goal with Hs : forall l : stepop_list, P_stepop_list doc l |- _ => apply Hs end. Qed.

Lemma restores_all_rel_path l n : restores (eval_rel_path doc l n).
Proof. pose proof (eval_restores_all doc) as H. decompose [and] H. match goal with Hs : forall e : rel_path, P_rel_path doc e |- _ => apply Hs end. Qed.

(** [flat_map_m] in the option view: defined iff every call is, and then the union of the results *)
Lemma okv_flat_map_m_spec (f : node -> M (list node)) l c : (forall x, restores (f x)) ->
  match okv (flat_map_m f l) c with
  | Some r => (forall n, In n l -> exists rn, okv (f n) c = Some rn) /\
              (forall x, In x r <-> exists n rn, In n l /\ okv (f n) c = Some rn /\ In x rn)
  | None => exists n, In n l /\ okv (f n) c = None
  end.
Proof.
  intros Hf. induction l as [|n t IH].
  - change (okv (flat_map_m f []) c) with (Some (@nil node)). split; [intros n []|].
    intros x. split; [intros []|intros [n [rn [[] _]]]].
  - rewrite okv_flat_map_m_cons by exact Hf. destruct (okv (f n) c) as [a|] eqn:Ea; cbn [obind].
    + destruct (okv (flat_map_m f t) c) as [b|]; cbn [obind].
      * destruct IH as [IH1 IH2]. split.
        -- intros m [<-|Hm]; [exists a; exact Ea|apply IH1; exact Hm].
        -- intros x. rewrite in_app_iff, IH2. split.
           ++ intros [Hx|[m [rm [Hm [Em Hx]]]]]; [exists n, a; split; [left; reflexivity|split; assumption]|].
              exists m, rm. split; [right; exact Hm|split; assumption].
           ++ intros [m [rm [[<-|Hm] [Em Hx]]]].
              ** left. rewrite Ea in Em. inversion Em; subst. exact Hx.
              ** right. exists m, rm. split; [exact Hm|split; assumption].
      * destruct IH as [m [Hm Em]]. exists m. split; [right; exact Hm|exact Em].
    + exists n. split; [left; reflexivity|exact Ea].
Qed.

(** a computation on a list against the same computation on two lists that cover it: defined iff
    both are, and then the same elements *)
Definition distr (o o1 o2 : option (list node)) : Prop :=
  match o with
  | Some r => exists r1 r2, o1 = Some r1 /\ o2 = Some r2 /\ (forall x, In x r <-> In x r1 \/ In x r2)
  | None => o1 = None \/ o2 = None
  end.

Lemma flat_map_m_distr (f : node -> M (list node)) l l1 l2 c : (forall x, restores (f x)) ->
  (forall x, In x l <-> In x l1 \/ In x l2) ->
  distr (okv (flat_map_m f l) c) (okv (flat_map_m f l1) c) (okv (flat_map_m f l2) c).
Proof.
  intros Hf Hs. pose proof (okv_flat_map_m_spec f l c Hf) as H. pose proof (okv_flat_map_m_spec f l1 c Hf) as H1.
  pose proof (okv_flat_map_m_spec f l2 c Hf) as H2. unfold distr.
  destruct (okv (flat_map_m f l) c) as [r|].
  - destruct H as [Ha Hb].
    destruct (okv (flat_map_m f l1) c) as [r1|].
    2:{ destruct H1 as [n [Hn En]]. destruct (Ha n (proj2 (Hs n) (or_introl Hn))) as [rn E]. rewrite E in En. discriminate. }
    destruct (okv (flat_map_m f l2) c) as [r2|].
    2:{ destruct H2 as [n [Hn En]]. destruct (Ha n (proj2 (Hs n) (or_intror Hn))) as [rn E]. rewrite E in En. discriminate. }
    exists r1, r2. split; [reflexivity|]. split; [reflexivity|]. destruct H1 as [_ H1b]. destruct H2 as [_ H2b].
    intros x. rewrite Hb, H1b, H2b. split.
    + intros [n [rn [Hn H']]]. apply Hs in Hn. destruct Hn as [Hn|Hn]; [left|right]; exists n, rn; (split; [exact Hn|exact H']).
    + intros [[n [rn [Hn H']]]|[n [rn [Hn H']]]]; exists n, rn; (split; [apply Hs; auto|exact H']).
  - destruct H as [n [Hn En]]. apply Hs in Hn. destruct Hn as [Hn|Hn].
    + left. destruct (okv (flat_map_m f l1) c) as [r1|]; [|reflexivity]. destruct H1 as [Ha _].
      destruct (Ha n Hn) as [rn E]. rewrite E in En. discriminate.
    + right. destruct (okv (flat_map_m f l2) c) as [r2|]; [|reflexivity]. destruct H2 as [Ha _].
      destruct (Ha n Hn) as [rn E]. rewrite E in En. discriminate.
Qed.

Lemma stepops_empty ops c : okv (eval_stepops doc ops []) c = Some [].
Proof.
  induction ops as [|op s t IH]; [rewrite eval_stepops_nil; reflexivity|].
  rewrite eval_stepops_cons. rewrite okv_bind by apply restores_lift. rewrite okv_lift.
  assert (E : match op with
              | LpCurrent => Ok []
              | LpDescendantOrSelfNode => flat_map_res (descendant_and_self doc) []
              end = Ok (@nil node)) by (destruct op; reflexivity).
  rewrite E. cbn [obind]. rewrite okv_bind by (apply restores_flat_map_m; intros x; apply restores_all_step).
  change (okv (flat_map_m (eval_step doc s) []) c) with (Some (@nil node)). cbn [obind]. exact IH.
Qed.

(** the de-duplication after a step keeps the set of a list of tree nodes *)
Lemma step_dedup_T l : Forall T l -> (forall x, In x (step_dedup doc l) <-> In x l) /\ Forall T (step_dedup doc l).
Proof.
  intros Ht.
  assert (H : forall x, In x (step_dedup doc l) <-> In x l).
  { intros x. apply step_dedup_in. apply (good_key_inj doc Hinv). apply (T_good_list doc Hinv Hshape l Ht). }
  split; [exact H|]. apply Forall_forall. intros x Hx. rewrite Forall_forall in Ht. apply Ht. apply H. exact Hx.
Qed.

(** ** a step before its predicates: axis, node test, key sort *)
Lemma filter_res_filter (p : node -> res bool) l : forall r, filter_res p l = Ok r ->
  r = filter (fun x => match p x with Ok true => true | _ => false end) l.
Proof.
  induction l as [|x t IH]; intros r E; cbn [filter_res filter] in *; [inversion E; reflexivity|].
  destruct (p x) as [b| | |]; cbn [bind] in E; try discriminate.
  destruct (filter_res p t) as [r0| | |]; cbn [bind] in E; try discriminate.
  inversion E; subst r. rewrite (IH r0 eq_refl). destruct b; reflexivity.
Qed.

Lemma is_reverse_axis_spec a : is_reverse_axis a = is_reverse (axis_of a).
Proof.
  destruct a as [x|s]; [destruct x; reflexivity|]. cbn [is_reverse_axis axis_of].
  destruct (str_eqb s [64]); reflexivity.
Qed.

Lemma test_ok_bound ns t : test_ok ns t = true -> test_bound ns t.
Proof.
  unfold test_ok, test_bound, prefix_bound. destruct t as [[|p|[p l|l]]| |]; try (intros _; exact I);
    destruct (ns_lookup ns (Some p)); intros H; try discriminate; discriminate.
Qed.

Lemma tested_sorted ns a t (n : node) : ns_lookup ns None = None -> T n -> not_ns_axis a = true -> test_ok ns t = true ->
  exists r cands,
    bind (axis_nodes doc a n) (filter_res (eval_node_test doc ns a t)) = Ok r /\
    Forall T (axis_sort doc a r) /\
    opt_filter (s_test doc ns (axis_of a) t) (s_axis doc (axis_of a) (Row n)) = Some cands /\
    (if is_reverse (axis_of a) then rev cands else cands) = map Row (axis_sort doc a r).
Proof.
  intros Hnd Tn Ha Ht. apply test_ok_bound in Ht.
  destruct (axis_agrees doc Hinv Hshape a n Tn Ha) as [l [l' [El [Hnodup [HT [Es [Hinc Hin]]]]]]].
  assert (HT' : Forall T l').
  { apply Forall_forall. intros x Hx. rewrite Forall_forall in HT. apply HT. apply Hin. exact Hx. }
  destruct (filter_agrees doc Hnames ns Hnd a t Ht l (T_good_list doc Hinv Hshape l HT)) as [r [Er [_ Hr]]].
  destruct (filter_agrees doc Hnames ns Hnd a t Ht l' (T_good_list doc Hinv Hshape l' HT')) as [r' [Er' [Eo' Hr']]].
  exists r, (map Row r'). rewrite El. cbn [bind]. split; [exact Er|].
  pose proof (filter_res_filter _ l r Er) as Fr. pose proof (filter_res_filter _ l' r' Er') as Fr'.
  assert (HTr : Forall T r).
  { apply Forall_forall. intros x Hx. rewrite Forall_forall in HT. apply HT. apply Hr. exact Hx. }
  assert (Esort : sort_by_key doc r = r').
  { apply (sort_is_spec_list doc Hinv Hshape r r').
    - rewrite Fr. apply NoDup_filter. exact Hnodup.
    - exact HTr.
    - rewrite Fr'. apply inc_filter. exact Hinc.
    - intros x. rewrite Hr, Hr', Hin. reflexivity. }
  split.
  - unfold axis_sort. destruct (is_reverse_axis a); [apply Forall_rev|]; apply Forall_forall; intros x Hx;
      apply (proj1 (sort_in doc x r)) in Hx; rewrite Forall_forall in HTr; apply HTr; exact Hx.
  - split; [rewrite Es; exact Eo'|]. unfold axis_sort. rewrite is_reverse_axis_spec, Esort.
    destruct (is_reverse (axis_of a)); [symmetry; apply map_rev|reflexivity].
Qed.

(** ** arguments of a function call *)
Lemma restores_all_or e n : restores (eval_or_expr doc e n).
Proof. pose proof (eval_restores_all doc) as H. decompose [and] H. match goal with Hs : forall e : or_expr, P_or doc e |- _ => apply Hs end. Qed.

Lemma eval_args_len l : forall n c vs c', eval_args doc l n c = (Ok vs, c') -> len vs = expr_list_len l.
Proof.
  induction l as [|e t IH]; intros n c vs c' H.
  - rewrite eval_args_nil in H. inversion H. reflexivity.
  - rewrite eval_args_cons in H. apply bindM_ok_inv in H. destruct H as [v [c1 [H1 H2]]].
    apply bindM_ok_inv in H2. destruct H2 as [vs' [c2 [H2 H3]]]. inversion H3; subst.
    cbn [len expr_list_len]. rewrite (IH n c1 vs' c' H2). lia.
Qed.

Lemma args_nz_values name l : forall k n c vs c', args_nz name l k = true -> eval_args doc l n c = (Ok vs, c') ->
  forall i v, nth_error vs i = Some v -> fn_str_param name (k + i) = true -> not_negzero v.
Proof.
  induction l as [|e t IH]; intros k n c vs c' Hz H i v Hi Hp.
  - rewrite eval_args_nil in H. inversion H; subst. destruct i; discriminate.
  - rewrite eval_args_cons in H. apply bindM_ok_inv in H. destruct H as [v0 [c1 [H1 H2]]].
    apply bindM_ok_inv in H2. destruct H2 as [vs' [c2 [H2 H3]]]. inversion H3; subst.
    cbn [args_nz] in Hz. apply andb_prop in Hz. destruct Hz as [Hz1 Hz2].
    destruct i as [|i]; cbn [nth_error] in Hi.
    + inversion Hi; subst v0. rewrite Nat.add_0_r in Hp. rewrite Hp in Hz1. cbn [negb orb] in Hz1.
      destruct v as [b|l0|x|s0]; cbn [not_negzero]; try exact I.
      destruct x as [[|]| | |]; try exact I. apply (nz_safe_sound doc e n c _ c1 Hz1 H1). reflexivity.
    + apply (IH (S k) n c1 vs' c' Hz2 H2 i v Hi). rewrite <- Nat.add_succ_comm in Hp. exact Hp.
Qed.

End Lemmas.
