(** * C05, round 2: an expression of the syntactic class [nz_safe] (Proofs/XPathRefineSupp.v)
      never evaluates to the NUMBER negative zero.

    The class recurses only through parentheses ([PrimExpr]); the proof follows the chain
    EOr -> EAnd -> ... -> EUnion -> path -> filter -> primary with the one-step equations of
    Proofs/XPathEvalEqs.v:
    - a non-empty operand list at the or / and level, a non-empty list of [=] / [!=] or of
      relational operations gives a boolean (or an error);
    - without operations and without unary minus the value is that of the union expression;
    - a union of zero or at least two paths, a location path, a filtered expression with
      predicates give node-sets;
    - a variable is an error, a string literal a string, a Number of the grammar has no sign
      (so the correctly rounded double has sign [false]);
    - the functions of [nz_fn] give strings, booleans, or numbers of the form [f64_of_N _]. *)
From Coq Require Import List NArith ZArith Bool Lia.
From Coq Require Import Floats.SpecFloat.
From XmlRs Require Import Base.CPred Base.NList Base.Float64.
From XmlRs Require Import Spec.XPathCore Model.XPathFuncs.
From XmlRs Require Import Model.XPathAst Model.XDoc Model.XPathScalar Model.XPathEval.
From XmlRs Require Import Proofs.XPathEvalEqs Proofs.XPathCanon Proofs.XPathFuncsNum Proofs.XPathFuncs
  Proofs.XPathRefineSupp.
Import ListNotations.
Open Scope N_scope.

(** ** numbers that are not the negative zero *)
Definition nzero : f64 := S754_zero true.

Lemma round_aux_false_nz mx ex lx : binary_round_aux prec emax false mx ex lx <> nzero.
Proof.
  unfold binary_round_aux.
  destruct (shr_fexp prec emax mx ex lx) as [mrs1 e1].
  destruct (shr_fexp prec emax (round_nearest_even (shr_m mrs1) (loc_of_shr_record mrs1)) e1 loc_Exact)
    as [mrs2 e2].
  destruct (shr_m mrs2) as [|p|p]; try discriminate.
  destruct (Zle_bool e2 (emax - prec)); discriminate.
Qed.

Lemma f64_of_N_nz k : f64_of_N k <> nzero.
Proof.
  unfold f64_of_N, f64_of_Z. destruct k as [|p]; cbn [Z.of_N binary_normalize]; [discriminate|].
  unfold binary_round.
  destruct (shl_align p 0 (fexp prec emax (Zpos (digits2_pos p) + 0))) as [mz ez].
  apply round_aux_false_nz.
Qed.

Lemma f64_of_ratio_false_nz a d : f64_of_ratio false a d <> nzero.
Proof.
  unfold f64_of_ratio. destruct (a <=? 0)%Z; [discriminate|].
  destruct (Z.div_eucl (a * 2 ^ Z.max 0 (64 + Z.log2 d - Z.log2 a)) d) as [q r].
  apply round_aux_false_nz.
Qed.

Lemma f64_of_decimal_false_nz D k : f64_of_decimal false D k <> nzero.
Proof.
  unfold f64_of_decimal.
  destruct (D <=? 0)%Z; [discriminate|].
  destruct (310 <? k)%Z; [discriminate|].
  destruct (k + Z.log2 D / 3 + 1 <? -330)%Z; [discriminate|].
  destruct (0 <=? k)%Z; apply f64_of_ratio_false_nz.
Qed.

(** a Number of the grammar has no sign *)
Lemma parse_number_unsigned s neg D k :
  fst (strip_char 45 s) = false -> existsb is_ws s = false ->
  xp_parse_number s = Some (neg, D, k) -> neg = false.
Proof.
  intros Hm Hw. unfold xp_parse_number. rewrite (drop_while_no_ws s Hw).
  destruct (strip_char 45 s) as [ng s2]. cbn [fst] in Hm. subst ng.
  destruct (span is_digit s2) as [ip s3].
  destruct (strip_char 46 s3) as [dot s4].
  destruct dot.
  - destruct (span is_digit s4) as [fp s5].
    destruct (all_ws s5 && (nonempty ip || nonempty fp)); intros E; [|discriminate].
    injection E as E1 E2 E3. symmetry. exact E1.
  - destruct (all_ws s3 && nonempty ip); intros E; [|discriminate].
    injection E as E1 E2 E3. symmetry. exact E1.
Qed.

Lemma lit_ok_parse s : lit_ok s = true -> exists D k, rust_parse_f64 s = Some (f64_of_decimal false D k).
Proof.
  unfold lit_ok. destruct (spec_literal s) as [v| | |] eqn:E; try discriminate. intros _.
  pose proof (literal_refines s v E) as HM.
  unfold spec_literal in E.
  destruct (fst (strip_char 45 s) || existsb is_ws s) eqn:E0; [discriminate|].
  apply orb_false_iff in E0. destruct E0 as [Em Ew].
  destruct (xp_parse_number s) as [[[neg D] k]|] eqn:EP; [|discriminate].
  pose proof (parse_number_unsigned s neg D k Em Ew EP) as Hneg. subst neg.
  injection E as E. subst v.
  unfold model_literal in HM. destruct (rust_parse_f64 s) as [y|]; [|discriminate].
  injection HM as HM. subst y. exists D, k. reflexivity.
Qed.

(** ** values *)
Definition nzv (v : xvalue) : Prop := match v with XNum x => x <> nzero | _ => True end.

Lemma isb_nzv v : is_bool v = true -> nzv v.
Proof. destruct v; intros H; try discriminate H. exact I. Qed.

Lemma isn_nzv v : is_node v = true -> nzv v.
Proof. destruct v; intros H; try discriminate H. exact I. Qed.

Lemma bind_ok_inv {A B} (r : res A) (f : A -> res B) v :
  bind r f = Ok v -> exists a, r = Ok a /\ f a = Ok v.
Proof. destruct r as [a|e| |]; cbn [bind]; intros H; try discriminate H. exists a. split; [reflexivity|exact H]. Qed.

(** ** function calls *)
Lemma resolve_fn_prefixed ns p l k local : resolve_fn ns (QPrefixed p l) k = Ok local -> False.
Proof.
  unfold resolve_fn, fn_key, expanded_name. destruct (ns_lookup ns (Some p)) as [u|]; cbn [bind]; intros H; discriminate H.
Qed.

Lemma resolve_fn_unprefixed ns name k local : resolve_fn ns (QUnprefixed name) k = Ok local -> local = name.
Proof.
  unfold resolve_fn, fn_key. cbn [bind].
  destruct (find_func name) as [[mn mx]|]; [|intros H; discriminate H].
  destruct ((k <? mn) || match mx with Some m => m <? k | None => false end); intros H; [discriminate H|].
  injection H as H. symmetry. exact H.
Qed.

Lemma fn_names_nz (doc : xdoc) w args n v : fn_names doc w args n = Ok v -> nzv v.
Proof.
  unfold fn_names. intros H. apply bind_ok_inv in H. destruct H as [l [_ H]].
  cbv beta in H. destruct l as [|x t]; [injection H as H; subst v; exact I|].
  cbv beta in H.
  destruct (XDoc.name_of doc x) as [| |local prefix uri]; [injection H as H; subst v; exact I|discriminate H|].
  destruct (w =? 0); [injection H as H; subst v; exact I|].
  destruct (w =? 1); [injection H as H; subst v; exact I|].
  destruct prefix as [p|]; [|injection H as H; subst v; exact I].
  destruct (str_eqb p s_xmlns); injection H as H; subst v; exact I.
Qed.

(** the scalar functions other than number, floor, ceiling, round *)
Lemma scalar_fn_nz cs local sargs v :
  str_eqb local fn_number = false -> str_eqb local fn_floor = false ->
  str_eqb local fn_ceiling = false -> str_eqb local fn_round = false ->
  scalar_fn cs local sargs = ROk v -> nzv (of_scalar v).
Proof.
  intros N1 N2 N3 N4. unfold scalar_fn. rewrite N1, N2, N3, N4.
  destruct (str_eqb local fn_string); [unfold m_string; intros H; injection H as H; subst v; exact I|].
  destruct (str_eqb local fn_concat); [unfold m_concat; intros H; injection H as H; subst v; exact I|].
  destruct (str_eqb local fn_starts_with).
  { unfold m_starts_with. destruct sargs as [|a [|b t]]; intros H; try discriminate H. injection H as H; subst v; exact I. }
  destruct (str_eqb local fn_contains).
  { unfold m_contains. destruct sargs as [|a [|b t]]; intros H; try discriminate H. injection H as H; subst v; exact I. }
  destruct (str_eqb local fn_substring_before).
  { unfold m_substring_before. destruct sargs as [|a [|b t]]; intros H; try discriminate H. injection H as H; subst v; exact I. }
  destruct (str_eqb local fn_substring_after).
  { unfold m_substring_after. destruct sargs as [|a [|b t]]; intros H; try discriminate H. injection H as H; subst v; exact I. }
  destruct (str_eqb local fn_substring).
  { unfold m_substring. destruct sargs as [|a [|b t]]; intros H; try discriminate H. injection H as H; subst v; exact I. }
  destruct (str_eqb local fn_string_length).
  { unfold m_string_length. intros H. injection H as H; subst v. cbn [of_scalar nzv]. apply f64_of_N_nz. }
  destruct (str_eqb local fn_normalize_space); [unfold m_normalize_space; intros H; injection H as H; subst v; exact I|].
  destruct (str_eqb local fn_translate).
  { unfold m_translate. destruct sargs as [|a [|b [|c0 t]]]; intros H; try discriminate H. injection H as H; subst v; exact I. }
  destruct (str_eqb local fn_boolean).
  { unfold m_boolean. destruct sargs as [|a t]; intros H; try discriminate H. injection H as H; subst v; exact I. }
  destruct (str_eqb local fn_not).
  { unfold m_not. destruct sargs as [|a t]; intros H; try discriminate H. injection H as H; subst v; exact I. }
  destruct (str_eqb local fn_true); [unfold m_ftrue; intros H; injection H as H; subst v; exact I|].
  destruct (str_eqb local fn_false); [unfold m_ffalse; intros H; injection H as H; subst v; exact I|].
  intros H; discriminate H.
Qed.

(** every function other than sum, number, floor, ceiling, round *)
Lemma exec_fn_nz (doc : xdoc) local args n c v c' :
  str_eqb local fn_sum = false ->
  str_eqb local fn_number = false -> str_eqb local fn_floor = false ->
  str_eqb local fn_ceiling = false -> str_eqb local fn_round = false ->
  exec_fn doc local args n c = (Ok v, c') -> nzv v.
Proof.
  intros N0 N1 N2 N3 N4. unfold exec_fn. rewrite N0.
  destruct (str_eqb local fn_last).
  { intros H. injection H as H _. subst v. cbn [nzv]. apply f64_of_N_nz. }
  destruct (str_eqb local fn_position).
  { intros H. injection H as H _. subst v. cbn [nzv]. apply f64_of_N_nz. }
  destruct (str_eqb local fn_count).
  { intros H. injection H as H _. destruct args as [|[b|l|x|s] t]; try discriminate H.
    injection H as H. subst v. cbn [nzv]. apply f64_of_N_nz. }
  destruct (str_eqb local fn_id).
  { intros H. injection H as H _. destruct (root_of doc n) as [|d t].
    - injection H as H. subst v. exact I.
    - destruct (has_doctype doc d); [discriminate H|]. injection H as H. subst v. exact I. }
  destruct (str_eqb local fn_local_name).
  { intros H. injection H as H _. eapply fn_names_nz. exact H. }
  destruct (str_eqb local fn_namespace_uri).
  { intros H. injection H as H _. eapply fn_names_nz. exact H. }
  destruct (str_eqb local fn_name).
  { intros H. injection H as H _. eapply fn_names_nz. exact H. }
  destruct (str_eqb local fn_lang).
  { intros H. injection H as H _. destruct args as [|a t]; [discriminate H|].
    apply bind_ok_inv in H. destruct H as [s [_ H]].
    apply bind_ok_inv in H. destruct H as [b [_ H]]. injection H as H. subst v. exact I. }
  intros H. injection H as H _.
  apply bind_ok_inv in H. destruct H as [sargs [_ H]].
  apply bind_ok_inv in H. destruct H as [cs [_ H]].
  destruct (scalar_fn cs local sargs) as [v0|[| |]| |] eqn:ES; try discriminate H.
  injection H as H. subst v. eapply scalar_fn_nz; [exact N1|exact N2|exact N3|exact N4|exact ES].
Qed.

Lemma nz_fn_exec (doc : xdoc) name args n c v c' :
  nz_fn name = true -> exec_fn doc name args n c = (Ok v, c') -> nzv v.
Proof.
  unfold nz_fn. destruct (fname_of name library) as [id|] eqn:E; [|intros H; discriminate H].
  pose proof (fname_of_is_name name id E) as Hn. subst name. clear E.
  intros Hid. apply exec_fn_nz; destruct id; try discriminate Hid; reflexivity.
Qed.


(** ** the class, level by level *)
Definition nz_prim (e : primary_expr) : bool :=
  match e with
  | PrimExpr x => nz_safe x
  | PrimNumber s => lit_ok s
  | PrimFunction (QUnprefixed name) _ => nz_fn name
  | _ => true
  end.

Definition nz_filter (e : filter_expr) : bool :=
  match e with EFilter prim ExprNil => nz_prim prim | EFilter _ (ExprCons _ _) => true end.

Definition nz_path (e : path_expr) : bool :=
  match e with PFilter f => nz_filter f | _ => true end.

Definition nz_union (e : union_expr) : bool :=
  match e with EUnion (PathCons p PathNil) => nz_path p | _ => true end.

Definition nz_unary (e : unary_expr) : bool :=
  match e with EUnary inv u => N.eqb inv 0 && nz_union u end.

Definition nz_mul (e : mul_expr) : bool :=
  match e with EMul o ops => mulop_list_nil ops && nz_unary o end.

Definition nz_add (e : add_expr) : bool :=
  match e with EAdd o ops => addop_list_nil ops && nz_mul o end.

Definition nz_rel (e : rel_expr) : bool :=
  match e with ERel o ops => negb (relop_list_nil ops) || nz_add o end.

Definition nz_eq (e : eq_expr) : bool :=
  match e with EEq o ops => negb (eqop_list_nil ops) || nz_rel o end.

Definition nz_and (e : and_expr) : bool :=
  match e with EAnd f r => negb (eq_list_nil r) || nz_eq f end.

Lemma nz_safe_levels f r : nz_safe (EOr f r) = negb (and_list_nil r) || nz_and f.
Proof.
  destruct f as [[[[[[inv [pl]] mops] aops] rops] eops] eqs].
  destruct r as [|a0 r0]; destruct eqs as [|a1 r1]; destruct eops as [|o2 a2 r2];
    destruct rops as [|o3 a3 r3]; try reflexivity;
    destruct aops as [|o4 a4 r4]; destruct mops as [|o5 a5 r5]; try reflexivity;
    destruct inv as [|pinv]; try reflexivity.
  destruct pl as [|p t]; [reflexivity|].
  destruct p as [|[prim [|p1 t1]]|l|op l|f1 op l]; destruct t as [|p2 t2]; try reflexivity.
Qed.

Definition SP {X} (ok : X -> bool) (ev : X -> node -> M xvalue) (x : X) : Prop :=
  ok x = true -> forall n c v c', ev x n c = (Ok v, c') -> nzv v.

Definition BL {X} (isnil : X -> bool) (ev : X -> xvalue -> node -> M xvalue) (l : X) : Prop :=
  (forall b n c v c', ev l (XBool b) n c = (Ok v, c') -> is_bool v = true) /\
  (isnil l = false -> forall op1 n c v c', ev l op1 n c = (Ok v, c') -> is_bool v = true).

Theorem nz_safe_all (doc : xdoc) :
  (forall e, SP nz_safe (eval_or_expr doc) e) /\ (forall l, BL and_list_nil (eval_or_rest doc) l) /\
  (forall e, SP nz_and (eval_and_expr doc) e) /\ (forall l, BL eq_list_nil (eval_and_rest doc) l) /\
  (forall e, SP nz_eq (eval_eq_expr doc) e) /\ (forall l, BL eqop_list_nil (eval_eq_ops doc) l) /\
  (forall e, SP nz_rel (eval_rel_expr doc) e) /\ (forall l, BL relop_list_nil (eval_rel_ops doc) l) /\
  (forall e, SP nz_add (eval_add_expr doc) e) /\ (forall l : addop_list, True) /\
  (forall e, SP nz_mul (eval_mul_expr doc) e) /\ (forall l : mulop_list, True) /\
  (forall e, SP nz_unary (eval_unary_expr doc) e) /\ (forall e, SP nz_union (eval_union_expr doc) e) /\
  (forall l : path_list,
     (forall acc n c v c', eval_union_rest doc l acc n c = (Ok v, c') -> is_node v = true) /\
     SP nz_union (eval_union_expr doc) (EUnion l)) /\
  (forall e, SP nz_path (eval_path_expr doc) e) /\ (forall e, SP nz_filter (eval_filter_expr doc) e) /\
  (forall e, SP nz_prim (eval_primary_expr doc) e) /\
  (forall l : expr_list, True) /\ (forall e : rel_path, True) /\ (forall l : stepop_list, True) /\
  (forall s : step, True).
Proof.
  apply ast_mutind; unfold SP, BL; try (intros; exact I).
  - (* EOr *)
    intros f Hf r [_ Hr] Hs n c v c' H. rewrite nz_safe_levels in Hs. rewrite eval_or_expr_eq in H.
    apply bindM_ok_inv in H. destruct H as [op1 [c1 [H1 H2]]].
    destruct (and_list_nil r) eqn:En.
    + destruct r as [|a t]; [|discriminate En]. cbn [negb orb] in Hs. rewrite eval_or_rest_nil in H2.
      apply ret_ok_inv in H2. destruct H2 as [H2 _]. subst v. eapply Hf; [exact Hs|exact H1].
    + apply isb_nzv. eapply Hr; [reflexivity|exact H2].
  - (* AndNil *)
    split.
    + intros b n c v c' H. rewrite eval_or_rest_nil in H. apply ret_ok_inv in H. destruct H as [H _]. subst v. reflexivity.
    + intros En. discriminate En.
  - (* AndCons *)
    intros a _ t [Ht _].
    assert (Hc : forall op1 n c v c', eval_or_rest doc (AndCons a t) op1 n c = (Ok v, c') -> is_bool v = true).
    { intros op1 n c v c' H. rewrite eval_or_rest_cons in H. destruct (val_to_bool op1).
      - apply ret_ok_inv in H. destruct H as [H _]. subst v. reflexivity.
      - apply bindM_ok_inv in H. destruct H as [v1 [c1 [H1 H2]]]. eapply Ht. exact H2. }
    split; [intros b; apply Hc|intros _; exact Hc].
  - (* EAnd *)
    intros f Hf r [_ Hr] Hs n c v c' H. cbn [nz_and] in Hs. rewrite eval_and_expr_eq in H.
    apply bindM_ok_inv in H. destruct H as [op1 [c1 [H1 H2]]].
    destruct (eq_list_nil r) eqn:En.
    + destruct r as [|a t]; [|discriminate En]. cbn [negb orb] in Hs. rewrite eval_and_rest_nil in H2.
      apply ret_ok_inv in H2. destruct H2 as [H2 _]. subst v. eapply Hf; [exact Hs|exact H1].
    + apply isb_nzv. eapply Hr; [reflexivity|exact H2].
  - (* EqNil *)
    split.
    + intros b n c v c' H. rewrite eval_and_rest_nil in H. apply ret_ok_inv in H. destruct H as [H _]. subst v. reflexivity.
    + intros En. discriminate En.
  - (* EqCons *)
    intros a _ t [Ht _].
    assert (Hc : forall op1 n c v c', eval_and_rest doc (EqCons a t) op1 n c = (Ok v, c') -> is_bool v = true).
    { intros op1 n c v c' H. rewrite eval_and_rest_cons in H. destruct (negb (val_to_bool op1)).
      - apply ret_ok_inv in H. destruct H as [H _]. subst v. reflexivity.
      - apply bindM_ok_inv in H. destruct H as [v1 [c1 [H1 H2]]]. eapply Ht. exact H2. }
    split; [intros b; apply Hc|intros _; exact Hc].
  - (* EEq *)
    intros o Ho ops [_ Hops] Hs n c v c' H. cbn [nz_eq] in Hs. rewrite eval_eq_expr_eq in H.
    apply bindM_ok_inv in H. destruct H as [op1 [c1 [H1 H2]]].
    destruct (eqop_list_nil ops) eqn:En.
    + destruct ops as [|op a t]; [|discriminate En]. cbn [negb orb] in Hs. rewrite eval_eq_ops_nil in H2.
      apply ret_ok_inv in H2. destruct H2 as [H2 _]. subst v. eapply Ho; [exact Hs|exact H1].
    + apply isb_nzv. eapply Hops; [reflexivity|exact H2].
  - (* EqopNil *)
    split.
    + intros b n c v c' H. rewrite eval_eq_ops_nil in H. apply ret_ok_inv in H. destruct H as [H _]. subst v. reflexivity.
    + intros En. discriminate En.
  - (* EqopCons *)
    intros op e _ t [Ht _].
    assert (Hc : forall op1 n c v c', eval_eq_ops doc (EqopCons op e t) op1 n c = (Ok v, c') -> is_bool v = true).
    { intros op1 n c v c' H. rewrite eval_eq_ops_cons in H.
      apply bindM_ok_inv in H. destruct H as [op2 [c1 [H1 H2]]].
      apply bindM_ok_inv in H2. destruct H2 as [r [c2 [H2 H3]]]. eapply Ht. exact H3. }
    split; [intros b; apply Hc|intros _; exact Hc].
  - (* ERel *)
    intros o Ho ops [_ Hops] Hs n c v c' H. cbn [nz_rel] in Hs. rewrite eval_rel_expr_eq in H.
    apply bindM_ok_inv in H. destruct H as [op1 [c1 [H1 H2]]].
    destruct (relop_list_nil ops) eqn:En.
    + destruct ops as [|op a t]; [|discriminate En]. cbn [negb orb] in Hs. rewrite eval_rel_ops_nil in H2.
      apply ret_ok_inv in H2. destruct H2 as [H2 _]. subst v. eapply Ho; [exact Hs|exact H1].
    + apply isb_nzv. eapply Hops; [reflexivity|exact H2].
  - (* RelopNil *)
    split.
    + intros b n c v c' H. rewrite eval_rel_ops_nil in H. apply ret_ok_inv in H. destruct H as [H _]. subst v. reflexivity.
    + intros En. discriminate En.
  - (* RelopCons *)
    intros op e _ t [Ht _].
    assert (Hc : forall op1 n c v c', eval_rel_ops doc (RelopCons op e t) op1 n c = (Ok v, c') -> is_bool v = true).
    { intros op1 n c v c' H. rewrite eval_rel_ops_cons in H.
      apply bindM_ok_inv in H. destruct H as [op2 [c1 [H1 H2]]].
      apply bindM_ok_inv in H2. destruct H2 as [r [c2 [H2 H3]]]. eapply Ht. exact H3. }
    split; [intros b; apply Hc|intros _; exact Hc].
  - (* EAdd *)
    intros o Ho ops _ Hs n c v c' H. cbn [nz_add] in Hs. apply andb_true_iff in Hs. destruct Hs as [En Hs].
    destruct ops as [|op a t]; [|discriminate En].
    rewrite eval_add_expr_eq in H. apply bindM_ok_inv in H. destruct H as [op1 [c1 [H1 H2]]].
    rewrite eval_add_ops_nil in H2. apply ret_ok_inv in H2. destruct H2 as [H2 _]. subst v.
    eapply Ho; [exact Hs|exact H1].
  - (* EMul *)
    intros o Ho ops _ Hs n c v c' H. cbn [nz_mul] in Hs. apply andb_true_iff in Hs. destruct Hs as [En Hs].
    destruct ops as [|op a t]; [|discriminate En].
    rewrite eval_mul_expr_eq in H. apply bindM_ok_inv in H. destruct H as [op1 [c1 [H1 H2]]].
    rewrite eval_mul_ops_nil in H2. apply ret_ok_inv in H2. destruct H2 as [H2 _]. subst v.
    eapply Ho; [exact Hs|exact H1].
  - (* EUnary *)
    intros inv_ u Hu Hs n c v c' H. cbn [nz_unary] in Hs. apply andb_true_iff in Hs. destruct Hs as [Ei Hs].
    apply N.eqb_eq in Ei. subst inv_.
    rewrite eval_unary_expr_eq in H. apply bindM_ok_inv in H. destruct H as [v1 [c1 [H1 H2]]].
    apply lift_ok_inv in H2. destruct H2 as [H2 _]. cbn [N.to_nat neg_times] in H2.
    injection H2 as H2. subst v. eapply Hu; [exact Hs|exact H1].
  - (* EUnion *)
    intros l [_ Hl]. exact Hl.
  - (* PathNil *)
    split.
    + intros acc n c v c' H. rewrite eval_union_rest_nil in H. apply ret_ok_inv in H. destruct H as [H _]. subst v. reflexivity.
    + intros _ n c v c' H. rewrite eval_union_expr_nil in H. apply ret_ok_inv in H. destruct H as [H _]. subst v. exact I.
  - (* PathCons *)
    intros p Hp t [Ht _].
    assert (Hc : forall acc n c v c', eval_union_rest doc (PathCons p t) acc n c = (Ok v, c') -> is_node v = true).
    { intros acc n c v c' H. rewrite eval_union_rest_cons in H.
      apply bindM_ok_inv in H. destruct H as [v1 [c1 [H1 H2]]].
      destruct v1 as [b|l|x|s]; try (apply lift_ok_inv in H2; destruct H2 as [H2 _]; discriminate H2).
      eapply Ht. exact H2. }
    split; [exact Hc|].
    intros Hs n c v c' H. destruct t as [|p2 t2].
    + cbn [nz_union] in Hs. rewrite eval_union_expr_one in H.
      apply bindM_ok_inv in H. destruct H as [v1 [c1 [H1 H2]]].
      pose proof (Hp Hs n c v1 c1 H1) as Hv1.
      destruct v1 as [b|l|x|s]; apply ret_ok_inv in H2; destruct H2 as [H2 _]; subst v; try exact I. exact Hv1.
    + rewrite eval_union_expr_many in H.
      apply bindM_ok_inv in H. destruct H as [v1 [c1 [H1 H2]]].
      destruct v1 as [b|l|x|s]; try (apply lift_ok_inv in H2; destruct H2 as [H2 _]; discriminate H2).
      apply isn_nzv. eapply Ht. exact H2.
  - (* PRoot *)
    intros _ n c v c' H. rewrite eval_path_expr_root in H. apply ret_ok_inv in H. destruct H as [H _]. subst v. exact I.
  - (* PFilter *)
    intros f Hf Hs n c v c' H. cbn [nz_path] in Hs. rewrite eval_path_expr_filter in H. eapply Hf; [exact Hs|exact H].
  - (* PRel *)
    intros l _ _ n c v c' H. rewrite eval_path_expr_rel in H.
    apply bindM_ok_inv in H. destruct H as [col [c1 [H1 H2]]].
    apply ret_ok_inv in H2. destruct H2 as [H2 _]. subst v. exact I.
  - (* PAbs *)
    intros op l _ _ n c v c' H. rewrite eval_path_expr_abs in H.
    apply bindM_ok_inv in H. destruct H as [nodes [c1 [H1 H2]]].
    apply bindM_ok_inv in H2. destruct H2 as [col [c2 [H2 H3]]].
    apply ret_ok_inv in H3. destruct H3 as [H3 _]. subst v. exact I.
  - (* PFilterPath *)
    intros f _ op l _ _ n c v c' H. rewrite eval_path_expr_filterpath in H.
    apply bindM_ok_inv in H. destruct H as [v1 [c1 [H1 H2]]].
    destruct v1 as [b|fl|x|s]; try (apply lift_ok_inv in H2; destruct H2 as [H2 _]; discriminate H2).
    apply bindM_ok_inv in H2. destruct H2 as [nodes [c2 [H2 H3]]].
    apply bindM_ok_inv in H3. destruct H3 as [col [c3 [H3 H4]]].
    apply ret_ok_inv in H4. destruct H4 as [H4 _]. subst v. exact I.
  - (* EFilter *)
    intros prim Hprim preds _ Hs n c v c' H. destruct preds as [|p t].
    + cbn [nz_filter] in Hs. rewrite eval_filter_expr_nopred in H. eapply Hprim; [exact Hs|exact H].
    + rewrite eval_filter_expr_preds in H.
      apply bindM_ok_inv in H. destruct H as [v1 [c1 [H1 H2]]].
      destruct v1 as [b|l|x|s]; try (apply lift_ok_inv in H2; destruct H2 as [H2 _]; discriminate H2).
      apply bindM_ok_inv in H2. destruct H2 as [r [c2 [H2 H3]]].
      apply ret_ok_inv in H3. destruct H3 as [H3 _]. subst v. exact I.
  - (* $q *)
    intros q _ n c v c' H. rewrite eval_primary_expr_variable in H.
    destruct (expanded_name (c_ns c) q) as [[[local px] uri]|e| |]; discriminate H.
  - (* PrimExpr *)
    intros x Hx Hs n c v c' H. cbn [nz_prim] in Hs. rewrite eval_primary_expr_expr in H. eapply Hx; [exact Hs|exact H].
  - (* PrimLiteral *)
    intros s _ n c v c' H. rewrite eval_primary_expr_literal in H. apply ret_ok_inv in H. destruct H as [H _]. subst v. exact I.
  - (* PrimNumber *)
    intros s Hs n c v c' H. cbn [nz_prim] in Hs. destruct (lit_ok_parse s Hs) as [D [k E]].
    rewrite eval_primary_expr_number, E in H. apply ret_ok_inv in H. destruct H as [H _]. subst v.
    cbn [nzv]. apply f64_of_decimal_false_nz.
  - (* PrimFunction *)
    intros name args _ Hs n c v c' H. rewrite eval_primary_expr_function in H.
    destruct (resolve_fn (c_ns c) name (expr_list_len args)) as [local|e| |] eqn:ER; try discriminate H.
    apply bindM_ok_inv in H. destruct H as [vs [c1 [H1 H2]]].
    destruct name as [px l|name].
    + exfalso. eapply resolve_fn_prefixed. exact ER.
    + apply resolve_fn_unprefixed in ER. subst local. cbn [nz_prim] in Hs.
      eapply nz_fn_exec; [exact Hs|exact H2].
Qed.

Theorem nz_safe_sound : forall (doc : xdoc) (e : or_expr) (n : node) (c : ctx) (x : f64) (c' : ctx),
  nz_safe e = true -> eval_or_expr doc e n c = (Ok (XNum x), c') -> x <> S754_zero true.
Proof.
  intros doc e n c x c' Hs H. destruct (nz_safe_all doc) as [Hor _].
  exact (Hor e Hs n c (XNum x) c' H).
Qed.

Print Assumptions nz_safe_sound.
